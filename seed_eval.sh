#!/bin/bash
# usage: seed_eval.sh Cxx [extra check args]  -- applies /tmp/seed-Cxx-out/patch.diff (or $PATCHFILE, e.g. seeded/Cxx_2/patch.diff) to /repo, runs the quick check, reverts.
set -u
P=$1; shift
cd /verif
if ! git -C /repo diff --quiet; then echo "/repo not clean"; exit 2; fi
O=/tmp/${SEEDPFX:-seed}-$P-out; mkdir -p $O
git -C /repo apply ${PATCHFILE:-$O/patch.diff} || { echo "patch does not apply"; exit 2; }
start=$(date +%s)
./check $P --tier quick "$@" > /tmp/${SEEDPFX:-seed}-$P-out/check_quick.log 2>&1
rc=$?
end=$(date +%s)
git -C /repo checkout -- .
echo "seed $P: check exit=$rc wall=$((end-start))s"
grep -E "^VIOLATION|reason:" /tmp/${SEEDPFX:-seed}-$P-out/check_quick.log | cut -c1-260 | head -6
rm -rf /verif/replays/$P/new
