#!/bin/bash
# usage: seed_eval.sh <seed dir name under seeded/, e.g. C07 or C07_2> [extra check args]
# Applies seeded/<name>/patch.diff to a scratch worktree of /repo (outside /repo and /verif), runs the quick check of the
# property against that tree (VERIF_REPO), prints the verdict lines, removes the worktree. /repo itself is never touched.
set -u
N=$1; shift
P=${N:0:3}
cd /verif
WT=/tmp/seedeval-$N-$$
git -C /repo worktree add -f --detach $WT HEAD -q || exit 2
trap 'git -C /repo worktree remove --force '$WT' 2>/dev/null; git -C /repo worktree prune' EXIT
git -C $WT apply /verif/seeded/$N/patch.diff || { echo "patch does not apply"; exit 2; }
start=$(date +%s)
VERIF_REPO=$WT ./check $P --tier quick --rundir seedeval-$N "$@" > /tmp/seedeval-$N.log 2>&1
rc=$?
end=$(date +%s)
echo "seed $N: check exit=$rc wall=$((end-start))s"
grep -E "^VIOLATION|reason:" /tmp/seedeval-$N.log | cut -c1-260 | head -6
rm -rf /verif/replays/$P/new /verif/build/seedeval-$N
git -C /verif checkout -- evidence/$P.json 2>/dev/null
exit 0
