#!/usr/bin/env python3
"""Regenerates MANIFEST.json from vlib/manifest_data.py (kept in one place so it stays valid)."""
import json, os, sys
sys.path.insert(0, os.path.dirname(os.path.abspath(__file__)))
from vlib import manifest_data as md
import glob, importlib
import subprocess
_here = os.path.dirname(os.path.abspath(__file__))
_tracked = set(subprocess.run(["git", "-C", _here, "ls-files", "vlib"], stdout=subprocess.PIPE, text=True).stdout.split())
for _m in sorted(glob.glob(os.path.join(_here, "vlib", "reg_C*.py"))):
    if os.path.basename(_m)[4:7] not in md.CLAIMED:
        continue  # only checks that are finished and pass on the unchanged tree are claimed
    mod = importlib.import_module("vlib." + os.path.basename(_m)[:-3])
    for pid, c in getattr(mod, "MANIFEST", {}).items():
        md.CHECKS[pid] = c
        md.ENGINES_SERVE.setdefault(c["engine"], []).append(pid)
for e in md.ENGINES:
    e["serves_properties"] = sorted(set(e.get("serves_properties", []) + md.ENGINES_SERVE.get(e["name"], [])))
props = [json.loads(l) for l in open(os.path.join(os.path.dirname(os.path.abspath(__file__)), "properties.jsonl"))]
ids = [p["id"] for p in props]
checks = []
for pid in ids:
    if pid in md.CHECKS:
        c = md.CHECKS[pid]
        checks.append({
            "property_id": pid,
            "quick_cmd": "./check %s --tier quick" % pid,
            "thorough_cmd": "./check %s --tier thorough" % pid,
            "evidence_file": "/verif/evidence/%s.json" % pid,
            "replay_cmd_template": "./check %s --replay {path}" % pid,
            "engine": c["engine"],
            "level_claimed": {"category": c.get("category", "exploration"), "text": c["text"], "design_ref": c["design_ref"]},
            "level_note": c["note"],
            "technique": c["technique"],
        })
na = [{"property_id": pid, "reason": md.NOT_APPLICABLE.get(pid, "check not built yet in this round; no claim is made")} for pid in ids if pid not in md.CHECKS]
m = {
    "version": 1,
    "setup_cmd": "./check --setup",
    "hooks": md.HOOKS,
    "engines": md.ENGINES,
    "checks": checks,
    "notes": md.NOTES,
    "not_applicable": na,
}
json.dump(m, open(os.path.join(os.path.dirname(os.path.abspath(__file__)), "MANIFEST.json"), "w"), indent=1)
print("MANIFEST.json: %d checks, %d not_applicable" % (len(checks), len(na)))
