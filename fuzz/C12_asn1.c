/* C12 / asn1: asn_parse (utils/asn1.h), offset-chained over the buffer and walked recursively
 * over constructed values.
 * input: [flags][start offset lo][start offset hi] payload...
 *   flags bit0: pass offset pointer (else NULL => parse at 0), bits1..7: which out pointers are NULL
 * Oracle: bounds (ASan, exact-size block) + on rc 0: hdr_size >= 2, data == buf + off + hdr_size,
 * data + data_size inside the buffer, new offset == off + hdr_size + data_size <= buf_size
 * (strictly increasing => the chained walk terminates).
 */
#include <sys/param.h>
#include <sys/types.h>
#include <inttypes.h>
#include <string.h>
#include <errno.h>
#include "utils/asn1.h"
#include "C12_common.h"

static unsigned long elems;

/* known-finding classifier (by construction from the input bytes): identifier octet of class
 * UNIVERSAL with the long-form tag marker whose decoded tag number is >= 32 -- asn_parse uses the
 * tag as an index into the 32-entry table asn_class_uni_ps[]. */
static int
uni_long_tag_ge32(const uint8_t *b, size_t n, size_t off) {
	size_t tag = 0, i;

	if (off >= n || 2 > (n - off))
		return (0);
	if (0 != (b[off] & 0xc0) || 0x1f != (b[off] & 0x1f))
		return (0);
	for (i = off + 1; i < n; i ++) {
		tag = (tag << 7) | (b[i] & 0x7f);
		if (0 == (b[i] & 0x80))
			break;
	}
	return (tag >= 32);
}

static void
walk(uint8_t *buf, size_t n, size_t start, int use_off, uint8_t nulls, int depth) {
	size_t off = start, prev, hdr, tag, dsz, iter = 0;
	uint8_t cls, ps, *dt;
	int rc;

	for (;;) {
		prev = off;
		hdr = C12_SENT; tag = C12_SENT; dsz = C12_SENT; dt = NULL; cls = 0xff; ps = 0xff;
		if (uni_long_tag_ge32(buf, n, use_off ? off : 0)) {
			fz_label("asn1:universal long-form tag >= 32");
			if (fz_known("asn1_uni_longtag_index")) {
				fz_label("excl:asn1_uni_longtag_index");
				return;
			}
		}
		rc = asn_parse(buf, n, (use_off ? &off : NULL),
		    ((nulls & 1) ? NULL : &hdr), ((nulls & 2) ? NULL : &cls), ((nulls & 4) ? NULL : &ps),
		    ((nulls & 8) ? NULL : &tag), &dt, &dsz);
		if (0 != rc) {
			FZ_ASSERT(off == prev, "asn_parse: offset changed on error");
			FZ_ASSERT(EINVAL == rc || ESPIPE == rc || EBADMSG == rc || EDOM == rc || EOVERFLOW == rc,
			    "asn_parse: unexpected rc");
			if (ESPIPE == rc)
				fz_label("asn1:walked to the end");
			return;
		}
		elems ++;
		if (!use_off)
			prev = 0;
		FZ_ASSERT(NULL != dt && dsz != C12_SENT, "asn_parse: rc 0 without data/data_size");
		FZ_ASSERT(FZ_INSIDE(dt, 0, buf, n) && (size_t)(dt - buf) >= prev + 2, "asn_parse: data pointer outside the buffer");
		if (0 == (nulls & 1))
			FZ_ASSERT(hdr >= 2 && dt == buf + prev + hdr, "asn_parse: data != buf + offset + hdr_size");
		if (!FZ_INSIDE(dt, dsz, buf, n)) {
			/* classifier: the length octet is the last header octet; short form = high bit clear */
			fz_label("asn1:data_size beyond the buffer");
			FZ_ASSERT(fz_known("asn1_short_len_unchecked") && dsz < 0x80 && dsz == dt[-1],
			    "asn_parse: returned data + data_size lies outside the buffer");
			fz_label("excl:asn1_short_len_unchecked");
			return;
		}
		if (use_off) {
			FZ_ASSERT(off == (size_t)(dt - buf) + dsz, "asn_parse: new offset != end of the element");
			FZ_ASSERT(off > prev && off <= n, "asn_parse: offset did not advance / left the buffer");
		}
		(void)c12_touch(dt, dsz);
		if (0 == (nulls & 4) && 0 != ps && depth < 24 && 0 != dsz) {
			fz_label("asn1:constructed");
			/* constructed: the content is itself a sequence of elements (own exact-size block) */
			{
				uint8_t *sub = fz_dup(dt, dsz);
				walk(sub, dsz, 0, 1, nulls, depth + 1);
				fz_free(sub, dsz);
			}
		}
		iter ++;
		FZ_ASSERT(iter <= n, "asn_parse: chained walk does not terminate");
		if (!use_off)
			return;
	}
}

int
LLVMFuzzerTestOneInput(const uint8_t *data, size_t size) {
	c12_in_t in = { data, size };
	uint8_t flags, *buf;
	uint16_t so;
	size_t n, start;

	fz_total();
	flags = c12_u8(&in);
	so = c12_u16(&in);
	n = in.n;
	buf = fz_dup(in.p, n);
	/* start offset: mostly 0, sometimes anywhere in 0..n+1 (n => ESPIPE, n+1 => EINVAL) */
	start = (so & 0x8000) ? ((size_t)(so & 0x7fff) % (n + 2)) : 0;
	elems = 0;
	walk(buf, n, start, flags & 1, (uint8_t)(flags >> 1), 0);
	if (1 < elems)
		fz_deep();
	fz_free(buf, n);
	return (0);
}
