/* C09 side target: arbitrary byte strings into ecdsa_pub_key_import_be/le (owner: C09).
 *
 * input  = [curve index][flags][payload...]
 *   flags bit0: little-endian entry point, bit1: split form (payload = x || y halves, two buffers)
 * Every buffer handed to liblcb is an exact-size heap copy (fz_dup), so the first octet outside
 * lands in an ASan redzone ("reads only within the sizes the caller passed").
 * Semantic postconditions on acceptance (oracle = GMP arithmetic on the table's hex strings,
 * independent of liblcb's big numbers):
 *   - infinity only for the single octet 00
 *   - coordinates < p and y^2 = x^3 + ax + b (mod p)              [validated builds; compressed form always]
 *   - n*P = O for the cofactor-4 curves                            [validated builds]
 *   - exporting the point in the same form reproduces the input    [canonical prefixes 02/03/04, raw forms]
 *   - compressed input: parity of the recovered y equals the prefix bit
 */
#include <sys/param.h>
#include <sys/types.h>
#include <stdint.h>
#include <stdlib.h>
#include <string.h>
#include <stdio.h>
#include <errno.h>
#include <inttypes.h>
#include <gmp.h>

#ifndef BN_BIT_LEN
#define BN_BIT_LEN 1408
#endif
#ifndef __unused
#define __unused __attribute__((__unused__))
#endif
#include <crypto/dsa/ecdsa.h>
#include "fz.h"

#define NCURVES (sizeof(ec_curve_str) / sizeof(ec_curve_str[0]))
static ec_curve_t *cv[64];
static int cv_state[64]; /* 0 unknown, 1 ok, 2 failed */
static mpz_t gp[64], ga[64], gb[64], gn[64];

static ec_curve_p
get_curve(size_t i) {
	if (0 == cv_state[i]) {
		char tmp[300];
		cv[i] = (ec_curve_t *)calloc(1, sizeof(ec_curve_t));
		cv_state[i] = (NULL != cv[i] && 0 == ecdsa_curve_from_str(&ec_curve_str[i], cv[i])) ? 1 : 2;
		snprintf(tmp, sizeof(tmp), "%.*s", (int)ec_curve_str[i].num_size, ec_curve_str[i].p); mpz_init_set_str(gp[i], tmp, 16);
		snprintf(tmp, sizeof(tmp), "%.*s", (int)ec_curve_str[i].num_size, ec_curve_str[i].a); mpz_init_set_str(ga[i], tmp, 16);
		snprintf(tmp, sizeof(tmp), "%.*s", (int)ec_curve_str[i].num_size, ec_curve_str[i].b); mpz_init_set_str(gb[i], tmp, 16);
		mpz_init_set_str(gn[i], ec_curve_str[i].n, 16);
	}
	return ((1 == cv_state[i]) ? cv[i] : NULL);
}

/* ---- tiny affine group law over GMP (only for the n*P = O postcondition on h = 4 curves) ---- */
typedef struct { int inf; mpz_t x, y; } gpt;
static void
g_add(gpt *r, const gpt *p, const gpt *q, size_t ci) {
	mpz_t lam, t, x3, y3;
	if (p->inf) { r->inf = q->inf; mpz_set(r->x, q->x); mpz_set(r->y, q->y); return; }
	if (q->inf) { r->inf = p->inf; mpz_set(r->x, p->x); mpz_set(r->y, p->y); return; }
	mpz_inits(lam, t, x3, y3, NULL);
	if (0 == mpz_cmp(p->x, q->x)) {
		mpz_add(t, p->y, q->y); mpz_mod(t, t, gp[ci]);
		if (0 == mpz_sgn(t)) { r->inf = 1; goto out; }
		mpz_mul_ui(t, p->y, 2); mpz_mod(t, t, gp[ci]); mpz_invert(t, t, gp[ci]);
		mpz_mul(lam, p->x, p->x); mpz_mul_ui(lam, lam, 3); mpz_add(lam, lam, ga[ci]); mpz_mul(lam, lam, t); mpz_mod(lam, lam, gp[ci]);
	} else {
		mpz_sub(t, q->x, p->x); mpz_mod(t, t, gp[ci]); mpz_invert(t, t, gp[ci]);
		mpz_sub(lam, q->y, p->y); mpz_mul(lam, lam, t); mpz_mod(lam, lam, gp[ci]);
	}
	mpz_mul(x3, lam, lam); mpz_sub(x3, x3, p->x); mpz_sub(x3, x3, q->x); mpz_mod(x3, x3, gp[ci]);
	mpz_sub(y3, p->x, x3); mpz_mul(y3, y3, lam); mpz_sub(y3, y3, p->y); mpz_mod(y3, y3, gp[ci]);
	r->inf = 0; mpz_set(r->x, x3); mpz_set(r->y, y3);
out:
	mpz_clears(lam, t, x3, y3, NULL);
}
static int
g_order_divides_n(const mpz_t x, const mpz_t y, size_t ci) {
	gpt R, P, T;
	long i;
	int res;
	R.inf = 1; mpz_inits(R.x, R.y, NULL);
	P.inf = 0; mpz_init_set(P.x, x); mpz_init_set(P.y, y);
	T.inf = 1; mpz_inits(T.x, T.y, NULL);
	for (i = (long)mpz_sizeinbase(gn[ci], 2) - 1; i >= 0; i --) {
		g_add(&T, &R, &R, ci); R.inf = T.inf; mpz_set(R.x, T.x); mpz_set(R.y, T.y);
		if (mpz_tstbit(gn[ci], (mp_bitcnt_t)i)) { g_add(&T, &R, &P, ci); R.inf = T.inf; mpz_set(R.x, T.x); mpz_set(R.y, T.y); }
	}
	res = R.inf;
	mpz_clears(R.x, R.y, P.x, P.y, T.x, T.y, NULL);
	return (res);
}

int
LLVMFuzzerTestOneInput(const uint8_t *data, size_t size) {
	size_t ci, bytes, n, pk_size, out_size = 0, i;
	int le, split, rc, validated;
	const uint8_t *pl;
	uint8_t *bx, *by = NULL, xb[80], yb[80], ox[200], oy[80];
	ec_curve_p curve;
	ec_point_t Q;

#ifdef EC_DISABLE_PUB_KEY_CHK
	validated = 0;
#else
	validated = 1;
#endif
	if (size < 3)
		return (0);
	fz_total();
	ci = data[0] % NCURVES;
	le = data[1] & 1;
	split = (data[1] & 2) ? 1 : 0;
	pl = data + 2;
	n = size - 2;
	curve = get_curve(ci);
	if (NULL == curve)
		return (0);
	bytes = EC_CURVE_CALC_BYTES(curve);
	if (split) {
		n &= ~(size_t)1;
		if (0 == n)
			return (0);
		pk_size = n / 2;
		bx = fz_dup(pl, pk_size);
		by = fz_dup(pl + pk_size, pk_size);
	} else {
		pk_size = n;
		bx = fz_dup(pl, pk_size);
	}
	/* what ecdsa_verify_be() / ecdsa_dh_be() do before importing */
	if (0 != ec_point_init(&Q, curve->m))
		abort();
	if (le)
		rc = ecdsa_pub_key_import_le(curve, bx, by, pk_size, &Q);
	else
		rc = ecdsa_pub_key_import_be(curve, bx, by, pk_size, &Q);
	if (0 == rc) {
		fz_deep();
		if (0 != Q.infinity) {
			fz_label("accept_infinity");
			FZ_ASSERT(1 == pk_size && 0 == bx[0], "point at infinity from something else than the octet 00");
		} else {
			int compressed = (pk_size == bytes + 1);
			mpz_t x, y, l, r;

			fz_label(compressed ? "accept_compressed" : (pk_size == bytes ? "accept_split" : (pk_size == 2 * bytes ? "accept_concat" : "accept_packed")));
			FZ_ASSERT(pk_size == bytes || pk_size == bytes + 1 || pk_size == 2 * bytes || pk_size == 2 * bytes + 1, "accepted an unsupported size");
			FZ_ASSERT(0 == bn_export_be_bin(&Q.x, 0, xb, bytes, NULL) && 0 == bn_export_be_bin(&Q.y, 0, yb, bytes, NULL),
			    "imported coordinate wider than the field");
			mpz_inits(x, y, l, r, NULL);
			mpz_import(x, bytes, 1, 1, 0, 0, xb);
			mpz_import(y, bytes, 1, 1, 0, 0, yb);
			if (validated || compressed) {
				if (validated) {
					FZ_ASSERT(mpz_cmp(x, gp[ci]) < 0 && mpz_cmp(y, gp[ci]) < 0, "accepted a coordinate >= p");
				}
				mpz_mod(l, x, gp[ci]);
				mpz_mul(r, l, l); mpz_add(r, r, ga[ci]); mpz_mul(r, r, l); mpz_add(r, r, gb[ci]); mpz_mod(r, r, gp[ci]);
				mpz_mul(l, y, y); mpz_mod(l, l, gp[ci]);
				FZ_ASSERT(0 == mpz_cmp(l, r), "accepted point is not on the curve");
				if (validated && ec_curve_str[ci].h > 1) {
					FZ_ASSERT(g_order_divides_n(x, y, ci), "accepted point is not annihilated by n");
					fz_label("cofactor_curve_accept");
				}
			}
			if (compressed) {
				FZ_ASSERT((int)mpz_tstbit(y, 0) == (bx[0] & 1), "recovered y has the wrong parity");
			}
			mpz_clears(x, y, l, r, NULL);
			/* export in the same form reproduces the input */
			memset(ox, 0xA5, sizeof(ox));
			if (compressed) {
				rc = le ? ecdsa_pub_key_export_le(curve, 1, &Q, ox, NULL, &out_size) : ecdsa_pub_key_export_be(curve, 1, &Q, ox, NULL, &out_size);
				FZ_ASSERT(0 == rc && out_size == pk_size && 0 == memcmp(ox, bx, pk_size), "compressed import/export round trip");
			} else if (pk_size == bytes) {
				rc = le ? ecdsa_pub_key_export_le(curve, 0, &Q, ox, oy, &out_size) : ecdsa_pub_key_export_be(curve, 0, &Q, ox, oy, &out_size);
				FZ_ASSERT(0 == rc && out_size == bytes && 0 == memcmp(ox, bx, bytes) && 0 == memcmp(oy, by, bytes), "split import/export round trip");
			} else {
				size_t off = (pk_size == 2 * bytes) ? 0 : 1;
				rc = le ? ecdsa_pub_key_export_le(curve, 0, &Q, ox, NULL, &out_size) : ecdsa_pub_key_export_be(curve, 0, &Q, ox, NULL, &out_size);
				FZ_ASSERT(0 == rc && out_size == 2 * bytes + 1 && 4 == ox[0] && 0 == memcmp(ox + 1, bx + off, 2 * bytes), "uncompressed import/export round trip");
			}
			for (i = out_size; i < sizeof(ox); i ++)
				FZ_ASSERT(0xA5 == ox[i], "export wrote beyond *pub_key_size");
		}
	} else {
		fz_label("reject");
	}
	fz_free(bx, pk_size);
	if (NULL != by)
		fz_free(by, pk_size);
	return (0);
}
