/* C12 / mem: utils/mem_utils.h -- mem_chr.., mem_rchr.., mem_find.., mem_find_stream (arbitrary
 * chunking), mem_replace_arr, mem_to_lower/upper, mem_cmp*.
 * input: [op][a][b][c] payload...
 */
#include <sys/param.h>
#include <sys/types.h>
#include <inttypes.h>
#include <string.h>
#include <errno.h>
#include "utils/mem_utils.h"
#include "C12_common.h"

static void
chk_chr(const void *r, const uint8_t *buf, size_t n, uint8_t c, const char *who) {
	if (NULL == r)
		return;
	if (!(FZ_INSIDE(r, 1, buf, n) && c == *(const uint8_t *)r)) {
		fprintf(stderr, "%s: ", who);
		FZ_ASSERT(0, "mem_[r]chr*: result outside the buffer or not the byte searched for");
	}
	fz_label("chr:hit");
}

static void
do_chr(const uint8_t *data, size_t n, uint8_t a, uint8_t b, uint8_t c) {
	uint8_t *buf = fz_dup(data, n), *ref;
	size_t off = (size_t)b % (n + 2);
	const uint8_t *ptr = (b & 0x80) ? NULL : (buf + ((size_t)b % (n + 1)));
	void *r;

	switch (a % 6) {
	case 0:
		r = mem_chr(buf, n, c);
		ref = n ? memchr(data, c, n) : NULL;
		FZ_ASSERT((NULL == r) == (NULL == ref) && (NULL == r || (size_t)((uint8_t *)r - buf) == (size_t)(ref - data)),
		    "mem_chr: not the first occurrence");
		chk_chr(r, buf, n, c, "mem_chr");
		break;
	case 1:
		r = mem_chr_off(off, buf, n, c);
		chk_chr(r, buf, n, c, "mem_chr_off");
		if (NULL != r)
			FZ_ASSERT((size_t)((uint8_t *)r - buf) >= off, "mem_chr_off: hit before the offset");
		break;
	case 2:
		r = mem_chr_ptr(ptr, buf, n, c);
		chk_chr(r, buf, n, c, "mem_chr_ptr");
		if (NULL != r)
			FZ_ASSERT((const uint8_t *)r >= ptr, "mem_chr_ptr: hit before ptr");
		break;
	case 3:
		r = mem_rchr(buf, n, c);
		chk_chr(r, buf, n, c, "mem_rchr");
		break;
	case 4:
		r = mem_rchr_off(off, buf, n, c);
		chk_chr(r, buf, n, c, "mem_rchr_off");
		break;
	default:
		r = mem_rchr_ptr(ptr, buf, n, c);
		chk_chr(r, buf, n, c, "mem_rchr_ptr");
		break;
	}
	if (NULL != r && (uint8_t *)r != buf)
		fz_deep();
	fz_free(buf, n);
}

static void
do_find(c12_in_t *in, uint8_t a, uint8_t b) {
	size_t wn, n, off;
	const uint8_t *wsrc = c12_take(in, (size_t)(a >> 2) % 6, &wn), *data = in->p, *ptr;
	uint8_t *what = fz_dup(wsrc, wn), *buf;
	void *r;

	n = in->n;
	buf = fz_dup(data, n);
	off = (size_t)b % (n + 2);
	ptr = (b & 0x80) ? NULL : (buf + ((size_t)b % (n + 1)));
	switch (a % 3) {
	case 0: r = mem_find(buf, n, what, wn); off = 0; break;
	case 1: r = mem_find_off(off, buf, n, what, wn); break;
	default: r = mem_find_ptr(ptr, buf, n, what, wn); off = (NULL != ptr) ? (size_t)(ptr - buf) : 0; break;
	}
	if (NULL != r) {
		FZ_ASSERT(0 != wn, "mem_find*: hit for an empty pattern");
		FZ_ASSERT(FZ_INSIDE(r, wn, buf, n), "mem_find*: hit outside the buffer");
		FZ_ASSERT(0 == memcmp(r, wsrc, wn), "mem_find*: hit does not match the pattern");
		FZ_ASSERT((size_t)((uint8_t *)r - buf) >= off, "mem_find*: hit before the start position");
		fz_label("find:hit");
		fz_deep();
	}
	fz_free(buf, n);
	fz_free(what, wn);
}

static void
do_stream(c12_in_t *in, uint8_t a, uint8_t b) {
	size_t wn, n, pos = 0, clen, state = 0, off_end, iter = 0, st_before, found_end = (size_t)-1, ref_end = (size_t)-1;
	const uint8_t *wsrc = c12_take(in, 1 + (size_t)(a % 6), &wn), *data = in->p, *m;
	uint8_t *what = fz_dup(wsrc, wn), *chunk;
	uint32_t lcg = 0x9e3779b9u ^ b;
	int rc;

	n = in->n;
	/* known-finding classifier: the first pattern byte occurs again at index >= 2. Only then can the
	 * "start of 'what' was in past packets" branch advance wptr with memchr() and call
	 * memcmp(wptr, what, off) with the stale, too large off => reads past the pattern buffer. */
	for (pos = 2; pos < wn; pos ++) {
		if (wsrc[pos] != wsrc[0])
			continue;
		fz_label("stream:first byte recurs at index>=2");
		if (fz_known("mem_find_stream_stale_cmp_len")) {
			fz_label("excl:mem_find_stream_stale_cmp_len");
			fz_free(what, wn);
			return;
		}
		break;
	}
	pos = 0;
	if (0 != wn && NULL != (m = (0 != n) ? memmem(data, n, wsrc, wn) : NULL))
		ref_end = (size_t)(m - data) + wn;
	while (pos < n) {
		lcg = lcg * 1664525u + 1013904223u;
		clen = 1 + ((lcg >> 16) % ((b & 1) ? 3 : 9));
		if (0 == (lcg & 0xf000))
			clen = 0; /* an empty read now and then: EINVAL, state kept */
		if (clen > n - pos)
			clen = n - pos;
		chunk = fz_dup(data + pos, clen);
		off_end = C12_SENT;
		st_before = state;
		rc = mem_find_stream(chunk, clen, what, wn, &state, &off_end);
		iter ++;
		FZ_ASSERT(iter <= 4 * n + 8, "mem_find_stream: driver loop does not terminate");
		if (0 == clen || 0 == wn) {
			FZ_ASSERT(EINVAL == rc && state == st_before, "mem_find_stream: empty chunk/pattern must be EINVAL");
			fz_free(chunk, clen);
			if (0 == wn)
				break;
			continue;
		}
		if (0 == rc) {
			FZ_ASSERT(off_end != C12_SENT && 0 != off_end && off_end <= clen, "mem_find_stream: off_end outside the chunk");
			FZ_ASSERT(0 == state, "mem_find_stream: state not reset after a hit");
			found_end = pos + off_end;
			fz_free(chunk, clen);
			break;
		}
		FZ_ASSERT(ENOENT == rc, "mem_find_stream: unexpected rc");
		FZ_ASSERT(state < wn, "mem_find_stream: state >= pattern size");
		pos += clen;
		fz_free(chunk, clen);
	}
	/* value agreement with memmem over the unchunked stream is C14-like semantics: histogram only */
	if (0 != wn && 0 != n)
		fz_label(found_end == ref_end ? "stream:agrees with memmem" : "stream:differs from memmem (semantic, not asserted)");
	if (1 < iter && 1 < wn)
		fz_deep();
	fz_free(what, wn);
}

#define MAXREPL 34
static void
do_replace(c12_in_t *in, uint8_t a, uint8_t csel, uint16_t rnd) {
	size_t cnt, i, n, sl, dl, maxs = 0, maxd = 0, need = C12_SENT, cap, big, ret = C12_SENT, repl = C12_SENT, base;
	const uint8_t *p, *data;
	uint8_t *src, *dst, *first, hdr;
	void **srep, **drep, *tmp = NULL;
	size_t *scnt, *dcnt;
	int rc;

	base = 1 + (size_t)(a % 4);
	cnt = (0xC0 == (a & 0xC0)) ? (32 + (size_t)(a % 2)) : base; /* > 31 needs the caller's tmp_arr */
	srep = (void **)fz_out(cnt * sizeof(void *), 0);
	drep = (void **)fz_out(cnt * sizeof(void *), 0);
	scnt = (size_t *)fz_out(cnt * sizeof(size_t), 0);
	dcnt = (size_t *)fz_out(cnt * sizeof(size_t), 0);
	for (i = 0; i < cnt; i ++) {
		if (i < base) {
			hdr = c12_u8(in);
			p = c12_take(in, (size_t)(hdr & 3), &sl);
			srep[i] = fz_dup(p, sl);
			scnt[i] = sl;
			p = c12_take(in, (size_t)((hdr >> 2) & 7), &dl);
			drep[i] = fz_dup(p, dl);
			dcnt[i] = dl;
		} else { /* repeat the first patterns (own blocks) */
			srep[i] = fz_dup((uint8_t *)srep[i % base], scnt[i % base]);
			scnt[i] = scnt[i % base];
			drep[i] = fz_dup((uint8_t *)drep[i % base], dcnt[i % base]);
			dcnt[i] = dcnt[i % base];
		}
		if (scnt[i] > maxs) maxs = scnt[i];
		if (dcnt[i] > maxd) maxd = dcnt[i];
	}
	if (31 < cnt)
		tmp = fz_out(cnt * sizeof(void *), 0);
	data = in->p;
	n = in->n;
	src = fz_dup(data, n);
	/* 1st call: a buffer that is large enough for any outcome tells the output size */
	big = n * (maxd + 1) + maxs + 8;
	first = fz_out(big, C12_FILL);
	rc = mem_replace_arr(src, n, cnt, tmp, (const void **)srep, scnt, (const void **)drep, dcnt, first, big, &need, &repl);
	FZ_ASSERT(0 == rc, "mem_replace_arr: refused a buffer larger than any possible output");
	FZ_ASSERT(need != C12_SENT && need <= big && repl <= n, "mem_replace_arr: size_ret / replaced out of range");
	FZ_ASSERT(c12_untouched(first + need, big - need, C12_FILL), "mem_replace_arr: wrote past size_ret");
	if (0 != repl) {
		fz_label("replace:some replaced");
		fz_deep();
	}
	/* 2nd call: capacity class around the real need */
	cap = c12_cap(csel, need, rnd);
	c12_cap_label(cap, need);
	if (cap < need) {
		/* H-UT-4: the space test uses the pattern length instead of the replacement length and the
		 * tail copy is not tested at all: too small a destination is overrun */
		fz_label("replace:dst smaller than the output");
		if (fz_known("mem_replace_arr_small_dst")) {
			fz_label("excl:mem_replace_arr_small_dst");
			goto out;
		}
	}
	dst = fz_out(cap, C12_FILL);
	ret = C12_SENT;
	rc = mem_replace_arr(src, n, cnt, tmp, (const void **)srep, scnt, (const void **)drep, dcnt, dst, cap, &ret, NULL);
	if (0 == rc) {
		FZ_ASSERT(ret == need && ret <= cap, "mem_replace_arr: size_ret > capacity");
		FZ_ASSERT(0 == memcmp(dst, first, need), "mem_replace_arr: output depends on the capacity");
		FZ_ASSERT(c12_untouched(dst + ret, cap - ret, C12_FILL), "mem_replace_arr: wrote past size_ret (2nd)");
	} else {
		FZ_ASSERT(ENOBUFS == rc, "mem_replace_arr: unexpected rc");
		FZ_ASSERT(cap <= need + maxs, "mem_replace_arr: refused a buffer with room for the output and one more pattern");
		if (cap >= need)
			fz_label("replace:ENOBUFS although the output fits (semantic, not asserted)");
		else
			fz_label("replace:ENOBUFS");
	}
	fz_free(dst, cap);
out:
	fz_free(first, big);
	fz_free(src, n);
	if (NULL != tmp)
		fz_free(tmp, cnt * sizeof(void *));
	for (i = 0; i < cnt; i ++) {
		fz_free(srep[i], scnt[i]);
		fz_free(drep[i], dcnt[i]);
	}
	fz_free(dcnt, cnt * sizeof(size_t));
	fz_free(scnt, cnt * sizeof(size_t));
	fz_free(drep, cnt * sizeof(void *));
	fz_free(srep, cnt * sizeof(void *));
}

static void
do_case(const uint8_t *data, size_t n, uint8_t a) {
	uint8_t *src = fz_dup(data, n), *dst = (a & 2) ? src : fz_out(n, C12_FILL);
	size_t r, i;

	r = (a & 1) ? mem_to_upper(dst, src, n) : mem_to_lower(dst, src, n);
	FZ_ASSERT(r == n, "mem_to_lower/upper: returned size");
	for (i = 0; i < n; i ++) {
		uint8_t e = data[i];
		if (a & 1) { if ('a' <= e && 'z' >= e) e = (uint8_t)(e - 32); }
		else { if ('A' <= e && 'Z' >= e) e = (uint8_t)(e + 32); }
		FZ_ASSERT(dst[i] == e, "mem_to_lower/upper: value");
	}
	if (0 != n)
		fz_deep();
	if (dst != src)
		fz_free(dst, n);
	fz_free(src, n);
}

static void
do_cmp(const uint8_t *data, size_t n, uint8_t a, uint8_t b) {
	size_t n1 = (n ? ((size_t)b % (n + 1)) : 0), n2 = n - n1, m = (n1 < n2 ? n1 : n2);
	uint8_t *b1 = fz_dup(data, n1), *b2 = fz_dup(data + n1, n2);
	int r, e;

	switch (a % 4) {
	case 0:
		r = mem_cmp(b1, b2, m);
		e = m ? memcmp(data, data + n1, m) : 0;
		FZ_ASSERT((r < 0) == (e < 0) && (r > 0) == (e > 0), "mem_cmp: sign differs from memcmp");
		break;
	case 1:
		r = mem_cmpn(b1, n1, b2, n2);
		if (n1 != n2)
			FZ_ASSERT(0 != r, "mem_cmpn: different sizes compare equal");
		break;
	case 2: r = mem_cmpi(b1, b2, m); break;
	default:
		r = mem_cmpin(b1, n1, b2, n2);
		if (n1 != n2)
			FZ_ASSERT(0 != r, "mem_cmpin: different sizes compare equal");
		break;
	}
	if (0 != m)
		fz_deep();
	fz_free(b2, n2);
	fz_free(b1, n1);
}

int
LLVMFuzzerTestOneInput(const uint8_t *data, size_t size) {
	c12_in_t in = { data, size };
	uint8_t op, a, b, c;

	fz_total();
	op = c12_u8(&in);
	a = c12_u8(&in);
	b = c12_u8(&in);
	c = c12_u8(&in);
	switch (op % 8) {
	case 0: fz_label("op:chr"); do_chr(in.p, in.n, a, b, c); break;
	case 1: fz_label("op:find"); do_find(&in, a, b); break;
	case 2:
	case 3: fz_label("op:stream"); do_stream(&in, a, b); break;
	case 4:
	case 5: fz_label("op:replace"); do_replace(&in, a, b, (uint16_t)(c | (b << 8))); break;
	case 6: fz_label("op:case"); do_case(in.p, in.n, a); break;
	case 7: fz_label("op:cmp"); do_cmp(in.p, in.n, a, b); break;
	}
	return (0);
}
