/* C13_common.h -- helpers shared by the C13 libFuzzer targets (network message parsers).
 *
 * Input layout of every C13 target: data[0] = selector (low nibble: entry function, high nibble: auxiliary
 * argument class: output capacity / offset class / lookup name), data[1..] = the packet. The packet is handed
 * to the library in an exact-size heap block (fz_dup: no NUL appended, the first byte past the end is an ASan
 * redzone); output buffers come from fz_out(cap).
 *
 * Semantic oracle (DESIGN 4 C13): returned pointers/lengths inside the packet or the output buffer, offsets
 * monotone while iterating, counts consistent with a second (reference) walk, in-place decoders return
 * size <= input, every iteration in the target bounded by len+1 steps.
 *
 * Known-finding discipline: each confirmed defect class has a predicate name; C13_CLASS(hit, pred) returns 1
 * when the call must be skipped (class hit and the predicate is active), 0 otherwise. When the class is hit and
 * the predicate is NOT active the call is issued, so the sanitizer / the postcondition reports it.
 */
#ifndef VERIF_C13_COMMON_H
#define VERIF_C13_COMMON_H
#include <errno.h>
#include <sys/types.h>
#include <inttypes.h>
#include "fz.h"

#define C13_ENTRY(sel)	((unsigned)((sel) & 0x0f))
#define C13_AUX(sel)	((unsigned)(((sel) >> 4) & 0x0f))

/* iteration guard: more than limit+1 steps = the library made no progress / does not terminate */
#define C13_STEPS_DECL(name, limit)	size_t name##_left = (size_t)(limit) + 2
#define C13_STEP(name, what)						\
do {									\
	FZ_ASSERT(0 != name##_left, "iteration exceeded len+1 steps (no progress / non-termination): " what); \
	name##_left --;							\
} while (0)

static inline int
c13_class(int hit, const char *pred) {
	if (0 == hit)
		return (0);
	fz_label(pred);
	return (fz_known(pred));
}
#define C13_CLASS(hit, pred)	c13_class((hit), (pred))

/* capacity classes for output buffers */
static inline size_t
c13_cap(unsigned aux, size_t need) {
	switch (aux & 7) {
	case 0: return (need + 1);
	case 1: return (need);
	case 2: return (need ? need - 1 : 0);
	case 3: return (1);
	case 4: return (need / 2);
	case 5: return (need + 17);
	case 6: return (2);
	}
	return (510);
}

#ifndef nitems
#define nitems(__x)	(sizeof(__x) / sizeof((__x)[0]))
#endif

#define C13_FILL 0xEE
#define C13_SENT ((size_t)0xA5A5A5A5A5A5A5A5ULL)
#define C13_PSENT ((void *)(uintptr_t)0xA5A5A5A5A5A5A5A5ULL)

static inline int
c13_untouched(const uint8_t *p, size_t n) {
	size_t i;
	for (i = 0; i < n; i ++) {
		if (C13_FILL != p[i])
			return (0);
	}
	return (1);
}

#endif
