/* C12 / num: the 20 X2str / X2ustr formatters (num2str.h) and the 40 str2X / strh2X parsers
 * (str2num.h, strh2num.h).
 * input: [op][cap class][rnd lo][rnd hi][value selector] value(8) | text...
 * Formatter contract read from UNUM2STR/SNUM2STR and the in-tree callers (http_server.c,
 * socket_address.c: capacity = remaining buffer): buf_size counts the terminating NUL; ENOSPC
 * stores the required size (digits + sign + NUL) in *buf_size_ret; success stores the length
 * without the NUL. Oracle here: bounds + "the reported size is sufficient" + terminator at the
 * returned length + sizes <= capacity. The text itself belongs to C14.
 */
#include <sys/param.h>
#include <sys/types.h>
#include <inttypes.h>
#include <string.h>
#include <stdio.h>
#include <errno.h>
#include "utils/num2str.h"
#include "utils/str2num.h"
#include "utils/strh2num.h"
#include "C12_common.h"

static const uint64_t p10[20] = {
	1ull, 10ull, 100ull, 1000ull, 10000ull, 100000ull, 1000000ull, 10000000ull, 100000000ull, 1000000000ull,
	10000000000ull, 100000000000ull, 1000000000000ull, 10000000000000ull, 100000000000000ull,
	1000000000000000ull, 10000000000000000ull, 100000000000000000ull, 1000000000000000000ull,
	10000000000000000000ull
};

static int
is_pow10_ge10(uint64_t v) {
	int i;
	for (i = 1; i < 20; i ++)
		if (v == p10[i])
			return (1);
	return (0);
}

/* fn: 0..9 unsigned (usize,u8,u16,u32,u64 x {str,ustr}), 10..19 signed */
static int
call_fmt(int fn, uint64_t bits, void *buf, size_t cap, size_t *ret) {
	switch (fn) {
	case 0: return (usize2str((size_t)bits, (char *)buf, cap, ret));
	case 1: return (usize2ustr((size_t)bits, (uint8_t *)buf, cap, ret));
	case 2: return (u82str((uint8_t)bits, (char *)buf, cap, ret));
	case 3: return (u82ustr((uint8_t)bits, (uint8_t *)buf, cap, ret));
	case 4: return (u162str((uint16_t)bits, (char *)buf, cap, ret));
	case 5: return (u162ustr((uint16_t)bits, (uint8_t *)buf, cap, ret));
	case 6: return (u322str((uint32_t)bits, (char *)buf, cap, ret));
	case 7: return (u322ustr((uint32_t)bits, (uint8_t *)buf, cap, ret));
	case 8: return (u642str((uint64_t)bits, (char *)buf, cap, ret));
	case 9: return (u642ustr((uint64_t)bits, (uint8_t *)buf, cap, ret));
	case 10: return (ssize2str((ssize_t)bits, (char *)buf, cap, ret));
	case 11: return (ssize2ustr((ssize_t)bits, (uint8_t *)buf, cap, ret));
	case 12: return (s82str((int8_t)bits, (char *)buf, cap, ret));
	case 13: return (s82ustr((int8_t)bits, (uint8_t *)buf, cap, ret));
	case 14: return (s162str((int16_t)bits, (char *)buf, cap, ret));
	case 15: return (s162ustr((int16_t)bits, (uint8_t *)buf, cap, ret));
	case 16: return (s322str((int32_t)bits, (char *)buf, cap, ret));
	case 17: return (s322ustr((int32_t)bits, (uint8_t *)buf, cap, ret));
	case 18: return (s642str((int64_t)bits, (char *)buf, cap, ret));
	default: return (s642ustr((int64_t)bits, (uint8_t *)buf, cap, ret));
	}
}
static int
fn_bits(int fn) {
	static const int w[5] = { 64, 8, 16, 32, 64 };
	return (w[(fn % 10) / 2]);
}

static void
do_fmt(int fn, uint8_t csel, uint16_t rnd, uint8_t vsel, uint64_t raw) {
	int bits = fn_bits(fn), sgn = (fn >= 10), rc, is_min = 0;
	uint64_t mask = (64 == bits) ? ~0ull : ((1ull << bits) - 1), v, mag;
	int64_t sv = 0;
	char ref[48];
	size_t need, cap, ret = C12_SENT, ret2 = C12_SENT, cap2;
	uint8_t *buf;

	/* structured values: powers of ten +-1, type minima / maxima (the fuzzer is poor at hitting them) */
	switch (vsel % 4) {
	case 0: v = raw; break;
	case 1: v = p10[(vsel >> 2) % 20] + (uint64_t)((int)((raw % 3)) - 1); break;
	case 2: v = (uint64_t)0 - (p10[(vsel >> 2) % 20] + (uint64_t)((int)((raw % 3)) - 1)); break;
	default:
		switch ((vsel >> 2) % 4) {
		case 0: v = mask; break;			/* unsigned max / -1 */
		case 1: v = (mask >> 1); break;			/* signed max */
		case 2: v = (mask >> 1) + 1; break;		/* signed min */
		default: v = raw & 0xff; break;
		}
	}
	v &= mask;
	if (sgn) {
		sv = (64 == bits) ? (int64_t)v : (int64_t)((v ^ (1ull << (bits - 1))) - (1ull << (bits - 1)));
		is_min = (v == ((mask >> 1) + 1));
		mag = (sv < 0) ? (uint64_t)0 - (uint64_t)sv : (uint64_t)sv;
		need = (size_t)snprintf(ref, sizeof(ref), "%" PRId64, sv) + 1;
	} else {
		mag = v;
		need = (size_t)snprintf(ref, sizeof(ref), "%" PRIu64, v) + 1;
	}
	if (is_min)
		fz_label("fmt:type minimum");
	/* H-UT-1: exact powers of ten are counted one digit short: the digits are stored from buf[-1] */
	if (is_pow10_ge10(mag) && !(sgn && sv < 0)) {
		fz_label("fmt:+10^k");
		if (fz_known("num2str_pow10")) {
			fz_label("excl:num2str_pow10");
			return;
		}
	}
	cap = c12_cap(csel, need, rnd);
	c12_cap_label(cap, need);
	buf = fz_out(cap, C12_FILL);
	rc = call_fmt(fn, sgn ? (uint64_t)sv : v, buf, cap, &ret);
	if (0 == cap) {
		FZ_ASSERT(EINVAL == rc, "X2str: zero capacity must be EINVAL");
	} else if (0 == rc) {
		FZ_ASSERT(ret != C12_SENT && ret < cap, "X2str: returned length + NUL does not fit the capacity");
		FZ_ASSERT(0 == buf[ret], "X2str: no terminator at the returned length");
		fz_deep();
		fz_label("fmt:ok");
	} else {
		FZ_ASSERT(ENOSPC == rc, "X2str: unexpected rc");
		FZ_ASSERT(ret != C12_SENT && ret > cap && ret <= 24, "X2str: ENOSPC without a usable required size");
		FZ_ASSERT(c12_untouched(buf, cap, C12_FILL), "X2str: wrote into a refused buffer");
		FZ_ASSERT(is_min || cap < need, "X2str: refused a buffer that holds the text and its NUL");
		fz_label("fmt:ENOSPC");
		/* the self-reported size must be sufficient */
		cap2 = ret;
		fz_free(buf, cap);
		cap = cap2;
		buf = fz_out(cap, C12_FILL);
		rc = call_fmt(fn, sgn ? (uint64_t)sv : v, buf, cap, &ret2);
		FZ_ASSERT(0 == rc, "X2str: the self-reported size is not sufficient");
		FZ_ASSERT(ret2 < cap && 0 == buf[ret2], "X2str: 2nd call length / terminator");
		fz_deep();
	}
	fz_free(buf, cap);
}

#define P(_i, _f)	case _i: acc ^= (uint64_t)_f((const void *)s, n); break;
static void
do_parse(int fn, const uint8_t *data, size_t n) {
	uint8_t *s = fz_dup(data, n);
	static volatile uint64_t sink;
	uint64_t acc = 0;
	size_t i;
	int digit = 0;

	switch (fn) {
	P(0, str2usize) P(1, ustr2usize) P(2, str2u8) P(3, ustr2u8) P(4, str2u16) P(5, ustr2u16)
	P(6, str2u32) P(7, ustr2u32) P(8, str2u64) P(9, ustr2u64)
	P(10, str2ssize) P(11, ustr2ssize) P(12, str2s8) P(13, ustr2s8) P(14, str2s16) P(15, ustr2s16)
	P(16, str2s32) P(17, ustr2s32) P(18, str2s64) P(19, ustr2s64)
	P(20, strh2usize) P(21, ustrh2usize) P(22, strh2u8) P(23, ustrh2u8) P(24, strh2u16) P(25, ustrh2u16)
	P(26, strh2u32) P(27, ustrh2u32) P(28, strh2u64) P(29, ustrh2u64)
	P(30, strh2ssize) P(31, ustrh2ssize) P(32, strh2s8) P(33, ustrh2s8) P(34, strh2s16) P(35, ustrh2s16)
	P(36, strh2s32) P(37, ustrh2s32) P(38, strh2s64) P(39, ustrh2s64)
	}
	sink = acc;
	for (i = 0; i < n; i ++)
		if ('0' <= data[i] && '9' >= data[i])
			digit = 1;
	if (digit)
		fz_deep();
	fz_label(fn < 20 ? "parse:dec" : "parse:hex");
	fz_free(s, n);
}

int
LLVMFuzzerTestOneInput(const uint8_t *data, size_t size) {
	c12_in_t in = { data, size };
	uint8_t op, csel, vsel;
	uint16_t rnd;

	fz_total();
	op = c12_u8(&in);
	csel = c12_u8(&in);
	rnd = c12_u16(&in);
	if (op & 1) { /* half of the inputs go to the 20 formatters, half to the 40 parsers */
		vsel = c12_u8(&in);
		do_fmt((op >> 1) % 20, csel, rnd, vsel, c12_u64(&in));
	} else {
		do_parse((op >> 1) % 40, in.p, in.n);
	}
	return (0);
}
