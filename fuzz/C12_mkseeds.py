#!/usr/bin/env python3
"""Writes the C12 seed corpora (corpus/C12/<target>/) and the hand-built replay inputs of the suspected
defects (replays/C12/fuzz-<target>/). Both sets are committed; this script documents how they were built.
Input layouts are described at the top of each fuzz/C12_<target>.c."""
import base64
import os
import struct
import sys

ROOT = os.path.dirname(os.path.dirname(os.path.abspath(__file__)))


def put(kind, target, name, data):
    d = os.path.join(ROOT, "corpus" if kind == "seed" else "replays", "C12", (target if kind == "seed" else "fuzz-" + target))
    os.makedirs(d, exist_ok=True)
    with open(os.path.join(d, name), "wb") as f:
        f.write(bytes(data))


def u64(v):
    return struct.pack("<Q", v & 0xFFFFFFFFFFFFFFFF)


# capacity classes: 0 -> 0, 1 -> 1, 2 -> need-1, 3 -> need, 4 -> need+1, 5 -> random
CAP0, CAP1, NEEDM1, NEED, NEEDP1, RND = range(6)

# ---------------------------------------------------------------- base64: [op][cap][rnd16] payload
for i, txt in enumerate([b"", b"f", b"fo", b"foo", b"foob", b"fooba", b"foobar", b"The quick brown fox jumped over the lazy dogs."]):
    for cap in (NEED, NEEDP1, NEEDM1):
        put("seed", "base64", "enc%d_%d" % (i, cap), bytes([0, cap, 0, 0]) + txt)
        put("seed", "base64", "dec%d_%d" % (i, cap), bytes([1, cap, 0, 0]) + base64.b64encode(txt))
    put("seed", "base64", "copy%d" % i, bytes([2, 0, 0, 0]) + base64.b64encode(txt) + b"\r\n")
    put("seed", "base64", "fmt%d" % i, bytes([3, NEEDP1, 0, 0]) + base64.encodebytes(txt * 3))
put("replay", "base64", "encode_nul_at_cap", bytes([0, NEED, 0, 0]) + b"a")
put("replay", "base64", "decode_nul_at_cap", bytes([1, NEED, 0, 0]) + b"QUJD")

# ---------------------------------------------------------------- hex: [op: bit0 bin2hex, bit1 auto][cap][rnd16] payload
for i, txt in enumerate([b"", b"0", b"0f", b"0F1e2d", b"de:ad:be:ef", b"0123456789abcdefABCDEF", b"xyz12"]):
    for op in (0, 2):
        for cap in (NEED, NEEDM1, NEEDP1):
            put("seed", "hex", "h2b%d_%d_%d" % (i, op, cap), bytes([op, cap, 0, 0]) + txt)
for i, raw in enumerate([b"", b"\x00", b"\xde\xad\xbe\xef", bytes(range(32))]):
    for op in (1, 3):
        for cap in (NEED, NEEDM1, NEEDP1, RND):
            put("seed", "hex", "b2h%d_%d_%d" % (i, op, cap), bytes([op, cap, 7, 0]) + raw)

# ---------------------------------------------------------------- num: [op][cap][rnd16] then fmt: [vsel][raw u64] / parse: text
def fmt_op(fn):
    return fn * 2 + 1


def parse_op(fn):
    return fn * 2


for fn in range(20):
    for vsel, raw in ((0, 12345), (1 | (3 << 2), 0), (1 | (3 << 2), 2), (2 | (2 << 2), 0), (3 | (0 << 2), 0), (3 | (1 << 2), 0), (3 | (2 << 2), 0)):
        put("seed", "num", "fmt%d_%d_%d" % (fn, vsel, raw), bytes([fmt_op(fn), NEED, 0, 0, vsel]) + u64(raw))
    put("seed", "num", "fmt%d_small" % fn, bytes([fmt_op(fn), NEEDM1, 0, 0, 0]) + u64(987654321))
for fn in range(40):
    put("seed", "num", "parse%d" % fn, bytes([parse_op(fn), 0, 0, 0]) + (b"-+12345678901234567890" if fn < 20 else b"-0xDEADbeef0123456789"))
# u162str(10): value 10 = p10[1] + (raw % 3 - 1) with raw = 1
put("replay", "num", "pow10_u16_cap_need", bytes([fmt_op(4), NEED, 0, 0, 1 | (1 << 2)]) + u64(1))
put("replay", "num", "pow10_u16_reported_size", bytes([fmt_op(4), CAP1, 0, 0, 1 | (1 << 2)]) + u64(1))
put("replay", "num", "pow10_s64_1e18", bytes([fmt_op(18), NEEDP1, 0, 0, 1 | (18 << 2)]) + u64(1))

# ---------------------------------------------------------------- utf8: [cap][rnd16] payload
for i, txt in enumerate(["", "abc", "héllo", "€€", "\U0001f600x", "a\u0080߿ࠀ￿"]):
    for cap in (NEED, NEEDM1, CAP1, CAP0):
        put("seed", "utf8", "ok%d_%d" % (i, cap), bytes([cap, 0, 0]) + txt.encode("utf-8"))
for i, raw in enumerate([b"\xc0\x80", b"\xed\xa0\x80", b"\xf4\x90\x80\x80", b"ab\xe2\x82", b"\x80abc", b"\xf0\x9f\x98"]):
    put("seed", "utf8", "bad%d" % i, bytes([NEED, 0, 0]) + raw)

# ---------------------------------------------------------------- asn1: [flags][start16] payload
der = [
    bytes.fromhex("3006020101020102"),                           # SEQUENCE { INTEGER 1, INTEGER 2 }
    bytes.fromhex("300d06092a864886f70d0101010500"),             # AlgorithmIdentifier
    bytes.fromhex("30820008" + "0406" + "aabbccddeeff"),         # long-form length
    bytes.fromhex("a003020102" + "0500"),                        # context [0] constructed, NULL
    bytes.fromhex("1f0501aa" + "3f2100"),                        # long-form tags (universal 5, app 33)
    bytes.fromhex("0481" + "05" + "0102030405"),                 # 1-byte long form
    bytes.fromhex("3080" + "0000"),                              # indefinite length
    bytes.fromhex("0489" + "00" * 9),                            # length of 9 octets
]
for i, d in enumerate(der):
    for fl in (1, 0, 0x1f, 3):
        put("seed", "asn1", "der%d_%d" % (i, fl), bytes([fl, 0, 0]) + d)
put("replay", "asn1", "universal_long_tag_127", bytes([1, 0, 0]) + bytes.fromhex("1f7f00"))
put("replay", "asn1", "short_length_past_end", bytes([1, 0, 0]) + bytes.fromhex("0408"))

# ---------------------------------------------------------------- bencode: [flags][key len] key payload
docs = [
    b"d8:intervali1800e5:peers12:\x01\x02\x03\x04\x1a\xe1\x05\x06\x07\x08\x1a\xe2e",
    b"d14:failure reason7:no sucheX",
    b"l4:spam4:eggse",
    b"d1:ad1:bi1e1:cl1:x1:yeee",
    b"i-42e",
    b"4:spamX",
    b"ll1:aeli1eeeX",
    b"d8:completei5e10:incompletei7e8:intervali60e12:min intervali30eeX",
]
for i, d in enumerate(docs):
    put("seed", "bencode", "doc%d" % i, bytes([0, 8]) + b"interval" + d)
    put("seed", "bencode", "doc%d_a" % i, bytes([4, 1]) + b"a" + d)
    put("seed", "bencode", "doc%d_nooff" % i, bytes([3, 5]) + b"peers" + d)
# generator mode (flags bit 7): program bytes -> well-formed document; bit 6 stray byte, bits 4..5 truncation
for i, prog in enumerate([bytes([6, 1, 3]) + b"key" + bytes([4, 2, 0, 2]) + b"ab" + bytes([3, 5, 0]),
                          bytes([4, 3, 0, 1]) + b"a" + bytes([3, 1, 0, 6, 0, 1]) + b"k" + bytes([0, 1]) + b"v",
                          bytes([7, 3, 1]) + b"a" + bytes([3, 1, 0, 1]) + b"b" + bytes([5, 1, 3, 2, 0, 1]) + b"c" + bytes([0, 0])]):
    for fl in (0x80, 0xC0, 0x90, 0xD0, 0xA0):
        put("seed", "bencode", "gen%d_%02x" % (i, fl), bytes([fl, 1]) + b"a" + prog)
put("replay", "bencode", "list_item_ends_buffer", bytes([0, 0]) + b"li1e")
put("replay", "bencode", "dict_value_ends_buffer", bytes([0, 0]) + b"d1:ai1e")
put("replay", "bencode", "string_length_wraps", bytes([0, 0]) + b"l18446744073709551595:x")
put("replay", "bencode", "dict_first_key_not_string", bytes([0, 0]) + b"di0e")

# ---------------------------------------------------------------- xml: [op][a][b][c] tags doc
def tags(*names):
    out = b""
    for n in names:
        out += bytes([len(n)]) + n
    return out


xdocs = [
    (b"<a>1</a> ", [b"a"]),
    (b"<?xml version=\"1.0\"?><!-- c --><r><a x=\"1\">v1</a><a>v2</a><b/></r> ", [b"r", b"a"]),
    (b"<r><a><![CDATA[<raw>]]></a><a/><a>3</a></r>\n", [b"r", b"a"]),
    (b"<n:r xmlns:n=\"u\"><n:a>1</n:a><m:a>2</m:a></n:r> ", [b"r", b"a"]),
    (b"<!DOCTYPE r><r><x><a>no</a></x><a>yes</a></r> ", [b"r", b"a"]),
    (b"<r><s><t>42</t></s></r> ", [b"r", b"s", b"t"]),
    (b"<a>&lt;1&gt; &amp; &quot;2&quot; &apos;3&apos;</a>", [b"a"]),
]
for i, (d, tg) in enumerate(xdocs):
    a = len(tg) - 1
    for op in (2, 4):
        for b in (0, 1, 14):
            put("seed", "xml", "arr%d_%d_%d" % (i, op, b), bytes([op, a, b, 0]) + tags(*tg) + d)
    for c in range(9):
        put("seed", "xml", "args%d_%d" % (i, c), bytes([6, a, 0, c]) + tags(*tg) + d)
    for cap in (NEED, NEEDP1):
        put("seed", "xml", "enc%d_%d" % (i, cap), bytes([0, cap, 0, 0]) + d)
        put("seed", "xml", "dec%d_%d" % (i, cap), bytes([1, cap, 0, 0]) + d)
put("replay", "xml", "lt_is_last_byte", bytes([2, 0, 0, 0]) + tags(b"a") + b"<")
put("replay", "xml", "close_tag_at_top_level", bytes([2, 0, 0, 0]) + tags(b"a") + b"</b> ")
put("replay", "xml", "close_tag_unbalanced_after_hit", bytes([2, 0, 0, 0]) + tags(b"a") + b"<a>1</a></b> ")
put("replay", "xml", "tag_compare_past_count", bytes([2, 0, 0, 0]) + tags(b"a") + b"<a>< >< > ")
put("replay", "xml", "ns_write_past_count", bytes([4, 0, 0, 0]) + tags(b"a") + b"<a>< > ")
put("replay", "xml", "next_pos_at_end_restarts", bytes([2, 0, 0, 0]) + tags(b"a") + b"<a>1</a>")
put("replay", "xml", "encode_small_dst", bytes([0, NEEDM1, 0, 0]) + b"&")

# ---------------------------------------------------------------- ini: [cap][rnd16][nops] ops text
itexts = [
    b"[s]\r\na=1\r\nb=2\r\n\r\n[sect]\r\nkey=value\r\n; comment\r\n",
    b"a=1\nb=2\n",
    b"# c\n[Sect]\nKey=V\nname=x y\n\n\n[]\n=1\nbroken line\n",
    b"",
    b"[s]\na=1",
]


def iop(op, sect, name, val):
    return bytes([op, (sect << 4) | name, len(val)]) + val


for i, t in enumerate(itexts):
    for cap in (NEED, NEEDM1, NEEDP1, CAP1):
        put("seed", "ini", "t%d_%d" % (i, cap), bytes([cap, 0, 0, 0]) + t)
    prog = iop(0, 8, 0, b"new") + iop(1, 9, 2, b"a much longer value than before ....") + iop(2, 8, 1, u64(12345)) + iop(3, 8, 1, u64(99)) + iop(4, 8, 0, b"") + iop(5, 10, 4, b"")
    put("seed", "ini", "t%d_ops" % i, bytes([NEED, 0, 0, 6]) + prog + t)
put("replay", "ini", "gen_two_lines_cap_need_minus_1", bytes([NEEDM1, 0, 0, 0]) + b"a=1\nb=2\n")
put("replay", "ini", "set_uint_10", bytes([NEED, 0, 0, 1]) + bytes([3 | (1 << 3) | (1 << 5), 0, 0]))

# ---------------------------------------------------------------- bufstr: [op][a][b][c] payload
for i, t in enumerate([b"one two\tthree ", b"\"quoted arg\" plain \"open", b"   ", b"a", b"cmd  \"a b\"  c "]):
    for ma in (0, 1, 2, 16):
        put("seed", "bufstr", "args%d_%d" % (i, ma), bytes([0, ma, 0, 0]) + t)
for i, t in enumerate([b"l1\r\nl2\nl3\r\n\r\nlast", b"\n\n\n", b"\r\r\n\r", b"no newline"]):
    put("seed", "bufstr", "lines%d" % i, bytes([2, 0, 0, 0]) + t)
for a in range(4):
    put("seed", "bufstr", "calc%d" % a, bytes([4, a, 0, 0]) + b"  \t word \t ")
for cap in range(6):
    put("seed", "bufstr", "uptime%d" % cap, bytes([5, cap, 3, 0]) + u64(1234567))
put("seed", "bufstr", "xor", bytes([6, 5, 0, 0]) + b"0123456789abcdef")
put("seed", "bufstr", "yn", bytes([7, 3, 0, 0]) + b"yes")
put("replay", "bufstr", "buf2args_last_arg_at_end", bytes([0, 4, 0, 0]) + b"a b")
put("replay", "bufstr", "buf2args_lone_quote_at_end", bytes([0, 4, 0, 0]) + b"a \"")
put("replay", "bufstr", "fmt_as_uptime_cap0", bytes([5, CAP0, 0, 0]) + u64(100000))
put("replay", "bufstr", "calc_sptab_count_r_empty", bytes([4, 1, 0, 0]))

# ---------------------------------------------------------------- mem: [op][a][b][c] payload
for a in range(6):
    put("seed", "mem", "chr%d" % a, bytes([0, a, 3, ord("l")]) + b"hello world")
for a in range(3):
    put("seed", "mem", "find%d" % a, bytes([1, a | (2 << 2), 2, 0]) + b"lo" + b"hello world, hello")
for b in (0, 1, 2, 3):
    put("seed", "mem", "stream%d" % b, bytes([2, 3, b, 0]) + b"\r\n\r\n" + b"GET / HTTP/1.1\r\nHost: x\r\n\r\nbody")
    put("seed", "mem", "stream_aab%d" % b, bytes([2, 2, b, 0]) + b"aab" + b"aaaaabaaab")
for cap in range(6):
    put("seed", "mem", "repl%d" % cap, bytes([4, 1, cap, 0]) + bytes([1 | (5 << 2)]) + b"&" + b"&amp;" + bytes([1 | (4 << 2)]) + b"<" + b"&lt;" + b"a & b < c && d")
    put("seed", "mem", "repl_shrink%d" % cap, bytes([4, 0, cap, 0]) + bytes([3 | (1 << 2)]) + b"abc" + b"x" + b"abcabc abc ab")
put("seed", "mem", "repl33", bytes([4, 0xC1, NEED, 0]) + bytes([1 | (2 << 2)]) + b"a" + b"bb" + bytes([1 | (0 << 2)]) + b"c" + b"abcabc")
put("seed", "mem", "lower", bytes([6, 0, 0, 0]) + b"Hello WORLD")
put("seed", "mem", "upper_inplace", bytes([6, 3, 0, 0]) + b"Hello world")
for a in range(4):
    put("seed", "mem", "cmp%d" % a, bytes([7, a, 5, 0]) + b"HelloHELLO")
put("replay", "mem", "replace_tail_into_small_dst", bytes([4, 0, CAP0, 0]) + bytes([1 | (2 << 2)]) + b"a" + b"bc" + b"xyz")
put("replay", "mem", "replace_longer_replacement", bytes([4, 0, NEEDM1, 0]) + bytes([1 | (5 << 2)]) + b"&" + b"&amp;" + b"&")
put("replay", "mem", "find_stream_stale_memcmp_len", bytes.fromhex("23230d6d0d61090d0d61090d0d0d0d61090d0d0d0d0d61090d0d0df4"))

# ---------------------------------------------------------------- crc: [variant][split16] payload
for v in range(9):
    put("seed", "crc", "check%d" % v, bytes([v, 4, 0]) + b"123456789")
    put("seed", "crc", "long%d" % v, bytes([v, 70, 0]) + b"The quick brown fox jumps over the lazy dog." * 2)
    put("seed", "crc", "empty%d" % v, bytes([v, 0, 0]))

print("seeds and replay inputs written under", ROOT)
