/* C13_dhcp4.c -- libFuzzer target: DHCPv4 header validator + option tables of include/proto/dhcpv4.h.
 *
 * data[0] = selector, data[1..] = the datagram (exact-size allocation).
 * The library has one parser function (dhcp4_hdr_check) and the descriptor tables a caller walks the option
 * field with (dhcp4_options[256], sub-option tables, value-name tables). The target checks the validator against
 * an RFC 2131 reference and, for accepted packets, walks the options the way the tables document it
 * (NOLEN / FIXEDLEN / MINLEN / ARRAY flags, SUBOPTS -> data_vals array of data_vals_cnt descriptors); every table
 * lookup is bounds-checked by UBSan and by explicit assertions, every option must lie inside the datagram.
 */
#include "C13_common.h"
#include "proto/dhcpv4.h"

static void
walk_opts(const uint8_t *m, size_t n, size_t off, const dhcp4_opt_params_t *tbl, size_t tbl_cnt, int depth) {
	const dhcp4_opt_params_t *prm;
	size_t len, i, code;
	C13_STEPS_DECL(st, n);

	while (off < n) {
		C13_STEP(st, "option walk");
		code = m[off];
		if (code >= tbl_cnt) { /* sub-option tables are shorter than 256 */
			fz_label("subopt_code_beyond_table");
			prm = &dhcp4_opt_params_unknown;
		} else {
			prm = &tbl[code];
		}
		FZ_ASSERT(NULL != prm->disp_name || 0 != depth, "dhcp4_options[]: descriptor without a display name");
		if (0 != (DHCP4_OPTP_F_NOLEN & prm->flags)) {
			off ++;
			if (DHCP4_OPTP_T_END == prm->type) {
				fz_label("opt_end");
				return;
			}
			continue;
		}
		if (off + 2 > n || off + 2 + m[off + 1] > n) {
			fz_label("opt_truncated");
			return;
		}
		len = m[off + 1];
		off += 2;
		fz_deep();
		if (0 != (DHCP4_OPTP_F_FIXEDLEN & prm->flags)) {
			if (0 != (DHCP4_OPTP_F_ARRAY & prm->flags)) {
				if (0 == prm->len) /* observation: dhcp4_options[68] is FIXEDLEN|ARRAY with element size 0 */
					fz_label("desc_array_elem_size_0");
				else if (0 != (len % prm->len))
					fz_label("opt_bad_len");
			} else if (len != prm->len) {
				fz_label("opt_bad_len");
			}
		} else if (0 != (DHCP4_OPTP_F_MINLEN & prm->flags) && len < prm->len) {
			fz_label("opt_bad_len");
		}
		switch (prm->type) {
		case DHCP4_OPTP_T_SUBOPTS:
			FZ_ASSERT(NULL != prm->data_vals && 0 != prm->data_vals_cnt, "descriptor: SUBOPTS without a sub-option table");
			fz_label("opt_subopts");
			if (depth < 2)
				walk_opts(m, off + len, off, (const dhcp4_opt_params_t *)prm->data_vals, prm->data_vals_cnt, depth + 1);
			break;
		case DHCP4_OPTP_T_1BYTE:
		case DHCP4_OPTP_T_BOOL:
			/* value-name table: index only below data_vals_cnt */
			if (NULL != prm->data_vals && 1 <= len && m[off] < prm->data_vals_cnt) {
				volatile const char *nm = ((const char * const *)prm->data_vals)[m[off]];
				(void)nm;
				fz_label("opt_named_value");
			}
			break;
		}
		if (0 == depth && DHCP4_OPT_PARAMETER_REQUEST_LIST == code) {
			for (i = 0; i < len; i ++)
				FZ_ASSERT(NULL != dhcp4_opt55[m[off + i]], "dhcp4_opt55[] not initialised by dhcp4_static_init()");
		}
		off += len;
	}
	fz_label("opt_no_end");
}

int
LLVMFuzzerTestOneInput(const uint8_t *data, size_t size) {
	static const uint8_t cookie[4] = { 0x63, 0x82, 0x53, 0x63 };
	uint8_t *m;
	size_t n;
	int rc, exp;

	if (1 > size)
		return (0);
	fz_total();
	dhcp4_static_init();
	n = (size - 1);
	m = fz_dup(data + 1, n);

	/* reference verdict (RFC 2131 fixed part = 236 octets + magic cookie; limits named in the header file) */
	if (n < 240)
		exp = EINVAL;
	else if ((1 != m[0] && 2 != m[0]) || 0 == m[1] || m[1] > DHCP4_HDR_HTYPE_MAX || m[2] > DHCP4_HDR_HLEN_MAX ||
	    0 != memcmp(m + 236, cookie, 4))
		exp = EBADMSG;
	else
		exp = 0;
	rc = dhcp4_hdr_check(m, n);
	FZ_ASSERT(rc == exp, "dhcp4_hdr_check: verdict differs from the reference");
	if (0 == rc) {
		fz_deep();
		fz_label("hdr_ok");
		FZ_ASSERT(m[0] < nitems(dhcp4_header_op) && NULL != dhcp4_header_op[m[0]], "accepted op has no dhcp4_header_op[] entry");
		if (m[1] >= nitems(dhcp4_header_htype))
			fz_label("htype_beyond_name_table"); /* observation: DHCP4_HDR_HTYPE_MAX (38) == nitems(dhcp4_header_htype) */
		walk_opts(m, n, 240, dhcp4_options, nitems(dhcp4_options), 0);
	} else {
		fz_label((EINVAL == rc) ? "hdr_short" : "hdr_bad");
	}
	fz_free(m, n);
	return (0);
}
