/* C12_common.h -- decode helpers shared by the C12 libFuzzer targets.
 * Layout of every C12 fuzz input: a few selector bytes (function, capacity
 * class, random capacity) followed by the payload handed to the library in an
 * exact-size heap block (fz_dup: no NUL appended, first byte past the end is an
 * ASan redzone). Output buffers come from fz_out(cap) (exact size as well).
 */
#ifndef VERIF_C12_COMMON_H
#define VERIF_C12_COMMON_H
#include <errno.h>
#include <sys/types.h>
#include <inttypes.h>
#include "fz.h"

typedef struct c12_in_s {
	const uint8_t *p;
	size_t n;
} c12_in_t;

static inline uint8_t
c12_u8(c12_in_t *in) {
	if (0 == in->n)
		return (0);
	in->n --;
	return (*in->p ++);
}
static inline uint16_t
c12_u16(c12_in_t *in) {
	uint16_t a = c12_u8(in);
	return ((uint16_t)(a | (c12_u8(in) << 8)));
}
static inline uint64_t
c12_u64(c12_in_t *in) {
	uint64_t v = 0;
	int i;
	for (i = 0; i < 8; i ++)
		v |= ((uint64_t)c12_u8(in)) << (8 * i);
	return (v);
}
/* take up to n bytes (pointer into the fuzz input, NOT handed to the library) */
static inline const uint8_t *
c12_take(c12_in_t *in, size_t n, size_t *got) {
	const uint8_t *r = in->p;
	if (n > in->n)
		n = in->n;
	in->p += n;
	in->n -= n;
	(*got) = n;
	return (r);
}

/* DESIGN 4/C12: capacities drawn from {0, 1, need-1, need, need+1, random} */
#define C12_NCAPCLS 6
static inline size_t
c12_cap(uint8_t sel, size_t need, uint16_t rnd) {
	switch (sel % C12_NCAPCLS) {
	case 0: return (0);
	case 1: return (1);
	case 2: return (need ? need - 1 : 0);
	case 3: return (need);
	case 4: return (need + 1);
	}
	return (rnd % (2 * need + 9));
}
static inline void
c12_cap_label(size_t cap, size_t need) {
	if (0 == cap) fz_label("cap=0");
	else if (cap + 1 == need) fz_label("cap=need-1");
	else if (cap == need) fz_label("cap=need");
	else if (cap == need + 1) fz_label("cap=need+1");
	else if (cap < need) fz_label("cap<need-1");
	else fz_label("cap>need+1");
}

#define C12_SENT ((size_t)0xA5A5A5A5A5A5A5A5ULL)
#define C12_FILL 0xEE

/* all bytes of [p, p+n) still hold the fill pattern */
static inline int
c12_untouched(const uint8_t *p, size_t n, uint8_t fill) {
	size_t i;
	for (i = 0; i < n; i ++)
		if (p[i] != fill)
			return (0);
	return (1);
}
/* read every byte of a returned span so that ASan checks it */
static inline uint8_t
c12_touch(const void *p, size_t n) {
	const volatile uint8_t *b = (const volatile uint8_t *)p;
	uint8_t x = 0;
	size_t i;
	for (i = 0; i < n; i ++)
		x ^= b[i];
	return (x);
}

#endif
