/* C13_radius.c -- libFuzzer target: RADIUS packet / attribute parsers of include/proto/radius.h.
 *
 * data[0] = selector, data[1..] = the datagram (exact-size allocation).
 * Calling protocol = src/proto/radius_client.c + http_server_auth.c: radius_pkt_chk(pkt, received) first; only if it
 * passes: radius_pkt_verify(pkt, secret, request), radius_pkt_attr_get_data_to_buf(pkt, 0, 0, type, ...),
 * attribute iteration by radius_pkt_attr_find*(offset = previous offset + attribute length), the getters on offsets
 * returned by find, radius_pkt_attr_msg_authenticator_chk / radius_pkt_authenticator_chk ("Call after radius_pkt_chk()").
 * On unchecked packets only radius_pkt_chk / radius_pkt_attr_chk / radius_attr_len_chk are called, and
 * radius_pkt_attr_find_raw on packets whose header length was validated (it repeats the attribute checks itself).
 * Oracle: ASan/UBSan + structural reference walk of the attribute list.
 */
#include "C13_common.h"
#include "proto/radius.h"

#define P_RAD_OFF	"radius_attr_from_offset_read_past_end" /* radius_pkt_attr_get_from_offset reads type/len at offset > len-2 */

#define P_RAD_SHORT	"radius_pkt_chk_short_datagram_read" /* radius_pkt_chk reads pkt->len of a datagram shorter than 4 octets */

static uint8_t key[] = "testing123";
static uint8_t req_hdr[20] = { 1, 7, 0, 20, 0x10, 0x11, 0x12, 0x13, 0x14, 0x15, 0x16, 0x17, 0x18, 0x19, 0x1a, 0x1b, 0x1c, 0x1d, 0x1e, 0x1f };
static const uint8_t types[] = { 18, 1, 2, 80, 79, 26, 4, 24, 241, 0 };

static inline size_t
hdr_len(const uint8_t *m) {
	return (((size_t)m[2] << 8) | m[3]);
}

static int
code_ok(uint8_t c) {
	switch (c) {
	case 1: case 2: case 3: case 4: case 5: case 11: case 12: case 13:
	case 40: case 41: case 42: case 43: case 44: case 45:
		return (1);
	}
	return (0);
}

/* structural reference: attributes tile [20, plen) exactly */
static int
ref_tiles(const uint8_t *m, size_t plen, size_t *nattr, size_t *n80) {
	size_t o = 20, l;

	(*nattr) = 0;
	(*n80) = 0;
	while (o < plen) {
		if (plen - o < 2)
			return (0);
		l = m[o + 1];
		if (0 == m[o] || l < 2 || l > plen - o)
			return (0);
		(*nattr) ++;
		if (80 == m[o])
			(*n80) ++;
		o += l;
	}
	return (1);
}

/* reference: first attribute of type t at or after attribute boundary off (0 = start); SIZE_MAX = none */
static size_t
ref_find(const uint8_t *m, size_t plen, size_t off, uint8_t t) {
	size_t o = (off ? off : 20);

	while (o + 2 <= plen) {
		if (m[o] == t)
			return (o);
		o += m[o + 1];
	}
	return (SIZE_MAX);
}

/* would radius_pkt_attr_get_from_offset(offset) read outside the allocation of n octets? */
static inline int
off_class(size_t offset, size_t plen, size_t n) {
	return (offset >= 20 && offset <= plen && offset + 2 > n);
}

/* simulation of radius_pkt_attr_get_data_to_buf(pkt, 0, count, t, buf, cap): expected bytes/len/rc, or class hit */
static int
sim_to_buf(const uint8_t *m, size_t plen, size_t n, size_t count, uint8_t t, uint8_t *ref, size_t cap,
    size_t *len_ret, int *rc_ret) {
	size_t off = 0, a, size, l, tm, dl = 0, found;
	int err = ENOATTR;
	C13_STEPS_DECL(st, plen);

	if (0 == count)
		count = ~count;
	while (0 != count) {
		C13_STEP(st, "harness: get_data_to_buf simulation");
		if (0 != off) {
			if (off < 20 || off > plen)
				break;
			if (off + 2 > n)
				return (1);
			if (off + m[off + 1] > plen)
				break;
			a = off;
		} else {
			a = 20;
		}
		found = SIZE_MAX;
		l = 0;
		for (size = plen - a; 0 != size;) {
			if (size < 2)
				break;
			l = m[a + 1];
			if (size < l || 0 == m[a] || l < 2)
				break;
			if (m[a] == t) {
				found = a;
				break;
			}
			size -= l;
			a += l;
		}
		if (SIZE_MAX == found)
			break;
		tm = (l - 2);
		if (RADIUS_ATTR_TYPE_USER_PASSWORD == t)
			tm = strnlen((const char *)(m + found + 2), tm);
		err = 0;
		if (cap < dl + tm)
			break;
		memcpy(ref + dl, m + found + 2, tm);
		dl += tm;
		off = (found + tm + 2);
		count --;
	}
	(*len_ret) = dl;
	(*rc_ret) = err;
	return (0);
}

int
LLVMFuzzerTestOneInput(const uint8_t *data, size_t size) {
	uint8_t sel, *m, *m2 = NULL, t, rt, *dp, *out, ref[4200];
	size_t n, plen, nattr = 0, n80 = 0, off, o, ro, l, cap, cnt, rlen, olen, off_ret, prev;
	unsigned aux, e;
	rad_pkt_attr_p attr;
	int rc, tiles, rrc, i;

	if (1 > size)
		return (0);
	fz_total();
	sel = data[0];
	aux = C13_AUX(sel);
	e = (C13_ENTRY(sel) & 7);
	n = (size - 1);
	m = fz_dup(data + 1, n);
	if (n < 4) { /* radius_pkt_chk reads code/length before it looks at pkt_size */
		if (0 == C13_CLASS(1, P_RAD_SHORT)) {
			rc = radius_pkt_chk((rad_pkt_hdr_p)m, n);
			FZ_ASSERT(0 != rc, "radius_pkt_chk accepted a datagram shorter than the header");
		}
		goto done;
	}
	plen = hdr_len(m);
	tiles = (plen >= 20 && plen <= n && plen <= RADIUS_PKT_MAX_SIZE && code_ok(m[0]) && ref_tiles(m, plen, &nattr, &n80));

	if (5 == e) { /* unchecked packet: validators only */
		fz_label("e:unchecked");
		rc = radius_pkt_chk((rad_pkt_hdr_p)m, n);
		fz_deep();
		if (0 == rc)
			FZ_ASSERT(tiles && n80 <= 1, "radius_pkt_chk accepted a packet whose attributes do not tile the packet");
		for (o = 20, i = 0; o + 2 <= n && i < 64; i ++) {
			rc = radius_pkt_attr_chk((rad_pkt_attr_p)(m + o));
			if (0 == rc)
				FZ_ASSERT(0 != m[o] && m[o + 1] >= 2, "radius_pkt_attr_chk accepted type 0 / length < 2");
			radius_attr_len_chk(m[o], m[o + 1]);
			o += (m[o + 1] ? m[o + 1] : 1);
		}
		goto done;
	}
	if (6 == e) { /* header length validated only: find_raw repeats the attribute checks */
		fz_label("e:find_lenonly");
		if (plen < 20 || plen > n)
			goto done;
		if (plen < n) {
			m2 = fz_dup(m, plen);
			fz_free(m, n);
			m = m2;
			n = plen;
		}
		t = types[aux % nitems(types)];
		attr = C13_PSENT;
		off_ret = C13_SENT;
		rc = radius_pkt_attr_find_raw((rad_pkt_hdr_p)m, 0, t, &attr, &off_ret);
		fz_deep();
		if (0 == rc) {
			FZ_ASSERT(off_ret >= 20 && off_ret + 2 <= plen && (uint8_t *)attr == m + off_ret, "find_raw: attribute outside the packet");
			FZ_ASSERT(attr->type == t && attr->len >= 2 && off_ret + attr->len <= plen, "find_raw: attribute does not fit the packet");
		}
		goto done;
	}

	rc = radius_pkt_chk((rad_pkt_hdr_p)m, n);
	if (0 != rc) {
		fz_label("chk_rejected");
		goto done;
	}
	fz_deep();
	fz_label("chk_ok");
	FZ_ASSERT(tiles && n80 <= 1, "radius_pkt_chk accepted a packet whose attributes do not tile the packet");
	if (0 != nattr)
		fz_label("has_attrs");
	if (plen < n) { /* the same packet received as a datagram of exactly its own length */
		fz_label("trailing_cut");
		m2 = fz_dup(m, plen);
		fz_free(m, n);
		m = m2;
		n = plen;
		FZ_ASSERT(0 == radius_pkt_chk((rad_pkt_hdr_p)m, n), "radius_pkt_chk: verdict changes when trailing octets are removed");
	}
	t = types[aux % nitems(types)];
	if (0 == t)
		t = ((plen > 20) ? m[20] : 1);

	switch (e) {
	case 0: { /* iterate all attributes of one type: find -> getters -> next offset */
		C13_STEPS_DECL(st, plen);
		fz_label("e:iterate");
		off = 0;
		prev = 0;
		for (;;) {
			C13_STEP(st, "attribute iteration");
			if (0 != C13_CLASS(0 != off && off_class(off, plen, n), P_RAD_OFF))
				break;
			attr = C13_PSENT;
			o = C13_SENT;
			rc = radius_pkt_attr_find_raw((rad_pkt_hdr_p)m, off, t, &attr, &o);
			if (0 != off && off + 2 > plen) {
				FZ_ASSERT(0 != rc, "find_raw: found an attribute at the end of the packet");
				break;
			}
			ro = ref_find(m, plen, off, t);
			FZ_ASSERT((0 == rc) == (SIZE_MAX != ro), "find_raw: verdict differs from the reference walk");
			if (0 != rc)
				break;
			FZ_ASSERT(o == ro && (uint8_t *)attr == m + o && o >= prev && o >= 20 && o + 2 <= plen,
			    "find_raw: offset differs from the reference / not monotone / outside the packet");
			l = attr->len;
			FZ_ASSERT(attr->type == t && l >= 2 && o + l <= plen, "find_raw: attribute does not fit the packet");
			rc = radius_pkt_attr_find((rad_pkt_hdr_p)m, off, t, &off_ret);
			FZ_ASSERT(0 == rc && off_ret == o, "radius_pkt_attr_find differs from find_raw");
			dp = C13_PSENT;
			rlen = C13_SENT;
			rt = 0;
			rc = radius_pkt_attr_get_data_ptr_raw((rad_pkt_hdr_p)m, o, &rt, &dp, &rlen);
			FZ_ASSERT(0 == rc && rt == t && dp == m + o + 2 && rlen == l - 2, "get_data_ptr_raw: data outside the attribute");
			dp = C13_PSENT;
			rlen = C13_SENT;
			rc = radius_pkt_attr_get_data_ptr((rad_pkt_hdr_p)m, o, &rt, &dp, &rlen);
			FZ_ASSERT(0 == rc && rt == t && dp == m + o + 2 && rlen <= l - 2 && FZ_INSIDE(dp, rlen, m, plen),
			    "get_data_ptr: data outside the attribute");
			prev = o;
			off = (o + l); /* next attribute */
		}
		break;
	}
	case 7:
		t = ((plen > 20) ? m[20 + ((aux * 7) % (plen - 20))] : 1); /* some octet of the packet as type */
		if (0 == t)
			t = 18;
		/* FALLTHROUGH */
	case 1: /* http_server_auth.c: radius_pkt_attr_get_data_to_buf(pkt, 0, 0, type, buf, cap, &n) */
		fz_label("e:to_buf");
		cnt = ((aux & 8) ? (1 + (aux & 3)) : 0);
		cap = ((aux & 4) ? (size_t)(aux * 5) : 4096);
		if (0 != C13_CLASS(sim_to_buf(m, plen, n, cnt, t, ref, cap, &rlen, &rrc), P_RAD_OFF))
			break;
		out = fz_out(cap, C13_FILL);
		olen = C13_SENT;
		rc = radius_pkt_attr_get_data_to_buf((rad_pkt_hdr_p)m, 0, cnt, t, out, cap, &olen);
		if (0 == sim_to_buf(m, plen, n, cnt, t, ref, cap, &rlen, &rrc)) {
			FZ_ASSERT(olen <= cap, "get_data_to_buf: returned size exceeds the capacity");
			FZ_ASSERT(rc == rrc && olen == rlen && 0 == memcmp(out, ref, rlen), "get_data_to_buf differs from the reference concatenation");
			FZ_ASSERT(c13_untouched(out + olen, cap - olen), "get_data_to_buf wrote past the returned size");
			if (0 != olen)
				fz_label("to_buf_data");
		}
		fz_free(out, cap);
		break;
	case 2: /* Message-Authenticator check at offset 0 (search) / at an attribute offset */
		fz_label("e:msg_auth");
		off = 0;
		if (aux & 1) {
			off = ref_find(m, plen, 0, ((aux & 2) ? t : 80));
			if (SIZE_MAX == off)
				off = ((aux & 4) ? plen : 0);
		}
		if (0 != C13_CLASS(0 != off && off_class(off, plen, n), P_RAD_OFF))
			break;
		off_ret = C13_SENT;
		rc = radius_pkt_attr_msg_authenticator_chk((rad_pkt_hdr_p)m, off, key, ((aux & 8) ? 0 : 10), ((aux >> 2) & 1),
		    ((aux & 2) ? NULL : (rad_pkt_hdr_p)req_hdr), &off_ret);
		if (0 == rc)
			fz_label("msg_auth_ok");
		if (C13_SENT != off_ret)
			FZ_ASSERT(off_ret >= 20 && off_ret + 2 <= plen && 80 == m[off_ret], "msg_authenticator_chk: offset outside the packet");
		if (0 == rc)
			FZ_ASSERT(C13_SENT != off_ret && off_ret + 18 <= plen, "msg_authenticator_chk: success without a Message-Authenticator inside the packet");
		break;
	case 3:
		fz_label("e:auth");
		rc = radius_pkt_authenticator_chk((rad_pkt_hdr_p)m, key, ((aux & 8) ? 0 : 10), (aux & 1),
		    ((aux & 2) ? NULL : (rad_pkt_hdr_p)req_hdr));
		if (0 == rc)
			fz_label("auth_ok");
		break;
	case 4: /* radius_client.c: radius_pkt_verify(pkt, secret, request); decodes User-Password in place */
		fz_label("e:verify");
		memcpy(ref, m, plen);
		rc = radius_pkt_verify((rad_pkt_hdr_p)m, key, ((aux & 8) ? 0 : 10), ((aux & 2) ? NULL : (rad_pkt_hdr_p)req_hdr));
		if (0 == rc) {
			fz_label("verify_ok");
			/* only the User-Password value may have changed */
			o = ref_find(ref, plen, 0, RADIUS_ATTR_TYPE_USER_PASSWORD);
			if (SIZE_MAX == o) {
				FZ_ASSERT(0 == memcmp(ref, m, plen), "radius_pkt_verify modified a packet without User-Password");
			} else {
				l = ref[o + 1];
				FZ_ASSERT(0 == memcmp(ref, m, o + 2) && 0 == memcmp(ref + o + l, m + o + l, plen - o - l),
				    "radius_pkt_verify modified octets outside the User-Password value");
				fz_label("verify_password");
				dp = C13_PSENT;
				rlen = C13_SENT;
				rc = radius_pkt_attr_get_data_ptr((rad_pkt_hdr_p)m, o, &rt, &dp, &rlen);
				FZ_ASSERT(0 == rc && dp == m + o + 2 && rlen <= l - 2, "get_data_ptr(User-Password): data outside the attribute");
			}
		}
		break;
	}
done:
	fz_free(m, n);
	return (0);
}
