/* C12 / base64: base64_encode, base64_decode, base64_en_copy, base64_decode_fmt.
 * input: [op][cap class][rnd lo][rnd hi] payload...
 * Oracle: bounds (ASan, exact-size blocks) + sizes <= capacity + the size the
 * function reports on ENOBUFS makes a second call succeed + RFC 4648 reference
 * text for the encoder / canonical inputs of the decoder.
 */
#include <sys/param.h>
#include <sys/types.h>
#include <inttypes.h>
#include <string.h>
#include <errno.h>
#include "utils/base64.h"
#include "C12_common.h"

static const char ref_tbl[] = "ABCDEFGHIJKLMNOPQRSTUVWXYZabcdefghijklmnopqrstuvwxyz0123456789+/";

static size_t
ref_encode(const uint8_t *s, size_t n, uint8_t *d) {
	size_t i, o = 0;
	for (i = 0; i + 2 < n; i += 3) {
		uint32_t v = ((uint32_t)s[i] << 16) | ((uint32_t)s[i + 1] << 8) | s[i + 2];
		d[o ++] = (uint8_t)ref_tbl[(v >> 18) & 63];
		d[o ++] = (uint8_t)ref_tbl[(v >> 12) & 63];
		d[o ++] = (uint8_t)ref_tbl[(v >> 6) & 63];
		d[o ++] = (uint8_t)ref_tbl[v & 63];
	}
	if (n - i == 1) {
		uint32_t v = ((uint32_t)s[i] << 16);
		d[o ++] = (uint8_t)ref_tbl[(v >> 18) & 63];
		d[o ++] = (uint8_t)ref_tbl[(v >> 12) & 63];
		d[o ++] = '=';
		d[o ++] = '=';
	} else if (n - i == 2) {
		uint32_t v = ((uint32_t)s[i] << 16) | ((uint32_t)s[i + 1] << 8);
		d[o ++] = (uint8_t)ref_tbl[(v >> 18) & 63];
		d[o ++] = (uint8_t)ref_tbl[(v >> 12) & 63];
		d[o ++] = (uint8_t)ref_tbl[(v >> 6) & 63];
		d[o ++] = '=';
	}
	return (o);
}
static int
ref_val(uint8_t c) {
	const char *p;
	if (0 == c || NULL == (p = strchr(ref_tbl, c)))
		return (-1);
	return ((int)(p - ref_tbl));
}

static void
do_encode(const uint8_t *data, size_t n, uint8_t csel, uint16_t rnd) {
	uint8_t *src = fz_dup(data, n), *dst, *ref;
	size_t rep = C12_SENT, need, cap, ret = C12_SENT, rn;
	int rc;

	/* size query: dst_size 0 */
	rc = base64_encode(src, n, NULL, 0, &rep);
	need = 4 * ((n + 2) / 3);
	if (0 == n) {
		FZ_ASSERT(0 == rc && 0 == rep, "encode(empty) must report 0");
	} else {
		FZ_ASSERT(ENOBUFS == rc, "encode with dst_size 0 must say ENOBUFS");
		FZ_ASSERT(rep == need, "encode reported size != 4*ceil(n/3)");
	}
	cap = c12_cap(csel, need, rnd);
	c12_cap_label(cap, need);
	if (cap == need && 0 != n && fz_known("base64_encode_nul_at_cap")) {
		fz_label("excl:base64_encode_nul_at_cap");
		fz_free(src, n);
		return;
	}
	dst = fz_out(cap, C12_FILL);
	rc = base64_encode(src, n, dst, cap, &ret);
	if (0 == n) {
		FZ_ASSERT(0 == rc && 0 == ret, "encode(empty)");
		FZ_ASSERT(c12_untouched(dst, cap, C12_FILL), "encode(empty) wrote output");
	} else if (cap < need) {
		FZ_ASSERT(ENOBUFS == rc, "encode: small dst must be refused");
		FZ_ASSERT(ret == need, "encode: ENOBUFS must report the needed size");
		FZ_ASSERT(c12_untouched(dst, cap, C12_FILL), "encode: wrote into a refused buffer");
		fz_label("enc:ENOBUFS");
	} else {
		FZ_ASSERT(0 == rc, "encode: the self-reported size must be sufficient");
		FZ_ASSERT(ret == need && ret <= cap, "encode: size_ret > capacity");
		ref = (uint8_t *)malloc(need + 4);
		rn = ref_encode(src, n, ref);
		FZ_ASSERT(rn == ret && 0 == memcmp(ref, dst, rn), "encode: text differs from RFC 4648 reference");
		free(ref);
		fz_deep();
		fz_label("enc:ok");
	}
	fz_free(dst, cap);
	fz_free(src, n);
}

static void
do_decode(const uint8_t *data, size_t n, uint8_t csel, uint16_t rnd) {
	uint8_t *src = fz_dup(data, n), *dst;
	size_t rep = C12_SENT, need, cap, ret = C12_SENT, real, i, o;
	int rc, canonical = 1, rc0;

	for (real = n; 0 < real && '=' == data[real - 1]; real --)
		;
	for (i = 0; i < real; i ++)
		if (0 > ref_val(data[i]))
			canonical = 0;
	if (0 != (n % 4) || (n - real) > 2)
		canonical = 0;
	rc0 = base64_decode(src, n, NULL, 0, &rep);
	if (0 == real) {
		FZ_ASSERT(0 == rc0 && 0 == rep, "decode(empty / padding only) must give 0 bytes");
		need = 0;
	} else if (2 > real) {
		FZ_ASSERT(EINVAL == rc0, "decode(1 symbol) must be EINVAL");
		need = 0;
	} else {
		FZ_ASSERT(ENOBUFS == rc0, "decode with dst_size 0 must say ENOBUFS");
		FZ_ASSERT(rep != C12_SENT && rep <= 3 * ((real + 3) / 4), "decode: reported size out of range");
		need = rep;
	}
	cap = c12_cap(csel, need, rnd);
	c12_cap_label(cap, need);
	if (cap == need && 2 <= real && 0 == (real % 4) && fz_known("base64_decode_nul_at_cap")) {
		fz_label("excl:base64_decode_nul_at_cap");
		fz_free(src, n);
		return;
	}
	dst = fz_out(cap, C12_FILL);
	rc = base64_decode(src, n, dst, cap, &ret);
	if (2 > real) {
		FZ_ASSERT(rc == rc0, "decode: rc changed with capacity");
		FZ_ASSERT(c12_untouched(dst, cap, C12_FILL), "decode(trivial) wrote output");
	} else if (cap < need) {
		FZ_ASSERT(ENOBUFS == rc && ret == need, "decode: small dst must be refused with the needed size");
		FZ_ASSERT(c12_untouched(dst, cap, C12_FILL), "decode: wrote into a refused buffer");
		fz_label("dec:ENOBUFS");
	} else {
		FZ_ASSERT(0 == rc, "decode: the self-reported size must be sufficient");
		FZ_ASSERT(ret <= cap && ret <= need, "decode: size_ret > capacity");
		FZ_ASSERT(c12_untouched(dst + ret + (ret < cap ? 1 : 0), cap - ret - (ret < cap ? 1 : 0), C12_FILL),
		    "decode: wrote past size_ret + terminator");
		if (canonical) { /* RFC 4648 reference value */
			uint32_t acc = 0;
			int bits = 0;
			for (i = 0, o = 0; i < real; i ++) {
				acc = (acc << 6) | (uint32_t)ref_val(data[i]);
				bits += 6;
				if (bits >= 8) {
					bits -= 8;
					FZ_ASSERT(o < ret && dst[o] == (uint8_t)(acc >> bits), "decode: bytes differ from RFC 4648 reference");
					o ++;
				}
			}
			FZ_ASSERT(o == ret, "decode: length differs from RFC 4648 reference");
			fz_label("dec:canonical");
		}
		fz_deep();
		fz_label("dec:ok");
	}
	fz_free(dst, cap);
	fz_free(src, n);
}

static void
do_en_copy(const uint8_t *data, size_t n) {
	uint8_t *src = fz_dup(data, n), *dst = fz_out(n, C12_FILL);
	size_t ret = C12_SENT, i;
	int rc = base64_en_copy(src, dst, n, &ret);

	FZ_ASSERT(0 == rc, "en_copy rc");
	FZ_ASSERT(ret <= n, "en_copy: new_size > buf_size");
	for (i = 0; i < ret; i ++)
		FZ_ASSERT(0 <= ref_val(dst[i]), "en_copy kept a non-alphabet byte");
	FZ_ASSERT(c12_untouched(dst + ret, n - ret, C12_FILL), "en_copy wrote past new_size");
	if (ret != n && 0 != ret)
		fz_deep();
	fz_free(dst, n);
	fz_free(src, n);
}

static void
do_decode_fmt(const uint8_t *data, size_t n, uint8_t csel, uint16_t rnd) {
	uint8_t *src = fz_dup(data, n), *dst;
	size_t cap = c12_cap(csel, n, rnd), ret = C12_SENT, cap2;
	int rc;

	c12_cap_label(cap, n);
	dst = fz_out(cap, C12_FILL);
	rc = base64_decode_fmt(src, n, dst, cap, &ret);
	if (0 == rc) {
		FZ_ASSERT(ret != C12_SENT && ret <= cap, "decode_fmt: size_ret > capacity");
		if (0 != ret)
			fz_deep();
		fz_label("fmt:ok");
	} else if (ENOBUFS == rc) {
		fz_label("fmt:ENOBUFS");
		if (cap < n) {
			FZ_ASSERT(c12_untouched(dst, cap, C12_FILL), "decode_fmt: wrote into a refused buffer");
			cap2 = n; /* no size is reported on this path: the documented need is src_size */
		} else {
			FZ_ASSERT(ret != C12_SENT && ret > cap, "decode_fmt: ENOBUFS without a usable size");
			cap2 = ret;
		}
		fz_free(dst, cap);
		cap = cap2;
		dst = fz_out(cap, C12_FILL);
		ret = C12_SENT;
		rc = base64_decode_fmt(src, n, dst, cap, &ret);
		if (ENOBUFS == rc && ret != C12_SENT && ret > cap) { /* first refusal was src_size > dst_size; now the decoder's own need */
			fz_free(dst, cap);
			cap = ret;
			dst = fz_out(cap, C12_FILL);
			ret = C12_SENT;
			rc = base64_decode_fmt(src, n, dst, cap, &ret);
		}
		FZ_ASSERT(ENOBUFS != rc, "decode_fmt: the reported size is still too small");
		if (0 == rc)
			FZ_ASSERT(ret <= cap, "decode_fmt: size_ret > capacity (2nd)");
	} else {
		FZ_ASSERT(EINVAL == rc, "decode_fmt: unexpected rc");
		fz_label("fmt:EINVAL");
	}
	fz_free(dst, cap);
	fz_free(src, n);
}

int
LLVMFuzzerTestOneInput(const uint8_t *data, size_t size) {
	c12_in_t in = { data, size };
	uint8_t op, csel;
	uint16_t rnd;

	fz_total();
	op = c12_u8(&in);
	csel = c12_u8(&in);
	rnd = c12_u16(&in);
	switch (op % 4) {
	case 0: do_encode(in.p, in.n, csel, rnd); break;
	case 1: do_decode(in.p, in.n, csel, rnd); break;
	case 2: do_en_copy(in.p, in.n); break;
	case 3: do_decode_fmt(in.p, in.n, csel, rnd); break;
	}
	return (0);
}
