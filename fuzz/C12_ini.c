/* C12 / ini: ini_buf_parse -> ini_val_set* / enumeration / lookups -> ini_buf_calc_size -> ini_buf_gen
 * (src/utils/ini.c, with src/utils/buf_str.c for the line iterator).
 * input: [cap class][rnd lo][rnd hi][nops] then nops * ([op][name sel][val len] val bytes...) then the INI text.
 * Oracle: bounds (ASan; text, names, values and the generator's output all exact-size blocks) +
 * ini_buf_gen never reports more than the capacity, succeeds with exactly the size that
 * ini_buf_calc_size reported and produces that many bytes + every span returned by the enumerators /
 * getters is readable + the generated text parses back to the same size (round trip through the
 * library's own parser as an extra relation only).
 * Names and section names are passed with explicit sizes (the size-0-means-strlen convenience of the
 * ini_val_* functions needs C strings and is exercised with NUL-terminated blocks only).
 */
#include <sys/param.h>
#include <sys/types.h>
#include <inttypes.h>
#include <string.h>
#include <errno.h>
#include "utils/ini.h"
#include "C12_common.h"

static const uint64_t p10[20] = {
	1ull, 10ull, 100ull, 1000ull, 10000ull, 100000ull, 1000000ull, 10000000ull, 100000000ull, 1000000000ull,
	10000000000ull, 100000000000ull, 1000000000000ull, 10000000000000ull, 100000000000000ull,
	1000000000000000ull, 10000000000000000ull, 100000000000000000ull, 1000000000000000000ull,
	10000000000000000000ull
};
static int
is_pow10_ge10(uint64_t v) {
	int i;
	for (i = 1; i < 20; i ++)
		if (v == p10[i])
			return (1);
	return (0);
}

/* small pool of names so that set / get hit lines that exist in the parsed text */
static const char *names[] = { "a", "b", "key", "Key", "KEY", "name", "x y", "", "s", "sect", "Sect", "long_name_0123456789" };
#define NNAMES (sizeof(names) / sizeof(names[0]))

static uint8_t *
name_blk(uint8_t sel, size_t *len) {
	const char *s = names[sel % NNAMES];
	(*len) = strlen(s);
	return (fz_dup((const uint8_t *)s, (*len)));
}

static void
enumerate(ini_p ini, size_t *nsect, size_t *nval) {
	size_t so = 0, vo, nsz, vnsz, vsz, guard = 0;
	const uint8_t *nm, *vn, *v;

	(*nsect) = (*nval) = 0;
	while (0 == ini_sect_enum(ini, &so, &nm, &nsz)) {
		(void)c12_touch(nm, nsz);
		(*nsect) ++;
		vo = 0;
		while (0 == ini_sect_val_enum(ini, so, &vo, &vn, &vnsz, &v, &vsz)) {
			(void)c12_touch(vn, vnsz);
			(void)c12_touch(v, vsz);
			(*nval) ++;
			vo ++;
			FZ_ASSERT(++ guard < 100000, "ini_sect_val_enum: does not terminate");
		}
		so ++;
		FZ_ASSERT(++ guard < 100000, "ini_sect_enum: does not terminate");
	}
}

int
LLVMFuzzerTestOneInput(const uint8_t *data, size_t size) {
	c12_in_t in = { data, size };
	uint8_t csel, nops, op, nsel, *text, *sn, *vn, *val, *out, *out2;
	const uint8_t *vsrc, *got;
	uint16_t rnd;
	size_t n, i, snl, vnl, vl, need = C12_SENT, need2 = C12_SENT, cap, ret = C12_SENT, gotsz, nsect, nval, lines = 0;
	ssize_t sv;
	size_t uv;
	uint64_t raw;
	ini_p ini = NULL, ini2 = NULL;
	int rc;
	struct { uint8_t op, nsel; const uint8_t *v; size_t vl; uint64_t raw; } ops[8];

	fz_total();
	csel = c12_u8(&in);
	rnd = c12_u16(&in);
	nops = (uint8_t)(c12_u8(&in) % 9);
	for (i = 0; i < nops; i ++) {
		ops[i].op = c12_u8(&in);
		ops[i].nsel = c12_u8(&in);
		ops[i].v = c12_take(&in, (size_t)(c12_u8(&in) % 40), &ops[i].vl);
		ops[i].raw = 0;
		memcpy(&ops[i].raw, ops[i].v, (ops[i].vl < 8 ? ops[i].vl : 8));
	}
	n = in.n;
	text = fz_dup(in.p, n);
	for (i = 0; i < n; i ++)
		if (0x0a == in.p[i])
			lines ++;

	FZ_ASSERT(0 == ini_create(&ini) && NULL != ini, "ini_create");
	rc = ini_buf_parse(ini, text, n);
	FZ_ASSERT(0 == rc, "ini_buf_parse: rc");
	/* the store keeps its own copies: the caller's text may go away */
	fz_free(text, n);
	enumerate(ini, &nsect, &nval);

	for (i = 0; i < nops; i ++) {
		op = ops[i].op;
		nsel = ops[i].nsel;
		sn = name_blk((uint8_t)(nsel >> 4), &snl);
		vn = name_blk((uint8_t)(nsel & 15), &vnl);
		vsrc = ops[i].v;
		vl = ops[i].vl;
		raw = ops[i].raw;
		val = fz_dup(vsrc, vl);
		/* explicit sizes; a zero size goes with a NULL pointer */
		switch (op % 8) {
		case 0:
		case 1:
			rc = ini_val_set(ini, (snl ? sn : NULL), snl, (vnl ? vn : NULL), vnl, val, vl);
			FZ_ASSERT(0 == rc, "ini_val_set: rc");
			fz_label("ini:val_set");
			break;
		case 2:
			sv = (ssize_t)raw;
			if (1 == (op >> 3) % 4)
				sv = (ssize_t)p10[(op >> 5) % 19];
			if (0 < sv && is_pow10_ge10((uint64_t)sv)) {
				fz_label("ini:set_int +10^k");
				if (fz_known("num2str_pow10")) {
					fz_label("excl:num2str_pow10");
					break;
				}
			}
			rc = ini_val_set_int(ini, (snl ? sn : NULL), snl, (vnl ? vn : NULL), vnl, sv);
			FZ_ASSERT(0 == rc, "ini_val_set_int: rc");
			break;
		case 3:
			uv = (size_t)raw;
			if (1 == (op >> 3) % 4)
				uv = (size_t)p10[(op >> 5) % 20];
			if (is_pow10_ge10((uint64_t)uv)) {
				fz_label("ini:set_uint 10^k");
				if (fz_known("num2str_pow10")) {
					fz_label("excl:num2str_pow10");
					break;
				}
			}
			rc = ini_val_set_uint(ini, (snl ? sn : NULL), snl, (vnl ? vn : NULL), vnl, uv);
			FZ_ASSERT(0 == rc, "ini_val_set_uint: rc");
			break;
		case 4:
			got = NULL;
			gotsz = 0;
			rc = ini_val_get(ini, (snl ? sn : NULL), snl, (vnl ? vn : NULL), vnl, &got, &gotsz);
			if (0 == rc) {
				(void)c12_touch(got, gotsz);
				fz_label("ini:val_get hit");
			} else {
				FZ_ASSERT(ENOENT == rc, "ini_val_get: rc");
			}
			break;
		case 5:
			got = NULL;
			gotsz = 0;
			rc = ini_vali_get(ini, (snl ? sn : NULL), snl, (vnl ? vn : NULL), vnl, &got, &gotsz);
			if (0 == rc) {
				(void)c12_touch(got, gotsz);
				fz_label("ini:vali_get hit");
			} else {
				FZ_ASSERT(ENOENT == rc, "ini_vali_get: rc");
			}
			break;
		case 6:
			rc = ini_val_get_int(ini, (snl ? sn : NULL), snl, (vnl ? vn : NULL), vnl, &sv);
			FZ_ASSERT(0 == rc || ENOENT == rc, "ini_val_get_int: rc");
			rc = ini_vali_get_uint(ini, (snl ? sn : NULL), snl, (vnl ? vn : NULL), vnl, &uv);
			FZ_ASSERT(0 == rc || ENOENT == rc, "ini_vali_get_uint: rc");
			break;
		default:
			(void)ini_sect_find(ini, (snl ? sn : NULL), snl);
			(void)ini_sect_findi(ini, (snl ? sn : NULL), snl);
			break;
		}
		fz_free(val, vl);
		fz_free(vn, vnl);
		fz_free(sn, snl);
	}
	enumerate(ini, &nsect, &nval);

	rc = ini_buf_calc_size(ini, &need);
	FZ_ASSERT(0 == rc && need != C12_SENT, "ini_buf_calc_size");
	cap = c12_cap(csel, need, rnd);
	c12_cap_label(cap, need);
	if (2 <= cap && cap < need) {
		/* H-UT-7: every line is tested against the whole buf_size, not against the space left */
		fz_label("ini:gen into 2 <= cap < calc_size");
		if (fz_known("ini_buf_gen_cap_lt_total")) {
			fz_label("excl:ini_buf_gen_cap_lt_total");
			goto done;
		}
	}
	out = fz_out(cap, C12_FILL);
	rc = ini_buf_gen(ini, out, cap, &ret);
	if (0 == cap) {
		FZ_ASSERT(EINVAL == rc, "ini_buf_gen: zero capacity must be EINVAL");
	} else {
		FZ_ASSERT(ret != C12_SENT && ret <= cap, "ini_buf_gen: reported size > capacity");
		FZ_ASSERT(c12_untouched(out + ret, cap - ret, C12_FILL), "ini_buf_gen: wrote past the reported size");
		if (cap >= need) {
			FZ_ASSERT(0 == rc && ret == need, "ini_buf_gen: the size from ini_buf_calc_size must be sufficient and exact");
			/* extra relation: the generated text parses back to a store of the same size */
			FZ_ASSERT(0 == ini_create(&ini2), "ini_create (2)");
			out2 = fz_dup(out, ret);
			FZ_ASSERT(0 == ini_buf_parse(ini2, out2, ret), "ini_buf_parse of generated text");
			fz_free(out2, ret);
			FZ_ASSERT(0 == ini_buf_calc_size(ini2, &need2), "ini_buf_calc_size (2)");
			if (need2 != need)
				fz_label("ini:reparse size differs (line breaks inside values; C17 territory)");
			ini_destroy(ini2);
			fz_label("ini:gen ok");
		} else {
			FZ_ASSERT(0 != rc, "ini_buf_gen: success although the text cannot fit");
			fz_label("ini:gen refused");
		}
	}
	fz_free(out, cap);
done:
	if (2 < lines || 0 != nops)
		fz_deep();
	ini_destroy(ini);
	return (0);
}
