/* C13_dns.c -- libFuzzer target: DNS message / name parsers of include/proto/dns.h on hostile packets.
 *
 * data[0] = selector, data[1..] = the datagram (exact-size allocation).
 * Calling protocol = src/proto/dns_resolv.c: dns_msg_info_get() first, the offsets/counts it returns feed
 * dns_msg_question_get_data / dns_msg_rr_get_data / dns_msg_rr_find; rdata offsets feed
 * dns_msg_sequence_of_labels2name (CNAME) and SequenceOfLabelsGetSize (SOA decoder). Functions that validate
 * their own offset argument (EINVAL/EBADMSG paths) are also called with arbitrary offsets.
 * Oracle: ASan/UBSan + an independent RFC 1035 reference walk (ref_*): sizes/offsets/counts/names must agree,
 * every returned pointer/length must lie inside the message, loops bounded by len+1 steps.
 */
#include "C13_common.h"
#include "proto/dns.h"

/* known-finding predicates (see notes/C13.md) */
#define P_SEQ_END	"dns_seq_labels_read_at_end"	/* SequenceOfLabelsGetSize reads buf[buf_size] when the labels fill the buffer */
#define P_L2D_END	"dns_labels2domain_unterminated" /* SequenceOfLabelsToDomainName: same input; reads buf[buf_size] and writes name[name_buf_size] when name_buf_size == buf_size-1 */
#define P_SEQ_PTR	"dns_seq_labels_size_past_end"	/* SequenceOfLabelsGetSize returns buf_size+1 for a pointer octet in the last byte */
#define P_RR_TRUNC	"dns_rr_fixed_part_read_past_end" /* dns_msg_rr_get_data reads rdlength before the fixed part is known to fit */
#define P_NAME_WALK	"dns_name_walk_past_end"	/* labels2name/get_name_len: max_pos over-reach, pointer target == msg_size, 2nd pointer octet */

#define P_L2D_ROOT	"dns_labels2domain_root_underflow" /* SequenceOfLabelsToDomainName writes name[-1] for the root name */

#define CL_SEQ_END	1
#define CL_SEQ_PTR	2
#define CL_RR_TRUNC	4
#define CL_WALK		8

enum { WK_OK = 0, WK_EINVAL, WK_BADMSG, WK_UNSUP, WK_LOOP, WK_OVERFLOW, WK_CLASS };
static const int w_errno[] = { 0, EINVAL, EBADMSG, EOPNOTSUPP, ELOOP, EOVERFLOW, -1 };

static uint8_t ref_name[(DNS_MAX_NAME_CYCLES + 1) * 2048 + 16];

static inline unsigned
be16(const uint8_t *p) {
	return (((unsigned)p[0] << 8) | p[1]);
}

/* ---- reference: size of a label sequence, compression not followed (RFC 1035 4.1.4).
 * returns 0 and *sz (library convention: a pointer counts 2 octets, an extended label type ends the name),
 * or 1 = malformed. *cls gets the defect classes an unchecked implementation would run into. */
static int
ref_labels_size(const uint8_t *b, size_t n, size_t *sz, int *cls) {
	size_t p = 0, l;

	if (0 == n)
		return (1);
	for (;;) {
		if (p >= n) { /* labels fill the buffer, no terminator: next length octet is outside */
			(*cls) |= CL_SEQ_END;
			return (1);
		}
		l = b[p ++];
		switch (l & 0xC0) {
		case 0x00:
			if (p + l > n)
				return (1);
			if (0 == l) {
				(*sz) = p;
				return (0);
			}
			p += l;
			break;
		case 0xC0:
			(*sz) = (p + 1);
			if (p + 1 > n) { /* second pointer octet is outside the buffer */
				(*cls) |= CL_SEQ_PTR;
				return (1);
			}
			return (0);
		default:
			(*sz) = p;
			return (0);
		}
	}
}

static int
ref_question(const uint8_t *m, size_t n, size_t off, size_t *qsize, int *cls) {
	size_t sz = 0;
	int c = 0;

	if (0 == off || n < off || n < 12)
		return (1);
	if (0 != ref_labels_size(m + off, n - off, &sz, &c)) {
		if (0 != (c & CL_SEQ_END))
			(*cls) |= CL_SEQ_END;
		return (1);
	}
	if (off + sz + 4 > n)
		return (1);
	(*qsize) = (sz + 4);
	return (0);
}

static int
ref_rr(const uint8_t *m, size_t n, size_t off, size_t *rrsize, size_t *rdoff, size_t *rdlen, int *cls) {
	size_t sz = 0;
	int c = 0;

	if (0 == n || 0 == off || n < off || n < 12)
		return (1);
	if (0 != ref_labels_size(m + off, n - off, &sz, &c)) {
		if (0 != (c & CL_SEQ_END)) {
			(*cls) |= CL_SEQ_END;
			return (1);
		}
		if (0 == (c & CL_SEQ_PTR))
			return (1);
		/* pointer octet in the last byte: the record is truncated */
	}
	if (off + sz + 10 > n) { /* type/class/ttl/rdlength do not fit */
		(*cls) |= CL_RR_TRUNC;
		return (1);
	}
	(*rdlen) = be16(m + off + sz + 8);
	(*rdoff) = (off + sz + 10);
	(*rrsize) = (sz + 10 + (*rdlen));
	if (off + (*rrsize) > n)
		return (1);
	return (0);
}

typedef struct ref_info_s {
	size_t qd, an, ns, ar, cnt, size;
	size_t qdc;
} ref_info_t;

static int
ref_info(const uint8_t *m, size_t n, ref_info_t *ri, int *cls) {
	size_t off = 12, i, cnt, tm = 0, a, b;
	int sec;

	if (n < 12)
		return (1);
	ri->qd = 12;
	ri->cnt = 0;
	ri->qdc = cnt = be16(m + 4);
	for (i = 0; i < cnt; i ++) {
		if (0 != ref_question(m, n, off, &tm, cls))
			return (1);
		off += tm;
	}
	ri->an = off;
	for (sec = 0; sec < 3; sec ++) {
		cnt = be16(m + 6 + 2 * sec);
		ri->cnt += cnt;
		if (1 == sec)
			ri->ns = off;
		if (2 == sec)
			ri->ar = off;
		for (i = 0; i < cnt; i ++) {
			if (0 != ref_rr(m, n, off, &tm, &a, &b, cls))
				return (1);
			off += tm;
		}
	}
	ri->size = off;
	return (0);
}

/* ---- reference: expand a possibly compressed name starting at off (RFC 1035 4.1.4), at most
 * DNS_MAX_NAME_CYCLES pointer jumps; cap = caller's output capacity (SIZE_MAX: length only).
 * WK_CLASS: the walk needs an octet at index >= n (name not contained in the message). */
static int
ref_name_walk(const uint8_t *m, size_t n, size_t off, size_t cap, size_t *name_len) {
	size_t cur, jumps, nl = 0, l, o;

	if (off < 12 || n < off)
		return (WK_EINVAL);
	if (n < 12)
		return (WK_BADMSG);
	cur = off;
	for (jumps = 0; jumps < DNS_MAX_NAME_CYCLES;) {
		if (cur >= n)
			return (WK_CLASS);
		l = m[cur];
		if (0xC0 == (l & 0xC0)) {
			if (cur + 1 >= n)
				return (WK_CLASS);
			o = (be16(m + cur) & 0x3fff);
			if (n < o || o < 12 || o == cur)
				return (WK_BADMSG);
			cur = o;
			jumps ++;
			continue;
		}
		if (0 != (l & 0xC0))
			return (WK_UNSUP);
		cur ++;
		if (cur + l > n)
			return (WK_CLASS);
		if (0 == l) {
			if (0 != nl)
				nl --;
			(*name_len) = nl;
			return (WK_OK);
		}
		FZ_ASSERT(nl + l + 1 < sizeof(ref_name), "reference name buffer too small (harness)");
		memcpy(ref_name + nl, m + cur, l);
		ref_name[nl + l] = '.';
		nl += (l + 1);
		if (nl >= cap) {
			(*name_len) = nl;
			return (WK_OVERFLOW);
		}
		cur += l;
	}
	return (WK_LOOP);
}

/* ---- checked calls ---- */

/* dns_msg_sequence_of_labels2name + _get_name_len at off, output capacity class aux */
static void
chk_name_at(const uint8_t *m, size_t n, size_t off, unsigned aux) {
	size_t rlen = 0, need, cap, len_ret, rl2 = 0;
	int w, w2, rc;
	uint8_t *out;

	/* length only */
	w = ref_name_walk(m, n, off, SIZE_MAX, &rlen);
	if (0 == C13_CLASS(WK_CLASS == w, P_NAME_WALK)) {
		len_ret = C13_SENT;
		rc = dns_msg_sequence_of_labels_get_name_len((dns_hdr_p)m, n, off, &len_ret);
		fz_deep();
		if (WK_CLASS == w) {
			FZ_ASSERT(0 != rc, "get_name_len accepted a name that is not contained in the message");
		} else {
			FZ_ASSERT(rc == w_errno[w], "get_name_len: return code differs from the reference walk");
			if (0 == rc)
				FZ_ASSERT(len_ret == rlen, "get_name_len: length differs from the reference walk");
		}
	}
	/* expand */
	need = ((WK_OK == w) ? (rlen + 2) : 64); /* running length incl. the trailing dot must stay below the capacity */
	cap = c13_cap(aux, need);
	w2 = ref_name_walk(m, n, off, cap, &rl2);
	if (0 != C13_CLASS(WK_CLASS == w2, P_NAME_WALK))
		return;
	out = fz_out(cap, C13_FILL);
	len_ret = C13_SENT;
	rc = dns_msg_sequence_of_labels2name((dns_hdr_p)m, n, off, out, cap, &len_ret);
	fz_deep();
	if (0 == cap) {
		FZ_ASSERT(EINVAL == rc, "labels2name: zero capacity must be refused");
	} else if (WK_CLASS == w2) {
		FZ_ASSERT(0 != rc, "labels2name accepted a name that is not contained in the message");
	} else {
		FZ_ASSERT(rc == w_errno[w2], "labels2name: return code differs from the reference walk");
		if (0 == rc) {
			fz_label("name_ok");
			FZ_ASSERT(len_ret == rl2 && len_ret < cap, "labels2name: length differs / does not fit the capacity");
			FZ_ASSERT(0 == memcmp(out, ref_name, len_ret) && 0 == out[len_ret],
			    "labels2name: expanded name differs from the reference walk");
			if (len_ret + 1 < cap && 0 == len_ret)
				FZ_ASSERT(c13_untouched(out + 1, cap - 1), "labels2name wrote past the terminator of an empty name");
		} else if (EOVERFLOW == rc) {
			fz_label("name_overflow");
			FZ_ASSERT(len_ret == rl2, "labels2name: EOVERFLOW length differs from the reference walk");
		}
	}
	fz_free(out, cap);
}

/* SequenceOfLabelsGetSize on a span, the way the SOA decoder of dns_resolv.c uses it; returns consumed size or 0 */
static size_t
chk_labels_size(const uint8_t *b, size_t n) {
	size_t rsz = 0, sz = C13_SENT;
	int cls = 0, r, rc;

	r = ref_labels_size(b, n, &rsz, &cls);
	if (0 != C13_CLASS(cls & CL_SEQ_END, P_SEQ_END) ||
	    0 != C13_CLASS(cls & CL_SEQ_PTR, P_SEQ_PTR))
		return (0);
	rc = SequenceOfLabelsGetSize(b, n, &sz);
	fz_deep();
	if (0 != cls) {
		FZ_ASSERT(0 != rc, "SequenceOfLabelsGetSize accepted a label sequence that is not contained in the buffer");
		return (0);
	}
	FZ_ASSERT((0 == rc) == (0 == r), "SequenceOfLabelsGetSize: verdict differs from the reference walk");
	if (0 != rc)
		return (0);
	FZ_ASSERT(sz == rsz, "SequenceOfLabelsGetSize: size differs from the reference walk");
	FZ_ASSERT(sz <= n && 0 != sz, "SequenceOfLabelsGetSize: returned size outside the buffer");
	return (sz);
}

static void
chk_labels_to_name(const uint8_t *b, size_t n, unsigned aux) {
	size_t rsz = 0, cap, len_ret = C13_SENT, p, o;
	int cls = 0, r, rc, plain = 1;
	uint8_t *out;

	r = ref_labels_size(b, n, &rsz, &cls);
	/* ToDomainName refuses every non-length label type: find out whether the walk reaches one */
	for (p = 0; p < n;) {
		if (0 != (b[p] & 0xC0)) {
			plain = 0;
			break;
		}
		if (0 == b[p] || p + 1 + b[p] > n)
			break;
		p += (1 + (size_t)b[p]);
	}
	cap = c13_cap(aux, (n ? n - 1 : 0));
	/* the walk only starts when the arguments pass the size checks */
	if (0 != C13_CLASS((cls & CL_SEQ_END) && 0 != n && 0 != cap && cap >= n - 1, P_L2D_END))
		return;
	if (0 != C13_CLASS(0 != n && 0 == b[0] && 0 != cap && cap >= n - 1, P_L2D_ROOT))
		return;
	out = fz_out(cap, C13_FILL);
	rc = SequenceOfLabelsToDomainName(b, n, out, cap, &len_ret);
	fz_deep();
	if (0 == n || 0 == cap) {
		FZ_ASSERT(EINVAL == rc, "SequenceOfLabelsToDomainName: empty buffer must be refused");
	} else if (cap < n - 1) {
		FZ_ASSERT(EOVERFLOW == rc && c13_untouched(out, cap), "SequenceOfLabelsToDomainName: small output must be refused untouched");
	} else if (0 != (cls & CL_SEQ_END)) {
		FZ_ASSERT(0 != rc, "SequenceOfLabelsToDomainName accepted labels that are not contained in the buffer");
	} else if (0 == plain) {
		FZ_ASSERT(0 != rc, "SequenceOfLabelsToDomainName accepted a non-length label");
	} else {
		FZ_ASSERT((0 == rc) == (0 == r), "SequenceOfLabelsToDomainName: verdict differs from the reference walk");
		if (0 == rc) {
			FZ_ASSERT(len_ret == rsz && len_ret <= n, "SequenceOfLabelsToDomainName: consumed size differs from the reference");
			/* text = labels joined by dots (rsz - 2 octets) + NUL; nothing after the terminator is written */
			o = ((rsz >= 2) ? (rsz - 2) : 0);
			FZ_ASSERT(o < cap && 0 == out[o] && c13_untouched(out + o + 1, cap - o - 1),
			    "SequenceOfLabelsToDomainName: terminator misplaced / wrote past the text");
		}
	}
	fz_free(out, cap);
}

static void
chk_zones(const uint8_t *name, size_t name_len, unsigned aux) {
	uint8_t *nm, *dst, *pr;
	size_t cnt, i, dots = 0, r;

	/* exact-size span for the read-only helpers */
	nm = fz_dup(name, name_len);
	for (i = 0; i < name_len; i ++)
		dots += ('.' == name[i]);
	cnt = DomainNameZonesGetCount(nm, name_len);
	fz_deep();
	FZ_ASSERT(cnt == (name_len ? dots + 1 : 0), "DomainNameZonesGetCount differs from the number of dots + 1");
	pr = C13_PSENT;
	r = DomainNameZonesLeft(nm, name_len, (aux % 5), &pr);
	FZ_ASSERT(r <= name_len && pr == nm, "DomainNameZonesLeft: result outside the name");
	pr = C13_PSENT;
	r = DomainNameZonesRight(nm, name_len, (aux % 5), &pr);
	FZ_ASSERT(r <= name_len, "DomainNameZonesRight: length outside the name");
	if (0 != name_len)
		FZ_ASSERT(FZ_INSIDE(pr, r, nm, name_len) && pr + r == nm + name_len, "DomainNameZonesRight: result is not a suffix of the name");
	fz_free(nm, name_len);
	/* DomainNameZonesReverce: documented on C strings ("www.sample.org"); it copies name_len+1 octets,
	 * so src carries its terminator and dst has name_len+1 octets */
	if (0 == name_len)
		return;
	nm = fz_out(name_len + 1, 0);
	memcpy(nm, name, name_len);
	dst = fz_out(name_len + 1, C13_FILL);
	DomainNameZonesReverce(dst, nm, name_len);
	FZ_ASSERT(0 == dst[name_len], "DomainNameZonesReverce: result not terminated");
	fz_free(dst, name_len + 1);
	fz_free(nm, name_len + 1);
}

/* the resolver's protocol on one datagram */
static void
walk_msg(const uint8_t *m0, size_t n0, unsigned aux) {
	const uint8_t *m = m0;
	uint8_t *m2 = NULL, *out, *data, qname[DNS_MAX_NAME_LENGTH * 2];
	size_t n = n0, qd = C13_SENT, an = C13_SENT, ns = C13_SENT, ar = C13_SENT, cnt = C13_SENT, msz = C13_SENT;
	size_t off, i, qs, rqs = 0, cap, nl, rl, rrs, rrrs = 0, rdoff = 0, rdlen = 0, qname_len = 0, tm, left, fcnt;
	uint16_t t16, c16, dsz;
	uint32_t ttl;
	ref_info_t ri;
	int cls = 0, r, rc, w, anycls;
	C13_STEPS_DECL(st, n0);

	memset(&ri, 0, sizeof(ri));
	r = ref_info(m, n, &ri, &cls);
	if (0 != C13_CLASS(cls & CL_SEQ_END, P_SEQ_END) ||
	    0 != C13_CLASS(cls & CL_RR_TRUNC, P_RR_TRUNC))
		return;
	rc = dns_msg_info_get((dns_hdr_p)m, n, &qd, &an, &ns, &ar, &cnt, &msz);
	if (0 != cls) {
		FZ_ASSERT(0 != rc, "dns_msg_info_get accepted a message whose record runs past the end");
		return;
	}
	FZ_ASSERT((0 == rc) == (0 == r), "dns_msg_info_get: verdict differs from the reference walk");
	FZ_ASSERT((0 != dns_msg_validate((dns_hdr_p)m, n)) == (0 != rc), "dns_msg_validate disagrees with dns_msg_info_get");
	if (0 != rc) {
		fz_label("info_rejected");
		FZ_ASSERT(0 == dns_msg_size_get((dns_hdr_p)m, n), "dns_msg_size_get: size of a rejected message must be 0");
		return;
	}
	fz_deep();
	fz_label("info_ok");
	FZ_ASSERT(12 == qd && qd <= an && an <= ns && ns <= ar && ar <= msz && msz <= n,
	    "dns_msg_info_get: section offsets not monotone / outside the message");
	FZ_ASSERT(qd == ri.qd && an == ri.an && ns == ri.ns && ar == ri.ar && cnt == ri.cnt && msz == ri.size,
	    "dns_msg_info_get: offsets/counts differ from the reference walk");
	FZ_ASSERT(msz == dns_msg_size_get((dns_hdr_p)m, n), "dns_msg_size_get differs from dns_msg_info_get");
	if (0 != cnt)
		fz_label("has_rr");
	if (msz < n && 0 != (aux & 8)) {
		/* the same message received as a datagram of exactly msz octets: verdict must not change */
		m2 = fz_dup(m, msz);
		m = m2;
		n = msz;
		fz_label("trailing_garbage_cut");
		FZ_ASSERT(0 == dns_msg_info_get((dns_hdr_p)m, n, NULL, NULL, NULL, NULL, NULL, &tm) && tm == msz,
		    "dns_msg_info_get: verdict changes when trailing octets are removed");
	}

	/* questions */
	off = qd;
	for (i = 0; i < ri.qdc; i ++) {
		C13_STEP(st, "question walk");
		FZ_ASSERT(0 == ref_question(m, n, off, &rqs, &cls), "harness: reference question walk");
		cap = c13_cap(aux, 64);
		w = ref_name_walk(m, n, off, cap, &rl);
		if (0 != C13_CLASS(WK_CLASS == w, P_NAME_WALK)) {
			off += rqs;
			continue;
		}
		out = fz_out(cap, C13_FILL);
		nl = cap;
		qs = C13_SENT;
		t16 = c16 = 0;
		rc = dns_msg_question_get_data((dns_hdr_p)m, n, off, out, &nl, &t16, &c16, &qs);
		if (0 == cap) {
			FZ_ASSERT(EINVAL == rc, "question_get_data: zero name capacity");
		} else if (WK_CLASS == w) {
			FZ_ASSERT(0 != rc, "question_get_data accepted a name that is not contained in the message");
		} else {
			FZ_ASSERT(rc == w_errno[w], "question_get_data: return code differs from the reference name walk");
			if (0 == rc) {
				FZ_ASSERT(nl == rl && nl < cap && 0 == memcmp(out, ref_name, nl) && 0 == out[nl],
				    "question_get_data: name differs from the reference walk");
				if (0 == i && nl <= sizeof(qname)) {
					memcpy(qname, out, nl);
					qname_len = nl;
				}
			}
		}
		FZ_ASSERT(qs == rqs && off + qs <= n, "question_get_data: question size differs / outside the message");
		FZ_ASSERT(t16 == be16(m + off + qs - 4) && c16 == be16(m + off + qs - 2), "question_get_data: type/class not read from the question");
		fz_free(out, cap);
		off += qs;
	}
	FZ_ASSERT(off == an, "question walk does not end at the answer offset");

	/* records: the NXDOMAIN loop of the resolver (runs until the getter fails) + SOA decoder + CNAME expansion */
	off = an;
	for (i = 0;; i ++) {
		C13_STEP(st, "record walk");
		cls = 0;
		r = ref_rr(m, n, off, &rrrs, &rdoff, &rdlen, &cls);
		if (0 != C13_CLASS(cls & CL_SEQ_END, P_SEQ_END) ||
		    0 != C13_CLASS(cls & CL_RR_TRUNC, P_RR_TRUNC))
			break;
		data = C13_PSENT;
		rrs = C13_SENT;
		rc = dns_msg_rr_get_data((dns_hdr_p)m, n, off, NULL, 0, &t16, &c16, &ttl, &dsz, (void **)&data, &rrs);
		if (0 != cls) {
			FZ_ASSERT(0 != rc, "rr_get_data accepted a record that runs past the end");
			break;
		}
		FZ_ASSERT((0 == rc) == (0 == r), "rr_get_data: verdict differs from the reference walk");
		if (0 != rc) {
			FZ_ASSERT(i >= cnt, "rr_get_data rejects a record that dns_msg_info_get validated");
			break;
		}
		FZ_ASSERT(rrs == rrrs && 0 != rrs && off + rrs <= n, "rr_get_data: record size differs / outside the message");
		FZ_ASSERT(dsz == rdlen && data == m + rdoff && FZ_INSIDE(data, dsz, m, n) && data + dsz == m + off + rrs,
		    "rr_get_data: rdata pointer/length outside the record");
		FZ_ASSERT(t16 == be16(m + rdoff - 10) && c16 == be16(m + rdoff - 8), "rr_get_data: type/class not read from the record");
		/* SOA decoder: MName, RName */
		tm = chk_labels_size(data, dsz);
		if (0 != tm && tm < dsz) {
			fz_label("soa_mname");
			chk_labels_size(data + tm, dsz - tm);
		}
		/* CNAME expansion: rdata offset, datagram size */
		if (i < 24)
			chk_name_at(m, n, rdoff, aux + (unsigned)i);
		off += rrs;
	}

	/* dns_msg_rr_find the way the resolver iterates it */
	anycls = 0;
	off = an;
	for (i = 0; i < cnt; i ++) {
		if (0 != ref_rr(m, n, off, &rrrs, &rdoff, &rdlen, &cls))
			break;
		if (WK_CLASS == ref_name_walk(m, n, off, sizeof(qname), &rl))
			anycls = 1;
		off += rrrs;
	}
	if (0 == C13_CLASS(anycls, P_NAME_WALK)) {
		off = an;
		left = cnt;
		fcnt = 0;
		for (;;) {
			C13_STEP(st, "rr_find walk");
			data = C13_PSENT;
			rrs = C13_SENT;
			tm = off;
			i = left;
			rc = dns_msg_rr_find((dns_hdr_p)m, n, &off, &left, qname, qname_len, &t16, &c16, &ttl, &dsz, (void **)&data, &rrs);
			FZ_ASSERT(off >= tm && off <= n && left <= i, "rr_find: offset not monotone / outside the message");
			if (0 != rc) {
				FZ_ASSERT(0 == left, "rr_find: error with records left");
				break;
			}
			fcnt ++;
			FZ_ASSERT(i != left, "rr_find: found a record without consuming the count");
			FZ_ASSERT(0 != rrs && off + rrs <= n && FZ_INSIDE(data, dsz, m + off, rrs), "rr_find: record outside the message");
			off += rrs;
		}
		if (0 != fcnt)
			fz_label("rr_find_hit");
	}
	if (NULL != m2)
		fz_free(m2, n);
}

int
LLVMFuzzerTestOneInput(const uint8_t *data, size_t size) {
	uint8_t sel, *m, *out;
	size_t n, off, cap, nl, qs, rqs = 0, rl = 0, rrs, rrrs = 0, rdoff = 0, rdlen = 0;
	unsigned aux;
	uint16_t t16, c16, dsz;
	uint32_t ttl;
	void *dp;
	int cls = 0, r, rc, w;

	if (1 > size)
		return (0);
	fz_total();
	sel = data[0];
	aux = C13_AUX(sel);
	n = (size - 1);
	m = fz_dup(data + 1, n);

	switch (C13_ENTRY(sel)) {
	default:
	case 0:
	case 1:
	case 2:
	case 3:
		walk_msg(m, n, aux);
		break;
	case 4: /* raw label sequences */
		fz_label("e:labels");
		chk_labels_size(m, n);
		chk_labels_to_name(m, n, aux);
		break;
	case 5: /* name expansion at an arbitrary offset (the function validates the offset itself) */
	case 6:
		fz_label("e:name_at");
		switch (aux >> 1) {
		case 0: off = 12; break;
		case 1: off = n; break;
		case 2: off = (n ? n - 1 : 0); break;
		case 3: off = (n + 1); break;
		case 4: off = 11; break;
		case 5: off = (n / 2); break;
		default: off = (n > 12 ? 12 + (m[n - 1] % (n - 11)) : 0); break;
		}
		chk_name_at(m, n, off, aux);
		break;
	case 7: /* question getter at an arbitrary offset */
		fz_label("e:question_at");
		off = ((aux & 8) ? n : ((aux & 4) ? (n / 2) : 12));
		r = ref_question(m, n, off, &rqs, &cls);
		if (0 != C13_CLASS(cls & CL_SEQ_END, P_SEQ_END))
			break;
		cap = c13_cap(aux, 32);
		w = ((0 == r) ? ref_name_walk(m, n, off, cap, &rl) : WK_OK);
		if (0 != C13_CLASS(WK_CLASS == w, P_NAME_WALK))
			break;
		out = fz_out(cap, C13_FILL);
		nl = cap;
		qs = C13_SENT;
		rc = dns_msg_question_get_data((dns_hdr_p)m, n, off, out, &nl, &t16, &c16, &qs);
		fz_deep();
		if (0 != cls || 0 != r) {
			FZ_ASSERT(0 != rc, "question_get_data accepted a malformed question");
		} else if (WK_CLASS == w) {
			FZ_ASSERT(0 != rc, "question_get_data accepted a name that is not contained in the message");
		} else if (0 != cap) {
			FZ_ASSERT(rc == w_errno[w], "question_get_data: return code differs from the reference");
			FZ_ASSERT(qs == rqs && off + qs <= n, "question_get_data: size differs / outside the message");
		}
		fz_free(out, cap);
		break;
	case 8: /* record getter at an arbitrary offset, with a name buffer */
	case 9:
		fz_label("e:rr_at");
		off = ((aux & 8) ? n : ((aux & 4) ? (n / 2) : 12));
		r = ref_rr(m, n, off, &rrrs, &rdoff, &rdlen, &cls);
		if (0 != C13_CLASS(cls & CL_SEQ_END, P_SEQ_END) ||
		    0 != C13_CLASS(cls & CL_RR_TRUNC, P_RR_TRUNC))
			break;
		cap = c13_cap(aux, 32);
		w = ((0 == r) ? ref_name_walk(m, n, off, cap, &rl) : WK_OK);
		if (0 != C13_CLASS(WK_CLASS == w, P_NAME_WALK))
			break;
		out = fz_out(cap, C13_FILL);
		nl = cap;
		rrs = C13_SENT;
		dp = C13_PSENT;
		rc = dns_msg_rr_get_data((dns_hdr_p)m, n, off, out, &nl, &t16, &c16, &ttl, &dsz, &dp, &rrs);
		fz_deep();
		if (0 != cls || 0 != r) {
			FZ_ASSERT(0 != rc, "rr_get_data accepted a malformed record");
		} else if (WK_CLASS == w) {
			FZ_ASSERT(0 != rc, "rr_get_data accepted a name that is not contained in the message");
		} else if (0 != cap) {
			FZ_ASSERT(rc == w_errno[w], "rr_get_data: return code differs from the reference");
			FZ_ASSERT(rrs == rrrs && off + rrs <= n && FZ_INSIDE(dp, dsz, m, n), "rr_get_data: record outside the message");
		}
		fz_free(out, cap);
		break;
	case 10: /* zone helpers on hostile name text */
		fz_label("e:zones");
		chk_zones(m, (n > 300 ? 300 : n), aux);
		break;
	}
	fz_free(m, n);
	return (0);
}
