/* C13_mpeg2ts.c -- libFuzzer target: MPEG-2 TS packet validators / scanners of include/proto/mpeg2ts.h.
 *
 * data[0] = selector (low nibble entry, high nibble: packet size index), data[1..] = the received octets.
 * Entries: 0 = mpeg2_ts_pkt_is_valid on one packet held in an allocation of exactly pkt_size octets;
 * 1 = mpeg2_ts_pkt_size_detect on the whole buffer; 2 = the natural receive loop: mpeg2_ts_pkt_get_next(off) ->
 * mpeg2_ts_pkt_is_valid(pkt) -> off = pkt + pkt_size (off never exceeds the buffer, as in that loop).
 * Oracle: ASan/UBSan + ISO 13818-1 reference of the header fields: verdicts agree, returned packets lie inside
 * the buffer together with their pkt_size octets, offsets strictly increase.
 */
#include "C13_common.h"
#include "proto/mpeg2ts.h"

#define P_TS_PSI	"mpeg2ts_psi_hdr_read_past_packet" /* mpeg2_ts_pkt_is_valid reads the PSI table header behind an adaptation field that fills the packet */

static const size_t szs[] = { 188, 192, 204, 208, 187, 209 };

/* reference verdict for one packet; avail = octets owned from p; *cls: the library reads p[avail] or beyond */
static int
ref_valid(const uint8_t *p, size_t psize, size_t avail, int *cls, int *straddle) {
	unsigned pid;
	size_t bp = 4, al;
	int cp, pr, ss;
	uint8_t tid;

	if (psize < 188 || psize > 208 || 0x47 != p[0])
		return (0);
	pid = ((((unsigned)p[1] & 0x1f) << 8) | p[2]);
	if (0x1fff == pid)
		return (1);
	cp = ((p[3] >> 4) & 1);
	if (0 != (p[3] & 0x20)) {
		al = p[4];
		if ((al > psize - 6 && cp) || (al > psize - 5 && !cp))
			return (0);
		bp += (1 + al);
	}
	switch (pid) {
	case 0x0000: case 0x0001: case 0x0002: case 0x0011: case 0x0012:
		break;
	default:
		return (1);
	}
	if (bp + 2 > psize) /* PSI table header not inside this packet: the verdict would depend on foreign octets */
		(*straddle) = 1;
	if (bp >= avail) {
		(*cls) = 1;
		return (0);
	}
	tid = p[bp];
	switch (pid) {
	case 0x0001: return (0x01 == tid);
	case 0x0002: return (0x03 == tid);
	case 0x0000: if (0x00 != tid) return (0); break;
	case 0x0011: if (0x42 != tid && 0x46 != tid) return (0); break;
	case 0x0012: if (tid < 0x4e || tid > 0x6f) return (0); break;
	}
	if (bp + 1 >= avail) {
		(*cls) = 1;
		return (0);
	}
	ss = (p[bp + 1] >> 7);
	pr = ((p[bp + 1] >> 6) & 1);
	if (0x0000 == pid)
		return (1 == ss && 0 == pr);
	return (1 == pr);
}

int
LLVMFuzzerTestOneInput(const uint8_t *data, size_t size) {
	uint8_t sel, *m, *one, *pkt;
	size_t n, psize, off, i, det, ro;
	int rc, r, cls = 0, anycls, str = 0;
	C13_STEPS_DECL(st, size);

	if (1 > size)
		return (0);
	fz_total();
	sel = data[0];
	n = (size - 1);
	m = fz_dup(data + 1, n);
	psize = szs[C13_AUX(sel) % nitems(szs)];

	switch (C13_ENTRY(sel) & 3) {
	case 0:
	case 3: /* one packet, exactly pkt_size octets */
		fz_label("e:one");
		if (n < psize)
			break;
		one = fz_dup(m, psize);
		r = ref_valid(one, psize, psize, &cls, &str);
		if (0 == C13_CLASS(cls, P_TS_PSI)) {
			rc = mpeg2_ts_pkt_is_valid((const mpeg2_ts_hdr_t *)one, psize);
			fz_deep();
			if (0 == cls && 0 == str) {
				FZ_ASSERT((0 != rc) == (0 != r), "mpeg2_ts_pkt_is_valid: verdict differs from the reference");
				fz_label(rc ? "ts_valid" : "ts_invalid");
				if (0 != rc && 0 != (one[3] & 0x20))
					fz_label("ts_valid_af");
			}
		}
		fz_free(one, psize);
		break;
	case 1: /* packet size detection over the buffer */
		fz_label("e:detect");
		/* every sync octet with 208 octets behind it is probed with each size */
		anycls = 0;
		for (off = 0; off + 208 <= n && 0 == anycls; off ++) {
			if (0x47 != m[off])
				continue;
			for (i = 0; i < 4; i ++)
				ref_valid(m + off, szs[i], n - off, &anycls, &str);
		}
		if (0 != C13_CLASS(anycls, P_TS_PSI))
			break;
		det = C13_SENT;
		rc = mpeg2_ts_pkt_size_detect(m, n, &det);
		fz_deep();
		if (0 == rc) {
			fz_label("detected");
			FZ_ASSERT(188 == det || 192 == det || 204 == det || 208 == det, "mpeg2_ts_pkt_size_detect: impossible packet size");
			FZ_ASSERT(n >= 208, "mpeg2_ts_pkt_size_detect: size reported for a buffer shorter than one probe");
		} else {
			FZ_ASSERT(EINVAL == rc && C13_SENT == det, "mpeg2_ts_pkt_size_detect: output written on error");
		}
		break;
	case 2: /* receive loop */
		fz_label("e:loop");
		if (psize < 188 || psize > 208)
			psize = 188;
		off = 0;
		for (;;) {
			C13_STEP(st, "mpeg2_ts_pkt_get_next loop");
			pkt = C13_PSENT;
			rc = mpeg2_ts_pkt_get_next(m, n, off, psize, &pkt);
			fz_deep();
			for (ro = off; ro + psize <= n && 0x47 != m[ro]; ro ++)
				;
			FZ_ASSERT((0 != rc) == (ro + psize <= n), "mpeg2_ts_pkt_get_next: verdict differs from the reference scan");
			if (0 == rc)
				break;
			fz_label("ts_found");
			FZ_ASSERT(pkt == m + ro && FZ_INSIDE(pkt, psize, m, n) && (size_t)(pkt - m) >= off, "mpeg2_ts_pkt_get_next: packet outside the buffer / before the offset");
			cls = 0;
			str = 0;
			r = ref_valid(pkt, psize, n - ro, &cls, &str);
			if (0 == C13_CLASS(cls, P_TS_PSI)) {
				rc = mpeg2_ts_pkt_is_valid((const mpeg2_ts_hdr_t *)pkt, psize);
				if (0 == cls && 0 == str)
					FZ_ASSERT((0 != rc) == (0 != r), "mpeg2_ts_pkt_is_valid: verdict differs from the reference");
				if (0 != str)
					fz_label("ts_psi_hdr_straddles_packets");
			}
			off = (ro + psize); /* <= n */
		}
		break;
	}
	fz_free(m, n);
	return (0);
}
