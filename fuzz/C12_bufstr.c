/* C12 / bufstr: buf2args, buf_get_next_line (iterated to exhaustion), calc_[non_]sptab_count[_r],
 * fmt_as_uptime, memxorbuf, data_xor8, yn_set_flag32 (src/utils/buf_str.c).
 * input: [op][a][b][c] payload...
 */
#include <sys/param.h>
#include <sys/types.h>
#include <inttypes.h>
#include <string.h>
#include <errno.h>
#include <time.h>
#include "utils/buf_str.h"
#include "C12_common.h"

#define MAXA 16

/* independent model of the documented splitting rule: arguments separated by SP/TAB; an argument
 * that starts with '"' runs to the next '"' (or to the end). Returns the number of arguments and
 * whether argument k (< max_args) runs to the very end of the buffer (so that the terminating
 * NUL the function stores after every argument would land at buf[buf_size]). */
static size_t
model_args(const uint8_t *b, size_t n, size_t max_args, size_t *off, size_t *len, int *at_end) {
	size_t pos = 0, cnt = 0, e;

	(*at_end) = 0;
	while (cnt < max_args && pos < n) {
		while (pos < n && (' ' == b[pos] || '\t' == b[pos]))
			pos ++;
		if (pos >= n)
			break;
		if ('"' == b[pos]) {
			pos ++;
			for (e = pos; e < n && '"' != b[e]; e ++)
				;
		} else {
			for (e = pos; e < n && ' ' != b[e] && '\t' != b[e]; e ++)
				;
		}
		off[cnt] = pos;
		len[cnt] = (e - pos);
		cnt ++;
		if (e >= n)
			(*at_end) = 1;
		pos = e + 1;
	}
	return (cnt);
}

static void
do_buf2args(const uint8_t *data, size_t n, uint8_t a) {
	size_t max_args = (a % (MAXA + 1)), moff[MAXA], mlen[MAXA], cnt, i, ret;
	int at_end;
	uint8_t *buf;
	char **args;
	size_t *sizes;

	cnt = model_args(data, n, max_args, moff, mlen, &at_end);
	if (at_end) {
		fz_label("args:last_arg_at_end");
		if (fz_known("buf2args_last_arg_at_end")) {
			fz_label("excl:buf2args_last_arg_at_end");
			return;
		}
	}
	buf = fz_dup(data, n);
	args = (char **)fz_out(max_args * sizeof(char *), 0);
	sizes = (size_t *)fz_out(max_args * sizeof(size_t), 0);
	ret = buf2args((char *)buf, n, max_args, args, sizes);
	FZ_ASSERT(ret <= max_args, "buf2args: returned more than max_args");
	FZ_ASSERT(ret == cnt, "buf2args: argument count differs from the documented splitting rule");
	for (i = 0; i < ret; i ++) {
		FZ_ASSERT(FZ_INSIDE(args[i], sizes[i], buf, n), "buf2args: argument outside the buffer");
		FZ_ASSERT((size_t)((uint8_t *)args[i] - buf) == moff[i] && sizes[i] == mlen[i],
		    "buf2args: argument span differs from the documented splitting rule");
		FZ_ASSERT(0 == memcmp(args[i], data + moff[i], mlen[i]), "buf2args: argument bytes changed");
		if (moff[i] + mlen[i] < n)
			FZ_ASSERT(0 == buf[moff[i] + mlen[i]], "buf2args: argument not terminated");
	}
	if (1 < ret)
		fz_deep();
	fz_free(sizes, max_args * sizeof(size_t));
	fz_free(args, max_args * sizeof(char *));
	fz_free(buf, n);
}

static void
do_lines(const uint8_t *data, size_t n) {
	uint8_t *buf = fz_dup(data, n);
	const uint8_t *line = NULL, *nl = NULL, *prev_end = buf;
	size_t lsz = 0, nsz = 0, iter = 0, i;
	int rc;

	for (;;) {
		rc = buf_get_next_line(buf, n, line, lsz, &nl, &nsz);
		if (0 != rc)
			break;
		iter ++;
		FZ_ASSERT(iter <= n + 2, "buf_get_next_line: iteration does not terminate");
		FZ_ASSERT(FZ_INSIDE(nl, nsz, buf, n), "buf_get_next_line: line outside the buffer");
		FZ_ASSERT(nl >= prev_end, "buf_get_next_line: went backwards");
		for (i = 0; i < nsz; i ++)
			FZ_ASSERT(0x0a != nl[i], "buf_get_next_line: LF inside a line");
		if (NULL != line)
			FZ_ASSERT(nl > line + lsz, "buf_get_next_line: did not consume a line break (no progress)");
		prev_end = nl + nsz;
		line = nl;
		lsz = nsz;
	}
	FZ_ASSERT((0 == n) ? (EINVAL == rc) : (-1 == rc), "buf_get_next_line: unexpected final rc");
	if (2 < iter)
		fz_deep();
	fz_label(iter > 2 ? "lines:>2" : "lines:<=2");
	fz_free(buf, n);
}

static void
do_calc(const uint8_t *data, size_t n, uint8_t a) {
	uint8_t *buf;
	size_t r;

	if (0 == n && (a & 1)) {
		/* the _r variants compute buf + (buf_size - 1) first */
		fz_label("calc:_r on empty");
		if (fz_known("sptab_count_r_empty")) {
			fz_label("excl:sptab_count_r_empty");
			return;
		}
	}
	buf = fz_dup(data, n);
	switch (a % 4) {
	case 0: r = calc_sptab_count((const char *)buf, n); break;
	case 1: r = calc_sptab_count_r((const char *)buf, n); break;
	case 2: r = calc_non_sptab_count((const char *)buf, n); break;
	default: r = calc_non_sptab_count_r((const char *)buf, n); break;
	}
	FZ_ASSERT(r <= n, "calc_*_count: result larger than the buffer");
	if (0 != r && r != n)
		fz_deep();
	fz_free(buf, n);
}

static void
do_uptime(c12_in_t *in, uint8_t csel, uint16_t rnd) {
	time_t ut = (time_t)c12_u64(in);
	char ref[96];
	uint64_t u = (uint64_t)ut;
	size_t need, cap, r;
	char *buf;

	need = (size_t)snprintf(ref, sizeof(ref), "%" PRIu64 "+%02" PRIu64 ":%02" PRIu64 ":%02" PRIu64,
	    u / 86400, (u % 86400) / 3600, (u % 3600) / 60, u % 60) + 1;
	cap = c12_cap(csel, need, rnd);
	c12_cap_label(cap, need);
	if (0 == cap) {
		fz_label("uptime:cap0");
		if (fz_known("fmt_as_uptime_cap0")) {
			fz_label("excl:fmt_as_uptime_cap0");
			return;
		}
	}
	buf = (char *)fz_out(cap, C12_FILL);
	r = fmt_as_uptime(&ut, buf, cap);
	FZ_ASSERT(r < cap || (0 == cap && 0 == r), "fmt_as_uptime: returned length does not fit the capacity");
	if (0 != cap) {
		FZ_ASSERT(0 == buf[r], "fmt_as_uptime: not terminated at the returned length");
		FZ_ASSERT(0 == memcmp(buf, ref, r), "fmt_as_uptime: text differs from reference");
		FZ_ASSERT((cap >= need) ? (r == need - 1) : (r == cap - 1), "fmt_as_uptime: length");
		FZ_ASSERT(c12_untouched((uint8_t *)buf + r + 1, cap - r - 1, C12_FILL), "fmt_as_uptime: wrote past the terminator");
	}
	fz_deep();
	fz_free(buf, cap);
}

static void
do_xor(const uint8_t *data, size_t n, uint8_t a, uint8_t b) {
	size_t dn = (n ? (a % (n + 1)) : 0), sn = n - dn, i;
	uint8_t *dst = fz_dup(data, dn), *src = fz_dup(data + dn, sn), x, rx = 0;

	memxorbuf(dst, dn, src, sn);
	for (i = 0; i < dn; i ++)
		FZ_ASSERT(dst[i] == (uint8_t)(data[i] ^ (sn ? data[dn + (i % sn)] : 0)), "memxorbuf: value");
	x = data_xor8(src, sn);
	for (i = 0; i < sn; i ++)
		rx ^= data[dn + i];
	FZ_ASSERT(x == rx, "data_xor8: value");
	if (dn > sn && 0 != sn)
		fz_deep();
	(void)b;
	fz_free(src, sn);
	fz_free(dst, dn);
}

static void
do_yn(const uint8_t *data, size_t n, uint8_t a) {
	uint8_t *buf = fz_dup(data, n);
	uint32_t flags = 0x0f0f0f0f, bit = (1u << (a % 32)), before = flags;
	int rc = yn_set_flag32(buf, n, bit, &flags);

	FZ_ASSERT(0 == rc || EINVAL == rc, "yn_set_flag32: rc");
	FZ_ASSERT(0 == ((flags ^ before) & ~bit), "yn_set_flag32: touched other bits");
	if (EINVAL == rc)
		FZ_ASSERT(flags == before, "yn_set_flag32: changed flags on EINVAL");
	if (0 != n)
		fz_deep();
	fz_free(buf, n);
}

int
LLVMFuzzerTestOneInput(const uint8_t *data, size_t size) {
	c12_in_t in = { data, size };
	uint8_t op, a, b, c;

	fz_total();
	op = c12_u8(&in);
	a = c12_u8(&in);
	b = c12_u8(&in);
	c = c12_u8(&in);
	switch (op % 8) {
	case 0:
	case 1: fz_label("op:buf2args"); do_buf2args(in.p, in.n, a); break;
	case 2:
	case 3: fz_label("op:lines"); do_lines(in.p, in.n); break;
	case 4: fz_label("op:calc"); do_calc(in.p, in.n, a); break;
	case 5: fz_label("op:uptime"); do_uptime(&in, a, (uint16_t)(b | (c << 8))); break;
	case 6: fz_label("op:xor"); do_xor(in.p, in.n, a, b); break;
	case 7: fz_label("op:yn"); do_yn(in.p, in.n, a); break;
	}
	return (0);
}
