/* C12 / utf8: utf8_decode (utils/utf8.h) -- one output byte per accepted code point.
 * input: [cap class][rnd lo][rnd hi] payload...
 * Oracle: bounds (ASan) + never more output bytes than accepted code points (counted by an
 * independent RFC 3629 decoder) + untouched tail + return value <= capacity.
 * H-UT-8 (semantic, C14 territory): the function always returns 0 because ret_size is never
 * updated; recorded as the label "ret=0 although bytes were written", not asserted here.
 */
#include <sys/param.h>
#include <sys/types.h>
#include <inttypes.h>
#include <string.h>
#include <errno.h>
#include "utils/utf8.h"
#include "C12_common.h"

/* RFC 3629 reference: number of well-formed sequences before the first malformed one */
static size_t
ref_count(const uint8_t *s, size_t n, size_t limit) {
	size_t i = 0, cnt = 0, k, need;
	uint32_t cp, min;

	while (i < n && cnt < limit) {
		uint8_t b = s[i];
		if (b < 0x80) { need = 0; cp = b; min = 0; }
		else if (b >= 0xc2 && b <= 0xdf) { need = 1; cp = b & 0x1f; min = 0x80; }
		else if (b >= 0xe0 && b <= 0xef) { need = 2; cp = b & 0x0f; min = 0x800; }
		else if (b >= 0xf0 && b <= 0xf4) { need = 3; cp = b & 0x07; min = 0x10000; }
		else break;
		if (i + need >= n && 0 != need)
			break;
		for (k = 1; k <= need; k ++) {
			if (0x80 != (s[i + k] & 0xc0))
				return (cnt);
			cp = (cp << 6) | (s[i + k] & 0x3f);
		}
		if (cp < min || cp > 0x10ffff || (cp >= 0xd800 && cp <= 0xdfff))
			break;
		i += need + 1;
		cnt ++;
	}
	return (cnt);
}

int
LLVMFuzzerTestOneInput(const uint8_t *data, size_t size) {
	c12_in_t in = { data, size };
	uint8_t csel, *src, *dst;
	uint16_t rnd;
	size_t n, cap, r, written, cnt;

	fz_total();
	csel = c12_u8(&in);
	rnd = c12_u16(&in);
	n = in.n;
	cap = c12_cap(csel, n, rnd);
	c12_cap_label(cap, n);
	src = fz_dup(in.p, n);
	dst = fz_out(cap, C12_FILL);
	r = utf8_decode(src, n, dst, cap);
	FZ_ASSERT(r <= cap, "utf8_decode: returned size > capacity");
	for (written = cap; 0 < written && C12_FILL == dst[written - 1]; written --)
		;
	cnt = ref_count(in.p, n, cap);
	/* code point 0xEE (the fill pattern) may hide trailing writes: written is a lower bound */
	FZ_ASSERT(written <= cnt, "utf8_decode: more output bytes than well-formed sequences / capacity");
	if (0 != written && 0 == r)
		fz_label("ret=0 although bytes were written");
	if (1 < cnt)
		fz_deep();
	fz_free(dst, cap);
	fz_free(src, n);
	return (0);
}
