/* C12 / hex: cvt_hex2bin, cvt_bin2hex (src/utils/buf_str.c).
 * input: [op: bit0 = direction, bit1 = auto_out_size][cap class][rnd lo][rnd hi] payload...
 * Contract read from the code: hex2bin needs bin_size >= hex_size/2 (EOVERFLOW otherwise, no
 * size report) and skips non-hex bytes; bin2hex needs hex_size >= 2*bin_size, reports 2*bin_size
 * on EOVERFLOW, writes a NUL only when there is room for it.
 */
#include <sys/param.h>
#include <sys/types.h>
#include <inttypes.h>
#include <string.h>
#include <errno.h>
#include "utils/buf_str.h"
#include "C12_common.h"

static int
hexval(uint8_t c) {
	if ('0' <= c && '9' >= c) return (c - '0');
	if ('a' <= c && 'f' >= c) return (c - 'a' + 10);
	if ('A' <= c && 'F' >= c) return (c - 'A' + 10);
	return (-1);
}

static void
do_hex2bin(const uint8_t *data, size_t n, int autosz, uint8_t csel, uint16_t rnd) {
	uint8_t *src = fz_dup(data, n), *dst, *ref;
	size_t need = n / 2, cap, ret = C12_SENT, i, digits = 0, pairs, o;
	int rc, v, hi = -1;

	for (i = 0; i < n; i ++)
		if (0 <= hexval(data[i]))
			digits ++;
	pairs = digits / 2;
	cap = c12_cap(csel, need, rnd);
	c12_cap_label(cap, need);
	dst = fz_out(cap, C12_FILL);
	rc = cvt_hex2bin(src, n, autosz, dst, cap, &ret);
	if (0 == n || 0 == cap) {
		FZ_ASSERT(EINVAL == rc, "hex2bin: empty input / zero capacity must be EINVAL");
		FZ_ASSERT(c12_untouched(dst, cap, C12_FILL), "hex2bin: wrote on EINVAL");
	} else if (cap < need) {
		FZ_ASSERT(EOVERFLOW == rc, "hex2bin: bin_size < hex_size/2 must be EOVERFLOW");
		FZ_ASSERT(c12_untouched(dst, cap, C12_FILL), "hex2bin: wrote into a refused buffer");
		fz_label("h2b:EOVERFLOW");
	} else {
		FZ_ASSERT(0 == rc, "hex2bin: hex_size/2 bytes must be sufficient");
		FZ_ASSERT(ret != C12_SENT && ret <= cap, "hex2bin: size_ret > capacity");
		FZ_ASSERT(ret == (autosz ? cap : pairs), "hex2bin: size_ret is not the number of digit pairs");
		ref = (uint8_t *)calloc(1, cap + 1);
		for (i = 0, o = 0; i < n; i ++) {
			if (0 > (v = hexval(data[i])))
				continue;
			if (0 > hi) {
				hi = v;
			} else {
				ref[o ++] = (uint8_t)((hi << 4) | v);
				hi = -1;
			}
		}
		FZ_ASSERT(0 == memcmp(ref, dst, pairs), "hex2bin: bytes differ from reference");
		if (autosz)
			FZ_ASSERT(0 == memcmp(ref + pairs, dst + pairs, cap - pairs), "hex2bin(auto): tail not zeroed");
		else
			FZ_ASSERT(c12_untouched(dst + pairs, cap - pairs, C12_FILL), "hex2bin: wrote past size_ret");
		free(ref);
		if (0 != pairs)
			fz_deep();
		fz_label("h2b:ok");
	}
	fz_free(dst, cap);
	fz_free(src, n);
}

static void
do_bin2hex(const uint8_t *data, size_t n, int autosz, uint8_t csel, uint16_t rnd) {
	static const char *tbl = "0123456789abcdef";
	uint8_t *src = fz_dup(data, n), *dst;
	size_t need = 2 * n, cap, ret = C12_SENT, i, exp_len;
	int rc;

	if (0 == n)
		need = 2;
	cap = c12_cap(csel, need, rnd);
	c12_cap_label(cap, need);
	dst = fz_out(cap, C12_FILL);
	rc = cvt_bin2hex(src, n, autosz, dst, cap, &ret);
	if (2 > cap) {
		FZ_ASSERT(EINVAL == rc, "bin2hex: hex_size < 2 must be EINVAL");
		FZ_ASSERT(c12_untouched(dst, cap, C12_FILL), "bin2hex: wrote on EINVAL");
	} else if (cap < need) {
		FZ_ASSERT(EOVERFLOW == rc && ret == need, "bin2hex: small buffer must be refused with the needed size");
		FZ_ASSERT(c12_untouched(dst, cap, C12_FILL), "bin2hex: wrote into a refused buffer");
		fz_label("b2h:EOVERFLOW");
		/* the self-reported size must be sufficient */
		fz_free(dst, cap);
		cap = ret;
		dst = fz_out(cap, C12_FILL);
		ret = C12_SENT;
		rc = cvt_bin2hex(src, n, autosz, dst, cap, &ret);
		FZ_ASSERT(0 == rc && ret == cap, "bin2hex: the self-reported size must be sufficient");
	} else {
		FZ_ASSERT(0 == rc, "bin2hex: 2*bin_size must be sufficient");
		exp_len = (autosz ? need : (cap & ~((size_t)1)));
		FZ_ASSERT(ret == exp_len && ret <= cap, "bin2hex: size_ret wrong or > capacity");
		for (i = 0; i < n; i ++)
			FZ_ASSERT(dst[2 * i] == (uint8_t)tbl[data[i] >> 4] && dst[2 * i + 1] == (uint8_t)tbl[data[i] & 15],
			    "bin2hex: text differs from reference");
		for (i = 2 * n; i < ret; i ++)
			FZ_ASSERT('0' == dst[i], "bin2hex: padding is not '0'");
		if (ret < cap) {
			FZ_ASSERT(0 == dst[ret], "bin2hex: missing terminator although there is room");
			FZ_ASSERT(c12_untouched(dst + ret + 1, cap - ret - 1, C12_FILL), "bin2hex: wrote past the terminator");
		}
		if (0 != n)
			fz_deep();
		fz_label("b2h:ok");
	}
	fz_free(dst, cap);
	fz_free(src, n);
}

int
LLVMFuzzerTestOneInput(const uint8_t *data, size_t size) {
	c12_in_t in = { data, size };
	uint8_t op, csel;
	uint16_t rnd;

	fz_total();
	op = c12_u8(&in);
	csel = c12_u8(&in);
	rnd = c12_u16(&in);
	if (op & 1)
		do_bin2hex(in.p, in.n, (op >> 1) & 1, csel, rnd);
	else
		do_hex2bin(in.p, in.n, (op >> 1) & 1, csel, rnd);
	return (0);
}
