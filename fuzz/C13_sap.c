/* C13_sap.c -- libFuzzer target: SAP header validator / accessors of include/proto/sap.h, followed by the SDP
 * processing src/proto/sap_rcvr.c applies to the payload.
 *
 * data[0] = selector, data[1..] = the datagram (exact-size allocation for the SAP functions).
 * Calling protocol = sap_receiver_recv_cb(): sap_packet_is_valid(buf, received) first; only then
 * sap_packet_get_payload(buf, received) and the other accessors; the payload goes to sdp_msg_sec_chk /
 * sdp_msg_type_get / sdp_msg_feilds_get (the receiver NUL-terminates the datagram first, so the SDP stage works on
 * a copy with that terminator).
 * Oracle: ASan/UBSan + RFC 2974 reference of the header arithmetic: every accessor result inside the datagram.
 */
#include "C13_common.h"
#include <sys/socket.h>
#include "proto/sap.h"
#include "proto/sdp.h"

int
LLVMFuzzerTestOneInput(const uint8_t *data, size_t size) {
	uint8_t *m, *pl, *p, *sdp, *v, *f[8];
	size_t n, alen = 0, hdr, plen, vs, fs[8], cnt, i;
	int ok, exp;
	static const uint8_t order[] = { 'm', 'o', 's', 'c' };

	if (1 > size)
		return (0);
	fz_total();
	n = (size - 1);
	m = fz_dup(data + 1, n);

	/* reference (RFC 2974 section 3; the library counts auth_len in octets) */
	exp = 0;
	hdr = 0;
	if (n >= 4) {
		alen = ((0 == (m[0] & 0x10)) ? 4 : 16);
		hdr = (4 + alen + m[1]);
		exp = (1 == (m[0] >> 5) && (0 != m[2] || 0 != m[3]) && n >= hdr + SAP_MIN_PAYLOAD);
	}
	ok = sap_packet_is_valid(m, n);
	FZ_ASSERT((0 != ok) == (0 != exp), "sap_packet_is_valid: verdict differs from the reference");
	if (0 == ok) {
		fz_label("sap_rejected");
		goto done;
	}
	fz_deep();
	fz_label("sap_ok");
	p = sap_packet_get_orig_src(m);
	FZ_ASSERT(p == m + 4 && FZ_INSIDE(p, alen, m, n), "sap_packet_get_orig_src outside the datagram");
	FZ_ASSERT(sap_packet_get_orig_src_type(m) == ((4 == alen) ? AF_INET : AF_INET6), "sap_packet_get_orig_src_type");
	p = sap_packet_get_auth_data(m);
	FZ_ASSERT(p == m + 4 + alen && FZ_INSIDE(p, m[1], m, n), "sap_packet_get_auth_data outside the datagram");
	pl = sap_packet_get_payload(m, n);
	FZ_ASSERT(FZ_INSIDE(pl, 0, m, n) && pl >= m + hdr, "sap_packet_get_payload outside the datagram");
	if (pl != m + hdr) {
		fz_label("payload_type_skipped");
		FZ_ASSERT(0 == pl[-1] && NULL == memchr(m + hdr, 0, (size_t)(pl - 1 - (m + hdr))), "sap_packet_get_payload: not after the first NUL");
	} else {
		FZ_ASSERT(NULL == memchr(m + hdr, 0, n - hdr), "sap_packet_get_payload: payload type not skipped");
	}
	plen = (n - (size_t)(pl - m));
	if (0 != (m[0] & 0x03)) { /* encrypted / compressed: the receiver stops here */
		fz_label("sap_enc_or_comp");
		goto done;
	}
	/* SDP stage on the receiver's NUL-terminated view */
	sdp = fz_out(plen + 1, 0);
	memcpy(sdp, pl, plen);
	if (0 == sdp_msg_sec_chk(sdp, plen)) {
		fz_label("sdp_ok");
		for (i = 0; i < 4; i ++) {
			v = C13_PSENT;
			vs = C13_SENT;
			FZ_ASSERT(0 == sdp_msg_type_get(sdp, plen, order[i], NULL, &v, &vs), "sdp_msg_type_get: type counted by sec_chk not found");
			FZ_ASSERT(FZ_INSIDE(v, vs, sdp, plen), "sdp_msg_type_get: value outside the payload");
			if (0 == (i & 1) || 3 == i) {
				cnt = sdp_msg_feilds_get(v, vs, 8, f, fs);
				FZ_ASSERT(cnt <= 8, "sdp_msg_feilds_get: too many fields");
				while (0 != cnt) {
					cnt --;
					FZ_ASSERT(FZ_INSIDE(f[cnt], fs[cnt], v, vs), "sdp_msg_feilds_get: field outside the value");
				}
			}
		}
	} else {
		fz_label("sdp_rejected");
	}
	fz_free(sdp, plen + 1);
done:
	fz_free(m, n);
	return (0);
}
