/* C12 / xml: xml_encode, xml_decode, xml_get_val_arr, xml_get_val_ns_arr and the *_args wrappers
 * (src/utils/xml.c).
 * input: [op][a][b][c] then 1..3 tag names ([len%6] bytes each) then the document.
 * Oracle: bounds (ASan; document, tag names, tag arrays, output arrays all exact-size blocks) +
 * on rc 0 every returned span (value, attributes, name spaces, next_pos) lies inside the document +
 * iteration with next_pos makes progress and ends within len+2 calls + xml_encode/xml_decode sizes
 * <= capacity.
 * Tag arrays: the *_arr entry points read tag_arr[tag_arr_count] when a sub element opens inside the
 * target element; the in-tree wrappers always leave a NULL / 0 entry there, so the target passes
 * count+1 entries with that terminator (domain decision, see notes/C12.md).
 */
#include <sys/param.h>
#include <sys/types.h>
#include <inttypes.h>
#include <string.h>
#include <errno.h>
#include "utils/xml.h"
#include "C12_common.h"

#define MAXT 3

typedef struct tagset_s {
	size_t count, lead, trail;
	uint8_t *name[MAXT];		/* exact-size blocks, not NUL terminated */
	char *cname[MAXT];		/* NUL terminated copies for the *_args wrappers */
	size_t len[MAXT];
	const uint8_t **arr_blk;	/* lead + count + trail entries */
	size_t *cnt_blk;
	const uint8_t **arr;		/* = arr_blk + lead */
	size_t *cnt;
} tagset_t;

static int g_k_lt, g_k_m1, g_k_past, g_k_npend;	/* known-finding predicates (cached) */

static void
tags_build(tagset_t *ts, c12_in_t *in, uint8_t a, size_t doc_len_hint) {
	size_t i, j, tot;
	const uint8_t *p;

	memset(ts, 0, sizeof(*ts));
	ts->count = 1 + (size_t)(a % MAXT);
	for (i = 0; i < ts->count; i ++) {
		p = c12_take(in, (size_t)(c12_u8(in) % 6), &ts->len[i]);
		/* the *_args wrappers take C strings: a NUL inside a name becomes 'x' (in both copies, so that
		 * the array entry points and the wrappers look for the same names) */
		ts->cname[i] = (char *)malloc(ts->len[i] + 1);
		for (j = 0; j < ts->len[i]; j ++)
			ts->cname[i][j] = (char)(p[j] ? p[j] : 'x');
		ts->cname[i][ts->len[i]] = 0;
		ts->name[i] = fz_dup((const uint8_t *)ts->cname[i], ts->len[i]);
	}
	/* exact: [count names][NULL,0 terminator] */
	(void)doc_len_hint;
	ts->lead = 0;
	ts->trail = 1;
	tot = ts->lead + ts->count + ts->trail;
	ts->arr_blk = (const uint8_t **)fz_out(tot * sizeof(uint8_t *), 0);
	ts->cnt_blk = (size_t *)fz_out(tot * sizeof(size_t), 0);
	ts->arr = ts->arr_blk + ts->lead;
	ts->cnt = ts->cnt_blk + ts->lead;
	for (i = 0; i < ts->count; i ++) {
		ts->arr[i] = ts->name[i];
		ts->cnt[i] = ts->len[i];
	}
}
static void
tags_free(tagset_t *ts) {
	size_t i, tot = ts->lead + ts->count + ts->trail;

	for (i = 0; i < ts->count; i ++) {
		fz_free(ts->name[i], ts->len[i]);
		free(ts->cname[i]);
	}
	fz_free(ts->arr_blk, tot * sizeof(uint8_t *));
	fz_free(ts->cnt_blk, tot * sizeof(size_t));
}

static void
chk_span(const uint8_t *p, size_t sz, const uint8_t *doc, size_t n, const char *what) {
	if (NULL == p) {
		if (0 != sz) {
			fprintf(stderr, "%s: ", what);
			FZ_ASSERT(0, "xml: NULL span with a non-zero size");
		}
		return;
	}
	if (!FZ_INSIDE(p, sz, doc, n)) {
		fprintf(stderr, "%s: ", what);
		FZ_ASSERT(0, "xml: returned span outside the document");
	}
	(void)c12_touch(p, sz);
}

/* ---- known-finding classifier ----------------------------------------------------------------
 * Shadow of the tag scanner's bookkeeping (position, cur_tag, level), used ONLY to recognise, before
 * the library is called, the input classes of the known findings -- it is not an oracle:
 *  XF_LT_END   : '<' is the last byte reached by the scanner: it reads the byte after it
 *  XF_CLOSE_TOP: a close tag is reached with cur_tag == 0 and level < 0: tag_arr[-1] / tag_arr_cnt[-1]
 *                (and ret_ns_size[-1]) are read
 *  XF_PAST     : an open tag is compared with tag_arr[cur_tag], cur_tag > tag_arr_count (or, for the
 *                name-space variant, matched at cur_tag == tag_arr_count: ret_ns[] / ret_ns_size[] are
 *                written past their tag_arr_count entries)
 *  XF_NP_END   : a hit leaves next_pos == end of the document (the next call restarts at offset 0)
 * A disagreement between this shadow and the library shows up as a sanitizer report while the
 * predicates are listed, or as the label "xml:shadow hit count differs" -- never as a pass. */
#define XF_LT_END	1
#define XF_CLOSE_TOP	2
#define XF_PAST		4
#define XF_NP_END	8
#define XM_MAXLVL	160

static int
xm_space(uint8_t c) {
	return (' ' == c || ('\t' <= c && '\r' >= c));
}
static size_t
xm_find(const uint8_t *d, size_t n, size_t from, const char *pat, size_t plen) {
	const uint8_t *r;
	if (from >= n)
		return ((size_t)-1);
	r = (const uint8_t *)memmem(d + from, n - from, pat, plen);
	return (r ? (size_t)(r - d) : (size_t)-1);
}
static int
xm_eq(const tagset_t *ts, size_t idx, const uint8_t *p, size_t len) {
	if (idx >= ts->count)	/* the NULL / 0 terminator entry (and whatever lies behind it) */
		return (0 == len);
	return (ts->len[idx] == len && (0 == len || 0 == memcmp(ts->name[idx], p, len)));
}
/* one call; returns 1 on a hit (*np_off = offset of next_pos), 0 when the scan stops */
static int
xm_call(const uint8_t *d, size_t n, const tagset_t *ts, int ns, int have_np, size_t *np_off, int *flags) {
	size_t pos = 0, cur = 0, s, gt, te, ne, e, avail, nstart, nlen, colon;
	size_t ns_sz[XM_MAXLVL];
	long level = 0;
	int value = 0, ee;

	if (ns && 0 == n)
		return (0);
	memset(ns_sz, 0, sizeof(ns_sz));
	if (have_np && (*np_off) < n) {
		pos = (*np_off);
		cur = (0 == pos) ? 0 : (ts->count - 1);
	}
	for (;;) {
		s = xm_find(d, n, pos, "<", 1);
		if ((size_t)-1 == s)
			return (0);
		s ++;
		if (s >= n) {
			(*flags) |= XF_LT_END;
			return (0);
		}
		switch (d[s]) {
		case '?':
			if ((size_t)-1 == (e = xm_find(d, n, s, "?>", 2)))
				return (0);
			pos = e + 2;
			continue;
		case '!':
			s ++;
			avail = n - s;
			if (2 < avail && 0 == memcmp(d + s, "--", 2)) {
				if ((size_t)-1 == (e = xm_find(d, n, s + 2, "-->", 3)))
					return (0);
				pos = e + 3;
				continue;
			} else if (7 < avail && 0 == memcmp(d + s, "[CDATA[", 7)) {
				if ((size_t)-1 == (e = xm_find(d, n, s + 7, "]]>", 3)))
					return (0);
				pos = e + 3;
				continue;
			} else if (7 < avail && 0 == memcmp(d + s, "DOCTYPE", 7)) {
				if ((size_t)-1 == (e = xm_find(d, n, s + 7, ">", 1)))
					return (0);
				pos = e + 1;
				continue;
			}
			return (0);
		case '>':
			pos = s + 1;
			continue;
		case '/':
			if ((size_t)-1 == (gt = xm_find(d, n, s, ">", 1)))
				return (0);
			te = gt - 1;
			pos = te;
			if (te == s)
				continue;
			level --;
			if (0 <= level)
				continue;
			if (0 == cur) {
				(*flags) |= XF_CLOSE_TOP;
				return (0);
			}
			nstart = s + 1;
			if (ns && (cur - 1) < XM_MAXLVL && 0 != ns_sz[cur - 1])
				nstart += ns_sz[cur - 1] + 1;
			nlen = (te + 1) - nstart; /* may wrap: then it never equals a tag length */
			if (nstart > te + 1 || !xm_eq(ts, cur - 1, d + nstart, nlen))
				continue;
			cur --;
			level = 0;
			if (!value)
				continue;
			(*np_off) = te + 2;
			return (1);
		default:
			if ((size_t)-1 == (gt = xm_find(d, n, s, ">", 1)))
				return (0);
			te = gt - 1;
			ee = ('/' == d[te]);
			if (ee)
				te --;
			else
				level ++;
			pos = te;
			for (ne = s; !xm_space(d[ne]) && ne < te; ne ++)
				;
			if (xm_space(d[ne]))
				ne --;
			if (1 != level && !ee)
				continue;
			nstart = s;
			nlen = (ne + 1) - nstart;
			colon = (size_t)-1;
			if (ns && 0 != nlen) {
				const uint8_t *c = (const uint8_t *)memchr(d + nstart, ':', nlen);
				if (NULL != c) {
					colon = (size_t)(c - d);
					nlen -= (colon + 1) - nstart;
					nstart = colon + 1;
				}
			}
			if (cur > ts->count) {
				(*flags) |= XF_PAST;
				return (0);
			}
			if (!xm_eq(ts, cur, d + nstart, nlen))
				continue;
			if (cur == ts->count && ns) { /* ret_ns[count] / ret_ns_size[count] written */
				(*flags) |= XF_PAST;
				return (0);
			}
			if (cur < XM_MAXLVL)
				ns_sz[cur] = ((size_t)-1 == colon) ? 0 : (colon - s);
			level = 0;
			cur ++;
			if (cur < ts->count)
				continue;
			value = 1;
			if (!ee)
				continue;
			(*np_off) = te + 2;
			return (1);
		}
	}
}
/* the harness' iteration protocol: returns the number of hits */
static size_t
xm_iterate(const uint8_t *d, size_t n, const tagset_t *ts, int ns, int use_np, int have_start, size_t start, int *flags) {
	size_t np = start, hits = 0, iter = 0;
	int have = have_start;

	(*flags) = 0;
	for (;;) {
		if (!xm_call(d, n, ts, ns, (use_np && have), &np, flags))
			break;
		hits ++;
		have = 1;
		if (!use_np)
			break;
		if (np >= n) {
			(*flags) |= XF_NP_END;
			break;
		}
		if (++ iter > n + 2)
			break;
	}
	return (hits);
}
/* returns 1 when the op must not be issued because a listed predicate covers the input */
static int
xm_excluded(int flags) {
	int ex = 0;

	if (flags & XF_LT_END) {
		fz_label("xml:'<' is the last byte scanned");
		if (g_k_lt) { fz_label("excl:xml_lt_last_byte"); ex = 1; }
	}
	if (flags & XF_CLOSE_TOP) {
		fz_label("xml:close tag at cur_tag 0 / level<0");
		if (g_k_m1) { fz_label("excl:xml_close_tag_at_top_level"); ex = 1; }
	}
	if (flags & XF_PAST) {
		fz_label("xml:tag compare past tag_arr_count");
		if (g_k_past) { fz_label("excl:xml_tag_arr_past_count"); ex = 1; }
	}
	return (ex);
}

/* iterate xml_get_val_arr / xml_get_val_ns_arr with next_pos until it stops */
static void
do_arr(c12_in_t *in, uint8_t a, uint8_t b, int ns) {
	tagset_t ts;
	uint8_t *doc;
	const uint8_t *np = NULL, *prev, *attr, *val, **rns = NULL;
	size_t n, asz, vsz, iter = 0, hits = 0, i, *rns_sz = NULL, nstot = 0;
	int rc, use_np = !(b & 1), want_attr = !(b & 2), want_val = !(b & 4), want_ns = !(b & 8), mflags = 0, stopped_np_end = 0;
	size_t mhits;

	tags_build(&ts, in, a, in->n);
	n = in->n;
	mhits = xm_iterate(in->p, n, &ts, ns, use_np, (0 != (b & 16)), (n ? ((size_t)(b >> 5) * 37) % n : 0), &mflags);
	if (xm_excluded(mflags)) {
		tags_free(&ts);
		return;
	}
	doc = fz_dup(in->p, n);
	if (ns) {
		nstot = ts.lead + ts.count + (ts.trail - 1);
		rns = (const uint8_t **)fz_out(nstot * sizeof(uint8_t *), 0) + ts.lead;
		rns_sz = (size_t *)fz_out(nstot * sizeof(size_t), 0) + ts.lead;
	}
	if (b & 16) /* start somewhere inside instead of at the beginning */
		np = doc + (n ? ((size_t)(b >> 5) * 37) % n : 0);
	for (;;) {
		prev = np;
		attr = val = NULL;
		asz = vsz = 0;
		if (ns)
			rc = xml_get_val_ns_arr(doc, n, (use_np ? &np : NULL), ts.count, ts.arr, ts.cnt,
			    (want_ns ? rns : NULL), rns_sz,
			    (want_attr ? &attr : NULL), (want_attr ? &asz : NULL), (want_val ? &val : NULL), (want_val ? &vsz : NULL));
		else
			rc = xml_get_val_arr(doc, n, (use_np ? &np : NULL), ts.count, ts.arr, ts.cnt,
			    (want_attr ? &attr : NULL), (want_attr ? &asz : NULL), (want_val ? &val : NULL), (want_val ? &vsz : NULL));
		iter ++;
		if (0 != rc) {
			FZ_ASSERT(ESPIPE == rc || EINVAL == rc, "xml_get_val*_arr: unexpected rc");
			break;
		}
		hits ++;
		chk_span(attr, asz, doc, n, "attr");
		chk_span(val, vsz, doc, n, "value");
		if (ns && want_ns)
			for (i = 0; i < ts.count; i ++)
				if (0 != rns_sz[i])
					chk_span(rns[i], rns_sz[i], doc, n, "name space");
		if (!use_np)
			break;
		FZ_ASSERT(NULL != np && FZ_INSIDE(np, 0, doc, n), "xml_get_val*_arr: next_pos outside the document");
		FZ_ASSERT(NULL == prev || np > prev, "xml_get_val*_arr: next_pos did not advance");
		if (np == doc + n) {
			/* next_pos == end is "out of range" for the next call, which then restarts from the
			 * beginning: a `while (0 == xml_get_val...(&next_pos))` loop (the idiom used by
			 * xml_calc_tag_count_args, http_server.c, radius_client.c) never ends */
			fz_label("xml:next_pos at the end of the document");
			if (g_k_npend) {
				fz_label("excl:xml_next_pos_at_end_restarts");
				stopped_np_end = 1;
				break;
			}
		}
		FZ_ASSERT(iter <= n + 2, "xml_get_val*_arr: iteration with next_pos does not terminate");
	}
	(void)stopped_np_end;
	if (hits != mhits)
		fz_label("xml:shadow hit count differs (harness self-check)");
	if (0 != hits)
		fz_deep();
	fz_label(hits > 1 ? "xml:arr hits>1" : (hits ? "xml:arr hits=1" : "xml:arr hits=0"));
	if (ns) {
		fz_free((void *)(rns - ts.lead), nstot * sizeof(uint8_t *));
		fz_free((void *)(rns_sz - ts.lead), nstot * sizeof(size_t));
	}
	fz_free(doc, n);
	tags_free(&ts);
}

#define T3(ts) (const uint8_t *)(ts).cname[0], (1 < (ts).count ? (const uint8_t *)(ts).cname[1] : NULL), \
	(2 < (ts).count ? (const uint8_t *)(ts).cname[2] : NULL), NULL

static void
do_args(c12_in_t *in, uint8_t a, uint8_t b, uint8_t c) {
	tagset_t ts;
	uint8_t *doc;
	const uint8_t *np = NULL, *prev, *attr, *val, *rns[XML_MAX_LEVELS];
	size_t n, asz, vsz, iter = 0, hits = 0, cntres, sz = 0, rns_sz[XML_MAX_LEVELS];
	ssize_t ssz = 0;
	uint32_t u32 = 0; int32_t s32 = 0; uint64_t u64 = 0; int64_t s64 = 0;
	int rc = 0;

	tags_build(&ts, in, a, 0);
	n = in->n;
	/* the wrappers keep their tag arrays on their own stack (NULL / 0 entry behind the names) */
	{
		int mflags = 0, m_ns = (1 == (c % 9)), m_np = (2 >= (c % 9));
		(void)xm_iterate(in->p, n, &ts, m_ns, m_np, 0, 0, &mflags);
		if (xm_excluded(mflags)) {
			tags_free(&ts);
			return;
		}
		if (2 == (c % 9) && (mflags & XF_NP_END)) {
			/* xml_calc_tag_count_args: `while (0 == xml_get_val_arr(&next_pos))` never ends */
			fz_label("xml:count with a hit that ends the document");
			if (g_k_npend) {
				fz_label("excl:xml_next_pos_at_end_restarts");
				tags_free(&ts);
				return;
			}
		}
	}
	doc = fz_dup(in->p, n);
	switch (c % 9) {
	case 0: /* iterate */
	case 1:
		for (;;) {
			prev = np;
			attr = val = NULL;
			asz = vsz = 0;
			if (c % 9)
				rc = xml_get_val_ns_args(doc, n, &np, ((b & 1) ? NULL : rns), ((b & 2) ? NULL : rns_sz),
				    &attr, &asz, &val, &vsz, T3(ts));
			else
				rc = xml_get_val_args(doc, n, &np, &attr, &asz, &val, &vsz, T3(ts));
			iter ++;
			if (0 != rc)
				break;
			hits ++;
			chk_span(attr, asz, doc, n, "attr");
			chk_span(val, vsz, doc, n, "value");
			FZ_ASSERT(NULL != np && FZ_INSIDE(np, 0, doc, n), "xml_get_val*_args: next_pos outside the document");
			FZ_ASSERT(NULL == prev || np > prev, "xml_get_val*_args: next_pos did not advance");
			if (np == doc + n) {
				fz_label("xml:next_pos at the end of the document");
				if (g_k_npend) {
					fz_label("excl:xml_next_pos_at_end_restarts");
					break;
				}
			}
			FZ_ASSERT(iter <= n + 2, "xml_get_val*_args: iteration with next_pos does not terminate");
		}
		break;
	case 2:
		/* counts with the `while (0 == xml_get_val_arr(&next_pos))` idiom */
		cntres = xml_calc_tag_count_args(doc, n, T3(ts));
		FZ_ASSERT(cntres <= n, "xml_calc_tag_count_args: more elements than bytes");
		hits = cntres;
		break;
	case 3: rc = xml_get_val_size_t_args(doc, n, NULL, &sz, T3(ts)); hits = !rc; break;
	case 4: rc = xml_get_val_ssize_t_args(doc, n, NULL, &ssz, T3(ts)); hits = !rc; break;
	case 5: rc = xml_get_val_uint32_args(doc, n, NULL, &u32, T3(ts)); hits = !rc; break;
	case 6: rc = xml_get_val_int32_args(doc, n, NULL, &s32, T3(ts)); hits = !rc; break;
	case 7: rc = xml_get_val_uint64_args(doc, n, NULL, &u64, T3(ts)); hits = !rc; break;
	default: rc = xml_get_val_int64_args(doc, n, NULL, &s64, T3(ts)); hits = !rc; break;
	}
	FZ_ASSERT(0 == rc || ESPIPE == rc || EINVAL == rc, "xml_get_val*_args: unexpected rc");
	if (0 != hits)
		fz_deep();
	fz_label(hits ? "xml:args hit" : "xml:args no hit");
	fz_free(doc, n);
	tags_free(&ts);
}

static void
do_codec(const uint8_t *data, size_t n, int enc, uint8_t csel, uint16_t rnd) {
	uint8_t *src = fz_dup(data, n), *first, *dst;
	size_t big = n * 6 + 16, need = C12_SENT, cap, ret = C12_SENT;
	int rc;

	first = fz_out(big, C12_FILL);
	rc = enc ? xml_encode(src, n, first, big, &need) : xml_decode(src, n, first, big, &need);
	FZ_ASSERT(0 == rc, "xml_encode/decode: refused a buffer larger than any possible output");
	FZ_ASSERT(need != C12_SENT && need <= big, "xml_encode/decode: size out of range");
	FZ_ASSERT(enc ? (need >= n) : (need <= n), "xml_encode/decode: output size on the wrong side of the input size");
	FZ_ASSERT(c12_untouched(first + need, big - need, C12_FILL), "xml_encode/decode: wrote past size_ret");
	if (need != n)
		fz_deep();
	cap = c12_cap(csel, need, rnd);
	c12_cap_label(cap, need);
	if (cap < need) {
		fz_label("xml:codec dst smaller than the output");
		if (fz_known("mem_replace_arr_small_dst")) {
			fz_label("excl:mem_replace_arr_small_dst");
			goto out;
		}
	}
	dst = fz_out(cap, C12_FILL);
	rc = enc ? xml_encode(src, n, dst, cap, &ret) : xml_decode(src, n, dst, cap, &ret);
	if (0 == rc) {
		FZ_ASSERT(ret == need && ret <= cap, "xml_encode/decode: size_ret > capacity");
		FZ_ASSERT(0 == memcmp(dst, first, need), "xml_encode/decode: output depends on the capacity");
		FZ_ASSERT(c12_untouched(dst + ret, cap - ret, C12_FILL), "xml_encode/decode: wrote past size_ret (2nd)");
	} else {
		FZ_ASSERT(ENOBUFS == rc, "xml_encode/decode: unexpected rc");
		FZ_ASSERT(cap <= need + 6, "xml_encode/decode: refused a buffer with room for the output and one more entity");
		if (enc)
			FZ_ASSERT(cap < need, "xml_encode: refused a buffer that holds the output");
		else if (cap >= need)
			fz_label("xml:decode ENOBUFS although the output fits (semantic, not asserted)");
	}
	fz_free(dst, cap);
out:
	fz_free(first, big);
	fz_free(src, n);
}

int
LLVMFuzzerTestOneInput(const uint8_t *data, size_t size) {
	c12_in_t in = { data, size };
	uint8_t op, a, b, c;

	static int once;

	fz_total();
	if (!once) {
		once = 1;
		g_k_lt = fz_known("xml_lt_last_byte");
		g_k_m1 = fz_known("xml_close_tag_at_top_level");
		g_k_past = fz_known("xml_tag_arr_past_count");
		g_k_npend = fz_known("xml_next_pos_at_end_restarts");
	}
	op = c12_u8(&in);
	a = c12_u8(&in);
	b = c12_u8(&in);
	c = c12_u8(&in);
	switch (op % 8) {
	case 0: fz_label("op:encode"); do_codec(in.p, in.n, 1, a, (uint16_t)(b | (c << 8))); return (0);
	case 1: fz_label("op:decode"); do_codec(in.p, in.n, 0, a, (uint16_t)(b | (c << 8))); return (0);
	}
	switch (op % 8) {
	case 2:
	case 3: fz_label("op:get_val_arr"); do_arr(&in, a, b, 0); break;
	case 4:
	case 5: fz_label("op:get_val_ns_arr"); do_arr(&in, a, b, 1); break;
	default: fz_label("op:args wrappers"); do_args(&in, a, b, c); break;
	}
	return (0);
}
