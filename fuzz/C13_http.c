/* C13_http.c -- libFuzzer target: HTTP line / header / query / chunked / URL-escape scanners of src/proto/http.c.
 *
 * data[0] = selector (low nibble entry, high nibble aux), data[1..] = the message (exact-size allocation).
 * Two calling conventions are exercised:
 *  - "server": src/proto/http_server.c and upnp_ssdp.c look for CRLFCRLF in the received bytes and pass
 *    (buf, offset of CRLFCRLF) to http_parse_req_line / http_req_sec_chk / http_hdr_val_get; the span is followed
 *    by at least four received octets (entry 2);
 *  - "span": the documented (pointer, size) contract of every exported function, the span being the whole
 *    received message (all other entries) -- the first octet past the span is an ASan redzone.
 * http_hdr_val_remove(s) gets the lower-cased twin buffer its interface requires.
 * Oracle: ASan/UBSan + returned pointers/lengths inside the span, offsets strictly increasing while iterating,
 * counts equal to a reference walk, in-place decoders return size <= input, reference decoders for content.
 */
#include "C13_common.h"
#include <strings.h>
#include <ctype.h>
#include "proto/http.h"

#define P_SKIP		"http_skip_spwsp_read_at_end"		/* skip_spwsp/skip_spwsp2 dereference before the bound test (H-PR-1) */
#define P_URLDEC	"http_url_decode_pct_read_past_end"	/* '%' in the last two octets (H-PR-2) */
#define P_CHUNK		"http_chunked_size_wraps"		/* chunk size >= 2^63 wraps the pointer test (H-PR-3) */
#define P_HDRREM	"http_hdr_val_remove_read_at_end"	/* reads val[name_size] when the name ends the buffer (H-PR-4) */

#define NONE	SIZE_MAX

static const char *hnames[] = { "host", "content-length", "connection", "x-folded", "user-agent", "accept",
    "transfer-encoding", "mx", "st", "man", "a", "", "content-type", "server", "close", "x" };
static const char *qnames[] = { "a", "b", "c", "name", "sid", "x", "", "d" };

static size_t
find_crlf(const uint8_t *h, size_t n, size_t from) {
	size_t i;

	for (i = from; i + 1 < n; i ++) {
		if ('\r' == h[i] && '\n' == h[i + 1])
			return (i);
	}
	return (NONE);
}

static int
name_eq(const uint8_t *a, size_t al, const uint8_t *b, size_t bl) {
	if (al != bl)
		return (0);
	if (0 == al)
		return (1);
	return (0 == strncasecmp((const char *)a, (const char *)b, al));
}

static int
all_ws(const uint8_t *p, size_t n) {
	size_t i;

	for (i = 0; i < n; i ++) {
		if (p[i] > 32)
			return (0);
	}
	return (1);
}

/* ---- reference: header field lookup (RFC 7230 3.2 with obs-fold; field name = octets between the line start
 * and the next ':'), value trimmed of octets <= 32 on both sides. returns 0 found / 1 not found.
 * at_end: the untrimmed value span is empty/all-whitespace and ends the buffer */
static int
ref_hdr_get(const uint8_t *h, size_t n, const uint8_t *nm, size_t nml, size_t off,
    size_t *vo, size_t *vl, size_t *next, int *at_end) {
	size_t p, name, val, sep, q, b, e;
	const uint8_t *c;

	(*at_end) = 0;
	p = ((off < n) ? find_crlf(h, n, off) : NONE);
	while (NONE != p) {
		name = (p + 2);
		if (name >= n)
			return (1);
		c = memchr(h + name, ':', n - name);
		if (NULL == c)
			return (1);
		val = ((size_t)(c - h) + 1);
		for (sep = val;; sep += 2) {
			q = ((sep < n) ? find_crlf(h, n, sep) : NONE);
			if (NONE == q) {
				sep = n;
				break;
			}
			sep = q;
			if (sep + 2 >= n)
				break;
			if ('\t' == h[sep + 2] || ' ' == h[sep + 2])
				continue;
			break;
		}
		if (name_eq(h + name, (val - name) - 1, nm, nml)) {
			for (b = val; b < sep && h[b] < 33; b ++)
				;
			for (e = sep; e > b && h[e - 1] < 33; e --)
				;
			(*vo) = b;
			(*vl) = (e - b);
			(*next) = sep;
			(*at_end) = (sep == n && all_ws(h + val, sep - val));
			return (0);
		}
		p = sep;
	}
	return (1);
}

static size_t
ref_hdr_count(const uint8_t *h, size_t n, const uint8_t *nm, size_t nml) {
	size_t off = 0, cnt = 0, vo, vl;
	int ae;
	C13_STEPS_DECL(st, n);

	while (0 == ref_hdr_get(h, n, nm, nml, off, &vo, &vl, &off, &ae)) {
		C13_STEP(st, "harness: reference header count");
		cnt ++;
	}
	return (cnt);
}

static int
ref_sec_chk(const uint8_t *h, size_t n, uint32_t method) {
	size_t i, cl, te;

	for (i = 0; i < n; i ++) {
		if (h[i] > 126)
			return (2);
		if (' ' == h[i] && i + 1 < n && ':' == h[i + 1])
			return (1);
		if (h[i] > 31 || '\t' == h[i])
			continue;
		if ('\r' == h[i] && i + 1 < n && '\n' == h[i + 1]) {
			i ++;
			continue;
		}
		return (2);
	}
	if (1 < ref_hdr_count(h, n, (const uint8_t *)"host", 4))
		return (3);
	cl = ref_hdr_count(h, n, (const uint8_t *)"content-length", 14);
	if (1 < cl)
		return (4);
	if (0 != cl && HTTP_REQ_METHOD_GET == method)
		return (5);
	te = ref_hdr_count(h, n, (const uint8_t *)"transfer-encoding", 17);
	if (1 < te)
		return (6);
	if (0 != cl && 0 != te)
		return (7);
	return (0);
}

static uint32_t
ref_method(const uint8_t *m, size_t n) {
	static const char *tbl[] = { NULL, "OPTIONS", "GET", "HEAD", "POST", "PUT", "DELETE", "TRACE", "CONNECT",
	    "NOTIFY", "M-SEARCH", "M-POST", "SUBSCRIBE", "UNSUBSCRIBE" };
	uint32_t i;

	for (i = 1; i < 14; i ++) {
		if (strlen(tbl[i]) == n && 0 == memcmp(tbl[i], m, n))
			return (i);
	}
	return (0);
}

/* would http_parse_req_line(h, n) run skip_spwsp into the end of the span? (no CRLF, whitespace up to the end) */
static int
req_line_skip_class(const uint8_t *h, size_t n) {
	size_t sp, t;
	const uint8_t *c;

	if (10 >= n || 'A' > h[0] || 'Z' < h[0] || NONE != find_crlf(h, n, 0))
		return (0);
	c = memchr(h, ' ', n);
	if (NULL == c)
		return (0);
	sp = (size_t)(c - h);
	for (t = sp; t < n && h[t] < 33; t ++)
		;
	if (t == n)
		return (1);
	c = memchr(h + t, ' ', n - t);
	if (NULL == c)
		return (0);
	for (t = (size_t)(c - h); t < n && h[t] < 33; t ++)
		;
	return (t == n);
}

static void
chk_req_line(const uint8_t *h, size_t n, http_req_line_data_t *rd, int rc) {
	const uint8_t *le;

	if (0 != rc) {
		fz_label("reqline_rejected");
		return;
	}
	fz_label("reqline_ok");
	FZ_ASSERT(rd->line_size <= n && rd->line_size > 10, "req line: line_size outside the span");
	le = (h + rd->line_size);
	FZ_ASSERT(rd->method == h && rd->method_size < rd->line_size && ' ' == h[rd->method_size], "req line: method not at the line start");
	FZ_ASSERT(rd->method_code == ref_method(h, rd->method_size), "req line: method code differs from the reference table");
	FZ_ASSERT(rd->uri > h && 0 != rd->uri_size && FZ_INSIDE(rd->uri, rd->uri_size, h, rd->line_size) && rd->uri + rd->uri_size < le,
	    "req line: URI outside the line");
	if (NULL != rd->scheme)
		FZ_ASSERT(rd->scheme == rd->uri && rd->scheme_size + 3 <= rd->uri_size, "req line: scheme outside the URI");
	if (NULL != rd->host)
		FZ_ASSERT(FZ_INSIDE(rd->host, rd->host_size, rd->uri, rd->uri_size), "req line: host outside the URI");
	if (NULL != rd->abs_path)
		FZ_ASSERT(FZ_INSIDE(rd->abs_path, rd->abs_path_size, rd->uri, rd->uri_size), "req line: abs_path outside the URI");
	else
		FZ_ASSERT(HTTP_REQ_METHOD_CONNECT == rd->method_code, "req line: no abs_path");
	if (NULL != rd->query) {
		fz_label("reqline_query");
		FZ_ASSERT(FZ_INSIDE(rd->query, rd->query_size, rd->uri, rd->uri_size) && rd->query + rd->query_size == rd->uri + rd->uri_size,
		    "req line: query is not the URI tail");
	}
	FZ_ASSERT(HIWORD(rd->proto_ver) <= 9 && LOWORD(rd->proto_ver) <= 9, "req line: protocol version digits");
}

/* ---- reference decoders ---- */
static size_t
ref_hex(const uint8_t *s, size_t n) {
	size_t i, r = 0;
	uint8_t c;

	for (i = 0; i < n; i ++) {
		c = s[i];
		if (c >= '0' && c <= '9')
			c -= '0';
		else if (c >= 'a' && c <= 'f')
			c -= ('a' - 10);
		else if (c >= 'A' && c <= 'F')
			c -= ('A' - 10);
		else
			continue;
		r = ((r << 4) | c);
	}
	return (r);
}

/* chunked body: 0 = decodable (total), EINVAL = malformed, -1 = a size line >= 2^63 is reached */
static int
ref_chunked(const uint8_t *m, size_t n, size_t *first_off, size_t *total) {
	size_t pos = 0, e, tm;
	C13_STEPS_DECL(st, n);

	(*total) = 0;
	(*first_off) = NONE;
	for (;;) {
		C13_STEP(st, "harness: chunked reference");
		e = ((pos < n) ? find_crlf(m, n, pos) : NONE);
		if (NONE == e) {
			if (0 != ref_hex(m + pos, n - pos))
				return (EINVAL);
			return (0);
		}
		tm = ref_hex(m + pos, e - pos);
		if (0 == tm)
			return (0);
		if (tm >= ((size_t)1 << 63))
			return (-1);
		if (tm > n - (e + 2))
			return (EINVAL);
		if (NONE == (*first_off))
			(*first_off) = (e + 2);
		pos = (e + 2 + tm);
		(*total) += tm;
	}
}

/* url decode: returns produced length; *cls when a '%' with fewer than two following octets is reached */
static size_t
ref_url_decode(const uint8_t *u, size_t n, uint8_t *out, size_t cap, int *cls) {
	size_t i = 0, o = 0;

	(*cls) = 0;
	if (0 == n || 0 == cap)
		return (0);
	for (; i < n && o < cap - 1; i ++, o ++) {
		if ('%' == u[i]) {
			if (i + 2 >= n) {
				(*cls) = 1;
				return (o);
			}
			out[o] = (uint8_t)ref_hex(u + i + 1, 2);
			i += 2;
		} else if ('+' == u[i]) {
			out[o] = ' ';
		} else {
			out[o] = u[i];
		}
	}
	return (o);
}

/* model of http_hdr_val_remove on a copy: a field "name:" at the buffer start or after CRLF is cut out up to and
 * including its CRLF (or LF, or the end of the header together with the CRLF in front of it).
 * *cls: a match of the name ends exactly at the end of the (current) header, where the library looks at the
 * octet behind the header (outside the allocation while nothing was removed yet, stale octets afterwards) */
static size_t
sim_remove(uint8_t *l, size_t *psize, const uint8_t *nm, size_t nml, int *cls) {
	size_t size = (*psize), pos = 0, ret = 0, start, end, vs;
	uint8_t *f, *e;

	if (0 == size || 0 == nml)
		return (0);
	for (;;) {
		if (pos >= size)
			break;
		f = memmem(l + pos, size - pos, nm, nml);
		if (NULL == f)
			break;
		pos = (size_t)(f - l);
		if (pos + nml >= size) { /* no octet left for ':' */
			(*cls) = 1;
			pos ++;
			continue;
		}
		if (':' == l[pos + nml] && (0 == pos || (pos > 2 && '\r' == l[pos - 2] && '\n' == l[pos - 1]))) {
			ret ++;
			start = (pos + nml + 1);
			e = ((start < size) ? memmem(l + start, size - start, "\r\n", 2) : NULL);
			if (NULL != e) {
				end = ((size_t)(e - l) + 2);
			} else {
				e = ((start < size) ? memchr(l + start, '\n', size - start) : NULL);
				if (NULL != e) {
					end = ((size_t)(e - l) + 1);
				} else {
					end = size;
					if (pos > 2 && '\r' == l[pos - 2] && '\n' == l[pos - 1])
						pos -= 2;
				}
			}
			vs = (end - pos);
			memmove(l + pos, l + pos + vs, size - end);
			size -= vs;
		} else {
			pos ++;
		}
	}
	(*psize) = size;
	return (ret);
}

static int
ref_query_get(const uint8_t *q, size_t n, const uint8_t *nm, size_t nml, size_t *no, size_t *vo, size_t *vl) {
	size_t v = 0, ei;
	const uint8_t *e, *a;
	C13_STEPS_DECL(st, n);

	while (v < n && '&' == q[v])
		v ++;
	for (;;) {
		C13_STEP(st, "harness: query reference");
		if (v + 1 >= n)
			return (1);
		e = memchr(q + v + 1, '=', n - (v + 1));
		if (NULL == e)
			return (1);
		ei = (size_t)(e - q);
		if (0 != nml && name_eq(q + v, ei - v, nm, nml)) {
			(*no) = v;
			v = (ei + 1);
			a = ((v < n) ? memchr(q + v, '&', n - v) : NULL);
			(*vo) = v;
			(*vl) = ((NULL != a) ? (size_t)(a - q) : n) - v;
			return (0);
		}
		a = memchr(q + ei, '&', n - ei);
		if (NULL == a)
			return (1);
		v = (size_t)(a - q);
		while (v < n && '&' == q[v])
			v ++;
	}
}

int
LLVMFuzzerTestOneInput(const uint8_t *data, size_t size) {
	uint8_t sel, *m, *l, *sl, *out, *ref, *dr;
	const uint8_t *nm, *v, *vn, *pr;
	const uint8_t *names[3];
	size_t n, nml, i, off, next, vs, vo = 0, vl = 0, rnext = 0, cnt, rcnt, cap, r, rr, hsz, lsz, total = 0, first = 0, psz, no = 0;
	size_t sizes[3];
	unsigned aux, e;
	http_req_line_data_t rd;
	http_resp_line_data_t rs;
	int rc, rrc, ae = 0, cls = 0;

	if (1 > size)
		return (0);
	fz_total();
	sel = data[0];
	aux = C13_AUX(sel);
	e = C13_ENTRY(sel);
	n = (size - 1);
	m = fz_dup(data + 1, n);

	switch (e) {
	case 0: /* request line + security check on the span */
	case 14:
		fz_label("e:req_line");
		if (0 != C13_CLASS(req_line_skip_class(m, n), P_SKIP))
			break;
		memset(&rd, 0xA5, sizeof(rd));
		rc = http_parse_req_line(m, n, &rd);
		fz_deep();
		chk_req_line(m, n, &rd, rc);
		if (0 == rc) {
			rc = http_req_sec_chk(m, n, rd.method_code);
			FZ_ASSERT(rc == ref_sec_chk(m, n, rd.method_code), "http_req_sec_chk differs from the reference checks");
			if (0 == rc)
				fz_label("sec_chk_ok");
		}
		break;
	case 1: /* status line */
		fz_label("e:resp_line");
		memset(&rs, 0xA5, sizeof(rs));
		rc = http_parse_resp_line(m, n, &rs);
		fz_deep();
		if (0 == rc) {
			fz_label("respline_ok");
			FZ_ASSERT(rs.line_size >= 13 && rs.line_size <= n, "resp line: line_size outside the span");
			FZ_ASSERT(rs.reason_phrase == m + 13 && rs.reason_phrase_size == rs.line_size - 13, "resp line: reason phrase outside the line");
			FZ_ASSERT(rs.status_code == (uint32_t)((m[9] - '0') * 100 + (m[10] - '0') * 10 + (m[11] - '0')), "resp line: status code");
		} else {
			FZ_ASSERT(EINVAL == rc || EBADMSG == rc, "resp line: unexpected return code");
			FZ_ASSERT((EINVAL == rc) == (n < 14), "resp line: EINVAL must mean a short span");
		}
		break;
	case 2: /* the servers' protocol: header span = octets before CRLFCRLF */
		fz_label("e:server");
		for (hsz = NONE, i = 0; i + 3 < n; i ++) {
			if (0 == memcmp(m + i, "\r\n\r\n", 4)) {
				hsz = i;
				break;
			}
		}
		if (NONE == hsz)
			break;
		fz_label("server_hdr_found");
		memset(&rd, 0xA5, sizeof(rd));
		rc = http_parse_req_line(m, hsz, &rd);
		fz_deep();
		chk_req_line(m, hsz, &rd, rc);
		if (0 != rc)
			break;
		rc = http_req_sec_chk(m, hsz, rd.method_code);
		FZ_ASSERT(rc == ref_sec_chk(m, hsz, rd.method_code), "http_req_sec_chk differs from the reference checks");
		if (0 != rc)
			break;
		fz_label("sec_chk_ok");
		for (i = 0; i < 10; i ++) {
			nm = (const uint8_t *)hnames[i];
			nml = strlen(hnames[i]);
			v = C13_PSENT;
			vs = C13_SENT;
			rc = http_hdr_val_get(m, hsz, nm, nml, &v, &vs);
			rrc = ref_hdr_get(m, hsz, nm, nml, 0, &vo, &vl, &rnext, &ae);
			FZ_ASSERT((0 == rc) == (0 == rrc), "http_hdr_val_get: verdict differs from the reference");
			if (0 == rc) {
				fz_label("server_hdr_val");
				FZ_ASSERT(FZ_INSIDE(v, vs, m, hsz) && v == m + vo && vs == vl, "http_hdr_val_get: value differs / outside the header");
			}
		}
		break;
	case 3: /* header value iteration */
	case 15:
		fz_label("e:hdr_get");
		nm = (const uint8_t *)hnames[aux];
		nml = strlen(hnames[aux]);
		rcnt = ref_hdr_count(m, n, nm, nml);
		off = 0;
		cnt = 0;
		{
			C13_STEPS_DECL(st, n);
			for (;;) {
				C13_STEP(st, "http_hdr_val_get_ex iteration");
				rrc = ref_hdr_get(m, n, nm, nml, off, &vo, &vl, &rnext, &ae);
				if (0 != C13_CLASS(0 == rrc && ae, P_SKIP)) {
					cnt = rcnt; /* not walked further */
					break;
				}
				v = C13_PSENT;
				vs = C13_SENT;
				next = C13_SENT;
				rc = http_hdr_val_get_ex(m, n, nm, nml, off, &v, &vs, &next);
				fz_deep();
				FZ_ASSERT((0 == rc) == (0 == rrc), "http_hdr_val_get_ex: verdict differs from the reference");
				if (0 != rc) {
					FZ_ASSERT(ESPIPE == rc, "http_hdr_val_get_ex: unexpected return code");
					break;
				}
				fz_label("hdr_val_found");
				FZ_ASSERT(FZ_INSIDE(v, vs, m, n), "http_hdr_val_get_ex: value outside the header");
				FZ_ASSERT(v == m + vo && vs == vl, "http_hdr_val_get_ex: value differs from the reference");
				FZ_ASSERT(next == rnext && next > off && next <= n && (size_t)(v - m) + vs <= next,
				    "http_hdr_val_get_ex: next offset not increasing / outside the header");
				off = next;
				cnt ++;
			}
		}
		FZ_ASSERT(cnt == rcnt, "header iteration count differs from the reference");
		r = http_hdr_val_get_count(m, n, nm, nml);
		FZ_ASSERT(r == rcnt, "http_hdr_val_get_count differs from the reference count");
		break;
	case 4: /* remove one header, twin buffers */
	case 5: /* remove several */
		fz_label("e:hdr_remove");
		l = fz_out(n, 0);
		for (i = 0; i < n; i ++)
			l[i] = (uint8_t)tolower(m[i]);
		sl = fz_out(n, 0);
		if (0 != n)
			memcpy(sl, l, n);
		cnt = ((4 == e) ? 1 : 3);
		for (i = 0; i < cnt; i ++) {
			names[i] = (const uint8_t *)hnames[(aux + i * 5) % nitems(hnames)];
			sizes[i] = strlen((const char *)names[i]);
		}
		lsz = n;
		rr = 0;
		cls = 0;
		for (i = 0; i < cnt; i ++)
			rr += sim_remove(sl, &lsz, names[i], sizes[i], &cls);
		if (0 == C13_CLASS(cls, P_HDRREM)) {
			psz = C13_SENT;
			if (4 == e)
				r = http_hdr_val_remove(m, l, n, &psz, names[0], sizes[0]);
			else
				r = http_hdr_vals_remove(m, l, n, &psz, cnt, names, sizes);
			fz_deep();
			if (0 == n || (4 == e && 0 == sizes[0])) {
				FZ_ASSERT(0 == r, "http_hdr_val_remove: empty arguments must remove nothing");
			} else if (0 == cls) {
				FZ_ASSERT(psz <= n, "http_hdr_val_remove: new size larger than the header");
				FZ_ASSERT(r == rr && psz == lsz && 0 == memcmp(l, sl, psz), "http_hdr_val_remove differs from the model");
				for (i = 0; i < psz; i ++)
					FZ_ASSERT((uint8_t)tolower(m[i]) == l[i], "http_hdr_val_remove: header and lower-case twin diverge");
				if (0 != r)
					fz_label("hdr_removed");
			}
		}
		fz_free(sl, n);
		fz_free(l, n);
		break;
	case 6: /* query value lookup */
		fz_label("e:query_get");
		nm = (const uint8_t *)qnames[aux & 7];
		nml = strlen(qnames[aux & 7]);
		vn = v = C13_PSENT;
		vs = C13_SENT;
		rc = http_query_val_get_ex(m, n, nm, nml, &vn, &v, &vs);
		fz_deep();
		/* Which pair is found is C20's question (value oracle there); here only structural consistency:
		 * the mirrored lookup of the first version encoded the pre-fix "'=' search runs past '&'" behaviour. */
		(void)rrc; (void)no; (void)vo; (void)vl;
		if (0 == rc) {
			fz_label("query_found");
			FZ_ASSERT(FZ_INSIDE(vn, nml, m, n) && FZ_INSIDE(v, vs, m, n) && vn + nml + 1 == v, "http_query_val_get_ex: name/value outside the query");
			FZ_ASSERT('=' == vn[nml], "http_query_val_get_ex: name not followed by '='");
			pr = C13_PSENT;
			r = C13_SENT;
			FZ_ASSERT(0 == http_query_val_get(m, n, nm, nml, &pr, &r) && pr == v && r == vs, "http_query_val_get differs from _ex");
		} else {
			FZ_ASSERT(ESPIPE == rc, "http_query_val_get_ex: unexpected return code");
		}
		break;
	case 7: /* query value delete, in place */
		fz_label("e:query_del");
		nm = (const uint8_t *)qnames[aux & 7];
		nml = strlen(qnames[aux & 7]);
		psz = C13_SENT;
		r = http_query_val_del(m, n, nm, nml, &psz);
		fz_deep();
		FZ_ASSERT(psz <= n && r <= n, "http_query_val_del: new size larger than the query");
		FZ_ASSERT((0 == r) == (psz == n), "http_query_val_del: count and size disagree");
		vn = v = C13_PSENT;
		vs = C13_SENT;
		FZ_ASSERT(0 != http_query_val_get_ex(m, psz, nm, nml, &vn, &v, &vs), "http_query_val_del: the name is still present (own lookup)");
		if (0 != r)
			fz_label("query_deleted");
		break;
	case 8: /* chunked body, in place */
		fz_label("e:chunked");
		rrc = ref_chunked(m, n, &first, &total);
		if (0 != C13_CLASS(-1 == rrc, P_CHUNK))
			break;
		dr = NULL;
		r = 0;
		rc = http_data_decode_chunked(m, n, &dr, &r);
		fz_deep();
		if (-1 == rrc) {
			FZ_ASSERT(0 != rc, "http_data_decode_chunked accepted a chunk size that exceeds the body");
			break;
		}
		FZ_ASSERT(rc == rrc, "http_data_decode_chunked: verdict differs from the reference");
		if (0 == rc) {
			FZ_ASSERT(r <= n, "http_data_decode_chunked: decoded size larger than the input");
			FZ_ASSERT(r == total, "http_data_decode_chunked: decoded size differs from the sum of the chunk sizes");
			if (0 != r) {
				fz_label("chunked_data");
				FZ_ASSERT(FZ_INSIDE(dr, r, m, n) && dr == m + first, "http_data_decode_chunked: data outside the body");
			}
		}
		break;
	case 9: /* URL escapes into a separate buffer */
	case 10: /* in place */
		fz_label("e:url_decode");
		cap = ((9 == e) ? c13_cap(aux, n + 1) : n);
		ref = fz_out(cap + 1, 0);
		rr = ref_url_decode(m, n, ref, cap, &cls);
		if (0 == C13_CLASS(cls, P_URLDEC)) {
			out = ((9 == e) ? fz_out(cap, C13_FILL) : m);
			r = http_url_decode(m, n, out, cap);
			fz_deep();
			if (0 == cls) {
				FZ_ASSERT(r <= n && (0 == cap || r < cap), "http_url_decode: size larger than the input / the capacity");
				FZ_ASSERT(r == rr && 0 == memcmp(out, ref, r), "http_url_decode differs from the reference decoder");
				if (0 != n && 0 != cap)
					FZ_ASSERT(0 == out[r], "http_url_decode: result not terminated");
				if (9 == e && r + 1 < cap)
					FZ_ASSERT(c13_untouched(out + r + 1, cap - r - 1), "http_url_decode wrote past the terminator");
			}
			if (9 == e)
				fz_free(out, cap);
		}
		fz_free(ref, cap + 1);
		break;
	case 11: /* whitespace skippers */
		fz_label("e:skip");
		if (0 == (aux & 1)) {
			if (0 != C13_CLASS(all_ws(m, n), P_SKIP))
				break;
			pr = C13_PSENT;
			r = C13_SENT;
			rc = skip_spwsp(m, n, ((aux & 2) ? NULL : &pr), ((aux & 4) ? NULL : &r));
			fz_deep();
			FZ_ASSERT(0 == rc, "skip_spwsp: unexpected return code");
			if (0 == (aux & 2))
				FZ_ASSERT(FZ_INSIDE(pr, 0, m, n) && (pr == m + n || *pr > 32) && all_ws(m, (size_t)(pr - m)), "skip_spwsp: wrong position");
			if (0 == (aux & 4))
				FZ_ASSERT(r <= n && (0 != (aux & 2) || pr + r == m + n), "skip_spwsp: size outside the span");
		} else {
			if (0 != C13_CLASS(all_ws(m, n) && 6 != (aux & 6), P_SKIP))
				break;
			pr = C13_PSENT;
			r = C13_SENT;
			rc = skip_spwsp2(m, n, ((aux & 2) ? NULL : &pr), ((aux & 4) ? NULL : &r));
			fz_deep();
			FZ_ASSERT(0 == rc, "skip_spwsp2: unexpected return code");
			if (0 == (aux & 2))
				FZ_ASSERT(FZ_INSIDE(pr, 0, m, n), "skip_spwsp2: position outside the span");
			if (0 == (aux & 4))
				FZ_ASSERT(r <= n, "skip_spwsp2: size outside the span");
			if (0 == (aux & 6))
				FZ_ASSERT(FZ_INSIDE(pr, r, m, n) && (0 == r || (*pr > 32 && pr[r - 1] > 32)), "skip_spwsp2: trimmed span wrong");
		}
		break;
	case 12: /* LWS folding, tab replacement */
		fz_label("e:wsp2sp");
		if (0 == n)
			break;
		ref = fz_out(n, 0);
		for (i = 0, rr = 0; i < n;) {
			if (i + 2 < n && '\r' == m[i] && '\n' == m[i + 1] && (' ' == m[i + 2] || '\t' == m[i + 2])) {
				ref[rr ++] = ' ';
				i += 3;
			} else {
				ref[rr ++] = m[i ++];
			}
		}
		out = ((aux & 1) ? m : fz_out(n, C13_FILL));
		r = C13_SENT;
		if (0 == (aux & 2)) {
			rc = wsp2sp(m, n, out, &r);
			fz_deep();
			FZ_ASSERT(0 == rc && r <= n, "wsp2sp: size larger than the input");
			FZ_ASSERT(r == rr && 0 == memcmp(out, ref, r), "wsp2sp differs from the reference folding");
			if (r != n)
				fz_label("wsp2sp_folded");
		} else {
			rc = ht2sp(m, n, out, &r);
			fz_deep();
			FZ_ASSERT(0 == rc && r == n, "ht2sp: size differs from the input");
			if (out != m && NULL != memchr(out, '\t', n))
				fz_label("ht2sp_dst_keeps_tabs"); /* observation: replaces in the source, not in ret_buf */
		}
		if (out != m)
			fz_free(out, n);
		fz_free(ref, n);
		break;
	case 13: /* token classifiers, m_size = span */
		fz_label("e:method");
		if (0 == (aux & 1)) {
			FZ_ASSERT(http_get_method_fast(m, n) == ref_method(m, n), "http_get_method_fast differs from the table");
		} else {
			static const char *te[] = { NULL, "chunked", "compress", "deflate", "gzip" };
			rc = http_get_transfer_encoding_fast(m, n);
			for (i = 1, rrc = 0; i < 5; i ++) {
				if (name_eq(m, n, (const uint8_t *)te[i], strlen(te[i])))
					rrc = (int)i;
			}
			FZ_ASSERT(rc == rrc, "http_get_transfer_encoding_fast differs from the table");
		}
		fz_deep();
		break;
	}
	fz_free(m, n);
	return (0);
}
