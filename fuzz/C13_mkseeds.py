#!/usr/bin/env python3
"""Builds the C13 seed corpora (corpus/C13/<target>/*) from hand-written valid messages.

Run once (python3 fuzz/C13_mkseeds.py); the generated files are committed. Every seed is
selector byte + packet (see fuzz/C13_common.h). Writers are independent of liblcb
(RFC 1035 / 2865 / 2869 / 2131 / 7230 / 4566 / 2974 / 3550, ISO 13818-1).
"""
import hashlib
import hmac
import os
import struct

ROOT = os.path.join(os.path.dirname(os.path.dirname(os.path.abspath(__file__))), "corpus", "C13")


def put(target, name, sel, pkt):
    d = os.path.join(ROOT, target)
    os.makedirs(d, exist_ok=True)
    with open(os.path.join(d, name), "wb") as f:
        f.write(bytes([sel & 0xff]) + pkt)


# ------------------------------------------------------------------ DNS
def labels(name):
    out = b""
    for l in name.split("."):
        if l:
            out += bytes([len(l)]) + l.encode()
    return out + b"\0"


def rr(name_wire, typ, rdata, cls=1, ttl=300):
    return name_wire + struct.pack(">HHIH", typ, cls, ttl, len(rdata)) + rdata


def dns_seeds():
    q = labels("www.example.com") + struct.pack(">HH", 1, 1)
    ptr_q = b"\xc0\x0c"  # pointer to the question name at offset 12
    hdr = lambda qd, an, ns, ar, fl=0x8180: struct.pack(">HHHHHH", 0x1234, fl, qd, an, ns, ar)
    a = rr(ptr_q, 1, bytes([93, 184, 216, 34]))
    aaaa = rr(ptr_q, 28, bytes(range(16)))
    # CNAME www.example.com -> web.example.com (rdata uses a pointer to "example.com" at offset 16)
    cname = rr(ptr_q, 5, b"\x03web\xc0\x10")
    cname_off = 12 + len(q) + len(cname) - 6
    a2 = rr(struct.pack(">H", 0xc000 | cname_off), 1, bytes([10, 0, 0, 1]))
    soa_rd = labels("ns1.example.com") + b"\x05admin\xc0\x10" + struct.pack(">IIIII", 2024, 3600, 600, 86400, 60)
    soa = rr(b"\xc0\x10", 6, soa_rd)
    opt = b"\0" + struct.pack(">HHIH", 41, 1232, 0, 0)
    msgs = {
        "query": hdr(1, 0, 0, 0, 0x0100) + q,
        "answer_a": hdr(1, 1, 0, 0) + q + a,
        "answer_a_aaaa_opt": hdr(1, 2, 0, 1) + q + a + aaaa + opt,
        "answer_cname_chain": hdr(1, 2, 0, 0) + q + cname + a2,
        "nxdomain_soa": hdr(1, 0, 1, 0, 0x8183) + q + soa,
        "answer_uncompressed": hdr(1, 1, 0, 0) + q + rr(labels("www.example.com"), 1, bytes([1, 2, 3, 4])),
        "ptr_loop": hdr(1, 1, 0, 0) + q + rr(b"\xc0\x21", 1, b"\x7f\0\0\1"),  # the record name points to itself
        "ptr_pingpong": hdr(0, 1, 0, 0) + rr(b"\xc0\x0e\xc0\x0c", 1, b"\x7f\0\0\1"),
        "trailing": hdr(1, 1, 0, 0) + q + a + b"\x03abc",
        "root_names": hdr(1, 1, 0, 0) + b"\0" + struct.pack(">HH", 2, 1) + rr(b"\0", 2, labels("a.root-servers.net")),
    }
    for i, (k, v) in enumerate(sorted(msgs.items())):
        put("dns", "msg-" + k, 0x00 | ((i & 0xf) << 4), v)
        put("dns", "msgcut-" + k, 0x80 | ((i & 7) << 4), v)
    put("dns", "labels-plain", 0x04, labels("mail.example.org"))
    put("dns", "labels-ptr", 0x14, b"\x04mail\xc0\x0c")
    put("dns", "labels-noend", 0x24, b"\x04mail\x03org")
    put("dns", "nameat-12", 0x05, msgs["answer_cname_chain"])
    put("dns", "nameat-end", 0x25, msgs["answer_a"])
    put("dns", "nameat-rnd", 0xf6, msgs["answer_cname_chain"])
    put("dns", "question-at", 0x07, msgs["query"])
    put("dns", "rr-at", 0x08, hdr(0, 1, 0, 0) + rr(labels("a.b"), 16, b"\x02hi"))
    put("dns", "zones", 0x3a, b"www.sample.org")
    put("dns", "zones-dots", 0x2a, b".1.12.123.1234..12345678.")


# ------------------------------------------------------------------ RADIUS
SECRET = b"testing123"  # the key the target uses (fuzz/C13_radius.c)
REQ_AUTH = bytes(range(0x10, 0x20))  # authenticator of the request the target pairs replies with


def rad_attr(t, v):
    return bytes([t, len(v) + 2]) + v


def rad_pkt(code, ident, auth, attrs):
    return struct.pack(">BBH", code, ident, 20 + len(attrs)) + auth + attrs


def rad_sign_reply(code, ident, attrs, req_auth=REQ_AUTH, with_ma=False):
    if with_ma:
        ma_off = len(attrs)
        attrs = attrs + rad_attr(80, b"\0" * 16)
        body = struct.pack(">BBH", code, ident, 20 + len(attrs)) + req_auth + attrs
        mac = hmac.new(SECRET, body, hashlib.md5).digest()
        attrs = attrs[:ma_off + 2] + mac + attrs[ma_off + 18:]
    hdr = struct.pack(">BBH", code, ident, 20 + len(attrs))
    auth = hashlib.md5(hdr + req_auth + attrs + SECRET).digest()
    return hdr + auth + attrs


def rad_pw(pw, auth):
    p = pw + b"\0" * (-len(pw) % 16 or (16 if not pw else 0))
    out, prev = b"", auth
    for i in range(0, len(p), 16):
        b = hashlib.md5(SECRET + prev).digest()
        c = bytes(x ^ y for x, y in zip(p[i:i + 16], b))
        out += c
        prev = c
    return out


def radius_seeds():
    auth = bytes(range(16))
    req = rad_pkt(1, 7, auth, rad_attr(1, b"alice") + rad_attr(2, rad_pw(b"s3cret-password!x", auth)) + rad_attr(4, bytes([10, 0, 0, 1])) + rad_attr(5, struct.pack(">I", 3)))
    acc = rad_sign_reply(2, 7, rad_attr(18, b"Welcome, ") + rad_attr(6, struct.pack(">I", 2)) + rad_attr(18, b"alice"))
    chal = rad_sign_reply(11, 7, rad_attr(24, b"state-1") + rad_attr(18, b"Enter token"), with_ma=True)
    rej = rad_sign_reply(3, 7, rad_attr(18, b"denied"), with_ma=True)
    # Status-Server needs a Message-Authenticator (random authenticator is used as is)
    ss_attrs = rad_attr(80, b"\0" * 16)
    ss = struct.pack(">BBH", 12, 9, 20 + len(ss_attrs)) + auth + ss_attrs
    mac = hmac.new(SECRET, ss, hashlib.md5).digest()
    ss = ss[:22] + mac
    acct = rad_attr(40, struct.pack(">I", 1)) + rad_attr(44, b"sess-01")
    h = struct.pack(">BBH", 4, 3, 20 + len(acct))
    acct_req = h + hashlib.md5(h + b"\0" * 16 + acct + SECRET).digest() + acct
    eap = rad_sign_reply(11, 7, rad_attr(79, b"\x01\x02\x00\x05\x01"), with_ma=True)
    vsa = rad_sign_reply(2, 7, rad_attr(26, struct.pack(">I", 9) + b"\x01\x06cisco") + rad_attr(241, b"\x01ab") + rad_attr(245, b"\x01\x80xyz"))
    pk = {"access_request": req, "access_accept": acc, "access_challenge_ma": chal, "access_reject_ma": rej,
          "status_server": ss, "acct_request": acct_req, "challenge_eap": eap, "accept_vsa_ext": vsa,
          "hdr_only": rad_sign_reply(3, 1, b""), "trailing": acc + b"\0\0\0"}
    for i, (k, v) in enumerate(sorted(pk.items())):
        for e in range(0, 8):
            for a in sorted(set([0, 1, 4, (i + e) & 0xf])):
                put("radius", "%s-e%d-a%x" % (k, e, a), e | (a << 4), v)
    # Access-Requests whose User-Password value has every interesting length (radius_pkt_chk accepts 16..128, the
    # un-hiding works on whole 16-octet blocks): last attribute and followed by another one, for the verify entry
    for n in (16, 17, 18, 24, 31, 32, 33, 47, 48, 49, 100, 127, 128):
        val = bytes((0x40 + 7 * j) & 0xff for j in range(n))
        for tail in (b"", rad_attr(4, bytes([10, 0, 0, 1]))):
            v = rad_pkt(1, 7, auth, rad_attr(1, b"bob") + rad_attr(2, val) + tail)
            for a in (0, 2, 8):
                put("radius", "access_request_pwlen%d-%s-e4-a%x" % (n, "last" if not tail else "mid", a), 4 | (a << 4), v)


# ------------------------------------------------------------------ DHCPv4
def dhcp_seeds():
    def hdr(op=1, htype=1, hlen=6):
        return struct.pack(">BBBBIHH4s4s4s4s16s64s128s", op, htype, hlen, 0, 0x3903F326, 0, 0x8000, b"\0" * 4, b"\0" * 4, b"\0" * 4, b"\0" * 4,
                           bytes([0, 0x0b, 0x82, 1, 0xfc, 0x42]), b"", b"") + bytes([0x63, 0x82, 0x53, 0x63])
    disc = hdr() + bytes([53, 1, 1, 61, 7, 1, 0, 0x0b, 0x82, 1, 0xfc, 0x42, 50, 4, 0, 0, 0, 0, 55, 4, 1, 3, 6, 42, 255])
    offer = hdr(2) + bytes([53, 1, 2, 1, 4, 255, 255, 255, 0, 58, 4, 0, 0, 7, 8, 59, 4, 0, 0, 12, 78, 51, 4, 0, 0, 14, 16, 54, 4, 192, 168, 0, 1, 255]) + b"\0" * 26
    relay = hdr() + bytes([53, 1, 3, 82, 12, 1, 4, 0, 1, 0, 2, 2, 4, 0xde, 0xad, 0xbe, 0xef, 43, 5, 1, 3, 1, 2, 3, 0, 0, 255])
    put("dhcp4", "discover", 0x00, disc)
    put("dhcp4", "offer", 0x10, offer)
    put("dhcp4", "relay82", 0x20, relay)
    put("dhcp4", "hdr_only", 0x30, hdr(2, 38, 16))
    put("dhcp4", "short", 0x00, hdr()[:100])
    put("dhcp4", "trunc_opt", 0x01, hdr() + bytes([53, 1, 1, 61, 200, 1, 2]))
    put("dhcp4", "noend", 0x01, hdr() + bytes([53, 1, 5, 12, 4]) + b"host")


# ------------------------------------------------------------------ HTTP
def http_seeds():
    req = (b"GET /index.html?a=1&b=two&&c=%7e+x HTTP/1.1\r\nHost: example.com\r\nUser-Agent: t\r\n"
           b"X-Folded: one\r\n two\r\n\tthree\r\nAccept: */*\r\nConnection: close")
    post = b"POST http://example.com:8080//api//v1/ HTTP/1.0\r\nHost: example.com:8080\r\nContent-Length: 5\r\nContent-Type: text/plain"
    msearch = b"M-SEARCH * HTTP/1.1\r\nHOST: 239.255.255.250:1900\r\nMAN: \"ssdp:discover\"\r\nMX: 3\r\nST: ssdp:all"
    conn = b"CONNECT example.com:443 HTTP/1.1\r\nHost: example.com:443"
    resp = b"HTTP/1.1 206 Partial Content\r\nContent-Length: 10\r\nTransfer-Encoding: chunked\r\nServer: x"
    for i, (k, v) in enumerate([("get", req), ("post", post), ("msearch", msearch), ("connect", conn)]):
        put("http", "reqline-" + k, 0x00 | (i << 4), v)
        put("http", "server-" + k, 0x02 | (i << 4), v + b"\r\n\r\nhello")
        for a in range(0, 6):
            put("http", "hdrget-%s-%d" % (k, a), 0x03 | (a << 4), v)
            put("http", "hdrdel-%s-%d" % (k, a), 0x04 | (a << 4), v)
        put("http", "hdrsdel-" + k, 0x05 | (i << 4), v)
    put("http", "respline", 0x01, resp)
    put("http", "respline-hdrget", 0x13, resp)
    for a, qs in enumerate([b"a=1&b=two&&c=%7e+x", b"&&name=value&name=2&x", b"b=&b=&a", b"a=b=c&d", b"sid=1234567890abcdef&name=%D0%B0"]):
        put("http", "query-get-%d" % a, 0x06 | (a << 4), qs)
        put("http", "query-del-%d" % a, 0x07 | (a << 4), qs)
    put("http", "chunked-2", 0x08, b"4\r\nWiki\r\n5\r\npedia\r\n0\r\n\r\n")
    put("http", "chunked-1", 0x18, b"a\r\n0123456789\r\n0\r\n\r\n")
    put("http", "chunked-ext", 0x28, b"5;x=y\r\nhello\r\n0\r\n")
    put("http", "chunked-nocrlf", 0x38, b"0")
    put("http", "urldec", 0x09, b"/a%20b/%7Euser/x+y%2f%41")
    put("http", "urldec-small", 0x29, b"%41%42%43%44")
    put("http", "urldec-inplace", 0x0a, b"q=%D0%BF%D1%80+x")
    put("http", "skip-1", 0x0b, b" \t value \t ")
    put("http", "skip-2", 0x1b, b"\r\n x")
    put("http", "wsp2sp", 0x0c, b"a: b\r\n c\r\n\td\r\ne: f\r\n")
    put("http", "ht2sp", 0x1c, b"a\tb\t\tc")
    put("http", "method-get", 0x0d, b"GET")
    put("http", "method-unsub", 0x0d, b"UNSUBSCRIBE")
    put("http", "te-chunked", 0x1d, b"Chunked")


# ------------------------------------------------------------------ SDP / SAP
SDP = (b"v=0\r\no=- 3725822 3 IN IP4 192.168.0.10\r\ns=Channel 1\r\ni=test\r\nc=IN IP4 239.255.0.1/64\r\n"
       b"t=0 0\r\na=tool:x\r\nm=video 5004 RTP/AVP 33\r\na=rtpmap:33 MP2T/90000\r\n")


def sdp_seeds():
    for e in range(0, 6):
        put("sdp", "full-e%d" % e, e | 0x00, SDP)
        put("sdp", "full-noeol-e%d" % e, e | 0x10, SDP[:-2])
        put("sdp", "min-e%d" % e, e | 0x20, b"v=0\r\no=a\r\ns=b\r\nt=0 0\r\nc=IN IP4 1.2.3.4\r\nm=audio 1 udp 0")
    put("sdp", "fields", 0x06, b"video 5004 RTP/AVP 33 34 35  x")
    put("sdp", "lf-only", 0x00, SDP.replace(b"\r\n", b"\n"))


def sap_seeds():
    h4 = bytes([0x20, 0]) + struct.pack(">H", 0xBEEF) + bytes([192, 168, 0, 10])
    h6 = bytes([0x30, 0]) + struct.pack(">H", 1) + bytes(range(16))
    put("sap", "v4-mime", 0x00, h4 + b"application/sdp\0" + SDP)
    put("sap", "v4-nomime", 0x10, h4 + SDP)
    put("sap", "v6-mime", 0x00, h6 + b"application/sdp\0" + SDP)
    put("sap", "v4-auth", 0x20, bytes([0x20, 2]) + struct.pack(">H", 7) + bytes([10, 0, 0, 1]) + b"\x01\x02\x03\x04\x05\x06\x07\x08" + b"application/sdp\0" + SDP)
    put("sap", "v4-delete", 0x00, bytes([0x24, 0]) + struct.pack(">H", 0xBEEF) + bytes([192, 168, 0, 10]) + b"application/sdp\0o=- 3725822 3 IN IP4 192.168.0.10\r\n")
    put("sap", "short", 0x00, h4 + b"v=0\r\n")
    put("sap", "v4-exact", 0x10, h4 + SDP[:-2])


# ------------------------------------------------------------------ RTP / MPEG-TS
def ts_pkt(pid, payload=b"", af=None, cc=0, pus=0, size=188, cp=1):
    afe = 1 if af is not None else 0
    b = bytes([0x47, (pus << 6) | ((pid >> 8) & 0x1f), pid & 0xff, (afe << 5) | (cp << 4) | (cc & 0xf)])
    if afe:
        b += bytes([len(af)]) + af
    b += payload
    b += b"\xff" * (188 - len(b))
    return b + b"\0" * (size - 188)


PAT = b"\x00" + b"\x00\xb0\x0d\x00\x01\xc1\x00\x00\x00\x01\xe1\x00" + b"\x2a\xb1\x04\xb2"


def rtp_seeds():
    ts = b"".join(ts_pkt(0x100, b"\x00\x00\x01\xe0" + bytes(range(100)), cc=i) for i in range(2))
    h = struct.pack(">BBHII", 0x80, 33, 1000, 90000, 0x11223344)
    put("rtp", "plain", 0x00, h + ts)
    put("rtp", "csrc", 0x00, struct.pack(">BBHII", 0x82, 33, 1001, 90000, 1) + b"\0\0\0\1\0\0\0\2" + b"payload")
    put("rtp", "ext", 0x00, struct.pack(">BBHII", 0x90, 96, 1002, 1, 1) + struct.pack(">HH", 0xbede, 2) + b"\0" * 8 + b"payload")
    put("rtp", "pad", 0x00, struct.pack(">BBHII", 0xa0, 96, 1003, 1, 1) + b"data" + b"\0\0\0\4")
    put("rtp", "ext-trunc", 0x00, struct.pack(">BBHII", 0x90, 96, 1002, 1, 1) + struct.pack(">H", 0xbede))
    put("rtp", "v1", 0x00, struct.pack(">BBHII", 0x40, 0, 1, 1, 1))
    put("rtp", "seq", 0x01, b"".join(struct.pack(">BBHII", 0x80, 33, 1000 + i, 0, 1) for i in range(8)))


def mpeg2ts_seeds():
    for idx, size in enumerate((188, 192, 204, 208)):
        pk = [ts_pkt(0, PAT, pus=1, size=size), ts_pkt(0x100, b"\x00\x00\x01\xe0data", af=b"\x10" + b"\0" * 6, cc=1, pus=1, size=size),
              ts_pkt(0x1fff, size=size), ts_pkt(0x11, b"\x00\x42\xf0\x10", pus=1, size=size), ts_pkt(0x12, b"\x00\x4e\xf0\x10", pus=1, size=size),
              ts_pkt(1, b"\x00\x01\xb0\x05", pus=1, size=size), ts_pkt(0x101, af=b"\x00" + b"\xff" * 182, cp=0, size=size)]
        stream = b"".join(pk)
        for e in range(0, 4):
            put("mpeg2ts", "stream%d-e%d" % (size, e), e | (idx << 4), stream)
        put("mpeg2ts", "garbage-then-%d" % size, 0x02 | (idx << 4), b"\x01\x02\x47\x03" + stream)
    put("mpeg2ts", "one", 0x00, ts_pkt(0, PAT, pus=1))
    put("mpeg2ts", "af-full-pat", 0x00, ts_pkt(0, af=b"\x00" + b"\xff" * 181, pus=1))
    put("mpeg2ts", "af-only-pat", 0x00, ts_pkt(0, af=b"\x00" + b"\xff" * 182, cp=0))
    put("mpeg2ts", "af-only-pat-loop", 0x02, ts_pkt(0x100, b"x") + ts_pkt(0, af=b"\x00" + b"\xff" * 182, cp=0))
    put("mpeg2ts", "af-182-tid0", 0x00, ts_pkt(0, b"\x00", af=b"\x00" + b"\xff" * 180, pus=1))


if __name__ == "__main__":
    dns_seeds()
    radius_seeds()
    dhcp_seeds()
    http_seeds()
    sdp_seeds()
    sap_seeds()
    rtp_seeds()
    mpeg2ts_seeds()
    n = sum(len(fs) for _, _, fs in os.walk(ROOT))
    print("wrote %d seed files under %s" % (n, ROOT))
