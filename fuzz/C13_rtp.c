/* C13_rtp.c -- libFuzzer target: RTP header parser of include/proto/rtp.h.
 *
 * data[0] = selector, data[1..] = the datagram (exact-size allocation).
 * rtp_payload_get(buf, size, &start, &end) is the only packet parser; entry 1 additionally feeds the sequence
 * numbers of consecutive 12-octet headers to rtp_src_info_seq_init/update (state machine on attacker-chosen
 * values, no pointers).
 * Oracle: ASan/UBSan + RFC 3550 section 5.1 reference arithmetic: start/end offsets must agree with the
 * reference and start + end <= size.
 */
#include "C13_common.h"
#include <arpa/inet.h>
#include "proto/rtp.h"

int
LLVMFuzzerTestOneInput(const uint8_t *data, size_t size) {
	uint8_t sel, *m;
	size_t n, s = C13_SENT, e = C13_SENT, rs, re, i, upd;
	int rc, exp, r;
	rtp_src_info_t info;

	if (1 > size)
		return (0);
	fz_total();
	sel = data[0];
	n = (size - 1);
	m = fz_dup(data + 1, n);

	/* reference */
	exp = 0;
	rs = re = 0;
	if (n < 12 || 2 != (m[0] >> 6)) {
		exp = EINVAL;
	} else {
		rs = (12 + 4 * (size_t)(m[0] & 0x0f));
		if (0 != (m[0] & 0x10)) { /* extension header: 16 bit profile data, 16 bit length in 32 bit words */
			if (rs + 4 > n)
				exp = EINVAL;
			else
				rs += (4 + 4 * (((size_t)m[rs + 2] << 8) | m[rs + 3]));
		}
		if (0 == exp && 0 != (m[0] & 0x20))
			re = m[n - 1];
		if (0 == exp && rs + re > n)
			exp = EINVAL;
	}
	rc = rtp_payload_get(m, n, &s, &e);
	fz_deep();
	FZ_ASSERT(rc == exp, "rtp_payload_get: verdict differs from the reference");
	if (0 == rc) {
		fz_label("rtp_ok");
		FZ_ASSERT(s == rs && e == re, "rtp_payload_get: offsets differ from the reference");
		FZ_ASSERT(s >= 12 && s + e <= n, "rtp_payload_get: payload outside the datagram");
		if (0 != (m[0] & 0x10))
			fz_label("rtp_ext");
		if (0 != (m[0] & 0x20))
			fz_label("rtp_pad");
		if (0 != (m[0] & 0x0f))
			fz_label("rtp_csrc");
	} else {
		fz_label("rtp_rejected");
		FZ_ASSERT(C13_SENT == s && C13_SENT == e, "rtp_payload_get: outputs written on error");
	}
	if (1 == C13_ENTRY(sel) && n >= 24) {
		fz_label("e:seq");
		memset(&info, 0, sizeof(info));
		rtp_src_info_seq_init(&info, (uint16_t)((m[2] << 8) | m[3]));
		info.probation = (C13_AUX(sel) & 3);
		for (i = 12, upd = 0; i + 12 <= n && upd < 64; i += 12, upd ++) {
			r = rtp_src_info_seq_update(&info, (uint16_t)((m[i + 2] << 8) | m[i + 3]));
			FZ_ASSERT(0 == r || 1 == r, "rtp_src_info_seq_update: return value");
			FZ_ASSERT(info.received <= upd + 1, "rtp_src_info_seq_update: more packets received than updates");
		}
	}
	fz_free(m, n);
	return (0);
}
