/* C12 / bencode: bt_en_decode, bt_dict_find, bt_en_free (src/utils/bt_encode.c).
 * input: [flags][key len] key... payload...   (flags bit 7: payload is a generator program, see gen_elem)
 * Oracle: bounds (ASan, exact-size block) + on rc 0: consumed offset <= buf_size, every node's
 * raw span and every string value inside the buffer, val_count consistent with the arrays,
 * bt_dict_find returns a value node of the tree / index < val_count, node count bounded by the
 * input length (termination), everything freed (LeakSanitizer is off; frees are exercised under ASan).
 */
#include <sys/param.h>
#include <sys/types.h>
#include <inttypes.h>
#include <string.h>
#include <errno.h>
#include "utils/bt_encode.h"
#include "C12_common.h"

static uint8_t *g_buf;
static size_t g_n, g_nodes, g_maxdepth;

/* ---- known-finding classifiers -------------------------------------------------------------
 * A memoised walk over the token structure (which byte starts an element, where it ends), used
 * ONLY to recognise two input classes by construction; it is not an oracle for the decoder:
 *  m_at_end   : inside l.../d... an element ends exactly at the end of the buffer; the decoder then
 *               looks at the next byte ("is it 'e'?") => 1 byte read past the buffer.
 *  m_key_nstr : a dictionary key position holds an int/list/dict; the decoder drops the key and
 *               returns SUCCESS for the dictionary (first key: raw_size = 1 - 2 = SIZE_MAX), so the
 *               work spent on the key is repeated by the enclosing list => exponential time.
 * Element boundaries follow the documented grammar: <digits>:<bytes>, i...e, l...e, d...e. */
#define M_MAX 4096
static uint8_t m_type[M_MAX + 2];	/* 0 = not yet, 1 error, 2 str, 3 int, 4 list, 5 dict */
static size_t m_off[M_MAX + 2];
static int m_at_end, m_key_nstr;

static int
model(const uint8_t *b, size_t n, size_t p) {
	size_t q, c, len;
	int t;

	if (p >= n)
		return (1);
	if (0 != m_type[p])
		return (m_type[p]);
	t = 1;
	if ('0' <= b[p] && '9' >= b[p]) {
		for (c = p + 1; c < n && ':' != b[c]; c ++)
			;
		if (c < n) {
			for (q = p, len = 0; q < c; q ++)
				if ('0' <= b[q] && '9' >= b[q])
					len = len * 10 + (size_t)(b[q] - '0'); /* < 20 digits here: no wrap */
			if (len < n && c + 1 + len < n) {
				t = 2;
				m_off[p] = (c + 1 - p) + len;
			}
		}
	} else if ('i' == b[p]) {
		for (c = p + 1; c < n && 'e' != b[c]; c ++)
			;
		if (c < n) {
			t = 3;
			m_off[p] = (c - p) + 1;
		}
	} else if ('l' == b[p]) {
		for (q = p + 1;;) {
			if (1 == model(b, n, q))
				break;
			q += m_off[q];
			if (q >= n) {
				m_at_end = 1;
				break;
			}
			if ('e' == b[q]) {
				t = 4;
				m_off[p] = (q - p) + 1;
				break;
			}
		}
	} else if ('d' == b[p]) {
		for (q = p + 1;;) {
			int k = model(b, n, q);
			if (1 == k)
				break;
			if (2 != k) {
				m_key_nstr = 1;
				t = 5;
				m_off[p] = (q - p) + 1;
				break;
			}
			q += m_off[q];
			if (1 == model(b, n, q))
				break;
			q += m_off[q];
			if (q >= n) {
				m_at_end = 1;
				break;
			}
			if ('e' == b[q]) {
				t = 5;
				m_off[p] = (q - p) + 1;
				break;
			}
		}
	}
	m_type[p] = (uint8_t)t;
	return (t);
}

static void
walk(bt_en_node_p nd, int depth) {
	size_t i;

	FZ_ASSERT(NULL != nd, "bt: NULL node inside a decoded tree");
	g_nodes ++;
	FZ_ASSERT(g_nodes <= g_n + 1, "bt: more nodes than input bytes");
	if ((size_t)depth > g_maxdepth)
		g_maxdepth = (size_t)depth;
	switch (nd->type) {
	case BT_EN_TYPE_STR:
		FZ_ASSERT(nd->val.s == nd->raw && 1 == nd->val_count, "bt str: val.s/raw/val_count");
		FZ_ASSERT(FZ_INSIDE(nd->raw, nd->raw_size, g_buf, g_n), "bt str: bytes outside the buffer");
		(void)c12_touch(nd->raw, nd->raw_size);
		break;
	case BT_EN_TYPE_NUM:
		FZ_ASSERT(FZ_INSIDE(nd->raw, nd->raw_size, g_buf, g_n) && 1 == nd->val_count, "bt int: raw outside the buffer");
		break;
	case BT_EN_TYPE_LIST:
		FZ_ASSERT(FZ_INSIDE(nd->raw, nd->raw_size, g_buf, g_n), "bt list: raw outside the buffer");
		FZ_ASSERT(0 != nd->val_count && NULL != nd->val.l, "bt list: empty");
		for (i = 0; i < nd->val_count; i ++)
			walk(nd->val.l[i], depth + 1);
		break;
	case BT_EN_TYPE_DICT:
		FZ_ASSERT(FZ_INSIDE(nd->raw, nd->raw_size, g_buf, g_n), "bt dict: raw outside the buffer");
		FZ_ASSERT(0 == nd->val_count || NULL != nd->val.d, "bt dict: NULL array");
		for (i = 0; i < nd->val_count; i ++) {
			FZ_ASSERT(NULL != nd->val.d[i].key && BT_EN_TYPE_STR == nd->val.d[i].key->type, "bt dict: key is not a string");
			walk(nd->val.d[i].key, depth + 1);
			walk(nd->val.d[i].val, depth + 1);
		}
		break;
	default:
		FZ_ASSERT(0, "bt: unknown node type");
	}
}


/* ---- generator mode (flags bit 7): the payload is a build program for a well-formed document, so
 * that deep valid trees (and their truncations) are reached without the fuzzer having to learn the
 * length prefixes. Bits 4..5 of flags cut 0..3 bytes off the end, bit 6 appends one stray byte. */
#define GEN_MAX 1024
static void
gen_emit(uint8_t *out, size_t *o, const void *p, size_t n) {
	if ((*o) + n > GEN_MAX)
		n = GEN_MAX - (*o);
	memcpy(out + (*o), p, n);
	(*o) += n;
}
static void
gen_str(c12_in_t *in, uint8_t *out, size_t *o) {
	char hdr[16];
	size_t len = (size_t)(c12_u8(in) % 12), got, i;
	const uint8_t *p = c12_take(in, len, &got);

	gen_emit(out, o, hdr, (size_t)snprintf(hdr, sizeof(hdr), "%zu:", len));
	gen_emit(out, o, p, got);
	for (i = got; i < len; i ++)
		gen_emit(out, o, "x", 1);
}
static void
gen_elem(c12_in_t *in, uint8_t *out, size_t *o, int depth) {
	char num[24];
	uint8_t b = c12_u8(in);
	size_t k, i;

	if (0 == in->n || 5 <= depth)
		b &= 3;
	switch (b % 8) {
	case 0: case 1: case 2:
		gen_str(in, out, o);
		break;
	case 3:
		gen_emit(out, o, num, (size_t)snprintf(num, sizeof(num), "i%de", (int)(int16_t)c12_u16(in)));
		break;
	case 4: case 5:
		gen_emit(out, o, "l", 1);
		for (i = 0, k = 1 + (size_t)(c12_u8(in) % 4); i < k; i ++)
			gen_elem(in, out, o, depth + 1);
		gen_emit(out, o, "e", 1);
		break;
	default:
		gen_emit(out, o, "d", 1);
		for (i = 0, k = 1 + (size_t)(c12_u8(in) % 4); i < k; i ++) {
			gen_str(in, out, o);
			gen_elem(in, out, o, depth + 1);
		}
		gen_emit(out, o, "e", 1);
		break;
	}
}

int
LLVMFuzzerTestOneInput(const uint8_t *data, size_t size) {
	c12_in_t in = { data, size };
	uint8_t flags, *key;
	const uint8_t *ksrc;
	size_t kn, n, off = C12_SENT, i, digits, cur;
	bt_en_node_p root = NULL, hit;
	int rc;

	fz_total();
	flags = c12_u8(&in);
	ksrc = c12_take(&in, (size_t)(c12_u8(&in) % 9), &kn);
	if (flags & 0x80) {
		static uint8_t gdoc[GEN_MAX + 8];
		size_t o = 0, cut = (size_t)((flags >> 4) & 3);

		gen_elem(&in, gdoc, &o, 0);
		if (flags & 0x40)
			gdoc[o ++] = (uint8_t)'X';
		o -= (cut < o ? cut : o);
		in.p = gdoc;
		in.n = o;
		fz_label("bt:generated document");
	}
	n = in.n;
	/* known-finding classifier: >= 20 decimal digits with no ':' between them. Only such a string
	 * length can reach 2^64 - 2^48 so that "raw_size + ptm" wraps around the address space. */
	for (i = 0, digits = 0; i < n; i ++) {
		if (':' == in.p[i])
			digits = 0;
		else if ('0' <= in.p[i] && '9' >= in.p[i])
			digits ++;
		if (20 <= digits) {
			fz_label("bt:>=20 digits in a length field");
			if (fz_known("bt_str_len_wrap")) {
				fz_label("excl:bt_str_len_wrap");
				return (0);
			}
			break;
		}
	}
	if (n <= M_MAX && 20 > digits) {
		memset(m_type, 0, n + 1);
		m_at_end = 0;
		m_key_nstr = 0;
		(void)model(in.p, n, 0);
		if (m_key_nstr) {
			fz_label("bt:dictionary key is not a string");
			if (fz_known("bt_dict_key_not_str")) {
				fz_label("excl:bt_dict_key_not_str");
				return (0);
			}
		}
		if (m_at_end) {
			fz_label("bt:element ends the buffer inside a container");
			if (fz_known("bt_list_end_overread")) {
				fz_label("excl:bt_list_end_overread");
				return (0);
			}
		}
	}
	g_buf = fz_dup(in.p, n);
	g_n = n;
	g_nodes = 0;
	g_maxdepth = 0;
	rc = bt_en_decode(g_buf, n, &root, ((flags & 1) ? NULL : &off));
	if (0 == rc) {
		FZ_ASSERT(NULL != root, "bt_en_decode: rc 0 without a node");
		if (0 == (flags & 1))
			FZ_ASSERT(off != C12_SENT && off <= n, "bt_en_decode: consumed offset beyond the buffer");
		walk(root, 0);
		FZ_ASSERT(0 == memcmp(g_buf, in.p, n), "bt_en_decode: modified the input");
		if (2 < g_nodes)
			fz_deep();
		fz_label(g_maxdepth >= 2 ? "bt:ok depth>=2" : "bt:ok depth<2");
		/* dictionary lookups: key from the input, all types / one type, with and without cursor */
		key = fz_dup(ksrc, kn);
		if (BT_EN_TYPE_DICT == root->type) {
			cur = 0;
			for (i = 0; i <= root->val_count + 1; i ++) {
				hit = NULL;
				rc = bt_dict_find(root, ((flags & 2) ? NULL : &cur), key, kn,
				    ((flags & 4) ? BT_EN_TYPE_ALL : (uint8_t)((flags >> 3) & 3)), &hit);
				if (0 != rc)
					break;
				FZ_ASSERT(NULL != hit && cur < root->val_count, "bt_dict_find: hit outside the dictionary");
				FZ_ASSERT((flags & 2) || hit == root->val.d[cur].val, "bt_dict_find: hit is not the value at the cursor");
				fz_label("bt:dict_find hit");
				if (flags & 2)
					break;
				cur ++;
			}
			FZ_ASSERT(i <= root->val_count, "bt_dict_find: cursor iteration does not terminate");
		} else {
			hit = NULL;
			rc = bt_dict_find(root, NULL, key, kn, BT_EN_TYPE_ALL, &hit);
			FZ_ASSERT(EINVAL == rc, "bt_dict_find: non-dictionary must be EINVAL");
		}
		fz_free(key, kn);
		bt_en_free(root);
	} else {
		FZ_ASSERT(NULL == root, "bt_en_decode: error with a node returned");
		FZ_ASSERT(EINVAL == rc || EBADMSG == rc || ENOMEM == rc, "bt_en_decode: unexpected rc");
		fz_label(EBADMSG == rc ? "bt:EBADMSG" : "bt:other error");
	}
	fz_free(g_buf, n);
	return (0);
}
