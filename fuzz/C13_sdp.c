/* C13_sdp.c -- libFuzzer target: SDP line scanners of include/proto/sdp.h.
 *
 * data[0] = selector, data[1..] = the SDP text.
 * Two calling conventions:
 *  - "sap_rcvr" (src/proto/sap_rcvr.c): the receiver writes a NUL after the received octets before it calls
 *    sdp_msg_sec_chk / sdp_msg_type_get / sdp_msg_feilds_get; the target allocates len+1 octets with that NUL
 *    (entries 0, 4) -- nothing beyond the NUL may be touched;
 *  - "span": the documented (sdp_msg, sdp_msg_size) contract on an exact-size allocation (entries 1-3, 5, 6).
 * Oracle: ASan/UBSan + reference line walk: returned value inside the message, line index monotone, counts equal
 * to the reference, sec_chk verdict equal to the reference rules listed in its comment.
 */
#include "C13_common.h"
#include "proto/sdp.h"

#define P_SDP_END	"sdp_type_get_read_past_end"	/* sdp_msg_type_get reads val[0]/val[1] after the last CRLF without a bound test */

#define NONE	SIZE_MAX
static const uint8_t stypes[] = { 'v', 'o', 's', 't', 'c', 'm', 'a', 'i' };

static size_t
find_crlf(const uint8_t *h, size_t n, size_t from) {
	size_t i;

	for (i = from; i + 1 < n; i ++) {
		if ('\r' == h[i] && '\n' == h[i + 1])
			return (i);
	}
	return (NONE);
}

/* reference: first line >= start_line that begins with "<type>="; 0 found, 1 not found.
 * avail = octets the caller owns from m (n, or n+1 with the receiver's NUL); *cls: the walk needs an octet >= avail */
static int
ref_get(const uint8_t *m, size_t n, size_t avail, uint8_t type, size_t start_line, size_t *line, size_t *vo, size_t *vl, int *cls) {
	size_t s = 0, i, q;

	if (0 == n)
		return (1);
	for (i = 0; i < start_line; i ++) {
		q = ((s < n) ? find_crlf(m, n, s) : NONE);
		if (NONE == q)
			return (1);
		s = (q + 2);
	}
	for (;; i ++) {
		if (s >= avail) {
			(*cls) = 1;
			return (1);
		}
		if (m[s] == type) {
			if (s + 1 >= avail) {
				(*cls) = 1;
				return (1);
			}
			if ('=' == m[s + 1] && s + 2 <= n) {
				(*line) = i;
				(*vo) = (s + 2);
				q = ((s + 2 < n) ? find_crlf(m, n, s + 2) : NONE);
				(*vl) = (((NONE != q) ? q : n) - (s + 2));
				return (0);
			}
		}
		q = ((s < n) ? find_crlf(m, n, s) : NONE);
		if (NONE == q)
			return (1);
		s = (q + 2);
	}
}

static size_t
ref_count(const uint8_t *m, size_t n, size_t avail, uint8_t type, int *cls) {
	size_t line = 0, cnt = 0, vo, vl;
	C13_STEPS_DECL(st, n);

	while (0 == ref_get(m, n, avail, type, line, &line, &vo, &vl, cls)) {
		C13_STEP(st, "harness: reference count");
		line ++;
		cnt ++;
	}
	return (cnt);
}

/* the rules listed in sdp_msg_sec_chk's comment */
static int
ref_sec_chk(const uint8_t *m, size_t n, size_t avail, int *cls) {
	size_t i;

	if (16 > n)
		return (1);
	if (0 != memcmp(m, "v=0\r\n", 5))
		return (2);
	for (i = 0; i < n; i ++) {
		if (m[i] > 31 || '\t' == m[i])
			continue;
		if ('\r' != m[i] || (i + 1 < n && '\n' != m[i + 1]))
			return (3);
		i ++;
		if (i + 2 >= n)
			continue;
		if ('a' > m[i + 1] || 'z' < m[i + 1])
			return (3);
		if ('=' != m[i + 2])
			return (4);
		i += 2;
	}
	if (1 != ref_count(m, n, avail, 'v', cls) || 0 != (*cls))
		return (5);
	if (1 != ref_count(m, n, avail, 'o', cls) || 0 != (*cls))
		return (6);
	if (1 != ref_count(m, n, avail, 's', cls) || 0 != (*cls))
		return (7);
	if (0 == ref_count(m, n, avail, 't', cls) || 0 != (*cls))
		return (8);
	if (0 == ref_count(m, n, avail, 'c', cls) || 0 != (*cls))
		return (9);
	if (0 == ref_count(m, n, avail, 'm', cls) || 0 != (*cls))
		return (9);
	return (0);
}

static void
chk_feilds(uint8_t *b, size_t n, size_t max) {
	uint8_t *f[16];
	size_t fs[16], cnt, i, cur = 0, rcnt = 0;
	const uint8_t *sp;

	if (max > 16)
		max = 16;
	for (i = 0; i < 16; i ++) {
		f[i] = C13_PSENT;
		fs[i] = C13_SENT;
	}
	cnt = sdp_msg_feilds_get(b, n, max, f, fs);
	fz_deep();
	FZ_ASSERT(cnt <= max, "sdp_msg_feilds_get: more fields than requested");
	while (rcnt < max && cur < n) { /* reference split on SP */
		sp = memchr(b + cur, ' ', n - cur);
		FZ_ASSERT(rcnt < cnt && f[rcnt] == b + cur && fs[rcnt] == ((NULL != sp) ? (size_t)(sp - b) : n) - cur,
		    "sdp_msg_feilds_get: field differs from the reference split / outside the buffer");
		cur = (((NULL != sp) ? (size_t)(sp - b) : n) + 1);
		rcnt ++;
	}
	FZ_ASSERT(cnt == rcnt, "sdp_msg_feilds_get: field count differs from the reference split");
	for (i = cnt; i < 16; i ++)
		FZ_ASSERT(C13_PSENT == f[i] && C13_SENT == fs[i], "sdp_msg_feilds_get wrote past the returned count");
	if (cnt > 3)
		fz_label("fields>3");
}

int
LLVMFuzzerTestOneInput(const uint8_t *data, size_t size) {
	uint8_t sel, *m, type, *v;
	size_t n, avail, alloc, line, rline = 0, vs, vo = 0, vl = 0, cnt, rcnt, i;
	unsigned aux, e;
	int rc, rrc, cls = 0, sentinel;
	C13_STEPS_DECL(st, size);

	if (1 > size)
		return (0);
	fz_total();
	sel = data[0];
	aux = C13_AUX(sel);
	e = (C13_ENTRY(sel) % 7);
	n = (size - 1);
	sentinel = (0 == e || 4 == e);
	if (sentinel) { /* sap_rcvr.c: buf[transfered_size] = 0 */
		alloc = (n + 1);
		m = fz_out(alloc, 0);
		memcpy(m, data + 1, n);
	} else {
		alloc = n;
		m = fz_dup(data + 1, n);
	}
	avail = alloc;
	type = stypes[aux & 7];

	switch (e) {
	case 0: /* the receiver's sequence */
	case 1: /* the same on the bare span */
		fz_label(sentinel ? "e:rcvr" : "e:sec_chk_span");
		rrc = ref_sec_chk(m, n, avail, &cls);
		if (0 != C13_CLASS(cls, P_SDP_END))
			break;
		rc = sdp_msg_sec_chk(m, n);
		fz_deep();
		if (0 != cls)
			break; /* not reported by the sanitizer: nothing to compare */
		FZ_ASSERT(rc == rrc, "sdp_msg_sec_chk differs from the reference rules");
		if (0 != rc) {
			fz_label("sec_rejected");
			break;
		}
		fz_label("sec_ok");
		for (i = 0; i < 4; i ++) { /* m, o, s, c as in sap_rcvr.c */
			static const uint8_t order[] = { 'm', 'o', 's', 'c' };
			v = C13_PSENT;
			vs = C13_SENT;
			cls = 0;
			rrc = ref_get(m, n, avail, order[i], 0, &rline, &vo, &vl, &cls);
			if (0 != C13_CLASS(cls, P_SDP_END))
				continue;
			rc = sdp_msg_type_get(m, n, order[i], NULL, &v, &vs);
			if (0 != cls)
				continue;
			FZ_ASSERT(0 == rc && 0 == rrc, "sdp_msg_type_get: a type counted by sdp_msg_sec_chk is not found");
			FZ_ASSERT(FZ_INSIDE(v, vs, m, n) && v == m + vo && vs == vl, "sdp_msg_type_get: value differs / outside the message");
			if (0 == (i & 1))
				chk_feilds(v, vs, 8);
		}
		break;
	case 2: /* one lookup on the span */
		fz_label("e:type_get");
		line = (aux >> 3);
		rrc = ref_get(m, n, avail, type, line, &rline, &vo, &vl, &cls);
		if (0 != C13_CLASS(cls, P_SDP_END))
			break;
		v = C13_PSENT;
		vs = C13_SENT;
		rc = sdp_msg_type_get(m, n, type, ((aux & 8) ? &line : NULL), &v, &vs);
		fz_deep();
		if (0 != cls)
			break;
		FZ_ASSERT((0 == rc) == (0 == rrc), "sdp_msg_type_get: verdict differs from the reference walk");
		if (0 == rc) {
			fz_label("type_found");
			FZ_ASSERT(FZ_INSIDE(v, vs, m, n) && v == m + vo && vs == vl, "sdp_msg_type_get: value differs / outside the message");
			if (aux & 8)
				FZ_ASSERT(line == rline, "sdp_msg_type_get: line index differs from the reference walk");
		}
		break;
	case 3: /* iterate all lines of one type (span) */
	case 4: /* iterate (receiver convention) */
		fz_label(sentinel ? "e:iterate_rcvr" : "e:iterate_span");
		line = 0;
		cnt = 0;
		for (;;) {
			C13_STEP(st, "sdp_msg_type_get iteration");
			cls = 0;
			rrc = ref_get(m, n, avail, type, line, &rline, &vo, &vl, &cls);
			if (0 != C13_CLASS(cls, P_SDP_END))
				break;
			v = C13_PSENT;
			vs = C13_SENT;
			i = line;
			rc = sdp_msg_type_get(m, n, type, &line, &v, &vs);
			fz_deep();
			if (0 != cls)
				break;
			FZ_ASSERT((0 == rc) == (0 == rrc), "sdp_msg_type_get: verdict differs from the reference walk");
			if (0 != rc)
				break;
			FZ_ASSERT(line >= i && line == rline, "sdp_msg_type_get: line index not monotone / differs from the reference");
			FZ_ASSERT(FZ_INSIDE(v, vs, m, n) && v == m + vo && vs == vl, "sdp_msg_type_get: value differs / outside the message");
			line ++;
			cnt ++;
		}
		if (0 != cnt)
			fz_label("iterated>0");
		if (0 != cls)
			break;
		/* FALLTHROUGH: the count must agree with the iteration */
	case 5:
		cls = 0;
		rcnt = ref_count(m, n, avail, type, &cls);
		if (0 != C13_CLASS(cls, P_SDP_END))
			break;
		cnt = sdp_msg_type_get_count(m, n, type);
		fz_deep();
		if (0 == cls)
			FZ_ASSERT(cnt == rcnt, "sdp_msg_type_get_count differs from the reference count");
		break;
	case 6:
		fz_label("e:feilds");
		chk_feilds(m, n, (aux ? aux : 8));
		break;
	}
	fz_free(m, alloc);
	return (0);
}
