/* fz.h -- helpers shared by the libFuzzer targets in /verif/fuzz (C and C++).
 *  - exact-size heap copies of inputs / outputs so the first out-of-range byte
 *    lands in an ASan redzone (zero-length => 1-byte allocation, poisoned)
 *  - FZ_ASSERT(): the semantic oracle inside the target (traps => crash- artifact)
 *  - fz_known("pred"): committed known-finding predicates (env VERIF_KNOWN)
 *  - counters dumped at exit to $VERIF_FUZZ_STATS: evaluations that reached the
 *    function's main path ("deep") and label histogram
 */
#ifndef VERIF_FZ_H
#define VERIF_FZ_H
#include <stdint.h>
#include <stddef.h>
#include <stdio.h>
#include <stdlib.h>
#include <string.h>
#include <sanitizer/asan_interface.h>

#ifdef __cplusplus
extern "C" {
#endif

static inline uint8_t *
fz_dup(const uint8_t *src, size_t len) {
	uint8_t *p = (uint8_t *)malloc(len ? len : 1);
	if (len)
		memcpy(p, src, len);
	else
		ASAN_POISON_MEMORY_REGION(p, 1);
	return (p);
}
static inline uint8_t *
fz_out(size_t cap, uint8_t fill) {
	uint8_t *p = (uint8_t *)malloc(cap ? cap : 1);
	if (cap)
		memset(p, fill, cap);
	else
		ASAN_POISON_MEMORY_REGION(p, 1);
	return (p);
}
static inline void
fz_free(void *p, size_t len) {
	if (0 == len)
		ASAN_UNPOISON_MEMORY_REGION(p, 1);
	free(p);
}

#define FZ_MAX_LABELS 64
static struct {
	unsigned long long deep, total, excluded;
	const char *lab[FZ_MAX_LABELS];
	unsigned long long cnt[FZ_MAX_LABELS];
	int nlab, registered;
	const char *known;
} fz_state;

static inline void
fz_dump_stats(void) {
	const char *p = getenv("VERIF_FUZZ_STATS");
	FILE *f;
	int i;
	if (NULL == p || NULL == (f = fopen(p, "w")))
		return;
	fprintf(f, "{\"total\":%llu,\"deep\":%llu,\"excluded\":%llu,\"labels\":{", fz_state.total, fz_state.deep, fz_state.excluded);
	for (i = 0; i < fz_state.nlab; i ++)
		fprintf(f, "%s\"%s\":%llu", i ? "," : "", fz_state.lab[i], fz_state.cnt[i]);
	fprintf(f, "}}\n");
	fclose(f);
}
static inline void
fz_init(void) {
	if (fz_state.registered)
		return;
	fz_state.registered = 1;
	fz_state.known = getenv("VERIF_KNOWN");
	atexit(fz_dump_stats);
}
/* label must be a string literal */
static inline void
fz_label(const char *l) {
	int i;
	for (i = 0; i < fz_state.nlab; i ++) {
		if (fz_state.lab[i] == l || 0 == strcmp(fz_state.lab[i], l)) {
			fz_state.cnt[i] ++;
			return;
		}
	}
	if (fz_state.nlab < FZ_MAX_LABELS) {
		fz_state.lab[fz_state.nlab] = l;
		fz_state.cnt[fz_state.nlab ++] = 1;
	}
}
static inline void fz_total(void) { fz_init(); fz_state.total ++; }
static inline void fz_deep(void) { fz_state.deep ++; }
static inline int
fz_known(const char *pred) {
	const char *k, *e;
	size_t n = strlen(pred);
	fz_init();
	k = fz_state.known;
	while (NULL != k && 0 != *k) {
		e = strchr(k, ',');
		if ((e ? (size_t)(e - k) : strlen(k)) == n && 0 == memcmp(k, pred, n)) {
			fz_state.excluded ++;
			return (1);
		}
		k = e ? e + 1 : NULL;
	}
	return (0);
}

#define FZ_ASSERT(cond, msg)							\
do {										\
	if (!(cond)) {								\
		fprintf(stderr, "FZ_ASSERT failed: %s  [%s:%d] %s\n", msg, __FILE__, __LINE__, #cond); \
		fz_dump_stats();						\
		__builtin_trap();						\
	}									\
} while (0)

/* pointer p (+len) lies inside [base, base+size] */
#define FZ_INSIDE(p, len, base, size)						\
	((const uint8_t *)(p) >= (const uint8_t *)(base) &&			\
	 (size_t)((const uint8_t *)(p) - (const uint8_t *)(base)) <= (size_t)(size) && \
	 (size_t)(len) <= (size_t)(size) - (size_t)((const uint8_t *)(p) - (const uint8_t *)(base)))

#ifdef __cplusplus
}
#endif
#endif
