/* C12 / crc: all CRC-32 variants of math/crc32.h (crc32a, cksum, mpeg2, b, jamcrc, c, d, q) and the
 * table walkers crc32_normal4/8, crc32_reflect4/8.
 * input: [variant][split lo][split hi] payload...
 * Oracle: bounds (ASan, exact-size blocks for the whole message and for both parts) + the value of
 * a bit-at-a-time Rocksoft-model CRC with the parameters quoted in the header comments + split
 * invariance (update over two parts == one shot) + 4-bit and 8-bit table walkers agree.
 */
#include <sys/param.h>
#include <sys/types.h>
#include <inttypes.h>
#include <string.h>
#include <errno.h>
#include "math/crc32.h"
#include "C12_common.h"

static uint32_t
reflect32(uint32_t v) {
	uint32_t r = 0;
	int i;
	for (i = 0; i < 32; i ++)
		if (v & (1u << i))
			r |= (1u << (31 - i));
	return (r);
}
/* Rocksoft model, bit at a time */
static uint32_t
ref_crc(uint32_t poly, uint32_t init, int refl, uint32_t xorout, const uint8_t *p, size_t n) {
	uint32_t crc = init;
	size_t i;
	int k;
	for (i = 0; i < n; i ++) {
		uint8_t b = p[i];
		if (refl) {
			uint8_t r = 0;
			for (k = 0; k < 8; k ++)
				if (b & (1 << k))
					r |= (uint8_t)(1 << (7 - k));
			b = r;
		}
		crc ^= ((uint32_t)b << 24);
		for (k = 0; k < 8; k ++)
			crc = (crc & 0x80000000u) ? ((crc << 1) ^ poly) : (crc << 1);
	}
	if (refl)
		crc = reflect32(crc);
	return (crc ^ xorout);
}

int
LLVMFuzzerTestOneInput(const uint8_t *data, size_t size) {
	c12_in_t in = { data, size };
	uint8_t var, *whole, *p1, *p2;
	size_t n, k;
	uint32_t one = 0, two = 0, ref = 0;

	fz_total();
	var = c12_u8(&in);
	k = c12_u16(&in);
	n = in.n;
	k = (n ? (k % (n + 1)) : 0);
	whole = fz_dup(in.p, n);
	p1 = fz_dup(in.p, k);
	p2 = fz_dup(in.p + k, n - k);
	switch (var % 9) {
	case 0: one = crc32a(whole, n); two = crc32a(p1, k); two = crc32a_update(two, p2, (n - k));
		ref = ref_crc(0x04c11db7, 0xffffffff, 0, 0xffffffff, in.p, n); break;
	case 1: one = crc32cksum(whole, n); two = crc32cksum(p1, k); two = crc32cksum_update(two, p2, (n - k));
		ref = ref_crc(0x04c11db7, 0x00000000, 0, 0xffffffff, in.p, n); break;
	case 2: one = crc32mpeg2(whole, n); two = crc32mpeg2(p1, k); two = crc32mpeg2_update(two, p2, (n - k));
		ref = ref_crc(0x04c11db7, 0xffffffff, 0, 0x00000000, in.p, n); break;
	case 3: one = crc32b(whole, n); two = crc32b(p1, k); two = crc32b_update(two, p2, (n - k));
		ref = ref_crc(0x04c11db7, 0xffffffff, 1, 0xffffffff, in.p, n); break;
	case 4: one = crc32jamcrc(whole, n); two = crc32jamcrc(p1, k); two = crc32jamcrc_update(two, p2, (n - k));
		ref = ref_crc(0x04c11db7, 0xffffffff, 1, 0x00000000, in.p, n); break;
	case 5: one = crc32c(whole, n); two = crc32c(p1, k); two = crc32c_update(two, p2, (n - k));
		ref = ref_crc(0x1edc6f41, 0xffffffff, 1, 0xffffffff, in.p, n); break;
	case 6: one = crc32d(whole, n); two = crc32d(p1, k); two = crc32d_update(two, p2, (n - k));
		ref = ref_crc(0xa833982b, 0xffffffff, 1, 0xffffffff, in.p, n); break;
	case 7: one = crc32q(whole, n); two = crc32q(p1, k); two = crc32q_update(two, p2, (n - k));
		ref = ref_crc(0x814141ab, 0x00000000, 0, 0x00000000, in.p, n); break;
	case 8: /* table walkers directly: 4-bit and 8-bit tables must agree for any length */
		one = crc32_normal4(crc32_tbl256_04c11db7, 0x12345678, whole, n);
		two = crc32_normal8(crc32_tbl256_04c11db7, 0x12345678, whole, n);
		FZ_ASSERT(one == two, "crc32_normal4 != crc32_normal8");
		one = crc32_reflect4(crc32_tbl16_1edc6f41, 0x12345678, whole, n);
		two = crc32_reflect8(crc32_tbl256_1edc6f41, 0x12345678, whole, n);
		FZ_ASSERT(one == two, "crc32_reflect4 != crc32_reflect8 (1edc6f41)");
		one = crc32_reflect4(crc32_tbl16_a833982b, 0x12345678, whole, n);
		two = crc32_reflect8(crc32_tbl256_a833982b, 0x12345678, whole, n);
		FZ_ASSERT(one == two, "crc32_reflect4 != crc32_reflect8 (a833982b)");
		one = crc32_reflect4(crc32_tbl16_edb88320, 0x12345678, whole, n);
		two = crc32_reflect8(crc32_tbl256_edb88320, 0x12345678, whole, n);
		ref = one;
		break;
	}
	FZ_ASSERT(one == two, "crc: update over two parts differs from one shot");
	FZ_ASSERT(one == ref, "crc: value differs from the bit-at-a-time reference");
	if (n >= CRC32_SMALL_TBL_LIMIT)
		fz_label("crc:8-bit table path");
	else
		fz_label("crc:4-bit table path");
	if (0 != k && k != n)
		fz_deep();
	fz_free(p2, n - k);
	fz_free(p1, k);
	fz_free(whole, n);
	return (0);
}
