#!/bin/bash
# usage: seed_demo.sh Cxx "extra src files relative to tree" ; builds demo.c against the patched worktree and against clean /repo, runs both
P=$1; SRCS=$2
D="-DHAVE_ACCEPT4 -DHAVE_EXPLICIT_BZERO -DHAVE_MEMMEM -DHAVE_MEMRCHR -DHAVE_PIPE2 -DHAVE_POSIX_SPAWN_FILE_ACTIONS_ADDCLOSEFROM_NP -DHAVE_PTHREAD_SETNAME_NP -DHAVE_REALLOCARRAY -DHAVE_SOCK_CLOEXEC -DHAVE_SOCK_NONBLOCK -DHAVE_STRNCASECMP -DLINUX -D_GNU_SOURCE -D__USE_GNU=1"
O=/tmp/${SEEDPFX:-seed}-$P-out
for which in patched clean; do
  T=/tmp/${SEEDPFX:-seed}-$P; [ $which = clean ] && T=${CLEANTREE:-/repo}
  files=""; for s in $SRCS; do files="$files $T/$s"; done
  cc -O2 -pthread $D -I$T/include $O/demo.c $files -o $O/demo_$which -w 2>$O/build_$which.log || { echo "$P $which: BUILD FAILED"; head -5 $O/build_$which.log; continue; }
  timeout 120 $O/demo_$which > $O/run_$which.log 2>&1; echo "$P $which: exit=$? $(tail -1 $O/run_$which.log | cut -c1-120)"
done
