/* C shim over /repo/include/crypto/dsa/ecdsa.h for drivers/C03_sig.cpp and
 * drivers/C09_keys.cpp (owner: C03 / C09).  Compiled once per build variant; the
 * variant's -D flags select digit width, coordinate system and multiplication
 * algorithms exactly like tests/ecdsa/main.c does with #defines. */
#include <sys/param.h>
#include <sys/types.h>
#include <stdint.h>
#include <stdlib.h>
#include <string.h>
#include <stdio.h>
#include <errno.h>
#include <inttypes.h>

#ifndef BN_BIT_LEN
#define BN_BIT_LEN 1408
#endif
#ifndef __unused
#define __unused __attribute__((__unused__))
#endif
#include <math/elliptic_curve.h>
/* Harness-side fault injection for the C03 clause "never reports success when an internal
 * computation failed": ecdsa.h calls the two base-point multiplications through these
 * wrappers.  With the fault armed the multiplication reports an error and leaves the result
 * object as the caller initialised it (what an early internal failure does). */
static int es_fault_armed;
static inline int
es_wrap_mult_bp(bn_p d, ec_curve_p curve, ec_point_p res) {
	if (0 != es_fault_armed)
		return (EOVERFLOW);
	return (ec_point_mult_bp(d, curve, res));
}
static inline int
es_wrap_twin_mult_bp(bn_p Gd, ec_point_p b, bn_p bd, ec_curve_p curve, ec_point_p res) {
	if (0 != es_fault_armed)
		return (EOVERFLOW);
	return (ec_point_twin_mult_bp(Gd, b, bd, curve, res));
}
#define ec_point_mult_bp es_wrap_mult_bp
#define ec_point_twin_mult_bp es_wrap_twin_mult_bp
#include <crypto/dsa/ecdsa.h>
#undef ec_point_mult_bp
#undef ec_point_twin_mult_bp
#include "ecdsa_abi.h"

void
es_fault_mult(int on) {
	es_fault_armed = on;
}

#if defined(__SANITIZE_ADDRESS__)
#define ES_ASAN 1
#elif defined(__has_feature)
#if __has_feature(address_sanitizer)
#define ES_ASAN 1
#endif
#endif
#ifdef ES_ASAN
#include <sanitizer/asan_interface.h>
#endif

#ifndef ES_CASE_SCALE_PCT
#define ES_CASE_SCALE_PCT 100
#endif

long
es_info(int what) {
	switch (what) {
	case ES_INFO_W: return (BN_DIGIT_BIT_CNT);
	case ES_INFO_BITLEN: return (BN_BIT_LEN);
	case ES_INFO_PROJ:
#ifdef EC_USE_PROJECTIVE
		return (1);
#else
		return (0);
#endif
	case ES_INFO_TWIN: return (EC_PF_TWIN_MULT_ALGO);
	case ES_INFO_FXP: return (EC_PF_FXP_MULT_ALGO);
	case ES_INFO_FXP_W: return (EC_PF_FXP_MULT_WIN_BITS);
	case ES_INFO_UNK: return (EC_PF_UNKPT_MULT_ALGO);
	case ES_INFO_UNK_W: return (EC_PF_UNKPT_MULT_WIN_BITS);
	case ES_INFO_NOCHK:
#ifdef EC_DISABLE_PUB_KEY_CHK
		return (1);
#else
		return (0);
#endif
	case ES_INFO_ASAN:
#ifdef ES_ASAN
		return (1);
#else
		return (0);
#endif
	case ES_INFO_SCALE_PCT: return (ES_CASE_SCALE_PCT);
	case ES_INFO_CC:
#ifdef BN_CC_MULL_DIV
		return (1);
#else
		return (0);
#endif
	}
	return (-1);
}

/* ------------------------------------------------------------------ curves */
#define ES_NCURVES (sizeof(ec_curve_str) / sizeof(ec_curve_str[0]))
static ec_curve_t *es_curves[64];
static int es_curve_rc[64];
static int es_curve_done[64];

int
es_curve_count(void) {
	return ((int)ES_NCURVES);
}

static int
hexval(char c) {
	if (c >= '0' && c <= '9') return (c - '0');
	if (c >= 'a' && c <= 'f') return (c - 'a' + 10);
	if (c >= 'A' && c <= 'F') return (c - 'A' + 10);
	return (-1);
}
/* right aligned big endian; own parser (no liblcb code) */
static int
hex_to_be(const char *s, size_t len, uint8_t *out) {
	size_t i, o;
	int hi, lo;

	memset(out, 0, ES_MAXB);
	if (NULL == s || 0 != (len & 1) || (len / 2) > ES_MAXB)
		return (-1);
	o = ES_MAXB - (len / 2);
	for (i = 0; i < len; i += 2, o ++) {
		hi = hexval(s[i]);
		lo = hexval(s[i + 1]);
		if (hi < 0 || lo < 0)
			return (-1);
		out[o] = (uint8_t)((hi << 4) | lo);
	}
	return (0);
}

int
es_curve_info(int idx, es_curve_t *out) {
	ec_curve_str_p cs;
	int rc = 0;

	if (idx < 0 || (size_t)idx >= ES_NCURVES || NULL == out)
		return (-1);
	cs = &ec_curve_str[idx];
	memset(out, 0, sizeof(*out));
	snprintf(out->name, sizeof(out->name), "%s", cs->name);
	out->m = (uint32_t)cs->m;
	out->bytes = (uint32_t)((cs->m + 7) / 8);
	out->algo = cs->algo;
	out->h = cs->h;
	out->flags = cs->flags;
	out->num_hex = (uint32_t)cs->num_size;
	rc |= hex_to_be(cs->p, cs->num_size, out->p);
	rc |= hex_to_be(cs->a, cs->num_size, out->a);
	rc |= hex_to_be(cs->b, cs->num_size, out->b);
	rc |= hex_to_be(cs->Gx, cs->num_size, out->gx);
	rc |= hex_to_be(cs->Gy, cs->num_size, out->gy);
	rc |= hex_to_be(cs->n, strlen(cs->n), out->n);
	return (rc);
}

int
es_curve_load(int idx) {
	if (idx < 0 || (size_t)idx >= ES_NCURVES)
		return (-1);
	if (0 == es_curve_done[idx]) {
		es_curve_done[idx] = 1;
		es_curves[idx] = (ec_curve_t *)calloc(1, sizeof(ec_curve_t));
		if (NULL == es_curves[idx]) {
			es_curve_rc[idx] = ENOMEM;
		} else {
			es_curve_rc[idx] = ecdsa_curve_from_str(&ec_curve_str[idx], es_curves[idx]);
		}
	}
	return (es_curve_rc[idx]);
}
static ec_curve_p
curve_get(int idx) {
	if (0 != es_curve_load(idx))
		return (NULL);
	return (es_curves[idx]);
}

/* ------------------------------------------------------------ guarded buffers */
#define G_PAD 32
#define G_FILL 0xC3
typedef struct {
	uint8_t *base, *p;
	size_t n;
	es_out *out; /* NULL for inputs */
	const char *tag;
} gslot_t;
static gslot_t g_slots[24];
static int g_n;
static char g_msg[256];
static int g_bad;

static uint8_t *
g_alloc(size_t n, const char *tag, es_out *out) {
	gslot_t *s;

	if (g_n >= (int)(sizeof(g_slots) / sizeof(g_slots[0])))
		abort();
	s = &g_slots[g_n ++];
	s->n = n;
	s->out = out;
	s->tag = tag;
#ifdef ES_ASAN
	s->base = (uint8_t *)malloc(n ? n : 1);
	s->p = s->base;
	if (0 == n)
		ASAN_POISON_MEMORY_REGION(s->base, 1);
#else
	s->base = (uint8_t *)malloc(n + (2 * G_PAD));
	memset(s->base, G_FILL, n + (2 * G_PAD));
	s->p = s->base + G_PAD;
#endif
	return (s->p);
}
static uint8_t *
g_in(const es_in *in, const char *tag) {
	uint8_t *p;

	if (NULL == in || 0 != in->null)
		return (NULL);
	p = g_alloc(in->n, tag, NULL);
	if (0 != in->n)
		memcpy(p, in->p, in->n);
	return (p);
}
static uint8_t *
g_out(es_out *o, const char *tag) {
	uint8_t *p;

	if (NULL == o || 0 != o->null)
		return (NULL);
	p = g_alloc(o->cap, tag, o);
	if (0 != o->cap)
		memset(p, 0xA5, o->cap);
	return (p);
}
static void
g_begin(void) {
	g_n = 0;
	g_bad = 0;
	g_msg[0] = 0;
}
static void
g_end(void) {
	int i;
	gslot_t *s;

	for (i = 0; i < g_n; i ++) {
		s = &g_slots[i];
#ifndef ES_ASAN
		{
			size_t j;
			for (j = 0; j < G_PAD; j ++) {
				if (G_FILL != s->base[j] || G_FILL != s->base[G_PAD + s->n + j]) {
					if (0 == g_bad)
						snprintf(g_msg, sizeof(g_msg),
						    "write outside buffer '%s' (size %zu) at offset %ld",
						    s->tag, s->n,
						    (G_FILL != s->base[j]) ? ((long)j - G_PAD) : (long)(s->n + j));
					g_bad = 1;
					break;
				}
			}
		}
#endif
		if (NULL != s->out && 0 != s->out->cap)
			memcpy(s->out->p, s->p, s->out->cap);
#ifdef ES_ASAN
		if (0 == s->n)
			ASAN_UNPOISON_MEMORY_REGION(s->base, 1);
#endif
		free(s->base);
	}
	g_n = 0;
}
const char *
es_guard(void) {
	return (g_bad ? g_msg : NULL);
}

/* ---------------------------------------------------------------- helpers */
#define SHIM_ERR(rc) (ES_RC_SHIM + ((rc) < 0 ? -(rc) : (rc)))
static int
num_in(bn_p bn, size_t bits, const es_in *in) {
	int rc;

	rc = bn_init(bn, bits);
	if (0 != rc)
		return (rc);
	if (NULL == in || 0 != in->null || 0 == in->n)
		return (EINVAL);
	return (bn_import_be_bin(bn, in->p, in->n));
}
static int
num_out(bn_p bn, es_out *o) {
	if (NULL == o || 0 != o->null)
		return (0);
	return (bn_export_be_bin(bn, 0, o->p, o->cap, NULL));
}
static int
point_in(ec_point_p Q, size_t bits, const es_in *x, const es_in *y) {
	int rc;

	rc = ec_point_init(Q, bits);
	if (0 != rc)
		return (rc);
	if (NULL != x && 1 == x->n && 0 == x->p[0] && (NULL == y || 0 != y->null)) {
		Q->infinity = 1;
		return (0);
	}
	if (NULL == x || NULL == y || 0 == x->n || 0 == y->n)
		return (EINVAL);
	rc = bn_import_be_bin(&Q->x, x->p, x->n);
	if (0 != rc)
		return (rc);
	return (bn_import_be_bin(&Q->y, y->p, y->n));
}

/* ------------------------------------------------------------------- sign */
int
es_sign(int ci, int mode, const es_in *hash, const es_in *priv, const es_in *rnd,
    es_out *r, es_out *s, size_t *sign_size) {
	ec_curve_p curve = curve_get(ci);
	int rc;

	if (NULL == curve)
		return (SHIM_ERR(1));
	g_begin();
	if (ES_BN == mode) {
		size_t bits = EC_CURVE_CALC_BITS_DBL(curve);
		bn_t h, d, k, br, bs;

		if (0 != (rc = num_in(&h, bits, hash)) || 0 != (rc = num_in(&d, bits, priv)) ||
		    0 != (rc = num_in(&k, bits, rnd)) || 0 != (rc = bn_init(&br, bits)) ||
		    0 != (rc = bn_init(&bs, bits)))
			return (SHIM_ERR(rc));
		rc = ecdsa_sign(curve, &h, &d, &k, &br, &bs);
		if (0 == rc) {
			if (0 != num_out(&br, r) || 0 != num_out(&bs, s))
				return (SHIM_ERR(2));
			if (NULL != sign_size)
				(*sign_size) = r->cap;
		}
		return (rc);
	}
	{
		uint8_t *ph = g_in(hash, "hash"), *pd = g_in(priv, "priv_key"), *pk = g_in(rnd, "rnd");
		uint8_t *pr = g_out(r, "sign_r"), *ps = g_out(s, "sign_s");

		if (ES_LE == mode)
			rc = ecdsa_sign_le(curve, ph, hash->n, pd, priv->n, pk, rnd->n, pr, ps, sign_size);
		else
			rc = ecdsa_sign_be(curve, ph, hash->n, pd, priv->n, pk, rnd->n, pr, ps, sign_size);
	}
	g_end();
	return (rc);
}

/* ----------------------------------------------------------------- verify */
int
es_verify(int ci, int mode, const es_in *hash, const es_in *r, const es_in *s, size_t sign_size,
    const es_in *pkx, const es_in *pky, size_t pk_size) {
	ec_curve_p curve = curve_get(ci);
	int rc;

	if (NULL == curve)
		return (SHIM_ERR(1));
	g_begin();
	if (ES_BN == mode) {
		size_t bits = EC_CURVE_CALC_BITS_DBL(curve);
		bn_t h, br, bs;
		ec_point_t Q;

		if (0 != (rc = num_in(&h, bits, hash)) || 0 != (rc = num_in(&br, bits, r)) ||
		    0 != (rc = num_in(&bs, bits, s)) || 0 != (rc = point_in(&Q, curve->m, pkx, pky)))
			return (SHIM_ERR(rc));
		return (ecdsa_verify(curve, &h, &br, &bs, &Q));
	}
	{
		uint8_t *ph = g_in(hash, "hash"), *pr = g_in(r, "sign_r"), *ps = g_in(s, "sign_s");
		uint8_t *px = g_in(pkx, "pub_key_x"), *py = g_in(pky, "pub_key_y");

		if (ES_LE == mode)
			rc = ecdsa_verify_le(curve, ph, hash->n, pr, ps, sign_size, px, py, pk_size);
		else
			rc = ecdsa_verify_be(curve, ph, hash->n, pr, ps, sign_size, px, py, pk_size);
	}
	g_end();
	return (rc);
}

int
es_verify_priv(int ci, int mode, const es_in *hash, const es_in *r, const es_in *s, size_t sign_size,
    const es_in *priv) {
	ec_curve_p curve = curve_get(ci);
	int rc;

	if (NULL == curve)
		return (SHIM_ERR(1));
	g_begin();
	if (ES_BN == mode) {
		size_t bits = EC_CURVE_CALC_BITS_DBL(curve);
		bn_t h, br, bs, d;

		if (0 != (rc = num_in(&h, bits, hash)) || 0 != (rc = num_in(&br, bits, r)) ||
		    0 != (rc = num_in(&bs, bits, s)) || 0 != (rc = num_in(&d, bits, priv)))
			return (SHIM_ERR(rc));
		return (ecdsa_verify_priv_key(curve, &h, &br, &bs, &d));
	}
	{
		uint8_t *ph = g_in(hash, "hash"), *pr = g_in(r, "sign_r"), *ps = g_in(s, "sign_s");
		uint8_t *pd = g_in(priv, "priv_key");

		if (ES_LE == mode)
			rc = ecdsa_verify_priv_key_le(curve, ph, hash->n, pr, ps, sign_size, pd, priv->n);
		else
			rc = ecdsa_verify_priv_key_be(curve, ph, hash->n, pr, ps, sign_size, pd, priv->n);
	}
	g_end();
	return (rc);
}

/* -------------------------------------------------------- export / import */
int
es_pub_export(int ci, int le, int compress, int inf, const es_in *x, const es_in *y,
    es_out *pkx, es_out *pky, size_t *pk_size) {
	ec_curve_p curve = curve_get(ci);
	ec_point_t Q;
	int rc;

	if (NULL == curve)
		return (SHIM_ERR(1));
	if (0 != (rc = ec_point_init(&Q, EC_CURVE_CALC_BITS_DBL(curve))))
		return (SHIM_ERR(rc));
	if (0 != inf) {
		Q.infinity = 1;
	} else {
		if (0 != (rc = bn_import_be_bin(&Q.x, x->p, x->n)) ||
		    0 != (rc = bn_import_be_bin(&Q.y, y->p, y->n)))
			return (SHIM_ERR(rc));
	}
	g_begin();
	{
		uint8_t *px = g_out(pkx, "pub_key_x"), *py = g_out(pky, "pub_key_y");

		if (0 != le)
			rc = ecdsa_pub_key_export_le(curve, compress, &Q, px, py, pk_size);
		else
			rc = ecdsa_pub_key_export_be(curve, compress, &Q, px, py, pk_size);
	}
	g_end();
	return (rc);
}

static int g_import_reuse;
void es_pub_import_reuse_next(int on) { g_import_reuse = on; }
int
es_pub_import(int ci, int le, const es_in *pkx, const es_in *pky, size_t pk_size,
    int *inf, uint8_t *x_be, uint8_t *y_be, int *xy_ok) {
	ec_curve_p curve = curve_get(ci);
	ec_point_t Q;
	size_t bytes;
	int rc;

	if (NULL == curve)
		return (SHIM_ERR(1));
	bytes = EC_CURVE_CALC_BYTES(curve);
	/* exactly what ecdsa_verify_be() / ecdsa_dh_be() do before importing */
	if (0 != (rc = ec_point_init(&Q, curve->m)))
		return (SHIM_ERR(rc));
	if (g_import_reuse) { /* the object held the neutral element before */
		uint8_t zero = 0;
		g_import_reuse = 0;
		rc = (0 != le) ? ecdsa_pub_key_import_le(curve, &zero, NULL, 1, &Q) : ecdsa_pub_key_import_be(curve, &zero, NULL, 1, &Q);
		if (0 != rc)
			return (SHIM_ERR(rc));
	}
	g_begin();
	{
		uint8_t *px = g_in(pkx, "pub_key_x"), *py = g_in(pky, "pub_key_y");

		if (0 != le)
			rc = ecdsa_pub_key_import_le(curve, px, py, pk_size, &Q);
		else
			rc = ecdsa_pub_key_import_be(curve, px, py, pk_size, &Q);
	}
	g_end();
	(*inf) = 0;
	(*xy_ok) = 0;
	if (0 == rc) {
		(*inf) = (0 != Q.infinity);
		if (0 == Q.infinity) {
			(*xy_ok) = (0 == bn_export_be_bin(&Q.x, 0, x_be, bytes, NULL) &&
			    0 == bn_export_be_bin(&Q.y, 0, y_be, bytes, NULL));
		}
	}
	return (rc);
}

/* --------------------------------------------------- key generation / recovery */
int
es_key_gen(int ci, int mode, const es_in *rnd, int compress, es_out *priv, size_t *priv_size,
    es_out *pkx, es_out *pky, size_t *pk_size) {
	ec_curve_p curve = curve_get(ci);
	int rc;

	if (NULL == curve)
		return (SHIM_ERR(1));
	g_begin();
	if (ES_BN == mode) {
		size_t bits = EC_CURVE_CALC_BITS_DBL(curve);
		bn_t d;
		ec_point_t Q;

		if (0 != (rc = num_in(&d, bits, rnd)) || 0 != (rc = ec_point_init(&Q, bits)))
			return (SHIM_ERR(rc));
		rc = ecdsa_key_gen(curve, &d, &Q);
		if (0 == rc) {
			if (0 != num_out(&d, priv))
				return (SHIM_ERR(2));
			if (0 != Q.infinity) {
				(*pk_size) = 1;
			} else {
				if (0 != num_out(&Q.x, pkx) || 0 != num_out(&Q.y, pky))
					return (SHIM_ERR(3));
				(*pk_size) = pkx->cap;
			}
		}
		return (rc);
	}
	{
		uint8_t *pr = g_in(rnd, "rnd"), *pd = g_out(priv, "priv_key");
		uint8_t *px = g_out(pkx, "pub_key_x"), *py = g_out(pky, "pub_key_y");

		if (ES_LE == mode)
			rc = ecdsa_key_gen_le(curve, pr, rnd->n, compress, pd, priv_size, px, py, pk_size);
		else
			rc = ecdsa_key_gen_be(curve, pr, rnd->n, compress, pd, priv_size, px, py, pk_size);
	}
	g_end();
	return (rc);
}

int
es_recover(int ci, int le, const es_in *priv, int compress, es_out *pkx, es_out *pky, size_t *pk_size) {
	ec_curve_p curve = curve_get(ci);
	int rc;

	if (NULL == curve)
		return (SHIM_ERR(1));
	g_begin();
	{
		uint8_t *pd = g_in(priv, "priv_key");
		uint8_t *px = g_out(pkx, "pub_key_x"), *py = g_out(pky, "pub_key_y");

		if (0 != le)
			rc = ecdsa_recover_pub_key_from_priv_key_le(curve, pd, priv->n, compress, px, py, pk_size);
		else
			rc = ecdsa_recover_pub_key_from_priv_key_be(curve, pd, priv->n, compress, px, py, pk_size);
	}
	g_end();
	return (rc);
}

/* --------------------------------------------------------------------- DH */
int
es_dh(int ci, int mode, int use_cofactor, const es_in *pkx, const es_in *pky, size_t pk_size,
    const es_in *priv, es_out *shared, size_t *shared_size) {
	ec_curve_p curve = curve_get(ci);
	int rc;

	if (NULL == curve)
		return (SHIM_ERR(1));
	g_begin();
	if (ES_BN == mode) {
		size_t bits = EC_CURVE_CALC_BITS_DBL(curve);
		bn_t d, sh;
		ec_point_t Q;

		if (0 != (rc = num_in(&d, bits, priv)) || 0 != (rc = bn_init(&sh, bits)) ||
		    0 != (rc = point_in(&Q, curve->m, pkx, pky)))
			return (SHIM_ERR(rc));
		rc = ecdsa_dh(curve, use_cofactor, &Q, &d, &sh);
		if (0 == rc) {
			if (0 != num_out(&sh, shared))
				return (SHIM_ERR(2));
			if (NULL != shared_size)
				(*shared_size) = shared->cap;
		}
		return (rc);
	}
	{
		uint8_t *px = g_in(pkx, "pub_key_x"), *py = g_in(pky, "pub_key_y");
		uint8_t *pd = g_in(priv, "priv_key"), *ps = g_out(shared, "shared_key");

		if (ES_LE == mode)
			rc = ecdsa_dh_le(curve, use_cofactor, px, py, pk_size, pd, priv->n, ps, shared_size);
		else
			rc = ecdsa_dh_be(curve, use_cofactor, px, py, pk_size, pd, priv->n, ps, shared_size);
	}
	g_end();
	return (rc);
}
