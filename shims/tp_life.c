/* Thread-pool harness: life-cycle history executor for C11. */
#define _GNU_SOURCE
#include <sys/param.h>
#include <sys/types.h>
#include <errno.h>
#include <fcntl.h>
#include <pthread.h>
#include <stdatomic.h>
#include <stdint.h>
#include <stdio.h>
#include <stdlib.h>
#include <string.h>
#include <unistd.h>

#include "threadpool/threadpool.h"
#include "threadpool/threadpool_msg_sys.h"
#include "tp_abi.h"
#include "tp_int.h"

#define CEIL_MS 20000
#define SENTINEL ((tp_p)(uintptr_t)0x5e5e5e5e5e5eull)

static tp_p g_tp;
static const c11_scn *g_scn;
static c11_out *g_out;
static atomic_uint g_cb_total;	/* every user callback (messages, timer, pipe) bumps this */
static atomic_uint g_msgs_done, g_step_done;
static tp_udata_t g_timer_ud, g_pipe_ud;
static int g_pipe[2];

static void hook_start(tpt_p tpt) { tp_log(R_HOOK_START, (uint64_t)(uintptr_t)tpt, tpt_get_num(tpt), 0, 0); }
static void
hook_stop(tpt_p tpt) {
	/* a stop hook that takes a while before it is seen: whoever waits for this thread must really wait for it */
	if (NULL != g_scn && 0 != g_scn->slow_stop && (size_t)(g_scn->slow_stop - 1) == tpt_get_num(tpt))
		usleep(1500);
	tp_log(R_HOOK_STOP, (uint64_t)(uintptr_t)tpt, tpt_get_num(tpt), 0, 0);
}

static void
msg_cb(tpt_p tpt, void *udata) {
	tp_log(R_CB, (uint64_t)(uintptr_t)udata, (uint64_t)(uintptr_t)tpt, 0, 0);
	atomic_fetch_add(&g_cb_total, 1);
	atomic_fetch_add(&g_msgs_done, 1);
}
static void
timer_cb(tp_event_p ev, tp_udata_p ud) {
	(void)ev; (void)ud;
	if (atomic_fetch_add(&g_cb_total, 1) < 100000)
		tp_log(R_EV_CB, 1, 0, 0, 0);
}
static void
pipe_cb(tp_event_p ev, tp_udata_p ud) {
	char b[8];
	(void)ev;
	(void)!read((int)ud->ident, b, sizeof(b));
	atomic_fetch_add(&g_cb_total, 1);
	tp_log(R_EV_CB, 2, 0, 0, 0);
}

/* API wrappers that log call/return */
static int
api_shutdown_wait(int id) {
	int rc;
	tp_log(R_API_CALL, 0, id, 0, 0);
	rc = tp_shutdown_wait(g_tp);
	tp_log(R_API_RET, 0, id, (uint64_t)(int64_t)rc, 0);
	return (rc);
}
static void
api_shutdown(void) {
	tp_log(R_API_CALL, 0, A_SHUTDOWN, 0, 0);
	tp_shutdown(g_tp);
	tp_log(R_API_RET, 0, A_SHUTDOWN, 0, 0);
}
static void *thr_shutdown(void *a) { (void)a; api_shutdown(); return (NULL); }
static void *thr_wait(void *a) { (void)a; api_shutdown_wait(A_SHUTDOWN_WAIT); return (NULL); }
static void *
thr_attach(void *a) {
	int rc;
	(void)a;
	tp_log(R_API_CALL, 0, A_ATTACH_FIRST, 0, 0);
	rc = tp_thread_attach_first(g_tp);
	tp_log(R_API_RET, 0, A_ATTACH_FIRST, (uint64_t)(int64_t)rc, 0);
	/* back from the loop: this is an ordinary thread again (the usual main(): attach, then wait and destroy) */
	if (0 == rc && NULL != tpt_get_current())
		g_out->attached_still_pool_thread = 1;
	if (0 == rc && 4 == g_scn->wait_mode && 4 != g_scn->shutdown_mode)
		api_shutdown_wait(A_WAIT_ATTACHED); /* the main thread joins this thread before it destroys the pool */
	return (NULL);
}
static void
detach_self_cb(tpt_p tpt, void *udata) {
	(void)udata;
	tp_log(R_API_CALL, 0, A_DETACH_SELF, 0, 0);
	tp_log(R_API_RET, 0, A_DETACH_SELF, (uint64_t)(int64_t)tp_thread_dettach(tpt), 0);
}
/* steps executed inside a pool thread */
static void
in_pool_cb(tpt_p tpt, void *udata) {
	int what = (int)(uintptr_t)udata, rc;

	(void)tpt;
	switch (what) {
	case A_SHUTDOWN:
		api_shutdown();
		if (2 == g_scn->wait_mode) /* waiting from inside the pool must be refused, not deadlock */
			api_shutdown_wait(A_WAIT_IN_POOL);
		break;
	case A_WAIT_IN_POOL:
		rc = api_shutdown_wait(A_WAIT_IN_POOL);
		(void)rc;
		break;
	case A_DESTROY_IN_POOL:
		tp_log(R_API_CALL, 0, A_DESTROY_IN_POOL, 0, 0);
		rc = tp_destroy(g_tp);
		tp_log(R_API_RET, 0, A_DESTROY_IN_POOL, (uint64_t)(int64_t)rc, 0);
		break;
	}
	atomic_fetch_add(&g_step_done, 1);
}

static tpt_p
first_running(void) {
	size_t i;
	for (i = 0; i < g_scn->nthreads; i ++) {
		if (tpt_is_running(tp_thread_get(g_tp, i)))
			return (tp_thread_get(g_tp, i));
	}
	return (NULL);
}
/* run a step inside a pool thread; returns 1 if it could not be scheduled (no running thread) */
static int
run_in_pool(int what, int *hang) {
	tpt_p t = first_running();
	uint32_t want = atomic_load(&g_step_done) + 1;

	if (NULL == t || 0 != tpt_msg_send(t, NULL, 0, in_pool_cb, (void *)(uintptr_t)what))
		return (1);
	*hang |= tp_wait_until(&g_step_done, want, CEIL_MS);
	return (0);
}

void
c11_run(const c11_scn *scn, c11_out *out) {
	tp_settings_t s;
	pthread_t th_attach, th_a, th_b;
	int have_attach = 0, rc, i, hang = 0, did_wait = 0;
	uint32_t cb_at_destroy, sent = 0;
	tp_p tp = SENTINEL;

	int saved_fd0 = -1;

	memset(out, 0, sizeof(*out));
	g_scn = scn;
	g_out = out;
	tp_harness_reset(&scn->plans);
	tp_res_get(&out->res_before);
	atomic_store(&g_cb_total, 0);
	atomic_store(&g_msgs_done, 0);
	atomic_store(&g_step_done, 0);
	memset(&g_timer_ud, 0, sizeof(g_timer_ud));
	memset(&g_pipe_ud, 0, sizeof(g_pipe_ud));
	g_pipe[0] = g_pipe[1] = -1;

	tp_settings_def(&s);
	s.flags = ((scn->flags & 1) ? TP_S_F_BIND2CPU : 0) | ((scn->flags & 2) ? TP_S_F_CLOEXEC : 0);
	s.threads_max = scn->nthreads;
	s.tpt_on_start = (0 == scn->hooks_mode || 1 == scn->hooks_mode) ? hook_start : NULL;
	s.tpt_on_stop = (0 == scn->hooks_mode || 2 == scn->hooks_mode) ? hook_stop : NULL;

	tp_harness_arm();
	if (scn->free_fd0) { /* the pool is created while descriptor 0 is free */
		saved_fd0 = dup(0);
		if (saved_fd0 >= 0) {
			close(0);
			out->fd0_was_freed = 1;
		}
	}
	tp_log(R_API_CALL, 0, A_CREATE, 0, 0);
	rc = tp_create(&s, &tp);
	tp_log(R_API_RET, 0, A_CREATE, (uint64_t)(int64_t)rc, 0);
	out->create_rc = rc;
	if (0 != rc) {
		tp_harness_disarm();
		out->tp_ptr_after_failed_create = (uint64_t)(uintptr_t)tp;
		tp_res_get(&out->res);
		tp_res_cleanup();
		if (saved_fd0 >= 0) {
			dup2(saved_fd0, 0);
			close(saved_fd0);
		}
		return;
	}
	g_tp = tp;
	for (i = 0; i < scn->nthreads; i ++)
		out->tpt_ptr[i] = (uint64_t)(uintptr_t)tp_thread_get(tp, (size_t)i);
	out->tpt_ptr[16] = (uint64_t)(uintptr_t)tp_thread_get_pvt(tp);

	tp_log(R_API_CALL, 0, A_THREADS_CREATE, 0, 0);
	rc = tp_threads_create(tp, scn->skip_first);
	tp_log(R_API_RET, 0, A_THREADS_CREATE, (uint64_t)(int64_t)rc, 0);

	if (scn->attach_first && scn->skip_first) {
		if (0 == pthread_create(&th_attach, NULL, thr_attach, NULL)) {
			int w = 0;
			have_attach = 1;
			while (0 == tpt_is_running(tp_thread_get(tp, 0)) && w < CEIL_MS * 10) {
				usleep(100);
				w ++;
			}
		}
	}
	/* in-flight work */
	if (scn->timer && NULL != first_running()) {
		g_timer_ud.cb_func = timer_cb;
		g_timer_ud.ident = (uintptr_t)&g_timer_ud;
		if (0 != tpt_ev_add_args(first_running(), TP_EV_TIMER, 0, TP_FF_T_MSEC, 1, &g_timer_ud))
			g_timer_ud.cb_func = NULL;
	}
	if (scn->pipe_ev && NULL != first_running() && 0 == pipe2(g_pipe, O_NONBLOCK)) {
		g_pipe_ud.cb_func = pipe_cb;
		g_pipe_ud.ident = (uintptr_t)g_pipe[0];
		if (0 != tpt_ev_add_args(first_running(), TP_EV_READ, 0, 0, 0, &g_pipe_ud))
			g_pipe_ud.cb_func = NULL;
		(void)!write(g_pipe[1], "x", 1);
	}
	if (scn->wait_early) {
		rc = api_shutdown_wait(A_WAIT_EARLY);
	}
	if (scn->destroy_in_pool_first)
		run_in_pool(A_DESTROY_IN_POOL, &hang);
	for (i = 0; i < scn->nmsgs; i ++) {
		tpt_p dst = (scn->msg_pvt && (i % 3) == 0) ? tp_thread_get_pvt(tp) : tp_thread_get(tp, (size_t)i % scn->nthreads);
		if (0 == tpt_msg_send(dst, NULL, 0, msg_cb, (void *)(uintptr_t)(i + 1)))
			sent ++;
	}
	if (g_pipe[1] >= 0)
		(void)!write(g_pipe[1], "y", 1);
	(void)sent;

	for (i = 0; i < scn->nthreads; i ++) {
		if (tpt_is_running(tp_thread_get(tp, (size_t)i)))
			out->ran_mask |= (1u << i);
	}
	if (0 != scn->detach_thread) { /* a worker takes itself out of the pool; it is still a created thread that has to be joined */
		size_t k = (size_t)(scn->detach_thread - 1) % scn->nthreads;
		if (!(scn->skip_first && 0 == k) && tpt_is_running(tp_thread_get(tp, k)) &&
		    0 == tpt_msg_send(tp_thread_get(tp, k), NULL, 0, detach_self_cb, NULL)) {
			int w = 0; /* later in-pool steps must not be addressed to a thread that is about to leave */
			while (tpt_is_running(tp_thread_get(tp, k)) && w < CEIL_MS * 10) {
				usleep(100);
				w ++;
			}
		}
	}
	switch (scn->shutdown_mode) {
	case 0:
		api_shutdown();
		break;
	case 1:
		if (0 != run_in_pool(A_SHUTDOWN, &hang))
			api_shutdown();
		break;
	case 2:
		if (0 == pthread_create(&th_a, NULL, thr_shutdown, NULL)) {
			if (0 == pthread_create(&th_b, NULL, thr_shutdown, NULL))
				pthread_join(th_b, NULL);
			pthread_join(th_a, NULL);
		}
		break;
	case 3:
		api_shutdown();
		api_shutdown();
		break;
	default: /* 4: destroy without explicit shutdown */
		break;
	}
	if (4 != scn->shutdown_mode) {
		if (scn->late_calls & 1) {
			tp_log(R_API_CALL, 0, A_TCREATE_LATE, 0, 0);
			rc = tp_threads_create(tp, 0);
			tp_log(R_API_RET, 0, A_TCREATE_LATE, (uint64_t)(int64_t)rc, 0);
		}
		if (scn->late_calls & 2) {
			tp_log(R_API_CALL, 0, A_ATTACH_LATE, 0, 0);
			rc = tp_thread_attach_first(tp);
			tp_log(R_API_RET, 0, A_ATTACH_LATE, (uint64_t)(int64_t)rc, 0);
		}
		switch (scn->wait_mode) {
		case 1:
			api_shutdown_wait(A_SHUTDOWN_WAIT);
			did_wait = 1;
			break;
		case 2: /* the in-pool attempt (EDEADLK) was made by the thread that called tp_shutdown, see in_pool_cb() */
			api_shutdown_wait(A_SHUTDOWN_WAIT);
			did_wait = 1;
			break;
		case 3:
			if (0 == pthread_create(&th_a, NULL, thr_wait, NULL)) {
				if (0 == pthread_create(&th_b, NULL, thr_wait, NULL))
					pthread_join(th_b, NULL);
				pthread_join(th_a, NULL);
			}
			did_wait = 1;
			break;
		case 4: /* the attached thread waits by itself once it is out of the loop (see thr_attach) */
			if (have_attach) {
				pthread_join(th_attach, NULL);
				have_attach = 0;
				did_wait = 1;
			}
			break;
		default:
			break;
		}
	}
	(void)did_wait;
	/* user-owned registrations are removed by their owner before the pool goes away */
	if (NULL != g_timer_ud.cb_func)
		tpt_ev_del_args1(TP_EV_TIMER, &g_timer_ud);
	if (NULL != g_pipe_ud.cb_func)
		tpt_ev_del_args1(TP_EV_READ, &g_pipe_ud);

	tp_log(R_API_CALL, 0, A_DESTROY, 0, 0);
	rc = tp_destroy(tp);
	cb_at_destroy = atomic_load(&g_cb_total);
	out->log_at_destroy_ret = tp_log(R_API_RET, 0, A_DESTROY, (uint64_t)(int64_t)rc, 0);
	tp_harness_disarm();
	tp_res_get(&out->res);
	/* grace: every thread the library created and did not join is joined by the harness now;
	 * whatever they still do is "after destroy returned" */
	out->reaped_after_destroy = tp_reap_unjoined();
	if (have_attach)
		pthread_join(th_attach, NULL);
	out->cb_after_destroy = atomic_load(&g_cb_total) - cb_at_destroy;
	out->hang = hang;
	if (g_pipe[0] >= 0) {
		close(g_pipe[0]);
		close(g_pipe[1]);
	}
	tp_res_cleanup();
	if (saved_fd0 >= 0) {
		dup2(saved_fd0, 0);
		close(saved_fd0);
	}
}
