/* Flat C ABI between drivers/C18_sa.cpp and shims/sa_shim.c (property C18).
 * The driver builds struct sockaddr_* values itself with the system headers
 * and hands them over as SAS_SS_SIZE raw bytes; the shim only forwards to
 * liblcb with guarded output buffers / exact-size input copies. */
#ifndef SA_ABI_H
#define SA_ABI_H
#include <stddef.h>
#include <stdint.h>
#ifdef __cplusplus
extern "C" {
#endif

#define SAS_SS_SIZE	128	/* sizeof(struct sockaddr_storage) */
#define SAS_GUARD	96	/* guard bytes before and after the output buffer */
#define SAS_CAP_MAX	256
#define SAS_UNSET	((size_t)0x5a5a5a5a5a5a5a5aULL)

typedef struct sas_out {
	int	rc;
	size_t	size_ret;	/* SAS_UNSET when the callee stored nothing (or NULL was passed) */
	int	guard_ok;	/* 1 = no byte outside [buf, buf+cap) changed */
	long	bad_off;	/* offset (relative to buf) of the first damaged guard byte */
	char	text[SAS_CAP_MAX]; /* the cap bytes of the caller's buffer after the call */
} sas_out;

long	sas_info(int what);	/* 0: STR_ADDR_LEN, 1: sizeof(sockaddr_storage), 2: sizeof(sun_path) */

/* with_port: 0 = sa_addr_to_str, 1 = sa_addr_port_to_str; cap <= SAS_CAP_MAX */
void	sas_to_str(int with_port, const void *ss, size_t cap, int pass_size_ret, sas_out *o);
/* text is copied into an exact-size heap block (no NUL); ss_out (SAS_SS_SIZE bytes) pre-filled with 0xEE */
int	sas_from_str(int with_port, const char *txt, size_t len, void *ss_out);
int	sas_str_net(const char *txt, size_t len, void *ss_out, uint16_t *preflen_ret);

int	sas_len2mask4(size_t len, uint8_t mask[4]);
int	sas_mask2len4(const uint8_t mask[4]);
int	sas_len2mask6(size_t len, uint8_t mask[16]);
int	sas_mask2len6(const uint8_t mask[16]);
void	sas_trunc_preflen(void *ss, uint16_t preflen);
void	sas_trunc_mask(int af, uint8_t *net, const uint8_t *mask);
int	sas_in_net(int af, const uint8_t *net, const uint8_t *mask, const uint8_t *addr);

int	sas_init(void *ss_out, int af, const void *addr, uint16_t port);
unsigned sas_port_get(const void *ss);
int	sas_is_eq(const void *a, const void *b, int with_port);

#ifdef __cplusplus
}
#endif
#endif
