/* Flat ABI between drivers/C02_ec.cpp (C++) and shims/ec.c (C, includes /repo).
 * Numbers are little-endian byte strings of fixed size ECS_MAXB (zero padded).
 * A curve is either a row of the library's built-in table (name != "") or a
 * synthetic curve given by parameters (hex strings in the table's own format)
 * which the shim feeds to the library's own loader ecdsa_curve_from_str(). */
#ifndef VERIF_EC_ABI_H
#define VERIF_EC_ABI_H
#include <stdint.h>
#include <stddef.h>

#define ECS_MAXB 88	/* bytes per number (curves up to 528 bits + slack) */
#define ECS_HEX 180

typedef struct {
	uint8_t inf;		/* affine: point at infinity flag */
	uint8_t x[ECS_MAXB], y[ECS_MAXB];
	uint8_t z[ECS_MAXB];	/* only for the raw Jacobian entry points */
} ecs_pt;

typedef struct {
	char name[64];		/* table curve name; "" => synthetic */
	char p[ECS_HEX], a[ECS_HEX], b[ECS_HEX], gx[ECS_HEX], gy[ECS_HEX], n[ECS_HEX];
	uint32_t m, t, h, flags, algo;
} ecs_curve;

typedef struct {
	int op;
	int capsel;	/* operand/result point capacity: 0 = curve->m bits, 1 = EC_CURVE_CALC_BITS_DBL */
	int coord;	/* direct-algorithm ops: 0 affine, 1 Jacobian */
	int algo;	/* EO_ALGO_MULT: EC_PF_FXP_MULT_ALGO_* (1..4); EO_TWIN_DIRECT: EC_PF_TWIN_MULT_ALGO_* (0,2,3) */
	uint32_t wbits;	/* window bits for explicit precompute */
	uint32_t n;	/* dbl_n count */
	uint8_t junk;	/* fill of never-initialised storage (objects and stack) */
	ecs_pt P, Q;
	uint8_t k[ECS_MAXB], l[ECS_MAXB];
} ecs_in;

typedef struct {
	int curve_rc;	/* ecdsa_curve_from_str() result */
	int setup_rc;	/* operand load failed (bn_init / import) */
	int unsupported;/* 1: op not compiled in this build, 2: library symbol missing in this configuration */
	int pre_rc;	/* explicit precompute rc */
	int rc;		/* operation rc */
	int aux;	/* op specific (validate warnings) */
	uint8_t r_canon;/* bn invariants of the finite result hold (digits<=count, top digit != 0, fits ECS_MAXB) */
	ecs_pt R;
	uint8_t in_changed; /* an operand documented as input-only was modified */
} ecs_out;

enum {
	ECS_INFO_W = 0, ECS_INFO_BITLEN, ECS_INFO_CC, ECS_INFO_PROJ, ECS_INFO_MIX, ECS_INFO_REPDBL,
	ECS_INFO_FXP_ALGO, ECS_INFO_FXP_WIN, ECS_INFO_UNKPT_ALGO, ECS_INFO_UNKPT_WIN, ECS_INFO_TWIN_ALGO,
	ECS_INFO_PREDBL_SIZE, ECS_INFO_NCURVES, ECS_INFO_TWIN_OK, ECS_INFO_INTER_W, ECS_INFO_OPT, ECS_INFO_SAN
};

enum {
	/* configured dispatch macros (what ecdsa.h uses) */
	EO_ADD = 1, EO_SUB, EO_DBL_ALIAS, EO_DBL_EQ,
	EO_BIN_MULT, EO_UNKPT_MULT, EO_MULT_BP, EO_FPX_MULT,
	EO_TWIN, EO_TWIN_BP, EO_TWIN_FXP_UNKPT_BP, EO_SUB_ALIAS,
	/* direct entry points, compiled in every build */
	EO_AFF_ADD = 20, EO_AFF_SUB, EO_AFF_DBL_ALIAS, EO_AFF_DBL_EQ, EO_AFF_DBL_N, EO_AFF_BIN_MULT, EO_AFF_SUB_ALIAS,
	EO_PRJ_ADD = 30, EO_PRJ_SUB, EO_PRJ_DBL_ALIAS, EO_PRJ_DBL_EQ, EO_PRJ_BIN_MULT, EO_PRJ_SUB_ALIAS,
	EO_RAW_ADD = 40, EO_RAW_SUB, EO_RAW_DBL_ALIAS, EO_RAW_DBL_EQ, EO_RAW_ADD_MIX, EO_RAW_SUB_MIX, EO_RAW_DBL_N, EO_RAW_SUB_ALIAS,
	EO_ALGO_MULT = 50, EO_TWIN_DIRECT,
	/* predicates */
	EO_CHECK_AFFINE = 60, EO_CURVE_VALIDATE, EO_CHECK_SCALAR_MULT, EO_IS_INVERSE
};

#ifdef __cplusplus
extern "C" {
#endif
long ecs_info(int what);
int ecs_table_get(int idx, ecs_curve *out);	/* copies the raw strings of ec_curve_str[idx] */
void ecs_call(const ecs_curve *cv, const ecs_in *in, ecs_out *out);
#ifdef __cplusplus
}
#endif
#endif
