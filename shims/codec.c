/* C shim for drivers/C14_codec.cpp: Base64, hex, integer <-> text, XML entities,
 * URL unescape, CRC-32.  Linked with repo:src/utils/buf_str.c, repo:src/utils/xml.c,
 * repo:src/proto/http.c.
 *
 * Every call works on freshly allocated buffers of exactly the size the driver
 * asks for: input = malloc(in_len) without a terminator, output = cap (+slack)
 * bytes.  In ASan builds the output is a plain exact-size malloc so that any
 * stray byte is a sanitizer report; in the other builds the output sits
 * between two canary bands so that a stray byte neither corrupts the heap nor
 * goes unnoticed: it is counted in guard_lo / guard_hi. */
#include <sys/param.h>
#include <sys/types.h>
#include <stdint.h>
#include <stdlib.h>
#include <string.h>
#include <stdio.h>
#include <errno.h>
#include <inttypes.h>

#include <utils/base64.h>
#include <utils/num2str.h>
#include <utils/str2num.h>
#include <utils/strh2num.h>
#include <utils/buf_str.h>
#include <utils/xml.h>
#include <proto/http.h>
#include <math/crc32.h>
#include "codec_abi.h"

#if defined(__SANITIZE_ADDRESS__)
#	define C14_ASAN 1
#elif defined(__has_feature)
#	if __has_feature(address_sanitizer)
#		define C14_ASAN 1
#	endif
#endif

#ifdef C14_ASAN
void __asan_poison_memory_region(void const volatile *addr, size_t size);
void __asan_unpoison_memory_region(void const volatile *addr, size_t size);
#endif

#define CANARY 0xc3

long
c14_info(int what) {
	switch (what) {
	case C14_INFO_SIZE_T_BITS: return ((long)(sizeof(size_t) * 8));
	case C14_INFO_ASAN:
#ifdef C14_ASAN
		return (1);
#else
		return (0);
#endif
	case C14_INFO_SMALL_TBL_LIMIT: return ((long)CRC32_SMALL_TBL_LIMIT);
	}
	return (-1);
}

/* exact-size copy of the input: no terminator, no slack */
static uint8_t *
in_dup(const c14_in *in) {
	uint8_t *p = malloc((0 != in->in_len) ? in->in_len : 1);

	if (NULL == p)
		abort();
	if (0 != in->in_len) {
		memcpy(p, in->in, in->in_len);
	} else {
#ifdef C14_ASAN
		__asan_poison_memory_region(p, 1);
#else
		p[0] = 0x7e;
#endif
	}
	return (p);
}
static void
in_free(const c14_in *in, uint8_t *p) {
#ifdef C14_ASAN
	if (0 == in->in_len) {
		__asan_unpoison_memory_region(p, 1);
	}
#endif
	(void)in;
	free(p);
}

typedef struct { uint8_t *base, *p; size_t size; } xbuf;

static uint8_t *
xb_alloc(xbuf *b, size_t size, uint8_t fill) {
	b->size = size;
#ifdef C14_ASAN
	b->base = malloc((0 != size) ? size : 1);
	if (NULL == b->base)
		abort();
	b->p = b->base;
	if (0 != size) {
		memset(b->p, fill, size);
	} else {
		__asan_poison_memory_region(b->p, 1);
	}
#else
	b->base = malloc(C14_BAND + size + C14_BAND);
	if (NULL == b->base)
		abort();
	b->p = (b->base + C14_BAND);
	memset(b->base, CANARY, C14_BAND);
	memset(b->p, fill, size);
	memset((b->p + size), CANARY, C14_BAND);
#endif
	return (b->p);
}

static void
xb_finish(xbuf *b, c14_out *out) {
	size_t i, n = b->size;

	out->guard_lo = 0;
	out->guard_hi = 0;
#ifdef C14_ASAN
	if (0 == b->size) {
		__asan_unpoison_memory_region(b->p, 1);
	}
#else
	for (i = 0; i < C14_BAND; i ++) {
		if (CANARY != b->base[i]) {
			out->guard_lo ++;
		}
		if (CANARY != b->p[b->size + i]) {
			out->guard_hi ++;
		}
	}
#endif
	if (n > C14_MAXOUT) {
		n = C14_MAXOUT;
	}
	memcpy(out->out, b->p, n);
	out->out_len = (uint32_t)n;
	free(b->base);
}

#define N2S(_fs, _fu, _t) do {						\
	if (0 != (in->flags & C14_F_USTR)) {				\
		rc = _fu((_t)in->num, (uint8_t*)dst, cap, psz);		\
	} else {							\
		rc = _fs((_t)in->num, (char*)dst, cap, psz);		\
	}								\
} while (0)

#define S2U(_fs, _fu) do {						\
	if (0 != (in->flags & C14_F_USTR)) {				\
		val = (uint64_t)_fu((const uint8_t*)src, in->in_len);	\
	} else {							\
		val = (uint64_t)_fs((const char*)src, in->in_len);	\
	}								\
} while (0)
#define S2S(_fs, _fu) do {						\
	if (0 != (in->flags & C14_F_USTR)) {				\
		val = (uint64_t)(int64_t)_fu((const uint8_t*)src, in->in_len); \
	} else {							\
		val = (uint64_t)(int64_t)_fs((const char*)src, in->in_len); \
	}								\
} while (0)

static uint32_t
crc_first(int v, const uint8_t *p, size_t n) {
	switch (v) {
	case C14_CRC_A: return (crc32a(p, n));
	case C14_CRC_CKSUM: return (crc32cksum(p, n));
	case C14_CRC_MPEG2: return (crc32mpeg2(p, n));
	case C14_CRC_B: return (crc32b(p, n));
	case C14_CRC_JAMCRC: return (crc32jamcrc(p, n));
	case C14_CRC_C: return (crc32c(p, n));
	case C14_CRC_D: return (crc32d(p, n));
	case C14_CRC_Q: return (crc32q(p, n));
	}
	return (0);
}
static uint32_t
crc_next(int v, uint32_t crc, const uint8_t *p, size_t n) {
	switch (v) {
	case C14_CRC_A: return (crc32a_update(crc, p, n));
	case C14_CRC_CKSUM: return (crc32cksum_update(crc, p, n));
	case C14_CRC_MPEG2: return (crc32mpeg2_update(crc, p, n));
	case C14_CRC_B: return (crc32b_update(crc, p, n));
	case C14_CRC_JAMCRC: return (crc32jamcrc_update(crc, p, n));
	case C14_CRC_C: return (crc32c_update(crc, p, n));
	case C14_CRC_D: return (crc32d_update(crc, p, n));
	case C14_CRC_Q: return (crc32q_update(crc, p, n));
	}
	return (0);
}

void
c14_call(const c14_in *in, c14_out *out) {
	int rc = 0, has_out = 1;
	uint8_t *src, *dst = NULL;
	size_t cap = in->cap, sz = (size_t)C14_SENTINEL, *psz;
	uint64_t val = 0;
	xbuf ob;

	memset(out, 0, (sizeof(*out) - sizeof(out->out)));
	psz = ((0 != (in->flags & C14_F_NULLSZ)) ? NULL : &sz);
	src = in_dup(in);
	switch (in->op) {
	case C14_STR2NUM:
	case C14_STRH2NUM:
	case C14_CRC:
		has_out = 0;
		break;
	default:
		dst = xb_alloc(&ob, ((size_t)in->cap + in->slack), in->fill);
		break;
	}

	switch (in->op) {
	case C14_B64_ENC:
		rc = base64_encode(src, in->in_len, dst, cap, psz);
		break;
	case C14_B64_DEC:
		rc = base64_decode(src, in->in_len, dst, cap, psz);
		break;
	case C14_B64_EN_COPY:
		rc = base64_en_copy(src, dst, in->in_len, psz);
		break;
	case C14_B64_DEC_FMT:
		rc = base64_decode_fmt(src, in->in_len, dst, cap, psz);
		break;
	case C14_BIN2HEX:
		rc = cvt_bin2hex(src, in->in_len, ((0 != (in->flags & C14_F_AUTO)) ? 1 : 0),
		    dst, cap, psz);
		break;
	case C14_HEX2BIN:
		rc = cvt_hex2bin(src, in->in_len, ((0 != (in->flags & C14_F_AUTO)) ? 1 : 0),
		    dst, cap, psz);
		break;
	case C14_NUM2STR:
		switch (in->sub) {
		case C14_T_USIZE: N2S(usize2str, usize2ustr, size_t); break;
		case C14_T_U8: N2S(u82str, u82ustr, uint8_t); break;
		case C14_T_U16: N2S(u162str, u162ustr, uint16_t); break;
		case C14_T_U32: N2S(u322str, u322ustr, uint32_t); break;
		case C14_T_U64: N2S(u642str, u642ustr, uint64_t); break;
		case C14_T_SSIZE: N2S(ssize2str, ssize2ustr, ssize_t); break;
		case C14_T_S8: N2S(s82str, s82ustr, int8_t); break;
		case C14_T_S16: N2S(s162str, s162ustr, int16_t); break;
		case C14_T_S32: N2S(s322str, s322ustr, int32_t); break;
		case C14_T_S64: N2S(s642str, s642ustr, int64_t); break;
		default: rc = -1000; break;
		}
		break;
	case C14_STR2NUM:
		switch (in->sub) {
		case C14_T_USIZE: S2U(str2usize, ustr2usize); break;
		case C14_T_U8: S2U(str2u8, ustr2u8); break;
		case C14_T_U16: S2U(str2u16, ustr2u16); break;
		case C14_T_U32: S2U(str2u32, ustr2u32); break;
		case C14_T_U64: S2U(str2u64, ustr2u64); break;
		case C14_T_SSIZE: S2S(str2ssize, ustr2ssize); break;
		case C14_T_S8: S2S(str2s8, ustr2s8); break;
		case C14_T_S16: S2S(str2s16, ustr2s16); break;
		case C14_T_S32: S2S(str2s32, ustr2s32); break;
		case C14_T_S64: S2S(str2s64, ustr2s64); break;
		default: rc = -1000; break;
		}
		break;
	case C14_STRH2NUM:
		switch (in->sub) {
		case C14_T_USIZE: S2U(strh2usize, ustrh2usize); break;
		case C14_T_U8: S2U(strh2u8, ustrh2u8); break;
		case C14_T_U16: S2U(strh2u16, ustrh2u16); break;
		case C14_T_U32: S2U(strh2u32, ustrh2u32); break;
		case C14_T_U64: S2U(strh2u64, ustrh2u64); break;
		case C14_T_SSIZE: S2S(strh2ssize, ustrh2ssize); break;
		case C14_T_S8: S2S(strh2s8, ustrh2s8); break;
		case C14_T_S16: S2S(strh2s16, ustrh2s16); break;
		case C14_T_S32: S2S(strh2s32, ustrh2s32); break;
		case C14_T_S64: S2S(strh2s64, ustrh2s64); break;
		default: rc = -1000; break;
		}
		break;
	case C14_XML_ENC:
		rc = xml_encode(src, in->in_len, dst, cap, psz);
		break;
	case C14_XML_DEC:
		rc = xml_decode(src, in->in_len, dst, cap, psz);
		break;
	case C14_URL_DEC:
		sz = http_url_decode(src, in->in_len, dst, cap);
		break;
	case C14_CRC: {
		uint32_t crc;
		size_t off = 0, i;

		if (0 == in->nparts) {
			crc = crc_first(in->sub, src, in->in_len);
		} else {
			crc = crc_first(in->sub, (src + off), in->parts[0]);
			off += in->parts[0];
			for (i = 1; i < in->nparts && i < C14_MAXPARTS; i ++) {
				crc = crc_next(in->sub, crc, (src + off), in->parts[i]);
				off += in->parts[i];
			}
		}
		val = crc;
		break;
	}
	default:
		rc = -1000;
		break;
	}

	out->rc = rc;
	out->size_ret = (uint64_t)sz;
	out->size_ret_set = (((size_t)C14_SENTINEL) != sz);
	out->val = val;
	if (0 != has_out) {
		xb_finish(&ob, out);
	}
	in_free(in, src);
}
