/* Thread-pool harness: C16, second unit -- datagram receiver, accept, connect and connect_ex tasks
 * (tp_task_pkt_rcvr_handler, tp_task_accept_handler, tp_task_connect_handler, tp_task_connect_ex_handler/start).
 *
 * /repo/src/net/socket.c is compiled for this unit with
 *   -Dsocket=verif_socket -Daccept4=verif_accept4 -Dconnect=verif_connect -Dclose=verif_close
 * so every descriptor the library creates through skt_create()/skt_accept() enters the exact table of
 * tp_common.c (tp_fd_adopt) and every connect() the library issues is seen here (attempt order of connect_ex).
 * The harness itself keeps the real functions. */
#define _GNU_SOURCE
#include <sys/param.h>
#include <sys/types.h>
#include <sys/socket.h>
#include <sys/un.h>
#include <netinet/in.h>
#include <netinet/tcp.h>
#include <arpa/inet.h>
#include <errno.h>
#include <fcntl.h>
#include <limits.h>
#include <poll.h>
#include <pthread.h>
#include <stdatomic.h>
#include <stdint.h>
#include <stdio.h>
#include <stdlib.h>
#include <string.h>
#include <time.h>
#include <unistd.h>

#include "threadpool/threadpool.h"
#include "threadpool/threadpool_msg_sys.h"
#include "threadpool/threadpool_task.h"
#include "tp_abi.h"
#include "tp_int.h"

#define CEIL_MS 10000
#define CEIL_FAULT_MS 120
#define GUARD_OUT 0xfd
#define FILL_IN 0xfe /* pattern bytes are 1..250 */

int verif_close(int fd); /* tp_common.c */

/* ------------------------------------------------------------------ common */
static tp_p g_tp;
static tpt_p g_owner;
static tp_task_p g_task;
static int g_task_dead;	/* destroyed (owner thread only) */
static atomic_uint g_ncb, g_fence, g_started, g_final, g_cut, g_stopped, g_cb_after_stop, g_ntimeout, g_ndata, g_finished;
static int g_has_faults;
static atomic_int g_conn_armed;
/* unit-local socket-layer faults and counters */
static atomic_uint g_nsock, g_naccept4;
static uint32_t g_sock_fault_k, g_accept_fault_k;
static int g_fault_errno;
static atomic_uint g_sock_injected, g_accept_injected;

static uint64_t
now_us(void) {
	struct timespec ts;
	clock_gettime(CLOCK_MONOTONIC, &ts);
	return ((uint64_t)ts.tv_sec * 1000000ull + (uint64_t)ts.tv_nsec / 1000ull);
}

static void mark_stopped(void) { atomic_store(&g_stopped, 1); }

static void
common_reset(const tp_plans *plans) {
	g_task = NULL;
	g_task_dead = 0;
	atomic_store(&g_ncb, 0);
	atomic_store(&g_fence, 0);
	atomic_store(&g_started, 0);
	atomic_store(&g_final, 0);
	atomic_store(&g_cut, 0);
	atomic_store(&g_stopped, 0);
	atomic_store(&g_cb_after_stop, 0);
	atomic_store(&g_ntimeout, 0);
	atomic_store(&g_ndata, 0);
	atomic_store(&g_finished, 0);
	atomic_store(&g_nsock, 0);
	atomic_store(&g_naccept4, 0);
	atomic_store(&g_sock_injected, 0);
	atomic_store(&g_accept_injected, 0);
	g_sock_fault_k = g_accept_fault_k = 0;
	g_fault_errno = 0;
	g_has_faults = (plans->nfaults > 0);
	tp_harness_reset(plans);
	g_close_unknown_passthrough = 1; /* tasks close descriptors their owner created */
}

static int
pool_up(void) {
	tp_settings_t s;
	int rc;

	tp_settings_def(&s);
	s.flags = 0;
	s.threads_max = 1;
	rc = tp_create(&s, &g_tp);
	if (0 != rc)
		return (rc);
	tp_threads_create(g_tp, 0);
	g_owner = tp_thread_get(g_tp, 0);
	return (0);
}

static void
pool_down(void) {
	tp_shutdown(g_tp);
	tp_shutdown_wait(g_tp);
	tp_destroy(g_tp);
	g_tp = NULL;
}

static int
run_owner(tpt_msg_cb fn, atomic_uint *ctr) {
	uint32_t want = atomic_load(ctr) + 1;

	if (0 != tpt_msg_send(g_owner, NULL, 0, fn, NULL))
		return (1);
	return (tp_wait_until(ctr, want, 2 * CEIL_MS));
}

static void fence_cb(tpt_p tpt, void *udata) { (void)tpt; (void)udata; atomic_fetch_add(&g_fence, 1); }
static int
fences(int k) {
	int hang = 0;
	while (k-- > 0)
		hang |= run_owner(fence_cb, &g_fence);
	return (hang);
}

/* wait until *v >= target, or the task was stopped; 0 ok, 1 ceiling */
static int
wait_ge_or_stopped(atomic_uint *v, uint32_t target, int ceil_ms) {
	int w = 0;

	while (atomic_load(v) < target && 0 == atomic_load(&g_stopped)) {
		if (w >= ceil_ms * 10)
			return (1);
		usleep(100);
		w ++;
	}
	return (0);
}
static int ceil_ms(void) { return (g_has_faults ? CEIL_FAULT_MS : CEIL_MS); }

static void
linger0(int fd) {
	struct linger lg = { 1, 0 };
	setsockopt(fd, SOL_SOCKET, SO_LINGER, &lg, sizeof(lg));
}

static void
addr_record(const struct sockaddr_storage *addr, uint16_t *fam, uint16_t *port, uint32_t *ip) {
	*fam = addr->ss_family;
	*port = 0;
	*ip = 0;
	if (AF_INET == addr->ss_family) {
		const struct sockaddr_in *sin = (const struct sockaddr_in *)addr;
		*port = ntohs(sin->sin_port);
		*ip = ntohl(sin->sin_addr.s_addr);
	}
}
/* transport 2 of the datagram check: receiver and two senders bound to paths */
static int p_snd[2] = { -1, -1 };
static char p_path_r[sizeof(((struct sockaddr_un *)0)->sun_path)], p_path_s[2][sizeof(((struct sockaddr_un *)0)->sun_path)];
static uint8_t
addr_unix_sender(const struct sockaddr_storage *addr) {
	const struct sockaddr_un *sun = (const struct sockaddr_un *)addr;
	if (AF_UNIX != addr->ss_family || '\0' == p_path_s[0][0])
		return (0);
	if (0 == strncmp(sun->sun_path, p_path_s[0], sizeof(sun->sun_path)))
		return (1);
	if (0 == strncmp(sun->sun_path, p_path_s[1], sizeof(sun->sun_path)))
		return (2);
	return (3);
}
static int
unix_dgram_bound(const char *path) {
	struct sockaddr_un sun;
	int fd = socket(AF_UNIX, SOCK_DGRAM | SOCK_NONBLOCK | SOCK_CLOEXEC, 0);

	if (-1 == fd)
		return (-1);
	memset(&sun, 0, sizeof(sun));
	sun.sun_family = AF_UNIX;
	strncpy(sun.sun_path, path, sizeof(sun.sun_path) - 1);
	unlink(path);
	if (0 != bind(fd, (struct sockaddr *)&sun, sizeof(sun))) {
		close(fd);
		return (-1);
	}
	return (fd);
}

static int
tcp_bound_socket(int type, struct sockaddr_in *sin_ret) {
	struct sockaddr_in sin;
	socklen_t sl = sizeof(sin);
	int fd = socket(AF_INET, type | SOCK_NONBLOCK | SOCK_CLOEXEC, 0);

	if (-1 == fd)
		return (-1);
	memset(&sin, 0, sizeof(sin));
	sin.sin_family = AF_INET;
	sin.sin_addr.s_addr = htonl(INADDR_LOOPBACK);
	if (0 != bind(fd, (struct sockaddr *)&sin, sizeof(sin)) ||
	    0 != getsockname(fd, (struct sockaddr *)&sin, &sl)) {
		close(fd);
		return (-1);
	}
	*sin_ret = sin;
	return (fd);
}

/* ---- interposed socket-layer calls of /repo/src/net/socket.c ---- */
/* connect_ex state used by verif_connect */
typedef struct {
	int fd;			/* harness listener (or bound socket), -1 none */
	int fill[2];		/* kind 2: pending connections that fill the accept queue */
	uint8_t kind, open_after, opened;
	uint32_t natt;
	char path[108];
	uint16_t port;
} x_lst_t;
static x_lst_t x_lst[C16C_MAX_ADDR];
static struct sockaddr_storage x_addrs[C16C_MAX_ADDR];
static uint32_t x_naddrs;
static int x_active;
static c16c_out *c_out;
static atomic_uint x_natt;

static int
unix_listen_at(const char *path, int backlog) {
	struct sockaddr_un sun;
	int fd = socket(AF_UNIX, SOCK_STREAM | SOCK_NONBLOCK | SOCK_CLOEXEC, 0);

	if (-1 == fd)
		return (-1);
	memset(&sun, 0, sizeof(sun));
	sun.sun_family = AF_UNIX;
	strncpy(sun.sun_path, path, sizeof(sun.sun_path) - 1);
	unlink(path);
	if (0 != bind(fd, (struct sockaddr *)&sun, sizeof(sun)) || 0 != listen(fd, backlog)) {
		close(fd);
		return (-1);
	}
	return (fd);
}

static void
x_open(uint32_t j) {
	x_lst_t *l = &x_lst[j];

	if (l->opened)
		return;
	if (0 == l->kind) {
		listen(l->fd, 32);
	} else if (1 == l->kind) {
		l->fd = unix_listen_at(l->path, 32);
	}
	l->opened = 1;
}

int
verif_socket(int domain, int type, int protocol) {
	int fd;

	if (0 != atomic_load(&g_conn_armed)) {
		uint32_t n = 1 + atomic_fetch_add(&g_nsock, 1);
		if (0 != g_sock_fault_k && n == g_sock_fault_k) {
			atomic_fetch_add(&g_sock_injected, 1);
			if (x_active && NULL != c_out) {
				uint32_t a = atomic_fetch_add(&x_natt, 1);
				if (a < C16C_MAX_ATT) {
					memset(&c_out->att[a], 0, sizeof(c_out->att[a]));
					c_out->att[a].sock_failed = 1;
					c_out->att[a].idx = 255;
					c_out->att[a].rc_errno = g_fault_errno;
					c_out->att[a].t_us = now_us();
				}
			}
			errno = g_fault_errno;
			return (-1);
		}
	}
	fd = socket(domain, type, protocol);
	if (-1 != fd)
		tp_fd_adopt(fd, 5);
	return (fd);
}

int
verif_accept4(int s, struct sockaddr *addr, socklen_t *addrlen, int flags) {
	int fd;

	if (0 != atomic_load(&g_conn_armed)) {
		uint32_t n = 1 + atomic_fetch_add(&g_naccept4, 1);
		if (0 != g_accept_fault_k && n == g_accept_fault_k) {
			atomic_fetch_add(&g_accept_injected, 1);
			errno = g_fault_errno;
			return (-1);
		}
	}
	fd = accept4(s, addr, addrlen, flags);
	if (-1 != fd)
		tp_fd_adopt(fd, 5);
	return (fd);
}

int
verif_connect(int s, const struct sockaddr *addr, socklen_t len) {
	int rc, e;
	uint32_t idx = 255, a;
	uint64_t t = now_us();

	if (x_active && (const char *)addr >= (const char *)x_addrs &&
	    (const char *)addr < (const char *)(x_addrs + x_naddrs)) {
		idx = (uint32_t)(((const char *)addr - (const char *)x_addrs) / sizeof(struct sockaddr_storage));
		x_lst[idx].natt ++;
		if (!x_lst[idx].opened && 255 != x_lst[idx].open_after && x_lst[idx].natt > x_lst[idx].open_after)
			x_open(idx);
	}
	rc = connect(s, addr, len);
	e = errno;
	if (x_active && NULL != c_out) {
		a = atomic_fetch_add(&x_natt, 1);
		if (a < C16C_MAX_ATT) {
			memset(&c_out->att[a], 0, sizeof(c_out->att[a]));
			c_out->att[a].idx = (uint8_t)idx;
			c_out->att[a].rc_errno = (0 == rc) ? 0 : e;
			c_out->att[a].t_us = t;
		}
	}
	errno = e;
	return (rc);
}

/* ================================================================== (1) datagram receiver */
static const c16p_scn *p_scn;
static c16p_out *p_out;
static int p_sk[2];
static io_buf_t p_iob;
static uint8_t p_mem[C16P_IMG];
static int p_task_fd_closed, p_adopted;

uint8_t c16p_pattern(uint32_t d, uint32_t off) { return ((uint8_t)(1 + ((d * 37u + off * 7u + off / 250u) % 250u))); }

static void
p_reset_in_tree(io_buf_p buf) {
	IO_BUF_MARK_AS_EMPTY(buf);
	IO_BUF_MARK_TRANSFER_ALL_FREE(buf);
	memset(buf->data, FILL_IN, buf->size); /* the datagram was consumed */
}

static int
pkt_cb(tp_task_p tptask, int error, struct sockaddr_storage *addr, io_buf_p buf, size_t transfered, void *udata) {
	uint32_t n = atomic_fetch_add(&g_ncb, 1);
	const c16p_scn *s = p_scn;
	c16p_cb rec;
	int ret = TP_TASK_CB_CONTINUE;

	(void)udata;
	memset(&rec, 0, sizeof(rec));
	if (0 != atomic_load(&g_stopped))
		atomic_fetch_add(&g_cb_after_stop, 1);
	if (NULL == buf)
		buf = &p_iob;
	rec.error = error;
	rec.transferred = transfered;
	rec.used = buf->used;
	rec.offset = buf->offset;
	rec.tr_size = buf->transfer_size;
	rec.addr_null = (NULL == addr);
	if (NULL != addr)
		addr_record(addr, &rec.addr_family, &rec.addr_port, &rec.addr_ip);
	if (NULL != addr && 2 == s->transport)
		rec.addr_unix_sender = addr_unix_sender(addr);
	rec.on_owner = (tpt_get_current() == g_owner);
	rec.t_us = now_us();
	if (n < C16P_MAX_CB)
		memcpy(p_out->image[n], p_mem, C16P_IMG);

	if (ETIMEDOUT == error) {
		if (1 == s->timeout_action) {
			tp_task_stop(tptask);
			mark_stopped();
			ret = TP_TASK_CB_NONE;
			rec.action = 3;
		}
		atomic_fetch_add(&g_ntimeout, 1);
	} else if (0 != error) { /* in-tree callers drop the buffer and go on */
		p_reset_in_tree(buf);
		rec.action = 1;
	} else {
		uint32_t k = 0;
		if (0 != transfered)
			k = 1 + atomic_load(&g_ndata);
		if (0 != k && 0 != s->stop_at && k == s->stop_at) {
			rec.action = 3;
			switch (s->stop_how) {
			case 2:
				tp_task_destroy(tptask);
				g_task_dead = 1;
				if (s->close_on_destroy)
					p_task_fd_closed = 1;
				ret = TP_TASK_CB_NONE;
				break;
			case 3:
				/* a disable that reports an error disabled nothing: stop, as a caller must */
				if (0 != tp_task_enable(tptask, 0))
					tp_task_stop(tptask);
				ret = TP_TASK_CB_NONE;
				break;
			case 4:
				tp_task_stop(tptask);
				ret = TP_TASK_CB_EOF;
				break;
			case 5:
				tp_task_stop(tptask);
				ret = TP_TASK_CB_ERROR;
				break;
			default:
				tp_task_stop(tptask);
				ret = TP_TASK_CB_NONE;
				break;
			}
			mark_stopped();
		} else {
			switch (s->reset_policy) {
			case 0:
				p_reset_in_tree(buf);
				rec.action = 1;
				break;
			case 1:
				buf->used = s->used0;
				buf->offset = s->off0;
				IO_BUF_TR_SIZE_SET(buf, s->tr0);
				memset(buf->data, FILL_IN, buf->size);
				rec.action = 2;
				break;
			default:
				if (0 == IO_BUF_TR_SIZE_GET(buf)) {
					p_reset_in_tree(buf);
					rec.action = 1;
				}
				break;
			}
		}
		if (0 != k)
			atomic_fetch_add(&g_ndata, 1);
	}
	rec.ret = ret;
	if (n < C16P_MAX_CB)
		p_out->cb[n] = rec;
	return (ret);
}

static void
p_start_cb(tpt_p tpt, void *udata) {
	(void)udata;
	p_out->start_rc = tp_task_pkt_rcvr_create(tpt, (uintptr_t)p_sk[0],
	    (p_scn->close_on_destroy ? TP_TASK_F_CLOSE_ON_DESTROY : 0), p_scn->timeout_ms, &p_iob, pkt_cb, NULL, &g_task);
	atomic_fetch_add(&g_started, 1);
}

static void
p_final_cb(tpt_p tpt, void *udata) {
	(void)tpt; (void)udata;
	if (NULL != g_task && !g_task_dead) {
		tp_task_destroy(g_task);
		g_task_dead = 1;
		if (p_scn->close_on_destroy)
			p_task_fd_closed = 1;
	}
	mark_stopped();
	atomic_fetch_add(&g_final, 1);
}

/* 0 sent, 1 gave up (queue full), -1 error */
static int
p_send(uint32_t pat_idx, uint32_t len, int patient) {
	uint8_t d[C16P_BUF_MAX + 128];
	uint32_t i;
	int spins = 0, limit = patient ? 25000 : 20;

	if (len > sizeof(d))
		len = sizeof(d);
	for (i = 0; i < len; i ++)
		d[i] = c16p_pattern(pat_idx, i);
	for (;;) {
		ssize_t w = send((2 == p_scn->transport) ? p_snd[pat_idx & 1] : p_sk[1], d, len, MSG_DONTWAIT | MSG_NOSIGNAL);
		if (w == (ssize_t)len)
			return (0);
		if (w >= 0)
			return (-1);
		if (EAGAIN != errno && EINTR != errno && ENOBUFS != errno)
			return (-1);
		if (++ spins > limit || (0 != atomic_load(&g_stopped) && spins > 20))
			return (1);
		usleep(200);
	}
}

void
c16p_run(const c16p_scn *scn, c16p_out *out) {
	tp_res_stats rs0;
	uint32_t i, want_data = 0;
	int short_to = (0 != scn->timeout_ms && scn->timeout_ms <= 500);

	memset(out, 0, sizeof(*out));
	p_scn = scn;
	p_out = out;
	p_sk[0] = p_sk[1] = -1;
	p_task_fd_closed = p_adopted = 0;
	x_active = 0;
	c_out = NULL;
	common_reset(&scn->plans);
	tp_res_get(&rs0);
	out->base_live_fds = rs0.live_fds;

	if (0 == scn->transport) {
		if (0 != socketpair(AF_UNIX, SOCK_DGRAM | SOCK_NONBLOCK | SOCK_CLOEXEC, 0, p_sk)) {
			out->setup_rc = errno;
			goto out_nopool;
		}
	} else if (2 == scn->transport) {
		struct sockaddr_un sun;
		int k;
		snprintf(p_path_r, sizeof(p_path_r), "%s/c16p-%d-r.sock", scn->pdir, (int)getpid());
		snprintf(p_path_s[0], sizeof(p_path_s[0]), "%s/c16p-%d-a", scn->pdir, (int)getpid());
		snprintf(p_path_s[1], sizeof(p_path_s[1]), "%s/c16p-%d-sender-with-a-longer-name", scn->pdir, (int)getpid());
		p_sk[0] = unix_dgram_bound(p_path_r);
		p_snd[0] = unix_dgram_bound(p_path_s[0]);
		p_snd[1] = unix_dgram_bound(p_path_s[1]);
		memset(&sun, 0, sizeof(sun));
		sun.sun_family = AF_UNIX;
		strncpy(sun.sun_path, p_path_r, sizeof(sun.sun_path) - 1);
		for (k = 0; k < 2; k ++) {
			if (-1 == p_sk[0] || -1 == p_snd[k] || 0 != connect(p_snd[k], (struct sockaddr *)&sun, sizeof(sun))) {
				out->setup_rc = (0 != errno) ? errno : -1;
				goto out_nopool;
			}
		}
	} else {
		struct sockaddr_in a0, a1;
		p_sk[0] = tcp_bound_socket(SOCK_DGRAM, &a0);
		p_sk[1] = tcp_bound_socket(SOCK_DGRAM, &a1);
		if (-1 == p_sk[0] || -1 == p_sk[1] || 0 != connect(p_sk[1], (struct sockaddr *)&a0, sizeof(a0))) {
			out->skipped = 1; /* no loopback UDP here: not a verdict */
			goto out_nopool;
		}
		out->peer_port = ntohs(a1.sin_port);
	}
	out->setup_rc = pool_up();
	if (0 != out->setup_rc)
		goto out_nopool;

	memset(p_mem, GUARD_OUT, sizeof(p_mem));
	memset(p_mem + 32, FILL_IN, scn->buf_size);
	memset(&p_iob, 0, sizeof(p_iob));
	p_iob.data = p_mem + 32;
	p_iob.size = scn->buf_size;
	p_iob.used = scn->used0;
	p_iob.offset = scn->off0;
	p_iob.transfer_size = scn->tr0;
	if (scn->close_on_destroy) {
		tp_fd_adopt(p_sk[0], 5);
		p_adopted = 1;
	}

	tp_harness_arm();
	atomic_store(&g_conn_armed, 1);
	for (i = 0; i < scn->prequeue && i < scn->ndgrams; i ++) {
		if (0 != p_send(i, scn->dg[i].len, 1))
			break;
		out->nsent = i + 1;
		if (0 != scn->dg[i].len)
			want_data ++;
	}
	if (out->nsent < scn->prequeue && out->nsent < scn->ndgrams) {
		out->setup_rc = -2; /* could not queue */
		goto teardown;
	}
	out->t_create_us = now_us();
	out->hang |= run_owner(p_start_cb, &g_started);
	out->run_us = now_us();
	if (0 != out->start_rc) {
		if (scn->close_on_destroy && -1 == fcntl(p_sk[0], F_GETFD))
			p_task_fd_closed = 1; /* tp_task_create_start() destroys the half-made task, which closes the ident */
		goto settle;
	}
	for (i = out->nsent; i < scn->ndgrams; i ++) {
		switch (scn->dg[i].pause) {
		case 1:
			usleep(300);
			break;
		case 2:
			if (0 != wait_ge_or_stopped(&g_ndata, want_data, ceil_ms()) && !g_has_faults)
				out->wait_failed = 1;
			break;
		case 3:
			if (short_to && 0 == atomic_load(&g_stopped)) {
				if (0 != wait_ge_or_stopped(&g_ntimeout, atomic_load(&g_ntimeout) + 1, ceil_ms()) && !g_has_faults)
					out->wait_failed = 2;
			}
			break;
		}
		if (0 != p_send(i, scn->dg[i].len, 1))
			break;
		out->nsent = i + 1;
		if (0 != scn->dg[i].len)
			want_data ++;
	}
	/* everything that was sent must be reported (or the task stopped itself) */
	if (0 != wait_ge_or_stopped(&g_ndata, want_data, ceil_ms()) && !g_has_faults && 0 == out->wait_failed)
		out->wait_failed = 1;
	if (scn->wait_timeout_end && short_to && 0 == atomic_load(&g_stopped)) {
		if (0 != wait_ge_or_stopped(&g_ntimeout, atomic_load(&g_ntimeout) + 1, ceil_ms()) && !g_has_faults && 0 == out->wait_failed)
			out->wait_failed = 2;
	}
settle:
	out->run_us = now_us() - out->run_us;
	out->hang |= fences(2);
	out->hang |= run_owner(p_final_cb, &g_final);
	/* datagrams after the destroy must not wake anything */
	if (!p_task_fd_closed && 0 == p_send(63, 5, 0))
		out->late_sent = 1;
	out->hang |= fences(3);
	usleep(1500 + (short_to ? 1500u * scn->timeout_ms : 0)); /* a timer left armed would fire here */
	out->hang |= fences(2);
teardown:
	atomic_store(&g_conn_armed, 0);
	tp_harness_disarm();
	out->ncb = atomic_load(&g_ncb);
	out->cb_after_stop = atomic_load(&g_cb_after_stop);
	memcpy(out->final_image, p_mem, C16P_IMG);
	pool_down();
out_nopool:
	if (p_sk[0] >= 0 && !p_task_fd_closed) {
		if (p_adopted)
			verif_close(p_sk[0]);
		else
			close(p_sk[0]);
	}
	if (p_sk[1] >= 0)
		close(p_sk[1]);
	if (2 == scn->transport) {
		int k;
		for (k = 0; k < 2; k ++) {
			if (p_snd[k] >= 0)
				close(p_snd[k]);
			p_snd[k] = -1;
			unlink(p_path_s[k]);
		}
		unlink(p_path_r);
		p_path_s[0][0] = '\0';
	}
	tp_res_get(&out->res);
	tp_res_cleanup();
	g_close_unknown_passthrough = 0;
}

/* ================================================================== (2) accept / connect / connect_ex */
static const c16c_scn *c_scn;
static int a_lfd, a_lfd_closed, a_lfd_adopted;
static int a_acc_fd[C16C_MAX_CB];
static int c_fd[C16C_MAX_CLI + 1];
static char a_path[108];
static int k_sock, k_sock_closed, k_lfd, k_fill[2];	/* mode 2 */
static tp_task_conn_prms_t x_prms;
static int64_t x_handed;
static int x_handed_closed;
static atomic_uint x_nfail;

static void
c_rec_store(uint32_t n, const c16c_cb *rec) {
	if (n < C16C_MAX_CB)
		c_out->cb[n] = *rec;
}

static uint32_t
live_fds_now(void) {
	tp_res_stats rs;
	tp_res_get(&rs);
	return (rs.live_fds);
}

/* ---------------- accept ---------------- */
static void
a_close_listen_via_task(tp_task_p tptask) {
	tp_task_ident_close(tptask);
	a_lfd_closed = 1;
}

static int
accept_cb(tp_task_p tptask, int error, uintptr_t skt_new, struct sockaddr_storage *addr, void *udata) {
	uint32_t n = atomic_fetch_add(&g_ncb, 1);
	const c16c_scn *s = c_scn;
	c16c_cb rec;
	int ret = TP_TASK_CB_CONTINUE;

	(void)udata;
	memset(&rec, 0, sizeof(rec));
	if (0 != atomic_load(&g_stopped))
		atomic_fetch_add(&g_cb_after_stop, 1);
	rec.kind = 0;
	rec.error = error;
	rec.skt = ((uintptr_t)-1 == skt_new) ? -1 : (int64_t)skt_new;
	rec.addr_null = (NULL == addr);
	if (NULL != addr)
		addr_record(addr, &rec.addr_family, &rec.addr_port, &rec.addr_ip);
	rec.on_owner = (tpt_get_current() == g_owner);
	rec.t_us = now_us();
	rec.live_fds = 0;
	if (ETIMEDOUT == error) {
		if (1 == s->timeout_action) {
			tp_task_stop(tptask);
			mark_stopped();
			ret = TP_TASK_CB_NONE;
			rec.action = 3;
		}
		atomic_fetch_add(&g_ntimeout, 1);
	} else if (0 != error) {
		/* http_srv_new_conn_cb(): count the error and go on */
	} else {
		uint32_t k = 1 + atomic_load(&g_ndata);
		int fl;
		if (k <= C16C_MAX_CB)
			a_acc_fd[k - 1] = (int)skt_new;
		fl = fcntl((int)skt_new, F_GETFL);
		rec.nonblock = (-1 != fl && 0 != (O_NONBLOCK & fl));
		if (0 != s->stop_at && k == s->stop_at) {
			rec.action = 3;
			ret = TP_TASK_CB_NONE;
			switch (s->stop_how) {
			case 2:
				if (1 == s->mode && !s->close_on_destroy)
					a_close_listen_via_task(tptask); /* the caller owns the library-made socket */
				tp_task_destroy(tptask);
				g_task_dead = 1;
				if (s->close_on_destroy)
					a_lfd_closed = 1;
				break;
			case 3:
				if (0 != tp_task_enable(tptask, 0))
					tp_task_stop(tptask);
				break;
			case 4:
				a_close_listen_via_task(tptask); /* http_srv_bind_shutdown() */
				break;
			default:
				tp_task_stop(tptask);
				break;
			}
			mark_stopped();
		}
		atomic_fetch_add(&g_ndata, 1);
	}
	rec.ret = ret;
	c_rec_store(n, &rec);
	return (ret);
}

static void
a_start_cb(tpt_p tpt, void *udata) {
	const c16c_scn *s = c_scn;
	uint32_t fl = (s->close_on_destroy ? TP_TASK_F_CLOSE_ON_DESTROY : 0);
	int rc;

	(void)udata;
	if (0 == s->mode) {
		rc = tp_task_accept_create(tpt, (uintptr_t)a_lfd, fl, s->timeout_ms, accept_cb, NULL, &g_task);
	} else {
		struct sockaddr_storage ss;
		skt_opts_t opts;
		uint32_t m = (s->reuseaddr ? SO_F_REUSEADDR : 0) | (s->keepalive ? SO_F_KEEPALIVE : 0);

		memset(&ss, 0, sizeof(ss));
		if (0 == s->family) {
			struct sockaddr_un *sun = (struct sockaddr_un *)&ss;
			sun->sun_family = AF_UNIX;
			strncpy(sun->sun_path, a_path, sizeof(sun->sun_path) - 1);
		} else {
			struct sockaddr_in *sin = (struct sockaddr_in *)&ss;
			sin->sin_family = AF_INET;
			sin->sin_addr.s_addr = htonl(INADDR_LOOPBACK);
		}
		skt_opts_init(m, m, &opts);
		opts.backlog = s->backlog;
		rc = tp_task_bind_accept_create(tpt, &ss, SOCK_STREAM, (s->family ? IPPROTO_TCP : 0), &opts, fl, s->timeout_ms,
		    accept_cb, NULL, &g_task);
		if (0 == rc && NULL != g_task) {
			int f;
			a_lfd = (int)tp_task_ident_get(g_task);
			f = fcntl(a_lfd, F_GETFL);
			c_out->listen_nonblock = (-1 != f && 0 != (O_NONBLOCK & f));
			if (s->family) {
				struct sockaddr_in sin;
				socklen_t sl = sizeof(sin);
				if (0 == getsockname(a_lfd, (struct sockaddr *)&sin, &sl))
					c_out->listen_port = ntohs(sin.sin_port);
			}
		}
	}
	c_out->start_rc = rc;
	c_out->ncb_at_start_ret = atomic_load(&g_ncb);
	atomic_fetch_add(&g_started, 1);
}

static void
a_final_cb(tpt_p tpt, void *udata) {
	(void)tpt; (void)udata;
	if (NULL != g_task && !g_task_dead) {
		if (1 == c_scn->mode && !c_scn->close_on_destroy && !a_lfd_closed)
			a_close_listen_via_task(g_task);
		tp_task_destroy(g_task);
		g_task_dead = 1;
		if (c_scn->close_on_destroy)
			a_lfd_closed = 1;
	}
	mark_stopped();
	atomic_fetch_add(&g_final, 1);
}

/* connect client i to the listening address and send its id; 1 connected */
static int
a_client(uint32_t i, uint8_t id, int close_early) {
	const c16c_scn *s = c_scn;
	int fd, rc, tries = 0;
	uint8_t msg[4] = { 0xc1, 0x6c, id, (uint8_t)~id };
	struct sockaddr_storage ss;
	socklen_t sl;

	memset(&ss, 0, sizeof(ss));
	if (0 == s->family) {
		struct sockaddr_un *sun = (struct sockaddr_un *)&ss;
		sun->sun_family = AF_UNIX;
		strncpy(sun->sun_path, a_path, sizeof(sun->sun_path) - 1);
		sl = sizeof(*sun);
	} else {
		struct sockaddr_in *sin = (struct sockaddr_in *)&ss;
		sin->sin_family = AF_INET;
		sin->sin_addr.s_addr = htonl(INADDR_LOOPBACK);
		sin->sin_port = htons(c_out->listen_port);
		sl = sizeof(*sin);
	}
	fd = socket(ss.ss_family, SOCK_STREAM | SOCK_NONBLOCK | SOCK_CLOEXEC, 0);
	if (-1 == fd)
		return (0);
	for (;;) {
		rc = connect(fd, (struct sockaddr *)&ss, sl);
		if (0 == rc)
			break;
		if (EINPROGRESS == errno) {
			struct pollfd pfd = { fd, POLLOUT, 0 };
			int e = 0;
			socklen_t el = sizeof(e);
			if (1 != poll(&pfd, 1, 5000) || 0 != getsockopt(fd, SOL_SOCKET, SO_ERROR, &e, &el) || 0 != e)
				rc = -1;
			else
				rc = 0;
			break;
		}
		if ((EAGAIN == errno || EINTR == errno) && ++ tries < 2000 && 0 == atomic_load(&g_stopped)) {
			usleep(500); /* AF_UNIX backlog momentarily full */
			continue;
		}
		break;
	}
	if (0 != rc) {
		close(fd);
		return (0);
	}
	if (s->family) {
		struct sockaddr_in sin;
		socklen_t l2 = sizeof(sin);
		if (0 == getsockname(fd, (struct sockaddr *)&sin, &l2))
			c_out->cli_port[i] = ntohs(sin.sin_port);
	}
	(void)!send(fd, msg, sizeof(msg), MSG_NOSIGNAL);
	if (close_early) {
		close(fd);
		fd = -1;
	}
	c_fd[i] = fd;
	return (1);
}

static void
run_accept(const c16c_scn *scn, c16c_out *out) {
	uint32_t i, nconn = 0;
	int short_to = (0 != scn->timeout_ms && scn->timeout_ms <= 500);

	a_lfd = -1;
	a_lfd_closed = a_lfd_adopted = 0;
	for (i = 0; i < C16C_MAX_CB; i ++) {
		a_acc_fd[i] = -1;
		out->acc_id[i] = -1;
	}
	for (i = 0; i <= C16C_MAX_CLI; i ++)
		c_fd[i] = -1;
	snprintf(a_path, sizeof(a_path), "%s/c16x-%d.sock", scn->dir, (int)getpid());
	unlink(a_path);

	if (0 == scn->mode) { /* the caller made the listening socket */
		if (0 == scn->family) {
			a_lfd = unix_listen_at(a_path, 32);
		} else {
			struct sockaddr_in sin;
			a_lfd = tcp_bound_socket(SOCK_STREAM, &sin);
			if (-1 != a_lfd && 0 != listen(a_lfd, 32)) {
				close(a_lfd);
				a_lfd = -1;
			}
			out->listen_port = ntohs(sin.sin_port);
		}
		if (-1 == a_lfd) {
			out->skipped = 1;
			return;
		}
		if (scn->close_on_destroy) {
			tp_fd_adopt(a_lfd, 5);
			a_lfd_adopted = 1;
		}
	} else if (0 == scn->family && scn->stale_path) {
		int fd = unix_listen_at(a_path, 1); /* leaves the socket file behind */
		if (-1 != fd)
			close(fd);
	} else if (1 == scn->family) { /* is TCP loopback there at all? */
		struct sockaddr_in sin;
		int fd = tcp_bound_socket(SOCK_STREAM, &sin);
		if (-1 == fd) {
			out->skipped = 1;
			return;
		}
		close(fd);
	}
	out->setup_rc = pool_up();
	if (0 != out->setup_rc)
		goto out_nopool;
	out->pool_live_fds = live_fds_now();
	tp_harness_arm();
	g_sock_fault_k = scn->sock_fault_k;
	g_accept_fault_k = scn->accept_fault_k;
	g_fault_errno = scn->fault_errno;
	atomic_store(&g_conn_armed, 1);

	if (0 == scn->mode) {
		for (i = 0; i < scn->prequeue && i < scn->nclients; i ++) {
			out->cli_connected[i] = (uint8_t)a_client(i, (uint8_t)i, scn->cli[i].close_early);
			nconn += out->cli_connected[i];
		}
	} else
		i = 0;
	out->t_create_us = now_us();
	out->hang |= run_owner(a_start_cb, &g_started);
	if (0 != out->start_rc)
		goto settle;
	for (; i < scn->nclients; i ++) {
		switch (scn->cli[i].pause) {
		case 1:
			usleep(300);
			break;
		case 2:
			if (0 != wait_ge_or_stopped(&g_ndata, nconn, ceil_ms()) && !g_has_faults)
				out->wait_failed = 1;
			break;
		case 3:
			if (short_to && 0 == atomic_load(&g_stopped)) {
				if (0 != wait_ge_or_stopped(&g_ntimeout, atomic_load(&g_ntimeout) + 1, ceil_ms()) && !g_has_faults)
					out->wait_failed = 2;
			}
			break;
		}
		out->cli_connected[i] = (uint8_t)a_client(i, (uint8_t)i, scn->cli[i].close_early);
		nconn += out->cli_connected[i];
	}
	if (0 != wait_ge_or_stopped(&g_ndata, nconn, ceil_ms()) && !g_has_faults && 0 == out->wait_failed)
		out->wait_failed = 1;
	if (scn->wait_timeout_end && short_to && 0 == atomic_load(&g_stopped)) {
		if (0 != wait_ge_or_stopped(&g_ntimeout, atomic_load(&g_ntimeout) + 1, ceil_ms()) && !g_has_faults && 0 == out->wait_failed)
			out->wait_failed = 2;
	}
settle:
	out->nconnected = nconn;
	out->hang |= fences(2);
	out->hang |= run_owner(a_final_cb, &g_final);
	if (0 == out->start_rc && !a_lfd_closed && -1 != a_lfd) { /* a connection after the destroy must not wake anything */
		out->late_clients = (uint32_t)a_client(C16C_MAX_CLI, 99, 0);
	}
	out->hang |= fences(3);
	usleep(1500 + (short_to ? 1500u * scn->timeout_ms : 0));
	out->hang |= fences(2);
	atomic_store(&g_conn_armed, 0);
	tp_harness_disarm();
	out->ncb = atomic_load(&g_ncb);
	out->cb_after_stop = atomic_load(&g_cb_after_stop);
	out->nacc = atomic_load(&g_ndata);
	/* which client is behind each accepted socket */
	for (i = 0; i < out->nacc && i < C16C_MAX_CB; i ++) {
		struct pollfd pfd = { a_acc_fd[i], POLLIN, 0 };
		uint8_t msg[4];
		ssize_t r;
		if (a_acc_fd[i] < 0)
			continue;
		if (1 != poll(&pfd, 1, 3000))
			continue;
		r = recv(a_acc_fd[i], msg, sizeof(msg), MSG_DONTWAIT);
		if (4 == r && 0xc1 == msg[0] && 0x6c == msg[1] && (uint8_t)~msg[2] == msg[3])
			out->acc_id[i] = msg[2];
		else if (r > 0)
			out->acc_id[i] = -2;
	}
	pool_down();
	for (i = 0; i <= C16C_MAX_CLI; i ++) {
		if (c_fd[i] >= 0) {
			linger0(c_fd[i]);
			close(c_fd[i]);
		}
	}
	for (i = 0; i < C16C_MAX_CB; i ++) {
		if (a_acc_fd[i] >= 0)
			verif_close(a_acc_fd[i]); /* handed to the caller: the caller closes */
	}
out_nopool:
	if (-1 != a_lfd && !a_lfd_closed && 0 == scn->mode) {
		if (a_lfd_adopted)
			verif_close(a_lfd);
		else
			close(a_lfd);
	}
	unlink(a_path);
}

/* ---------------- connect ---------------- */
static int
connect_cb(tp_task_p tptask, int error, void *udata) {
	uint32_t n = atomic_fetch_add(&g_ncb, 1);
	c16c_cb rec;
	struct sockaddr_storage ss;
	socklen_t sl = sizeof(ss);

	(void)udata;
	memset(&rec, 0, sizeof(rec));
	if (0 != atomic_load(&g_stopped))
		atomic_fetch_add(&g_cb_after_stop, 1);
	rec.kind = 1;
	rec.error = error;
	rec.on_owner = (tpt_get_current() == g_owner);
	rec.t_us = now_us();
	rec.live_fds = live_fds_now();
	rec.peer_ok = (0 == getpeername(k_sock, (struct sockaddr *)&ss, &sl));
	if (rec.peer_ok && AF_INET == ss.ss_family)
		rec.peer_port = ntohs(((struct sockaddr_in *)&ss)->sin_port);
	if (c_scn->destroy_in_cb && !g_task_dead) {
		tp_task_destroy(tptask);
		g_task_dead = 1;
		if (c_scn->close_on_destroy)
			k_sock_closed = 1;
		mark_stopped();
		rec.action = 3;
	}
	rec.ret = c_scn->cb_ret;
	c_rec_store(n, &rec);
	return (c_scn->cb_ret);
}

static void
k_start_cb(tpt_p tpt, void *udata) {
	(void)udata;
	c_out->start_rc = tp_task_connect_create(tpt, (uintptr_t)k_sock,
	    (c_scn->close_on_destroy ? TP_TASK_F_CLOSE_ON_DESTROY : 0), c_scn->timeout_ms, connect_cb, NULL, &g_task);
	c_out->ncb_at_start_ret = atomic_load(&g_ncb);
	atomic_fetch_add(&g_started, 1);
}

static void
k_final_cb(tpt_p tpt, void *udata) {
	(void)tpt; (void)udata;
	if (NULL != g_task && !g_task_dead) {
		tp_task_destroy(g_task);
		g_task_dead = 1;
		if (c_scn->close_on_destroy)
			k_sock_closed = 1;
	}
	mark_stopped();
	atomic_fetch_add(&g_final, 1);
}

/* a TCP listener that never answers: backlog 0 and a filled accept queue */
static int
blackhole_listener(struct sockaddr_in *sin, int fill[2]) {
	int fd = tcp_bound_socket(SOCK_STREAM, sin), i;

	fill[0] = fill[1] = -1;
	if (-1 == fd)
		return (-1);
	if (0 != listen(fd, 0)) {
		close(fd);
		return (-1);
	}
	for (i = 0; i < 2; i ++) {
		fill[i] = socket(AF_INET, SOCK_STREAM | SOCK_NONBLOCK | SOCK_CLOEXEC, 0);
		if (-1 != fill[i])
			(void)!connect(fill[i], (struct sockaddr *)sin, sizeof(*sin));
	}
	usleep(300);
	return (fd);
}

static uint32_t
drain_listener(int fd) {
	uint32_t n = 0;
	int a;

	if (fd < 0)
		return (0);
	while (-1 != (a = accept4(fd, NULL, NULL, SOCK_NONBLOCK | SOCK_CLOEXEC))) {
		close(a);
		n ++;
	}
	return (n);
}

static void
run_connect(const c16c_scn *scn, c16c_out *out) {
	struct sockaddr_storage ss;
	socklen_t sl;
	int short_to = (0 != scn->timeout_ms && scn->timeout_ms <= 500), rc;
	int adopted = 0;

	k_sock = k_lfd = -1;
	k_fill[0] = k_fill[1] = -1;
	k_sock_closed = 0;
	snprintf(a_path, sizeof(a_path), "%s/c16x-%d.sock", scn->dir, (int)getpid());
	unlink(a_path);
	memset(&ss, 0, sizeof(ss));
	if (0 == scn->family) { /* AF_UNIX: listening target only */
		struct sockaddr_un *sun = (struct sockaddr_un *)&ss;
		sun->sun_family = AF_UNIX;
		strncpy(sun->sun_path, a_path, sizeof(sun->sun_path) - 1);
		sl = sizeof(*sun);
		k_lfd = unix_listen_at(a_path, 16);
	} else {
		struct sockaddr_in *sin = (struct sockaddr_in *)&ss;
		sl = sizeof(*sin);
		switch (scn->target) {
		case 0:
			k_lfd = tcp_bound_socket(SOCK_STREAM, sin);
			if (-1 != k_lfd && 0 != listen(k_lfd, 16)) {
				close(k_lfd);
				k_lfd = -1;
			}
			break;
		case 1:
			k_lfd = tcp_bound_socket(SOCK_STREAM, sin); /* bound, not listening: refuses */
			break;
		default:
			k_lfd = blackhole_listener(sin, k_fill);
			break;
		}
		out->listen_port = ntohs(sin->sin_port);
	}
	if (-1 == k_lfd) {
		out->skipped = 1;
		goto out_nopool;
	}
	k_sock = socket(ss.ss_family, SOCK_STREAM | SOCK_NONBLOCK | SOCK_CLOEXEC, 0);
	if (-1 == k_sock) {
		out->skipped = 1;
		goto out_nopool;
	}
	rc = connect(k_sock, (struct sockaddr *)&ss, sl);
	out->connect_rc_errno = (0 == rc) ? 0 : errno;
	if (0 != rc && EINPROGRESS != errno) {
		out->skipped = 2; /* failed synchronously: nothing to hand to a connect task */
		goto out_nopool;
	}
	out->setup_rc = pool_up();
	if (0 != out->setup_rc)
		goto out_nopool;
	out->pool_live_fds = live_fds_now();
	if (scn->close_on_destroy) {
		tp_fd_adopt(k_sock, 5);
		adopted = 1;
	}
	tp_harness_arm();
	atomic_store(&g_conn_armed, 1);
	out->t_create_us = now_us();
	out->hang |= run_owner(k_start_cb, &g_started);
	if (0 == out->start_rc) {
		int expect_cb = (2 != scn->target) || short_to;
		if (expect_cb) {
			if (0 != wait_ge_or_stopped(&g_ncb, 1, ceil_ms()) && !g_has_faults)
				out->wait_failed = 1;
		} else
			usleep(20000);
		/* a second report (timer left armed) would come within the timeout */
		usleep(short_to ? 1500u * scn->timeout_ms : 1000);
	} else if (scn->close_on_destroy && -1 == fcntl(k_sock, F_GETFD))
		k_sock_closed = 1;
	out->hang |= fences(2);
	out->hang |= run_owner(k_final_cb, &g_final);
	out->hang |= fences(3);
	usleep(1500);
	out->hang |= fences(2);
	atomic_store(&g_conn_armed, 0);
	tp_harness_disarm();
	out->ncb = atomic_load(&g_ncb);
	out->cb_after_stop = atomic_load(&g_cb_after_stop);
	pool_down();
	if (1 != scn->target)
		out->listener_accepted = drain_listener(k_lfd);
out_nopool:
	if (-1 != k_sock && !k_sock_closed) {
		linger0(k_sock);
		if (adopted)
			verif_close(k_sock);
		else
			close(k_sock);
	}
	if (-1 != k_fill[0]) { linger0(k_fill[0]); close(k_fill[0]); }
	if (-1 != k_fill[1]) { linger0(k_fill[1]); close(k_fill[1]); }
	if (-1 != k_lfd)
		close(k_lfd);
	unlink(a_path);
}

/* ---------------- connect_ex ---------------- */
static void
x_destroy(tp_task_p tptask) {
	if (c_scn->known_timer_wa)
		tp_task_timeout_set(tptask, 1);
	tp_task_destroy(tptask);
}

static int
connect_ex_cb(tp_task_p tptask, int error, tp_task_conn_prms_p prms, size_t addr_index, void *udata) {
	uint32_t n = atomic_fetch_add(&g_ncb, 1);
	const c16c_scn *s = c_scn;
	c16c_cb rec;
	int ret = TP_TASK_CB_NONE;
	uintptr_t ident = tp_task_ident_get(tptask);

	(void)udata;
	memset(&rec, 0, sizeof(rec));
	if (0 != atomic_load(&g_stopped))
		atomic_fetch_add(&g_cb_after_stop, 1);
	rec.kind = 2;
	rec.error = error;
	rec.skt = ((uintptr_t)-1 == ident) ? -1 : (int64_t)ident;
	rec.addr_index = addr_index;
	rec.prms_ok = (prms == &x_prms);
	rec.on_owner = (tpt_get_current() == g_owner);
	rec.t_us = now_us();
	rec.live_fds = live_fds_now();
	rec.natt = atomic_load(&x_natt);
	if (0 == error) {
		struct sockaddr_storage ss;
		socklen_t sl = sizeof(ss);
		rec.peer_ok = ((uintptr_t)-1 != ident && 0 == getpeername((int)ident, (struct sockaddr *)&ss, &sl));
		if (rec.peer_ok && AF_INET == ss.ss_family)
			rec.peer_port = ntohs(((struct sockaddr_in *)&ss)->sin_port);
		if (0 == atomic_load(&g_finished))
			x_handed = rec.skt;
	}
	if (0 == error || -1 == error) {
		if (s->destroy_in_cb && !g_task_dead) {
			x_destroy(tptask);
			g_task_dead = 1;
			if (s->close_on_destroy && 0 == error)
				x_handed_closed = 1;
			rec.action = 3;
		}
		mark_stopped();
		atomic_store(&g_finished, (0 == error) ? 1 : 2);
	} else {
		uint32_t k = 1 + atomic_fetch_add(&x_nfail, 1);
		if (0 != s->stop_at && k == s->stop_at) {
			if (2 == s->stop_how && !g_task_dead) {
				x_destroy(tptask);
				g_task_dead = 1;
			}
			rec.action = 3;
			mark_stopped();
			atomic_store(&g_finished, 3);
		} else
			ret = TP_TASK_CB_CONTINUE;
	}
	rec.ret = ret;
	c_rec_store(n, &rec);
	return (ret);
}

static void
x_start_cb(tpt_p tpt, void *udata) {
	const c16c_scn *s = c_scn;
	uint32_t fl = (s->close_on_destroy ? TP_TASK_F_CLOSE_ON_DESTROY : 0) | (s->f_every ? TP_TASK_F_CB_AFTER_EVERY_READ : 0);

	(void)udata;
	c_out->start_rc = tp_task_connect_ex_create(tpt, fl, s->timeout_ms, (1 == s->arg_case) ? NULL : &x_prms, connect_ex_cb, NULL,
	    (2 == s->arg_case) ? NULL : &g_task);
	c_out->ncb_at_start_ret = atomic_load(&g_ncb);
	c_out->natt_at_start_ret = atomic_load(&x_natt);
	atomic_fetch_add(&g_started, 1);
}

static void
x_kill_task(void) {
	if (NULL != g_task && !g_task_dead) {
		int fin = (int)atomic_load(&g_finished);
		if (!c_scn->close_on_destroy && 1 != fin)
			tp_task_ident_close(g_task); /* a socket in flight belongs to the task: close it with the task */
		x_destroy(g_task);
		g_task_dead = 1;
		if (c_scn->close_on_destroy && 1 == fin)
			x_handed_closed = 1;
	}
	mark_stopped();
}
static void
x_cut_cb(tpt_p tpt, void *udata) {
	(void)tpt; (void)udata;
	if (0 == atomic_load(&g_finished)) {
		c_out->cut_done = 1;
		if (c_scn->cut_close_only && NULL != g_task && !g_task_dead) {
			/* header: tp_task_ident_close() = tp_task_stop(); close(ident); ident = -1 -- also while the task only waits
			 * for its retry delay (no socket at that moment) */
			tp_task_ident_close(g_task);
			mark_stopped();
		} else
			x_kill_task();
		c_out->natt_at_cut = atomic_load(&x_natt);
	}
	atomic_fetch_add(&g_cut, 1);
}
static void x_final_cb(tpt_p tpt, void *udata) { (void)tpt; (void)udata; x_kill_task(); atomic_fetch_add(&g_final, 1); }

static void
run_connect_ex(const c16c_scn *scn, c16c_out *out) {
	uint32_t j, w;
	int ceiling, runaway = 0;

	memset(x_lst, 0, sizeof(x_lst));
	memset(x_addrs, 0, sizeof(x_addrs));
	for (j = 0; j < C16C_MAX_ADDR; j ++)
		x_lst[j].fd = x_lst[j].fill[0] = x_lst[j].fill[1] = -1;
	x_naddrs = MIN(scn->naddrs, C16C_MAX_ADDR);
	x_handed = -1;
	x_handed_closed = 0;
	atomic_store(&x_nfail, 0);
	atomic_store(&x_natt, 0);
	for (j = 0; j < x_naddrs; j ++) {
		x_lst_t *l = &x_lst[j];
		l->kind = scn->addrs[j].kind;
		l->open_after = scn->addrs[j].open_after;
		if (1 == l->kind) {
			struct sockaddr_un *sun = (struct sockaddr_un *)&x_addrs[j];
			snprintf(l->path, sizeof(l->path), "%s/c16x-%d-%u.sock", scn->dir, (int)getpid(), j);
			unlink(l->path);
			sun->sun_family = AF_UNIX;
			strncpy(sun->sun_path, l->path, sizeof(sun->sun_path) - 1);
			if (0 == l->open_after) {
				x_open(j);
				if (-1 == l->fd) {
					out->skipped = 1;
					goto out_nopool;
				}
			}
		} else {
			struct sockaddr_in *sin = (struct sockaddr_in *)&x_addrs[j];
			if (2 == l->kind)
				l->fd = blackhole_listener(sin, l->fill);
			else
				l->fd = tcp_bound_socket(SOCK_STREAM, sin);
			if (-1 == l->fd) {
				out->skipped = 1;
				goto out_nopool;
			}
			l->port = ntohs(sin->sin_port);
			out->lst_port[j] = l->port;
			if (0 == l->kind && 0 == l->open_after)
				x_open(j);
		}
	}
	memset(&x_prms, 0, sizeof(x_prms));
	x_prms.time_limit = scn->time_limit_ms;
	x_prms.retry_delay = scn->retry_delay_ms;
	x_prms.max_tries = scn->max_tries;
	x_prms.flags = (scn->f_initial_delay ? TP_TASK_CONNECT_F_INITIAL_DELAY : 0) | (scn->f_rr ? TP_TASK_CONNECT_F_ROUND_ROBIN : 0);
	x_prms.protocol = scn->protocol;
	x_prms.addrs_count = x_naddrs;
	x_prms.addrs = x_addrs;

	out->setup_rc = pool_up();
	if (0 != out->setup_rc)
		goto out_nopool;
	out->pool_live_fds = live_fds_now();
	tp_harness_arm();
	g_sock_fault_k = scn->sock_fault_k;
	g_fault_errno = scn->fault_errno;
	x_active = 1;
	atomic_store(&g_conn_armed, 1);
	out->t_create_us = now_us();
	out->hang |= run_owner(x_start_cb, &g_started);
	if (0 == out->start_rc && 0 == scn->arg_case) {
		ceiling = ceil_ms() * 10;
		for (w = 0; 0 == atomic_load(&g_finished); w ++) {
			if (0 != scn->cut_after && atomic_load(&x_natt) >= scn->cut_after)
				break;
			if (atomic_load(&x_natt) > C16C_MAX_ATT) { /* more attempts than any documented schedule has: runaway */
				runaway = 1;
				break;
			}
			if ((int)w >= ceiling) {
				if (!g_has_faults && 0 == scn->sock_fault_k)
					out->wait_failed = 1;
				break;
			}
			usleep(100);
		}
		if (0 == atomic_load(&g_finished) && (0 != scn->cut_after || runaway))
			out->hang |= run_owner(x_cut_cb, &g_cut);
	}
	out->t_end_us = now_us();
	out->hang |= fences(2);
	/* a retry-delay or connect timer left behind by a stopped/destroyed task would fire within this window */
	usleep(1000u * MIN(scn->retry_delay_ms, 40u) + 1500);
	out->hang |= fences(2);
	out->hang |= run_owner(x_final_cb, &g_final);
	out->hang |= fences(3);
	usleep(1000u * MIN(scn->retry_delay_ms, 40u) + 1500);
	out->hang |= fences(2);
	x_active = 0;
	atomic_store(&g_conn_armed, 0);
	tp_harness_disarm();
	out->ncb = atomic_load(&g_ncb);
	out->cb_after_stop = atomic_load(&g_cb_after_stop);
	out->natt = atomic_load(&x_natt);
	out->finished = (uint8_t)atomic_load(&g_finished);
	pool_down();
	if (x_handed >= 0 && !x_handed_closed) { /* handed over as connected: the caller closes it */
		linger0((int)x_handed);
		verif_close((int)x_handed);
	}
out_nopool:
	x_active = 0;
	for (j = 0; j < x_naddrs; j ++) {
		x_lst_t *l = &x_lst[j];
		if (2 != l->kind && l->opened) {
			out->lst_accepted[j] = drain_listener(l->fd);
			out->listener_accepted += out->lst_accepted[j];
		}
		if (-1 != l->fill[0]) { linger0(l->fill[0]); close(l->fill[0]); }
		if (-1 != l->fill[1]) { linger0(l->fill[1]); close(l->fill[1]); }
		if (-1 != l->fd)
			close(l->fd);
		if (1 == l->kind)
			unlink(l->path);
	}
}

void
c16c_run(const c16c_scn *scn, c16c_out *out) {
	tp_res_stats rs0;

	memset(out, 0, sizeof(*out));
	c_scn = scn;
	c_out = out;
	x_active = 0;
	common_reset(&scn->plans);
	tp_res_get(&rs0);
	out->base_live_fds = rs0.live_fds;
	switch (scn->mode) {
	case 0:
	case 1:
		run_accept(scn, out);
		break;
	case 2:
		run_connect(scn, out);
		break;
	default:
		run_connect_ex(scn, out);
		break;
	}
	out->sock_injected = atomic_load(&g_sock_injected);
	out->accept_injected = atomic_load(&g_accept_injected);
	tp_res_get(&out->res);
	tp_res_cleanup();
	g_close_unknown_passthrough = 0;
	c_out = NULL;
}
