/* Flat C ABI between drivers/C08_cipher.cpp and shims/cipher.c
 * (/repo/include/crypto/cipher/chacha.h + gost28147.h).  All data buffers are
 * allocated by the driver (exact size, chosen alignment); library contexts are
 * allocated and owned by the shim and handed out as opaque pointers. */
#ifndef C08_CIPHER_ABI_H
#define C08_CIPHER_ABI_H
#include <stddef.h>
#include <stdint.h>
#ifdef __cplusplus
extern "C" {
#endif

enum {
	C08_INFO_ASAN = 1,		/* shim built with AddressSanitizer */
	C08_INFO_SMALL_TABLES,		/* GOST28147_USE_SMALL_TABLES defined */
	C08_INFO_CHACHA_X64,		/* CHACHA_X64 path compiled */
	C08_INFO_GOST_NSBOX,		/* number of built-in S-box tables known to the shim */
	C08_INFO_CHACHA_NVEC,		/* number of embedded chacha_tst1v vectors */
	C08_INFO_CC_CTX_SIZE,		/* sizeof(chacha_context_str_t) */
	C08_INFO_GOST_CTX_SIZE,		/* sizeof(gost28147_context_t) */
	C08_INFO_GCC,			/* 1 = compiled by gcc, 0 = clang */
	C08_INFO_TBAA			/* -DC08_TBAA=1: the variant was built with strict aliasing in effect
					 * (gcc >= -O2 or clang >= -O1, without -fno-strict-aliasing); there is no
					 * predefined macro for this, vlib/reg_C08.py passes it */
};
long	c08_info(int what);

/* ---- the library's own embedded self-tests (never built by its test-suite) ---- */
int	c08_chacha_self_test(void);	/* number of failed sub-tests */
int	c08_gost_self_test(void);

/* ---- ChaCha ---- */
/* init paths */
enum {
	C08_CC_STR_INIT = 0,	/* chacha_str_init / xchacha_str_init (counter as 8 bytes or NULL) */
	C08_CC_SETTERS = 1	/* chacha_key_set + chacha_iv_set (or xchacha_set_key_iv_rounds) + chacha_counter_set_u64, ks_len = 0 */
};
/* x: 0 chacha, 1 xchacha. key_size is passed through as given (16, 32, or 256 = "bits" alias the header accepts).
 * counter: 8 bytes LE or NULL; iv: 8 (24 for x) bytes or NULL. Returns a chacha_context_str_t. */
void	*c08_cc_new(int x, int init_path, const uint8_t *key, size_t key_size,
	    const uint8_t *counter, const uint8_t *iv, size_t rounds);
void	c08_cc_crypt(void *h, const uint8_t *src, size_t bytes, uint8_t *dst);		/* chacha_str_data_crypt */
void	c08_cc_blocks(void *h, const uint8_t *src, size_t blocks, uint8_t *dst);	/* chacha_blocks_transform on &ctx->c */
uint64_t c08_cc_counter(void *h);							/* chacha_counter_get_u64 */
void	c08_cc_counter_set(void *h, const uint8_t *counter);				/* chacha_counter_set */
size_t	c08_cc_kslen(void *h);
/* chacha_str_final (simple=0) or chacha_final on &ctx->c (simple=1); returns 1 when every byte the call
 * promises to wipe is zero afterwards; frees the context. */
int	c08_cc_final(void *h, int simple);
void	c08_cc_oneshot(int x, const uint8_t *key, size_t key_size, const uint8_t *counter,
	    const uint8_t *iv, size_t rounds, const uint8_t *src, size_t bytes, uint8_t *dst);
void	c08_hchacha(const uint8_t *key, size_t key_size, const uint8_t *iv, size_t rounds, uint8_t *dst);

/* embedded chacha_tst1v[] entry idx, raw fields as the header stores them (hex strings; NULL allowed) */
typedef struct c08_cc_vec {
	size_t		rounds;
	const char	*key_hex;	size_t key_hex_len;
	const char	*count_hex;	/* 16 hex digits, big-endian number (chacha_import_be_hex) */
	const char	*iv_hex;	/* 16 hex digits, byte string */
	size_t		data_hex_len;
	const char	*plain_hex;
	const char	*enc_hex;
} c08_cc_vec;
int	c08_cc_vector(int idx, c08_cc_vec *out);	/* 0 ok, -1 out of range */
/* the hchacha/xchacha/chacha "floodyberry" expectations: which = 0 hchacha(32), 1 chacha oneshot(64), 2 xchacha oneshot(64) */
const uint8_t *c08_cc_expected(int which);

/* ---- GOST 28147-89 ---- */
const char	*c08_gost_sbox_name(int idx);	/* array name without "_sbox" */
const uint8_t	*c08_gost_sbox(int idx);	/* the library's 128-byte table */
/* gost28147_init / gost28147_init_be into a fresh context; *rc receives the return code.
 * sbox must stay valid until c08_gost_final (small-table builds keep the pointer). */
void	*c08_gost_new(int be, const uint8_t *key, size_t key_size, const uint8_t *sbox, int *rc);
/* argument validation: which NULL to pass: bit0 ctx, bit1 key, bit2 sbox */
int	c08_gost_init_rc(int be, int null_mask, const uint8_t *key, size_t key_size, const uint8_t *sbox);
void	c08_gost_encrypt(void *h, int be, const uint8_t *src, size_t blocks, uint8_t *dst);
void	c08_gost_decrypt(void *h, int be, const uint8_t *src, size_t blocks, uint8_t *dst);
void	c08_gost_mac(void *h, int be, const uint8_t *src, size_t blocks);
/* gost28147_final / _final_be; returns 1 when the whole context is zero afterwards; frees it */
int	c08_gost_final(void *h, int be, uint8_t *mac, size_t mac_size);
/* one application of gost28147_block32 (funcG) with a context initialised with sbox idx and a zero key */
uint32_t c08_gost_block32(int sbox_idx, uint32_t x);

/* embedded self-test vectors; table: 0 tst1v, 1 tst1v_be, 2 tst2v (mac), 3 tst2v_be (mac) */
typedef struct c08_gost_vec {
	const char	*key_hex;	size_t key_hex_len;
	int		sbox_idx;	/* index into c08_gost_sbox(), -1 if unknown table */
	size_t		data_hex_len;
	const char	*plain_hex;
	const char	*result_hex;	/* ciphertext, or 16 hex digits of MAC */
} c08_gost_vec;
int	c08_gost_vector(int table, int idx, c08_gost_vec *out);	/* 0 ok, -1 end */
/* funcG vectors: table 0 = gost28147_tstgv (x = a + k -> g_res), 1 = gost28147_tstgkv (a0 ^ g(a1 + k) -> a0_res) */
int	c08_gost_gvector(int table, int idx, int *sbox_idx, uint32_t *a0, uint32_t *a1, uint32_t *k, uint32_t *res);

#ifdef __cplusplus
}
#endif
#endif
