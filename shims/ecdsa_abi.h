/* Flat ABI between shims/ecdsa_shim.c (C, includes /repo/include/crypto/dsa/ecdsa.h) and
 * drivers/C03_sig.cpp, drivers/C09_keys.cpp (C++, never include liblcb headers).
 * Owner: C03 / C09.
 *
 * Every byte-string argument handed to liblcb is a separate heap block of exactly the
 * size the driver states (ASan builds: the first byte outside is in a redzone; other
 * builds: 32 guard bytes on each side that are verified after the call).  Outputs are
 * pre-filled with 0xA5. */
#ifndef VERIF_ECDSA_ABI_H
#define VERIF_ECDSA_ABI_H
#include <stddef.h>
#include <stdint.h>
#ifdef __cplusplus
extern "C" {
#endif

#define ES_MAXB 72 /* >= bytes of the largest coordinate (66) */

enum {
	ES_INFO_W = 0, ES_INFO_BITLEN, ES_INFO_PROJ, ES_INFO_TWIN, ES_INFO_FXP, ES_INFO_FXP_W,
	ES_INFO_UNK, ES_INFO_UNK_W, ES_INFO_NOCHK, ES_INFO_ASAN, ES_INFO_SCALE_PCT, ES_INFO_CC
};
long es_info(int what);

typedef struct {
	char name[64];
	uint32_t m, bytes, algo, h, flags, num_hex; /* num_hex: table string width in hex digits */
	/* big endian, right aligned in ES_MAXB bytes */
	uint8_t p[ES_MAXB], a[ES_MAXB], b[ES_MAXB], gx[ES_MAXB], gy[ES_MAXB], n[ES_MAXB];
} es_curve_t;
int es_curve_count(void);
int es_curve_info(int idx, es_curve_t *out); /* straight from the string table, no liblcb arithmetic */
int es_curve_load(int idx);		     /* rc of ecdsa_curve_from_str (cached) */

/* input: n bytes at p (n may be 0); null != 0 -> pass NULL to liblcb */
typedef struct { const uint8_t *p; size_t n; int null; } es_in;
/* output: the shim allocates exactly cap bytes, lets liblcb write, copies cap bytes back to p */
typedef struct { uint8_t *p; size_t cap; int null; } es_out;

enum { ES_BE = 0, ES_LE = 1, ES_BN = 2 }; /* ES_BN: bn_t level function, numbers passed big endian */
#define ES_SIZE_UNSET ((size_t)0x5a5a5a5a)
#define ES_RC_SHIM 10000 /* shim-side failure (conversion for the ES_BN entry points), + liblcb rc */

/* ecdsa_sign_be / ecdsa_sign_le / ecdsa_sign */
int es_sign(int ci, int mode, const es_in *hash, const es_in *priv, const es_in *rnd,
    es_out *r, es_out *s, size_t *sign_size);
/* ecdsa_verify_be / _le / ecdsa_verify.  ES_BN: pkx/pky = affine x / y, pkx->n == 1 && p[0] == 0 -> infinity */
int es_verify(int ci, int mode, const es_in *hash, const es_in *r, const es_in *s, size_t sign_size,
    const es_in *pkx, const es_in *pky, size_t pk_size);
/* ecdsa_verify_priv_key_be / _le / ecdsa_verify_priv_key */
int es_verify_priv(int ci, int mode, const es_in *hash, const es_in *r, const es_in *s, size_t sign_size,
    const es_in *priv);
/* ecdsa_pub_key_export_be / _le: point given as (inf, x, y) big endian numbers */
int es_pub_export(int ci, int le, int compress, int inf, const es_in *x, const es_in *y,
    es_out *pkx, es_out *pky, size_t *pk_size);
/* ecdsa_pub_key_import_be / _le into a point initialised like the in-tree callers do
 * (ec_point_init(&Q, curve->m)); on rc 0 returns the point: *inf, x_be[bytes], y_be[bytes].
 * xy_ok = 0 when a coordinate does not fit into bytes octets. */
/* the point object handed to the next es_pub_import() call is one that received the one-octet encoding of the neutral element before (a caller that
 * re-uses its ec_point_t for successive imports) */
void es_pub_import_reuse_next(int on);
int es_pub_import(int ci, int le, const es_in *pkx, const es_in *pky, size_t pk_size,
    int *inf, uint8_t *x_be, uint8_t *y_be, int *xy_ok);
/* ecdsa_key_gen_be / _le / ecdsa_key_gen (ES_BN: rnd number in, priv = d, pkx/pky = affine Q, *pk_size = 1 if infinity) */
int es_key_gen(int ci, int mode, const es_in *rnd, int compress, es_out *priv, size_t *priv_size,
    es_out *pkx, es_out *pky, size_t *pk_size);
/* ecdsa_recover_pub_key_from_priv_key_be / _le */
int es_recover(int ci, int le, const es_in *priv, int compress, es_out *pkx, es_out *pky, size_t *pk_size);
/* ecdsa_dh_be / _le / ecdsa_dh */
int es_dh(int ci, int mode, int use_cofactor, const es_in *pkx, const es_in *pky, size_t pk_size,
    const es_in *priv, es_out *shared, size_t *shared_size);

/* arm (1) / disarm (0): ec_point_mult_bp() and ec_point_twin_mult_bp() called from ecdsa.h fail with
 * EOVERFLOW and leave their result object untouched */
void es_fault_mult(int on);

/* guard report of the most recent call: NULL when all guards were intact */
const char *es_guard(void);

#ifdef __cplusplus
}
#endif
#endif
