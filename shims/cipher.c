/* C shim over /repo/include/crypto/cipher/chacha.h and gost28147.h for
 * drivers/C08_cipher.cpp.  Compiled once per build variant:
 *   {gcc,clang} x {-O0..-O3} x {default,-fno-strict-aliasing} x [-DGOST28147_USE_SMALL_TABLES]
 * The two headers both define U8TO32_LITTLE/U32TO8_LITTLE as static functions,
 * so the second include gets them renamed (no behavioural effect). */
#include <sys/param.h>
#include <sys/types.h>
#include <stdint.h>
#include <stdlib.h>
#include <string.h>
#include <stdio.h>
#include <errno.h>
#include <inttypes.h>

#define CHACHA_SELF_TEST 1
#define GOST28147_SELF_TEST 1
#include <crypto/cipher/chacha.h>
#define U8TO32_LITTLE	gost28147_U8TO32_LITTLE
#define U32TO8_LITTLE	gost28147_U32TO8_LITTLE
#include <crypto/cipher/gost28147.h>
#undef U8TO32_LITTLE
#undef U32TO8_LITTLE
#include "cipher_abi.h"

#if defined(__SANITIZE_ADDRESS__)
#	define C08_ASAN 1
#elif defined(__has_feature)
#	if __has_feature(address_sanitizer)
#		define C08_ASAN 1
#	endif
#endif
#ifndef C08_ASAN
#	define C08_ASAN 0
#endif

/* Every built-in table the header defines. A table added upstream = one line here. */
static const struct { const char *name; const uint8_t *tbl; } c08_sboxes[] = {
	{ "id_gostr3411_94_testparamset",		id_gostr3411_94_testparamset_sbox },
	{ "id_gost28147_89_cryptopro_a_paramset",	id_gost28147_89_cryptopro_a_paramset_sbox },
	{ "id_gost28147_89_cryptopro_b_paramset",	id_gost28147_89_cryptopro_b_paramset_sbox },
	{ "id_gost28147_89_cryptopro_c_paramset",	id_gost28147_89_cryptopro_c_paramset_sbox },
	{ "id_gost28147_89_cryptopro_d_paramset",	id_gost28147_89_cryptopro_d_paramset_sbox },
	{ "id_tc26_gost_28147_param_z",			id_tc26_gost_28147_param_z_sbox },
};
#define C08_NSBOX	((int)(sizeof(c08_sboxes) / sizeof(c08_sboxes[0])))

static int
c08_sbox_index(const uint8_t *tbl) {
	int i;

	for (i = 0; i < C08_NSBOX; i ++) {
		if (c08_sboxes[i].tbl == tbl)
			return (i);
	}
	return (-1);
}

long
c08_info(int what) {
	long n;

	switch (what) {
	case C08_INFO_ASAN:
		return (C08_ASAN);
	case C08_INFO_SMALL_TABLES:
#ifdef GOST28147_USE_SMALL_TABLES
		return (1);
#else
		return (0);
#endif
	case C08_INFO_CHACHA_X64:
#ifdef CHACHA_X64
		return (1);
#else
		return (0);
#endif
	case C08_INFO_GOST_NSBOX:
		return (C08_NSBOX);
	case C08_INFO_CHACHA_NVEC:
		for (n = 0; 0 != chacha_tst1v[n].rounds; n ++)
			;
		return (n);
	case C08_INFO_CC_CTX_SIZE:
		return ((long)sizeof(chacha_context_str_t));
	case C08_INFO_GOST_CTX_SIZE:
		return ((long)sizeof(gost28147_context_t));
	case C08_INFO_GCC:
#if defined(__clang__)
		return (0);
#else
		return (1);
#endif
	case C08_INFO_TBAA:
#ifdef C08_TBAA
		return (1);
#else
		return (0);
#endif
	}
	return (-1);
}

int
c08_chacha_self_test(void) {
	return (chacha_self_test());
}

int
c08_gost_self_test(void) {
	return (gost28147_self_test());
}

static int
c08_all_zero(const void *p, size_t n) {
	const uint8_t *b = (const uint8_t*)p;
	size_t i;

	for (i = 0; i < n; i ++) {
		if (0 != b[i])
			return (0);
	}
	return (1);
}

/* ------------------------------------------------------------------ ChaCha */
void *
c08_cc_new(int x, int init_path, const uint8_t *key, size_t key_size,
    const uint8_t *counter, const uint8_t *iv, size_t rounds) {
	chacha_context_str_p ctx;
	uint64_t c64 = 0;
	int i;

	/* stale storage: nothing may depend on the previous content */
	ctx = malloc(sizeof(chacha_context_str_t));
	if (NULL == ctx)
		abort();
	memset(ctx, 0xa5, sizeof(chacha_context_str_t));
	if (C08_CC_STR_INIT == init_path) {
		if (x) {
			xchacha_str_init(ctx, key, key_size, counter, iv, rounds);
		} else {
			chacha_str_init(ctx, key, key_size, counter, iv, rounds);
		}
		return (ctx);
	}
	/* setter path */
	if (x) {
		xchacha_set_key_iv_rounds(&ctx->c, key, key_size, iv, rounds);
	} else {
		chacha_key_set(&ctx->c, key, key_size);
		chacha_iv_set(&ctx->c, iv);
		ctx->c.rounds = rounds;
	}
	if (NULL != counter) {
		for (i = 7; i >= 0; i --)
			c64 = ((c64 << 8) | counter[i]);
	}
	chacha_counter_set_u64(&ctx->c, c64);
	ctx->ks_len = 0;
	return (ctx);
}

void
c08_cc_crypt(void *h, const uint8_t *src, size_t bytes, uint8_t *dst) {
	chacha_str_data_crypt((chacha_context_str_p)h, src, bytes, dst);
}

void
c08_cc_blocks(void *h, const uint8_t *src, size_t blocks, uint8_t *dst) {
	chacha_blocks_transform(&((chacha_context_str_p)h)->c, src, blocks, dst);
}

uint64_t
c08_cc_counter(void *h) {
	return (chacha_counter_get_u64(&((chacha_context_str_p)h)->c));
}

void
c08_cc_counter_set(void *h, const uint8_t *counter) {
	chacha_counter_set(&((chacha_context_str_p)h)->c, counter);
}

size_t
c08_cc_kslen(void *h) {
	return (((chacha_context_str_p)h)->ks_len);
}

int
c08_cc_final(void *h, int simple) {
	chacha_context_str_p ctx = (chacha_context_str_p)h;
	int ok;

	if (simple) {
		chacha_final(&ctx->c);
		ok = c08_all_zero(&ctx->c, sizeof(chacha_context_t));
	} else {
		chacha_str_final(ctx);
		ok = c08_all_zero(ctx, sizeof(chacha_context_str_t));
	}
	free(ctx);
	return (ok);
}

void
c08_cc_oneshot(int x, const uint8_t *key, size_t key_size, const uint8_t *counter,
    const uint8_t *iv, size_t rounds, const uint8_t *src, size_t bytes, uint8_t *dst) {
	if (x) {
		xchacha(key, key_size, counter, iv, rounds, src, bytes, dst);
	} else {
		chacha(key, key_size, counter, iv, rounds, src, bytes, dst);
	}
}

void
c08_hchacha(const uint8_t *key, size_t key_size, const uint8_t *iv, size_t rounds, uint8_t *dst) {
	hchacha(key, key_size, iv, rounds, dst);
}

int
c08_cc_vector(int idx, c08_cc_vec *out) {
	if (idx < 0 || idx >= c08_info(C08_INFO_CHACHA_NVEC))
		return (-1);
	out->rounds = chacha_tst1v[idx].rounds;
	out->key_hex = (const char*)chacha_tst1v[idx].key;
	out->key_hex_len = chacha_tst1v[idx].key_size;
	out->count_hex = (const char*)chacha_tst1v[idx].count;
	out->iv_hex = (const char*)chacha_tst1v[idx].iv;
	out->data_hex_len = chacha_tst1v[idx].data_size;
	out->plain_hex = (const char*)chacha_tst1v[idx].plain;
	out->enc_hex = (const char*)chacha_tst1v[idx].encrypted;
	return (0);
}

const uint8_t *
c08_cc_expected(int which) {
	switch (which) {
	case 0: return (expected_hchacha);
	case 1: return (expected_chacha_oneshot);
	case 2: return (expected_xchacha_oneshot);
	}
	return (NULL);
}

/* ------------------------------------------------------------------ GOST 28147-89 */
const char *
c08_gost_sbox_name(int idx) {
	return ((idx >= 0 && idx < C08_NSBOX) ? c08_sboxes[idx].name : NULL);
}

const uint8_t *
c08_gost_sbox(int idx) {
	return ((idx >= 0 && idx < C08_NSBOX) ? c08_sboxes[idx].tbl : NULL);
}

void *
c08_gost_new(int be, const uint8_t *key, size_t key_size, const uint8_t *sbox, int *rc) {
	gost28147_context_p ctx;

	ctx = malloc(sizeof(gost28147_context_t));
	if (NULL == ctx)
		abort();
	memset(ctx, 0x5a, sizeof(gost28147_context_t));
	if (be) {
		(*rc) = gost28147_init_be(key, key_size, sbox, ctx);
	} else {
		(*rc) = gost28147_init(key, key_size, sbox, ctx);
	}
	return (ctx);
}

int
c08_gost_init_rc(int be, int null_mask, const uint8_t *key, size_t key_size, const uint8_t *sbox) {
	gost28147_context_t ctx;
	gost28147_context_p pctx = ((null_mask & 1) ? NULL : &ctx);

	if (null_mask & 2)
		key = NULL;
	if (null_mask & 4)
		sbox = NULL;
	if (be)
		return (gost28147_init_be(key, key_size, sbox, pctx));
	return (gost28147_init(key, key_size, sbox, pctx));
}

void
c08_gost_encrypt(void *h, int be, const uint8_t *src, size_t blocks, uint8_t *dst) {
	if (be) {
		gost28147_blocks_encrypt_be((gost28147_context_p)h, src, blocks, dst);
	} else {
		gost28147_blocks_encrypt((gost28147_context_p)h, src, blocks, dst);
	}
}

void
c08_gost_decrypt(void *h, int be, const uint8_t *src, size_t blocks, uint8_t *dst) {
	if (be) {
		gost28147_blocks_decrypt_be((gost28147_context_p)h, src, blocks, dst);
	} else {
		gost28147_blocks_decrypt((gost28147_context_p)h, src, blocks, dst);
	}
}

void
c08_gost_mac(void *h, int be, const uint8_t *src, size_t blocks) {
	if (be) {
		gost28147_blocks_mac_be((gost28147_context_p)h, src, blocks);
	} else {
		gost28147_blocks_mac((gost28147_context_p)h, src, blocks);
	}
}

int
c08_gost_final(void *h, int be, uint8_t *mac, size_t mac_size) {
	gost28147_context_p ctx = (gost28147_context_p)h;
	int ok;

	if (be) {
		gost28147_final_be(ctx, mac, mac_size);
	} else {
		gost28147_final(ctx, mac, mac_size);
	}
	ok = c08_all_zero(ctx, sizeof(gost28147_context_t));
	free(ctx);
	return (ok);
}

uint32_t
c08_gost_block32(int sbox_idx, uint32_t x) {
	gost28147_context_t ctx;
	uint8_t key[GOST28147_KEY_SIZE];

	memset(key, 0x00, sizeof(key));
	if (0 != gost28147_init(key, GOST28147_KEY_SIZE, c08_gost_sbox(sbox_idx), &ctx))
		abort();
	return (gost28147_block32(&ctx, x));
}

int
c08_gost_vector(int table, int idx, c08_gost_vec *out) {
	int i;

	if (idx < 0)
		return (-1);
	if (0 == table || 1 == table) {
		gost28147_tst1v_p t = (0 == table) ? gost28147_tst1v : gost28147_tst1v_be;
		for (i = 0; i <= idx; i ++) {
			if (0 == t[i].key_size)
				return (-1);
		}
		out->key_hex = (const char*)t[idx].key;
		out->key_hex_len = t[idx].key_size;
		out->sbox_idx = c08_sbox_index(t[idx].sbox);
		out->data_hex_len = t[idx].data_size;
		out->plain_hex = (const char*)t[idx].plain;
		out->result_hex = (const char*)t[idx].encrypted;
		return (0);
	}
	if (2 == table || 3 == table) {
		gost28147_tst2v_p t = (2 == table) ? gost28147_tst2v : gost28147_tst2v_be;
		for (i = 0; i <= idx; i ++) {
			if (0 == t[i].key_size)
				return (-1);
		}
		out->key_hex = (const char*)t[idx].key;
		out->key_hex_len = t[idx].key_size;
		out->sbox_idx = c08_sbox_index(t[idx].sbox);
		out->data_hex_len = t[idx].data_size;
		out->plain_hex = (const char*)t[idx].plain;
		out->result_hex = (const char*)t[idx].mac;
		return (0);
	}
	return (-1);
}

int
c08_gost_gvector(int table, int idx, int *sbox_idx, uint32_t *a0, uint32_t *a1, uint32_t *k, uint32_t *res) {
	int i;

	if (idx < 0)
		return (-1);
	if (0 == table) {
		for (i = 0; i <= idx; i ++) {
			if (NULL == gost28147_tstgv[i].sbox)
				return (-1);
		}
		(*sbox_idx) = c08_sbox_index(gost28147_tstgv[idx].sbox);
		(*a0) = 0;
		(*a1) = gost28147_tstgv[idx].a;
		(*k) = gost28147_tstgv[idx].k;
		(*res) = gost28147_tstgv[idx].g_res;
		return (0);
	}
	if (1 == table) {
		for (i = 0; i <= idx; i ++) {
			if (NULL == gost28147_tstgkv[i].sbox)
				return (-1);
		}
		(*sbox_idx) = c08_sbox_index(gost28147_tstgkv[idx].sbox);
		(*a0) = gost28147_tstgkv[idx].a0;
		(*a1) = gost28147_tstgkv[idx].a1;
		(*k) = gost28147_tstgkv[idx].k;
		(*res) = gost28147_tstgkv[idx].a0_res;
		return (0);
	}
	return (-1);
}
