/* ABI of the thread-pool harness shims (tp_common.c, tp_msg.c, tp_life.c, tp_ev.c,
 * tp_task.c) used by drivers/C05, C06, C10, C11, C16. */
#ifndef VERIF_TP_ABI_H
#define VERIF_TP_ABI_H
#include <stdint.h>
#include <stddef.h>

#ifdef __cplusplus
extern "C" {
#endif

/* ---------------- history log ---------------- */
typedef struct {
	uint32_t kind;
	uint32_t thr;	/* harness-assigned small index of the OS thread that appended */
	uint64_t a, b, c, d;
	uint64_t cur;	/* tpt_get_current() of the appending thread (0 = not a pool thread) */
} tp_rec;

#define TP_LOG_MAX (1u << 18)
extern tp_rec *tp_log_buf;	/* the current epoch's buffer (see tp_common.c) */
uint32_t tp_log_count(void);
uint32_t tp_log_dropped(void);

enum { /* record kinds */
	R_SEND_CALL = 1,	/* a = send id */
	R_SEND_RET,		/* a = send id, b = rc */
	R_CB,			/* a = send id, b = tpt argument, c = nothing */
	R_CB_END,		/* a = send id */
	R_HOOK_START,		/* a = tpt, b = thread_num */
	R_HOOK_STOP,		/* a = tpt, b = thread_num */
	R_BCAST_CALL,		/* a = bcast id */
	R_BCAST_RET,		/* a = bcast id, b = rc, c = send_msg_cnt, d = error_cnt */
	R_BCAST_CB,		/* a = bcast id, b = tpt argument */
	R_BCAST_CB_END,		/* a = bcast id, b = tpt argument */
	R_BCAST_DONE,		/* a = bcast id, b = tpt argument, c = send_msg_cnt, d = error_cnt */
	R_API_CALL,		/* a = step index, b = api id */
	R_API_RET,		/* a = step index, b = api id, c = rc */
	R_EV_CB,		/* a = ident slot, b = ev.event, c = ev.flags, d = ev.fflags */
	R_MARK,			/* a = marker */
	R_TASK_CB		/* task callbacks, see tp_task.c */
};

/* ---------------- schedule plan and fault plan ---------------- */
#define TP_PLAN_MAX 64
#define TP_FAULT_MAX 24
enum { /* interposed functions that can be made to fail */
	F_QWRITE = 1,	/* write() on a message-queue pipe */
	F_QREAD,	/* read() on a message-queue pipe */
	F_CALLOC, F_EPOLL_CREATE, F_PIPE2, F_EPOLL_CTL, F_TIMERFD_CREATE, F_TIMERFD_SETTIME, F_PTHREAD_CREATE,
	F_LAST
};
typedef struct {
	uint8_t fn;	/* F_* */
	uint32_t k;	/* the k-th call (1-based) after arming fails */
	int32_t err;	/* errno to report */
} tp_fault;
typedef struct {
	uint32_t plan_len;
	uint8_t plan[TP_PLAN_MAX];
	uint32_t nfaults;
	tp_fault faults[TP_FAULT_MAX];
} tp_plans;

/* resource accounting of everything the library acquired through the interposed calls */
typedef struct {
	uint32_t live_allocs, live_fds, unjoined_threads;
	uint32_t total_allocs, total_fds, total_threads;
	uint32_t calls[F_LAST];		/* how often each injectable function was called while armed */
	uint32_t injected[F_LAST];
	uint32_t double_free, close_unknown;
	uint32_t bad_joins;		/* pthread_join() calls of the library on a thread id that was already joined / never created by it */
	uint32_t mutex_gone;		/* unlocks that found their mutex destroyed/overwritten while still held (see tp_common.c) */
	uint32_t vp_hits[32];
} tp_res_stats;

void tp_harness_reset(const tp_plans *plans);	/* clears log, counters, arms plans */
void tp_harness_disarm(void);
void tp_res_get(tp_res_stats *out);

/* ---------------- C05: unicast messages ---------------- */
#define C05_MAX_SENDERS 6
#define C05_MAX_SENDS 256
typedef struct {
	uint8_t dst;		/* thread index, 255 = pool virtual thread */
	uint8_t flags;		/* TP_MSG_F_* bits (SELF_DIRECT=1, FORCE=2, FAIL_DIRECT=4) */
	uint8_t src_own;	/* 1: pass the caller's own tpt as src (pool senders), 0: NULL */
} c05_send;
typedef struct {
	uint8_t in_pool;	/* 0 external thread, 1 runs inside pool thread pool_idx */
	uint8_t pool_idx;
	uint16_t nsends;
	c05_send sends[C05_MAX_SENDS];
} c05_sender;
typedef struct {
	uint8_t nthreads;	/* 1..16 */
	uint8_t skip_first;	/* thread 0 never started */
	uint8_t stall_dst;	/* 255 none; else this thread blocks in a callback while ... */
	uint16_t burst;		/* ... an external sender issues `burst` sends to it (queue-full) */
	uint8_t burst_flags;
	uint8_t nested_sync;	/* the callback of the first burst message (running on the released thread, its batch half read) issues a
				 * synchronous broadcast TP_BMSG_F_SYNC | TP_BMSG_F_SELF_SKIP to the other threads before it returns */
	uint16_t late_burst;	/* after everything else was delivered: thread late_dst is stalled in a callback, tp_shutdown() is called,
				 * then `late_burst` plain sends are issued to it (accepted: it is still running), then it is released */
	uint8_t late_dst;
	uint8_t race_n;		/* (only without late_burst) an external thread sends race_n messages to thread race_dst, each held for a moment
				 * right after its queue write, while tp_shutdown() is called: relaxed oracle, see drivers/C05_msg.cpp */
	uint8_t race_dst, race_flags;
	uint8_t pool_flags;	/* bit0 TP_S_F_BIND2CPU, bit1 TP_S_F_CLOEXEC */
	uint8_t selfarg;	/* the very first send of sender 0 passes the callback's own address as argument (checksum cb ^ udata == 0) */
	uint8_t naops;		/* async-operation helpers: this many tpt_msg_async_op_alloc()/tpt_msg_async_op_cb_free() pairs (see aop[]) */
	struct { uint8_t alloc_on, dst, free_on; } aop[8];	/* thread indexes; 255 = outside the pool (alloc_on), = NULL i.e. 'current thread' (dst) */
	uint8_t late_by_self;	/* late burst variant: the burst is queued first, then the held thread itself calls tp_shutdown() from its callback */
	uint8_t pvt_sources;	/* phase: every worker is held in a callback while nthreads pipes registered on the VIRTUAL thread become readable and
				 * one message is sent to the virtual thread; after the release the message must be delivered (exactly once) */
	uint8_t late_self;	/* the last message of the late burst sends to its own thread (flags 0 and FORCE) after the stop message was processed */
	uint8_t nsenders;
	c05_sender senders[C05_MAX_SENDERS];
	tp_plans plans;
} c05_scn;
typedef struct {
	int setup_rc;
	int hang;		/* fence / completion ceiling hit */
	uint32_t nsends;	/* total send ids used (senders first, then burst, then late burst) */
	uint32_t nlate;		/* how many of them belong to the late burst */
	uint32_t nrace;		/* how many of them raced with tp_shutdown() */
	uint32_t npvt_msg;	/* 1 if the pvt_sources phase issued its message (its id is the one right before the late / race / self ids) */
	uint32_t pvt_pipe_cbs;	/* pipe callbacks seen in that phase */
	uint32_t naop_done;	/* async operations whose alloc and completion calls were issued */
	uint32_t nself;		/* self-sends issued by the last late-burst callback (the very last ids) */
	uint64_t tpt_ptr[17];	/* pointer value of each pool thread object, [16] = pvt */
	tp_res_stats res;
} c05_out;
void c05_run(const c05_scn *scn, c05_out *out);

/* ---------------- C10: broadcasts ---------------- */
#define C10_MAX_BCASTS 3
typedef struct {
	uint8_t in_pool, pool_idx;	/* caller: 0 external thread, 1 pool thread pool_idx, 2 the thread of ANOTHER pool (outside this pool, but a pool thread) */
	uint8_t api;			/* 0 bsend_ex, 1 cbsend */
	uint32_t flags;			/* TP_MSG_F_* | TP_BMSG_F_* | TP_CBMSG_F_ONE_BY_ONE */
	uint8_t src_own;
	uint16_t cb_usec;		/* user callback duration */
} c10_bcast;
typedef struct {
	uint8_t nthreads;
	uint8_t skip_first;
	uint16_t detach_mask;		/* threads never started (their pthread_create is made to fail) */
	uint8_t pool_flags;		/* bit0 TP_S_F_BIND2CPU, bit1 TP_S_F_CLOEXEC */
	uint8_t signals;		/* a helper thread keeps sending SIGUSR1 (handled, no-op) to the external caller threads while they are inside their calls */
	uint8_t nbcasts;
	c10_bcast b[C10_MAX_BCASTS];
	tp_plans plans;
} c10_scn;
typedef struct {
	int setup_rc;
	int hang;
	uint64_t tpt_ptr[17];
	uint16_t running_mask;		/* threads running when the broadcasts were issued */
	tp_res_stats res;
} c10_out;
void c10_run(const c10_scn *scn, c10_out *out);

/* ---------------- C11: pool life cycle ---------------- */
enum { /* api ids logged in R_API_CALL / R_API_RET */
	A_CREATE = 1, A_THREADS_CREATE, A_ATTACH_FIRST, A_SHUTDOWN, A_SHUTDOWN_WAIT, A_DESTROY, A_WAIT_EARLY, A_TCREATE_LATE,
	A_ATTACH_LATE, A_WAIT_IN_POOL, A_DESTROY_IN_POOL, A_WAIT_ATTACHED, A_DETACH_SELF
};
typedef struct {
	uint8_t nthreads;	/* 1..16 */
	uint8_t flags;		/* bit0 BIND2CPU, bit1 CLOEXEC */
	uint8_t skip_first;
	uint8_t attach_first;	/* a helper thread becomes thread 0 via tp_thread_attach_first (needs skip_first) */
	uint8_t slow_stop;	/* 0 none; k+1: the stop hook of thread k takes ~1.5 ms before it reports (17 = the virtual thread) */
	uint8_t nmsgs;		/* in-flight messages sent right before shutdown */
	uint8_t msg_pvt;	/* some of them to the virtual thread */
	uint8_t timer;		/* periodic 1 ms timer on a thread */
	uint8_t pipe_ev;	/* a readable pipe registered as a persistent read event */
	uint8_t wait_early;	/* call tp_shutdown_wait before shutdown (must be EBUSY) */
	uint8_t shutdown_mode;	/* 0 outside, 1 from a pool thread, 2 two external threads at once, 3 twice, 4 skipped (destroy only) */
	uint8_t late_calls;	/* bit0 threads_create after shutdown (EBUSY), bit1 attach_first after shutdown (EBUSY) */
	uint8_t wait_mode;	/* 0 none, 1 outside, 2 from a pool thread first (EDEADLK) then outside, 3 two external threads at once,
				 * 4 (with attach_first) the formerly attached thread itself, after tp_thread_attach_first() returned */
	uint8_t detach_thread;	/* 0 none; k+1: worker k (created by tp_threads_create) calls tp_thread_dettach() on itself before the shutdown step */
	uint8_t hooks_mode;	/* 0 both hooks installed, 1 only the start hook, 2 only the stop hook, 3 none */
	uint8_t free_fd0;	/* descriptor 0 is closed while the pool lives (a daemon that closed stdin): the pool may own descriptor 0 */
	uint8_t destroy_in_pool_first; /* tp_destroy from a pool thread before shutdown (must be EDEADLK) */
	tp_plans plans;		/* schedule plan + resource faults armed from before tp_create */
} c11_scn;
typedef struct {
	int create_rc;
	int hang;
	uint64_t tp_ptr_after_failed_create; /* *ptp as left by a failing tp_create (harness pre-sets it to a sentinel) */
	uint64_t tpt_ptr[17];
	uint32_t log_at_destroy_ret;	/* log index when tp_destroy returned 0 */
	uint32_t reaped_after_destroy;	/* library threads the harness had to join itself */
	tp_res_stats res_before;	/* snapshot before create (all zero expected) */
	tp_res_stats res;		/* after destroy (before harness cleanup) */
	uint32_t cb_after_destroy;	/* callbacks observed by the harness counters after destroy returned */
	uint8_t attached_still_pool_thread;	/* tpt_get_current() != NULL in the foreign thread after tp_thread_attach_first() returned */
	uint8_t fd0_was_freed;
	uint32_t ran_mask;		/* worker threads seen running (or starting) right before the shutdown step */
} c11_out;
void c11_run(const c11_scn *scn, c11_out *out);

/* ---------------- C06: events and timers ---------------- */
/* (a) registration programming, captured at the interposed epoll_ctl/timerfd calls; no thread runs */
#define C06_MAX_OPS 6
typedef struct {
	uint8_t op;		/* 0 add, 1 enable, 2 disable, 3 del */
	uint16_t event, flags;
	uint32_t fflags;
	uint64_t data;
} c06a_op;
typedef struct {
	uint8_t ident_kind;	/* 0 valid fd (socketpair end), 1 (uintptr_t)-1, 2 beyond the fd table, 3 arbitrary cookie (timers),
				 * 4 / 5: 2^32 | fd and 2^63 | fd (not descriptors although their low halves are) */
	uint8_t cb_null;
	uint8_t nops;
	c06a_op ops[C06_MAX_OPS];
} c06a_case;
typedef struct {
	int rc;
	uint32_t tfd_creates, tfd_settimes, ep_calls, ep_adds, ep_dels;
	int tfd_clock, tfd_flags, tfd_settime_errno, ep_op;
	uint32_t ep_events;
	int64_t v_sec, v_nsec, i_sec, i_nsec;	/* last timerfd_settime argument */
	uint32_t live_fds;			/* library-owned descriptors after the op */
	uint64_t tpdata;			/* tp_udata.tpdata after the op */
	int32_t rcvlowat;			/* SO_RCVLOWAT of the harness socket after the op (reset to 1 before every case) */
} c06a_opres;
typedef struct {
	int setup_rc;
	uint32_t base_live_fds;
	uint64_t fd_table_size;
	c06a_opres r[C06_MAX_OPS];
} c06a_out;
void c06a_run(const c06a_case *c, c06a_out *out);

/* (b) firing behaviour against the real kernel */
#define C06_MAX_CH 3
#define C06_MAX_CMDS 24
enum { /* commands */
	E_ADD = 1, E_ENABLE, E_DISABLE, E_DEL, E_PEER_WRITE, E_DRAIN, E_PEER_CLOSE, E_SLEEP, E_PEER_SHUT_WR /* half close: shutdown(SHUT_WR) */,
	E_REOPEN /* both ends are closed without a delete (the kernel drops the registration) and a fresh socket pair takes the same descriptor number; the user record keeps its stale state */,
	E_ENABLE1, E_DISABLE1 /* tpt_ev_enable_args1(): the call has no flags argument, the registration keeps the flags it has (read/write channels only) */
};
typedef struct {
	uint8_t cmd, ch;
	uint8_t outside;	/* registration call issued from outside the owning thread */
	uint16_t flags;		/* for E_ADD / E_ENABLE: TP_F_* */
	uint16_t arg;		/* E_SLEEP: milliseconds */
	uint8_t wait_mask;	/* channels whose next callback the harness waits for (ceiling) before settling */
} c06b_cmd;
typedef struct {
	uint8_t kind[C06_MAX_CH];	/* 0 unused, 1 read on socketpair, 2 write on socketpair, 3 timer, 4 write on the write end of a pipe (peer = read end) */
	uint16_t period_ms[C06_MAX_CH];	/* timers */
	uint8_t on_pvt;			/* registrations are made on the pool's virtual thread (served by the pool's only worker) */
	uint8_t timer_ident_of[C06_MAX_CH];	/* timers: 0 = the identifier is an address of the harness; k+1 = the identifier equals the descriptor NUMBER
					 * of channel k (timer identifiers are user-chosen numbers, e.g. a per-connection timer named after its socket) */
	uint8_t ncmds;
	c06b_cmd cmds[C06_MAX_CMDS];
	tp_plans plans;
} c06b_case;
typedef struct {
	int rc;				/* return code of the registration call (0 for harness-only commands) */
	uint32_t fired_at_ret[C06_MAX_CH];	/* callback counters when the command returned (on the owning thread for in-thread calls) */
	uint32_t fired_after[C06_MAX_CH];	/* after the settle window (fences through the owning thread) */
	uint32_t fired_late[C06_MAX_CH];	/* after an additional sleep */
	uint16_t last_flags[C06_MAX_CH];	/* ev.flags of the last callback */
	uint32_t last_fflags[C06_MAX_CH];
	uint8_t wrong_thread[C06_MAX_CH];	/* a callback ran on a thread other than the owner */
} c06b_step;
typedef struct {
	int setup_rc, hang;
	int never_fired_step;		/* first step whose awaited callback never came (-1 none) */
	uint32_t base_live_fds;		/* library-owned descriptors before the pool of this case was created */
	c06b_step s[C06_MAX_CMDS];
	tp_res_stats res;
} c06b_out;
void c06b_run(const c06b_case *c, c06b_out *out);

/* (k) several registrations of ONE thread become ready during one busy callback; the callback dispatched first removes others */
#define C06K_MAX_CH 6
#define C06K_LOG 192
typedef struct {
	uint8_t nch;
	uint8_t kind[C06K_MAX_CH];	/* 1 read on a socket pair, 2 write on a socket pair, 3 timer */
	uint16_t flags[C06K_MAX_CH];	/* TP_F_* */
	uint8_t period_ms[C06K_MAX_CH];	/* timers: 1..3 */
	uint8_t kills[C06K_MAX_CH];	/* bit t: the first callback of this channel removes channel t */
	uint8_t kill_op[C06K_MAX_CH];	/* 0 delete, 1 disable */
	uint8_t busy_ms;		/* the registering callback stays busy this long after making everything ready */
	tp_plans plans;
} c06k_case;
typedef struct { uint8_t type /* 1 callback, 2 removal call, 3 add */, ch, event; int rc; } c06k_rec;
typedef struct {
	int setup_rc, hang, never_fired /* bit mask of channels that were never removed and never fired */, log_overflow, wrong_thread;
	uint32_t nlog;
	c06k_rec log[C06K_LOG];
	uint32_t pre_live_fds;
	tp_res_stats res;
} c06k_out;
void c06k_run(const c06k_case *c, c06k_out *out);

/* (c) process events: real child processes, pidfd accounting through the interposed syscall() */
#define C06C_MAX_CH 3
#define C06C_MAX_CMDS 16
enum { P_ADD = 1, P_ENABLE, P_DISABLE, P_DEL, P_EXIT, P_SLEEP };
typedef struct {
	uint8_t cmd, ch;
	uint8_t outside;	/* registration call issued from outside the owning thread */
	uint16_t flags;		/* P_ADD / P_ENABLE: TP_F_* */
	uint32_t fflags;	/* P_ADD / P_ENABLE: TP_FF_P_* (unknown bits = malformed) */
	uint8_t arg;		/* P_SLEEP: milliseconds */
	uint8_t await;		/* the model expects the channel's callback after this step: wait for it (ceiling) */
} c06c_cmd;
typedef struct {
	uint8_t nch;
	uint8_t exit_code[C06C_MAX_CH];
	uint8_t by_signal[C06C_MAX_CH];	/* the child is killed with SIGKILL instead of exiting by itself */
	uint8_t dirty[C06C_MAX_CH];	/* the user record was used before for a read event that ended up disabled and whose descriptor was closed
					 * without a delete (stale state in the record) */
	uint8_t not_child[C06C_MAX_CH];	/* the watched process is a grandchild re-parented away from the test process: the pool thread cannot reap it */
	uint8_t ncmds;
	c06c_cmd cmds[C06C_MAX_CMDS];
	tp_plans plans;
} c06c_case;
typedef struct {
	int rc;
	uint32_t fired_at_ret[C06C_MAX_CH], fired_after[C06C_MAX_CH], fired_late[C06C_MAX_CH];
	uint32_t live_fds;		/* library-owned descriptors after the step settled */
	uint64_t tpdata[C06C_MAX_CH];
} c06c_step;
typedef struct {
	int setup_rc, hang;
	int never_fired_step;
	uint32_t pre_live_fds;		/* library-owned descriptors before the pool of this case exists */
	uint32_t base_live_fds;		/* library-owned descriptors once the pool of this case runs */
	uint16_t last_event[C06C_MAX_CH], last_flags[C06C_MAX_CH];
	uint32_t last_fflags[C06C_MAX_CH];
	uint64_t last_data[C06C_MAX_CH];	/* wait status handed to the callback */
	uint8_t wrong_thread[C06C_MAX_CH];
	uint32_t pidfd_opens;
	c06c_step s[C06C_MAX_CMDS];
	tp_res_stats res;
} c06c_out;
void c06c_run(const c06c_case *c, c06c_out *out);

/* ---------------- C16: I/O tasks ---------------- */
#define C16_MAX_PIECES 16
#define C16_MAX_CB 96
typedef struct {
	uint16_t len;
	uint8_t pause;		/* before this piece: 0 none, 1 short (<= T/40), 2 long (5*T) */
} c16_piece;
typedef struct {
	uint8_t dir;		/* 0 receive task (TP_EV_READ), 1 send task (TP_EV_WRITE) */
	uint8_t handler;	/* 0 tp_task_sr_handler on a stream socketpair, 1 tp_task_notify_handler (read readiness only) */
	uint16_t buf_size, win_off, win_len;
	uint16_t used0;		/* io_buf.used before the start */
	uint8_t ev_flags;	/* 0 persistent, 1 TP_F_ONESHOT, 2 TP_F_DISPATCH */
	uint8_t after_every_read;
	uint16_t timeout_ms;	/* 0 = none */
	uint8_t start_ex_direct;/* tp_task_start_ex(shedule_first_io = 0): first transfer attempted inside the start call */
	uint8_t prequeue;	/* number of leading pieces written before the task is started */
	uint8_t npieces;
	c16_piece pieces[C16_MAX_PIECES];
	uint8_t end;		/* peer at the end: 0 stays open, 1 close, 2 shutdown(SHUT_WR) */
	uint8_t cb_policy;	/* 0 CONTINUE until window full / eof / error; 1 after the first callback: tp_task_stop + NONE;
				 * 2 after the first callback: tp_task_destroy + NONE; 3 first callback: tp_task_enable(0) + NONE;
				 * 4 (dispatch tasks) first callback returns NONE without stopping anything: the task must stay silent
				 *   until the harness calls tp_task_enable(1) later, then it goes on like policy 0 */
	uint8_t rearm;		/* when the window is full: reset it (offset = win_off, transfer_size = win_len) and CONTINUE */
	uint8_t inject_on_recv;	/* receive tasks: after the first fragment every further fragment is written from inside the library's recv() call
				 * (right after it returned data), i.e. it arrives between two reads of the same handler run */
	uint8_t close_on_destroy;	/* the task runs on a dup() of the socket with TP_TASK_F_CLOSE_ON_DESTROY: the harness' own descriptor keeps the
				 * open file description (and with it any forgotten epoll registration) alive after the destroy */
	uint32_t sndbuf;	/* SO_SNDBUF of the task's socket for send tasks (0 = default) */
	tp_plans plans;
} c16_scn;
typedef struct {
	int32_t error;
	uint32_t eof;
	uint64_t transfered;
	uint64_t used, offset, tr_size;
	uint32_t log_idx;
	uint8_t on_owner;	/* ran on the owning pool thread */
	uint8_t in_start;	/* ran synchronously inside tp_task_start_ex() */
	int32_t ret;		/* what the callback returned */
	uint64_t t_us;		/* harness clock, gates (never decides) the timeout assertions */
} c16_cb;
typedef struct {
	int setup_rc, start_rc, hang;
	uint32_t ncb;
	c16_cb cb[C16_MAX_CB];
	uint32_t cb_after_stop;		/* callbacks counted after stop/destroy/disable returned on the owner thread */
	uint32_t cb_while_paused;	/* policy 4: callbacks between the declining return and tp_task_enable(1) */
	uint8_t paused;			/* policy 4 really paused the task */
	int32_t resume_rc;		/* tp_task_enable(1) */
	uint8_t ident_open_after_destroy;	/* close_on_destroy: the task's descriptor was still open when tp_task_destroy() had returned */
	uint64_t sent_total;		/* bytes the peer wrote (receive task) */
	uint64_t peer_received;		/* bytes the peer read (send task) */
	uint32_t peer_mismatch;		/* send task: first byte offset at which the peer's data differs from the window (UINT32_MAX none) */
	uint64_t max_gap_us;		/* longest silence the harness measured between two arrivals while no long pause was requested */
	uint64_t run_us;		/* from the start of the task until the harness saw it stop (or gave up waiting) */
	uint8_t buf_image[4096 + 64];	/* 32 guard bytes + buffer + 32 guard bytes after the run */
	uint64_t final_used, final_offset, final_tr;
	tp_res_stats res;
	uint32_t base_live_fds;
} c16_out;
void c16_run(const c16_scn *scn, c16_out *out);

/* file variant (tp_task_rw_handler: pread / pwrite at a file offset), direct first transfer on an in-memory file */
typedef struct {
	uint8_t dir;		/* 0 read task, 1 write task */
	uint16_t buf_size, win_off, win_len, used0;
	uint32_t file_size;	/* size of the file before the task (content = pattern by file position) */
	uint32_t file_off;	/* offset handed to tp_task_start_ex() */
	uint8_t sealed;		/* write: the file cannot grow (F_SEAL_GROW): a window that crosses the end is written partly, then fails */
} c16f_scn;
typedef struct {
	int setup_rc, start_rc;
	uint32_t ncb;
	c16_cb cb[4];
	uint8_t buf_image[4096 + 64];
	uint8_t file_image[8192];	/* file content afterwards (first 8192 bytes) */
	uint32_t file_size_after;
	uint64_t final_used, final_offset, final_tr;
	tp_res_stats res;
} c16f_out;
void c16f_run(const c16f_scn *scn, c16f_out *out);
uint8_t c16f_file_pattern(uint64_t pos);

/* phase scripts on one receive task: silent partial progress, restart with a new window, pause on a timeout / data report, re-enable */
#define C16S_MAX_STEPS 12
#define C16S_LOG 1024
enum { S_WRITE = 1 /* a bytes from the peer */, S_WAIT_TIMEOUT, S_RESTART /* owner: tp_task_stop + new window (a = offset, b = length) + tp_task_start */, S_ENABLE /* owner: tp_task_enable(1) if paused */, S_SLEEP /* a ms */,
	S_STOP_RESTART /* owner: tp_task_stop + tp_task_restart(): same buffer, the unreported count is kept */ };
typedef struct { uint8_t op; uint16_t a, b; } c16s_step;
typedef struct {
	uint8_t ev_flags;	/* 0 persistent, 2 dispatch */
	uint8_t after_every_read;
	uint8_t on_timeout;	/* answer to ETIMEDOUT: 0 CONTINUE, 1 NONE (the task stays paused until tp_task_enable(1) / a restart) */
	uint8_t pause_data_k;	/* dispatch only: the k-th data report is answered with NONE (0 never) */
	uint8_t final_reset;	/* 0: the stream goes on at the end (the next full window must be reported); n = 1..3: the peer sends n more bytes and closes
				 * while it has unread input of its own - the connection is reset with payload still queued (ECONNRESET must be reported once) */
	uint8_t setup_mode;	/* 0: tp_task_create() gets everything; 1: created as a bare notify task without descriptor / flags / user pointer and
				 * configured through the accessors (tp_task_ident_set, tp_task_tp_cb_func_set, tp_task_flags_add, tp_task_udata_set) before the start */
	uint16_t timeout_ms, buf_size, win_off, win_len;
	uint8_t nsteps;
	c16s_step steps[C16S_MAX_STEPS];
	tp_plans plans;
} c16s_scn;
typedef struct {
	uint8_t type;		/* 1 callback, 2 peer write, 3 restart, 4 enable, 5 the owner destroys the task */
	uint8_t pauses;		/* callback: answered NONE without stopping (the task is paused from here on) */
	uint8_t mismatch;	/* callback / restart: bytes moved into the window since the last report are not the next bytes of the stream */
	uint8_t skipped;	/* enable: the task was not paused, nothing called */
	int32_t error, rc;
	uint32_t eof;
	uint64_t transfered;	/* callback argument */
	uint64_t adv;		/* callback / restart: cursor advance since the later of the previous report and the (re)start */
	uint64_t n;		/* write: bytes; enable: FIONREAD of the task's socket just before the call */
	uint64_t offset, tr_size;	/* cursors seen by the callback */
} c16s_rec;
typedef struct {
	int setup_rc, start_rc, hang, never_reported, guards_bad, log_overflow, foreign_thread;
	int bad_udata;		/* a callback got a user pointer other than the one the task was given */
	int accessor_mismatch;	/* a getter did not return what the matching setter had stored */
	uint32_t nlog;
	c16s_rec log[C16S_LOG];
	tp_res_stats res;
} c16s_out;
void c16s_run(const c16s_scn *scn, c16s_out *out);

/* ======================= C16 conn (tp_conn.c, drivers/C16_conn.cpp) -- begin =======================
 * Second unit of C16: datagram receiver, accept, connect and connect_ex tasks. */
/* ---- (1) datagram receiver ---- */
#define C16P_MAX_DG 16
#define C16P_MAX_CB 48
#define C16P_BUF_MAX 512
#define C16P_IMG (C16P_BUF_MAX + 64)
typedef struct {
	uint16_t len;		/* datagram payload size (0 allowed) */
	uint8_t pause;		/* before this datagram: 0 none, 1 short sleep, 2 wait until everything sent so far was reported
				 * (or the task stopped), 3 wait for one timeout report (short timeouts only) */
} c16p_dgram;
typedef struct {
	uint8_t transport;	/* 0 AF_UNIX SOCK_DGRAM socketpair, 1 UDP on 127.0.0.1, 2 AF_UNIX SOCK_DGRAM bound to a path with TWO bound senders
				 * whose paths differ in length (datagram i comes from sender i & 1: short path first) */
	char pdir[100];		/* transport 2: where the socket paths are created */
	uint16_t buf_size;	/* 8..C16P_BUF_MAX */
	uint16_t used0, off0, tr0; /* io_buf cursors at the start: off0 + tr0 <= buf_size */
	uint8_t reset_policy;	/* what the callback does after a datagram: 0 in-tree (IO_BUF_MARK_AS_EMPTY + IO_BUF_MARK_TRANSFER_ALL_FREE),
				 * 1 re-arm the initial window (used0/off0/tr0), 2 accumulate: leave the cursors alone and do the in-tree
				 * reset only when the window is exhausted */
	uint16_t timeout_ms;	/* 0 none */
	uint8_t close_on_destroy; /* TP_TASK_F_CLOSE_ON_DESTROY (the harness hands the socket over to the accounting table) */
	uint8_t prequeue;	/* number of leading datagrams sent before the task is created */
	uint8_t ndgrams;
	c16p_dgram dg[C16P_MAX_DG];
	uint8_t stop_at;	/* 0 never, k: in the k-th data callback ... */
	uint8_t stop_how;	/* ... 1 tp_task_stop + NONE, 2 tp_task_destroy + NONE, 3 tp_task_enable(0) + NONE, 4 tp_task_stop + EOF,
				 * 5 tp_task_stop + ERROR */
	uint8_t timeout_action;	/* on a timeout report: 0 CONTINUE, 1 tp_task_stop + NONE */
	uint8_t wait_timeout_end; /* after the last datagram wait for one timeout report (short timeouts only) */
	tp_plans plans;
} c16p_scn;
typedef struct {
	int32_t error;
	uint64_t transferred;
	uint64_t used, offset, tr_size;	/* buffer cursors as the callback found them */
	uint8_t addr_null, on_owner;
	uint8_t action;		/* what the callback then did: 0 nothing (CONTINUE), 1 in-tree reset, 2 re-armed initial window, 3 stopped (stop_how) */
	uint16_t addr_family, addr_port; /* host order */
	uint8_t addr_unix_sender;	/* transport 2: 1 = the address is exactly the short sender path, 2 = exactly the long one, 3 = something else, 0 = n/a */
	uint32_t addr_ip;	/* host order, AF_INET only */
	int32_t ret;
	uint64_t t_us;		/* harness clock at callback entry; used for "not earlier than the timeout" only */
} c16p_cb;
typedef struct {
	int setup_rc, start_rc, hang, skipped;
	int wait_failed;	/* 1 = a datagram never reported within the ceiling, 2 = timeout never reported */
	uint32_t ncb;
	c16p_cb cb[C16P_MAX_CB];
	uint8_t image[C16P_MAX_CB][C16P_IMG];	/* 32 guard + buffer + 32 guard, as the callback found it */
	uint8_t final_image[C16P_IMG];
	uint32_t nsent;			/* datagrams 0..nsent-1 were sent completely */
	uint32_t late_sent;		/* datagrams sent after the final destroy */
	uint32_t cb_after_stop;
	uint16_t peer_port;		/* UDP: port of the sending socket */
	uint64_t t_create_us;		/* harness clock right before the task was created */
	uint64_t run_us;
	uint32_t base_live_fds;
	tp_res_stats res;
} c16p_out;
void c16p_run(const c16p_scn *scn, c16p_out *out);
uint8_t c16p_pattern(uint32_t dgram, uint32_t off);

/* ---- (2) accept / connect / connect_ex ---- */
#define C16C_MAX_CLI 10
#define C16C_MAX_ADDR 4
#define C16C_MAX_CB 80
#define C16C_MAX_ATT 80
typedef struct {
	uint8_t pause;		/* before this client connects: 0 none, 1 short sleep, 2 wait until all earlier ones were accepted,
				 * 3 wait for one timeout report (short timeouts only) */
	uint8_t close_early;	/* client closes right after sending its id (before it may have been accepted) */
} c16c_client;
typedef struct {
	uint8_t kind;		/* 0 TCP 127.0.0.1: bound socket that starts listening when opened (refuses before);
				 * 1 AF_UNIX path that appears (bind+listen) when opened (connect() fails synchronously before);
				 * 2 TCP listener with backlog 0 and a filled accept queue: never answers */
	uint8_t open_after;	/* the address accepts from attempt number open_after+1 on; 255 = never */
} c16c_addr;
typedef struct {
	uint8_t mode;		/* 0 tp_task_accept_create, 1 tp_task_bind_accept_create, 2 tp_task_connect_create, 3 tp_task_connect_ex_create */
	uint8_t family;		/* modes 0-2: 0 AF_UNIX stream, 1 TCP 127.0.0.1 */
	uint8_t close_on_destroy;
	uint16_t timeout_ms;
	/* accept */
	uint8_t nclients, prequeue;
	c16c_client cli[C16C_MAX_CLI];
	int32_t backlog;	/* bind_accept: skt_opts.backlog */
	uint8_t reuseaddr, keepalive;	/* bind_accept: skt_opts flags */
	uint8_t stale_path;	/* bind_accept on AF_UNIX: a stale socket file exists at the path */
	uint8_t stop_at;	/* accept: in the k-th accept callback; connect_ex: in the k-th failure report (0 never) */
	uint8_t stop_how;	/* accept: 1 stop+NONE, 2 destroy+NONE, 3 enable(0)+NONE, 4 ident_close+NONE;
				 * connect_ex: 1 return NONE, 2 destroy + NONE */
	uint8_t timeout_action;	/* accept: on a timeout report 0 CONTINUE, 1 stop + NONE */
	uint8_t wait_timeout_end;
	/* connect */
	uint8_t target;		/* 0 listening, 1 refusing (TCP only), 2 never answering (TCP only) */
	uint8_t destroy_in_cb;	/* connect / connect_ex: destroy the task inside the final callback */
	uint8_t cb_ret;		/* connect: value returned by the callback (0 NONE, 2 CONTINUE: documented as ignored) */
	/* connect_ex */
	uint8_t naddrs;
	c16c_addr addrs[C16C_MAX_ADDR];
	uint32_t max_tries, retry_delay_ms, time_limit_ms;
	uint8_t f_rr, f_initial_delay, f_every;
	int32_t protocol;
	uint8_t cut_after;	/* destroy from the owner thread once this many connect attempts were seen (0 = let it finish) */
	uint8_t cut_close_only;	/* the cut only calls tp_task_ident_close() (documented as stop + close + ident = -1); the task stays allocated until the final step */
	uint8_t arg_case;	/* 0 as generated, 1 conn_prms NULL, 2 tptask_ret NULL */
	uint8_t known_timer_wa;	/* known finding active: the harness sets a non-zero timeout right before it destroys a connect_ex task so
				 * that tp_task_stop() removes the retry-delay timer too (see notes/C16_conn.md) */
	/* unit-local faults in the socket layer (library calls only) */
	uint8_t sock_fault_k, accept_fault_k;
	int32_t fault_errno;
	char dir[100];		/* where AF_UNIX paths are created */
	tp_plans plans;
} c16c_scn;
typedef struct {
	uint8_t kind;		/* 0 accept cb, 1 connect cb, 2 connect_ex cb */
	int32_t error;
	int64_t skt;		/* accept: new socket; connect_ex: tp_task_ident_get() at callback time */
	uint64_t addr_index;	/* connect_ex */
	uint8_t addr_null, on_owner, nonblock, prms_ok;
	uint16_t addr_family, addr_port;
	uint32_t addr_ip;
	uint16_t peer_port;	/* connect_ex success: getpeername() of the handed socket (TCP), 0 for AF_UNIX */
	uint8_t peer_ok;	/* connect/connect_ex success: getpeername() worked */
	uint32_t live_fds;	/* library-owned descriptors at callback time */
	uint32_t natt;		/* connect attempts seen so far */
	uint8_t action;		/* 0 none, 3 stopped/destroyed by policy */
	int32_t ret;
	uint64_t t_us;
} c16c_cb;
typedef struct {
	uint8_t idx;		/* address index derived from the pointer passed to connect() */
	int32_t rc_errno;	/* 0 connected at once, EINPROGRESS, or the synchronous failure */
	uint8_t sock_failed;	/* the attempt died in socket() (unit-local fault): idx unknown */
	uint64_t t_us;
} c16c_att;
typedef struct {
	int setup_rc, start_rc, hang, skipped;
	int wait_failed;	/* 1 = an expected callback never came within the ceiling, 2 = timeout never reported */
	uint32_t ncb;
	c16c_cb cb[C16C_MAX_CB];
	uint32_t cb_after_stop;
	uint32_t ncb_at_start_ret;	/* callbacks already made when the create call returned */
	uint32_t natt_at_start_ret;
	uint32_t natt;
	c16c_att att[C16C_MAX_ATT];
	/* accept */
	uint32_t nconnected;		/* clients whose connect() succeeded */
	uint8_t cli_connected[C16C_MAX_CLI + 1];
	uint16_t cli_port[C16C_MAX_CLI + 1];	/* TCP: local port of client i */
	int16_t acc_id[C16C_MAX_CB];	/* per accept callback with error 0 (in callback order): client id read from the socket, -1 none, -2 garbage */
	uint32_t nacc;
	uint32_t late_clients;		/* clients connected after the final destroy */
	uint16_t listen_port;
	uint8_t listen_nonblock;	/* bind_accept: the library-created listening socket is non-blocking */
	/* connect */
	int32_t connect_rc_errno;	/* what the harness' own connect() returned (mode 2) */
	uint32_t listener_accepted;	/* mode 2/3: connections found on the harness listeners afterwards (sum) */
	uint32_t lst_accepted[C16C_MAX_ADDR];
	uint16_t lst_port[C16C_MAX_ADDR];
	uint8_t cut_done;		/* the harness destroyed the task mid-flight (cut_after) */
	uint32_t natt_at_cut;		/* connect attempts seen when the cut had returned on the owner thread */
	uint8_t finished;		/* 1 success reported, 2 terminal failure reported, 3 stopped by policy */
	uint32_t pool_live_fds;		/* library-owned descriptors once the pool runs, before the task exists */
	uint32_t sock_injected, accept_injected;	/* unit-local faults that actually fired */
	uint64_t t_create_us, t_end_us;
	uint32_t base_live_fds;
	tp_res_stats res;
} c16c_out;
void c16c_run(const c16c_scn *scn, c16c_out *out);
/* ======================= C16 conn -- end ======================= */

#ifdef __cplusplus
}
#endif
#endif
