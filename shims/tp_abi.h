/* ABI of the thread-pool harness shims (tp_common.c, tp_msg.c, tp_life.c, tp_ev.c,
 * tp_task.c) used by drivers/C05, C06, C10, C11, C16. */
#ifndef VERIF_TP_ABI_H
#define VERIF_TP_ABI_H
#include <stdint.h>
#include <stddef.h>

#ifdef __cplusplus
extern "C" {
#endif

/* ---------------- history log ---------------- */
typedef struct {
	uint32_t kind;
	uint32_t thr;	/* harness-assigned small index of the OS thread that appended */
	uint64_t a, b, c, d;
	uint64_t cur;	/* tpt_get_current() of the appending thread (0 = not a pool thread) */
} tp_rec;

#define TP_LOG_MAX (1u << 18)
extern tp_rec tp_log_buf[TP_LOG_MAX];
uint32_t tp_log_count(void);
uint32_t tp_log_dropped(void);

enum { /* record kinds */
	R_SEND_CALL = 1,	/* a = send id */
	R_SEND_RET,		/* a = send id, b = rc */
	R_CB,			/* a = send id, b = tpt argument, c = nothing */
	R_CB_END,		/* a = send id */
	R_HOOK_START,		/* a = tpt, b = thread_num */
	R_HOOK_STOP,		/* a = tpt, b = thread_num */
	R_BCAST_CALL,		/* a = bcast id */
	R_BCAST_RET,		/* a = bcast id, b = rc, c = send_msg_cnt, d = error_cnt */
	R_BCAST_CB,		/* a = bcast id, b = tpt argument */
	R_BCAST_CB_END,		/* a = bcast id, b = tpt argument */
	R_BCAST_DONE,		/* a = bcast id, b = tpt argument, c = send_msg_cnt, d = error_cnt */
	R_API_CALL,		/* a = step index, b = api id */
	R_API_RET,		/* a = step index, b = api id, c = rc */
	R_EV_CB,		/* a = ident slot, b = ev.event, c = ev.flags, d = ev.fflags */
	R_MARK,			/* a = marker */
	R_TASK_CB		/* task callbacks, see tp_task.c */
};

/* ---------------- schedule plan and fault plan ---------------- */
#define TP_PLAN_MAX 64
#define TP_FAULT_MAX 24
enum { /* interposed functions that can be made to fail */
	F_QWRITE = 1,	/* write() on a message-queue pipe */
	F_QREAD,	/* read() on a message-queue pipe */
	F_CALLOC, F_EPOLL_CREATE, F_PIPE2, F_EPOLL_CTL, F_TIMERFD_CREATE, F_TIMERFD_SETTIME, F_PTHREAD_CREATE,
	F_LAST
};
typedef struct {
	uint8_t fn;	/* F_* */
	uint32_t k;	/* the k-th call (1-based) after arming fails */
	int32_t err;	/* errno to report */
} tp_fault;
typedef struct {
	uint32_t plan_len;
	uint8_t plan[TP_PLAN_MAX];
	uint32_t nfaults;
	tp_fault faults[TP_FAULT_MAX];
} tp_plans;

/* resource accounting of everything the library acquired through the interposed calls */
typedef struct {
	uint32_t live_allocs, live_fds, unjoined_threads;
	uint32_t total_allocs, total_fds, total_threads;
	uint32_t calls[F_LAST];		/* how often each injectable function was called while armed */
	uint32_t injected[F_LAST];
	uint32_t double_free, close_unknown;
	uint32_t vp_hits[32];
} tp_res_stats;

void tp_harness_reset(const tp_plans *plans);	/* clears log, counters, arms plans */
void tp_harness_disarm(void);
void tp_res_get(tp_res_stats *out);

/* ---------------- C05: unicast messages ---------------- */
#define C05_MAX_SENDERS 6
#define C05_MAX_SENDS 256
typedef struct {
	uint8_t dst;		/* thread index, 255 = pool virtual thread */
	uint8_t flags;		/* TP_MSG_F_* bits (SELF_DIRECT=1, FORCE=2, FAIL_DIRECT=4) */
	uint8_t src_own;	/* 1: pass the caller's own tpt as src (pool senders), 0: NULL */
} c05_send;
typedef struct {
	uint8_t in_pool;	/* 0 external thread, 1 runs inside pool thread pool_idx */
	uint8_t pool_idx;
	uint16_t nsends;
	c05_send sends[C05_MAX_SENDS];
} c05_sender;
typedef struct {
	uint8_t nthreads;	/* 1..16 */
	uint8_t skip_first;	/* thread 0 never started */
	uint8_t stall_dst;	/* 255 none; else this thread blocks in a callback while ... */
	uint16_t burst;		/* ... an external sender issues `burst` sends to it (queue-full) */
	uint8_t burst_flags;
	uint8_t nsenders;
	c05_sender senders[C05_MAX_SENDERS];
	tp_plans plans;
} c05_scn;
typedef struct {
	int setup_rc;
	int hang;		/* fence / completion ceiling hit */
	uint32_t nsends;	/* total send ids used (senders first, then burst) */
	uint64_t tpt_ptr[17];	/* pointer value of each pool thread object, [16] = pvt */
	tp_res_stats res;
} c05_out;
void c05_run(const c05_scn *scn, c05_out *out);

/* ---------------- C10: broadcasts ---------------- */
#define C10_MAX_BCASTS 3
typedef struct {
	uint8_t in_pool, pool_idx;	/* caller */
	uint8_t api;			/* 0 bsend_ex, 1 cbsend */
	uint32_t flags;			/* TP_MSG_F_* | TP_BMSG_F_* | TP_CBMSG_F_ONE_BY_ONE */
	uint8_t src_own;
	uint16_t cb_usec;		/* user callback duration */
} c10_bcast;
typedef struct {
	uint8_t nthreads;
	uint8_t skip_first;
	uint16_t detach_mask;		/* threads never started (their pthread_create is made to fail) */
	uint8_t nbcasts;
	c10_bcast b[C10_MAX_BCASTS];
	tp_plans plans;
} c10_scn;
typedef struct {
	int setup_rc;
	int hang;
	uint64_t tpt_ptr[17];
	uint16_t running_mask;		/* threads running when the broadcasts were issued */
	tp_res_stats res;
} c10_out;
void c10_run(const c10_scn *scn, c10_out *out);

/* ---------------- C11: pool life cycle ---------------- */
enum { /* api ids logged in R_API_CALL / R_API_RET */
	A_CREATE = 1, A_THREADS_CREATE, A_ATTACH_FIRST, A_SHUTDOWN, A_SHUTDOWN_WAIT, A_DESTROY, A_WAIT_EARLY, A_TCREATE_LATE,
	A_ATTACH_LATE, A_WAIT_IN_POOL, A_DESTROY_IN_POOL
};
typedef struct {
	uint8_t nthreads;	/* 1..16 */
	uint8_t flags;		/* bit0 BIND2CPU, bit1 CLOEXEC */
	uint8_t skip_first;
	uint8_t attach_first;	/* a helper thread becomes thread 0 via tp_thread_attach_first (needs skip_first) */
	uint8_t nmsgs;		/* in-flight messages sent right before shutdown */
	uint8_t msg_pvt;	/* some of them to the virtual thread */
	uint8_t timer;		/* periodic 1 ms timer on a thread */
	uint8_t pipe_ev;	/* a readable pipe registered as a persistent read event */
	uint8_t wait_early;	/* call tp_shutdown_wait before shutdown (must be EBUSY) */
	uint8_t shutdown_mode;	/* 0 outside, 1 from a pool thread, 2 two external threads at once, 3 twice, 4 skipped (destroy only) */
	uint8_t late_calls;	/* bit0 threads_create after shutdown (EBUSY), bit1 attach_first after shutdown (EBUSY) */
	uint8_t wait_mode;	/* 0 none, 1 outside, 2 from a pool thread first (EDEADLK) then outside, 3 two external threads at once */
	uint8_t destroy_in_pool_first; /* tp_destroy from a pool thread before shutdown (must be EDEADLK) */
	tp_plans plans;		/* schedule plan + resource faults armed from before tp_create */
} c11_scn;
typedef struct {
	int create_rc;
	int hang;
	uint64_t tp_ptr_after_failed_create; /* *ptp as left by a failing tp_create (harness pre-sets it to a sentinel) */
	uint64_t tpt_ptr[17];
	uint32_t log_at_destroy_ret;	/* log index when tp_destroy returned 0 */
	uint32_t reaped_after_destroy;	/* library threads the harness had to join itself */
	tp_res_stats res_before;	/* snapshot before create (all zero expected) */
	tp_res_stats res;		/* after destroy (before harness cleanup) */
	uint32_t cb_after_destroy;	/* callbacks observed by the harness counters after destroy returned */
} c11_out;
void c11_run(const c11_scn *scn, c11_out *out);

/* ---------------- C06: events and timers ---------------- */
/* (a) registration programming, captured at the interposed epoll_ctl/timerfd calls; no thread runs */
#define C06_MAX_OPS 6
typedef struct {
	uint8_t op;		/* 0 add, 1 enable, 2 disable, 3 del */
	uint16_t event, flags;
	uint32_t fflags;
	uint64_t data;
} c06a_op;
typedef struct {
	uint8_t ident_kind;	/* 0 valid fd (socketpair end), 1 (uintptr_t)-1, 2 beyond the fd table, 3 arbitrary cookie (timers) */
	uint8_t cb_null;
	uint8_t nops;
	c06a_op ops[C06_MAX_OPS];
} c06a_case;
typedef struct {
	int rc;
	uint32_t tfd_creates, tfd_settimes, ep_calls, ep_adds, ep_dels;
	int tfd_clock, tfd_flags, tfd_settime_errno, ep_op;
	uint32_t ep_events;
	int64_t v_sec, v_nsec, i_sec, i_nsec;	/* last timerfd_settime argument */
	uint32_t live_fds;			/* library-owned descriptors after the op */
	uint64_t tpdata;			/* tp_udata.tpdata after the op */
} c06a_opres;
typedef struct {
	int setup_rc;
	uint32_t base_live_fds;
	uint64_t fd_table_size;
	c06a_opres r[C06_MAX_OPS];
} c06a_out;
void c06a_run(const c06a_case *c, c06a_out *out);

/* (b) firing behaviour against the real kernel */
#define C06_MAX_CH 3
#define C06_MAX_CMDS 24
enum { /* commands */
	E_ADD = 1, E_ENABLE, E_DISABLE, E_DEL, E_PEER_WRITE, E_DRAIN, E_PEER_CLOSE, E_SLEEP, E_PEER_SHUT_WR /* half close: shutdown(SHUT_WR) */
};
typedef struct {
	uint8_t cmd, ch;
	uint8_t outside;	/* registration call issued from outside the owning thread */
	uint16_t flags;		/* for E_ADD / E_ENABLE: TP_F_* */
	uint16_t arg;		/* E_SLEEP: milliseconds */
	uint8_t wait_mask;	/* channels whose next callback the harness waits for (ceiling) before settling */
} c06b_cmd;
typedef struct {
	uint8_t kind[C06_MAX_CH];	/* 0 unused, 1 read on socketpair, 2 write on socketpair, 3 timer */
	uint16_t period_ms[C06_MAX_CH];	/* timers */
	uint8_t ncmds;
	c06b_cmd cmds[C06_MAX_CMDS];
	tp_plans plans;
} c06b_case;
typedef struct {
	int rc;				/* return code of the registration call (0 for harness-only commands) */
	uint32_t fired_at_ret[C06_MAX_CH];	/* callback counters when the command returned (on the owning thread for in-thread calls) */
	uint32_t fired_after[C06_MAX_CH];	/* after the settle window (fences through the owning thread) */
	uint32_t fired_late[C06_MAX_CH];	/* after an additional sleep */
	uint16_t last_flags[C06_MAX_CH];	/* ev.flags of the last callback */
	uint32_t last_fflags[C06_MAX_CH];
	uint8_t wrong_thread[C06_MAX_CH];	/* a callback ran on a thread other than the owner */
} c06b_step;
typedef struct {
	int setup_rc, hang;
	int never_fired_step;		/* first step whose awaited callback never came (-1 none) */
	uint32_t base_live_fds;		/* library-owned descriptors before the pool of this case was created */
	c06b_step s[C06_MAX_CMDS];
	tp_res_stats res;
} c06b_out;
void c06b_run(const c06b_case *c, c06b_out *out);

/* ---------------- C16: I/O tasks ---------------- */
#define C16_MAX_PIECES 16
#define C16_MAX_CB 96
typedef struct {
	uint16_t len;
	uint8_t pause;		/* before this piece: 0 none, 1 short (<= T/40), 2 long (5*T) */
} c16_piece;
typedef struct {
	uint8_t dir;		/* 0 receive task (TP_EV_READ), 1 send task (TP_EV_WRITE) */
	uint8_t handler;	/* 0 tp_task_sr_handler on a stream socketpair, 1 tp_task_notify_handler (read readiness only) */
	uint16_t buf_size, win_off, win_len;
	uint16_t used0;		/* io_buf.used before the start */
	uint8_t ev_flags;	/* 0 persistent, 1 TP_F_ONESHOT, 2 TP_F_DISPATCH */
	uint8_t after_every_read;
	uint16_t timeout_ms;	/* 0 = none */
	uint8_t start_ex_direct;/* tp_task_start_ex(shedule_first_io = 0): first transfer attempted inside the start call */
	uint8_t prequeue;	/* number of leading pieces written before the task is started */
	uint8_t npieces;
	c16_piece pieces[C16_MAX_PIECES];
	uint8_t end;		/* peer at the end: 0 stays open, 1 close, 2 shutdown(SHUT_WR) */
	uint8_t cb_policy;	/* 0 CONTINUE until window full / eof / error; 1 after the first callback: tp_task_stop + NONE;
				 * 2 after the first callback: tp_task_destroy + NONE; 3 first callback: tp_task_enable(0) + NONE */
	uint8_t rearm;		/* when the window is full: reset it (offset = win_off, transfer_size = win_len) and CONTINUE */
	uint32_t sndbuf;	/* SO_SNDBUF of the task's socket for send tasks (0 = default) */
	tp_plans plans;
} c16_scn;
typedef struct {
	int32_t error;
	uint32_t eof;
	uint64_t transfered;
	uint64_t used, offset, tr_size;
	uint32_t log_idx;
	uint8_t on_owner;	/* ran on the owning pool thread */
	uint8_t in_start;	/* ran synchronously inside tp_task_start_ex() */
	int32_t ret;		/* what the callback returned */
	uint64_t t_us;		/* harness clock, gates (never decides) the timeout assertions */
} c16_cb;
typedef struct {
	int setup_rc, start_rc, hang;
	uint32_t ncb;
	c16_cb cb[C16_MAX_CB];
	uint32_t cb_after_stop;		/* callbacks counted after stop/destroy/disable returned on the owner thread */
	uint64_t sent_total;		/* bytes the peer wrote (receive task) */
	uint64_t peer_received;		/* bytes the peer read (send task) */
	uint32_t peer_mismatch;		/* send task: first byte offset at which the peer's data differs from the window (UINT32_MAX none) */
	uint64_t max_gap_us;		/* longest silence the harness measured between two arrivals while no long pause was requested */
	uint64_t run_us;		/* from the start of the task until the harness saw it stop (or gave up waiting) */
	uint8_t buf_image[4096 + 64];	/* 32 guard bytes + buffer + 32 guard bytes after the run */
	uint64_t final_used, final_offset, final_tr;
	tp_res_stats res;
	uint32_t base_live_fds;
} c16_out;
void c16_run(const c16_scn *scn, c16_out *out);

#ifdef __cplusplus
}
#endif
#endif
