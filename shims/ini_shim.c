/* C shim over /repo/src/utils/ini.c for drivers/C17_ini.cpp.
 * Linked together with repo:src/utils/ini.c and repo:src/utils/buf_str.c,
 * once per build variant (compiler, -O, sanitizers). */
#include <sys/param.h>
#include <sys/types.h>
#include <stdint.h>
#include <stdlib.h>
#include <string.h>
#include <errno.h>
#include <inttypes.h>

#include <utils/ini.h>
#include "ini_abi.h"

/* exact-size copy; n == 0 still yields a valid (1 byte, unreadable-beyond) pointer */
static uint8_t *
dup_exact(const uint8_t *p, size_t n) {
	uint8_t *r = malloc(n ? n : 1);
	if (NULL == r)
		abort();
	if (n)
		memcpy(r, p, n);
	return (r);
}

typedef struct {
	uint8_t *p;
	size_t n;	/* size argument handed to the library */
} arg_t;

static arg_t
mk_arg(const si_name *nm) {
	arg_t a;

	if (nm->cstr) {
		a.p = malloc(nm->n + 1);
		if (NULL == a.p)
			abort();
		if (nm->n)
			memcpy(a.p, nm->p, nm->n);
		a.p[nm->n] = 0;
		a.n = 0;
	} else {
		a.p = dup_exact(nm->p, nm->n);
		a.n = nm->n;
		/* ini.h: a name size of 0 means "C string": an empty name is the
		 * empty C string, so it must be readable up to its terminator. */
		if (0 == nm->n)
			a.p[0] = 0;
	}
	return (a);
}

void *
si_create(int *rc) {
	ini_p ini = NULL;
	int r = ini_create(&ini);

	if (NULL != rc)
		*rc = r;
	return (ini);
}

void
si_destroy(void *ini) {
	ini_destroy((ini_p)ini);
}

int
si_parse(void *ini, const uint8_t *text, size_t n) {
	uint8_t *b = dup_exact(text, n);
	int rc = ini_buf_parse((ini_p)ini, b, n);

	free(b);
	return (rc);
}

int
si_calc_size(void *ini, size_t *size) {
	return (ini_buf_calc_size((ini_p)ini, size));
}

int
si_gen(void *ini, size_t buf_size, size_t slack, uint8_t *out, size_t *size_ret,
    size_t *overrun, int *differs) {
	static const uint8_t can[2] = { 0x5a, 0xa5 };
	uint8_t *b[2];
	size_t sr[2], i, over = 0;
	int rc[2], k;

	for (k = 0; k < 2; k ++) {
		b[k] = malloc(buf_size + slack + 1);
		if (NULL == b[k])
			abort();
		memset(b[k], can[k], buf_size + slack + 1);
		sr[k] = (size_t)0x7777777777777777ull;
		rc[k] = ini_buf_gen((ini_p)ini, b[k], buf_size, &sr[k]);
	}
	for (i = buf_size; i < buf_size + slack + 1; i ++) {
		if (b[0][i] != can[0] || b[1][i] != can[1])
			over ++;
	}
	*differs = (rc[0] != rc[1] || sr[0] != sr[1]);
	if (0 == *differs && sr[0] <= buf_size && 0 != memcmp(b[0], b[1], sr[0]))
		*differs = 1;
	if (buf_size)
		memcpy(out, b[0], buf_size);
	*size_ret = sr[0];
	*overrun = over;
	free(b[0]);
	free(b[1]);
	return (rc[0]);
}

int
si_set(void *ini, const si_name *sect, const si_name *key, const uint8_t *val, size_t val_n) {
	arg_t s = mk_arg(sect), k = mk_arg(key);
	uint8_t *v = dup_exact(val, val_n);
	int rc = ini_val_set((ini_p)ini, s.p, s.n, k.p, k.n, v, val_n);

	free(s.p); free(k.p); free(v);
	return (rc);
}

int
si_set_int(void *ini, const si_name *sect, const si_name *key, int64_t val) {
	arg_t s = mk_arg(sect), k = mk_arg(key);
	int rc = ini_val_set_int((ini_p)ini, s.p, s.n, k.p, k.n, (ssize_t)val);

	free(s.p); free(k.p);
	return (rc);
}

int
si_set_uint(void *ini, const si_name *sect, const si_name *key, uint64_t val) {
	arg_t s = mk_arg(sect), k = mk_arg(key);
	int rc = ini_val_set_uint((ini_p)ini, s.p, s.n, k.p, k.n, (size_t)val);

	free(s.p); free(k.p);
	return (rc);
}

int
si_get(void *ini, int ci, const si_name *sect, const si_name *key, const uint8_t **val, size_t *val_n) {
	arg_t s = mk_arg(sect), k = mk_arg(key);
	int rc;

	*val = NULL;
	*val_n = 0;
	if (ci)
		rc = ini_vali_get((ini_p)ini, s.p, s.n, k.p, k.n, val, val_n);
	else
		rc = ini_val_get((ini_p)ini, s.p, s.n, k.p, k.n, val, val_n);
	free(s.p); free(k.p);
	return (rc);
}

int
si_get_int(void *ini, int ci, const si_name *sect, const si_name *key, int64_t *v) {
	arg_t s = mk_arg(sect), k = mk_arg(key);
	ssize_t t = 0;
	int rc;

	if (ci)
		rc = ini_vali_get_int((ini_p)ini, s.p, s.n, k.p, k.n, &t);
	else
		rc = ini_val_get_int((ini_p)ini, s.p, s.n, k.p, k.n, &t);
	*v = (int64_t)t;
	free(s.p); free(k.p);
	return (rc);
}

int
si_get_uint(void *ini, int ci, const si_name *sect, const si_name *key, uint64_t *v) {
	arg_t s = mk_arg(sect), k = mk_arg(key);
	size_t t = 0;
	int rc;

	if (ci)
		rc = ini_vali_get_uint((ini_p)ini, s.p, s.n, k.p, k.n, &t);
	else
		rc = ini_val_get_uint((ini_p)ini, s.p, s.n, k.p, k.n, &t);
	*v = (uint64_t)t;
	free(s.p); free(k.p);
	return (rc);
}

size_t
si_sect_find(void *ini, int ci, const uint8_t *name, size_t n) {
	uint8_t *b = dup_exact(name, n);
	size_t r = ci ? ini_sect_findi((ini_p)ini, b, n) : ini_sect_find((ini_p)ini, b, n);

	free(b);
	return (r);
}

size_t
si_val_find(void *ini, int ci, size_t sect_off, const uint8_t *name, size_t n) {
	uint8_t *b = dup_exact(name, n);
	size_t r = ci ? ini_sect_val_findi((ini_p)ini, sect_off, b, n) :
	    ini_sect_val_find((ini_p)ini, sect_off, b, n);

	free(b);
	return (r);
}

int
si_sect_enum(void *ini, size_t *off, const uint8_t **name, size_t *name_n) {
	return (ini_sect_enum((ini_p)ini, off, name, name_n));
}

int
si_val_enum(void *ini, size_t sect_off, size_t *val_off, const uint8_t **name, size_t *name_n,
    const uint8_t **val, size_t *val_n) {
	return (ini_sect_val_enum((ini_p)ini, sect_off, val_off, name, name_n, val, val_n));
}
