/* C shim over /repo/include/math/elliptic_curve.h + crypto/dsa/ecdsa.h (curve
 * table and loader) for drivers/C02_ec.cpp (and reusable by C03/C09).
 * Compiled once per build variant. Build flags choose the configuration:
 *   -DBN_DIGIT_BIT_CNT=N [-DBN_CC_MULL_DIV] -DBN_BIT_LEN=N
 *   [-DEC_USE_PROJECTIVE] [-DEC_PROJ_ADD_MIX] [-DEC_PROJ_REPEAT_DOUBLE]
 *   -DEC_PF_FXP_MULT_ALGO=n -DEC_PF_FXP_MULT_WIN_BITS=n
 *   -DEC_PF_UNKPT_MULT_ALGO=n -DEC_PF_UNKPT_MULT_WIN_BITS=n -DEC_PF_TWIN_MULT_ALGO=n
 * (numeric values of the EC_PF_*_ALGO_* constants; none given = header defaults). */
#include <sys/param.h>
#include <sys/types.h>
#include <stdint.h>
#include <stdlib.h>
#include <string.h>
#include <stdio.h>
#include <errno.h>
#include <inttypes.h>

#ifndef __unused
#define __unused __attribute__((__unused__))
#endif
#include <crypto/dsa/ecdsa.h>
#include "ec_abi.h"

/* affine + INTER: ec_point_twin_mult expands to ec_point_affine_inter_twin_mult,
 * which the header never defines. */
#if !defined(EC_USE_PROJECTIVE) && EC_PF_TWIN_MULT_ALGO == EC_PF_TWIN_MULT_ALGO_INTER
#define ECS_TWIN_OK 0
#else
#define ECS_TWIN_OK 1
#endif

long
ecs_info(int what) {
	switch (what) {
	case ECS_INFO_W: return (BN_DIGIT_BIT_CNT);
	case ECS_INFO_BITLEN: return (BN_BIT_LEN);
	case ECS_INFO_CC:
#ifdef BN_CC_MULL_DIV
		return (1);
#else
		return (0);
#endif
	case ECS_INFO_PROJ:
#ifdef EC_USE_PROJECTIVE
		return (1);
#else
		return (0);
#endif
	case ECS_INFO_MIX:
#ifdef EC_PROJ_ADD_MIX
		return (1);
#else
		return (0);
#endif
	case ECS_INFO_REPDBL:
#ifdef EC_PROJ_REPEAT_DOUBLE
		return (1);
#else
		return (0);
#endif
	case ECS_INFO_FXP_ALGO: return (EC_PF_FXP_MULT_ALGO);
	case ECS_INFO_FXP_WIN: return (EC_PF_FXP_MULT_WIN_BITS);
	case ECS_INFO_UNKPT_ALGO: return (EC_PF_UNKPT_MULT_ALGO);	/* after SAME_AS_FXP resolution */
	case ECS_INFO_UNKPT_WIN: return (EC_PF_UNKPT_MULT_WIN_BITS);
	case ECS_INFO_TWIN_ALGO: return (EC_PF_TWIN_MULT_ALGO);	/* after the BIN/BIN reset */
	case ECS_INFO_PREDBL_SIZE: return (EC_PF_FXP_MULT_PRECALC_DBL_SIZE);
	case ECS_INFO_NCURVES: return ((long)nitems(ec_curve_str));
	case ECS_INFO_TWIN_OK: return (ECS_TWIN_OK);
	case ECS_INFO_INTER_W: return (EP_WIDTH * 16 + EP_DEPTH);
	case ECS_INFO_OPT: /* only used by the driver's cost model (case counts) */
#ifdef __OPTIMIZE__
		return (1);
#else
		return (0);
#endif
	case ECS_INFO_SAN:
#if defined(__SANITIZE_ADDRESS__)
		return (1);
#elif defined(__has_feature)
#if __has_feature(address_sanitizer)
		return (1);
#else
		return (0);
#endif
#else
		return (0);
#endif
	}
	return (-1);
}

int
ecs_table_get(int idx, ecs_curve *out) {
	ec_curve_str_p s;

	if (idx < 0 || (size_t)idx >= nitems(ec_curve_str))
		return (-1);
	s = &ec_curve_str[idx];
	memset(out, 0, sizeof(*out));
	snprintf(out->name, sizeof(out->name), "%.*s", (int)s->name_size, s->name);
	snprintf(out->p, sizeof(out->p), "%s", s->p);
	snprintf(out->a, sizeof(out->a), "%s", s->a);
	snprintf(out->b, sizeof(out->b), "%s", s->b);
	snprintf(out->gx, sizeof(out->gx), "%s", s->Gx);
	snprintf(out->gy, sizeof(out->gy), "%s", s->Gy);
	snprintf(out->n, sizeof(out->n), "%s", s->n);
	out->m = (uint32_t)s->m;
	out->t = (uint32_t)s->t;
	out->h = s->h;
	out->flags = s->flags;
	out->algo = s->algo;
	/* the loader relies on num_size == strlen of p,a,b,Gx,Gy */
	if (strlen(s->p) != s->num_size || strlen(s->a) != s->num_size || strlen(s->b) != s->num_size ||
	    strlen(s->Gx) != s->num_size || strlen(s->Gy) != s->num_size)
		return (-2);
	return (0);
}

/* Model of uninitialised automatic storage: fill the stack region the library
 * call is about to use with the junk byte (tables of up to ~0.9 MB live on the
 * library's stack in ec_point_unknown_pt_mult / *_twin_mult_bp). */
#define ECS_POISON_SZ (sizeof(ec_curve_t) / 2 + 192 * 1024)
static void __attribute__((noinline))
poison_stack(uint8_t junk) {
	volatile uint8_t area[ECS_POISON_SZ];

	memset((void *)area, junk, sizeof(area));
	__asm__ __volatile__("" : : "r"(area) : "memory");
}

/* ------------------------------------------------------------ curve cache */
/* One pinned slot per table row (loading a 521-bit curve with a 2 x 511 entry comb table
 * is the most expensive thing a slow variant does) + a small LRU for synthetic curves. */
#define ECS_NTBL 40
#define ECS_NSYN 12
typedef struct {
	char key[6 * ECS_HEX + 160];
	uint64_t stamp;
	int rc;
	ec_curve_t curve;
} ecs_slot;
static ecs_slot slots[ECS_NTBL + ECS_NSYN];
static uint64_t stamp_ctr;

static ecs_slot *
curve_get(const ecs_curve *cv, uint8_t junk) {
	char key[sizeof(slots[0].key)];
	size_t i, lo = ECS_NTBL, hi = (ECS_NTBL + ECS_NSYN), victim;
	ecs_slot *sl;

	snprintf(key, sizeof(key), "%s|%s|%s|%s|%s|%s|%s|%u|%u|%u|%u|%u", cv->name, cv->p, cv->a, cv->b,
	    cv->gx, cv->gy, cv->n, cv->m, cv->t, cv->h, cv->flags, cv->algo);
	if (0 != cv->name[0]) {
		for (i = 0; i < nitems(ec_curve_str) && i < ECS_NTBL; i ++) {
			if (strlen(cv->name) == ec_curve_str[i].name_size &&
			    0 == memcmp(cv->name, ec_curve_str[i].name, ec_curve_str[i].name_size)) {
				lo = i;
				hi = (i + 1);
				break;
			}
		}
	}
	victim = lo;
	for (i = lo; i < hi; i ++) {
		if (0 != slots[i].stamp && 0 == strcmp(slots[i].key, key)) {
			slots[i].stamp = ++ stamp_ctr;
			return (&slots[i]);
		}
		if (slots[i].stamp < slots[victim].stamp)
			victim = i;
	}
	sl = &slots[victim];
	memcpy(sl->key, key, sizeof(key));
	sl->stamp = ++ stamp_ctr;
	poison_stack(junk);
	if (0 != cv->name[0]) {
		sl->rc = ecdsa_curve_from_str(ecdsa_curve_str_get_by_name(cv->name, strlen(cv->name)),
		    &sl->curve);
	} else {
		ec_curve_str_t cs;

		memset(&cs, 0, sizeof(cs));
		cs.name = "synthetic";
		cs.name_size = 9;
		cs.OID = "";
		cs.num_size = strlen(cv->p);
		cs.t = cv->t;
		cs.m = cv->m;
		cs.p = cv->p;
		cs.a = cv->a;
		cs.b = cv->b;
		cs.Gx = cv->gx;
		cs.Gy = cv->gy;
		cs.n = cv->n;
		cs.h = cv->h;
		cs.algo = cv->algo;
		cs.flags = cv->flags;
		sl->rc = ecdsa_curve_from_str(&cs, &sl->curve);
	}
	return (sl);
}

/* ------------------------------------------------------------ operands */
static size_t
min_len(const uint8_t *p) {
	size_t n = ECS_MAXB;

	while (n > 0 && 0 == p[n - 1])
		n --;
	return (n);
}

static int
load_bn(bn_p x, const uint8_t *v, size_t bits, uint8_t junk) {
	size_t n = min_len(v);

	memset(x, junk, sizeof(*x));
	BN_RET_ON_ERR(bn_init(x, bits));
	if (0 == n) {
		bn_assign_zero(x);
		return (0);
	}
	return (bn_import_le_bin(x, v, n));
}

static int
load_pt(ec_point_p pt, const ecs_pt *s, size_t bits, uint8_t junk) {

	BN_RET_ON_ERR(load_bn(&pt->x, s->x, bits, junk));
	BN_RET_ON_ERR(load_bn(&pt->y, s->y, bits, junk));
	pt->infinity = (0 != s->inf);
	return (0);
}

static int
load_ppt(ec_point_proj_p pt, const ecs_pt *s, size_t bits, uint8_t junk) {

	BN_RET_ON_ERR(load_bn(&pt->x, s->x, bits, junk));
	BN_RET_ON_ERR(load_bn(&pt->y, s->y, bits, junk));
	BN_RET_ON_ERR(load_bn(&pt->z, s->z, bits, junk));
	return (0);
}

static int
dump_bn(bn_p x, uint8_t *d) {

	memset(d, 0, ECS_MAXB);
	if (x->digits > x->count || x->count > BN_MAX_DIGITS)
		return (0);
	if (0 != x->digits && 0 == x->num[x->digits - 1])
		return (0);
	if ((x->digits * BN_DIGIT_SIZE) > ECS_MAXB) {
		memcpy(d, x->num, ECS_MAXB);
		return (0);
	}
	memcpy(d, x->num, (x->digits * BN_DIGIT_SIZE));
	return (1);
}

static void
dump_pt(ec_point_p pt, ecs_pt *d, uint8_t *canon) {
	int ok = 1;

	memset(d, 0, sizeof(*d));
	if (0 != pt->infinity) {
		d->inf = 1;
	} else {
		ok &= dump_bn(&pt->x, d->x);
		ok &= dump_bn(&pt->y, d->y);
	}
	if (NULL != canon)
		(*canon) = (uint8_t)ok;
}

static int
same_pt(ec_point_p pt, const ecs_pt *s) {
	ecs_pt d;
	uint8_t canon;

	dump_pt(pt, &d, &canon);
	if ((0 != d.inf) != (0 != s->inf))
		return (0);
	if (0 != d.inf)
		return (1);
	return (0 != canon && 0 == memcmp(d.x, s->x, ECS_MAXB) && 0 == memcmp(d.y, s->y, ECS_MAXB));
}

static int
same_bn(bn_p x, const uint8_t *v) {
	uint8_t d[ECS_MAXB];

	return (0 != dump_bn(x, d) && 0 == memcmp(d, v, ECS_MAXB));
}

/* storage for explicitly precomputed tables (all algorithms, both systems) */
static union {
	ec_point_fpx_pre_dbl_mult_data_t	a_pd;
	ec_point_fpx_sl_win_mult_data_t		a_sw;
	ec_point_fpx_comb1t_mult_data_t		a_c1;
	ec_point_fpx_comb2t_mult_data_t		a_c2;
	ec_point_proj_fpx_pre_dbl_mult_data_t	p_pd;
	ec_point_proj_fpx_sl_win_mult_data_t	p_sw;
	ec_point_proj_fpx_comb1t_mult_data_t	p_c1;
	ec_point_proj_fpx_comb2t_mult_data_t	p_c2;
#if EC_PF_FXP_MULT_ALGO != EC_PF_FXP_MULT_ALGO_BIN
	ec_pt_fpx_mult_data_t			cfg;
#endif
} md;

#define PROJ_EVAL(__call)						\
do {									\
	ec_point_proj_t tm_;						\
	memset(&tm_, in->junk, sizeof(tm_));				\
	rc = ec_point_proj_init(&tm_, curve->m);			\
	if (0 == rc)							\
		rc = (__call);						\
	if (0 == rc)							\
		rc = ec_point_proj_export_affine(&tm_, &R, curve);	\
} while (0)

void
ecs_call(const ecs_curve *cv, const ecs_in *in, ecs_out *out) {
	ecs_slot *sl;
	ec_curve_p curve;
	ec_point_t P, Q, R, T;
	ec_point_proj_t A, B;
	bn_t k, l;
	size_t pbits, sbits;
	int rc = 0, res_in_P = 0, res_in_R = 0, chk_inputs = 0, warnings = 0;

	memset(out, 0, sizeof(*out));
	sl = curve_get(cv, in->junk);
	out->curve_rc = sl->rc;
	if (0 != sl->rc) {
		sl->stamp = 0; /* do not cache failures */
		return;
	}
	curve = &sl->curve;
	sbits = EC_CURVE_CALC_BITS_DBL(curve);
	pbits = (0 != in->capsel) ? sbits : curve->m;

	memset(&R, in->junk, sizeof(R));
	memset(&T, in->junk, sizeof(T));
	out->setup_rc = load_pt(&P, &in->P, pbits, in->junk);
	if (0 == out->setup_rc)
		out->setup_rc = load_pt(&Q, &in->Q, pbits, in->junk);
	if (0 == out->setup_rc)
		out->setup_rc = ec_point_init(&R, pbits);
	if (0 == out->setup_rc)
		out->setup_rc = load_bn(&k, in->k, sbits, in->junk);
	if (0 == out->setup_rc)
		out->setup_rc = load_bn(&l, in->l, sbits, in->junk);
	if (0 == out->setup_rc && in->op >= EO_RAW_ADD && in->op <= EO_RAW_SUB_ALIAS) {
		out->setup_rc = load_ppt(&A, &in->P, pbits, in->junk);
		if (0 == out->setup_rc && in->op != EO_RAW_ADD_MIX && in->op != EO_RAW_SUB_MIX)
			out->setup_rc = load_ppt(&B, &in->Q, pbits, in->junk);
	}
	if (0 != out->setup_rc)
		return;
	if (EO_ALGO_MULT == in->op || EO_FPX_MULT == in->op)
		memset(&md, in->junk, sizeof(md));

	poison_stack(in->junk);
	switch (in->op) {
	/* ---- configured dispatch */
	case EO_ADD:
		rc = ec_point_add(&P, &Q, curve); res_in_P = 1; break;
	case EO_SUB:
		rc = ec_point_sub(&P, &Q, curve); res_in_P = 1; break;
	case EO_DBL_ALIAS:
		rc = ec_point_add(&P, &P, curve); res_in_P = 1; break;
	case EO_SUB_ALIAS:
		rc = ec_point_sub(&P, &P, curve); res_in_P = 1; break;
	case EO_DBL_EQ:
		rc = ec_point_init(&T, pbits);
		if (0 == rc) rc = ec_point_assign(&T, &P);
		if (0 == rc) rc = ec_point_add(&P, &T, curve);
		res_in_P = 1; break;
	case EO_BIN_MULT:
		rc = ec_point_bin_mult(&P, &k, curve); res_in_P = 1; break;
	case EO_UNKPT_MULT:
		rc = ec_point_unknown_pt_mult(&P, &k, curve); res_in_P = 1; break;
	case EO_MULT_BP:
		rc = ec_point_mult_bp(&k, curve, &R); res_in_R = 1; break;
	case EO_FPX_MULT:
#if EC_PF_FXP_MULT_ALGO != EC_PF_FXP_MULT_ALGO_BIN
		out->pre_rc = ec_point_fpx_mult_precompute(EC_PF_FXP_MULT_WIN_BITS, &P, curve, &md.cfg);
		if (0 == out->pre_rc)
			rc = ec_point_fpx_mult(&R, &md.cfg, &k, curve);
		res_in_R = 1;
#else
		out->unsupported = 1;
#endif
		break;
	case EO_TWIN:
#if ECS_TWIN_OK
		rc = ec_point_twin_mult(&P, &k, &Q, &l, curve, &R); res_in_R = 1; chk_inputs = 3;
#else
		out->unsupported = 2;
#endif
		break;
	case EO_TWIN_BP:
#if ECS_TWIN_OK
		rc = ec_point_twin_mult_bp(&k, &Q, &l, curve, &R); res_in_R = 1; chk_inputs = 2;
#else
		out->unsupported = 2;
#endif
		break;
	case EO_TWIN_FXP_UNKPT_BP:
		rc = ec_point_fpx_unkpt_twin_mult_bp(&k, &Q, &l, curve, &R); res_in_R = 1; chk_inputs = 2;
		break;

	/* ---- direct affine */
	case EO_AFF_ADD:
		rc = ec_point_affine_add(&P, &Q, curve); res_in_P = 1; break;
	case EO_AFF_SUB:
		rc = ec_point_affine_sub(&P, &Q, curve); res_in_P = 1; break;
	case EO_AFF_DBL_ALIAS:
		rc = ec_point_affine_add(&P, &P, curve); res_in_P = 1; break;
	case EO_AFF_SUB_ALIAS:
		rc = ec_point_affine_sub(&P, &P, curve); res_in_P = 1; break;
	case EO_AFF_DBL_EQ:
		rc = ec_point_init(&T, pbits);
		if (0 == rc) rc = ec_point_assign(&T, &P);
		if (0 == rc) rc = ec_point_affine_add(&P, &T, curve);
		res_in_P = 1; break;
	case EO_AFF_DBL_N:
		rc = ec_point_affine_dbl_n(&P, in->n, curve); res_in_P = 1; break;
	case EO_AFF_BIN_MULT:
		rc = ec_point_affine_bin_mult(&P, &k, curve); res_in_P = 1; break;

	/* ---- direct Jacobian through the affine proxies */
	case EO_PRJ_ADD:
		rc = ec_point_proj_add_affine(&P, &Q, curve); res_in_P = 1; break;
	case EO_PRJ_SUB:
		rc = ec_point_proj_sub_affine(&P, &Q, curve); res_in_P = 1; break;
	case EO_PRJ_DBL_ALIAS:
		rc = ec_point_proj_add_affine(&P, &P, curve); res_in_P = 1; break;
	case EO_PRJ_SUB_ALIAS:
		rc = ec_point_proj_sub_affine(&P, &P, curve); res_in_P = 1; break;
	case EO_PRJ_DBL_EQ:
		rc = ec_point_init(&T, pbits);
		if (0 == rc) rc = ec_point_assign(&T, &P);
		if (0 == rc) rc = ec_point_proj_add_affine(&P, &T, curve);
		res_in_P = 1; break;
	case EO_PRJ_BIN_MULT:
		rc = ec_point_proj_bin_mult_affine(&P, &k, curve); res_in_P = 1; break;

	/* ---- raw Jacobian operands (X, Y, Z) */
	case EO_RAW_ADD:
		rc = ec_point_proj_add(&A, &B, curve);
		if (0 == rc) rc = ec_point_proj_export_affine(&A, &R, curve);
		res_in_R = 1; break;
	case EO_RAW_SUB:
		rc = ec_point_proj_sub(&A, &B, curve);
		if (0 == rc) rc = ec_point_proj_export_affine(&A, &R, curve);
		res_in_R = 1; break;
	case EO_RAW_SUB_ALIAS:
		rc = ec_point_proj_sub(&A, &A, curve);
		if (0 == rc) rc = ec_point_proj_export_affine(&A, &R, curve);
		res_in_R = 1; break;
	case EO_RAW_DBL_ALIAS:
		rc = ec_point_proj_add(&A, &A, curve);
		if (0 == rc) rc = ec_point_proj_export_affine(&A, &R, curve);
		res_in_R = 1; break;
	case EO_RAW_DBL_EQ: /* distinct object, same representation */
		rc = ec_point_proj_init(&B, pbits);
		if (0 == rc) rc = ec_point_proj_assign(&B, &A);
		if (0 == rc) rc = ec_point_proj_add(&A, &B, curve);
		if (0 == rc) rc = ec_point_proj_export_affine(&A, &R, curve);
		res_in_R = 1; break;
	case EO_RAW_ADD_MIX:
		rc = ec_point_proj_add_mix(&A, &Q, curve);
		if (0 == rc) rc = ec_point_proj_export_affine(&A, &R, curve);
		res_in_R = 1; break;
	case EO_RAW_SUB_MIX:
		rc = ec_point_proj_sub_mix(&A, &Q, curve);
		if (0 == rc) rc = ec_point_proj_export_affine(&A, &R, curve);
		res_in_R = 1; break;
	case EO_RAW_DBL_N:
		rc = ec_point_proj_dbl_n(&A, in->n, curve);
		if (0 == rc) rc = ec_point_proj_export_affine(&A, &R, curve);
		res_in_R = 1; break;

	/* ---- every fixed-point algorithm with an explicit table for P */
	case EO_ALGO_MULT:
		res_in_R = 1;
		if (in->wbits > EC_PF_FXP_MULT_WIN_BITS || 0 == in->wbits) { /* table arrays are sized by the FXP macro */
			out->unsupported = 1;
			break;
		}
		if (EC_PF_FXP_MULT_ALGO_BIN_PRECALC_DBL == in->algo &&
		    curve->m > EC_PF_FXP_MULT_PRECALC_DBL_SIZE) {
			out->unsupported = 1;
			break;
		}
		if (0 == in->coord) {
			switch (in->algo) {
			case EC_PF_FXP_MULT_ALGO_BIN_PRECALC_DBL:
				out->pre_rc = ec_point_affine_fpx_pre_dbl_mult_precompute(in->wbits, &P, curve, &md.a_pd);
				if (0 == out->pre_rc)
					rc = ec_point_affine_fpx_pre_dbl_mult(&R, &md.a_pd, &k, curve);
				break;
			case EC_PF_FXP_MULT_ALGO_SLIDING_WIN:
				out->pre_rc = ec_point_affine_fpx_sl_win_mult_precompute(in->wbits, &P, curve, &md.a_sw);
				if (0 == out->pre_rc)
					rc = ec_point_affine_fpx_sl_win_mult(&R, &md.a_sw, &k, curve);
				break;
			case EC_PF_FXP_MULT_ALGO_COMB_1T:
				out->pre_rc = ec_point_affine_fpx_comb1t_mult_precompute(in->wbits, &P, curve, &md.a_c1);
				if (0 == out->pre_rc)
					rc = ec_point_affine_fpx_comb1t_mult(&R, &md.a_c1, &k, curve);
				break;
			case EC_PF_FXP_MULT_ALGO_COMB_2T:
				out->pre_rc = ec_point_affine_fpx_comb2t_mult_precompute(in->wbits, &P, curve, &md.a_c2);
				if (0 == out->pre_rc)
					rc = ec_point_affine_fpx_comb2t_mult(&R, &md.a_c2, &k, curve);
				break;
			default:
				out->unsupported = 1;
			}
		} else {
			switch (in->algo) {
			case EC_PF_FXP_MULT_ALGO_BIN_PRECALC_DBL:
				out->pre_rc = ec_point_proj_fpx_pre_dbl_mult_precompute_affine(in->wbits, &P, curve, &md.p_pd);
				if (0 == out->pre_rc)
					PROJ_EVAL(ec_point_proj_fpx_pre_dbl_mult(&tm_, &md.p_pd, &k, curve));
				break;
			case EC_PF_FXP_MULT_ALGO_SLIDING_WIN:
				out->pre_rc = ec_point_proj_fpx_sl_win_mult_precompute_affine(in->wbits, &P, curve, &md.p_sw);
				if (0 == out->pre_rc)
					PROJ_EVAL(ec_point_proj_fpx_sl_win_mult(&tm_, &md.p_sw, &k, curve));
				break;
			case EC_PF_FXP_MULT_ALGO_COMB_1T:
				out->pre_rc = ec_point_proj_fpx_comb1t_mult_precompute_affine(in->wbits, &P, curve, &md.p_c1);
				if (0 == out->pre_rc)
					PROJ_EVAL(ec_point_proj_fpx_comb1t_mult(&tm_, &md.p_c1, &k, curve));
				break;
			case EC_PF_FXP_MULT_ALGO_COMB_2T:
				out->pre_rc = ec_point_proj_fpx_comb2t_mult_precompute_affine(in->wbits, &P, curve, &md.p_c2);
				if (0 == out->pre_rc)
					PROJ_EVAL(ec_point_proj_fpx_comb2t_mult(&tm_, &md.p_c2, &k, curve));
				break;
			default:
				out->unsupported = 1;
			}
		}
		break;
	case EO_TWIN_DIRECT:
		res_in_R = 1;
		chk_inputs = 3;
		if (0 == in->coord) {
			switch (in->algo) {
			case EC_PF_TWIN_MULT_ALGO_BIN:
				rc = ec_point_affine_bin_twin_mult(&P, &k, &Q, &l, curve, &R); break;
			case EC_PF_TWIN_MULT_ALGO_JOINT:
				rc = ec_point_affine_joint_twin_mult(&P, &k, &Q, &l, curve, &R); break;
			default:
				out->unsupported = 2; /* no affine interleaved twin multiplication exists */
			}
		} else {
			switch (in->algo) {
			case EC_PF_TWIN_MULT_ALGO_BIN:
				rc = ec_point_proj_bin_twin_mult_affine(&P, &k, &Q, &l, curve, &R); break;
			case EC_PF_TWIN_MULT_ALGO_JOINT:
				rc = ec_point_proj_joint_twin_mult_affine(&P, &k, &Q, &l, curve, &R); break;
			case EC_PF_TWIN_MULT_ALGO_INTER:
				rc = ec_point_proj_inter_twin_mult_affine(&P, &k, &Q, &l, curve, &R); break;
			default:
				out->unsupported = 1;
			}
		}
		break;

	/* ---- predicates */
	case EO_CHECK_AFFINE:
		rc = ec_point_check_affine(&P, curve); chk_inputs = 1; break;
	case EO_CURVE_VALIDATE:
		rc = ec_curve_validate(curve, &warnings);
		out->aux = warnings;
		break;
	case EO_CHECK_SCALAR_MULT:
		rc = ec_point_check_scalar_mult(&P, curve); chk_inputs = 1; break;
	case EO_IS_INVERSE:
		rc = ec_point_is_inverse(&P, &Q, curve); chk_inputs = 3; break;
	default:
		out->unsupported = 1;
	}
	out->rc = rc;
	if (0 != res_in_P)
		dump_pt(&P, &out->R, &out->r_canon);
	if (0 != res_in_R)
		dump_pt(&R, &out->R, &out->r_canon);
	if (0 != (chk_inputs & 1) && 0 == same_pt(&P, &in->P))
		out->in_changed |= 1;
	if (0 != (chk_inputs & 2)) {
		if (0 == same_pt(&Q, &in->Q))
			out->in_changed |= 2;
		if (0 == same_bn(&k, in->k))
			out->in_changed |= 4;
		if (0 == same_bn(&l, in->l))
			out->in_changed |= 8;
	}
}
