/* Thread-pool harness: C16 -- I/O task scenarios on AF_UNIX stream socket pairs. */
#define _GNU_SOURCE
#include <sys/param.h>
#include <sys/types.h>
#include <sys/socket.h>
#include <errno.h>
#include <fcntl.h>
#include <pthread.h>
#include <stdatomic.h>
#include <stdint.h>
#include <stdio.h>
#include <stdlib.h>
#include <string.h>
#include <time.h>
#include <unistd.h>

#include "threadpool/threadpool.h"
#include "threadpool/threadpool_msg_sys.h"
#include "threadpool/threadpool_task.h"
#include "tp_abi.h"
#include "tp_int.h"

#define CEIL_MS 20000
#define GUARD_OUT 0xfd
#define FILL_IN 0xfe /* pattern bytes are 1..250 */

static const c16_scn *g_scn;
static c16_out *g_out;
static tp_p g_tp;
static tpt_p g_owner;
static int g_sp[2];
static tp_task_p g_task;
static io_buf_t g_iob;
static uint8_t g_mem[4096 + 64];
static atomic_uint g_ncb, g_started, g_fence, g_done_flag, g_stopped;
static int g_in_start, g_rearm_cnt, g_destroyed;
static atomic_uint g_cb_after_stop, g_ntimeout, g_paused, g_cb_while_paused;
static int g_paused_in_start;
static int g_task_fd = -1;

static uint64_t
now_us(void) {
	struct timespec ts;
	clock_gettime(CLOCK_MONOTONIC, &ts);
	return ((uint64_t)ts.tv_sec * 1000000ull + (uint64_t)ts.tv_nsec / 1000ull);
}

uint8_t c16_pattern(uint64_t i) { return ((uint8_t)(1 + ((i * 7 + i / 251) % 250))); }

static void
note_ident_after_destroy(void) {
	if (g_task_fd >= 0 && g_task_fd != g_sp[0]) {
		if (-1 != fcntl(g_task_fd, F_GETFD))
			g_out->ident_open_after_destroy = 1;
		g_task_fd = -1; /* closed by the library (or reported) */
	}
}

static void
mark_stopped(void) {
	atomic_store(&g_stopped, 1);
}

static int
task_cb(tp_task_p tptask, int error, io_buf_p buf, uint32_t eof, size_t transfered_size, void *udata) {
	uint32_t n = atomic_fetch_add(&g_ncb, 1);
	int ret = TP_TASK_CB_NONE, full, first = (0 == n);

	(void)udata;
	if (0 != atomic_load(&g_stopped))
		atomic_fetch_add(&g_cb_after_stop, 1);
	if (0 != atomic_load(&g_paused))
		atomic_fetch_add(&g_cb_while_paused, 1);
	full = (NULL != buf && 0 == IO_BUF_TR_SIZE_GET(buf));
	if (0 != error && ETIMEDOUT != error) {
		tp_task_stop(tptask);
		mark_stopped();
		ret = TP_TASK_CB_NONE;
	} else if (ETIMEDOUT == error) {
		atomic_fetch_add(&g_ntimeout, 1);
		ret = TP_TASK_CB_CONTINUE; /* keep waiting: the task re-arms its timer */
	} else if (0 != (TP_TASK_IOF_F_BUF & eof) && 0 == g_scn->dir) { /* recv() returned 0: the stream really ended */
		tp_task_stop(tptask);
		mark_stopped();
		ret = TP_TASK_CB_EOF;
	} else if (full) {
		if (g_scn->rearm && g_rearm_cnt < 3 && 0 == g_scn->dir) {
			g_rearm_cnt ++;
			buf->offset = g_scn->win_off;
			buf->used = g_scn->used0;
			IO_BUF_TR_SIZE_SET(buf, g_scn->win_len);
			ret = TP_TASK_CB_CONTINUE;
		} else {
			tp_task_stop(tptask);
			mark_stopped();
			ret = TP_TASK_CB_NONE;
		}
	} else {
		switch (first ? g_scn->cb_policy : 0) {
		case 1:
			tp_task_stop(tptask);
			mark_stopped();
			ret = TP_TASK_CB_NONE;
			break;
		case 2:
			tp_task_destroy(tptask);
			g_destroyed = 1;
			note_ident_after_destroy();
			mark_stopped();
			ret = TP_TASK_CB_NONE;
			break;
		case 3:
			/* a disable that reports an error (injected epoll_ctl/timerfd fault) did not
			 * disable anything: the caller reacts the way in-tree callers do, by stopping */
			if (0 != tp_task_enable(tptask, 0))
				tp_task_stop(tptask);
			mark_stopped();
			ret = TP_TASK_CB_NONE;
			break;
		case 4:
			/* header: "All other return codes stop callback untill tp_task_enable(1) is called if
			 * TP_F_DISPATCH flag was set" -- decline without stopping anything */
			atomic_store(&g_paused, 1);
			g_paused_in_start = g_in_start;
			g_out->paused = 1;
			ret = TP_TASK_CB_NONE;
			break;
		default:
			ret = TP_TASK_CB_CONTINUE;
			break;
		}
	}
	if (n < C16_MAX_CB) {
		c16_cb *r = &g_out->cb[n];
		r->error = error;
		r->eof = eof;
		r->transfered = transfered_size;
		r->used = (NULL != buf && !g_destroyed) ? buf->used : g_iob.used;
		r->offset = g_iob.offset;
		r->tr_size = g_iob.transfer_size;
		r->on_owner = (tpt_get_current() == g_owner);
		r->in_start = (uint8_t)g_in_start;
		r->ret = ret;
		r->t_us = now_us();
		r->log_idx = tp_log(R_TASK_CB, (uint64_t)(int64_t)error, eof, transfered_size, 0);
	}
	return (ret);
}

static int
notify_cb(tp_task_p tptask, int error, uint32_t eof, size_t data2transfer_size, void *udata) {
	/* readiness only: the harness callback drains nothing; stop after the first notification */
	uint32_t n = atomic_fetch_add(&g_ncb, 1);

	(void)udata; (void)data2transfer_size;
	if (0 != atomic_load(&g_stopped))
		atomic_fetch_add(&g_cb_after_stop, 1);
	tp_task_stop(tptask);
	mark_stopped();
	if (n < C16_MAX_CB) {
		c16_cb *r = &g_out->cb[n];
		memset(r, 0, sizeof(*r));
		r->error = error;
		r->eof = eof;
		r->on_owner = (tpt_get_current() == g_owner);
		r->ret = TP_TASK_CB_NONE;
		r->t_us = now_us();
		r->log_idx = tp_log(R_TASK_CB, (uint64_t)(int64_t)error, eof, 0, 1);
	}
	return (TP_TASK_CB_NONE);
}

static void
start_cb(tpt_p tpt, void *udata) {
	const c16_scn *s = g_scn;
	int rc;
	uint16_t ev = (0 == s->dir) ? TP_EV_READ : TP_EV_WRITE;
	uint16_t fl = (1 == s->ev_flags) ? TP_F_ONESHOT : (2 == s->ev_flags) ? TP_F_DISPATCH : 0;

	(void)udata;
	if (1 == s->handler) {
		rc = tp_task_notify_create(tpt, (uintptr_t)g_task_fd, 0, ev, s->timeout_ms, notify_cb, NULL, &g_task);
		g_out->start_rc = rc;
		atomic_store(&g_started, 1);
		return;
	}
	rc = tp_task_create(tpt, (uintptr_t)g_task_fd, tp_task_sr_handler,
	    (s->after_every_read ? TP_TASK_F_CB_AFTER_EVERY_READ : 0) |
	    ((g_task_fd != g_sp[0]) ? TP_TASK_F_CLOSE_ON_DESTROY : 0), NULL, &g_task);
	if (0 == rc) {
		g_in_start = 1;
		rc = tp_task_start_ex((s->start_ex_direct ? 0 : 1), g_task, ev, fl, s->timeout_ms, 0, &g_iob, task_cb);
		g_in_start = 0;
	}
	g_out->start_rc = rc;
	atomic_store(&g_started, 1);
}
static void fence_cb(tpt_p tpt, void *udata) { (void)tpt; (void)udata; atomic_fetch_add(&g_fence, 1); }
static int
fences(int k) {
	int hang = 0;
	while (k-- > 0) {
		uint32_t want = atomic_load(&g_fence) + 1;
		if (0 != tpt_msg_send(g_owner, NULL, 0, fence_cb, NULL))
			return (1);
		hang |= tp_wait_until(&g_fence, want, CEIL_MS);
	}
	return (hang);
}
static void
resume_cb(tpt_p tpt, void *udata) {
	(void)tpt; (void)udata;
	g_out->cb_while_paused = atomic_load(&g_cb_while_paused);
	atomic_store(&g_paused, 0);
	/* a first transfer made inside tp_task_start_ex() that declined to continue left the task unscheduled:
	 * it is (re)started; a task paused from a scheduled event is re-enabled */
	if (g_paused_in_start)
		g_out->resume_rc = tp_task_restart(g_task);
	else
		g_out->resume_rc = tp_task_enable(g_task, 1);
	atomic_store(&g_done_flag, 1);
}
static void
final_cb(tpt_p tpt, void *udata) {
	/* owner thread: the task (if still alive) is destroyed here */
	(void)tpt; (void)udata;
	if (NULL != g_task && !g_destroyed) {
		tp_task_destroy(g_task);
		g_destroyed = 1;
		note_ident_after_destroy();
	}
	mark_stopped();
	atomic_store(&g_done_flag, 1);
}

static void peer_write(const uint8_t *p, size_t n);
/* fragment writer shared by the main thread and the recv() hook */
static pthread_mutex_t g_piece_lock = PTHREAD_MUTEX_INITIALIZER;
static size_t g_piece_next, g_piece_sent_idx;
static atomic_int g_inject_active;
static int
write_next_piece(void) {
	uint8_t piece[4096];
	size_t k, len;
	int done = 0;

	pthread_mutex_lock(&g_piece_lock);
	if (g_piece_next < g_scn->npieces) {
		len = g_scn->pieces[g_piece_next].len;
		for (k = 0; k < len; k ++)
			piece[k] = c16_pattern(g_piece_sent_idx ++);
		peer_write(piece, len);
		g_piece_next ++;
		done = 1;
	}
	pthread_mutex_unlock(&g_piece_lock);
	return (done);
}
/* threadpool_task.c of this unit is compiled with -Drecv=verif_recv */
ssize_t
verif_recv(int fd, void *buf, size_t len, int flags) {
	ssize_t r = recv(fd, buf, len, flags);

	if (r > 0 && 0 != atomic_load(&g_inject_active))
		(void)write_next_piece(); /* the next fragment arrives before the handler reads again */
	return (r);
}

static void
peer_write(const uint8_t *p, size_t n) {
	size_t off = 0;
	int spins = 0;
	while (off < n && spins < 20000) {
		ssize_t w = send(g_sp[1], p + off, n - off, MSG_DONTWAIT | MSG_NOSIGNAL);
		if (w > 0) {
			off += (size_t)w;
			continue;
		}
		if (-1 == w && EAGAIN != errno && EINTR != errno)
			break;
		usleep(200);
		spins ++;
	}
	g_out->sent_total += off;
}

void
c16_run(const c16_scn *scn, c16_out *out) {
	tp_settings_t s;
	tp_res_stats rs0;
	size_t i, total = 0, sent_idx = 0;
	uint8_t piece[4096];
	uint64_t last_arrival, gap;
	uint32_t T = scn->timeout_ms ? scn->timeout_ms : 40;
	uint32_t waited;

	memset(out, 0, sizeof(*out));
	out->peer_mismatch = UINT32_MAX;
	g_scn = scn;
	g_out = out;
	g_task = NULL;
	g_in_start = g_rearm_cnt = g_destroyed = 0;
	atomic_store(&g_ncb, 0);
	atomic_store(&g_started, 0);
	atomic_store(&g_fence, 0);
	atomic_store(&g_done_flag, 0);
	atomic_store(&g_stopped, 0);
	atomic_store(&g_cb_after_stop, 0);
	atomic_store(&g_ntimeout, 0);
	atomic_store(&g_paused, 0);
	atomic_store(&g_cb_while_paused, 0);
	atomic_store(&g_inject_active, 0);
	tp_harness_reset(&scn->plans);
	g_close_unknown_passthrough = 1; /* tasks close descriptors their owner created */
	tp_res_get(&rs0);
	out->base_live_fds = rs0.live_fds;

	tp_settings_def(&s);
	s.flags = 0;
	s.threads_max = 1;
	out->setup_rc = tp_create(&s, &g_tp);
	if (0 != out->setup_rc)
		return;
	tp_threads_create(g_tp, 0);
	g_owner = tp_thread_get(g_tp, 0);
	if (0 != socketpair(AF_UNIX, SOCK_STREAM | SOCK_NONBLOCK, 0, g_sp)) {
		out->setup_rc = errno;
		return;
	}
	g_task_fd = g_sp[0];
	if (scn->close_on_destroy && 0 == scn->handler) {
		g_task_fd = dup(g_sp[0]);
		if (-1 == g_task_fd) {
			out->setup_rc = errno;
			return;
		}
	}
	if (0 != scn->sndbuf) {
		int v = (int)scn->sndbuf;
		setsockopt(g_sp[0], SOL_SOCKET, SO_SNDBUF, &v, sizeof(v));
	}
	/* buffer: 32 outer guard bytes on both sides, FILL_IN inside */
	memset(g_mem, GUARD_OUT, sizeof(g_mem));
	memset(g_mem + 32, FILL_IN, scn->buf_size);
	memset(&g_iob, 0, sizeof(g_iob));
	g_iob.data = g_mem + 32;
	g_iob.size = scn->buf_size;
	g_iob.used = scn->used0;
	g_iob.offset = scn->win_off;
	g_iob.transfer_size = scn->win_len;
	if (1 == scn->dir) { /* send task: the window holds the pattern */
		for (i = 0; i < scn->win_len; i ++) {
			if ((size_t)scn->win_off + i < (size_t)scn->buf_size) /* a window past the buffer is generated on purpose: the guards stay intact */
				g_iob.data[scn->win_off + i] = c16_pattern(i);
		}
	}
	for (i = 0; i < scn->npieces; i ++)
		total += scn->pieces[i].len;

	tp_harness_arm();
	/* receive task: data queued before the start */
	if (0 == scn->dir) {
		for (i = 0; i < scn->prequeue && i < scn->npieces; i ++) {
			size_t k;
			for (k = 0; k < scn->pieces[i].len; k ++)
				piece[k] = c16_pattern(sent_idx ++);
			peer_write(piece, scn->pieces[i].len);
		}
	}
	if (0 != tpt_msg_send(g_owner, NULL, 0, start_cb, NULL)) {
		out->setup_rc = -1;
		return;
	}
	out->hang |= tp_wait_until(&g_started, 1, CEIL_MS);
	last_arrival = now_us();
	out->run_us = last_arrival;

	if (0 == scn->dir && scn->inject_on_recv) {
		/* first fragment from here, the others from inside the library's recv() calls; whatever is left when the task
		 * stops reading (or after a moment) is written from here again */
		pthread_mutex_lock(&g_piece_lock);
		g_piece_next = scn->prequeue;
		g_piece_sent_idx = sent_idx;
		pthread_mutex_unlock(&g_piece_lock);
		atomic_store(&g_inject_active, 1);
		(void)write_next_piece();
		for (waited = 0; waited < 60 && 0 == atomic_load(&g_stopped); waited ++) {
			pthread_mutex_lock(&g_piece_lock);
			i = g_piece_next;
			pthread_mutex_unlock(&g_piece_lock);
			if (i >= scn->npieces)
				break;
			usleep(500);
		}
		atomic_store(&g_inject_active, 0);
		while (write_next_piece())
			;
		last_arrival = now_us();
		if (1 == scn->end) {
			close(g_sp[1]);
			g_sp[1] = -1;
		} else if (2 == scn->end) {
			shutdown(g_sp[1], SHUT_WR);
		}
	} else if (0 == scn->dir) {
		for (i = scn->prequeue; i < scn->npieces; i ++) {
			size_t k;
			if (2 == scn->pieces[i].pause) {
				usleep(5000u * T);
				last_arrival = now_us();
			} else if (1 == scn->pieces[i].pause) {
				usleep(25u * MIN(T, 200u));
			}
			for (k = 0; k < scn->pieces[i].len; k ++)
				piece[k] = c16_pattern(sent_idx ++);
			gap = now_us() - last_arrival;
			if (gap > out->max_gap_us)
				out->max_gap_us = gap;
			peer_write(piece, scn->pieces[i].len);
			last_arrival = now_us();
		}
		if (1 == scn->end) {
			close(g_sp[1]);
			g_sp[1] = -1;
		} else if (2 == scn->end) {
			shutdown(g_sp[1], SHUT_WR);
		}
	} else {
		/* send task: the peer reads everything with the requested fragmentation / pauses */
		uint64_t got = 0;
		size_t want = scn->win_len, paused_for = (size_t)-1;
		int idle = 0;
		for (i = 0; got < want && idle < 40000; ) {
			size_t chunk = (i < scn->npieces && scn->pieces[i].len) ? scn->pieces[i].len : 512;
			ssize_t r;
			if (i < scn->npieces && 1 == scn->pieces[i].pause && paused_for != i) {
				usleep(25u * MIN(T, 200u));
				paused_for = i;
			}
			if (0 != out->start_rc)
				break; /* the task never started */
			r = recv(g_sp[1], piece, MIN(chunk, sizeof(piece)), MSG_DONTWAIT);
			if (r > 0) {
				ssize_t k;
				for (k = 0; k < r; k ++) {
					if (piece[k] != c16_pattern(got + (uint64_t)k) && UINT32_MAX == out->peer_mismatch)
						out->peer_mismatch = (uint32_t)(got + (uint64_t)k);
				}
				got += (uint64_t)r;
				i ++;
				idle = 0;
				continue;
			}
			if (0 == r)
				break;
			if (0 != atomic_load(&g_stopped) && idle > 200)
				break; /* task stopped itself (policy) and nothing more arrives */
			usleep(250);
			idle ++;
		}
		out->peer_received = got;
	}
	/* let the task finish what it can: wait until it stopped itself or a quiet period passed */
	for (waited = 0; 0 == atomic_load(&g_stopped) && waited < 120; waited ++)
		usleep(500);
	out->run_us = now_us() - out->run_us;
	if (0 != atomic_load(&g_paused)) {
		/* the callback declined to continue: stay paused for longer than the timeout (if it is a short one),
		 * while the peer's remaining data sits in the socket; nothing may be reported until the re-enable */
		usleep((0 != scn->timeout_ms && scn->timeout_ms <= 500) ? 1600u * scn->timeout_ms : 4000u);
		out->hang |= fences(2);
		if (0 == tpt_msg_send(g_owner, NULL, 0, resume_cb, NULL)) {
			out->hang |= tp_wait_until(&g_done_flag, 1, CEIL_MS);
			atomic_store(&g_done_flag, 0);
		}
		for (waited = 0; 0 == atomic_load(&g_stopped) && waited < 120; waited ++)
			usleep(500);
	}
	if (0 != scn->timeout_ms && scn->timeout_ms <= 500 && 0 == atomic_load(&g_stopped) && 0 == scn->end &&
	    0 == scn->dir && 0 == scn->handler) {
		/* an armed idle task must report its timeout: wait for it with a generous ceiling
		 * instead of assuming a delivery latency */
		tp_wait_until(&g_ntimeout, 1, CEIL_MS / 2);
	}
	out->hang |= fences(2);
	/* owner destroys the task; afterwards no callback may come */
	if (0 == tpt_msg_send(g_owner, NULL, 0, final_cb, NULL))
		out->hang |= tp_wait_until(&g_done_flag, 1, CEIL_MS);
	if (0 == scn->dir && g_sp[1] >= 0) /* more data after the stop must not wake anything */
		(void)!send(g_sp[1], "late", 4, MSG_DONTWAIT | MSG_NOSIGNAL);
	out->hang |= fences(4);
	/* a timer left armed by a 120/200 ms task would fire here (a 2 s timer could not be caught by a wait worth its price) */
	usleep(2000 + ((0 != scn->timeout_ms && scn->timeout_ms <= 500) ? 1500u * scn->timeout_ms : 0));
	out->hang |= fences(2);
	tp_harness_disarm();
	out->ncb = atomic_load(&g_ncb);
	out->cb_after_stop = atomic_load(&g_cb_after_stop);
	memcpy(out->buf_image, g_mem, MIN(sizeof(out->buf_image), (size_t)scn->buf_size + 64));
	out->final_used = g_iob.used;
	out->final_offset = g_iob.offset;
	out->final_tr = g_iob.transfer_size;

	tp_shutdown(g_tp);
	tp_shutdown_wait(g_tp);
	tp_destroy(g_tp);
	if (g_task_fd >= 0 && g_task_fd != g_sp[0]) close(g_task_fd); /* the task was never created/destroyed */
	g_task_fd = -1;
	if (g_sp[0] >= 0) close(g_sp[0]);
	if (g_sp[1] >= 0) close(g_sp[1]);
	tp_res_get(&out->res);
	tp_res_cleanup();
	g_close_unknown_passthrough = 0;
}

/* ============================ file variant (pread / pwrite) ============================ */
#include <sys/mman.h>

uint8_t c16f_file_pattern(uint64_t pos) { return ((uint8_t)(3 + ((pos * 11 + pos / 253) % 247))); }

static const c16f_scn *gf_scn;
static c16f_out *gf_out;
static atomic_uint gf_ncb, gf_done;
static io_buf_t gf_iob;
static tp_task_p gf_task;

static int
file_cb(tp_task_p tptask, int error, io_buf_p buf, uint32_t eof, size_t transfered_size, void *udata) {
	uint32_t n = atomic_fetch_add(&gf_ncb, 1);

	(void)udata;
	if (n < 4) {
		c16_cb *r = &gf_out->cb[n];
		memset(r, 0, sizeof(*r));
		r->error = error;
		r->eof = eof;
		r->transfered = transfered_size;
		r->used = (NULL != buf) ? buf->used : 0;
		r->offset = gf_iob.offset;
		r->tr_size = gf_iob.transfer_size;
		r->on_owner = (tpt_get_current() == g_owner);
		r->in_start = 1;
	}
	tp_task_stop(tptask);
	return ((0 != error) ? TP_TASK_CB_ERROR : (0 != eof) ? TP_TASK_CB_EOF : TP_TASK_CB_NONE);
}
static void
file_start_cb(tpt_p tpt, void *udata) {
	const c16f_scn *s = gf_scn;
	int fd = (int)(intptr_t)udata, rc;

	rc = tp_task_create(tpt, (uintptr_t)fd, tp_task_rw_handler, 0, NULL, &gf_task);
	if (0 == rc)
		rc = tp_task_start_ex(0, gf_task, (0 == s->dir) ? TP_EV_READ : TP_EV_WRITE, 0, 0, (off_t)s->file_off, &gf_iob, file_cb);
	gf_out->start_rc = rc;
	if (NULL != gf_task) {
		tp_task_destroy(gf_task);
		gf_task = NULL;
	}
	atomic_store(&gf_done, 1);
}

void
c16f_run(const c16f_scn *scn, c16f_out *out) {
	tp_settings_t s;
	uint8_t blk[4096];
	uint32_t pos, k;
	int fd;
	size_t i;
	ssize_t r;

	memset(out, 0, sizeof(*out));
	gf_scn = scn;
	gf_out = out;
	gf_task = NULL;
	atomic_store(&gf_ncb, 0);
	atomic_store(&gf_done, 0);
	tp_harness_reset(NULL);
	g_close_unknown_passthrough = 1;
	fd = memfd_create("c16f", MFD_CLOEXEC | MFD_ALLOW_SEALING);
	if (-1 == fd) {
		out->setup_rc = errno;
		return;
	}
	for (pos = 0; pos < scn->file_size; pos += k) {
		k = MIN((uint32_t)sizeof(blk), scn->file_size - pos);
		for (i = 0; i < k; i ++)
			blk[i] = c16f_file_pattern((uint64_t)pos + i);
		if ((ssize_t)k != pwrite(fd, blk, k, (off_t)pos)) {
			out->setup_rc = -3;
			close(fd);
			return;
		}
	}
	if (scn->sealed && 0 != fcntl(fd, F_ADD_SEALS, F_SEAL_GROW)) {
		out->setup_rc = errno;
		close(fd);
		return;
	}
	tp_settings_def(&s);
	s.flags = 0;
	s.threads_max = 1;
	out->setup_rc = tp_create(&s, &g_tp);
	if (0 != out->setup_rc) {
		close(fd);
		return;
	}
	tp_threads_create(g_tp, 0);
	g_owner = tp_thread_get(g_tp, 0);
	memset(g_mem, GUARD_OUT, sizeof(g_mem));
	memset(g_mem + 32, FILL_IN, scn->buf_size);
	memset(&gf_iob, 0, sizeof(gf_iob));
	gf_iob.data = g_mem + 32;
	gf_iob.size = scn->buf_size;
	gf_iob.used = scn->used0;
	gf_iob.offset = scn->win_off;
	gf_iob.transfer_size = scn->win_len;
	if (1 == scn->dir) {
		for (i = 0; i < scn->win_len; i ++)
			gf_iob.data[scn->win_off + i] = c16_pattern(i);
	}
	if (0 == tpt_msg_send(g_owner, NULL, 0, file_start_cb, (void *)(intptr_t)fd))
		(void)tp_wait_until(&gf_done, 1, CEIL_MS);
	out->ncb = atomic_load(&gf_ncb);
	memcpy(out->buf_image, g_mem, MIN(sizeof(out->buf_image), (size_t)scn->buf_size + 64));
	out->final_used = gf_iob.used;
	out->final_offset = gf_iob.offset;
	out->final_tr = gf_iob.transfer_size;
	{
		off_t end = lseek(fd, 0, SEEK_END);
		out->file_size_after = (end < 0) ? 0 : (uint32_t)end;
		r = pread(fd, out->file_image, sizeof(out->file_image), 0);
		(void)r;
	}
	tp_shutdown(g_tp);
	tp_shutdown_wait(g_tp);
	tp_destroy(g_tp);
	close(fd);
	tp_res_get(&out->res);
	tp_res_cleanup();
	g_close_unknown_passthrough = 0;
}

/* ============================ phase scripts (receive task) ============================ */
#include <sys/ioctl.h>
static const c16s_scn *gs_scn;
static c16s_out *gs_out;
static tp_task_p gs_task;
static io_buf_t gs_iob;
static int gs_sp[2];
static atomic_uint gs_nlog, gs_done, gs_paused, gs_ntimeout, gs_nfull, gs_ndata, gs_stopped;
static uint64_t gs_consumed, gs_base_off, gs_sent;
static int gs_cookie;
static uint16_t gs_win_off, gs_win_len;

static c16s_rec *
s_log(uint8_t type) {
	uint32_t i = atomic_fetch_add(&gs_nlog, 1);
	static c16s_rec dummy;
	if (i >= C16S_LOG) {
		gs_out->log_overflow = 1;
		memset(&dummy, 0, sizeof(dummy));
		return (&dummy);
	}
	memset(&gs_out->log[i], 0, sizeof(c16s_rec));
	gs_out->log[i].type = type;
	return (&gs_out->log[i]);
}
/* owner thread: account for what moved into the window since the last report */
static uint64_t
s_account(uint8_t *mismatch) {
	uint64_t adv = (uint64_t)gs_iob.offset - gs_base_off, i;
	for (i = 0; i < adv; i ++) {
		if (gs_iob.data[gs_base_off + i] != c16_pattern(gs_consumed + i))
			(*mismatch) = 1;
	}
	gs_consumed += adv;
	gs_base_off = (uint64_t)gs_iob.offset;
	return (adv);
}
static void
s_window(uint16_t off, uint16_t len) {
	gs_win_off = off;
	gs_win_len = len;
	gs_iob.offset = off;
	gs_iob.used = off;
	IO_BUF_TR_SIZE_SET(&gs_iob, len);
	gs_base_off = off;
}
static int
s_task_cb(tp_task_p tptask, int error, io_buf_p buf, uint32_t eof, size_t transfered_size, void *udata) {
	c16s_rec *r = s_log(1);
	int ret = TP_TASK_CB_CONTINUE;

	(void)buf;
	if (tpt_get_current() != g_owner)
		gs_out->foreign_thread = 1;
	if (udata != (void *)&gs_cookie)
		gs_out->bad_udata = 1;
	r->error = error;
	r->eof = eof;
	r->transfered = transfered_size;
	r->offset = (uint64_t)gs_iob.offset;
	r->tr_size = (uint64_t)IO_BUF_TR_SIZE_GET(&gs_iob);
	r->adv = s_account(&r->mismatch);
	if (ETIMEDOUT == error) {
		atomic_fetch_add(&gs_ntimeout, 1);
		if (gs_scn->on_timeout) {
			r->pauses = 1;
			atomic_store(&gs_paused, 1);
			ret = TP_TASK_CB_NONE;
		}
	} else if (0 != error || 0 != (TP_TASK_IOF_F_BUF & eof)) {
		tp_task_stop(tptask);
		atomic_store(&gs_stopped, 1);
		ret = (0 != error) ? TP_TASK_CB_NONE : TP_TASK_CB_EOF;
	} else {
		uint32_t k = atomic_fetch_add(&gs_ndata, 1) + 1;
		if (0 == IO_BUF_TR_SIZE_GET(&gs_iob)) {
			s_window(gs_win_off, gs_win_len); /* the window is consumed by the user and offered again */
			atomic_fetch_add(&gs_nfull, 1);
		}
		if (2 == gs_scn->ev_flags && 0 != gs_scn->pause_data_k && k == gs_scn->pause_data_k) {
			r->pauses = 1;
			atomic_store(&gs_paused, 1);
			ret = TP_TASK_CB_NONE;
		}
	}
	return (ret);
}
static void
s_start_cb(tpt_p tpt, void *udata) {
	int rc;
	uint32_t fl = (gs_scn->after_every_read ? TP_TASK_F_CB_AFTER_EVERY_READ : 0);
	(void)udata;
	if (0 == gs_scn->setup_mode) {
		rc = tp_task_create(tpt, (uintptr_t)gs_sp[0], tp_task_sr_handler, fl, &gs_cookie, &gs_task);
	} else { /* a bare task, configured through the accessors */
		rc = tp_task_create(tpt, (uintptr_t)-1, tp_task_notify_handler, 0, NULL, &gs_task);
		if (0 == rc) {
			tp_task_ident_set(gs_task, (uintptr_t)gs_sp[0]);
			tp_task_tp_cb_func_set(gs_task, tp_task_sr_handler);
			if (0 != fl)
				(void)tp_task_flags_add(gs_task, fl);
			tp_task_udata_set(gs_task, &gs_cookie);
			if ((uintptr_t)gs_sp[0] != tp_task_ident_get(gs_task) || tp_task_sr_handler != tp_task_tp_cb_func_get(gs_task) ||
			    fl != tp_task_flags_get(gs_task) || (void *)&gs_cookie != tp_task_udata_get(gs_task) || tpt != tp_task_tpt_get(gs_task))
				gs_out->accessor_mismatch = 1;
		}
	}
	if (0 == rc)
		rc = tp_task_start(gs_task, TP_EV_READ, (2 == gs_scn->ev_flags) ? TP_F_DISPATCH : 0, gs_scn->timeout_ms, 0, &gs_iob, s_task_cb);
	gs_out->start_rc = rc;
	atomic_fetch_add(&gs_done, 1);
}
static void
s_restart_cb(tpt_p tpt, void *udata) {
	const c16s_step *st = (const c16s_step *)udata;
	c16s_rec *r = s_log(3);
	(void)tpt;
	tp_task_stop(gs_task);
	r->adv = s_account(&r->mismatch); /* bytes received silently so far stay where they are; the user takes note of them here */
	s_window(st->a, st->b);
	atomic_store(&gs_paused, 0);
	r->rc = tp_task_start(gs_task, TP_EV_READ, (2 == gs_scn->ev_flags) ? TP_F_DISPATCH : 0, gs_scn->timeout_ms, 0, &gs_iob, s_task_cb);
	atomic_fetch_add(&gs_done, 1);
}
static void
s_stop_restart_cb(tpt_p tpt, void *udata) {
	c16s_rec *r = s_log(6);
	(void)tpt; (void)udata;
	tp_task_stop(gs_task);
	atomic_store(&gs_paused, 0);
	r->rc = tp_task_restart(gs_task); /* continue: buffer, window and the count not reported yet stay as they are */
	atomic_fetch_add(&gs_done, 1);
}
static void
s_enable_cb(tpt_p tpt, void *udata) {
	c16s_rec *r = s_log(4);
	int q = 0;
	(void)tpt; (void)udata;
	if (0 == atomic_load(&gs_paused) || 0 != atomic_load(&gs_stopped)) {
		r->skipped = 1;
	} else {
		(void)ioctl(gs_sp[0], FIONREAD, &q);
		r->n = (uint64_t)q;
		atomic_store(&gs_paused, 0);
		r->rc = tp_task_enable(gs_task, 1);
	}
	atomic_fetch_add(&gs_done, 1);
}
static void
s_final_cb(tpt_p tpt, void *udata) {
	(void)tpt; (void)udata;
	(void)s_log(5);
	if (NULL != gs_task)
		tp_task_destroy(gs_task);
	gs_task = NULL;
	atomic_fetch_add(&gs_done, 1);
}
static void s_fence_cb(tpt_p tpt, void *udata) { (void)tpt; (void)udata; atomic_fetch_add(&gs_done, 1); }
static int
s_call(tpt_msg_cb cb, const void *arg) {
	uint32_t want = atomic_load(&gs_done) + 1;
	if (0 != tpt_msg_send(g_owner, NULL, 0, cb, (void *)(uintptr_t)arg))
		return (1);
	return (tp_wait_until(&gs_done, want, CEIL_MS));
}
static void
s_peer_write(size_t n) {
	uint8_t piece[4096];
	size_t k;
	c16s_rec *r;

	n = MIN(n, sizeof(piece));
	for (k = 0; k < n; k ++)
		piece[k] = c16_pattern(gs_sent + k);
	gs_sent += n;
	r = s_log(2);
	r->n = n;
	(void)!send(gs_sp[1], piece, n, MSG_NOSIGNAL); /* blocking socket end, far below the socket buffer: one atomic arrival */
}

void
c16s_run(const c16s_scn *scn, c16s_out *out) {
	tp_settings_t s;
	size_t i;
	uint32_t base;

	memset(out, 0, sizeof(*out));
	gs_scn = scn;
	gs_out = out;
	gs_task = NULL;
	gs_consumed = gs_sent = 0;
	atomic_store(&gs_nlog, 0);
	atomic_store(&gs_done, 0);
	atomic_store(&gs_paused, 0);
	atomic_store(&gs_ntimeout, 0);
	atomic_store(&gs_nfull, 0);
	atomic_store(&gs_ndata, 0);
	atomic_store(&gs_stopped, 0);
	tp_harness_reset(&scn->plans);
	g_close_unknown_passthrough = 1;
	tp_settings_def(&s);
	s.flags = 0;
	s.threads_max = 1;
	out->setup_rc = tp_create(&s, &g_tp);
	if (0 != out->setup_rc)
		return;
	tp_threads_create(g_tp, 0);
	g_owner = tp_thread_get(g_tp, 0);
	if (0 != socketpair(AF_UNIX, SOCK_STREAM, 0, gs_sp)) {
		out->setup_rc = errno;
		return;
	}
	fcntl(gs_sp[0], F_SETFL, O_NONBLOCK);
	memset(g_mem, GUARD_OUT, sizeof(g_mem));
	memset(g_mem + 32, FILL_IN, scn->buf_size);
	memset(&gs_iob, 0, sizeof(gs_iob));
	gs_iob.data = g_mem + 32;
	gs_iob.size = scn->buf_size;
	s_window(scn->win_off, scn->win_len);
	tp_harness_arm();
	out->hang |= s_call(s_start_cb, NULL);
	for (i = 0; i < scn->nsteps && i < C16S_MAX_STEPS && 0 == out->start_rc && !out->hang; i ++) {
		const c16s_step *st = &scn->steps[i];
		switch (st->op) {
		case S_WRITE:
			s_peer_write(st->a);
			break;
		case S_WAIT_TIMEOUT:
			if (0 == scn->timeout_ms || 0 != atomic_load(&gs_paused))
				break;
			base = atomic_load(&gs_ntimeout);
			if (0 != tp_wait_until(&gs_ntimeout, base + 1, CEIL_MS / 2))
				out->never_reported |= 2; /* an armed idle task never reported its timeout */
			break;
		case S_RESTART:
			out->hang |= s_call(s_restart_cb, st);
			break;
		case S_ENABLE:
			out->hang |= s_call(s_enable_cb, NULL);
			break;
		case S_STOP_RESTART:
			out->hang |= s_call(s_stop_restart_cb, NULL);
			break;
		case S_SLEEP:
			usleep((useconds_t)st->a * 1000);
			break;
		}
		out->hang |= s_call(s_fence_cb, NULL);
		usleep(1500);
		out->hang |= s_call(s_fence_cb, NULL);
	}
	if (0 == out->start_rc && !out->hang && 0 != scn->final_reset) {
		/* the peer has unread input when it closes: our end is reset while its last payload is still queued */
		int tries;
		out->hang |= s_call(s_enable_cb, NULL);
		(void)!send(gs_sp[0], "abc", 3, MSG_DONTWAIT | MSG_NOSIGNAL);
		s_peer_write((size_t)scn->final_reset);
		close(gs_sp[1]);
		gs_sp[1] = -1;
		for (tries = 0; tries < 40; tries ++) {
			if (0 == tp_wait_until(&gs_stopped, 1, CEIL_MS / 80))
				break;
			out->hang |= s_call(s_enable_cb, NULL);
		}
		if (40 == tries)
			out->never_reported |= 4;
		out->hang |= s_call(s_fence_cb, NULL);
	} else if (0 == out->start_rc && !out->hang) {
		/* the stream goes on: the task (re-enabled if it was paused) must report the next full window */
		int tries;
		out->hang |= s_call(s_enable_cb, NULL);
		base = atomic_load(&gs_nfull);
		s_peer_write((size_t)scn->buf_size);
		for (tries = 0; tries < 40; tries ++) { /* a timeout answered with NONE may pause the task again at any moment: re-enable and keep waiting */
			if (0 == tp_wait_until(&gs_nfull, base + 1, CEIL_MS / 80))
				break;
			out->hang |= s_call(s_enable_cb, NULL);
		}
		if (40 == tries)
			out->never_reported |= 1;
		out->hang |= s_call(s_fence_cb, NULL);
	}
	out->hang |= s_call(s_final_cb, NULL);
	if (gs_sp[1] >= 0)
		(void)!send(gs_sp[1], "late", 4, MSG_DONTWAIT | MSG_NOSIGNAL);
	out->hang |= s_call(s_fence_cb, NULL);
	usleep(1500);
	out->hang |= s_call(s_fence_cb, NULL);
	tp_harness_disarm();
	for (i = 0; i < 32; i ++) {
		if (GUARD_OUT != g_mem[i] || GUARD_OUT != g_mem[32 + scn->buf_size + i])
			out->guards_bad = 1;
	}
	out->nlog = MIN(atomic_load(&gs_nlog), C16S_LOG);
	tp_shutdown(g_tp);
	tp_shutdown_wait(g_tp);
	tp_destroy(g_tp);
	close(gs_sp[0]);
	if (gs_sp[1] >= 0)
		close(gs_sp[1]);
	tp_res_get(&out->res);
	tp_res_cleanup();
	g_close_unknown_passthrough = 0;
}
