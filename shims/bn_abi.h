/* Flat ABI between drivers/C01_bn.cpp (C++) and shims/bn.c (C, includes /repo). */
#ifndef VERIF_BN_ABI_H
#define VERIF_BN_ABI_H
#include <stdint.h>
#include <stddef.h>

#define SB_MAXB 640 /* bytes per number (BN_BIT_LEN <= 4096 + slack) */
#define SB_ARR 8448

typedef struct {
	uint32_t cap_bits;	/* bn_init() argument */
	uint32_t len;		/* bytes of val (little endian), may be 0 => value 0 */
	uint8_t junk;		/* fill of num[] before the value is imported */
	uint8_t val[SB_MAXB];
} sb_num;

typedef struct {
	uint32_t count, digits;	/* struct fields after the call */
	uint32_t canon;		/* digits <= count && (digits == 0 || num[digits-1] != 0) */
	uint32_t len;		/* digits * BN_DIGIT_SIZE */
	uint8_t val[SB_MAXB];	/* raw little-endian dump of num[0..digits) */
} sb_res;

typedef struct {
	int op;
	int alias;		/* op specific aliasing selector */
	sb_num a, b, c;
	uint64_t p1, p2, p3;	/* scalar params (bit index, shift, sizes, flags) */
	uint8_t d1[16], d2[16], d3[16]; /* digit-valued params, little endian */
	uint8_t buf[SB_ARR];	/* byte-string input (import) */
	uint32_t buf_len;
} sb_in;

typedef struct {
	int setup_rc;		/* != 0: operand could not be loaded (bn_init/import failed) */
	int rc;
	sb_res a, b, c;		/* operand objects after the call */
	uint64_t s1, s2, s3, s4;
	uint8_t d1[16], d2[16], d3[16], d4[16];
	int8_t arr[SB_ARR];
	uint8_t obuf[SB_ARR];
	uint32_t obuf_len;
	uint8_t guard_ok;	/* bytes after the declared output size untouched */
} sb_out;

enum {
	SB_INFO_W = 0, SB_INFO_BITLEN = 1, SB_INFO_CC = 2
};

enum {
	/* digit layer */
	OP_D_MULT = 1, OP_D_DIV, OP_D_GCD, OP_D_GCD_BIN, OP_D_EGCD, OP_D_BITS,
	/* bn layer: result in a unless stated */
	OP_ADD = 20, OP_ADD_DIGIT, OP_SUB, OP_SUB_DIGIT, OP_MULT, OP_MULT_DIGIT, OP_SQUARE,
	OP_EXP_DIGIT, OP_DIV, OP_LSHIFT, OP_RSHIFT, OP_AND, OP_OR, OP_XOR, OP_BIT_SET,
	OP_QUERY, OP_ASSIGN, OP_ASSIGN_2EXP, OP_ASSIGN_DIGIT, OP_GCD, OP_GCD_BIN, OP_SQRT,
	OP_MOD = 60, OP_MOD_ADD, OP_MOD_SUB, OP_MOD_MULT, OP_MOD_MULT_DIGIT, OP_MOD_SQUARE,
	OP_MOD_EXP, OP_MOD_EXP_DIGIT, OP_MOD_INV, OP_MOD_DIV, OP_MOD_REDUCE, OP_MOD_LEGENDRE,
	OP_MOD_SQRT,
	OP_NAF = 90, OP_JSF, OP_COMBO,
	OP_IMPORT = 100, OP_EXPORT, OP_DIGITS_IMPORT, OP_DIGITS_EXPORT
};

#ifdef __cplusplus
extern "C" {
#endif
long sb_info(int what);
void sb_call(const sb_in *in, sb_out *out);
#ifdef __cplusplus
}
#endif
#endif
