/* Flat ABI between drivers/C15_msg.cpp (C++) and shims/proto_shim.c (C, includes
 * /repo/include/proto/dns.h and /repo/include/proto/radius.h).
 * Every function is a 1:1 forward of one library inline; buffers are owned by the
 * driver and are allocated through px_alloc() with exactly the size the case
 * generated, so that ASan variants see every access past the caller's buffer. */
#ifndef VERIF_PROTO_ABI_H
#define VERIF_PROTO_ABI_H
#include <stdint.h>
#include <stddef.h>

#ifdef __cplusplus
extern "C" {
#endif

/* errno values / constants as the shim's translation unit sees them */
enum {
	PX_EINVAL = 1, PX_EOVERFLOW, PX_EBADMSG, PX_EEXIST, PX_ENOATTR, PX_EOPNOTSUPP, PX_ESPIPE, PX_ELOOP,
	PX_DNS_HDR_SIZE, PX_DNS_Q_FIXED, PX_DNS_RR_FIXED, PX_DNS_OPT_FIXED,
	PX_RAD_HDR_SIZE, PX_RAD_PKT_MAX, PX_RAD_PW_MAX, PX_RAD_ATTR_DATA_MAX
};
long	px_const(int which);
void	*px_alloc(size_t n);	/* malloc(n) (n == 0 -> malloc(1) is never used: returns a 1-byte block whose bytes must not be touched) */
void	px_free(void *p);

/* ------------------------------------------------------------------ DNS */
int	px_dns_hdr_create(void *hdr, size_t bufsz, uint16_t id, uint16_t flags, size_t *size_ret);
/* section: 0 qd, 1 an, 2 ns, 3 ar */
void	px_dns_hdr_inc(void *hdr, int section, uint16_t val);
uint16_t px_dns_hdr_cnt(void *hdr, int section);
void	px_dns_hdr_dec(void *hdr, int section, uint16_t val);
void	px_dns_hdr_set(void *hdr, int section, uint16_t val);
int	px_dns_question_add(void *hdr, size_t msg_size, size_t bufsz, int compress, const uint8_t *name, size_t name_len,
	    uint16_t qtype, uint16_t qclass, size_t *size_ret);
int	px_dns_rr_add(void *hdr, size_t msg_size, size_t bufsz, int compress, const uint8_t *name, size_t name_len,
	    uint16_t type, uint16_t klass, uint32_t ttl, uint16_t data_size, const void *data, size_t *size_ret);
int	px_dns_optrr_add(void *hdr, size_t msg_size, size_t bufsz, uint16_t udp_payload_size, uint8_t version,
	    uint8_t ex_rcode, uint16_t ex_flags, uint16_t data_size, const void *data, size_t *size_ret);
/* out[6] = qd_off, an_off, ns_off, ar_off, rr_count, msg_size */
int	px_dns_info_get(void *hdr, size_t size, size_t out[6]);
int	px_dns_validate(void *hdr, size_t size);
size_t	px_dns_size_get(void *hdr, size_t size);
int	px_dns_question_get(void *hdr, size_t msg_size, size_t offset, uint8_t *name, size_t *name_len,
	    uint16_t *qtype, uint16_t *qclass, size_t *qsize);
/* data_off = offset of rdata from hdr */
int	px_dns_rr_get(void *hdr, size_t msg_size, size_t offset, uint8_t *name, size_t *name_len,
	    uint16_t *type, uint16_t *klass, uint32_t *ttl, uint16_t *data_size, size_t *data_off, size_t *rr_size);
int	px_dns_rr_find(void *hdr, size_t msg_size, size_t *offset, size_t *rr_count, const uint8_t *name, size_t name_len,
	    uint16_t *type, uint16_t *klass, uint32_t *ttl, uint16_t *data_size, size_t *data_off, size_t *rr_size);
int	px_dns_name2labels(const uint8_t *name, size_t name_len, uint8_t *buf, size_t bufsz, size_t *size_ret);
int	px_dns_labels2name(const uint8_t *buf, size_t bufsz, uint8_t *name, size_t name_bufsz, size_t *len_ret);
int	px_dns_labels_size(const uint8_t *buf, size_t bufsz, size_t *size_ret);
int	px_dns_msg_name2labels(void *hdr, size_t bufsz, size_t offset, const uint8_t *name, size_t name_len,
	    int compress, size_t *size_ret);
int	px_dns_msg_labels2name(void *hdr, size_t msg_size, size_t offset, uint8_t *name, size_t name_bufsz, size_t *len_ret);
int	px_dns_msg_labels_name_len(void *hdr, size_t msg_size, size_t offset, size_t *len_ret);

/* --------------------------------------------------------------- RADIUS */
/* out[3] = len_min, len_max, data_type of rad_attr_params[type] */
void	px_rad_attr_param(int type, int out[3]);
int	px_rad_attr_len_chk(uint8_t type, uint8_t len);
int	px_rad_init(void *pkt, size_t bufsz, size_t *size_ret, uint8_t code, uint8_t id, const uint8_t *authenticator);
int	px_rad_reply_init(void *pkt, size_t bufsz, size_t *size_ret, uint8_t code, const void *pkt_req);
int	px_rad_attr_add(void *pkt, size_t bufsz, size_t *size_ret, uint8_t type, uint8_t len, const uint8_t *data, size_t *off_ret);
int	px_rad_attr_add_raw(void *pkt, size_t bufsz, size_t *size_ret, uint8_t type, uint8_t len, const uint8_t *data, size_t *off_ret);
int	px_rad_attr_add_uint32(void *pkt, size_t bufsz, size_t *size_ret, uint8_t type, uint32_t data, size_t *off_ret);
int	px_rad_chk(void *pkt, size_t size);
int	px_rad_sign(void *pkt, size_t bufsz, size_t *size_ret, const uint8_t *key, size_t key_len, int add_msg_authr);
int	px_rad_verify(void *pkt, const uint8_t *key, size_t key_len, const void *pkt_req);
int	px_rad_attr_find(void *pkt, size_t offset, uint8_t type, size_t *off_ret);
int	px_rad_attr_get_raw(void *pkt, size_t offset, uint8_t *type, size_t *data_off, size_t *len);
int	px_rad_attr_get(void *pkt, size_t offset, uint8_t *type, size_t *data_off, size_t *len);
int	px_rad_attr_get_to_buf(void *pkt, size_t offset, size_t count, uint8_t type, uint8_t *buf, size_t bufsz, size_t *size_ret);
int	px_rad_pw_encode(const uint8_t *authenticator, const uint8_t *pw, size_t pw_len, const uint8_t *key, size_t key_len,
	    uint8_t *buf, size_t bufsz, size_t *size_ret);
int	px_rad_pw_decode(const uint8_t *authenticator, const uint8_t *enc, size_t enc_len, const uint8_t *key, size_t key_len,
	    uint8_t *buf, size_t bufsz, size_t *size_ret);
int	px_rad_authr_calc(void *pkt, const uint8_t *key, size_t key_len, int inside, const void *pkt_req, uint8_t out[16]);
int	px_rad_authr_chk(void *pkt, const uint8_t *key, size_t key_len, int inside, const void *pkt_req);
int	px_rad_authr_update(void *pkt, const uint8_t *key, size_t key_len, int inside, const void *pkt_req);
int	px_rad_ma_calc(void *pkt, size_t attr_off, const uint8_t *key, size_t key_len, int inside, const void *pkt_req, uint8_t out[16]);
int	px_rad_ma_chk(void *pkt, size_t offset, const uint8_t *key, size_t key_len, int inside, const void *pkt_req, size_t *off_ret);
int	px_rad_ma_update(void *pkt, size_t offset, const uint8_t *key, size_t key_len, int inside, const void *pkt_req, size_t *off_ret);
/* MD5 / HMAC-MD5 one-shots of the library (anchor: the packet constructions use these) */
void	px_md5(const uint8_t *data, size_t n, uint8_t out[16]);
void	px_hmac_md5(const uint8_t *key, size_t key_len, const uint8_t *data, size_t n, uint8_t out[16]);

#ifdef __cplusplus
}
#endif
#endif
