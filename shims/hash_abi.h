/* Flat ABI between drivers/C04_hash.cpp, drivers/C07_hmac.cpp (C++) and
 * shims/hash.c (C, includes /repo/include/crypto/hash/{md5,sha1,sha2,gost3411-2012}.h).
 * One shim serves both properties (C04 plain hashes, C07 HMAC). */
#ifndef VERIF_HASH_ABI_H
#define VERIF_HASH_ABI_H
#include <stdint.h>
#include <stddef.h>

enum {
	SH_MD5 = 0, SH_SHA1, SH_SHA224, SH_SHA256, SH_SHA384, SH_SHA512,
	SH_GOST256, SH_GOST512, SH_ALG_COUNT
};

/* Block-transform selector. Anything but DEFAULT is applied by writing the
 * public ctx.use_sse / use_simd / use_avx fields right after *_init(), exactly
 * as gost3411_2012_self_test() does. */
enum {
	SH_IMPL_DEFAULT = 0,	/* keep what *_init() derived from CPUID */
	SH_IMPL_GENERIC = 1,	/* every use_* field = 0 */
	SH_IMPL_SSE = 2,	/* use_sse = 1 (sha1, gost) */
	SH_IMPL_SHANI = 3,	/* use_simd = 1 (sha1, sha224/256) */
	SH_IMPL_AVX = 4,	/* use_avx = 1 (gost) */
	SH_IMPL_COUNT
};

enum {
	SH_EP_STREAM = 0,	/* *_init / *_update... / *_final on a caller context */
	SH_EP_ONESHOT = 1,	/* hash: *_get_digest();      hmac: hmac_*() */
	SH_EP_ONESHOT2 = 2,	/* hash: same as ONESHOT;     hmac: *_hmac_get_digest() */
	SH_EP_HEXSTR = 3	/* hash: *_get_digest_str();  hmac: *_hmac_get_digest_str() */
};

enum {
	SH_INFO_NOSIMD = 0,	/* built with the tests/hash/main.c "#undef __SSE2__" trick */
	SH_INFO_SMALL_TABLES = 1, /* 0 none, 1 GOST3411_2012_USE_SMALL_TABLES, 2 + _TABLE_TAU */
	SH_INFO_ASAN = 2
};

typedef struct {
	int32_t alg;		/* SH_* */
	int32_t hmac;		/* 0 plain hash, 1 HMAC */
	int32_t impl;		/* SH_IMPL_*; must be DEFAULT unless entry == STREAM */
	int32_t entry;		/* SH_EP_* */
	int32_t bits_form;	/* sha2/gost: 0 = pass bits (224..512), 1 = pass hash size in bytes (28..64) */
	int32_t nosize;		/* sha2/gost one-shot entries: pass NULL for the size out-parameter */
	/* key (HMAC only) lives at key_base+key_align inside an exactly sized allocation made by the shim */
	const uint8_t *key;
	uint32_t key_len;
	uint32_t key_align;	/* 0..63 */
	int32_t key_null;	/* key_len == 0: pass NULL instead of a pointer (radius.h does) */
	/* message: copied to base+msg_align inside an exactly sized allocation */
	const uint8_t *msg;
	uint32_t msg_len;
	uint32_t msg_align;	/* 0..63 */
	uint32_t rep;		/* STREAM: the whole split program is run rep times (message = msg repeated); >= 1 */
	const uint32_t *splits;	/* STREAM: update sizes, sum == msg_len, zeros allowed */
	uint32_t nsplits;
	int32_t isolate;	/* STREAM: every update's data is copied to its own exactly sized allocation */
	int32_t null_empty;	/* zero-length updates (STREAM) / an empty message (one-shot entries) pass data == NULL */
	int32_t clone_at;	/* STREAM, plain hash: after this many updates memcpy() the context to a second object and go on there (radius.h does this with md5); -1 = never */
	uint32_t out_align;	/* 0..15: alignment offset of the digest / string output buffer (exactly sized) */
} sh_req;

typedef struct {
	int32_t rc;		/* 0 ok, <0 shim usage error (bad request) */
	uint32_t hash_size, block_size;
	uint8_t digest[64];	/* binary digest (not filled for HEXSTR) */
	char hex[132];		/* HEXSTR: the string as written, incl. terminator position check */
	uint32_t hex_nul_ok;	/* HEXSTR: byte [2*hash_size] == 0 */
	uint32_t size_ret;	/* value stored through the size out-parameter, 0xffffffff if none/NULL */
	int32_t guard_ok;	/* non-ASan builds: canary after the exactly sized output untouched */
	/* after *_final (STREAM only, else -1/0): offset of first non-zero byte, -1 = all zero */
	int32_t ctx_size;	/* sizeof hash context */
	int32_t ctx_nz;		/* hash context (HMAC: the embedded hctx->ctx) */
	int32_t opad_nz;	/* HMAC: hctx->k_opad */
	int32_t rest_nz;	/* HMAC: bytes of the hmac context outside ctx and k_opad (padding) */
	uint32_t default_impl;	/* SH_IMPL_* that *_init() selected on this CPU (what dispatch would run) */
} sh_res;

#ifdef __cplusplus
extern "C" {
#endif
long sh_info(int what);
/* bit i set: SH_IMPL_i is compiled into this variant for alg (DEFAULT and GENERIC always) */
unsigned sh_impls(int alg);
/* caller context object: exactly sized (sizeof the alg's hash or hmac context), 64-byte aligned,
 * filled with junk. May be used for several sh_run() calls of the same family (context reuse). */
void *sh_ctx_alloc(int alg, int hmac, int junk);
void sh_ctx_free(void *h);
void sh_run(void *h, const sh_req *rq, sh_res *rs);
#ifdef __cplusplus
}
#endif
#endif
