/* Thread-pool harness, common part: history log, interposed libc calls with a
 * fault plan and exact resource accounting, schedule plan consumed at the
 * LIBLCB_VERIF scheduling points.
 *
 * The /repo sources of the pool are compiled with
 *   -DLIBLCB_VERIF -Dcalloc=verif_calloc -Dfree=verif_free -Dclose=verif_close
 *   -Dwrite=verif_write -Dread=verif_read -Dpipe2=verif_pipe2
 *   -Depoll_create1=verif_epoll_create1 -Depoll_ctl=verif_epoll_ctl
 *   -Dtimerfd_create=verif_timerfd_create -Dtimerfd_settime=verif_timerfd_settime
 *   -Dpthread_create=verif_pthread_create -Dpthread_join=verif_pthread_join
 * so only calls made by the library itself arrive here (no --wrap needed; the
 * harness and rapidcheck keep the real functions). */
#define _GNU_SOURCE
#include <sys/types.h>
#include <sys/epoll.h>
#include <sys/timerfd.h>
#include <sys/socket.h>
#include <sys/syscall.h>
#include <errno.h>
#include <fcntl.h>
#include <pthread.h>
#include <sched.h>
#include <stdatomic.h>
#include <stdint.h>
#include <stdio.h>
#include <stdlib.h>
#include <string.h>
#include <unistd.h>

#include "tp_abi.h"
#include "tp_int.h"

struct thread_pool_thread_s;
extern struct thread_pool_thread_s *tpt_get_current(void);
void *tp_cur_tpt(void) { return ((void *)tpt_get_current()); }
int g_close_unknown_passthrough;
__thread int tp_post_write_pause_us;
__thread int tp_vp1_pause_us;

/* ---------------- log ---------------- */
/* Four log buffers used round-robin, one per epoch (= per tp_harness_reset): a thread that reserved a slot just before a
 * reset and writes it just after cannot tear a record of the next epoch -- it writes into the previous buffer. The
 * epoch lives in the upper half of log_state, the next free index in the lower half. */
static tp_rec log_bufs[4][TP_LOG_MAX];
tp_rec *tp_log_buf = log_bufs[0];
static _Atomic uint64_t log_state;
static atomic_uint log_drop;
static atomic_uint thr_idx_next;
static __thread uint32_t thr_idx_tls;

uint32_t
tp_thr_idx(void) {
	if (0 == thr_idx_tls)
		thr_idx_tls = 1 + atomic_fetch_add(&thr_idx_next, 1);
	return (thr_idx_tls);
}

uint32_t tp_log_count(void) { uint32_t n = (uint32_t)atomic_load(&log_state); return (n > TP_LOG_MAX ? TP_LOG_MAX : n); }
uint32_t tp_log_dropped(void) { return (atomic_load(&log_drop)); }

uint32_t
tp_log(uint32_t kind, uint64_t a, uint64_t b, uint64_t c, uint64_t d) {
	uint64_t v = atomic_fetch_add(&log_state, 1);
	uint32_t i = (uint32_t)v;
	tp_rec *r;

	if (i >= TP_LOG_MAX) {
		atomic_fetch_add(&log_drop, 1);
		return (i);
	}
	r = &log_bufs[(v >> 32) & 3][i];
	r->kind = kind;
	r->thr = tp_thr_idx();
	r->a = a;
	r->b = b;
	r->c = c;
	r->d = d;
	r->cur = (uint64_t)(uintptr_t)tp_cur_tpt();
	return (i);
}

/* ---------------- plans ---------------- */
static tp_plans g_plans;
static atomic_int g_armed;
static atomic_uint g_calls[F_LAST], g_injected[F_LAST];
static atomic_uint g_vp_hits[32];

/* returns errno to inject for this call of fn, or 0 */
static int
fault_check(int fn) {
	uint32_t n, i;

	if (0 == atomic_load(&g_armed))
		return (0);
	n = 1 + atomic_fetch_add(&g_calls[fn], 1);
	for (i = 0; i < g_plans.nfaults; i ++) {
		if (g_plans.faults[i].fn == fn && g_plans.faults[i].k == n) {
			atomic_fetch_add(&g_injected[fn], 1);
			return (g_plans.faults[i].err);
		}
	}
	return (0);
}

void
lcb_verif_point(int id, const void *obj) {
	uint32_t n;
	uint8_t b;

	(void)obj;
	if (id < 0 || id >= 32)
		return;
	n = atomic_fetch_add(&g_vp_hits[id], 1);
	if (1 == id && 0 != tp_vp1_pause_us) /* a scenario holds this thread between the destination-state test and the queue write */
		usleep((useconds_t)tp_vp1_pause_us);
	if (0 == atomic_load(&g_armed) || 0 == g_plans.plan_len || n >= 48)
		return;
	b = g_plans.plan[((uint32_t)id * 7u + n) % g_plans.plan_len];
	switch (b & 3) {
	case 0:
		break;
	case 1:
		sched_yield();
		break;
	case 2:
		usleep(20 + (useconds_t)(b >> 2) * 8);
		break;
	case 3:
		usleep(200 + (useconds_t)(b >> 2) * 40);
		break;
	}
}

/* ---------------- mutex unlock as a scheduling point ----------------
 * The pool sources use a mutex only inside broadcast records; for TP_BMSG_F_SYNC the record (and the mutex) live in
 * the frame of tpt_msg_bsend_ex(). The last thing a pool thread does to such a record is the unlock that ends its
 * decrement. The redirected unlock may pause *before* releasing (schedule plan, counted per thread so that a polling
 * waiter cannot use the plan up) and then looks at the mutex: if it was destroyed or overwritten while this thread
 * still owned it, the broadcast call has returned (and its frame was reused) before the callback bookkeeping ended. */
static atomic_uint st_mutex_gone;
static __thread uint32_t unlock_hits_tls, unlock_epoch_tls;
static atomic_uint g_epoch;

#if defined(__has_feature)
#  if __has_feature(address_sanitizer)
#    define TP_NO_ASAN __attribute__((no_sanitize("address")))
#  endif
#endif
#ifndef TP_NO_ASAN
#  ifdef __SANITIZE_ADDRESS__
#    define TP_NO_ASAN __attribute__((no_sanitize_address))
#  else
#    define TP_NO_ASAN
#  endif
#endif
static TP_NO_ASAN int
mutex_still_mine(pthread_mutex_t *m) {
	/* glibc: a destroyed mutex has __kind == -1; the owner of a locked normal mutex is the locker's tid */
	volatile int kind = m->__data.__kind, owner = m->__data.__owner;
	return (kind >= 0 && owner == (int)syscall(SYS_gettid));
}

int
verif_pthread_mutex_unlock(pthread_mutex_t *m) {
	uint8_t b;
	uint32_t n, ep = atomic_load(&g_epoch);

	if (unlock_epoch_tls != ep) { /* counts restart with every case */
		unlock_epoch_tls = ep;
		unlock_hits_tls = 0;
	}
	n = unlock_hits_tls ++;

	if (0 != atomic_load(&g_armed) && 0 != g_plans.plan_len && n < 64) {
		b = g_plans.plan[(20u * 7u + n + 3u * tp_thr_idx()) % g_plans.plan_len];
		switch (b & 3) {
		case 0:
			break;
		case 1:
			sched_yield();
			break;
		case 2:
			usleep(20 + (useconds_t)(b >> 2) * 8);
			break;
		case 3:
			usleep(400 + (useconds_t)(b >> 2) * 180); /* up to ~12 ms: longer than one TP_BMSG_F_SYNC_USLEEP poll */
			break;
		}
	}
	if (0 == mutex_still_mine(m)) {
		atomic_fetch_add(&st_mutex_gone, 1);
		return (0); /* do not operate on memory that is no longer a mutex */
	}
	return (pthread_mutex_unlock(m));
}

/* ---------------- resource tables ---------------- */
#define RT_MAX 4096
static pthread_mutex_t rt_lock = PTHREAD_MUTEX_INITIALIZER;
static void *rt_alloc[RT_MAX];
static int rt_fd[RT_MAX];	/* fd + 1, 0 = free slot */
static uint8_t rt_fd_kind[RT_MAX]; /* 1 queue read end, 2 queue write end, 3 epoll, 4 timerfd, 5 other */
static pthread_t rt_thr[RT_MAX];
static uint8_t rt_thr_used[RT_MAX];
static uint32_t st_total_allocs, st_total_fds, st_total_threads, st_double_free, st_close_unknown;

static void
rt_add_fd(int fd, uint8_t kind) {
	int i;
	pthread_mutex_lock(&rt_lock);
	for (i = 0; i < RT_MAX; i ++) {
		if (0 == rt_fd[i]) {
			rt_fd[i] = fd + 1;
			rt_fd_kind[i] = kind;
			st_total_fds ++;
			break;
		}
	}
	pthread_mutex_unlock(&rt_lock);
}
static uint8_t
rt_fd_kind_get(int fd) {
	int i;
	uint8_t k = 0;
	pthread_mutex_lock(&rt_lock);
	for (i = 0; i < RT_MAX; i ++) {
		if (rt_fd[i] == fd + 1) {
			k = rt_fd_kind[i];
			break;
		}
	}
	pthread_mutex_unlock(&rt_lock);
	return (k);
}

void
tp_fd_adopt(int fd, uint8_t kind) { rt_add_fd(fd, kind); }

void *
verif_calloc(size_t n, size_t sz) {
	void *p;
	int i;

	if (0 != fault_check(F_CALLOC)) {
		errno = ENOMEM;
		return (NULL);
	}
	p = calloc(n, sz);
	if (NULL == p)
		return (NULL);
	pthread_mutex_lock(&rt_lock);
	for (i = 0; i < RT_MAX; i ++) {
		if (NULL == rt_alloc[i]) {
			rt_alloc[i] = p;
			st_total_allocs ++;
			break;
		}
	}
	pthread_mutex_unlock(&rt_lock);
	return (p);
}

void
verif_free(void *p) {
	int i, found = 0;

	if (NULL == p)
		return;
	pthread_mutex_lock(&rt_lock);
	for (i = 0; i < RT_MAX; i ++) {
		if (rt_alloc[i] == p) {
			rt_alloc[i] = NULL;
			found = 1;
			break;
		}
	}
	if (!found)
		st_double_free ++;
	pthread_mutex_unlock(&rt_lock);
	if (found)
		free(p); /* an unknown pointer is reported, not freed (avoids crashing the harness) */
}

int
verif_close(int fd) {
	int i, found = 0;

	pthread_mutex_lock(&rt_lock);
	for (i = 0; i < RT_MAX; i ++) {
		if (rt_fd[i] == fd + 1) {
			rt_fd[i] = 0;
			found = 1;
			break;
		}
	}
	if (!found)
		st_close_unknown ++;
	pthread_mutex_unlock(&rt_lock);
	if (!found && !g_close_unknown_passthrough) {
		/* closing a descriptor the library does not own (or twice): refuse, it could be the harness' */
		errno = EBADF;
		return (-1);
	}
	return (close(fd));
}

ssize_t
verif_write(int fd, const void *buf, size_t n) {
	int e;

	if (2 == rt_fd_kind_get(fd) && 0 != (e = fault_check(F_QWRITE))) {
		errno = e;
		return (-1);
	}
	{
		ssize_t rc = write(fd, buf, n);
		/* a sender may be held right after its packet reached the queue (set per thread by a scenario): whatever the
		 * library does between the write and its return happens that much later than the receiver's work */
		if (rc > 0 && 0 != tp_post_write_pause_us)
			usleep((useconds_t)tp_post_write_pause_us);
		return (rc);
	}
}

ssize_t
verif_read(int fd, void *buf, size_t n) {
	int e;

	if (1 == rt_fd_kind_get(fd) && 0 != (e = fault_check(F_QREAD))) {
		errno = e;
		return (-1);
	}
	return (read(fd, buf, n));
}

int
verif_pipe2(int fds[2], int flags) {
	int e, rc;

	if (0 != (e = fault_check(F_PIPE2))) {
		errno = e;
		return (-1);
	}
	rc = pipe2(fds, flags);
	if (0 == rc) {
		rt_add_fd(fds[0], 1);
		rt_add_fd(fds[1], 2);
	}
	return (rc);
}

int
verif_epoll_create1(int flags) {
	int e, fd;

	if (0 != (e = fault_check(F_EPOLL_CREATE))) {
		errno = e;
		return (-1);
	}
	fd = epoll_create1(flags);
	if (-1 != fd)
		rt_add_fd(fd, 3);
	return (fd);
}

/* capture of epoll_ctl / timerfd_settime arguments for C06(a) */
tp_capture g_cap;

int
verif_epoll_ctl(int epfd, int op, int fd, struct epoll_event *ev) {
	int e;

	/* only registrations can fail for lack of resources; the kernel does not refuse to delete an existing one */
	if (EPOLL_CTL_DEL != op && 0 != (e = fault_check(F_EPOLL_CTL))) {
		errno = e;
		return (-1);
	}
	if (g_cap.enabled) {
		g_cap.ep_calls ++;
		g_cap.ep_op = op;
		g_cap.ep_fd = fd;
		g_cap.ep_events = (NULL != ev) ? ev->events : 0;
		if (EPOLL_CTL_ADD == op) g_cap.ep_adds ++;
		if (EPOLL_CTL_DEL == op) g_cap.ep_dels ++;
	}
	return (epoll_ctl(epfd, op, fd, ev));
}

int
verif_timerfd_create(int clockid, int flags) {
	int e, fd;

	if (0 != (e = fault_check(F_TIMERFD_CREATE))) {
		errno = e;
		return (-1);
	}
	fd = timerfd_create(clockid, flags);
	if (-1 != fd) {
		rt_add_fd(fd, 4);
		if (g_cap.enabled) {
			g_cap.tfd_creates ++;
			g_cap.tfd_clock = clockid;
		}
	}
	return (fd);
}

int
verif_timerfd_settime(int fd, int flags, const struct itimerspec *nv, struct itimerspec *ov) {
	int e, rc;

	if (0 != (e = fault_check(F_TIMERFD_SETTIME))) {
		errno = e;
		return (-1);
	}
	if (g_cap.enabled) {
		g_cap.tfd_settimes ++;
		g_cap.tfd_flags = flags;
		g_cap.tfd_spec = *nv;
	}
	rc = timerfd_settime(fd, flags, nv, ov);
	if (g_cap.enabled)
		g_cap.tfd_settime_errno = (0 == rc) ? 0 : errno;
	return (rc);
}

int
verif_pthread_create(pthread_t *t, const pthread_attr_t *a, void *(*fn)(void *), void *arg) {
	int e, rc, i;

	if (0 != (e = fault_check(F_PTHREAD_CREATE)))
		return (e);
	rc = pthread_create(t, a, fn, arg);
	if (0 == rc) {
		pthread_mutex_lock(&rt_lock);
		for (i = 0; i < RT_MAX; i ++) {
			if (0 == rt_thr_used[i]) {
				rt_thr_used[i] = 1;
				rt_thr[i] = *t;
				st_total_threads ++;
				break;
			}
		}
		pthread_mutex_unlock(&rt_lock);
	}
	return (rc);
}

int
verif_pthread_join(pthread_t t, void **ret) {
	int i, found = 0;

	pthread_mutex_lock(&rt_lock);
	for (i = 0; i < RT_MAX; i ++) {
		if (rt_thr_used[i] && pthread_equal(rt_thr[i], t)) {
			rt_thr_used[i] = 0;
			found = 1;
			break;
		}
	}
	pthread_mutex_unlock(&rt_lock);
	if (!found) {
		/* joining a thread id the library never created (e.g. a wiped id): report as the
		 * kernel would for an invalid id instead of crashing inside libpthread */
		g_cap.bad_joins ++;
		return (ESRCH);
	}
	return (pthread_join(t, ret));
}

/* join (from the harness) every library thread that the library itself forgot to join; returns how many */
uint32_t
tp_reap_unjoined(void) {
	uint32_t n = 0;
	int i;
	pthread_t t;

	for (i = 0; i < RT_MAX; i ++) {
		pthread_mutex_lock(&rt_lock);
		if (!rt_thr_used[i]) {
			pthread_mutex_unlock(&rt_lock);
			continue;
		}
		t = rt_thr[i];
		rt_thr_used[i] = 0;
		pthread_mutex_unlock(&rt_lock);
		pthread_join(t, NULL);
		n ++;
	}
	return (n);
}

/* release whatever the library leaked so the next case starts clean; returns counts via tp_res_get before */
void
tp_res_cleanup(void) {
	int i;

	tp_reap_unjoined();
	pthread_mutex_lock(&rt_lock);
	for (i = 0; i < RT_MAX; i ++) {
		if (0 != rt_fd[i]) {
			close(rt_fd[i] - 1);
			rt_fd[i] = 0;
		}
		if (NULL != rt_alloc[i]) {
			free(rt_alloc[i]);
			rt_alloc[i] = NULL;
		}
	}
	pthread_mutex_unlock(&rt_lock);
}

void
tp_res_get(tp_res_stats *out) {
	int i;

	memset(out, 0, sizeof(*out));
	pthread_mutex_lock(&rt_lock);
	for (i = 0; i < RT_MAX; i ++) {
		if (NULL != rt_alloc[i]) out->live_allocs ++;
		if (0 != rt_fd[i]) out->live_fds ++;
		if (0 != rt_thr_used[i]) out->unjoined_threads ++;
	}
	out->total_allocs = st_total_allocs;
	out->total_fds = st_total_fds;
	out->total_threads = st_total_threads;
	out->double_free = st_double_free;
	out->close_unknown = st_close_unknown;
	out->mutex_gone = atomic_load(&st_mutex_gone);
	out->bad_joins = g_cap.bad_joins;
	pthread_mutex_unlock(&rt_lock);
	for (i = 0; i < F_LAST; i ++) {
		out->calls[i] = atomic_load(&g_calls[i]);
		out->injected[i] = atomic_load(&g_injected[i]);
	}
	for (i = 0; i < 32; i ++)
		out->vp_hits[i] = atomic_load(&g_vp_hits[i]);
}

void
tp_harness_reset(const tp_plans *plans) {
	int i;

	atomic_store(&g_armed, 0);
	{
		static uint32_t used[4];
		uint64_t st = atomic_load(&log_state), ep = (st >> 32) + 1;
		uint32_t n = (uint32_t)st;

		used[(st >> 32) & 3] = (n > TP_LOG_MAX) ? TP_LOG_MAX : n;
		/* what the buffer held four epochs ago is wiped: a reserved slot whose writer never finished reads as kind 0 */
		memset(log_bufs[ep & 3], 0, (size_t)used[ep & 3] * sizeof(tp_rec));
		used[ep & 3] = 0;
		tp_log_buf = log_bufs[ep & 3];
		atomic_store(&log_state, ep << 32);
	}
	atomic_store(&log_drop, 0);
	for (i = 0; i < F_LAST; i ++) {
		atomic_store(&g_calls[i], 0);
		atomic_store(&g_injected[i], 0);
	}
	for (i = 0; i < 32; i ++)
		atomic_store(&g_vp_hits[i], 0);
	pthread_mutex_lock(&rt_lock);
	st_total_allocs = st_total_fds = st_total_threads = st_double_free = st_close_unknown = 0;
	atomic_store(&st_mutex_gone, 0);
	atomic_fetch_add(&g_epoch, 1);
	pthread_mutex_unlock(&rt_lock);
	memset(&g_cap, 0, sizeof(g_cap));
	if (NULL != plans)
		g_plans = *plans;
	else
		memset(&g_plans, 0, sizeof(g_plans));
	if (g_plans.plan_len > TP_PLAN_MAX) g_plans.plan_len = TP_PLAN_MAX;
	if (g_plans.nfaults > TP_FAULT_MAX) g_plans.nfaults = TP_FAULT_MAX;
}

void tp_harness_arm(void) { atomic_store(&g_armed, 1); }
void tp_harness_disarm(void) { atomic_store(&g_armed, 0); }

/* semaphore-ish wait with a generous ceiling; returns 0 ok, 1 ceiling hit */
int
tp_wait_until(atomic_uint *v, uint32_t target, int ceiling_ms) {
	int waited = 0;

	while (atomic_load(v) < target) {
		if (waited >= ceiling_ms * 10)
			return (1);
		usleep(100);
		waited ++;
	}
	return (0);
}
