/* Flat C ABI between drivers/C20_http.cpp and shims/http_shim.c (property C20).
 * Every input (header block, query, field / key name) is copied into an
 * exact-size heap block without a terminating NUL before liblcb sees it; the
 * pointers liblcb returns are converted into offsets relative to that block:
 *   >= 0 offset inside [0, len]   HS_NULL = NULL pointer   HS_OUTSIDE = not inside the input */
#ifndef HTTP_ABI_H
#define HTTP_ABI_H
#include <stddef.h>
#include <stdint.h>
#ifdef __cplusplus
extern "C" {
#endif

#define HS_NULL		(-1L)
#define HS_OUTSIDE	(-2L)
#define HS_NOPROGRESS	(-100)	/* header iteration did not advance */

typedef struct hs_req {
	int		rc;
	long		line_size;
	long		method_off, method_size;
	unsigned	method_code;
	long		uri_off, uri_size;
	long		scheme_off, scheme_size;
	long		host_off, host_size;
	long		path_off, path_size;
	long		query_off, query_size;
	unsigned	proto_ver;
} hs_req;

typedef struct hs_resp {
	int		rc;
	long		line_size;
	unsigned	proto_ver, status_code;
	long		reason_off, reason_size;
} hs_resp;

typedef struct hs_hdr {
	int		first_rc;	/* http_hdr_val_get() */
	long		first_off, first_size;
	size_t		count;		/* http_hdr_val_get_count() */
	int		n;		/* values collected by iterating http_hdr_val_get_ex() with offset_next */
	int		last_rc;	/* code that ended the iteration */
	long		off[64], size[64];
} hs_hdr;

unsigned hs_method(const uint8_t *m, size_t n);
void	hs_parse_req(const uint8_t *buf, size_t len, hs_req *o);
void	hs_parse_resp(const uint8_t *buf, size_t len, hs_resp *o);
int	hs_sec_chk(const uint8_t *buf, size_t len, unsigned method_code);
/* what: bit0 = values (http_hdr_val_get + iteration), bit1 = http_hdr_val_get_count */
void	hs_hdr_lookup(const uint8_t *buf, size_t len, const uint8_t *name, size_t name_len, int what, hs_hdr *o);
int	hs_query_get(const uint8_t *q, size_t qlen, const uint8_t *name, size_t name_len,
	    long *name_off, long *val_off, long *val_size);
/* q_inout: qlen bytes, rewritten in place; returns the number of removed pairs */
size_t	hs_query_del(uint8_t *q_inout, size_t qlen, const uint8_t *name, size_t name_len, size_t *new_len);
/* status code -> reason phrase (http_get_err_descr), copied into out (cap bytes) */
size_t	hs_err_descr(unsigned status, char *out, size_t cap, size_t *size_ret);

#ifdef __cplusplus
}
#endif
#endif
