/* Thread-pool harness: C06 -- (a) what a registration programs into epoll/timerfd,
 * (b) when registered events really fire. */
#define _GNU_SOURCE
#include <sys/param.h>
#include <sys/types.h>
#include <sys/socket.h>
#include <errno.h>
#include <fcntl.h>
#include <pthread.h>
#include <stdatomic.h>
#include <stdint.h>
#include <stdio.h>
#include <stdlib.h>
#include <string.h>
#include <unistd.h>

#include "threadpool/threadpool.h"
#include "threadpool/threadpool_msg_sys.h"
#include "tp_abi.h"
#include "tp_int.h"

#define CEIL_MS 20000

static void dummy_cb(tp_event_p ev, tp_udata_p ud) { (void)ev; (void)ud; }

/* ============================ (a) programming ============================ */
static tp_p ga_tp;
static int ga_sp[2] = { -1, -1 };

static int
do_op(const c06a_op *op, tp_udata_p ud) {
	switch (op->op) {
	case 0: return (tpt_ev_add_args(tp_thread_get(ga_tp, 0), op->event, op->flags, op->fflags, op->data, ud));
	case 1: return (tpt_ev_enable_args(1, op->event, op->flags, op->fflags, op->data, ud));
	case 2: return (tpt_ev_enable_args(0, op->event, op->flags, op->fflags, op->data, ud));
	default: return (tpt_ev_del_args1(op->event, ud));
	}
}

void
c06a_run(const c06a_case *c, c06a_out *out) {
	tp_settings_t s;
	tp_udata_t ud;
	tp_res_stats rs;
	size_t i;
	uint16_t ev;

	memset(out, 0, sizeof(*out));
	if (NULL == ga_tp) {
		tp_harness_reset(NULL);
		tp_settings_def(&s);
		s.flags = 0;
		s.threads_max = 1;
		out->setup_rc = tp_create(&s, &ga_tp);
		if (0 != out->setup_rc) {
			ga_tp = NULL;
			return;
		}
		if (0 != socketpair(AF_UNIX, SOCK_STREAM | SOCK_NONBLOCK, 0, ga_sp)) {
			out->setup_rc = errno;
			return;
		}
	}
	tp_harness_reset(NULL);
	g_close_unknown_passthrough = 0;
	out->fd_table_size = (uint64_t)getdtablesize();
	tp_res_get(&rs);
	out->base_live_fds = rs.live_fds;

	{
		int one = 1;
		(void)setsockopt(ga_sp[0], SOL_SOCKET, SO_RCVLOWAT, &one, sizeof(one));
	}
	memset(&ud, 0, sizeof(ud));
	ud.cb_func = c->cb_null ? NULL : dummy_cb;
	switch (c->ident_kind) {
	case 0: ud.ident = (uintptr_t)ga_sp[0]; break;
	case 1: ud.ident = (uintptr_t)-1; break;
	case 2: ud.ident = (uintptr_t)getdtablesize() + 5; break;
	case 4: ud.ident = ((uintptr_t)1 << 32) | (uintptr_t)ga_sp[0]; break; /* not a descriptor, but its low 32 bits are one */
	case 5: ud.ident = ((uintptr_t)1 << 63) | (uintptr_t)ga_sp[0]; break;
	default: ud.ident = (uintptr_t)&ud; break;
	}
	ud.tpt = tp_thread_get(ga_tp, 0);

	for (i = 0; i < c->nops && i < C06_MAX_OPS; i ++) {
		c06a_opres *r = &out->r[i];
		memset(&g_cap, 0, sizeof(g_cap));
		g_cap.enabled = 1;
		r->rc = do_op(&c->ops[i], &ud);
		g_cap.enabled = 0;
		r->tfd_creates = g_cap.tfd_creates;
		r->tfd_settimes = g_cap.tfd_settimes;
		r->tfd_clock = g_cap.tfd_clock;
		r->tfd_flags = g_cap.tfd_flags;
		r->tfd_settime_errno = g_cap.tfd_settime_errno;
		r->ep_calls = g_cap.ep_calls;
		r->ep_adds = g_cap.ep_adds;
		r->ep_dels = g_cap.ep_dels;
		r->ep_op = g_cap.ep_op;
		r->ep_events = g_cap.ep_events;
		r->v_sec = (int64_t)g_cap.tfd_spec.it_value.tv_sec;
		r->v_nsec = (int64_t)g_cap.tfd_spec.it_value.tv_nsec;
		r->i_sec = (int64_t)g_cap.tfd_spec.it_interval.tv_sec;
		r->i_nsec = (int64_t)g_cap.tfd_spec.it_interval.tv_nsec;
		tp_res_get(&rs);
		r->live_fds = rs.live_fds;
		r->tpdata = ud.tpdata;
		{
			int v = -1;
			socklen_t vl = sizeof(v);
			(void)getsockopt(ga_sp[0], SOL_SOCKET, SO_RCVLOWAT, &v, &vl);
			r->rcvlowat = v;
		}
	}
	/* leave nothing registered for the next case */
	if (NULL == ud.cb_func)
		ud.cb_func = dummy_cb;
	if (0 != (uint32_t)(ud.tpdata & 0xffffffffu)) /* a timerfd / pidfd is attached */
		tpt_ev_del_args1(TP_EV_TIMER, &ud);
	if (0 == c->ident_kind)
		tpt_ev_del_args1(TP_EV_READ, &ud); /* epoll DEL; an error just means it was not registered */
	(void)ev;
}

/* ============================ (b) firing ============================ */
static tp_p gb_tp;
static tpt_p gb_owner, gb_reg_tpt;
static const c06b_case *gb_case;
static int gb_sp[C06_MAX_CH][2];
static tp_udata_t gb_ud[C06_MAX_CH];
static atomic_uint gb_fired[C06_MAX_CH], gb_done, gb_fence;
static volatile uint16_t gb_last_flags[C06_MAX_CH];
static volatile uint32_t gb_last_fflags[C06_MAX_CH];
static volatile uint8_t gb_wrong_thread[C06_MAX_CH];
static c06b_out *gb_out;

static void
ev_cb(tp_event_p ev, tp_udata_p ud) {
	size_t ch = ud->size;

	if (ch >= C06_MAX_CH)
		return;
	gb_last_flags[ch] = ev->flags;
	gb_last_fflags[ch] = ev->fflags;
	if (tpt_get_current() != gb_owner)
		gb_wrong_thread[ch] = 1;
	atomic_fetch_add(&gb_fired[ch], 1);
}

static uint16_t
ch_event(size_t ch) {
	switch (gb_case->kind[ch]) {
	case 1: return (TP_EV_READ);
	case 2: case 4: return (TP_EV_WRITE);
	default: return (TP_EV_TIMER);
	}
}

static int
reg_op(const c06b_cmd *cm) {
	size_t ch = cm->ch % C06_MAX_CH;
	uint16_t ev = ch_event(ch);
	uint32_t ff = (TP_EV_TIMER == ev) ? TP_FF_T_MSEC : 0;
	uint64_t data = (TP_EV_TIMER == ev) ? gb_case->period_ms[ch] : 0;

	switch (cm->cmd) {
	case E_ADD: return (tpt_ev_add_args(gb_reg_tpt, ev, cm->flags, ff, data, &gb_ud[ch]));
	case E_ENABLE: return (tpt_ev_enable_args(1, ev, cm->flags, ff, data, &gb_ud[ch]));
	case E_DISABLE: return (tpt_ev_enable_args(0, ev, cm->flags, ff, data, &gb_ud[ch]));
	case E_ENABLE1: return (tpt_ev_enable_args1(1, ev, &gb_ud[ch]));
	case E_DISABLE1: return (tpt_ev_enable_args1(0, ev, &gb_ud[ch]));
	default: return (tpt_ev_del_args1(ev, &gb_ud[ch]));
	}
}

static void
snap(uint32_t *dst) {
	size_t i;
	for (i = 0; i < C06_MAX_CH; i ++)
		dst[i] = atomic_load(&gb_fired[i]);
}

static void
in_thread_cb(tpt_p tpt, void *udata) {
	size_t idx = (size_t)(uintptr_t)udata;

	(void)tpt;
	gb_out->s[idx].rc = reg_op(&gb_case->cmds[idx]);
	snap(gb_out->s[idx].fired_at_ret);
	atomic_fetch_add(&gb_done, 1);
}
static void fence_cb(tpt_p tpt, void *udata) { (void)tpt; (void)udata; atomic_fetch_add(&gb_fence, 1); }

static int
fences(int k) {
	int hang = 0;
	while (k-- > 0) {
		uint32_t want = atomic_load(&gb_fence) + 1;
		if (0 != tpt_msg_send(gb_owner, NULL, 0, fence_cb, NULL))
			return (1);
		hang |= tp_wait_until(&gb_fence, want, CEIL_MS);
	}
	return (hang);
}

void
c06b_run(const c06b_case *c, c06b_out *out) {
	tp_settings_t s;
	size_t i, ch;
	char buf[64];
	uint32_t max_period = 1;

	memset(out, 0, sizeof(*out));
	out->never_fired_step = -1;
	gb_case = c;
	gb_out = out;
	tp_harness_reset(&c->plans);
	g_close_unknown_passthrough = 0;
	{
		tp_res_stats rs0;
		tp_res_get(&rs0);
		out->base_live_fds = rs0.live_fds; /* the static pool of part (a) lives in the same process */
	}
	atomic_store(&gb_done, 0);
	atomic_store(&gb_fence, 0);
	tp_settings_def(&s);
	s.flags = 0;
	s.threads_max = 1;
	out->setup_rc = tp_create(&s, &gb_tp);
	if (0 != out->setup_rc)
		return;
	tp_threads_create(gb_tp, 0);
	gb_owner = tp_thread_get(gb_tp, 0);
	gb_reg_tpt = c->on_pvt ? tp_thread_get_pvt(gb_tp) : gb_owner;
	for (ch = 0; ch < C06_MAX_CH; ch ++) {
		atomic_store(&gb_fired[ch], 0);
		gb_last_flags[ch] = 0;
		gb_last_fflags[ch] = 0;
		gb_wrong_thread[ch] = 0;
		gb_sp[ch][0] = gb_sp[ch][1] = -1;
		memset(&gb_ud[ch], 0, sizeof(tp_udata_t));
		gb_ud[ch].cb_func = ev_cb;
		gb_ud[ch].size = ch;
		if (1 == c->kind[ch] || 2 == c->kind[ch]) {
			if (0 != socketpair(AF_UNIX, SOCK_STREAM | SOCK_NONBLOCK, 0, gb_sp[ch])) {
				out->setup_rc = errno;
				return;
			}
			gb_ud[ch].ident = (uintptr_t)gb_sp[ch][0];
		} else if (4 == c->kind[ch]) {
			int p[2];
			if (0 != pipe2(p, O_NONBLOCK)) {
				out->setup_rc = errno;
				return;
			}
			gb_sp[ch][0] = p[1]; /* registered: the write end */
			gb_sp[ch][1] = p[0]; /* "peer": the read end */
			gb_ud[ch].ident = (uintptr_t)gb_sp[ch][0];
		} else {
			gb_ud[ch].ident = (uintptr_t)&gb_ud[ch];
			if (c->period_ms[ch] > max_period)
				max_period = c->period_ms[ch];
		}
	}
	for (ch = 0; ch < C06_MAX_CH; ch ++) { /* timers named after another channel's descriptor number */
		if (3 == c->kind[ch] && 0 != c->timer_ident_of[ch]) {
			size_t k = (size_t)(c->timer_ident_of[ch] - 1) % C06_MAX_CH;
			if (k != ch && gb_sp[k][0] >= 0)
				gb_ud[ch].ident = (uintptr_t)gb_sp[k][0];
		}
	}
	tp_harness_arm();
	for (i = 0; i < c->ncmds && i < C06_MAX_CMDS; i ++) {
		const c06b_cmd *cm = &c->cmds[i];
		c06b_step *st = &out->s[i];
		uint32_t base[C06_MAX_CH];
		snap(base);
		ch = cm->ch % C06_MAX_CH;
		switch (cm->cmd) {
		case E_ADD: case E_ENABLE: case E_DISABLE: case E_DEL: case E_ENABLE1: case E_DISABLE1:
			if (0 == c->kind[ch] || (3 == c->kind[ch] && (E_ENABLE1 == cm->cmd || E_DISABLE1 == cm->cmd)))
				break;
			if (cm->outside) {
				st->rc = reg_op(cm);
				out->hang |= fences(1); /* the strong claim holds only on the owning thread: fence first */
				snap(st->fired_at_ret);
			} else {
				uint32_t want = atomic_load(&gb_done) + 1;
				if (0 == tpt_msg_send(gb_owner, NULL, 0, in_thread_cb, (void *)(uintptr_t)i))
					out->hang |= tp_wait_until(&gb_done, want, CEIL_MS);
			}
			break;
		case E_PEER_WRITE:
			if (gb_sp[ch][1] >= 0)
				(void)!write(gb_sp[ch][1], "z", 1);
			snap(st->fired_at_ret);
			break;
		case E_DRAIN:
			if (gb_sp[ch][0] >= 0) {
				while (read(gb_sp[ch][0], buf, sizeof(buf)) > 0)
					;
			}
			out->hang |= fences(1);
			snap(st->fired_at_ret);
			break;
		case E_PEER_CLOSE:
			if (gb_sp[ch][1] >= 0) {
				close(gb_sp[ch][1]);
				gb_sp[ch][1] = -1;
			}
			snap(st->fired_at_ret);
			break;
		case E_PEER_SHUT_WR:
			if (gb_sp[ch][1] >= 0)
				shutdown(gb_sp[ch][1], SHUT_WR);
			snap(st->fired_at_ret);
			break;
		case E_SLEEP:
			usleep((useconds_t)cm->arg * 1000);
			snap(st->fired_at_ret);
			break;
		case E_REOPEN:
			if (gb_sp[ch][0] >= 0) {
				int old = gb_sp[ch][0], nsp[2];
				out->hang |= fences(1); /* not while the owner is inside a callback for it */
				if (gb_sp[ch][1] >= 0)
					close(gb_sp[ch][1]);
				close(old);
				gb_sp[ch][0] = gb_sp[ch][1] = -1;
				if (0 == socketpair(AF_UNIX, SOCK_STREAM | SOCK_NONBLOCK, 0, nsp)) {
					if (nsp[1] == old) { /* keep the registered number for our end */
						int t = nsp[0];
						nsp[0] = nsp[1];
						nsp[1] = t;
					}
					if (nsp[0] != old) {
						if (-1 != dup2(nsp[0], old)) {
							close(nsp[0]);
							nsp[0] = old;
						}
					}
					gb_sp[ch][0] = nsp[0];
					gb_sp[ch][1] = nsp[1];
					gb_ud[ch].ident = (uintptr_t)nsp[0];
				}
			}
			out->hang |= fences(1);
			snap(st->fired_at_ret);
			break;
		}
		/* awaited callbacks: wait (generous ceiling) instead of assuming a delivery latency */
		for (ch = 0; ch < C06_MAX_CH; ch ++) {
			if (0 != (cm->wait_mask & (1u << ch)) &&
			    0 != tp_wait_until(&gb_fired[ch], base[ch] + 1, CEIL_MS / 2) &&
			    -1 == out->never_fired_step)
				out->never_fired_step = (int)i;
		}
		/* settle: several iterations of the owner's loop */
		out->hang |= fences(4);
		snap(st->fired_after);
		usleep((useconds_t)(2000 + 1000 * 2 * max_period));
		out->hang |= fences(2);
		snap(st->fired_late);
		for (ch = 0; ch < C06_MAX_CH; ch ++) {
			st->last_flags[ch] = gb_last_flags[ch];
			st->last_fflags[ch] = gb_last_fflags[ch];
			st->wrong_thread[ch] = gb_wrong_thread[ch];
		}
	}
	tp_harness_disarm();
	/* owner removes what is still registered, then the pool goes away */
	for (ch = 0; ch < C06_MAX_CH; ch ++) {
		if (0 != c->kind[ch] && 0 != gb_ud[ch].tpdata)
			tpt_ev_del_args1(ch_event(ch), &gb_ud[ch]);
	}
	tp_shutdown(gb_tp);
	tp_shutdown_wait(gb_tp);
	out->setup_rc = tp_destroy(gb_tp);
	for (ch = 0; ch < C06_MAX_CH; ch ++) {
		if (gb_sp[ch][0] >= 0) close(gb_sp[ch][0]);
		if (gb_sp[ch][1] >= 0) close(gb_sp[ch][1]);
	}
	tp_res_get(&out->res);
}

/* ============================ (k) removal by a sibling callback ============================ */
static tp_p gk_tp;
static tpt_p gk_owner;
static const c06k_case *gk_case;
static c06k_out *gk_out;
static int gk_sp[C06K_MAX_CH][2];
static tp_udata_t gk_ud[C06K_MAX_CH];
static atomic_uint gk_fired[C06K_MAX_CH], gk_removed[C06K_MAX_CH], gk_done;

static void
k_log(uint8_t type, size_t ch, uint16_t event, int rc) { /* owner thread only */
	c06k_rec *r;
	if (gk_out->nlog >= C06K_LOG) {
		gk_out->log_overflow = 1;
		return;
	}
	r = &gk_out->log[gk_out->nlog ++];
	r->type = type;
	r->ch = (uint8_t)ch;
	r->event = (uint8_t)event;
	r->rc = rc;
}
static uint16_t
k_event(size_t ch) {
	return ((1 == gk_case->kind[ch]) ? TP_EV_READ : ((2 == gk_case->kind[ch]) ? TP_EV_WRITE : TP_EV_TIMER));
}
static void
k_cb(tp_event_p ev, tp_udata_p ud) {
	size_t ch = ud->size, t;
	char b[8];

	if (ch >= C06K_MAX_CH)
		return;
	if (tpt_get_current() != gk_owner)
		gk_out->wrong_thread = 1;
	k_log(1, ch, ev->event, 0);
	if (1 == gk_case->kind[ch])
		(void)!read(gk_sp[ch][0], b, 1);
	if (0 == atomic_fetch_add(&gk_fired[ch], 1)) {
		for (t = 0; t < gk_case->nch; t ++) {
			int rc;
			if (t == ch || 0 == (gk_case->kills[ch] & (1u << t)))
				continue;
			rc = gk_case->kill_op[ch] ? tpt_ev_enable_args1(0, k_event(t), &gk_ud[t]) : tpt_ev_del_args1(k_event(t), &gk_ud[t]);
			k_log(2, t, k_event(t), rc);
			if (0 == rc)
				atomic_store(&gk_removed[t], 1);
		}
	}
	if (2 == gk_case->kind[ch] && 0 == (gk_case->flags[ch] & (TP_F_ONESHOT | TP_F_DISPATCH))) { /* always-ready level event: one report is enough */
		int rc = tpt_ev_del_args1(TP_EV_WRITE, &gk_ud[ch]);
		k_log(2, ch, TP_EV_WRITE, rc);
		if (0 == rc)
			atomic_store(&gk_removed[ch], 1);
	}
}
static void
k_busy_cb(tpt_p tpt, void *udata) {
	size_t ch;

	(void)tpt; (void)udata;
	for (ch = 0; ch < gk_case->nch; ch ++) {
		uint16_t e = k_event(ch);
		int rc = tpt_ev_add_args(gk_owner, e, gk_case->flags[ch], (TP_EV_TIMER == e) ? TP_FF_T_MSEC : 0,
		    (TP_EV_TIMER == e) ? gk_case->period_ms[ch] : 0, &gk_ud[ch]);
		k_log(3, ch, e, rc);
		if (0 != rc)
			atomic_store(&gk_removed[ch], 1);
		if (1 == gk_case->kind[ch])
			(void)!write(gk_sp[ch][1], "x", 1);
	}
	usleep((useconds_t)gk_case->busy_ms * 1000); /* everything becomes ready while this thread is busy */
	atomic_fetch_add(&gk_done, 1);
}
static void
k_cleanup_cb(tpt_p tpt, void *udata) {
	size_t ch;
	(void)tpt; (void)udata;
	for (ch = 0; ch < gk_case->nch; ch ++) {
		if (0 != gk_ud[ch].tpdata)
			tpt_ev_del_args1(k_event(ch), &gk_ud[ch]);
	}
	atomic_fetch_add(&gk_done, 1);
}
static void k_fence_cb(tpt_p tpt, void *udata) { (void)tpt; (void)udata; atomic_fetch_add(&gk_done, 1); }
static int
k_call(tpt_msg_cb cb) {
	uint32_t want = atomic_load(&gk_done) + 1;
	if (0 != tpt_msg_send(gk_owner, NULL, 0, cb, NULL))
		return (1);
	return (tp_wait_until(&gk_done, want, CEIL_MS));
}

void
c06k_run(const c06k_case *c, c06k_out *out) {
	tp_settings_t s;
	size_t ch;
	int i;

	memset(out, 0, sizeof(*out));
	gk_case = c;
	gk_out = out;
	tp_harness_reset(&c->plans);
	g_close_unknown_passthrough = 0;
	{
		tp_res_stats rs0;
		tp_res_get(&rs0);
		out->pre_live_fds = rs0.live_fds;
	}
	atomic_store(&gk_done, 0);
	tp_settings_def(&s);
	s.flags = 0;
	s.threads_max = 1;
	out->setup_rc = tp_create(&s, &gk_tp);
	if (0 != out->setup_rc)
		return;
	tp_threads_create(gk_tp, 0);
	gk_owner = tp_thread_get(gk_tp, 0);
	for (ch = 0; ch < C06K_MAX_CH; ch ++) {
		atomic_store(&gk_fired[ch], 0);
		atomic_store(&gk_removed[ch], 0);
		gk_sp[ch][0] = gk_sp[ch][1] = -1;
		memset(&gk_ud[ch], 0, sizeof(tp_udata_t));
		gk_ud[ch].cb_func = k_cb;
		gk_ud[ch].size = ch;
		if (ch >= c->nch)
			continue;
		if (3 == c->kind[ch]) {
			gk_ud[ch].ident = (uintptr_t)&gk_ud[ch];
		} else {
			if (0 != socketpair(AF_UNIX, SOCK_STREAM | SOCK_NONBLOCK, 0, gk_sp[ch])) {
				out->setup_rc = errno;
				return;
			}
			gk_ud[ch].ident = (uintptr_t)gk_sp[ch][0];
		}
	}
	tp_harness_arm();
	out->hang |= k_call(k_busy_cb);
	/* every channel either reports at least once or is removed by a sibling */
	for (i = 0; i < CEIL_MS && !out->hang; i ++) {
		int missing = 0;
		for (ch = 0; ch < c->nch; ch ++) {
			if (0 == atomic_load(&gk_fired[ch]) && 0 == atomic_load(&gk_removed[ch]))
				missing |= (1 << ch);
		}
		out->never_fired = missing;
		if (0 == missing)
			break;
		usleep(1000);
	}
	for (i = 0; i < 3; i ++)
		out->hang |= k_call(k_fence_cb);
	usleep(8000); /* a few periods of the fastest timers */
	out->hang |= k_call(k_fence_cb);
	tp_harness_disarm();
	out->hang |= k_call(k_cleanup_cb);
	tp_shutdown(gk_tp);
	tp_shutdown_wait(gk_tp);
	out->setup_rc = tp_destroy(gk_tp);
	for (ch = 0; ch < C06K_MAX_CH; ch ++) {
		if (gk_sp[ch][0] >= 0) close(gk_sp[ch][0]);
		if (gk_sp[ch][1] >= 0) close(gk_sp[ch][1]);
	}
	tp_res_get(&out->res);
}

/* ============================ (c) process events ============================ */
#include <signal.h>
#include <stdarg.h>
#include <sys/syscall.h>
#include <sys/wait.h>
#include <poll.h>

static atomic_uint gc_pidfd_opens;

/* threadpool.c reaches pidfd_open through syscall(); the pool sources of this check are compiled with
 * -Dsyscall=verif_syscall so that the descriptor enters the resource table like every other one */
long
verif_syscall(long nr, ...) {
	va_list ap;
	long a0, a1, r;

	va_start(ap, nr);
	a0 = va_arg(ap, long);
	a1 = va_arg(ap, long);
	va_end(ap);
	if (SYS_pidfd_open != nr) { /* nothing else is used by the pool sources */
		errno = ENOSYS;
		return (-1);
	}
	r = syscall(nr, a0, a1);
	if (r >= 0) {
		tp_fd_adopt((int)r, 6);
		atomic_fetch_add(&gc_pidfd_opens, 1);
	}
	return (r);
}

static tp_p gc_tp;
static tpt_p gc_owner;
static const c06c_case *gc_case;
static c06c_out *gc_out;
static tp_udata_t gc_ud[C06C_MAX_CH];
static pid_t gc_pid[C06C_MAX_CH];
static int gc_pipe[C06C_MAX_CH][2];
static int gc_watch[C06C_MAX_CH];
static uint8_t gc_dead[C06C_MAX_CH];
static atomic_uint gc_fired[C06C_MAX_CH], gc_done, gc_fence;

static void
proc_cb(tp_event_p ev, tp_udata_p ud) {
	size_t ch = ud->size;

	if (ch >= C06C_MAX_CH)
		return;
	gc_out->last_event[ch] = ev->event;
	gc_out->last_flags[ch] = ev->flags;
	gc_out->last_fflags[ch] = ev->fflags;
	gc_out->last_data[ch] = ev->data;
	if (tpt_get_current() != gc_owner)
		gc_out->wrong_thread[ch] = 1;
	atomic_fetch_add(&gc_fired[ch], 1);
}

static int
proc_op(const c06c_cmd *cm) {
	size_t ch = cm->ch % C06C_MAX_CH;

	switch (cm->cmd) {
	case P_ADD: return (tpt_ev_add_args(gc_owner, TP_EV_PROC, cm->flags, cm->fflags, 0, &gc_ud[ch]));
	case P_ENABLE: return (tpt_ev_enable_args(1, TP_EV_PROC, cm->flags, cm->fflags, 0, &gc_ud[ch]));
	case P_DISABLE: return (tpt_ev_enable_args1(0, TP_EV_PROC, &gc_ud[ch]));
	default: return (tpt_ev_del_args1(TP_EV_PROC, &gc_ud[ch]));
	}
}
static void
proc_snap(uint32_t *dst) {
	size_t i;
	for (i = 0; i < C06C_MAX_CH; i ++)
		dst[i] = atomic_load(&gc_fired[i]);
}
static void
proc_in_thread_cb(tpt_p tpt, void *udata) {
	size_t idx = (size_t)(uintptr_t)udata;

	(void)tpt;
	gc_out->s[idx].rc = proc_op(&gc_case->cmds[idx]);
	proc_snap(gc_out->s[idx].fired_at_ret);
	atomic_fetch_add(&gc_done, 1);
}
static size_t gc_dirty_ch;
static void
proc_dirty_cb(tpt_p tpt, void *udata) {
	(void)tpt; (void)udata;
	if (0 == tpt_ev_add_args(gc_owner, TP_EV_READ, 0, 0, 0, &gc_ud[gc_dirty_ch]))
		(void)tpt_ev_enable_args1(0, TP_EV_READ, &gc_ud[gc_dirty_ch]);
	atomic_fetch_add(&gc_done, 1);
}
static void proc_fence_cb(tpt_p tpt, void *udata) { (void)tpt; (void)udata; atomic_fetch_add(&gc_fence, 1); }
static int
proc_fences(int k) {
	int hang = 0;
	while (k-- > 0) {
		uint32_t want = atomic_load(&gc_fence) + 1;
		if (0 != tpt_msg_send(gc_owner, NULL, 0, proc_fence_cb, NULL))
			return (1);
		hang |= tp_wait_until(&gc_fence, want, CEIL_MS);
	}
	return (hang);
}
static void
child_end(size_t ch) {
	siginfo_t si;

	if (gc_dead[ch] || gc_pid[ch] <= 0)
		return;
	if (gc_case->by_signal[ch])
		kill(gc_pid[ch], SIGKILL);
	else
		(void)!write(gc_pipe[ch][1], "x", 1);
	if (gc_case->not_child[ch]) {
		/* not our child: watch it through a descriptor of our own (not accounted to the library) */
		struct pollfd pfd;
		pfd.fd = gc_watch[ch];
		pfd.events = POLLIN;
		pfd.revents = 0;
		while (-1 == poll(&pfd, 1, CEIL_MS) && EINTR == errno)
			;
		gc_dead[ch] = 1;
		return;
	}
	/* wait until it is really gone, without reaping it (the library reads the status itself) */
	memset(&si, 0, sizeof(si));
	while (-1 == waitid(P_PID, (id_t)gc_pid[ch], &si, WEXITED | WNOWAIT) && EINTR == errno)
		;
	gc_dead[ch] = 1;
}

void
c06c_run(const c06c_case *c, c06c_out *out) {
	tp_settings_t s;
	tp_res_stats rs;
	size_t i, ch, nch = MIN((size_t)c->nch, (size_t)C06C_MAX_CH);

	memset(out, 0, sizeof(*out));
	out->never_fired_step = -1;
	gc_case = c;
	gc_out = out;
	/* children first: at this point the process has no pool thread of this case yet */
	for (ch = 0; ch < C06C_MAX_CH; ch ++) {
		gc_pid[ch] = -1;
		gc_watch[ch] = -1;
		gc_pipe[ch][0] = gc_pipe[ch][1] = -1;
		gc_dead[ch] = 0;
		atomic_store(&gc_fired[ch], 0);
	}
	for (ch = 0; ch < nch; ch ++) {
		if (0 != pipe2(gc_pipe[ch], O_CLOEXEC)) {
			out->setup_rc = errno;
			goto cleanup;
		}
		if (c->not_child[ch]) {
			/* child forks the process to watch, reports its pid and exits: the grandchild is re-parented */
			int q[2];
			pid_t mid, gpid = -1;
			if (0 != pipe2(q, O_CLOEXEC)) {
				out->setup_rc = errno;
				goto cleanup;
			}
			mid = fork();
			if (0 == mid) {
				pid_t g = fork();
				if (0 == g) {
					char b;
					while (-1 == read(gc_pipe[ch][0], &b, 1) && EINTR == errno)
						;
					_exit(c->exit_code[ch]);
				}
				(void)!write(q[1], &g, sizeof(g));
				_exit(0);
			}
			if (-1 == mid || sizeof(gpid) != read(q[0], &gpid, sizeof(gpid)) || gpid <= 0) {
				out->setup_rc = (0 != errno) ? errno : -1;
				close(q[0]); close(q[1]);
				goto cleanup;
			}
			close(q[0]); close(q[1]);
			while (-1 == waitpid(mid, NULL, 0) && EINTR == errno)
				;
			gc_pid[ch] = gpid;
			gc_watch[ch] = (int)syscall(SYS_pidfd_open, gpid, 0);
			if (-1 == gc_watch[ch]) {
				out->setup_rc = errno;
				goto cleanup;
			}
			continue;
		}
		gc_pid[ch] = fork();
		if (0 == gc_pid[ch]) { /* child: async-signal-safe calls only */
			char b;
			while (-1 == read(gc_pipe[ch][0], &b, 1) && EINTR == errno)
				;
			_exit(c->exit_code[ch]);
		}
		if (-1 == gc_pid[ch]) {
			out->setup_rc = errno;
			goto cleanup;
		}
	}
	tp_harness_reset(&c->plans);
	g_close_unknown_passthrough = 0;
	atomic_store(&gc_done, 0);
	atomic_store(&gc_fence, 0);
	atomic_store(&gc_pidfd_opens, 0);
	tp_res_get(&rs);
	out->pre_live_fds = rs.live_fds;
	tp_settings_def(&s);
	s.flags = 0;
	s.threads_max = 1;
	out->setup_rc = tp_create(&s, &gc_tp);
	if (0 != out->setup_rc)
		goto cleanup;
	tp_threads_create(gc_tp, 0);
	gc_owner = tp_thread_get(gc_tp, 0);
	tp_res_get(&rs);
	out->base_live_fds = rs.live_fds;
	for (ch = 0; ch < C06C_MAX_CH; ch ++) {
		memset(&gc_ud[ch], 0, sizeof(tp_udata_t));
		gc_ud[ch].cb_func = proc_cb;
		gc_ud[ch].size = ch;
		gc_ud[ch].ident = (uintptr_t)gc_pid[ch];
	}
	for (ch = 0; ch < nch; ch ++) { /* records with a past: read event, disabled, descriptor closed, never deleted */
		int sp[2];
		uint32_t want;
		if (!c->dirty[ch] || 0 != socketpair(AF_UNIX, SOCK_STREAM | SOCK_NONBLOCK, 0, sp))
			continue;
		gc_ud[ch].cb_func = dummy_cb;
		gc_ud[ch].ident = (uintptr_t)sp[0];
		gc_dirty_ch = ch;
		want = atomic_load(&gc_done) + 1;
		if (0 == tpt_msg_send(gc_owner, NULL, 0, proc_dirty_cb, NULL))
			out->hang |= tp_wait_until(&gc_done, want, CEIL_MS);
		close(sp[0]);
		close(sp[1]);
		out->hang |= proc_fences(1);
		gc_ud[ch].cb_func = proc_cb;
		gc_ud[ch].ident = (uintptr_t)gc_pid[ch];
	}
	tp_harness_arm();
	for (i = 0; i < c->ncmds && i < C06C_MAX_CMDS; i ++) {
		const c06c_cmd *cm = &c->cmds[i];
		c06c_step *st = &out->s[i];
		uint32_t base[C06C_MAX_CH];

		proc_snap(base);
		ch = cm->ch % C06C_MAX_CH;
		if (ch >= nch)
			continue;
		switch (cm->cmd) {
		case P_ADD: case P_ENABLE: case P_DISABLE: case P_DEL:
			if (cm->outside) {
				st->rc = proc_op(cm);
				out->hang |= proc_fences(1);
				proc_snap(st->fired_at_ret);
			} else {
				uint32_t want = atomic_load(&gc_done) + 1;
				if (0 == tpt_msg_send(gc_owner, NULL, 0, proc_in_thread_cb, (void *)(uintptr_t)i))
					out->hang |= tp_wait_until(&gc_done, want, CEIL_MS);
			}
			break;
		case P_EXIT:
			child_end(ch);
			proc_snap(st->fired_at_ret);
			break;
		default:
			usleep((useconds_t)cm->arg * 1000);
			proc_snap(st->fired_at_ret);
			break;
		}
		{
			/* a registration of an already dead process that is not our child succeeds only while nobody has
			 * reaped it yet: the callback is due exactly when the call returned 0 */
			int due = cm->await;
			if ((P_ADD == cm->cmd || P_ENABLE == cm->cmd) && c->not_child[ch] && gc_dead[ch] && 2 == cm->await)
				due = (0 == st->rc);
			if (due && 0 != tp_wait_until(&gc_fired[ch], base[ch] + 1, CEIL_MS / 2) && -1 == out->never_fired_step)
				out->never_fired_step = (int)i;
		}
		out->hang |= proc_fences(4);
		proc_snap(st->fired_after);
		usleep(1500);
		out->hang |= proc_fences(2);
		proc_snap(st->fired_late);
		tp_res_get(&rs);
		st->live_fds = rs.live_fds;
		for (ch = 0; ch < C06C_MAX_CH; ch ++)
			st->tpdata[ch] = gc_ud[ch].tpdata;
	}
	tp_harness_disarm();
	out->pidfd_opens = atomic_load(&gc_pidfd_opens);
	for (ch = 0; ch < nch; ch ++) {
		if (0 != gc_ud[ch].tpdata && NULL != gc_ud[ch].tpt)
			tpt_ev_del_args1(TP_EV_PROC, &gc_ud[ch]);
	}
	tp_shutdown(gc_tp);
	tp_shutdown_wait(gc_tp);
	tp_destroy(gc_tp);
	tp_res_get(&out->res);
cleanup:
	for (ch = 0; ch < C06C_MAX_CH; ch ++) {
		if (gc_pid[ch] > 0) {
			if (!gc_dead[ch]) {
				kill(gc_pid[ch], SIGKILL);
			}
			if (!c->not_child[ch]) {
				while (-1 == waitpid(gc_pid[ch], NULL, 0) && EINTR == errno)
					;
			}
		}
		if (gc_watch[ch] >= 0) close(gc_watch[ch]);
		if (gc_pipe[ch][0] >= 0) close(gc_pipe[ch][0]);
		if (gc_pipe[ch][1] >= 0) close(gc_pipe[ch][1]);
	}
}
