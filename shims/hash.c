/* C shim over /repo/include/crypto/hash/{md5,sha1,sha2,gost3411-2012}.h for
 * drivers/C04_hash.cpp (plain hashes) and drivers/C07_hmac.cpp (HMAC).
 * Compiled once per build variant: compiler, -O level, SIMD flags,
 *   -DSH_NOSIMD                          (#undef __SSE2__ before the includes, as tests/hash/main.c)
 *   -DGOST3411_2012_USE_SMALL_TABLES [-DGOST3411_2012_USE_SMALL_TABLES_TABLE_TAU]
 * All caller-side buffers (message, key, every isolated update, digest, hex
 * string, context) are separate allocations of exactly the declared size, so
 * that under ASan the first byte outside lands in a redzone. */
#include <sys/param.h>
#include <sys/types.h>
#include <inttypes.h>
#include <stdint.h>
#include <stdlib.h>
#include <string.h>
#include <stdio.h>

#ifdef SH_NOSIMD
#undef __SSE2__
#endif

#include <crypto/hash/md5.h>
/* Which transforms a header compiles in is decided by the macro state at the point of its #include.
 * With gcc, <immintrin.h> (pulled in by gost3411-2012.h when __AVX__ is set) re-defines __SSE2__ after
 * an "#undef __SSE2__", so the state is captured per header, not once. */
#ifdef __SSE2__
#define SH_SHA1_SSE 1	/* sha1_ctx_t has use_sse, sha1_transform_sse() exists */
#endif
#include <crypto/hash/sha1.h>
#include <crypto/hash/sha2.h>
#include <crypto/hash/gost3411-2012.h>
#ifdef __SSE2__
#define SH_GOST_SSE 1	/* gost3411_2012_transform_*_sse() exist (the use_sse field always does) */
#endif
#ifdef __AVX__
#define SH_GOST_AVX 1
#endif
#include "hash_abi.h"

#if defined(__SANITIZE_ADDRESS__)
#define SH_ASAN 1
#elif defined(__has_feature)
#if __has_feature(address_sanitizer)
#define SH_ASAN 1
#endif
#endif

#ifdef SH_ASAN
void __asan_poison_memory_region(void const volatile *addr, size_t size);
void __asan_unpoison_memory_region(void const volatile *addr, size_t size);
#define SH_CANARY 0
#else
#define SH_CANARY 32
#endif

enum { FAM_MD5 = 0, FAM_SHA1, FAM_SHA2, FAM_GOST };

static const struct {
	int fam;
	size_t bits, hash, block;
} algs[SH_ALG_COUNT] = {
	{ FAM_MD5, 0, MD5_HASH_SIZE, MD5_MSG_BLK_SIZE },
	{ FAM_SHA1, 0, 20, 64 },
	{ FAM_SHA2, 224, 28, 64 },
	{ FAM_SHA2, 256, 32, 64 },
	{ FAM_SHA2, 384, 48, 128 },
	{ FAM_SHA2, 512, 64, 128 },
	{ FAM_GOST, 256, 32, 64 },
	{ FAM_GOST, 512, 64, 64 },
};

long
sh_info(int what) {
	switch (what) {
	case SH_INFO_NOSIMD:
#ifdef SH_NOSIMD
		return (1);
#else
		return (0);
#endif
	case SH_INFO_SMALL_TABLES:
#if defined(GOST3411_2012_USE_SMALL_TABLES) && defined(GOST3411_2012_USE_SMALL_TABLES_TABLE_TAU)
		return (2);
#elif defined(GOST3411_2012_USE_SMALL_TABLES)
		return (1);
#else
		return (0);
#endif
	case SH_INFO_ASAN:
#ifdef SH_ASAN
		return (1);
#else
		return (0);
#endif
	}
	return (-1);
}

unsigned
sh_impls(int alg) {
	unsigned m = (1u << SH_IMPL_DEFAULT) | (1u << SH_IMPL_GENERIC);

	if (alg < 0 || alg >= SH_ALG_COUNT)
		return (0);
	switch (algs[alg].fam) {
	case FAM_SHA1:
#ifdef SH_SHA1_SSE
		m |= (1u << SH_IMPL_SSE);
#endif
#ifdef SHA1_ENABLE_SIMD
		m |= (1u << SH_IMPL_SHANI);
#endif
		break;
	case FAM_SHA2:
#ifdef SHA2_ENABLE_SIMD
		if (64 == algs[alg].block)
			m |= (1u << SH_IMPL_SHANI);
#endif
		break;
	case FAM_GOST:
#ifdef SH_GOST_SSE
		m |= (1u << SH_IMPL_SSE);
#endif
#ifdef SH_GOST_AVX
		m |= (1u << SH_IMPL_AVX);
#endif
		break;
	}
	return (m);
}

/* ---- exactly sized allocations -------------------------------------- */
typedef struct {
	uint8_t *base, *p;	/* p = base + off */
	size_t off, n;
} xbuf;

static int
xb_alloc(xbuf *b, size_t off, size_t n, size_t canary) {
	size_t tot = off + n + canary;
	void *m = NULL;

	b->base = b->p = NULL;
	b->off = off;
	b->n = n;
	if (0 != posix_memalign(&m, 64, (0 == tot) ? 1 : tot))
		return (-1);
	b->base = (uint8_t*)m;
	b->p = b->base + off;
	memset(b->base, 0xEE, (0 == tot) ? 1 : tot);
#ifdef SH_ASAN
	if (0 != off)
		__asan_poison_memory_region(b->base, off);
	if (0 == tot)
		__asan_poison_memory_region(b->base, 1);
#endif
	return (0);
}

static int
xb_canary_ok(const xbuf *b, size_t canary) {
	size_t i;

	for (i = 0; i < canary; i ++) {
		if (0xEE != b->p[b->n + i])
			return (0);
	}
	return (1);
}

static void
xb_free(xbuf *b) {
	if (NULL == b->base)
		return;
#ifdef SH_ASAN
	__asan_unpoison_memory_region(b->base, (0 == (b->off + b->n)) ? 1 : (b->off + b->n));
#endif
	free(b->base);
	b->base = b->p = NULL;
}

/* ---- context objects -------------------------------------------------- */
typedef struct {
	int fam, hmac;
	size_t size;
	void *mem;	/* exactly 'size' bytes, 64-byte aligned */
} sh_ctx;

static size_t
ctx_size(int fam, int hmac) {
	switch (fam) {
	case FAM_MD5: return (hmac ? sizeof(hmac_md5_ctx_t) : sizeof(md5_ctx_t));
	case FAM_SHA1: return (hmac ? sizeof(hmac_sha1_ctx_t) : sizeof(sha1_ctx_t));
	case FAM_SHA2: return (hmac ? sizeof(hmac_sha2_ctx_t) : sizeof(sha2_ctx_t));
	case FAM_GOST: return (hmac ? sizeof(hmac_gost3411_2012_ctx_t) : sizeof(gost3411_2012_ctx_t));
	}
	return (0);
}

static void *
ctx_mem(size_t size, int junk) {
	void *m = NULL;

	if (0 != posix_memalign(&m, 64, size))
		return (NULL);
	memset(m, junk, size);
	return (m);
}

void *
sh_ctx_alloc(int alg, int hmac, int junk) {
	sh_ctx *h;

	if (alg < 0 || alg >= SH_ALG_COUNT)
		return (NULL);
	h = (sh_ctx*)calloc(1, sizeof(sh_ctx));
	if (NULL == h)
		return (NULL);
	h->fam = algs[alg].fam;
	h->hmac = (0 != hmac);
	h->size = ctx_size(h->fam, h->hmac);
	h->mem = ctx_mem(h->size, junk);
	if (NULL == h->mem) {
		free(h);
		return (NULL);
	}
	return (h);
}

void
sh_ctx_free(void *hv) {
	sh_ctx *h = (sh_ctx*)hv;

	if (NULL == h)
		return;
	free(h->mem);
	free(h);
}

/* ---- family dispatch -------------------------------------------------- */
static size_t
bits_arg(const sh_req *rq) {
	return (rq->bits_form ? algs[rq->alg].hash : algs[rq->alg].bits);
}

static void
x_init(const sh_req *rq, void *c) {
	switch (algs[rq->alg].fam) {
	case FAM_MD5: md5_init((md5_ctx_p)c); break;
	case FAM_SHA1: sha1_init((sha1_ctx_p)c); break;
	case FAM_SHA2: sha2_init(bits_arg(rq), (sha2_ctx_p)c); break;
	case FAM_GOST: gost3411_2012_init(bits_arg(rq), (gost3411_2012_ctx_p)c); break;
	}
}

static void
x_update(int fam, void *c, const uint8_t *p, size_t n) {
	switch (fam) {
	case FAM_MD5: md5_update((md5_ctx_p)c, p, n); break;
	case FAM_SHA1: sha1_update((sha1_ctx_p)c, p, n); break;
	case FAM_SHA2: sha2_update((sha2_ctx_p)c, p, n); break;
	case FAM_GOST: gost3411_2012_update((gost3411_2012_ctx_p)c, p, n); break;
	}
}

static void
x_final(int fam, void *c, uint8_t *d) {
	switch (fam) {
	case FAM_MD5: md5_final((md5_ctx_p)c, d); break;
	case FAM_SHA1: sha1_final((sha1_ctx_p)c, d); break;
	case FAM_SHA2: sha2_final((sha2_ctx_p)c, d); break;
	case FAM_GOST: gost3411_2012_final((gost3411_2012_ctx_p)c, d); break;
	}
}

/* which transform would the dispatcher run with the fields as they are now */
static uint32_t
x_selected(int alg, void *c) {
	switch (algs[alg].fam) {
	case FAM_SHA1:
#ifdef SHA1_ENABLE_SIMD
		if (0 != ((sha1_ctx_p)c)->use_simd)
			return (SH_IMPL_SHANI);
#endif
#ifdef SH_SHA1_SSE
		if (0 != ((sha1_ctx_p)c)->use_sse)
			return (SH_IMPL_SSE);
#endif
		break;
	case FAM_SHA2:
#ifdef SHA2_ENABLE_SIMD
		if (64 == algs[alg].block && 0 != ((sha2_ctx_p)c)->use_simd)
			return (SH_IMPL_SHANI);
#endif
		break;
	case FAM_GOST:
#ifdef SH_GOST_AVX
		if (0 != ((gost3411_2012_ctx_p)c)->use_avx)
			return (SH_IMPL_AVX);
#endif
#ifdef SH_GOST_SSE
		if (0 != ((gost3411_2012_ctx_p)c)->use_sse)
			return (SH_IMPL_SSE);
#endif
		break;
	}
	return (SH_IMPL_GENERIC);
}

/* the self-test's way: plain stores to the public fields after *_init() */
static void
x_force(int alg, void *c, int impl) {
	if (SH_IMPL_DEFAULT == impl)
		return;
	switch (algs[alg].fam) {
	case FAM_SHA1:
#ifdef SH_SHA1_SSE
		((sha1_ctx_p)c)->use_sse = (SH_IMPL_SSE == impl);
#endif
#ifdef SHA1_ENABLE_SIMD
		((sha1_ctx_p)c)->use_simd = (SH_IMPL_SHANI == impl);
#endif
		break;
	case FAM_SHA2:
#ifdef SHA2_ENABLE_SIMD
		((sha2_ctx_p)c)->use_simd = (SH_IMPL_SHANI == impl);
#endif
		break;
	case FAM_GOST:
		((gost3411_2012_ctx_p)c)->use_sse = (SH_IMPL_SSE == impl);
		((gost3411_2012_ctx_p)c)->use_avx = (SH_IMPL_AVX == impl);
		break;
	}
}

/* hash context embedded in an hmac context, and its k_opad */
static void *
h_inner(int fam, void *hc) {
	switch (fam) {
	case FAM_MD5: return (&((hmac_md5_ctx_p)hc)->ctx);
	case FAM_SHA1: return (&((hmac_sha1_ctx_p)hc)->ctx);
	case FAM_SHA2: return (&((hmac_sha2_ctx_p)hc)->ctx);
	case FAM_GOST: return (&((hmac_gost3411_2012_ctx_p)hc)->ctx);
	}
	return (NULL);
}

static void
h_opad(int fam, void *hc, uint8_t **p, size_t *n) {
	switch (fam) {
	case FAM_MD5:
		(*p) = (uint8_t*)((hmac_md5_ctx_p)hc)->k_opad;
		(*n) = sizeof(((hmac_md5_ctx_p)hc)->k_opad);
		break;
	case FAM_SHA1:
		(*p) = (uint8_t*)((hmac_sha1_ctx_p)hc)->k_opad;
		(*n) = sizeof(((hmac_sha1_ctx_p)hc)->k_opad);
		break;
	case FAM_SHA2:
		(*p) = (uint8_t*)((hmac_sha2_ctx_p)hc)->k_opad;
		(*n) = sizeof(((hmac_sha2_ctx_p)hc)->k_opad);
		break;
	default:
		(*p) = (uint8_t*)((hmac_gost3411_2012_ctx_p)hc)->k_opad;
		(*n) = sizeof(((hmac_gost3411_2012_ctx_p)hc)->k_opad);
		break;
	}
}

static void
h_init(const sh_req *rq, const uint8_t *key, size_t key_len, void *hc) {
	switch (algs[rq->alg].fam) {
	case FAM_MD5: hmac_md5_init(key, key_len, (hmac_md5_ctx_p)hc); break;
	case FAM_SHA1: hmac_sha1_init(key, key_len, (hmac_sha1_ctx_p)hc); break;
	case FAM_SHA2: hmac_sha2_init(bits_arg(rq), key, key_len, (hmac_sha2_ctx_p)hc); break;
	case FAM_GOST: hmac_gost3411_2012_init(bits_arg(rq), key, key_len, (hmac_gost3411_2012_ctx_p)hc); break;
	}
}

static void
h_update(int fam, void *hc, const uint8_t *p, size_t n) {
	switch (fam) {
	case FAM_MD5: hmac_md5_update((hmac_md5_ctx_p)hc, p, n); break;
	case FAM_SHA1: hmac_sha1_update((hmac_sha1_ctx_p)hc, p, n); break;
	case FAM_SHA2: hmac_sha2_update((hmac_sha2_ctx_p)hc, p, n); break;
	case FAM_GOST: hmac_gost3411_2012_update((hmac_gost3411_2012_ctx_p)hc, p, n); break;
	}
}

static void
h_final(int fam, void *hc, uint8_t *d, size_t *sz) {
	switch (fam) {
	case FAM_MD5: hmac_md5_final((hmac_md5_ctx_p)hc, d); break;
	case FAM_SHA1: hmac_sha1_final((hmac_sha1_ctx_p)hc, d); break;
	case FAM_SHA2: hmac_sha2_final((hmac_sha2_ctx_p)hc, d, sz); break;
	case FAM_GOST: hmac_gost3411_2012_final((hmac_gost3411_2012_ctx_p)hc, d, sz); break;
	}
}

static int32_t
first_nz(const uint8_t *p, size_t n) {
	size_t i;

	for (i = 0; i < n; i ++) {
		if (0 != p[i])
			return ((int32_t)i);
	}
	return (-1);
}

/* ---- one-shot entry points ------------------------------------------ */
static void
oneshot_hash(const sh_req *rq, const uint8_t *msg, uint8_t *out, size_t *szp) {
	size_t n = rq->msg_len;

	if (SH_EP_HEXSTR == rq->entry) {
		switch (algs[rq->alg].fam) {
		case FAM_MD5: md5_get_digest_str((const char*)msg, n, (char*)out); break;
		case FAM_SHA1: sha1_get_digest_str((const char*)msg, n, (char*)out); break;
		case FAM_SHA2: sha2_get_digest_str(bits_arg(rq), (const char*)msg, n, (char*)out, szp); break;
		case FAM_GOST: gost3411_2012_get_digest_str(bits_arg(rq), (const char*)msg, n, (char*)out, szp); break;
		}
		return;
	}
	switch (algs[rq->alg].fam) {
	case FAM_MD5: md5_get_digest(msg, n, out); break;
	case FAM_SHA1: sha1_get_digest(msg, n, out); break;
	case FAM_SHA2: sha2_get_digest(bits_arg(rq), msg, n, out, szp); break;
	case FAM_GOST: gost3411_2012_get_digest(bits_arg(rq), msg, n, out, szp); break;
	}
}

static void
oneshot_hmac(const sh_req *rq, const uint8_t *key, const uint8_t *msg, uint8_t *out, size_t *szp) {
	size_t n = rq->msg_len, k = rq->key_len;
	int fam = algs[rq->alg].fam;

	switch (rq->entry) {
	case SH_EP_HEXSTR:
		switch (fam) {
		case FAM_MD5: md5_hmac_get_digest_str((const char*)key, k, (const char*)msg, n, (char*)out); break;
		case FAM_SHA1: sha1_hmac_get_digest_str((const char*)key, k, (const char*)msg, n, (char*)out); break;
		case FAM_SHA2: sha2_hmac_get_digest_str(bits_arg(rq), (const char*)key, k, (const char*)msg, n, (char*)out, szp); break;
		case FAM_GOST: gost3411_2012_hmac_get_digest_str(bits_arg(rq), (const char*)key, k, (const char*)msg, n, (char*)out, szp); break;
		}
		break;
	case SH_EP_ONESHOT2:
		switch (fam) {
		case FAM_MD5: md5_hmac_get_digest(key, k, msg, n, out); break;
		case FAM_SHA1: sha1_hmac_get_digest(key, k, msg, n, out); break;
		case FAM_SHA2: sha2_hmac_get_digest(bits_arg(rq), key, k, msg, n, out, szp); break;
		case FAM_GOST: gost3411_2012_hmac_get_digest(bits_arg(rq), key, k, msg, n, out, szp); break;
		}
		break;
	default:
		switch (fam) {
		case FAM_MD5: hmac_md5(key, k, msg, n, out); break;
		case FAM_SHA1: hmac_sha1(key, k, msg, n, out); break;
		case FAM_SHA2: hmac_sha2(bits_arg(rq), key, k, msg, n, out, szp); break;
		case FAM_GOST: hmac_gost3411_2012(bits_arg(rq), key, k, msg, n, out, szp); break;
		}
		break;
	}
}

/* ---- main entry -------------------------------------------------------- */
void
sh_run(void *hv, const sh_req *rq, sh_res *rs) {
	sh_ctx *h = (sh_ctx*)hv;
	xbuf mb, kb, ob, cb;
	int fam, has_szp;
	size_t hash, out_n, szv = (size_t)0xffffffffu, *szp;
	size_t i, r, off, tot;
	void *c, *clone = NULL;
	const uint8_t *key;

	memset(rs, 0, sizeof(*rs));
	rs->rc = -1;
	rs->ctx_nz = rs->opad_nz = rs->rest_nz = -1;
	rs->size_ret = 0xffffffffu;
	rs->guard_ok = 1;
	if (rq->alg < 0 || rq->alg >= SH_ALG_COUNT || rq->msg_align > 63 ||
	    rq->key_align > 63 || rq->out_align > 15)
		return;
	fam = algs[rq->alg].fam;
	hash = algs[rq->alg].hash;
	rs->hash_size = (uint32_t)hash;
	rs->block_size = (uint32_t)algs[rq->alg].block;
	if (SH_EP_STREAM == rq->entry) {
		if (NULL == h || h->fam != fam || h->hmac != (0 != rq->hmac) || rq->rep < 1)
			return;
		for (i = 0, tot = 0; i < rq->nsplits; i ++)
			tot += rq->splits[i];
		if (tot != rq->msg_len)
			return;
	} else if (SH_IMPL_DEFAULT != rq->impl) {
		return; /* the context of the one-shot calls is not reachable */
	}
	if (0 == ((1u << rq->impl) & sh_impls(rq->alg)))
		return;

	mb.base = kb.base = ob.base = cb.base = NULL;
	if (0 != xb_alloc(&mb, rq->msg_align, rq->msg_len, 0))
		goto out;
	if (0 != rq->msg_len)
		memcpy(mb.p, rq->msg, rq->msg_len);
	key = NULL;
	if (rq->hmac) {
		if (0 != xb_alloc(&kb, rq->key_align, rq->key_len, 0))
			goto out;
		if (0 != rq->key_len)
			memcpy(kb.p, rq->key, rq->key_len);
		key = (0 == rq->key_len && rq->key_null) ? NULL : kb.p;
	}
	out_n = (SH_EP_HEXSTR == rq->entry) ? (hash * 2 + 1) : hash;
	if (0 != xb_alloc(&ob, rq->out_align, out_n, SH_CANARY))
		goto out;
	has_szp = (FAM_SHA2 == fam || FAM_GOST == fam);
	szp = (has_szp && !rq->nosize) ? &szv : NULL;

	if (SH_EP_STREAM != rq->entry) {
		/* "digest of nothing": callers pass (NULL, 0) */
		const uint8_t *mp = (0 == rq->msg_len && rq->null_empty) ? NULL : mb.p;

		if (rq->hmac)
			oneshot_hmac(rq, key, mp, ob.p, szp);
		else
			oneshot_hash(rq, mp, ob.p, szp);
		rs->default_impl = SH_IMPL_DEFAULT;
	} else {
		c = h->mem;
		if (rq->hmac) {
			h_init(rq, key, rq->key_len, c);
			rs->default_impl = x_selected(rq->alg, h_inner(fam, c));
			x_force(rq->alg, h_inner(fam, c), rq->impl);
		} else {
			x_init(rq, c);
			rs->default_impl = x_selected(rq->alg, c);
			x_force(rq->alg, c, rq->impl);
		}
		for (r = 0; r < rq->rep; r ++) {
			for (i = 0, off = 0; i < rq->nsplits; i ++) {
				size_t n = rq->splits[i];
				const uint8_t *p = mb.p + off;

				if (rq->isolate) {
					if (0 != xb_alloc(&cb, rq->msg_align, n, 0))
						goto out;
					if (0 != n)
						memcpy(cb.p, mb.p + off, n);
					p = cb.p;
				}
				if (0 == n && rq->null_empty)
					p = NULL;
				if (rq->hmac)
					h_update(fam, c, p, n);
				else
					x_update(fam, c, p, n);
				if (rq->isolate)
					xb_free(&cb);
				off += n;
				if (!rq->hmac && 0 == r && rq->clone_at == (int32_t)(i + 1) && NULL == clone) {
					/* radius_pkt_attr_password_encode(): memcpy(&ctx_with_key, &ctx, sizeof) */
					clone = ctx_mem(h->size, 0x5A);
					if (NULL == clone)
						goto out;
					memcpy(clone, c, h->size);
					c = clone;
				}
			}
		}
		if (rq->hmac) {
			uint8_t *op;
			size_t on, in_off;
			uint8_t *inner = (uint8_t*)h_inner(fam, c);
			size_t inner_n = ctx_size(fam, 0);

			h_final(fam, c, ob.p, szp);
			h_opad(fam, c, &op, &on);
			rs->ctx_size = (int32_t)inner_n;
			rs->ctx_nz = first_nz(inner, inner_n);
			rs->opad_nz = first_nz(op, on);
			/* bytes that belong to neither member */
			rs->rest_nz = -1;
			in_off = (size_t)(inner - (uint8_t*)c);
			for (i = 0; i < h->size; i ++) {
				const uint8_t *b = ((const uint8_t*)c) + i;

				if ((i >= in_off && i < in_off + inner_n) || (b >= op && b < op + on))
					continue;
				if (0 != (*b)) {
					rs->rest_nz = (int32_t)i;
					break;
				}
			}
		} else {
			x_final(fam, c, ob.p);
			rs->ctx_size = (int32_t)h->size;
			rs->ctx_nz = first_nz((const uint8_t*)c, h->size);
		}
	}
	if (NULL != szp)
		rs->size_ret = (uint32_t)szv;
	if (SH_EP_HEXSTR == rq->entry) {
		memcpy(rs->hex, ob.p, hash * 2 + 1);
		rs->hex_nul_ok = (0 == ob.p[hash * 2]);
		rs->hex[hash * 2] = 0;
	} else {
		memcpy(rs->digest, ob.p, hash);
	}
	rs->guard_ok = xb_canary_ok(&ob, SH_CANARY);
	rs->rc = 0;
out:
	free(clone);
	xb_free(&cb);
	xb_free(&ob);
	xb_free(&kb);
	xb_free(&mb);
}
