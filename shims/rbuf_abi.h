/* Flat ABI between drivers/C19_rbuf.cpp (C++) and shims/rbuf_shim.c (C, includes /repo).
 * Thin pass-through over include/utils/ring_buffer.h: pointers handed out by the library are
 * reported as offsets from r_buf->buf (signed, so that a region outside the ring is visible
 * as such instead of being dereferenced); reader cursors (r_buf_rpos_t) live in the handle. */
#ifndef VERIF_RBUF_ABI_H
#define VERIF_RBUF_ABI_H
#include <stdint.h>
#include <stddef.h>

#ifdef __cplusplus
extern "C" {
#endif

#define SR_READERS 4

typedef struct {
	int64_t off;	/* iov_base - r_buf->buf */
	uint64_t len;
} sr_iov;

typedef struct {
	uint64_t size, wpos, iov_count, iov_index, iov_index_max, round_num, min_block_size, flags;
	int64_t cur_base_off;		/* iov[iov_index].iov_base - buf */
	uint64_t cur_len;		/* iov[iov_index].iov_len */
	struct { uint64_t iov_index, iov_off, round_num; int64_t blk_off; uint64_t blk_len; /* iov[iov_index] */
		uint64_t rest_of_round; /* bytes from the cursor to the end of the block table of the reader's round (iov_index_max) */ } rp[SR_READERS];
} sr_state;

void *sr_alloc(size_t size, size_t min_block, uint64_t round0);
void sr_free(void *h);
uint8_t *sr_base(void *h);	/* ring storage, for filling / byte comparison by the driver */

/* returns available size; *off = returned pointer - buf (INT64_MIN when no pointer was stored) */
size_t sr_wbuf_get(void *h, size_t min_size, int64_t *off);
int sr_wbuf_set(void *h, size_t offset, size_t buf_size);
int sr_wbuf_set2(void *h, size_t buf_off, size_t buf_size, int reader /* -1: NULL rpos */);

int sr_rpos_init(void *h, int reader, size_t data_size);
int sr_rpos_check_fast(void *h, int reader);
size_t sr_avail(void *h, int reader, size_t *drop);
/* iovec array is a heap block of exactly iov_cnt entries; at most out_cap entries are copied to out */
size_t sr_data_get(void *h, int reader, size_t data_size, size_t iov_cnt, sr_iov *out, size_t out_cap,
    size_t *drop, size_t *data_size_ret);
void sr_rpos_inc(void *h, int reader, size_t k);
void sr_state_get(void *h, sr_state *st);
unsigned sr_traps(void);	/* number of SIGTRAPs raised by debug_break() so far */

#ifdef __cplusplus
}
#endif
#endif
