/* internal declarations shared by the tp_*.c harness shims */
#ifndef VERIF_TP_INT_H
#define VERIF_TP_INT_H
#include <stdatomic.h>
#include <stdint.h>
#include <time.h>
#include <sys/timerfd.h>

uint32_t tp_thr_idx(void);
uint32_t tp_log(uint32_t kind, uint64_t a, uint64_t b, uint64_t c, uint64_t d);
void *tp_cur_tpt(void);
void tp_harness_arm(void);
int tp_wait_until(atomic_uint *v, uint32_t target, int ceiling_ms);
uint32_t tp_reap_unjoined(void);
void tp_res_cleanup(void);
void tp_fd_adopt(int fd, uint8_t kind);
extern int g_close_unknown_passthrough;
extern __thread int tp_vp1_pause_us;	/* pause of this thread at scheduling point 1 (tpt_msg_send: after the running test, before the write) */
extern __thread int tp_post_write_pause_us;	/* pause after a successful queue write made by this thread (0 = none) */

typedef struct {
	int enabled;
	uint32_t ep_calls, ep_adds, ep_dels;
	int ep_op, ep_fd;
	uint32_t ep_events;
	uint32_t tfd_creates, tfd_settimes;
	int tfd_clock, tfd_flags, tfd_settime_errno;
	struct itimerspec tfd_spec;
	uint32_t bad_joins;
} tp_capture;
extern tp_capture g_cap;
#endif
