/* C12 capacity-sweep shim: calls one formatter / codec of /repo with one output capacity. */
#include <sys/param.h>
#include <sys/types.h>
#include <inttypes.h>
#include <stdlib.h>
#include <string.h>
#include <errno.h>
#include "utils/num2str.h"
#include "utils/base64.h"
#include "utils/buf_str.h"
#include "caps_abi.h"

static int
call_fmt(int fn, uint64_t bits, void *buf, size_t cap, size_t *ret) {
	switch (fn) {
	case 0: return (usize2str((size_t)bits, (char *)buf, cap, ret));
	case 1: return (usize2ustr((size_t)bits, (uint8_t *)buf, cap, ret));
	case 2: return (u82str((uint8_t)bits, (char *)buf, cap, ret));
	case 3: return (u82ustr((uint8_t)bits, (uint8_t *)buf, cap, ret));
	case 4: return (u162str((uint16_t)bits, (char *)buf, cap, ret));
	case 5: return (u162ustr((uint16_t)bits, (uint8_t *)buf, cap, ret));
	case 6: return (u322str((uint32_t)bits, (char *)buf, cap, ret));
	case 7: return (u322ustr((uint32_t)bits, (uint8_t *)buf, cap, ret));
	case 8: return (u642str((uint64_t)bits, (char *)buf, cap, ret));
	case 9: return (u642ustr((uint64_t)bits, (uint8_t *)buf, cap, ret));
	case 10: return (ssize2str((ssize_t)bits, (char *)buf, cap, ret));
	case 11: return (ssize2ustr((ssize_t)bits, (uint8_t *)buf, cap, ret));
	case 12: return (s82str((int8_t)bits, (char *)buf, cap, ret));
	case 13: return (s82ustr((int8_t)bits, (uint8_t *)buf, cap, ret));
	case 14: return (s162str((int16_t)bits, (char *)buf, cap, ret));
	case 15: return (s162ustr((int16_t)bits, (uint8_t *)buf, cap, ret));
	case 16: return (s322str((int32_t)bits, (char *)buf, cap, ret));
	case 17: return (s322ustr((int32_t)bits, (uint8_t *)buf, cap, ret));
	case 18: return (s642str((int64_t)bits, (char *)buf, cap, ret));
	default: return (s642ustr((int64_t)bits, (uint8_t *)buf, cap, ret));
	}
}

void
caps_call(int family, int fn, uint64_t bits, const uint8_t *in, uint64_t in_len, uint64_t cap,
    int mode, caps_res_t *rs) {
	uint8_t *blk, *buf, *src;
	size_t ret = (size_t)CAPS_SENT, i;

	memset(rs, 0, sizeof(*rs));
	src = (uint8_t *)malloc(in_len ? in_len : 1);
	if (in_len)
		memcpy(src, in, in_len);
	if (0 == mode) {
		blk = (uint8_t *)malloc(cap + 2 * CAPS_GUARD);
		memset(blk, 0xC5, cap + 2 * CAPS_GUARD);
		buf = blk + CAPS_GUARD;
	} else {
		blk = (uint8_t *)malloc(cap ? cap : 1);
		buf = blk;
	}
	memset(buf, CAPS_FILL, cap);
	switch (family) {
	case CAPS_NUM: rs->rc = call_fmt(fn, bits, buf, cap, &ret); break;
	case CAPS_B64_ENC: rs->rc = base64_encode(src, in_len, buf, cap, &ret); break;
	case CAPS_B64_DEC: rs->rc = base64_decode(src, in_len, buf, cap, &ret); break;
	case CAPS_B64_FMT: rs->rc = base64_decode_fmt(src, in_len, buf, cap, &ret); break;
	case CAPS_HEX2BIN: rs->rc = cvt_hex2bin(src, in_len, fn, buf, cap, &ret); break;
	case CAPS_BIN2HEX: rs->rc = cvt_bin2hex(src, in_len, fn, buf, cap, &ret); break;
	default: rs->rc = -9999; break;
	}
	rs->size_ret = (uint64_t)ret;
	if (0 == mode) {
		for (i = 0; i < CAPS_GUARD; i ++) {
			if (0xC5 != blk[i])
				rs->under ++;
			if (0xC5 != blk[CAPS_GUARD + cap + i])
				rs->over ++;
		}
	}
	rs->out_len = (uint32_t)(cap < CAPS_MAXOUT ? cap : CAPS_MAXOUT);
	memcpy(rs->out, buf, rs->out_len);
	free(blk);
	free(src);
}
