/* Thread-pool harness: scenario executors for C05 (unicast messages) and C10
 * (broadcasts). Every callback appends to the history log; the C++ drivers
 * evaluate the invariants over the log. */
#define _GNU_SOURCE
#include <sys/param.h>
#include <sys/types.h>
#include <errno.h>
#include <fcntl.h>
#include <pthread.h>
#include <signal.h>
#include <stdatomic.h>
#include <stdint.h>
#include <stdio.h>
#include <stdlib.h>
#include <string.h>
#include <unistd.h>

#include "threadpool/threadpool.h"
#include "threadpool/threadpool_msg_sys.h"
#include "tp_abi.h"
#include "tp_int.h"

#define CEIL_MS 20000

static void __attribute__((noinline))
scribble_stack(void) {
	volatile uint8_t area[16 * 1024];
	size_t i;

	for (i = 0; i < sizeof(area); i ++)
		area[i] = 0xa5;
}

static uint8_t g_pool_flags_next;	/* settings flags of the next pool_make*() (bit0 BIND2CPU, bit1 CLOEXEC) */
static atomic_uint g_start_hooks;
static void hook_start(tpt_p tpt) { tp_log(R_HOOK_START, (uint64_t)(uintptr_t)tpt, tpt_get_num(tpt), 0, 0); atomic_fetch_add(&g_start_hooks, 1); }
static atomic_uint g_stop_hooks;
static void hook_stop(tpt_p tpt) { tp_log(R_HOOK_STOP, (uint64_t)(uintptr_t)tpt, tpt_get_num(tpt), 0, 0); atomic_fetch_add(&g_stop_hooks, 1); }

/* stop_mask: threads whose pthread_create() is made to fail (ENOMEM), i.e. never started */
static int
pool_make_ex(uint8_t nthreads, uint8_t skip_first, uint16_t stop_mask, const tp_plans *plans, tp_p *ptp, uint64_t *tpt_ptr) {
	tp_settings_t s;
	tp_plans cp;
	int rc;
	size_t i;
	uint32_t k = 0;

	atomic_store(&g_start_hooks, 0);
	memset(&cp, 0, sizeof(cp));
	for (i = (skip_first ? 1 : 0); i < nthreads; i ++) {
		k ++;
		if (0 != (stop_mask & (1u << i)) && cp.nfaults < TP_FAULT_MAX) {
			cp.faults[cp.nfaults].fn = F_PTHREAD_CREATE;
			cp.faults[cp.nfaults].k = k;
			cp.faults[cp.nfaults].err = ENOMEM;
			cp.nfaults ++;
		}
	}
	tp_harness_reset(&cp);

	tp_settings_def(&s);
	s.flags = ((g_pool_flags_next & 1) ? TP_S_F_BIND2CPU : 0) | ((g_pool_flags_next & 2) ? TP_S_F_CLOEXEC : 0);
	g_pool_flags_next = 0;
	s.threads_max = nthreads;
	s.tpt_on_start = hook_start;
	s.tpt_on_stop = hook_stop;
	rc = tp_create(&s, ptp);
	if (0 != rc)
		return (rc);
	tp_harness_arm();
	rc = tp_threads_create(*ptp, skip_first);
	tp_harness_disarm();
	/* every started thread logs its start hook: wait for them, the log is cleared next and a late
	 * writer would tear a record of the scenario proper */
	{
		uint32_t started = 1; /* virtual thread */
		for (i = 0; i < nthreads; i ++) {
			if (tpt_is_running(tp_thread_get(*ptp, i)))
				started ++;
		}
		tp_wait_until(&g_start_hooks, started, CEIL_MS);
	}
	tp_harness_reset(plans);
	if (0 != rc)
		return (rc);
	for (i = 0; i < 17; i ++)
		tpt_ptr[i] = 0;
	for (i = 0; i < nthreads; i ++)
		tpt_ptr[i] = (uint64_t)(uintptr_t)tp_thread_get(*ptp, i);
	tpt_ptr[16] = (uint64_t)(uintptr_t)tp_thread_get_pvt(*ptp);
	return (0);
}

static int
pool_make(uint8_t nthreads, uint8_t skip_first, const tp_plans *plans, tp_p *ptp, uint64_t *tpt_ptr) {
	return (pool_make_ex(nthreads, skip_first, 0, plans, ptp, tpt_ptr));
}

/* fence: one message through every running thread's own queue */
static atomic_uint g_fence;
static void fence_cb(tpt_p tpt, void *udata) { (void)tpt; (void)udata; atomic_fetch_add(&g_fence, 1); }

static int
fence_dst(tpt_p dst) {
	int rc, tries = 0;
	uint32_t want = atomic_load(&g_fence) + 1;

	for (;;) {
		rc = tpt_msg_send(dst, NULL, 0, fence_cb, NULL);
		if (0 == rc)
			break;
		if (EHOSTDOWN == rc)
			return (0); /* not running: nothing queued there */
		if (++ tries > CEIL_MS * 5)
			return (1);
		usleep(200);
	}
	return (tp_wait_until(&g_fence, want, CEIL_MS));
}

static int
fence_all(tp_p tp, uint8_t nthreads, int with_pvt) {
	int hang = 0;
	size_t i;

	if (with_pvt && tp_thread_count_get(tp) > 0)
		hang |= fence_dst(tp_thread_get_pvt(tp));
	for (i = 0; i < nthreads; i ++) {
		if (0 == tpt_is_running(tp_thread_get(tp, i)))
			continue;
		hang |= fence_dst(tp_thread_get(tp, i));
	}
	return (hang);
}

static void
pool_teardown(tp_p tp, tp_res_stats *res) {
	tp_shutdown(tp);
	tp_shutdown_wait(tp);
	tp_destroy(tp);
	tp_res_get(res);
	tp_res_cleanup();
}

/* ============================== C05 ============================== */
typedef struct {
	uint32_t id;
	atomic_uint cb_count;
} send_slot;
#define C05_SLOTS (C05_MAX_SENDERS * C05_MAX_SENDS + 4096 + 2048 + 256 + 8)
static send_slot slots[C05_SLOTS];

static const c05_scn *g5;
static tp_p g5_tp;
static atomic_uint g5_go, g5_done, g5_stall_in, g5_stall_release, g5_stall_shutdown_by_self;

static uint32_t g5_nested_id = UINT32_MAX;
static atomic_uint g5_nested_done;
static void c05_noop_cb(tpt_p tpt, void *udata) { (void)tpt; (void)udata; }
static void
c05_cb(tpt_p tpt, void *udata) {
	send_slot *s = udata;

	tp_log(R_CB, s->id, (uint64_t)(uintptr_t)tpt, 0, 0);
	atomic_fetch_add(&s->cb_count, 1);
	if (s->id == g5_nested_id && tpt_get_current() == tpt && 0 == atomic_exchange(&g5_nested_done, 1)) {
		/* a message handler that synchronises with the other threads: the rest of this thread's batch and of its queue must
		 * still run afterwards, in order, on this thread */
		size_t sent = 0, failed = 0;
		(void)tpt_msg_bsend_ex(g5_tp, NULL, (TP_BMSG_F_SYNC | TP_BMSG_F_SELF_SKIP), c05_noop_cb, NULL, &sent, &failed);
		atomic_store(&g5_nested_done, 2);
	}
}

/* a message whose argument is the address of its own callback: packet checksum (cb ^ udata) is 0 */
static uint32_t g5_selfarg_id = UINT32_MAX;
static void
c05_selfarg_cb(tpt_p tpt, void *udata) {
	if (udata == (void *)c05_selfarg_cb && UINT32_MAX != g5_selfarg_id) {
		tp_log(R_CB, g5_selfarg_id, (uint64_t)(uintptr_t)tpt, 0, 0);
		atomic_fetch_add(&slots[g5_selfarg_id].cb_count, 1);
	} else
		tp_log(R_CB, 0xfffffff0u, (uint64_t)(uintptr_t)tpt, 0, 0); /* wrong argument delivered */
}

static tpt_p
c05_dst(uint8_t d) {
	if (255 == d)
		return (tp_thread_get_pvt(g5_tp));
	return (tp_thread_get(g5_tp, d % g5->nthreads));
}

static void
c05_program(size_t sidx) {
	const c05_sender *sn = &g5->senders[sidx];
	uint32_t base = (uint32_t)(sidx * C05_MAX_SENDS), i, id;
	tpt_p src;
	int rc;

	while (0 == atomic_load(&g5_go))
		sched_yield();
	for (i = 0; i < sn->nsends; i ++) {
		id = base + i;
		src = (sn->sends[i].src_own && sn->in_pool) ? tpt_get_current() : NULL;
		tp_log(R_SEND_CALL, id, 0, 0, 0);
		if (0 == sidx && 0 == i && g5->selfarg) {
			g5_selfarg_id = id;
			rc = tpt_msg_send(c05_dst(sn->sends[i].dst), src, sn->sends[i].flags & 7, c05_selfarg_cb, (void *)c05_selfarg_cb);
		} else
			rc = tpt_msg_send(c05_dst(sn->sends[i].dst), src, sn->sends[i].flags & 7, c05_cb, &slots[id]);
		tp_log(R_SEND_RET, id, (uint64_t)(int64_t)rc, 0, 0);
	}
	atomic_fetch_add(&g5_done, 1);
}
static void *c05_ext_thread(void *arg) { c05_program((size_t)(uintptr_t)arg); return (NULL); }
static void c05_pool_sender_cb(tpt_p tpt, void *udata) { (void)tpt; c05_program((size_t)(uintptr_t)udata); }

static void
c05_stall_cb(tpt_p tpt, void *udata) {
	int waited = 0;

	(void)tpt; (void)udata;
	atomic_fetch_add(&g5_stall_in, 1);
	while (0 == atomic_load(&g5_stall_release) && waited < CEIL_MS * 10) {
		usleep(100);
		waited ++;
	}
	if (0 != atomic_load(&g5_stall_shutdown_by_self)) {
		tp_shutdown(g5_tp); /* a quit handler running on a pool thread: what is already queued to it was accepted before */
		atomic_store(&g5_stall_shutdown_by_self, 2);
	}
}

/* pipes registered on the virtual thread (pvt_sources phase): the callback drains its pipe */
static tp_udata_t g5_pvt_ud[16];
static atomic_uint g5_pvt_pipe_cbs;
static void
c05_pvt_pipe_cb(tp_event_p ev, tp_udata_p ud) {
	char b[8];
	(void)ev;
	(void)!read((int)ud->ident, b, sizeof(b));
	atomic_fetch_add(&g5_pvt_pipe_cbs, 1);
}

/* async-operation helpers */
static atomic_uint g5_aop_step;
static uint32_t g5_aop_cur;
static tpt_msg_async_op_p g5_aop[8];
static void
c05_aop_result_cb(tpt_p tpt, void **udata) {
	/* R_EV_CB reused: a = operation index, b = tpt argument */
	tp_log(R_EV_CB, (uint64_t)(uintptr_t)udata[0], (uint64_t)(uintptr_t)tpt, (uint64_t)(uintptr_t)udata[1], 0);
}
static void
c05_aop_alloc_cb(tpt_p tpt, void *udata) {
	uint32_t b = g5_aop_cur;
	tpt_p dst = (255 == g5->aop[b].dst) ? NULL : tp_thread_get(g5_tp, g5->aop[b].dst % g5->nthreads);

	(void)tpt; (void)udata;
	g5_aop[b] = tpt_msg_async_op_alloc(dst, c05_aop_result_cb);
	tpt_msg_async_op_udata_set(g5_aop[b], 0, (void *)(uintptr_t)b);
	tpt_msg_async_op_udata_set(g5_aop[b], 1, (void *)(uintptr_t)(0xa0b0 + b));
	atomic_fetch_add(&g5_aop_step, 1);
}
static void
c05_aop_free_cb(tpt_p tpt, void *udata) {
	uint32_t b = g5_aop_cur;

	(void)tpt; (void)udata;
	tpt_msg_async_op_cb_free(g5_aop[b], NULL);
	g5_aop[b] = NULL;
	atomic_fetch_add(&g5_aop_step, 1);
}

static uint32_t g5_self_base;
/* runs as the last message of the late burst, i.e. after this thread has processed its stop message: two sends to itself */
static void
c05_late_self_cb(tpt_p tpt, void *udata) {
	send_slot *s = udata;
	uint32_t k, id;
	int rc;

	tp_log(R_CB, s->id, (uint64_t)(uintptr_t)tpt, 0, 0);
	atomic_fetch_add(&s->cb_count, 1);
	for (k = 0; k < 2; k ++) {
		id = g5_self_base + k;
		tp_log(R_SEND_CALL, id, 0, 0, 0);
		rc = tpt_msg_send(tpt, ((k & 1) ? tpt : NULL), ((k & 1) ? TP_MSG_F_FORCE : 0), c05_cb, &slots[id]);
		tp_log(R_SEND_RET, id, (uint64_t)(int64_t)rc, 0, 0);
	}
}

static uint32_t g5_race_base;
static atomic_uint g5_race_sent;
static void *
c05_race_thread(void *arg) {
	tpt_p dst = tp_thread_get(g5_tp, g5->race_dst % g5->nthreads);
	uint32_t i, id;
	int rc;

	(void)arg;
	for (i = 0; i < g5->race_n; i ++) {
		id = g5_race_base + i;
		tp_post_write_pause_us = (i & 1) ? 300 : 0;
		/* the send that starts when the main thread is about to call tp_shutdown() is held between the library's look at
		 * the destination state and its queue write (race_flags bit 3 selects this) */
		tp_vp1_pause_us = (0 != (g5->race_flags & 8) && i == (uint32_t)(g5->race_n / 3)) ? 3000 : 0;
		tp_log(R_SEND_CALL, id, 0, 0, 0);
		rc = tpt_msg_send(dst, NULL, g5->race_flags & 7, c05_cb, &slots[id]);
		tp_log(R_SEND_RET, id, (uint64_t)(int64_t)rc, 0, 0);
		atomic_fetch_add(&g5_race_sent, 1);
	}
	tp_post_write_pause_us = 0;
	tp_vp1_pause_us = 0;
	return (NULL);
}

void
c05_run(const c05_scn *scn, c05_out *out) {
	pthread_t ext[C05_MAX_SENDERS];
	int ext_used[C05_MAX_SENDERS], rc;
	size_t i, total;
	uint32_t id, b;

	memset(out, 0, sizeof(*out));
	memset(ext_used, 0, sizeof(ext_used));
	g5 = scn;
	g5_selfarg_id = UINT32_MAX;
	g5_nested_id = UINT32_MAX;
	atomic_store(&g5_nested_done, 0);
	tp_harness_reset(&scn->plans);
	for (i = 0; i < C05_SLOTS; i ++) {
		slots[i].id = (uint32_t)i;
		atomic_store(&slots[i].cb_count, 0);
	}
	atomic_store(&g5_go, 0);
	atomic_store(&g5_done, 0);
	atomic_store(&g5_stall_in, 0);
	atomic_store(&g5_stall_release, 0);
	atomic_store(&g5_stall_shutdown_by_self, 0);
	atomic_store(&g_fence, 0);
	atomic_store(&g_stop_hooks, 0);

	g_pool_flags_next = scn->pool_flags;
	out->setup_rc = pool_make(scn->nthreads, scn->skip_first, &scn->plans, &g5_tp, out->tpt_ptr);
	if (0 != out->setup_rc)
		return;

	/* optional stall of one destination so that its queue really fills up */
	total = (size_t)scn->nsenders * C05_MAX_SENDS;
	if (255 != scn->stall_dst && tpt_is_running(c05_dst(scn->stall_dst))) {
		if (0 == tpt_msg_send(c05_dst(scn->stall_dst), NULL, 0, c05_stall_cb, NULL)) {
			int w = 0;
			while (0 == atomic_load(&g5_stall_in) && w < CEIL_MS * 10) {
				usleep(100);
				w ++;
			}
		}
	}
	/* start senders (they spin on g5_go) */
	for (i = 0; i < scn->nsenders; i ++) {
		const c05_sender *sn = &scn->senders[i];
		int in_pool = sn->in_pool && tpt_is_running(tp_thread_get(g5_tp, sn->pool_idx % scn->nthreads));
		if (in_pool && 0 == tpt_msg_send(tp_thread_get(g5_tp, sn->pool_idx % scn->nthreads), NULL, 0,
		    c05_pool_sender_cb, (void *)(uintptr_t)i))
			continue;
		if (0 == pthread_create(&ext[i], NULL, c05_ext_thread, (void *)(uintptr_t)i))
			ext_used[i] = 1;
		else
			atomic_fetch_add(&g5_done, 1);
	}
	tp_harness_arm();
	atomic_store(&g5_go, 1);
	if (255 != scn->stall_dst) {
		if (scn->nested_sync && scn->nthreads >= 2)
			g5_nested_id = (uint32_t)total;
		for (b = 0; b < scn->burst && b < 4096; b ++) {
			id = (uint32_t)(total + b);
			tp_log(R_SEND_CALL, id, 0, 0, 0);
			rc = tpt_msg_send(c05_dst(scn->stall_dst), NULL, scn->burst_flags & 7, c05_cb, &slots[id]);
			tp_log(R_SEND_RET, id, (uint64_t)(int64_t)rc, 0, 0);
		}
		out->nsends = (uint32_t)(total + b);
	} else {
		out->nsends = (uint32_t)total;
	}
	atomic_store(&g5_stall_release, 1);
	out->hang |= tp_wait_until(&g5_done, scn->nsenders, CEIL_MS);
	for (i = 0; i < scn->nsenders; i ++) {
		if (ext_used[i])
			pthread_join(ext[i], NULL);
	}
	tp_harness_disarm();
	/* fences: pvt queue first (FIFO behind every accepted pvt message), then every thread, twice */
	out->hang |= fence_all(g5_tp, scn->nthreads, 1);
	out->hang |= fence_all(g5_tp, scn->nthreads, 1);
	tp_log(R_MARK, 1, 0, 0, 0);
	/* event sources on the virtual thread compete with its message queue */
	if (scn->pvt_sources && 0 == out->hang && 0 == scn->skip_first) {
		int pp[16][2], np = 0, w = 0;
		tpt_p pvt = tp_thread_get_pvt(g5_tp);
		uint32_t k;
		atomic_store(&g5_stall_in, 0);
		atomic_store(&g5_stall_release, 0);
		atomic_store(&g5_pvt_pipe_cbs, 0);
		for (k = 0; k < scn->nthreads && k < 16; k ++) {
			if (0 != pipe2(pp[k], O_NONBLOCK | O_CLOEXEC))
				break;
			memset(&g5_pvt_ud[k], 0, sizeof(tp_udata_t));
			g5_pvt_ud[k].cb_func = c05_pvt_pipe_cb;
			g5_pvt_ud[k].ident = (uintptr_t)pp[k][0];
			if (0 != tpt_ev_add_args(pvt, TP_EV_READ, 0, 0, 0, &g5_pvt_ud[k])) {
				close(pp[k][0]); close(pp[k][1]);
				break;
			}
			np ++;
		}
		for (k = 0; k < scn->nthreads; k ++)
			(void)tpt_msg_send(tp_thread_get(g5_tp, k), NULL, 0, c05_stall_cb, NULL);
		while (atomic_load(&g5_stall_in) < scn->nthreads && w < CEIL_MS * 10) {
			usleep(100);
			w ++;
		}
		for (k = 0; k < (uint32_t)np; k ++)
			(void)!write(pp[k][1], "p", 1);
		id = out->nsends;
		tp_log(R_SEND_CALL, id, 0, 0, 0);
		rc = tpt_msg_send(pvt, NULL, 0, c05_cb, &slots[id]);
		tp_log(R_SEND_RET, id, (uint64_t)(int64_t)rc, 0, 0);
		out->npvt_msg = 1;
		out->nsends ++;
		atomic_store(&g5_stall_release, 1);
		out->hang |= fence_all(g5_tp, scn->nthreads, 1);
		out->hang |= fence_all(g5_tp, scn->nthreads, 1);
		usleep(3000);
		out->hang |= fence_all(g5_tp, scn->nthreads, 0);
		out->pvt_pipe_cbs = atomic_load(&g5_pvt_pipe_cbs);
		for (k = 0; k < (uint32_t)np; k ++) {
			tpt_ev_del_args1(TP_EV_READ, &g5_pvt_ud[k]);
			close(pp[k][0]);
			close(pp[k][1]);
		}
		atomic_store(&g5_stall_in, 0);
	}
	/* async-operation helpers: allocated on one thread (or outside), completed on another; the result callback must run
	 * exactly once on the destination given at allocation (NULL = the allocating thread) */
	if (0 != scn->naops && 0 == out->hang) {
		atomic_store(&g5_aop_step, 0);
		for (b = 0; b < scn->naops && b < 8; b ++) {
			uint32_t want;
			g5_aop_cur = b;
			want = atomic_load(&g5_aop_step) + 1;
			if (255 == scn->aop[b].alloc_on)
				c05_aop_alloc_cb(NULL, NULL);
			else if (0 != tpt_msg_send(tp_thread_get(g5_tp, scn->aop[b].alloc_on % scn->nthreads), NULL, 0, c05_aop_alloc_cb, NULL))
				continue;
			out->hang |= tp_wait_until(&g5_aop_step, want, CEIL_MS);
			want = atomic_load(&g5_aop_step) + 1;
			if (255 == scn->aop[b].free_on)
				c05_aop_free_cb(NULL, NULL);
			else if (0 != tpt_msg_send(tp_thread_get(g5_tp, scn->aop[b].free_on % scn->nthreads), NULL, 0, c05_aop_free_cb, NULL)) {
				c05_aop_free_cb(NULL, NULL);
			}
			out->hang |= tp_wait_until(&g5_aop_step, want, CEIL_MS);
			out->naop_done ++;
		}
		out->hang |= fence_all(g5_tp, scn->nthreads, 1);
	}
	/* late burst: messages accepted by a running thread after tp_shutdown() was called but before the thread has seen
	 * its stop message are still successful sends; the thread is held in a callback while they are queued */
	if (0 != scn->late_burst && 0 == out->hang) {
		tpt_p dst = tp_thread_get(g5_tp, scn->late_dst % scn->nthreads);
		atomic_store(&g5_stall_in, 0);
		atomic_store(&g5_stall_release, 0);
		if (tpt_is_running(dst) && 0 == tpt_msg_send(dst, NULL, 0, c05_stall_cb, NULL)) {
			int w = 0;
			while (0 == atomic_load(&g5_stall_in) && w < CEIL_MS * 10) {
				usleep(100);
				w ++;
			}
			if (0 != atomic_load(&g5_stall_in)) {
				if (scn->late_by_self)
					atomic_store(&g5_stall_shutdown_by_self, 1); /* the held thread shuts the pool down itself, after the burst */
				else
					tp_shutdown(g5_tp);
				for (b = 0; b < scn->late_burst && b < 2000; b ++) {
					id = out->nsends + b;
					tp_log(R_SEND_CALL, id, 0, 0, 0);
					g5_self_base = out->nsends + scn->late_burst;
					rc = tpt_msg_send(dst, NULL, 0,
					    ((scn->late_self && b + 1 == scn->late_burst) ? c05_late_self_cb : c05_cb), &slots[id]);
					tp_log(R_SEND_RET, id, (uint64_t)(int64_t)rc, 0, 0);
				}
				out->nlate = b;
				out->nsends += b;
				if (scn->late_self) {
					out->nself = 2;
					out->nsends += 2;
				}
			}
			atomic_store(&g5_stall_release, 1);
			if (1 == atomic_load(&g5_stall_shutdown_by_self)) { /* the held thread must be the one that shuts the pool down */
				int w2 = 0;
				while (2 != atomic_load(&g5_stall_shutdown_by_self) && w2 < CEIL_MS * 10) {
					usleep(100);
					w2 ++;
				}
			}
		}
	}
	else if (0 != scn->race_n && 0 == out->hang && tpt_is_running(tp_thread_get(g5_tp, scn->race_dst % scn->nthreads))) {
		pthread_t rt;
		g5_race_base = out->nsends;
		atomic_store(&g5_race_sent, 0);
		if (0 == pthread_create(&rt, NULL, c05_race_thread, NULL)) {
			int w = 0;
			while (atomic_load(&g5_race_sent) < (uint32_t)(scn->race_n / 3) && w < CEIL_MS * 10) {
				usleep(50);
				w ++;
			}
			tp_shutdown(g5_tp);
			pthread_join(rt, NULL);
			out->nrace = scn->race_n;
			out->nsends += scn->race_n;
		}
	}
	pool_teardown(g5_tp, &out->res);
}

/* ============================== C10 ============================== */
static const c10_scn *g10;
static tp_p g10_tp, g10_tp2;
static atomic_uint g10_go, g10_called, g10_done_cbs;
static struct { uint32_t id; uint16_t cb_usec; } bslot[C10_MAX_BCASTS];

static void
c10_cb(tpt_p tpt, void *udata) {
	uint32_t id = *(uint32_t *)udata;

	tp_log(R_BCAST_CB, id, (uint64_t)(uintptr_t)tpt, 0, 0);
	if (0 != bslot[id].cb_usec)
		usleep(bslot[id].cb_usec);
	tp_log(R_BCAST_CB_END, id, (uint64_t)(uintptr_t)tpt, 0, 0);
}
static void
c10_done(tpt_p tpt, size_t send_msg_cnt, size_t error_cnt, void *udata) {
	uint32_t id = *(uint32_t *)udata;

	tp_log(R_BCAST_DONE, id, (uint64_t)(uintptr_t)tpt, send_msg_cnt, error_cnt);
	atomic_fetch_add(&g10_done_cbs, 1);
}

static void __attribute__((noinline))
c10_call_deep(size_t bi, int depth) {
	const c10_bcast *b = &g10->b[bi];
	volatile uint8_t pad[256];
	size_t sent = (size_t)-1, failed = (size_t)-1;
	tpt_p src;
	int rc;

	pad[0] = (uint8_t)depth;
	if (depth > 0) {
		c10_call_deep(bi, depth - 1);
		pad[1] = pad[0];
		return;
	}
	src = (b->src_own && b->in_pool) ? tpt_get_current() : NULL; /* in_pool 2: the other pool's thread object */
	tp_log(R_BCAST_CALL, bi, 0, 0, 0);
	if (0 == b->api) {
		rc = tpt_msg_bsend_ex(g10_tp, src, b->flags, c10_cb, &bslot[bi].id, &sent, &failed);
		tp_log(R_BCAST_RET, bi, (uint64_t)(int64_t)rc, sent, failed);
	} else {
		rc = tpt_msg_cbsend(g10_tp, src, b->flags, c10_cb, &bslot[bi].id, c10_done);
		tp_log(R_BCAST_RET, bi, (uint64_t)(int64_t)rc, 0, 0);
	}
}
static void
c10_program(size_t bi) {
	while (0 == atomic_load(&g10_go))
		sched_yield();
	c10_call_deep(bi, 3);
	/* the frames that held tpt_msg_bsend_ex()'s local record are dead now: overwrite them */
	scribble_stack();
	atomic_fetch_add(&g10_called, 1);
}
static void *c10_ext_thread(void *arg) { c10_program((size_t)(uintptr_t)arg); return (NULL); }
/* signal storm against the external callers: a handled signal interrupts whatever sleep the library is in */
static void c10_sig_noop(int s) { (void)s; }
static pthread_t g10_ext_thr[C10_MAX_BCASTS];
static atomic_int g10_ext_live[C10_MAX_BCASTS];
static atomic_int g10_sig_run;
static void *
c10_sig_thread(void *arg) {
	size_t i;
	(void)arg;
	while (0 != atomic_load(&g10_sig_run)) {
		for (i = 0; i < C10_MAX_BCASTS; i ++) {
			if (0 != atomic_load(&g10_ext_live[i]))
				pthread_kill(g10_ext_thr[i], SIGUSR1);
		}
		usleep(400);
	}
	return (NULL);
}
static void c10_pool_caller_cb(tpt_p tpt, void *udata) { (void)tpt; c10_program((size_t)(uintptr_t)udata); }

void
c10_run(const c10_scn *scn, c10_out *out) {
	pthread_t ext[C10_MAX_BCASTS];
	int ext_used[C10_MAX_BCASTS];
	size_t i;
	uint32_t expect_done = 0, k;
	int need_foreign = 0;
	pthread_t sig_thr;

	memset(out, 0, sizeof(*out));
	memset(ext_used, 0, sizeof(ext_used));
	g10 = scn;
	g10_tp2 = NULL;
	tp_harness_reset(&scn->plans);
	atomic_store(&g10_go, 0);
	atomic_store(&g10_called, 0);
	atomic_store(&g10_done_cbs, 0);
	atomic_store(&g_fence, 0);
	atomic_store(&g_stop_hooks, 0);
	for (i = 0; i < C10_MAX_BCASTS; i ++) {
		bslot[i].id = (uint32_t)i;
		bslot[i].cb_usec = scn->b[i].cb_usec;
	}
	g_pool_flags_next = scn->pool_flags;
	out->setup_rc = pool_make_ex(scn->nthreads, scn->skip_first, scn->detach_mask, &scn->plans, &g10_tp, out->tpt_ptr);
	if (0 != out->setup_rc)
		return;
	for (i = 0; i < scn->nthreads; i ++) {
		if (tpt_is_running(tp_thread_get(g10_tp, i)))
			out->running_mask |= (uint16_t)(1u << i);
	}
	for (i = 0; i < scn->nbcasts; i ++) {
		if (2 == scn->b[i].in_pool)
			need_foreign = 1;
	}
	if (need_foreign) { /* a second, unrelated one-thread pool whose thread acts as caller */
		tp_settings_t s2;
		tp_settings_def(&s2);
		s2.flags = 0;
		s2.threads_max = 1;
		if (0 == tp_create(&s2, &g10_tp2))
			tp_threads_create(g10_tp2, 0);
		else
			g10_tp2 = NULL;
	}
	for (i = 0; i < scn->nbcasts; i ++) {
		const c10_bcast *b = &scn->b[i];
		int in_pool = (1 == b->in_pool) && (out->running_mask & (1u << (b->pool_idx % scn->nthreads)));
		if (2 == b->in_pool && NULL != g10_tp2 && 0 == tpt_msg_send(tp_thread_get(g10_tp2, 0), NULL, 0,
		    c10_pool_caller_cb, (void *)(uintptr_t)i))
			continue;
		if (in_pool && 0 == tpt_msg_send(tp_thread_get(g10_tp, b->pool_idx % scn->nthreads), NULL, 0,
		    c10_pool_caller_cb, (void *)(uintptr_t)i))
			continue;
		if (0 == pthread_create(&ext[i], NULL, c10_ext_thread, (void *)(uintptr_t)i)) {
			ext_used[i] = 1;
			g10_ext_thr[i] = ext[i];
			atomic_store(&g10_ext_live[i], 1);
		} else
			atomic_fetch_add(&g10_called, 1);
	}
	if (scn->signals) {
		struct sigaction sa;
		memset(&sa, 0, sizeof(sa));
		sa.sa_handler = c10_sig_noop;
		sa.sa_flags = SA_RESTART;
		sigaction(SIGUSR1, &sa, NULL);
		atomic_store(&g10_sig_run, 1);
		if (0 != pthread_create(&sig_thr, NULL, c10_sig_thread, NULL))
			atomic_store(&g10_sig_run, 0);
	}
	tp_harness_arm();
	atomic_store(&g10_go, 1);
	out->hang |= tp_wait_until(&g10_called, scn->nbcasts, CEIL_MS);
	if (0 != atomic_load(&g10_sig_run)) {
		atomic_store(&g10_sig_run, 0);
		pthread_join(sig_thr, NULL);
	}
	for (i = 0; i < scn->nbcasts; i ++) {
		atomic_store(&g10_ext_live[i], 0);
		if (ext_used[i])
			pthread_join(ext[i], NULL);
	}
	tp_harness_disarm();
	/* completion callbacks of every accepted cbsend */
	for (k = 0; k < tp_log_count(); k ++) {
		if (R_BCAST_RET == tp_log_buf[k].kind && 1 == scn->b[tp_log_buf[k].a].api && 0 == tp_log_buf[k].b)
			expect_done ++;
	}
	out->hang |= tp_wait_until(&g10_done_cbs, expect_done, CEIL_MS);
	out->hang |= fence_all(g10_tp, scn->nthreads, 0);
	out->hang |= fence_all(g10_tp, scn->nthreads, 0);
	tp_log(R_MARK, 1, 0, 0, 0);
	if (NULL != g10_tp2) {
		tp_shutdown(g10_tp2);
		tp_shutdown_wait(g10_tp2);
		tp_destroy(g10_tp2);
		g10_tp2 = NULL;
	}
	pool_teardown(g10_tp, &out->res);
}
