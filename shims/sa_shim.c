/* C shim over /repo/include/net/socket_address.h and net/utils.h for
 * drivers/C18_sa.cpp. Linked with repo:src/net/socket_address.c and
 * repo:src/net/utils.c, rebuilt per build variant.
 *
 * Output buffers: [SAS_GUARD guard bytes][cap bytes][SAS_GUARD guard bytes] on
 * the heap; the guards are compared after the call, so a write outside the
 * caller's capacity is a deterministic verdict in every variant (and the guard
 * area absorbs it instead of corrupting the driver).
 * Input text: exact-size heap copy without a terminating NUL, so that an
 * over-read is visible in the ASan variant. */
#include <sys/param.h>
#include <sys/types.h>
#include <sys/socket.h>
#include <sys/un.h>
#include <netinet/in.h>
#include <stdint.h>
#include <stdlib.h>
#include <string.h>
#include <errno.h>

#include <net/socket_address.h>
#include <net/utils.h>
#include "sa_abi.h"

static uint8_t sas_dummy[1];

long
sas_info(int what) {
	switch (what) {
	case 0: return ((long)STR_ADDR_LEN);
	case 1: return ((long)sizeof(struct sockaddr_storage));
	case 2: return ((long)sizeof(((struct sockaddr_un*)0)->sun_path));
	}
	return (-1);
}

void
sas_to_str(int with_port, const void *ss, size_t cap, int pass_size_ret, sas_out *o) {
	struct sockaddr_storage a;
	uint8_t *blk, *buf;
	size_t i, tot = (SAS_GUARD + cap + SAS_GUARD);
	size_t sr = SAS_UNSET;

	memset(o, 0x00, sizeof(*o));
	o->guard_ok = 1;
	o->size_ret = SAS_UNSET;
	if (cap > SAS_CAP_MAX) {
		o->rc = -1000;
		return;
	}
	memcpy(&a, ss, sizeof(a));
	blk = malloc(tot);
	if (NULL == blk) {
		o->rc = -1001;
		return;
	}
	for (i = 0; i < tot; i ++) {
		blk[i] = (uint8_t)(0xA0 | (i % 13));
	}
	buf = (blk + SAS_GUARD);
	memset(buf, 0x7e, cap); /* '~': never part of an address text */
	if (with_port) {
		o->rc = sa_addr_port_to_str(&a, (char*)buf, cap, (pass_size_ret ? &sr : NULL));
	} else {
		o->rc = sa_addr_to_str(&a, (char*)buf, cap, (pass_size_ret ? &sr : NULL));
	}
	o->size_ret = sr;
	for (i = 0; i < tot; i ++) {
		if (i >= SAS_GUARD && i < (SAS_GUARD + cap))
			continue;
		if (blk[i] != (uint8_t)(0xA0 | (i % 13))) {
			o->guard_ok = 0;
			o->bad_off = ((long)i - (long)SAS_GUARD);
			break;
		}
	}
	memcpy(o->text, buf, cap);
	free(blk);
}

static char *
dup_exact(const char *txt, size_t len) {
	char *p;

	if (0 == len)
		return ((char*)sas_dummy);
	p = malloc(len);
	if (NULL != p) {
		memcpy(p, txt, len);
	}
	return (p);
}

static void
free_exact(char *p) {

	if ((char*)sas_dummy != p) {
		free(p);
	}
}

int
sas_from_str(int with_port, const char *txt, size_t len, void *ss_out) {
	struct sockaddr_storage a;
	char *p = dup_exact(txt, len);
	int rc;

	if (NULL == p)
		return (-1001);
	memset(&a, 0xEE, sizeof(a));
	if (with_port) {
		rc = sa_addr_port_from_str(&a, p, len);
	} else {
		rc = sa_addr_from_str(&a, p, len);
	}
	memcpy(ss_out, &a, sizeof(a));
	free_exact(p);
	return (rc);
}

int
sas_str_net(const char *txt, size_t len, void *ss_out, uint16_t *preflen_ret) {
	struct sockaddr_storage a;
	char *p = dup_exact(txt, len);
	int rc;

	if (NULL == p)
		return (-1001);
	memset(&a, 0xEE, sizeof(a));
	rc = str_net_to_ss(p, len, &a, preflen_ret);
	memcpy(ss_out, &a, sizeof(a));
	free_exact(p);
	return (rc);
}

int
sas_len2mask4(size_t len, uint8_t mask[4]) {
	struct in_addr m;
	int rc;

	memcpy(&m, mask, 4);
	rc = inet_len2mask(len, &m);
	memcpy(mask, &m, 4);
	return (rc);
}

int
sas_mask2len4(const uint8_t mask[4]) {
	struct in_addr m;

	memcpy(&m, mask, 4);
	return (inet_mask2len(&m));
}

int
sas_len2mask6(size_t len, uint8_t mask[16]) {
	struct in6_addr m;
	int rc;

	memcpy(&m, mask, 16);
	rc = inet6_len2mask(len, &m);
	memcpy(mask, &m, 16);
	return (rc);
}

int
sas_mask2len6(const uint8_t mask[16]) {
	struct in6_addr m;

	memcpy(&m, mask, 16);
	return (inet6_mask2len(&m));
}

void
sas_trunc_preflen(void *ss, uint16_t preflen) {
	struct sockaddr_storage a;

	memcpy(&a, ss, sizeof(a));
	net_addr_truncate_preflen(&a, preflen);
	memcpy(ss, &a, sizeof(a));
}

static size_t
af_len(int af) {

	return ((AF_INET == af) ? 4 : 16);
}

void
sas_trunc_mask(int af, uint8_t *net, const uint8_t *mask) {
	uint32_t n[4], m[4];

	memset(n, 0x00, sizeof(n));
	memset(m, 0x00, sizeof(m));
	memcpy(n, net, af_len(af));
	memcpy(m, mask, af_len(af));
	net_addr_truncate_mask((sa_family_t)af, n, m);
	memcpy(net, n, af_len(af));
}

int
sas_in_net(int af, const uint8_t *net, const uint8_t *mask, const uint8_t *addr) {
	uint32_t n[4], m[4], a[4];

	memset(n, 0x00, sizeof(n));
	memset(m, 0x00, sizeof(m));
	memset(a, 0x00, sizeof(a));
	memcpy(n, net, af_len(af));
	memcpy(m, mask, af_len(af));
	memcpy(a, addr, af_len(af));
	return (is_addr_in_net((sa_family_t)af, n, m, a));
}

int
sas_init(void *ss_out, int af, const void *addr, uint16_t port) {
	struct sockaddr_storage a;
	int rc;

	memset(&a, 0xEE, sizeof(a));
	rc = sa_init(&a, (sa_family_t)af, addr, port);
	memcpy(ss_out, &a, sizeof(a));
	return (rc);
}

unsigned
sas_port_get(const void *ss) {
	struct sockaddr_storage a;

	memcpy(&a, ss, sizeof(a));
	return (sa_port_get(&a));
}

int
sas_is_eq(const void *x, const void *y, int with_port) {
	struct sockaddr_storage a, b;

	memcpy(&a, x, sizeof(a));
	memcpy(&b, y, sizeof(b));
	return (with_port ? sa_addr_port_is_eq(&a, &b) : sa_addr_is_eq(&a, &b));
}
