/* C shim over /repo/include/proto/dns.h and /repo/include/proto/radius.h for
 * drivers/C15_msg.cpp. One-to-one forwards only: no logic of its own, so every
 * verdict of the driver is about the library's inlines as compiled by this
 * variant's compiler/flags. */
#include <sys/param.h>
#include <sys/types.h>
#include <stdint.h>
#include <stdlib.h>
#include <string.h>
#include <stdio.h>
#include <errno.h>
#include <inttypes.h>

#ifndef __unused
#define __unused __attribute__((__unused__))
#endif
#include <proto/dns.h>
#include <proto/radius.h>
#include "proto_abi.h"

long
px_const(int which) {
	switch (which) {
	case PX_EINVAL: return (EINVAL);
	case PX_EOVERFLOW: return (EOVERFLOW);
	case PX_EBADMSG: return (EBADMSG);
	case PX_EEXIST: return (EEXIST);
	case PX_ENOATTR: return (ENOATTR);
	case PX_EOPNOTSUPP: return (EOPNOTSUPP);
	case PX_ESPIPE: return (ESPIPE);
	case PX_ELOOP: return (ELOOP);
	case PX_DNS_HDR_SIZE: return ((long)sizeof(dns_hdr_t));
	case PX_DNS_Q_FIXED: return ((long)(sizeof(dns_question_t) - sizeof(uint8_t*)));
	case PX_DNS_RR_FIXED: return ((long)(sizeof(dns_rr_t) - (sizeof(uint8_t*) + sizeof(uint8_t))));
	case PX_DNS_OPT_FIXED: return ((long)(sizeof(dns_opt_rr_t) - sizeof(uint8_t)));
	case PX_RAD_HDR_SIZE: return ((long)RADIUS_PKT_HDR_SIZE);
	case PX_RAD_PKT_MAX: return (RADIUS_PKT_MAX_SIZE);
	case PX_RAD_PW_MAX: return (RADIUS_A_T_USER_PASSWORD_MAX_LEN);
	case PX_RAD_ATTR_DATA_MAX: return (RADIUS_ATTR_DATA_SIZE_MAX);
	}
	return (-1);
}

void *
px_alloc(size_t n) {
	return (malloc(n));
}

void
px_free(void *p) {
	free(p);
}

/* ------------------------------------------------------------------ DNS */
int
px_dns_hdr_create(void *hdr, size_t bufsz, uint16_t id, uint16_t flags, size_t *size_ret) {
	return (dns_hdr_create(id, flags, (dns_hdr_p)hdr, bufsz, size_ret));
}

void
px_dns_hdr_inc(void *hdr, int section, uint16_t val) {
	switch (section) {
	case 0: dns_hdr_qd_inc((dns_hdr_p)hdr, val); break;
	case 1: dns_hdr_an_inc((dns_hdr_p)hdr, val); break;
	case 2: dns_hdr_ns_inc((dns_hdr_p)hdr, val); break;
	case 3: dns_hdr_ar_inc((dns_hdr_p)hdr, val); break;
	}
}

void
px_dns_hdr_dec(void *hdr, int section, uint16_t val) {
	switch (section) {
	case 0: dns_hdr_qd_dec((dns_hdr_p)hdr, val); break;
	case 1: dns_hdr_an_dec((dns_hdr_p)hdr, val); break;
	case 2: dns_hdr_ns_dec((dns_hdr_p)hdr, val); break;
	case 3: dns_hdr_ar_dec((dns_hdr_p)hdr, val); break;
	}
}

void
px_dns_hdr_set(void *hdr, int section, uint16_t val) {
	switch (section) {
	case 0: dns_hdr_qd_set((dns_hdr_p)hdr, val); break;
	case 1: dns_hdr_an_set((dns_hdr_p)hdr, val); break;
	case 2: dns_hdr_ns_set((dns_hdr_p)hdr, val); break;
	case 3: dns_hdr_ar_set((dns_hdr_p)hdr, val); break;
	}
}

uint16_t
px_dns_hdr_cnt(void *hdr, int section) {
	switch (section) {
	case 0: return (dns_hdr_qd_get((dns_hdr_p)hdr));
	case 1: return (dns_hdr_an_get((dns_hdr_p)hdr));
	case 2: return (dns_hdr_ns_get((dns_hdr_p)hdr));
	case 3: return (dns_hdr_ar_get((dns_hdr_p)hdr));
	}
	return (0);
}

int
px_dns_question_add(void *hdr, size_t msg_size, size_t bufsz, int compress, const uint8_t *name, size_t name_len,
    uint16_t qtype, uint16_t qclass, size_t *size_ret) {
	return (dns_msg_question_add((dns_hdr_p)hdr, msg_size, bufsz, compress, name, name_len, qtype, qclass, size_ret));
}

int
px_dns_rr_add(void *hdr, size_t msg_size, size_t bufsz, int compress, const uint8_t *name, size_t name_len,
    uint16_t type, uint16_t klass, uint32_t ttl, uint16_t data_size, const void *data, size_t *size_ret) {
	return (dns_msg_rr_add((dns_hdr_p)hdr, msg_size, bufsz, compress, name, name_len, type, klass, ttl,
	    data_size, (void*)(size_t)data, size_ret));
}

int
px_dns_optrr_add(void *hdr, size_t msg_size, size_t bufsz, uint16_t udp_payload_size, uint8_t version,
    uint8_t ex_rcode, uint16_t ex_flags, uint16_t data_size, const void *data, size_t *size_ret) {
	return (dns_msg_optrr_add((dns_hdr_p)hdr, msg_size, bufsz, udp_payload_size, version, ex_rcode, ex_flags,
	    data_size, (void*)(size_t)data, size_ret));
}

int
px_dns_info_get(void *hdr, size_t size, size_t out[6]) {
	return (dns_msg_info_get((dns_hdr_p)hdr, size, &out[0], &out[1], &out[2], &out[3], &out[4], &out[5]));
}

int
px_dns_validate(void *hdr, size_t size) {
	return (dns_msg_validate((dns_hdr_p)hdr, size));
}

size_t
px_dns_size_get(void *hdr, size_t size) {
	return (dns_msg_size_get((dns_hdr_p)hdr, size));
}

int
px_dns_question_get(void *hdr, size_t msg_size, size_t offset, uint8_t *name, size_t *name_len,
    uint16_t *qtype, uint16_t *qclass, size_t *qsize) {
	return (dns_msg_question_get_data((dns_hdr_p)hdr, msg_size, offset, name, name_len, qtype, qclass, qsize));
}

int
px_dns_rr_get(void *hdr, size_t msg_size, size_t offset, uint8_t *name, size_t *name_len,
    uint16_t *type, uint16_t *klass, uint32_t *ttl, uint16_t *data_size, size_t *data_off, size_t *rr_size) {
	void *data = NULL;
	int rc;

	rc = dns_msg_rr_get_data((dns_hdr_p)hdr, msg_size, offset, name, name_len, type, klass, ttl, data_size,
	    &data, rr_size);
	if (NULL != data_off) {
		(*data_off) = (NULL == data) ? (size_t)~(size_t)0 : (size_t)(((uint8_t*)data) - ((uint8_t*)hdr));
	}
	return (rc);
}

int
px_dns_rr_find(void *hdr, size_t msg_size, size_t *offset, size_t *rr_count, const uint8_t *name, size_t name_len,
    uint16_t *type, uint16_t *klass, uint32_t *ttl, uint16_t *data_size, size_t *data_off, size_t *rr_size) {
	void *data = NULL;
	int rc;

	rc = dns_msg_rr_find((dns_hdr_p)hdr, msg_size, offset, rr_count, name, name_len, type, klass, ttl, data_size,
	    &data, rr_size);
	if (NULL != data_off) {
		(*data_off) = (NULL == data) ? (size_t)~(size_t)0 : (size_t)(((uint8_t*)data) - ((uint8_t*)hdr));
	}
	return (rc);
}

int
px_dns_name2labels(const uint8_t *name, size_t name_len, uint8_t *buf, size_t bufsz, size_t *size_ret) {
	return (DomainNameToSequenceOfLabels(name, name_len, buf, bufsz, size_ret));
}

int
px_dns_labels2name(const uint8_t *buf, size_t bufsz, uint8_t *name, size_t name_bufsz, size_t *len_ret) {
	return (SequenceOfLabelsToDomainName(buf, bufsz, name, name_bufsz, len_ret));
}

int
px_dns_labels_size(const uint8_t *buf, size_t bufsz, size_t *size_ret) {
	return (SequenceOfLabelsGetSize(buf, bufsz, size_ret));
}

int
px_dns_msg_name2labels(void *hdr, size_t bufsz, size_t offset, const uint8_t *name, size_t name_len,
    int compress, size_t *size_ret) {
	return (dns_msg_name2sequence_of_labels((dns_hdr_p)hdr, bufsz, offset, name, name_len, compress, size_ret));
}

int
px_dns_msg_labels2name(void *hdr, size_t msg_size, size_t offset, uint8_t *name, size_t name_bufsz, size_t *len_ret) {
	return (dns_msg_sequence_of_labels2name((dns_hdr_p)hdr, msg_size, offset, name, name_bufsz, len_ret));
}

int
px_dns_msg_labels_name_len(void *hdr, size_t msg_size, size_t offset, size_t *len_ret) {
	return (dns_msg_sequence_of_labels_get_name_len((dns_hdr_p)hdr, msg_size, offset, len_ret));
}

/* --------------------------------------------------------------- RADIUS */
void
px_rad_attr_param(int type, int out[3]) {
	out[0] = rad_attr_params[type & 0xff].len_min;
	out[1] = rad_attr_params[type & 0xff].len_max;
	out[2] = rad_attr_params[type & 0xff].data_type;
}

int
px_rad_attr_len_chk(uint8_t type, uint8_t len) {
	return (radius_attr_len_chk(type, len));
}

int
px_rad_init(void *pkt, size_t bufsz, size_t *size_ret, uint8_t code, uint8_t id, const uint8_t *authenticator) {
	return (radius_pkt_init((rad_pkt_hdr_p)pkt, bufsz, size_ret, code, id, (uint8_t*)(size_t)authenticator));
}

int
px_rad_reply_init(void *pkt, size_t bufsz, size_t *size_ret, uint8_t code, const void *pkt_req) {
	return (radius_pkt_reply_init((rad_pkt_hdr_p)pkt, bufsz, size_ret, code, (rad_pkt_hdr_p)(size_t)pkt_req));
}

int
px_rad_attr_add(void *pkt, size_t bufsz, size_t *size_ret, uint8_t type, uint8_t len, const uint8_t *data, size_t *off_ret) {
	return (radius_pkt_attr_add((rad_pkt_hdr_p)pkt, bufsz, size_ret, type, len, (uint8_t*)(size_t)data, off_ret));
}

int
px_rad_attr_add_raw(void *pkt, size_t bufsz, size_t *size_ret, uint8_t type, uint8_t len, const uint8_t *data, size_t *off_ret) {
	return (radius_pkt_attr_add_raw((rad_pkt_hdr_p)pkt, bufsz, size_ret, type, len, (uint8_t*)(size_t)data, NULL, off_ret));
}

int
px_rad_attr_add_uint32(void *pkt, size_t bufsz, size_t *size_ret, uint8_t type, uint32_t data, size_t *off_ret) {
	return (radius_pkt_attr_add_uint32((rad_pkt_hdr_p)pkt, bufsz, size_ret, type, data, off_ret));
}

int
px_rad_chk(void *pkt, size_t size) {
	return (radius_pkt_chk((rad_pkt_hdr_p)pkt, size));
}

int
px_rad_sign(void *pkt, size_t bufsz, size_t *size_ret, const uint8_t *key, size_t key_len, int add_msg_authr) {
	return (radius_pkt_sign((rad_pkt_hdr_p)pkt, bufsz, size_ret, (uint8_t*)(size_t)key, key_len, add_msg_authr));
}

int
px_rad_verify(void *pkt, const uint8_t *key, size_t key_len, const void *pkt_req) {
	return (radius_pkt_verify((rad_pkt_hdr_p)pkt, (uint8_t*)(size_t)key, key_len, (rad_pkt_hdr_p)(size_t)pkt_req));
}

int
px_rad_attr_find(void *pkt, size_t offset, uint8_t type, size_t *off_ret) {
	return (radius_pkt_attr_find((rad_pkt_hdr_p)pkt, offset, type, off_ret));
}

int
px_rad_attr_get_raw(void *pkt, size_t offset, uint8_t *type, size_t *data_off, size_t *len) {
	uint8_t *data = NULL;
	int rc;

	rc = radius_pkt_attr_get_data_ptr_raw((rad_pkt_hdr_p)pkt, offset, type, &data, len);
	if (NULL != data_off) {
		(*data_off) = (NULL == data) ? (size_t)~(size_t)0 : (size_t)(data - ((uint8_t*)pkt));
	}
	return (rc);
}

int
px_rad_attr_get(void *pkt, size_t offset, uint8_t *type, size_t *data_off, size_t *len) {
	uint8_t *data = NULL;
	int rc;

	rc = radius_pkt_attr_get_data_ptr((rad_pkt_hdr_p)pkt, offset, type, &data, len);
	if (NULL != data_off) {
		(*data_off) = (NULL == data) ? (size_t)~(size_t)0 : (size_t)(data - ((uint8_t*)pkt));
	}
	return (rc);
}

int
px_rad_attr_get_to_buf(void *pkt, size_t offset, size_t count, uint8_t type, uint8_t *buf, size_t bufsz, size_t *size_ret) {
	return (radius_pkt_attr_get_data_to_buf((rad_pkt_hdr_p)pkt, offset, count, type, buf, bufsz, size_ret));
}

int
px_rad_pw_encode(const uint8_t *authenticator, const uint8_t *pw, size_t pw_len, const uint8_t *key, size_t key_len,
    uint8_t *buf, size_t bufsz, size_t *size_ret) {
	return (radius_pkt_attr_password_encode((uint8_t*)(size_t)authenticator, (uint8_t*)(size_t)pw, pw_len,
	    (uint8_t*)(size_t)key, key_len, buf, bufsz, size_ret));
}

int
px_rad_pw_decode(const uint8_t *authenticator, const uint8_t *enc, size_t enc_len, const uint8_t *key, size_t key_len,
    uint8_t *buf, size_t bufsz, size_t *size_ret) {
	return (radius_pkt_attr_password_decode((uint8_t*)(size_t)authenticator, (uint8_t*)(size_t)enc, enc_len,
	    (uint8_t*)(size_t)key, key_len, buf, bufsz, size_ret));
}

int
px_rad_authr_calc(void *pkt, const uint8_t *key, size_t key_len, int inside, const void *pkt_req, uint8_t out[16]) {
	return (radius_pkt_authenticator_calc((rad_pkt_hdr_p)pkt, (uint8_t*)(size_t)key, key_len, inside,
	    (rad_pkt_hdr_p)(size_t)pkt_req, out));
}

int
px_rad_authr_chk(void *pkt, const uint8_t *key, size_t key_len, int inside, const void *pkt_req) {
	return (radius_pkt_authenticator_chk((rad_pkt_hdr_p)pkt, (uint8_t*)(size_t)key, key_len, inside,
	    (rad_pkt_hdr_p)(size_t)pkt_req));
}

int
px_rad_authr_update(void *pkt, const uint8_t *key, size_t key_len, int inside, const void *pkt_req) {
	return (radius_pkt_authenticator_update((rad_pkt_hdr_p)pkt, (uint8_t*)(size_t)key, key_len, inside,
	    (rad_pkt_hdr_p)(size_t)pkt_req));
}

int
px_rad_ma_calc(void *pkt, size_t attr_off, const uint8_t *key, size_t key_len, int inside, const void *pkt_req, uint8_t out[16]) {
	return (radius_pkt_attr_msg_authenticator_calc((rad_pkt_hdr_p)pkt, (rad_pkt_attr_p)(((uint8_t*)pkt) + attr_off),
	    (uint8_t*)(size_t)key, key_len, inside, (rad_pkt_hdr_p)(size_t)pkt_req, out));
}

int
px_rad_ma_chk(void *pkt, size_t offset, const uint8_t *key, size_t key_len, int inside, const void *pkt_req, size_t *off_ret) {
	return (radius_pkt_attr_msg_authenticator_chk((rad_pkt_hdr_p)pkt, offset, (uint8_t*)(size_t)key, key_len, inside,
	    (rad_pkt_hdr_p)(size_t)pkt_req, off_ret));
}

int
px_rad_ma_update(void *pkt, size_t offset, const uint8_t *key, size_t key_len, int inside, const void *pkt_req, size_t *off_ret) {
	return (radius_pkt_attr_msg_authenticator_update((rad_pkt_hdr_p)pkt, offset, (uint8_t*)(size_t)key, key_len, inside,
	    (rad_pkt_hdr_p)(size_t)pkt_req, off_ret));
}

void
px_md5(const uint8_t *data, size_t n, uint8_t out[16]) {
	md5_get_digest(data, n, out);
}

void
px_hmac_md5(const uint8_t *key, size_t key_len, const uint8_t *data, size_t n, uint8_t out[16]) {
	hmac_md5(key, key_len, data, n, out);
}
