/* C shim over /repo/include/math/big_num.h for drivers/C01_bn.cpp.
 * Compiled once per build variant (digit width, BN_CC_MULL_DIV, compiler, -O).
 * Build flags choose: -DBN_DIGIT_BIT_CNT=N [-DBN_CC_MULL_DIV] -DBN_BIT_LEN=N */
#include <sys/param.h>
#include <sys/types.h>
#include <stdint.h>
#include <stdlib.h>
#include <string.h>
#include <stdio.h>
#include <errno.h>
#include <inttypes.h>

#ifndef __unused
#define __unused __attribute__((__unused__))
#endif
#include <math/big_num.h>
#include "bn_abi.h"

long
sb_info(int what) {
	switch (what) {
	case SB_INFO_W: return (BN_DIGIT_BIT_CNT);
	case SB_INFO_BITLEN: return (BN_BIT_LEN);
	case SB_INFO_CC:
#ifdef BN_CC_MULL_DIV
		return (1);
#else
		return (0);
#endif
	}
	return (-1);
}

static int
load(bn_p x, const sb_num *n) {
	int rc;

	/* stale storage model: everything bn_init() does not set is junk */
	memset(x, n->junk, sizeof(*x));
	rc = bn_init(x, n->cap_bits);
	if (0 != rc)
		return (rc);
	if (0 == n->len) {
		bn_assign_zero(x);
		return (0);
	}
	return (bn_import_le_bin(x, n->val, n->len));
}

static void
dump(bn_p x, sb_res *r) {
	r->count = (uint32_t)x->count;
	r->digits = (uint32_t)x->digits;
	r->canon = (x->digits <= x->count && x->digits <= BN_MAX_DIGITS &&
	    (0 == x->digits || 0 != x->num[x->digits - 1]));
	r->len = 0;
	if (x->digits <= BN_MAX_DIGITS && (x->digits * BN_DIGIT_SIZE) <= SB_MAXB) {
		r->len = (uint32_t)(x->digits * BN_DIGIT_SIZE);
		memcpy(r->val, x->num, r->len);
	}
}

static bn_digit_t
get_d(const uint8_t *p) {
	bn_digit_t d = 0;
	memcpy(&d, p, BN_DIGIT_SIZE);
	return (d);
}
static void
put_d(uint8_t *p, bn_digit_t d) {
	memset(p, 0, 16);
	memcpy(p, &d, BN_DIGIT_SIZE);
}

/* Model of uninitialised automatic storage: fill the stack region the library
 * call is about to use with the junk byte, so that a read of a never-written
 * local digit is deterministic instead of depending on earlier calls. */
static void __attribute__((noinline))
poison_stack(uint8_t junk) {
	volatile uint8_t area[96 * 1024];
	size_t i;

	for (i = 0; i < sizeof(area); i ++)
		area[i] = junk;
}

void
sb_call(const sb_in *in, sb_out *out) {
	bn_t a, b, c;
	bn_mod_rd_data_t md;
	bn_digit_t d1, d2, d3, r1, r2, r3, r4;
	int rc = 0, have_a = 0, have_b = 0, have_c = 0;
	size_t sz1 = 0, sz2 = 0;

	memset(out, 0, sizeof(*out));
	memset(&md, 0, sizeof(md));
	d1 = get_d(in->d1);
	d2 = get_d(in->d2);
	d3 = get_d(in->d3);

	if (in->op >= OP_ADD) {
		if (in->op != OP_DIGITS_IMPORT && in->op != OP_DIGITS_EXPORT) {
			out->setup_rc = load(&a, &in->a);
			have_a = 1;
			if (0 == out->setup_rc && in->b.cap_bits) {
				out->setup_rc = load(&b, &in->b);
				have_b = 1;
			}
			if (0 == out->setup_rc && in->c.cap_bits) {
				out->setup_rc = load(&c, &in->c);
				have_c = 1;
			}
			if (0 != out->setup_rc)
				return;
		}
	}

	poison_stack(in->a.junk);
	switch (in->op) {
	case OP_D_MULT:
		bn_digit_mult(d1, d2, &r1, &r2);
		put_d(out->d1, r1);
		put_d(out->d2, r2);
		break;
	case OP_D_DIV: /* (d2:d1) / d3 */
		r1 = r2 = r3 = r4 = 0;
		rc = bn_digit_div(d1, d2, d3, &r1, &r2, &r3, &r4);
		put_d(out->d1, r1);
		put_d(out->d2, r2);
		put_d(out->d3, r3);
		put_d(out->d4, r4);
		break;
	case OP_D_GCD:
		put_d(out->d1, bn_digit_gcd(d1, d2));
		break;
	case OP_D_GCD_BIN:
		put_d(out->d1, bn_digit_gcd_bin(d1, d2));
		break;
	case OP_D_EGCD:
		r2 = r3 = 0;
		r1 = bn_digit_egcd(d1, d2, &r2, &r3);
		put_d(out->d1, r1);
		put_d(out->d2, r2);
		put_d(out->d3, r3);
		break;
	case OP_D_BITS:
		out->s1 = bn_digit_bits(d1);
		out->s2 = (0 != d1) ? bn_digit_ctz(d1) : 0;
		out->s3 = (0 != d1) ? bn_digit_clz(d1) : 0;
		put_d(out->d1, (bn_digit_t)bn_digit_ffs(d1));
		put_d(out->d2, (bn_digit_t)(bn_digit_is_pow2(d1) ? 1 : 0));
		break;

	case OP_ADD:
		r1 = 0x5a;
		rc = bn_add(&a, (in->alias == 1) ? &a : &b, (in->p1 & 1) ? NULL : &r1);
		put_d(out->d1, r1);
		break;
	case OP_ADD_DIGIT:
		r1 = 0; /* bn_add_digit leaves *carry untouched when n == 0 */
		bn_add_digit(&a, d1, (in->p1 & 1) ? NULL : &r1);
		put_d(out->d1, r1);
		break;
	case OP_SUB:
		r1 = 0x5a;
		rc = bn_sub(&a, (in->alias == 1) ? &a : &b, (in->p1 & 1) ? NULL : &r1);
		put_d(out->d1, r1);
		break;
	case OP_SUB_DIGIT:
		r1 = 0;
		bn_sub_digit(&a, d1, (in->p1 & 1) ? NULL : &r1);
		put_d(out->d1, r1);
		break;
	case OP_MULT:
		rc = bn_mult(&a, (in->alias == 1) ? &a : &b);
		break;
	case OP_MULT_DIGIT:
		rc = bn_mult_digit(&a, d1);
		break;
	case OP_SQUARE:
		rc = bn_square(&a);
		break;
	case OP_EXP_DIGIT:
		rc = bn_exp_digit(&a, d1);
		break;
	case OP_DIV:
		switch (in->alias) {
		case 0: rc = bn_div(&a, &b, &c); break;
		case 1: rc = bn_div(&a, &b, NULL); break;
		case 2: rc = bn_div(&a, &b, &a); break; /* = bn_mod() */
		case 3: rc = bn_div(&a, &a, have_c ? &c : NULL); break;
		}
		break;
	case OP_LSHIFT:
		bn_l_shift(&a, (size_t)in->p1);
		break;
	case OP_RSHIFT:
		bn_r_shift(&a, (size_t)in->p1);
		break;
	case OP_AND:
		rc = bn_and(&a, (in->alias == 1) ? &a : &b);
		break;
	case OP_OR:
		rc = bn_or(&a, (in->alias == 1) ? &a : &b);
		break;
	case OP_XOR:
		rc = bn_xor(&a, (in->alias == 1) ? &a : &b);
		break;
	case OP_BIT_SET:
		rc = bn_bit_set(&a, (size_t)in->p1, (int)in->p2);
		break;
	case OP_QUERY:
		out->s1 = 0;
		if (have_b) {
			out->s1 |= (uint64_t)(bn_cmp(&a, &b) + 1);	/* bits 0..1 */
			out->s1 |= (uint64_t)(bn_is_equal(&a, &b) ? 1 : 0) << 2;
		}
		out->s1 |= (uint64_t)(bn_is_zero(&a) ? 1 : 0) << 3;
		out->s1 |= (uint64_t)(bn_is_one(&a) ? 1 : 0) << 4;
		out->s1 |= (uint64_t)(bn_is_even(&a) ? 1 : 0) << 5;
		out->s1 |= (uint64_t)(bn_is_odd(&a) ? 1 : 0) << 6;
		out->s1 |= (uint64_t)(bn_is_pow2(&a) ? 1 : 0) << 7;
		out->s1 |= (uint64_t)(bn_is_bit_set(&a, (size_t)in->p1) ? 1 : 0) << 8;
		out->s2 = bn_ctz(&a);
		out->s3 = bn_calc_bits(&a);
		out->s4 = (bn_is_zero(&a) ? 0 : bn_clz(&a));
		break;
	case OP_ASSIGN:
		rc = bn_assign(&a, &b);
		break;
	case OP_ASSIGN_2EXP:
		rc = bn_assign_2exp(&a, (size_t)in->p1);
		break;
	case OP_ASSIGN_DIGIT:
		rc = bn_assign_digit(&a, d1);
		break;
	case OP_GCD: /* result object = c (or an operand when aliased) */
		switch (in->alias) {
		case 0: rc = bn_gcd(&c, &a, &b); break;
		case 1: rc = bn_gcd(&a, &a, &b); break;
		case 2: rc = bn_gcd(&b, &a, &b); break;
		}
		break;
	case OP_GCD_BIN:
		switch (in->alias) {
		case 0: rc = bn_gcd_bin(&c, &a, &b); break;
		case 1: rc = bn_gcd_bin(&a, &a, &b); break;
		case 2: rc = bn_gcd_bin(&b, &a, &b); break;
		}
		break;
	case OP_SQRT:
		switch (in->p1) {
		case 0: rc = bn_sqrt(&a); break;
		case 2: rc = bn_sqrt2(&a); break;
		case 3: rc = bn_sqrt3(&a); break;
		case 5: rc = bn_sqrt5(&a); break;
		default: rc = bn_sqrt1(&a); break;
		}
		break;

	/* modular layer: a = value, b = second operand, c = modulus */
	case OP_MOD:
		rc = bn_mod(&a, &c, &md);
		break;
	case OP_MOD_ADD:
		rc = bn_mod_add(&a, (in->alias == 1) ? &a : &b, &c, &md);
		break;
	case OP_MOD_SUB:
		rc = bn_mod_sub(&a, (in->alias == 1) ? &a : &b, &c, &md);
		break;
	case OP_MOD_MULT:
		rc = bn_mod_mult(&a, (in->alias == 1) ? &a : &b, &c, &md);
		break;
	case OP_MOD_MULT_DIGIT:
		rc = bn_mod_mult_digit(&a, d1, &c, &md);
		break;
	case OP_MOD_SQUARE:
		rc = bn_mod_square(&a, &c, &md);
		break;
	case OP_MOD_EXP:
		rc = bn_mod_exp(&a, &b, &c, &md);
		break;
	case OP_MOD_EXP_DIGIT:
		rc = bn_mod_exp_digit(&a, (size_t)in->p1, &c, &md);
		break;
	case OP_MOD_INV:
		switch (in->p1) {
		case 0: rc = bn_mod_inv(&a, &c, &md); break;
		case 1: rc = bn_mod_inv1(&a, &c, &md); break;
		case 2: rc = bn_mod_inv2(&a, &c, &md); break;
		case 4: rc = bn_mod_inv_mont(&a, &c, &md); break;
		default: rc = bn_mod_inv_bin(&a, &c, &md); break;
		}
		break;
	case OP_MOD_DIV:
		rc = bn_mod_div(&a, &b, &c, &md);
		break;
	case OP_MOD_REDUCE:
		rc = bn_mod_reduce(&a, &c, &md);
		break;
	case OP_MOD_LEGENDRE:
		rc = bn_mod_legendre(&a, &c, &md);
		break;
	case OP_MOD_SQRT:
		rc = bn_mod_sqrt(&a, &c, &md);
		break;

	case OP_NAF: /* p1 = wnd_bits, p2 = naf_arr_size */
		memset(out->arr, 0x55, sizeof(out->arr));
		sz1 = 0;
		rc = bn_calc_naf(&a, (size_t)in->p1, (size_t)in->p2, out->arr, &sz1);
		out->s1 = sz1;
		break;
	case OP_JSF: /* p2 = jsf_arr_size */
		memset(out->arr, 0x55, sizeof(out->arr));
		sz1 = sz2 = 0;
		rc = bn_calc_jsf(&a, &b, (size_t)in->p2, out->arr, &sz1, &sz2);
		out->s1 = sz1;
		out->s2 = sz2;
		break;
	case OP_COMBO: /* p1 = bit_off, p2 = wnd_bits, p3 = wnd_count */
		put_d(out->d1, bn_combo_column_get(&a, (size_t)in->p1, (size_t)in->p2,
		    (size_t)in->p3));
		break;

	case OP_IMPORT: { /* p1: 0 be_bin, 1 le_bin, 2 le_hex, 3 be_hex ; into a */
		uint8_t *buf = malloc(in->buf_len ? in->buf_len : 1);
		memcpy(buf, in->buf, in->buf_len);
		switch (in->p1) {
		case 0: rc = bn_import_be_bin(&a, buf, in->buf_len); break;
		case 1: rc = bn_import_le_bin(&a, buf, in->buf_len); break;
		case 2: rc = bn_import_le_hex(&a, buf, in->buf_len); break;
		case 3: rc = bn_import_be_hex(&a, buf, in->buf_len); break;
		}
		free(buf);
		break;
	}
	case OP_EXPORT: { /* p1: kind, p2: flags, p3: buf_size */
		size_t bs = (size_t)in->p3, ret = (size_t)0xdeadbeef, i;
		uint8_t *buf = malloc(bs + 16);
		memset(buf, 0xa5, bs + 16);
		switch (in->p1) {
		case 0: rc = bn_export_be_bin(&a, (uint32_t)in->p2, buf, bs, &ret); break;
		case 1: rc = bn_export_le_bin(&a, (uint32_t)in->p2, buf, bs, &ret); break;
		case 2: rc = bn_export_le_hex(&a, (uint32_t)in->p2, buf, bs, &ret); break;
		case 3: rc = bn_export_be_hex(&a, (uint32_t)in->p2, buf, bs, &ret); break;
		}
		out->guard_ok = 1;
		for (i = bs; i < bs + 16; i ++) {
			if (0xa5 != buf[i])
				out->guard_ok = 0;
		}
		out->s1 = ret;
		out->obuf_len = (uint32_t)MIN(bs, sizeof(out->obuf));
		memcpy(out->obuf, buf, out->obuf_len);
		free(buf);
		break;
	}
	default:
		rc = -9999;
		break;
	}
	out->rc = rc;
	if (have_a) dump(&a, &out->a);
	if (have_b) dump(&b, &out->b);
	if (have_c) dump(&c, &out->c);
}
