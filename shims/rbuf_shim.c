/* C shim over /repo/src/utils/ring_buffer.c for drivers/C19_rbuf.cpp.
 * Linked together with repo:src/utils/ring_buffer.c, once per build variant. */
#include <sys/param.h>
#include <sys/types.h>
#include <stdint.h>
#include <stdlib.h>
#include <string.h>
#include <signal.h>
#include <errno.h>
#include <inttypes.h>

#include <utils/ring_buffer.h>
#include "rbuf_abi.h"

typedef struct {
	r_buf_p rb;
	r_buf_rpos_t rp[SR_READERS];
} sr_t;

/* r_buf_rpos_inc() calls debug_break() == raise(SIGTRAP) on its "this situation is BUG and must
 * never happen" path; count it instead of dying so that the driver can report and shrink it. */
static volatile unsigned sr_trap_cnt;
static void
sr_on_trap(int sig) {
	(void)sig;
	sr_trap_cnt ++;
}

void *
sr_alloc(size_t size, size_t min_block, uint64_t round0) {
	sr_t *s = calloc(1, sizeof(sr_t));

	if (NULL == s)
		abort();
	signal(SIGTRAP, sr_on_trap);
	s->rb = r_buf_alloc((uintptr_t)-1, size, min_block);
	if (NULL == s->rb) {
		free(s);
		return (NULL);
	}
	/* the header exposes the struct; DESIGN C19: histories that start near the counter wrap */
	s->rb->round_num = (size_t)round0;
	return (s);
}

void
sr_free(void *h) {
	sr_t *s = h;

	if (NULL == s)
		return;
	r_buf_free(s->rb);
	free(s);
}

uint8_t *
sr_base(void *h) {
	return (((sr_t*)h)->rb->buf);
}

size_t
sr_wbuf_get(void *h, size_t min_size, int64_t *off) {
	sr_t *s = h;
	uint8_t *p = NULL;
	size_t r = r_buf_wbuf_get(s->rb, min_size, &p);

	*off = (NULL == p) ? INT64_MIN : (int64_t)(p - s->rb->buf);
	return (r);
}

int
sr_wbuf_set(void *h, size_t offset, size_t buf_size) {
	return (r_buf_wbuf_set(((sr_t*)h)->rb, offset, buf_size));
}

int
sr_wbuf_set2(void *h, size_t buf_off, size_t buf_size, int reader) {
	sr_t *s = h;

	return (r_buf_wbuf_set2(s->rb, (s->rb->buf + buf_off), buf_size,
	    (0 <= reader && reader < SR_READERS) ? &s->rp[reader] : NULL));
}

int
sr_rpos_init(void *h, int reader, size_t data_size) {
	sr_t *s = h;

	return (r_buf_rpos_init(s->rb, &s->rp[reader], data_size));
}

int
sr_rpos_check_fast(void *h, int reader) {
	sr_t *s = h;

	return (r_buf_rpos_check_fast(s->rb, &s->rp[reader]));
}

size_t
sr_avail(void *h, int reader, size_t *drop) {
	sr_t *s = h;

	*drop = 0;
	return (r_buf_data_avail_size(s->rb, &s->rp[reader], drop));
}

size_t
sr_data_get(void *h, int reader, size_t data_size, size_t iov_cnt, sr_iov *out, size_t out_cap,
    size_t *drop, size_t *data_size_ret) {
	sr_t *s = h;
	iovec_p iov = malloc(sizeof(iovec_t) * (iov_cnt ? iov_cnt : 1));
	size_t i, n;

	if (NULL == iov)
		abort();
	memset(iov, 0xa5, sizeof(iovec_t) * (iov_cnt ? iov_cnt : 1));
	*drop = 0;
	*data_size_ret = 0;
	n = r_buf_data_get(s->rb, &s->rp[reader], data_size, iov, iov_cnt, drop, data_size_ret);
	for (i = 0; i < n && i < iov_cnt && i < out_cap; i ++) {
		out[i].off = (int64_t)(iov[i].iov_base - s->rb->buf);
		out[i].len = iov[i].iov_len;
	}
	free(iov);
	return (n);
}

void
sr_rpos_inc(void *h, int reader, size_t k) {
	sr_t *s = h;

	r_buf_rpos_inc(s->rb, &s->rp[reader], k);
}

void
sr_state_get(void *h, sr_state *st) {
	sr_t *s = h;
	r_buf_p rb = s->rb;
	int i;

	st->size = rb->size;
	st->wpos = rb->wpos;
	st->iov_count = rb->iov_count;
	st->iov_index = rb->iov_index;
	st->iov_index_max = rb->iov_index_max;
	st->round_num = rb->round_num;
	st->min_block_size = rb->min_block_size;
	st->flags = rb->flags;
	if (rb->iov_index < rb->iov_count) {
		st->cur_base_off = (int64_t)(rb->iov[rb->iov_index].iov_base - rb->buf);
		st->cur_len = rb->iov[rb->iov_index].iov_len;
	} else {
		st->cur_base_off = INT64_MIN;
		st->cur_len = 0;
	}
	for (i = 0; i < SR_READERS; i ++) {
		st->rp[i].iov_index = s->rp[i].iov_index;
		st->rp[i].iov_off = s->rp[i].iov_off;
		st->rp[i].round_num = s->rp[i].round_num;
		st->rp[i].blk_off = INT64_MIN;
		st->rp[i].blk_len = 0;
		if (s->rp[i].iov_index < rb->iov_count && NULL != rb->iov[s->rp[i].iov_index].iov_base) {
			st->rp[i].blk_off = (int64_t)(rb->iov[s->rp[i].iov_index].iov_base - rb->buf);
			st->rp[i].blk_len = rb->iov[s->rp[i].iov_index].iov_len;
		}
		st->rp[i].rest_of_round = 0;
		if (s->rp[i].iov_index <= rb->iov_index_max && rb->iov_index_max < rb->iov_count) {
			size_t j;
			for (j = s->rp[i].iov_index; j <= rb->iov_index_max; j ++)
				st->rp[i].rest_of_round += rb->iov[j].iov_len;
			st->rp[i].rest_of_round -= MIN(s->rp[i].iov_off, st->rp[i].rest_of_round);
		}
	}
}

unsigned
sr_traps(void) {
	return (sr_trap_cnt);
}
