/* Flat ABI between drivers/C17_ini.cpp (C++) and shims/ini_shim.c (C, includes /repo).
 * The shim is a thin pass-through: every buffer handed to the library is an
 * exact-size heap copy made here (so ASan sees over-reads), names are passed
 * either as (ptr,size) without terminator or as (C string, 0) -- the two calling
 * conventions ini.h offers ("size 0 => strlen()", used by tp_settings_load_ini). */
#ifndef VERIF_INI_ABI_H
#define VERIF_INI_ABI_H
#include <stdint.h>
#include <stddef.h>

#ifdef __cplusplus
extern "C" {
#endif

#define SI_OFF_INVALID ((size_t)~(size_t)0)

typedef struct {
	const uint8_t *p;	/* bytes (need not be terminated) */
	size_t n;		/* length */
	int cstr;		/* 1: pass as NUL terminated string with size 0 */
} si_name;

void *si_create(int *rc);
void si_destroy(void *ini);

int si_parse(void *ini, const uint8_t *text, size_t n);
int si_calc_size(void *ini, size_t *size);
/* Calls ini_buf_gen() twice into a heap block of buf_size+slack bytes pre-filled with
 * two different canaries. out (cap >= buf_size) receives the first buf_size bytes,
 * *overrun = number of bytes at index >= buf_size that were modified,
 * *differs = 1 when the two runs disagree (rc, size or content). */
int si_gen(void *ini, size_t buf_size, size_t slack, uint8_t *out, size_t *size_ret,
    size_t *overrun, int *differs);

int si_set(void *ini, const si_name *sect, const si_name *key, const uint8_t *val, size_t val_n);
int si_set_int(void *ini, const si_name *sect, const si_name *key, int64_t v);
int si_set_uint(void *ini, const si_name *sect, const si_name *key, uint64_t v);

/* ci: 0 = ini_val_get*, 1 = ini_vali_get*.  *val points into the store. */
int si_get(void *ini, int ci, const si_name *sect, const si_name *key, const uint8_t **val, size_t *val_n);
int si_get_int(void *ini, int ci, const si_name *sect, const si_name *key, int64_t *v);
int si_get_uint(void *ini, int ci, const si_name *sect, const si_name *key, uint64_t *v);

size_t si_sect_find(void *ini, int ci, const uint8_t *name, size_t n);
size_t si_val_find(void *ini, int ci, size_t sect_off, const uint8_t *name, size_t n);
int si_sect_enum(void *ini, size_t *off, const uint8_t **name, size_t *name_n);
int si_val_enum(void *ini, size_t sect_off, size_t *val_off, const uint8_t **name, size_t *name_n,
    const uint8_t **val, size_t *val_n);

#ifdef __cplusplus
}
#endif
#endif
