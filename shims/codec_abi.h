/* Flat ABI between drivers/C14_codec.cpp (C++) and shims/codec.c (C, includes /repo).
 * One call = one library call on freshly allocated exact-size buffers. */
#ifndef VERIF_CODEC_ABI_H
#define VERIF_CODEC_ABI_H
#include <stdint.h>
#include <stddef.h>

#define C14_MAXIN	1536
#define C14_MAXOUT	3072
#define C14_MAXPARTS	16
#define C14_BAND	64	/* canary band on each side of an output buffer (non-ASan builds) */
#define C14_SENTINEL	0xdeadbeefcafef00dULL	/* *size_ret before the call */

enum {
	C14_B64_ENC = 1,	/* base64_encode(in, in_len, out, cap, &size_ret) */
	C14_B64_DEC,		/* base64_decode(in, in_len, out, cap, &size_ret) */
	C14_B64_EN_COPY,	/* base64_en_copy(in, out, in_len, &size_ret); out is cap bytes */
	C14_B64_DEC_FMT,	/* base64_decode_fmt(in, in_len, out, cap, &size_ret) */
	C14_BIN2HEX,		/* cvt_bin2hex(in, in_len, F_AUTO, out, cap, &size_ret) */
	C14_HEX2BIN,		/* cvt_hex2bin(in, in_len, F_AUTO, out, cap, &size_ret) */
	C14_NUM2STR,		/* <sub>2str / <sub>2ustr (num, out, cap, &size_ret) */
	C14_STR2NUM,		/* str2<sub> / ustr2<sub> (in, in_len) -> val */
	C14_STRH2NUM,		/* strh2<sub> / ustrh2<sub> (in, in_len) -> val */
	C14_XML_ENC,		/* xml_encode(in, in_len, out, cap, &size_ret) */
	C14_XML_DEC,		/* xml_decode(in, in_len, out, cap, &size_ret) */
	C14_URL_DEC,		/* http_url_decode(in, in_len, out, cap) -> size_ret */
	C14_CRC			/* crc32<sub>(part0) then crc32<sub>_update(...) per further part -> val */
};

/* integer types (sub of NUM2STR/STR2NUM/STRH2NUM) */
enum { C14_T_USIZE = 0, C14_T_U8, C14_T_U16, C14_T_U32, C14_T_U64,
       C14_T_SSIZE, C14_T_S8, C14_T_S16, C14_T_S32, C14_T_S64, C14_T_COUNT };

/* CRC variants (sub of CRC) */
enum { C14_CRC_A = 0, C14_CRC_CKSUM, C14_CRC_MPEG2, C14_CRC_B, C14_CRC_JAMCRC,
       C14_CRC_C, C14_CRC_D, C14_CRC_Q, C14_CRC_COUNT };

#define C14_F_USTR	1	/* uint8_t* flavour of the number functions */
#define C14_F_AUTO	2	/* auto_out_size / auto_hex_size != 0 */
#define C14_F_NULLSZ	4	/* pass NULL as the size_ret pointer */

typedef struct {
	int32_t op, sub, flags;
	uint8_t fill;			/* output buffer is pre-filled with this byte */
	uint64_t num;			/* NUM2STR: value (two's complement, low bits used) */
	uint32_t in_len;		/* input bytes, copied into malloc(in_len): no NUL, no slack */
	uint32_t cap;			/* size passed to the function as the output capacity */
	uint32_t slack;			/* extra bytes allocated behind cap (0 = exact) */
	uint32_t nparts;		/* CRC: chunk sizes, sum == in_len (0 parts = one shot) */
	uint32_t parts[C14_MAXPARTS];
	uint8_t in[C14_MAXIN];
} c14_in;

typedef struct {
	int32_t rc;			/* return code (0 for value-returning functions) */
	int32_t size_ret_set;		/* *size_ret differs from C14_SENTINEL after the call */
	uint64_t size_ret;
	uint64_t val;			/* STR2NUM/STRH2NUM (sign extended) / CRC */
	uint32_t out_len;		/* cap + slack bytes copied back to out[] */
	uint8_t guard_lo, guard_hi;	/* canary bytes changed below / above the buffer (non-ASan builds) */
	uint8_t out[C14_MAXOUT];
} c14_out;

enum { C14_INFO_SIZE_T_BITS = 0, C14_INFO_ASAN = 1, C14_INFO_SMALL_TBL_LIMIT = 2 };

#ifdef __cplusplus
extern "C" {
#endif
long c14_info(int what);
void c14_call(const c14_in *in, c14_out *out);
#ifdef __cplusplus
}
#endif
#endif
