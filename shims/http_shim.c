/* C shim over /repo/include/proto/http.h for drivers/C20_http.cpp.
 * Linked with repo:src/proto/http.c, rebuilt per build variant.
 * Inputs are handed to liblcb as exact-size heap copies without a trailing NUL
 * (the API takes pointer + size everywhere and documents no terminator). */
#include <sys/param.h>
#include <sys/types.h>
#include <stdint.h>
#include <stdlib.h>
#include <string.h>
#include <errno.h>

#include <proto/http.h>
#include "http_abi.h"

static uint8_t hs_dummy[1];

static uint8_t *
dup_exact(const uint8_t *p, size_t len) {
	uint8_t *r;

	if (0 == len)
		return (hs_dummy);
	r = malloc(len);
	if (NULL != r) {
		memcpy(r, p, len);
	}
	return (r);
}

static void
free_exact(uint8_t *p) {

	if (hs_dummy != p) {
		free(p);
	}
}

static long
rel(const uint8_t *base, size_t len, const uint8_t *p) {

	if (NULL == p)
		return (HS_NULL);
	if (p < base || p > (base + len))
		return (HS_OUTSIDE);
	return ((long)(p - base));
}

unsigned
hs_method(const uint8_t *m, size_t n) {
	uint8_t *b = dup_exact(m, n);
	unsigned r;

	r = http_get_method_fast(b, n);
	free_exact(b);
	return (r);
}

void
hs_parse_req(const uint8_t *buf, size_t len, hs_req *o) {
	uint8_t *b = dup_exact(buf, len);
	http_req_line_data_t d;

	memset(o, 0x00, sizeof(*o));
	memset(&d, 0xEE, sizeof(d));
	o->rc = http_parse_req_line(b, len, &d);
	if (0 == o->rc) {
		o->line_size = (long)d.line_size;
		o->method_off = rel(b, len, d.method);
		o->method_size = (long)d.method_size;
		o->method_code = d.method_code;
		o->uri_off = rel(b, len, d.uri);
		o->uri_size = (long)d.uri_size;
		o->scheme_off = rel(b, len, d.scheme);
		o->scheme_size = (long)d.scheme_size;
		o->host_off = rel(b, len, d.host);
		o->host_size = (long)d.host_size;
		o->path_off = rel(b, len, d.abs_path);
		o->path_size = (long)d.abs_path_size;
		o->query_off = rel(b, len, d.query);
		o->query_size = (long)d.query_size;
		o->proto_ver = d.proto_ver;
	}
	free_exact(b);
}

void
hs_parse_resp(const uint8_t *buf, size_t len, hs_resp *o) {
	uint8_t *b = dup_exact(buf, len);
	http_resp_line_data_t d;

	memset(o, 0x00, sizeof(*o));
	memset(&d, 0xEE, sizeof(d));
	o->rc = http_parse_resp_line(b, len, &d);
	if (0 == o->rc) {
		o->line_size = (long)d.line_size;
		o->proto_ver = d.proto_ver;
		o->status_code = d.status_code;
		o->reason_off = rel(b, len, d.reason_phrase);
		o->reason_size = (long)d.reason_phrase_size;
	}
	free_exact(b);
}

int
hs_sec_chk(const uint8_t *buf, size_t len, unsigned method_code) {
	uint8_t *b = dup_exact(buf, len);
	int rc;

	rc = http_req_sec_chk(b, len, method_code);
	free_exact(b);
	return (rc);
}

void
hs_hdr_lookup(const uint8_t *buf, size_t len, const uint8_t *name, size_t name_len,
    int what, hs_hdr *o) {
	uint8_t *b = dup_exact(buf, len), *nm = dup_exact(name, name_len);
	const uint8_t *v;
	size_t vs, off, next;
	int rc;

	memset(o, 0x00, sizeof(*o));
	o->first_rc = -1;
	o->last_rc = -1;
	if (0 != (what & 2)) {
		o->count = http_hdr_val_get_count(b, len, nm, name_len);
	}
	if (0 != (what & 1)) {
		v = NULL;
		vs = 0;
		o->first_rc = http_hdr_val_get(b, len, nm, name_len, &v, &vs);
		o->first_off = rel(b, len, v);
		o->first_size = (long)vs;
		for (off = 0; o->n < 64;) {
			v = NULL;
			vs = 0;
			next = off;
			rc = http_hdr_val_get_ex(b, len, nm, name_len, off, &v, &vs, &next);
			o->last_rc = rc;
			if (0 != rc)
				break;
			o->off[o->n] = rel(b, len, v);
			o->size[o->n] = (long)vs;
			o->n ++;
			if (next <= off) {
				o->last_rc = HS_NOPROGRESS;
				break;
			}
			off = next;
		}
	}
	free_exact(b);
	free_exact(nm);
}

int
hs_query_get(const uint8_t *q, size_t qlen, const uint8_t *name, size_t name_len,
    long *name_off, long *val_off, long *val_size) {
	uint8_t *b = dup_exact(q, qlen), *nm = dup_exact(name, name_len);
	const uint8_t *np = NULL, *v = NULL;
	size_t vs = 0;
	int rc;

	rc = http_query_val_get_ex(b, qlen, nm, name_len, &np, &v, &vs);
	(*name_off) = rel(b, qlen, np);
	(*val_off) = rel(b, qlen, v);
	(*val_size) = (long)vs;
	free_exact(b);
	free_exact(nm);
	return (rc);
}

size_t
hs_query_del(uint8_t *q_inout, size_t qlen, const uint8_t *name, size_t name_len,
    size_t *new_len) {
	uint8_t *b = dup_exact(q_inout, qlen), *nm = dup_exact(name, name_len);
	size_t r, nl = qlen;

	r = http_query_val_del(b, qlen, nm, name_len, &nl);
	if (nl <= qlen) {
		memcpy(q_inout, b, nl);
	}
	(*new_len) = nl;
	free_exact(b);
	free_exact(nm);
	return (r);
}

size_t
hs_err_descr(unsigned status, char *out, size_t cap, size_t *size_ret) {
	size_t sz = (size_t)~0;
	const char *p = http_get_err_descr(status, &sz);
	size_t n = ((NULL != p) ? strlen(p) : 0);

	(*size_ret) = sz;
	if (n >= cap) {
		n = (cap - 1);
	}
	memcpy(out, p, n);
	out[n] = 0;
	return (n);
}
