/* Flat ABI between drivers/C12_caps.cpp (C++) and shims/caps.c (C, includes /repo headers and
 * src/utils/buf_str.c). One call = one library function with one output capacity. */
#ifndef VERIF_CAPS_ABI_H
#define VERIF_CAPS_ABI_H
#include <stdint.h>
#include <stddef.h>

#define CAPS_SENT	0xA5A5A5A5A5A5A5A5ULL	/* *size_ret was not written */
#define CAPS_FILL	0xEE			/* output buffer fill */
#define CAPS_GUARD	64			/* canary bytes in front of / behind the capacity */
#define CAPS_MAXOUT	512

enum {
	CAPS_NUM = 0,		/* fn: 0..9 usize,u8,u16,u32,u64 x {str,ustr}; 10..19 signed */
	CAPS_B64_ENC = 1,
	CAPS_B64_DEC = 2,
	CAPS_B64_FMT = 3,
	CAPS_HEX2BIN = 4,	/* fn = auto_out_size */
	CAPS_BIN2HEX = 5	/* fn = auto_out_size */
};

typedef struct {
	int rc;
	uint64_t size_ret;	/* CAPS_SENT when untouched */
	uint32_t under;		/* canary bytes changed in front of the buffer (mode 0 only) */
	uint32_t over;		/* canary bytes changed behind the capacity (mode 0 only) */
	uint32_t out_len;	/* min(cap, CAPS_MAXOUT) bytes of the buffer after the call */
	uint8_t out[CAPS_MAXOUT];
} caps_res_t;

#ifdef __cplusplus
extern "C" {
#endif
/* mode 0: the capacity sits between two canary zones inside one allocation (out-of-range WRITES are
 *         reported in under/over, nothing crashes);
 * mode 1: input and output are separate exact-size malloc blocks (sanitised variants also catch
 *         out-of-range READS; an error ends the process through the sanitizer). */
void caps_call(int family, int fn, uint64_t bits, const uint8_t *in, uint64_t in_len, uint64_t cap,
    int mode, caps_res_t *rs);
#ifdef __cplusplus
}
#endif
#endif
