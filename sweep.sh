#!/bin/bash
# seed sweep on the unchanged tree: every quick check with several VERIF_SEED values; prints one line per run
# usage: sweep.sh "seeds" "props" [tier]
cd "$(dirname "$0")"
export VERIF_REPO=${VP_RUN_REPO:-/repo}
./check --setup > setup.log 2>&1 || { echo "SETUP FAILED"; tail -20 setup.log; }
tier=${3:-quick}
for s in $1; do
  for p in $2; do
    t0=$(date +%s)
    VERIF_SEED=$s ./check $p --tier $tier > sweep_${p}_$s.log 2>&1
    rc=$?
    t1=$(date +%s)
    echo "seed=$s $p exit=$rc wall=$((t1-t0))s $(grep -c '^VIOLATION' sweep_${p}_$s.log) violations $(grep -c '^INCONCLUSIVE\|CHECK-BROKEN' sweep_${p}_$s.log) notes"
    [ $rc -ne 0 ] && grep -E "^VIOLATION|reason:|CHECK-BROKEN" sweep_${p}_$s.log | cut -c1-300 | head -6
  done
done
