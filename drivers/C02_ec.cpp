// C02 -- elliptic-curve group law and scalar multiplication in every build.
// rapidcheck differential against refimpl/ec_ref.hpp (textbook affine group law
// over GMP). Links against one shims/ec.c variant (coordinate system, mixed add,
// repeated doubling, FXP/UNKPT/TWIN algorithms and windows, digit width).
#include "pbt.hpp"
#include "../shims/ec_abi.h"
#include "ec_ref.hpp"
#include <openssl/bn.h>
#include <openssl/ec.h>
#include <openssl/objects.h>
#include <algorithm>
#include <memory>

using namespace pbt;
using ecref::Curve;
using ecref::Pt;

// ---------------------------------------------------------------- build configuration (from the shim)
static long W, BITLEN, CFG_PROJ, CFG_MIX, CFG_REP, FXP_ALGO, FXP_WIN, UNK_ALGO, UNK_WIN, TWIN_ALGO, TWIN_OK, PREDBL_SIZE;
enum { A_BIN = 0, A_PREDBL = 1, A_SLWIN = 2, A_COMB1 = 3, A_COMB2 = 4 };
enum { T_BIN = 0, T_FXP_UNKPT = 1, T_JOINT = 2, T_INTER = 3 };
#define EC_FLAG_A_M3 1u

static size_t bitlen(const mpz_class &z) { return z == 0 ? 0 : mpz_sizeinbase(z.get_mpz_t(), 2); }
static mpz_class pow2(size_t k) { mpz_class r = 1; r <<= k; return r; }
static std::string hx(const mpz_class &z, size_t width = 0) {
  std::string s = z.get_str(16);
  if (s.size() < width) s = std::string(width - s.size(), '0') + s;
  if (s.size() % 2) s = "0" + s;
  return s;
}
static mpz_class unhx(const std::string &s) { return s.empty() ? mpz_class(0) : mpz_class(s, 16); }
static std::string zs(const mpz_class &z) { return "0x" + z.get_str(16); }
static std::string ps(const Pt &P) { return P.inf ? std::string("INF") : "(" + zs(P.x) + "," + zs(P.y) + ")"; }
static void put_le(uint8_t *d, const mpz_class &v) {
  memset(d, 0, ECS_MAXB);
  if (v <= 0) return;
  size_t cnt = 0;
  uint8_t tmp[ECS_MAXB * 2] = {0};
  if ((mpz_sizeinbase(v.get_mpz_t(), 2) + 7) / 8 > ECS_MAXB) return;
  mpz_export(tmp, &cnt, -1, 1, 0, 0, v.get_mpz_t());
  memcpy(d, tmp, std::min<size_t>(cnt, ECS_MAXB));
}
static mpz_class get_le(const uint8_t *p) {
  mpz_class z;
  mpz_import(z.get_mpz_t(), ECS_MAXB, -1, 1, 0, 0, p);
  return z;
}

// ---------------------------------------------------------------- reference curves
struct RCurve {
  Curve c;
  ecs_curve abi;
  int kind = 0;  // 0 table, 1 tiny synthetic (group enumerable), 2 mid synthetic
  mpz_class N;   // group order (mid / tiny) or 0
  std::vector<mpz_class> fac;
};
static std::vector<RCurve> TBL;
struct MidDef { const char *tag, *p, *a, *b, *gx, *gy, *n, *N, *fac; };
static const MidDef MID_DEFS[] = {
#include "C02_mid_curves.inc"
};
static std::vector<RCurve> MID;

static void fill_abi(RCurve &r) {
  memset(&r.abi, 0, sizeof(r.abi));
  const Curve &c = r.c;
  size_t bytes = (c.m + 7) / 8, w = 2 * bytes;
  snprintf(r.abi.p, ECS_HEX, "%s", hx(c.p, w).c_str());
  snprintf(r.abi.a, ECS_HEX, "%s", hx(c.a, w).c_str());
  snprintf(r.abi.b, ECS_HEX, "%s", hx(c.b, w).c_str());
  snprintf(r.abi.gx, ECS_HEX, "%s", hx(c.G.x, w).c_str());
  snprintf(r.abi.gy, ECS_HEX, "%s", hx(c.G.y, w).c_str());
  snprintf(r.abi.n, ECS_HEX, "%s", hx(c.n, w).c_str());  // longer than w when n needs more bytes (table convention)
  r.abi.m = c.m; r.abi.t = c.t; r.abi.h = c.h; r.abi.flags = c.flags; r.abi.algo = c.algo;
}
static const RCurve *table_by_name(const std::string &n) {
  for (auto &r : TBL) if (r.c.name == n) return &r;
  return nullptr;
}

// ---------------------------------------------------------------- case
struct EcCase {
  std::string cname;  // table curve name, "" => synthetic parameters below
  mpz_class p, a, b, gx, gy, n;
  unsigned m = 0, flags = 0;
  int op = 0, capsel = 1, coord = 0, algo = 0;
  unsigned wbits = 0, ndbl = 0, junk = 0;
  int pinf = 1, qinf = 1, offcurve = 0;  // operands an op does not use stay at infinity
  mpz_class px, py, pz, qx, qy, qz;  // pz/qz: Jacobian scaling for the raw entry points (0 => 1)
  mpz_class k, l;
  std::string ser() const {
    Writer w;
    w.s("curve", cname);
    if (cname.empty()) {
      w.s("p", hx(p)).s("a", hx(a)).s("b", hx(b)).s("gx", hx(gx)).s("gy", hx(gy)).s("n", hx(n));
      w.u("m", m).u("flags", flags);
    }
    w.i("op", op).i("capsel", capsel).i("coord", coord).i("algo", algo).u("wbits", wbits).u("ndbl", ndbl).u("junk", junk);
    w.i("pinf", pinf).s("px", hx(px)).s("py", hx(py)).s("pz", hx(pz));
    w.i("qinf", qinf).s("qx", hx(qx)).s("qy", hx(qy)).s("qz", hx(qz));
    w.s("k", hx(k)).s("l", hx(l)).i("offcurve", offcurve);
    return w.str();
  }
  static EcCase parse(const std::string &t) {
    Reader r(t);
    EcCase c;
    c.cname = r.s("curve");
    c.p = unhx(r.s("p")); c.a = unhx(r.s("a")); c.b = unhx(r.s("b"));
    c.gx = unhx(r.s("gx")); c.gy = unhx(r.s("gy")); c.n = unhx(r.s("n"));
    c.m = (unsigned)r.u("m"); c.flags = (unsigned)r.u("flags");
    c.op = (int)r.i("op"); c.capsel = (int)r.i("capsel", 1); c.coord = (int)r.i("coord"); c.algo = (int)r.i("algo");
    c.wbits = (unsigned)r.u("wbits"); c.ndbl = (unsigned)r.u("ndbl"); c.junk = (unsigned)r.u("junk");
    c.pinf = (int)r.i("pinf"); c.px = unhx(r.s("px")); c.py = unhx(r.s("py")); c.pz = unhx(r.s("pz"));
    c.qinf = (int)r.i("qinf"); c.qx = unhx(r.s("qx")); c.qy = unhx(r.s("qy")); c.qz = unhx(r.s("qz"));
    c.k = unhx(r.s("k")); c.l = unhx(r.s("l")); c.offcurve = (int)r.i("offcurve");
    return c;
  }
  void setP(const Pt &P) { pinf = P.inf; px = P.inf ? mpz_class(0) : P.x; py = P.inf ? mpz_class(0) : P.y; }
  void setQ(const Pt &Q) { qinf = Q.inf; qx = Q.inf ? mpz_class(0) : Q.x; qy = Q.inf ? mpz_class(0) : Q.y; }
  void setCurve(const RCurve &r) {
    if (r.kind == 0) { cname = r.c.name; return; }
    cname.clear();
    p = r.c.p; a = r.c.a; b = r.c.b; gx = r.c.G.x; gy = r.c.G.y; n = r.c.n; m = r.c.m; flags = r.c.flags;
  }
};
void showValue(const EcCase &c, std::ostream &os) { os << c.ser(); }

// resolve the curve of a case; synthetic parameters are validated (replay files may be hand written)
static const RCurve *resolve(const EcCase &c, RCurve &tmp) {
  if (!c.cname.empty()) return table_by_name(c.cname);
  Curve &C = tmp.c;
  C.name = "";
  C.p = c.p; C.a = c.a; C.b = c.b; C.n = c.n; C.G = Pt(c.gx, c.gy);
  C.m = c.m; C.flags = c.flags; C.h = 1; C.t = c.m / 2; C.algo = 0;
  if (C.p < 5 || !mpz_probab_prime_p(C.p.get_mpz_t(), 25)) return nullptr;
  if (C.m < bitlen(C.p) || C.m > 528) return nullptr;
  if (C.a < 0 || C.a >= C.p || C.b < 0 || C.b >= C.p || !ecref::nonsingular(C)) return nullptr;
  if (!ecref::on_curve(C, C.G) || C.n <= 0 || !ecref::mul(C, C.n, C.G).inf) return nullptr;
  if ((C.flags & EC_FLAG_A_M3) && C.a != C.p - 3) return nullptr;
  if (C.flags & ~EC_FLAG_A_M3) return nullptr;
  tmp.kind = C.p < 256 ? 1 : 2;
  fill_abi(tmp);
  return &tmp;
}

// ---------------------------------------------------------------- op table
struct OpInfo { int op; const char *name; int fam; };  // fam: 0 add-like, 1 mult, 2 twin, 3 predicate
static const OpInfo OPS[] = {
    {EO_ADD, "add", 0}, {EO_SUB, "sub", 0}, {EO_DBL_ALIAS, "dbl_alias", 0}, {EO_DBL_EQ, "dbl_eq", 0},
    {EO_BIN_MULT, "bin_mult", 1}, {EO_UNKPT_MULT, "unknown_pt_mult", 1}, {EO_MULT_BP, "mult_bp", 1}, {EO_FPX_MULT, "fpx_mult", 1},
    {EO_SUB_ALIAS, "sub_alias", 0}, {EO_AFF_SUB_ALIAS, "aff_sub_alias", 0}, {EO_PRJ_SUB_ALIAS, "prj_sub_alias", 0}, {EO_RAW_SUB_ALIAS, "raw_sub_alias", 0},
    {EO_TWIN, "twin_mult", 2}, {EO_TWIN_BP, "twin_mult_bp", 2}, {EO_TWIN_FXP_UNKPT_BP, "fpx_unkpt_twin_mult_bp", 2},
    {EO_AFF_ADD, "aff_add", 0}, {EO_AFF_SUB, "aff_sub", 0}, {EO_AFF_DBL_ALIAS, "aff_dbl_alias", 0}, {EO_AFF_DBL_EQ, "aff_dbl_eq", 0},
    {EO_AFF_DBL_N, "aff_dbl_n", 0}, {EO_AFF_BIN_MULT, "aff_bin_mult", 1},
    {EO_PRJ_ADD, "prj_add", 0}, {EO_PRJ_SUB, "prj_sub", 0}, {EO_PRJ_DBL_ALIAS, "prj_dbl_alias", 0}, {EO_PRJ_DBL_EQ, "prj_dbl_eq", 0},
    {EO_PRJ_BIN_MULT, "prj_bin_mult", 1},
    {EO_RAW_ADD, "raw_add", 0}, {EO_RAW_SUB, "raw_sub", 0}, {EO_RAW_DBL_ALIAS, "raw_dbl_alias", 0}, {EO_RAW_DBL_EQ, "raw_dbl_eq", 0},
    {EO_RAW_ADD_MIX, "raw_add_mix", 0}, {EO_RAW_SUB_MIX, "raw_sub_mix", 0}, {EO_RAW_DBL_N, "raw_dbl_n", 0},
    {EO_ALGO_MULT, "algo_mult", 1}, {EO_TWIN_DIRECT, "twin_direct", 2},
    {EO_CHECK_AFFINE, "check_affine", 3}, {EO_CURVE_VALIDATE, "curve_validate", 3}, {EO_CHECK_SCALAR_MULT, "check_scalar_mult", 3},
    {EO_IS_INVERSE, "is_inverse", 3},
};
static const OpInfo *opinfo(int op) {
  for (auto &o : OPS) if (o.op == op) return &o;
  return nullptr;
}
static const char *ALGO_NAME[] = {"bin", "predbl", "slwin", "comb1t", "comb2t"};
static const char *TWIN_NAME[] = {"bin", "fxp_unkpt", "joint", "inter"};
static bool is_raw(int op) { return op >= EO_RAW_ADD && op <= EO_RAW_SUB_ALIAS; }

// ---------------------------------------------------------------- ladder walkers (labelling only):
// which exceptional additions does the algorithm meet for this scalar? Re-implements the
// recodings (binary, fixed window over W-bit digits, comb columns, JSF, width-4 NAF)
// over reference points.
struct Walk {
  const Curve &C;
  Pt acc;
  bool started = false;
  unsigned eq = 0, opp = 0, acc_inf = 0, addend_inf = 0, dbl_y0 = 0;
  explicit Walk(const Curve &c) : C(c) {}
  void add(const Pt &A) {
    if (A.inf) addend_inf++;
    else if (acc.inf) { if (started) acc_inf++; }
    else if (acc == A) eq++;
    else if (acc == ecref::neg(C, A)) opp++;
    if (!A.inf) started = true;
    acc = ecref::add(C, acc, A);
  }
  void sub(const Pt &A) { add(ecref::neg(C, A)); }
  void dbl() {
    if (!acc.inf && acc.y == 0) dbl_y0++;
    acc = ecref::add(C, acc, acc);
  }
  unsigned exc() const { return eq + opp + acc_inf + addend_inf + dbl_y0; }
  void merge(const Walk &o) { eq += o.eq; opp += o.opp; acc_inf += o.acc_inf; addend_inf += o.addend_inf; dbl_y0 += o.dbl_y0; }
};
static size_t ndigits(const mpz_class &k) { return (bitlen(k) + (size_t)W - 1) / (size_t)W; }
static bool comb_path(const Curve &C, const mpz_class &k) { return ndigits(k) * (size_t)W <= C.m; }

static void walk_bin(Walk &w, const mpz_class &k, const Pt &P) {
  Pt tm = P;
  size_t bits = bitlen(k);
  for (size_t i = 0; i < bits; i++) {
    if (mpz_tstbit(k.get_mpz_t(), i)) w.add(tm);
    if (!tm.inf && tm.y == 0) w.dbl_y0++;
    tm = ecref::add(w.C, tm, tm);
  }
}
static void walk_mult(Walk &w, int algo, unsigned wb, const mpz_class &k, const Pt &P) {
  const Curve &C = w.C;
  if (k == 0 || P.inf) return;
  if (k == 1) { w.acc = P; w.started = true; return; }
  switch (algo) {
  case A_BIN: walk_bin(w, k, P); break;
  case A_PREDBL: {
    Pt tm = P;
    size_t bits = bitlen(k);
    for (size_t i = 0; i < bits; i++) {
      if (mpz_tstbit(k.get_mpz_t(), i)) w.add(tm);
      tm = ecref::add(C, tm, tm);
    }
    break;
  }
  case A_SLWIN: {
    std::vector<Pt> tbl(((size_t)1 << wb));
    for (size_t i = 1; i < tbl.size(); i++) tbl[i] = ecref::add(C, tbl[i - 1], P);
    size_t nd = ndigits(k);
    for (size_t i = nd; i-- > 0;)
      for (size_t j = (size_t)W / wb; j-- > 0;) {
        for (unsigned d = 0; d < wb; d++) w.dbl();
        mpz_class t = (k >> (i * (size_t)W + j * wb)) & mpz_class((1u << wb) - 1);
        unsigned long wi = t.get_ui();
        if (wi) w.add(tbl[wi]);
      }
    break;
  }
  case A_COMB1: case A_COMB2: {
    if (!comb_path(C, k)) { walk_bin(w, k, P); break; }
    size_t d = (C.m + wb - 1) / wb, e = (d + 1) / 2;
    std::vector<Pt> T(wb), T2(wb);
    T[0] = P;
    for (unsigned j = 1; j < wb; j++) { T[j] = T[j - 1]; for (size_t t = 0; t < d; t++) T[j] = ecref::add(C, T[j], T[j]); }
    for (unsigned j = 0; j < wb; j++) { T2[j] = T[j]; for (size_t t = 0; t < e; t++) T2[j] = ecref::add(C, T2[j], T2[j]); }
    auto column = [&](size_t i, const std::vector<Pt> &tb, bool &any) {
      Pt s;
      any = false;
      for (unsigned j = 0; j < wb; j++)
        if (mpz_tstbit(k.get_mpz_t(), i + j * d)) { s = ecref::add(C, s, tb[j]); any = true; }
      return s;
    };
    if (algo == A_COMB1) {
      for (size_t i = d; i-- > 0;) {
        w.dbl();
        bool any; Pt s = column(i, T, any);
        if (any) w.add(s);
      }
    } else {
      for (size_t i = e; i-- > 0;) {
        w.dbl();
        bool any; Pt s = column(i, T, any);
        if (any) w.add(s);
        if (i + e >= d) continue;
        s = column(i + e, T2, any);
        if (any) w.add(s);
      }
    }
    break;
  }
  }
}
static void calc_jsf(mpz_class k0, mpz_class k1, std::vector<int> &u0, std::vector<int> &u1) {
  int d0 = 0, d1 = 0;
  while (k0 + d0 > 0 || k1 + d1 > 0) {
    int l0 = (int)((mpz_class(k0 & 7).get_ui() + d0) & 7), l1 = (int)((mpz_class(k1 & 7).get_ui() + d1) & 7);
    int a0 = 0, a1 = 0;
    if (l0 & 1) { a0 = 2 - (l0 & 3); if ((l0 == 3 || l0 == 5) && (l1 & 3) == 2) a0 = -a0; }
    if (l1 & 1) { a1 = 2 - (l1 & 3); if ((l1 == 3 || l1 == 5) && (l0 & 3) == 2) a1 = -a1; }
    if (2 * d0 == 1 + a0) d0 = 1 - d0;
    if (2 * d1 == 1 + a1) d1 = 1 - d1;
    u0.push_back(a0); u1.push_back(a1);
    k0 >>= 1; k1 >>= 1;
  }
}
static std::vector<int> calc_naf(mpz_class k, unsigned wb) {
  std::vector<int> r;
  while (k > 0) {
    int d = 0;
    if (mpz_odd_p(k.get_mpz_t())) {
      d = (int)mpz_class(k & ((1u << wb) - 1)).get_ui();
      if (d >= (1 << (wb - 1))) d -= (1 << wb);
      k -= d;
    }
    r.push_back(d);
    k >>= 1;
  }
  return r;
}
static void walk_twin(Walk &w, int talgo, const mpz_class &k, const Pt &P, const mpz_class &l, const Pt &Q,
                      int fa, unsigned fw, int ua, unsigned uw) {
  const Curve &C = w.C;
  switch (talgo) {
  case T_BIN: case T_FXP_UNKPT: {
    Walk a(C), b(C);
    walk_mult(a, talgo == T_BIN ? A_BIN : fa, fw, k, P);
    walk_mult(b, talgo == T_BIN ? A_BIN : ua, uw, l, Q);
    w.merge(a); w.merge(b);
    w.acc = a.acc; w.started = true;
    if (a.acc.inf || b.acc.inf) w.addend_inf++;
    else w.add(b.acc);
    break;
  }
  case T_JOINT: {
    Pt tb[4] = {Q, P, ecref::add(C, P, Q), ecref::sub(C, P, Q)};
    if (tb[2].inf || tb[3].inf) w.addend_inf++;  // table entry at infinity (P = +-Q)
    std::vector<int> u0, u1;
    calc_jsf(k, l, u0, u1);
    for (size_t i = u0.size(); i-- > 0;) {
      w.dbl();
      int idx = 2 * u0[i] + u1[i];
      if (u0[i] != 0 && u0[i] == -u1[i]) idx = idx < 0 ? -4 : 4;
      if (idx == 0) continue;
      if (idx < 0) w.sub(tb[-idx - 1]); else w.add(tb[idx - 1]);
    }
    break;
  }
  case T_INTER: {
    std::vector<int> n0 = calc_naf(k, 4), n1 = calc_naf(l, 4);
    size_t cnt = std::max(n0.size(), n1.size());
    n0.resize(cnt, 0); n1.resize(cnt, 0);
    Pt t0[4], t1[4], P2 = ecref::add(C, P, P), Q2 = ecref::add(C, Q, Q);
    t0[0] = P; t1[0] = Q;
    for (int i = 1; i < 4; i++) { t0[i] = ecref::add(C, t0[i - 1], P2); t1[i] = ecref::add(C, t1[i - 1], Q2); }
    for (size_t i = cnt; i-- > 0;) {
      w.dbl();
      if (n0[i] > 0) w.add(t0[n0[i] / 2]); else if (n0[i] < 0) w.sub(t0[(-n0[i]) / 2]);
      if (n1[i] > 0) w.add(t1[n1[i] / 2]); else if (n1[i] < 0) w.sub(t1[(-n1[i]) / 2]);
    }
    break;
  }
  }
}

// ---------------------------------------------------------------- known-finding predicates
// (classes are recognised by construction from the case and the build configuration)
static const char *known_class(const EcCase &c, const RCurve &R, const Pt &P, const Pt &Q);

// ---------------------------------------------------------------- run
#define REQ(cond, msg) PBT_REQUIRE(cond, msg)

static void jacobian(const Curve &C, bool inf, const mpz_class &x, const mpz_class &y, mpz_class z, ecs_pt &d) {
  memset(&d, 0, sizeof(d));
  if (inf) {  // Z = 0, X and Y whatever the case says
    put_le(d.x, x); put_le(d.y, y);
    d.inf = 1;
    return;
  }
  if (z == 0) z = 1;
  mpz_class z2 = ecref::mod(z * z, C.p);
  put_le(d.x, ecref::mod(x * z2, C.p));
  put_le(d.y, ecref::mod(y * z2 * z, C.p));
  put_le(d.z, z);
}

static Verdict run_case(const EcCase &c) {
  RCurve tmp;
  const RCurve *R = resolve(c, tmp);
  const OpInfo *oi = opinfo(c.op);
  if (!R || !oi) { label("invalid_case"); return Verdict::pass(); }
  const Curve &C = R->c;
  Pt P = c.pinf ? Pt() : Pt(c.px, c.py), Q = c.qinf ? Pt() : Pt(c.qx, c.qy);
  bool raw = is_raw(c.op);
  if (!c.pinf && (c.px < 0 || c.px >= C.p || c.py < 0 || c.py >= C.p) && !c.offcurve) { label("invalid_case"); return Verdict::pass(); }
  if ((!c.offcurve && !ecref::on_curve(C, P)) || !ecref::on_curve(C, Q)) { label("invalid_case"); return Verdict::pass(); }
  if (c.offcurve && c.op != EO_CHECK_AFFINE) { label("invalid_case"); return Verdict::pass(); }
  if (raw && ((c.pz < 0 || c.pz >= C.p) || (c.qz < 0 || c.qz >= C.p))) { label("invalid_case"); return Verdict::pass(); }
  if (c.k < 0 || c.l < 0 || bitlen(c.k) > 8 * ECS_MAXB - 8 || bitlen(c.l) > 8 * ECS_MAXB - 8) { label("invalid_case"); return Verdict::pass(); }
  if (c.px >= pow2(8 * ECS_MAXB - 8) || c.py >= pow2(8 * ECS_MAXB - 8)) { label("invalid_case"); return Verdict::pass(); }

  const char *kclass = R->kind == 0 ? "tbl" : R->kind == 1 ? "tiny" : "mid";
  std::string opl = oi->name;
  if (c.op == EO_ALGO_MULT) opl += std::string(c.coord ? "_prj_" : "_aff_") + (c.algo >= 1 && c.algo <= 4 ? ALGO_NAME[c.algo] : "?");
  if (c.op == EO_TWIN_DIRECT) opl += std::string(c.coord ? "_prj_" : "_aff_") + (c.algo >= 0 && c.algo <= 3 ? TWIN_NAME[c.algo] : "?");
  label(std::string("op:") + opl);
  label(std::string("curve:") + kclass);

  // ---- expected value from the reference
  Pt E;
  int exp_pred = 0;
  bool point_result = oi->fam != 3;
  switch (c.op) {
  case EO_ADD: case EO_AFF_ADD: case EO_PRJ_ADD: case EO_RAW_ADD: case EO_RAW_ADD_MIX: E = ecref::add(C, P, Q); break;
  case EO_SUB: case EO_AFF_SUB: case EO_PRJ_SUB: case EO_RAW_SUB: case EO_RAW_SUB_MIX: E = ecref::sub(C, P, Q); break;
  case EO_DBL_ALIAS: case EO_DBL_EQ: case EO_AFF_DBL_ALIAS: case EO_AFF_DBL_EQ: case EO_PRJ_DBL_ALIAS: case EO_PRJ_DBL_EQ:
  case EO_RAW_DBL_ALIAS: case EO_RAW_DBL_EQ: E = ecref::add(C, P, P); break;
  case EO_SUB_ALIAS: case EO_AFF_SUB_ALIAS: case EO_PRJ_SUB_ALIAS: case EO_RAW_SUB_ALIAS: E = Pt(); break;
  case EO_AFF_DBL_N: case EO_RAW_DBL_N: E = P; for (unsigned i = 0; i < c.ndbl; i++) E = ecref::add(C, E, E); break;
  case EO_BIN_MULT: case EO_UNKPT_MULT: case EO_FPX_MULT: case EO_AFF_BIN_MULT: case EO_PRJ_BIN_MULT: case EO_ALGO_MULT:
    E = ecref::mul(C, c.k, P); break;
  case EO_MULT_BP: E = ecref::mul(C, c.k, C.G); break;
  case EO_TWIN: case EO_TWIN_DIRECT: E = ecref::twin(C, c.k, P, c.l, Q); break;
  case EO_TWIN_BP: case EO_TWIN_FXP_UNKPT_BP: E = ecref::twin(C, c.k, C.G, c.l, Q); break;
  case EO_CHECK_AFFINE:
    exp_pred = (!c.pinf && c.px < C.p && c.py < C.p && ecref::on_curve(C, P)) ? 0 : 1;
    break;
  case EO_CURVE_VALIDATE: exp_pred = 0; break;
  case EO_CHECK_SCALAR_MULT: exp_pred = ecref::mul(C, C.n, P).inf ? 0 : 1; break;
  case EO_IS_INVERSE: exp_pred = (!P.inf && !Q.inf && P == ecref::neg(C, Q)) ? 1 : 0; break;
  }
  if (c.op == EO_CHECK_AFFINE && c.pinf) { label("invalid_case"); return Verdict::pass(); }
  if (c.op == EO_IS_INVERSE && (P.inf || Q.inf)) { label("invalid_case"); return Verdict::pass(); }
  if (c.op == EO_CURVE_VALIDATE && R->kind != 0) { label("invalid_case"); return Verdict::pass(); }

  // ---- known findings: recognised before the call (some of them crash or read uninitialised tables)
  if (const char *kf = known_class(c, *R, P, Q)) {
    if (known(kf)) { excluded(kf); label(std::string("excluded:") + kf); return Verdict::pass(); }
  }

  // ---- call
  std::unique_ptr<ecs_in> in(new ecs_in());
  std::unique_ptr<ecs_out> out(new ecs_out());
  memset(in.get(), 0, sizeof(ecs_in));
  in->op = c.op; in->capsel = c.capsel; in->coord = c.coord; in->algo = c.algo;
  in->wbits = c.wbits; in->n = c.ndbl; in->junk = (uint8_t)c.junk;
  if (raw) {
    jacobian(C, c.pinf, c.px, c.py, c.pz, in->P);
    if (c.op == EO_RAW_ADD_MIX || c.op == EO_RAW_SUB_MIX) { in->Q.inf = c.qinf; put_le(in->Q.x, c.qx); put_le(in->Q.y, c.qy); }
    else jacobian(C, c.qinf, c.qx, c.qy, c.qz, in->Q);
  } else {
    in->P.inf = c.pinf; put_le(in->P.x, c.px); put_le(in->P.y, c.py);
    in->Q.inf = c.qinf; put_le(in->Q.x, c.qx); put_le(in->Q.y, c.qy);
  }
  put_le(in->k, c.k); put_le(in->l, c.l);
  ecs_call(&R->abi, in.get(), out.get());

  REQ(out->curve_rc == 0, "ecdsa_curve_from_str failed rc=" << out->curve_rc << " for an in-domain curve");
  REQ(out->setup_rc == 0, "operand setup failed rc=" << out->setup_rc);
  if (out->unsupported) { label(out->unsupported == 2 ? "unsupported:missing_symbol" : "unsupported:not_in_build"); return Verdict::pass(); }
  REQ(out->pre_rc == 0, opl << ": precompute returned " << out->pre_rc << " for an in-domain point");

  if (!point_result) {
    int got = out->rc;
    if (c.op == EO_IS_INVERSE && P.y == 0) {
      // probe class, not asserted: ec_point_is_inverse has no in-tree caller and is outside the property text; for a point of
      // order 2 (P = -P, y = 0) it compares p - 0 = p with 0 and answers "not inverse" (observation in notes/C02.md)
      label(got == exp_pred ? "probe:is_inverse_order2_ok" : "probe:is_inverse_order2_says_no");
      return Verdict::pass();
    }
    if (c.op == EO_IS_INVERSE) REQ(got == exp_pred, opl << ": returned " << got << ", reference says " << exp_pred);
    else REQ((got == 0) == (exp_pred == 0), opl << ": returned " << got << ", reference says " << (exp_pred ? "must fail" : "must succeed"));
    REQ(out->in_changed == 0, opl << ": input operand modified (mask " << (int)out->in_changed << ")");
    label(exp_pred ? "pred:nonzero" : "pred:zero");
    if (c.op == EO_CHECK_AFFINE && c.offcurve) nontrivial_cur();
    if (c.op == EO_CHECK_SCALAR_MULT || c.op == EO_CURVE_VALIDATE || c.op == EO_IS_INVERSE) nontrivial_cur();
    return Verdict::pass();
  }

  Pt G_;
  if (!out->R.inf) G_ = Pt(get_le(out->R.x), get_le(out->R.y));
  if ((c.op == EO_AFF_DBL_N || c.op == EO_RAW_DBL_N) && c.ndbl == 0) {
    // probe class, not asserted (H-EC-2): no in-tree caller asks for zero doublings; with EC_PROJ_REPEAT_DOUBLE the
    // y == 0 test precedes the n == 0 test, so dbl_n(P, 0) of a point of order 2 answers infinity instead of P
    label((out->rc == 0 && G_ == E) ? "probe:dbl_n0_identity" : "probe:dbl_n0_not_identity");
    if (st().replay && !(out->rc == 0 && G_ == E)) fprintf(stderr, "probe: dbl_n(P,0) got %s expected %s\n", ps(G_).c_str(), ps(E).c_str());
    return Verdict::pass();
  }
  REQ(out->rc == 0, opl << ": returned error " << out->rc << " for an in-domain call; expected " << ps(E));
  REQ(out->r_canon, opl << ": result bn not canonical");
  REQ(G_ == E, opl << ": got " << ps(G_) << " expected " << ps(E));
  REQ(ecref::on_curve(C, G_), opl << ": result not on curve");
  REQ(out->in_changed == 0, opl << ": input operand modified (mask " << (int)out->in_changed << ")");

  // ---- labels and the non-trivial rule
  bool nt = R->kind != 0;  // synthetic curves: exceptional branches are the norm
  if (E.inf) { label("res:inf"); nt = true; }
  if (oi->fam == 0 || oi->fam == 2) {
    if (P.inf) { label("P=inf"); nt = true; }
    if (Q.inf && c.op != EO_DBL_ALIAS && c.op != EO_DBL_EQ) { label("Q=inf"); nt = true; }
    if (!P.inf && P == Q) { label("P==Q"); nt = true; }
    if (!P.inf && !Q.inf && P == ecref::neg(C, Q)) { label("P==-Q"); nt = true; }
    if (!P.inf && P.y == 0) { label("P_order2"); nt = true; }
  }
  if (raw) {
    if (c.pz > 1) label("raw:Z1!=1");
    if (c.qz > 1) label("raw:Z2!=1");
  }
  if (oi->fam == 1 || oi->fam == 2) {
    auto sc = [&](const char *nm, const mpz_class &k) {
      std::string s = nm;
      if (k == 0) { label(s + "=0"); nt = true; }
      else if (k == 1) { label(s + "=1"); nt = true; }
      else if (k == C.n - 1) { label(s + "=n-1"); nt = true; }
      else if (k == C.n) { label(s + "=n"); nt = true; }
      else if (k > C.n) { label(s + ">n"); nt = true; }
      if (bitlen(k) > C.m) label(s + "_bits>m");
      if (k > 1 && mpz_popcount(k.get_mpz_t()) == 1) label(s + "=2^i");
    };
    sc("k", c.k);
    if (oi->fam == 2) sc("l", c.l);
    if (oi->fam == 1 && P.inf) { label("P=inf"); nt = true; }
    // exceptional additions met by the algorithm actually used
    Walk w(C);
    const Pt &base = (c.op == EO_MULT_BP) ? C.G : P;
    int algo = -1; unsigned wb = 1;
    switch (c.op) {
    case EO_BIN_MULT: case EO_AFF_BIN_MULT: case EO_PRJ_BIN_MULT: algo = A_BIN; break;
    case EO_UNKPT_MULT: algo = (int)UNK_ALGO; wb = (unsigned)UNK_WIN; break;
    case EO_MULT_BP: case EO_FPX_MULT: algo = (int)FXP_ALGO; wb = (unsigned)FXP_WIN; break;
    case EO_ALGO_MULT: algo = c.algo; wb = c.wbits; break;
    }
    if (oi->fam == 1) {
      walk_mult(w, algo, wb, c.k, base);
      if ((algo == A_COMB1 || algo == A_COMB2) && c.k > 1 && !base.inf) label(comb_path(C, c.k) ? "comb:table_path" : "comb:bin_fallback");
    } else {
      int ta = c.op == EO_TWIN_DIRECT ? c.algo : (c.op == EO_TWIN_FXP_UNKPT_BP ? T_FXP_UNKPT : (int)TWIN_ALGO);
      const Pt &A = (c.op == EO_TWIN_BP || c.op == EO_TWIN_FXP_UNKPT_BP) ? C.G : P;
      if (c.op == EO_TWIN && ta == T_FXP_UNKPT) ta = T_BIN;  // ec_point_twin_mult itself maps FXP_UNKPT to the binary twin
      walk_twin(w, ta, c.k, A, c.l, Q, (int)FXP_ALGO, (unsigned)FXP_WIN, (int)UNK_ALGO, (unsigned)UNK_WIN);
    }
    if (w.eq) label("exc:acc==addend(double)");
    if (w.opp) label("exc:acc==-addend(inf)");
    if (w.acc_inf) label("exc:acc_back_at_inf");
    if (w.addend_inf) label("exc:addend_inf");
    if (w.dbl_y0) label("exc:double_of_order2");
    if (w.exc()) nt = true;
  }
  if (nt) nontrivial_cur();
  return Verdict::pass();
}

#include "C02_known.inc"

// ---------------------------------------------------------------- generators
static const unsigned TINY_PRIMES[] = {5, 7, 11, 13, 17, 19, 23, 29, 31, 37, 41, 43, 47, 53, 59, 61, 67, 71, 73, 79, 83, 89, 97,
                                       101, 103, 107, 109, 113, 127, 131, 137, 139, 149, 151, 157, 163, 167, 173, 179, 181, 191,
                                       193, 197, 199, 211, 223, 227, 229, 233, 239, 241, 251};
static unsigned BIG_SUBSET = 32;  // how many table curves this variant visits (cost bound), chosen from the seed
static std::vector<int> BIG_ORDER;  // permutation of table indices
static unsigned MID_SUBSET = 6, ENUM_STRIDE = 13;
static std::vector<int> MID_ORDER;

struct TinyCurve { RCurve r; std::vector<Pt> grp; };
// build a tiny curve: kind 0 a=p-3 flag, 1 a=p-3 no flag, 2 a=0, 3 random a; b advanced until non-singular with >= 1 finite point
static std::shared_ptr<TinyCurve> make_tiny(unsigned p, int kind, unsigned a_rnd, unsigned b0, unsigned gsel) {
  auto t = std::make_shared<TinyCurve>();
  Curve &C = t->r.c;
  C.p = p;
  C.a = kind <= 1 ? mpz_class(p - 3) : kind == 2 ? mpz_class(0) : mpz_class(a_rnd % p);
  C.flags = kind == 0 ? EC_FLAG_A_M3 : 0;
  if (kind == 3 && C.a == p - 3) C.a = 1;
  C.m = (unsigned)bitlen(C.p);
  C.t = C.m / 2;
  for (unsigned tr = 0; tr < p; tr++) {
    C.b = (b0 + tr) % p;
    if (!ecref::nonsingular(C)) continue;
    t->grp = ecref::enumerate(C);
    if (t->grp.size() >= 2) break;
  }
  if (t->grp.size() < 2) return nullptr;
  C.G = t->grp[1 + gsel % (t->grp.size() - 1)];
  C.n = ecref::order_small(C, C.G, (unsigned long)t->grp.size() + 1);
  C.h = (unsigned)(t->grp.size() / C.n.get_ui());
  t->r.kind = 1;
  t->r.N = (unsigned long)t->grp.size();
  fill_abi(t->r);
  return t;
}
static std::shared_ptr<TinyCurve> genTiny() {
  unsigned p = *rc::gen::elementOf(std::vector<unsigned>(std::begin(TINY_PRIMES), std::end(TINY_PRIMES)));
  int kind = *range<int>(0, 3);
  unsigned a = *range<unsigned>(1, 250), b = *range<unsigned>(0, 250), g = *range<unsigned>(0, 400);
  auto t = make_tiny(p, kind, a, b, g);
  RC_PRE(t != nullptr);
  return t;
}

static mpz_class genBelow(const mpz_class &lim) {  // uniform-ish in [0, lim)
  Bytes r = *bytes_len((bitlen(lim) + 7) / 8 + 1);
  mpz_class v;
  mpz_import(v.get_mpz_t(), r.size(), -1, 1, 0, 0, r.data());
  return lim > 0 ? mpz_class(v % lim) : mpz_class(0);
}

// scalar mixture: boundary values, powers of two, window / comb column / digit patterns, random
static mpz_class genScalar(const Curve &C, const mpz_class &ordP) {
  const mpz_class &n = C.n;
  unsigned m = C.m;
  mpz_class kmax = std::max<mpz_class>(n, pow2(m) - 1);
  int kind = *rc::gen::weightedElement<int>({{2, 0}, {2, 1}, {1, 2}, {1, 3}, {3, 4}, {3, 5}, {1, 6}, {2, 7}, {2, 8}, {1, 9}, {2, 10},
                                             {2, 11}, {1, 12}, {3, 13}, {3, 14}, {3, 15}, {2, 16}, {2, 17}, {2, 18}, {6, 19}, {4, 20},
                                             {3, 21}, {1, 22}, {2, 23}});
  unsigned wb = *rc::gen::element<unsigned>((unsigned)FXP_WIN, (unsigned)UNK_WIN, 4u, 1u, 2u, 3u, 5u, 8u);
  if (wb < 1) wb = 1;
  size_t i = *range<size_t>(0, m ? m - 1 : 0);
  size_t d = (m + wb - 1) / wb;
  mpz_class k;
  switch (kind) {
  case 0: k = 0; break;
  case 1: k = 1; break;
  case 2: k = 2; break;
  case 3: k = 3; break;
  case 4: k = n - 1; break;
  case 5: k = n; break;
  case 6: k = n + 1; break;
  case 7: k = ordP - 1; break;
  case 8: k = ordP; break;
  case 9: k = ordP + 1; break;
  case 10: k = pow2(i); break;
  case 11: k = pow2(i + 1) - 1; break;
  case 12: k = pow2(i) + 1; break;
  case 13: k = (pow2(wb) - 1) << (wb * (i / wb)); break;                       // one all-ones window
  case 14: k = (1 + genBelow(pow2(wb) - 1)) << (wb * (i / wb)); break;          // one non-zero window
  case 15: { k = 0; size_t col = i % d; for (unsigned j = 0; j < wb; j++) k += pow2(col + j * d); break; }  // one full comb column
  case 16: { k = pow2(wb * d) - 1; size_t col = i % d; for (unsigned j = 0; j < wb; j++) k -= pow2(col + j * d); break; }  // all columns full but one
  case 17: { size_t j = 1 + i / (size_t)W; k = pow2((size_t)W * j) - (*range<int>(0, 1)); break; }     // digit boundary
  case 18: k = n - pow2(i % std::max<size_t>(1, bitlen(n) - 1)); break;
  case 19: k = genBelow(pow2(1 + i)); break;                                   // random, random length
  case 20: k = genBelow(n); break;
  case 21: {                                                                   // longest scalar that still takes the comb path
    size_t bits = ((size_t)m / (size_t)W) * (size_t)W;
    k = bits ? mpz_class(pow2(bits - 1) + genBelow(pow2(bits - 1))) : mpz_class(1);
    break;
  }
  case 22: k = (n + *range<int>(-1, 1)) / 2; break;
  case 23: k = ordP * (*range<unsigned>(2, 3)) + *range<int>(-1, 1); break;     // wraps the point order more than once
  }
  if (k < 0) k = 0;
  if (k > kmax) k %= (kmax + 1);
  return k;
}

// shared tail: choose op of a family and its parameters
static void genOpAdd(EcCase &c) {
  c.op = *rc::gen::element<int>(EO_ADD, EO_SUB, EO_DBL_ALIAS, EO_DBL_EQ, EO_AFF_ADD, EO_AFF_SUB, EO_AFF_DBL_ALIAS, EO_AFF_DBL_EQ,
                                EO_AFF_DBL_N, EO_PRJ_ADD, EO_PRJ_SUB, EO_PRJ_DBL_ALIAS, EO_PRJ_DBL_EQ, EO_RAW_ADD, EO_RAW_ADD, EO_RAW_SUB,
                                EO_RAW_DBL_ALIAS, EO_RAW_DBL_EQ, EO_RAW_ADD_MIX, EO_RAW_ADD_MIX, EO_RAW_SUB_MIX, EO_RAW_DBL_N, EO_RAW_DBL_N,
                                EO_SUB_ALIAS, EO_AFF_SUB_ALIAS, EO_PRJ_SUB_ALIAS, EO_RAW_SUB_ALIAS);
  c.ndbl = *rc::gen::weightedElement<unsigned>({{3, 1}, {3, 2}, {2, 3}, {2, 5}, {1, 9}, {1, 0}});
}
static void genOpMult(EcCase &c, bool slow_curve) {
  c.op = *rc::gen::weightedElement<int>({{2, EO_BIN_MULT}, {4, EO_UNKPT_MULT}, {4, EO_MULT_BP}, {3, EO_FPX_MULT}, {1, EO_AFF_BIN_MULT},
                                         {1, EO_PRJ_BIN_MULT}, {12, EO_ALGO_MULT}});
  c.coord = *range<int>(0, 1);
  c.algo = *range<int>(1, 4);
  unsigned wmax = (unsigned)FXP_WIN;
  if (slow_curve) wmax = std::min(wmax, 6u);
  c.wbits = *range<unsigned>(1, std::max(1u, wmax));
  if (c.algo == A_SLWIN) {  // power of two, not wider than a digit
    unsigned w = 1;
    while (w * 2 <= c.wbits && w * 2 <= (unsigned)W) w *= 2;
    c.wbits = w;
  }
}
static void genOpTwin(EcCase &c) {
  c.op = *rc::gen::weightedElement<int>({{4, EO_TWIN}, {4, EO_TWIN_BP}, {3, EO_TWIN_FXP_UNKPT_BP}, {10, EO_TWIN_DIRECT}});
  c.coord = *range<int>(0, 1);
  c.algo = *rc::gen::element<int>(T_BIN, T_JOINT, T_JOINT, T_INTER, T_INTER);
  if (c.coord == 0 && c.algo == T_INTER) c.coord = 1;  // no affine interleaved implementation exists
}
static void genCommon(EcCase &c) {
  c.capsel = *rc::gen::weightedElement<int>({{3, 1}, {2, 0}});
  c.junk = *rc::gen::element<unsigned>(0x00, 0xff, 0xa5, 0x01, 0x80);
}

// ---- point pools
struct BigPt { Pt P; mpz_class c; bool known; };  // P = c*G when known
static Pt mulG(const RCurve &R, const mpz_class &c) {
  static std::map<std::string, Pt> memo;
  if (memo.size() > 20000) memo.clear();
  std::string key = R.c.name + "|" + hx(R.c.p) + hx(R.c.b) + "|" + c.get_str(16);
  auto it = memo.find(key);
  if (it != memo.end()) return it->second;
  Pt r = ecref::mul(R.c, c, R.c.G);
  memo[key] = r;
  return r;
}
static BigPt genBigPoint(const RCurve &R) {
  const Curve &C = R.c;
  int kind = *rc::gen::weightedElement<int>({{1, 0}, {2, 1}, {1, 2}, {1, 3}, {2, 4}, {1, 5}, {1, 6}, {3, 7}, {5, 8}, {3, 9}});
  BigPt b;
  b.known = true;
  switch (kind) {
  case 0: b.c = 0; break;
  case 1: b.c = 1; break;
  case 2: b.c = 2; break;
  case 3: b.c = 3; break;
  case 4: b.c = C.n - 1; break;
  case 5: b.c = C.n - 2; break;
  case 6: b.c = (C.n + 1) / 2; break;
  case 7: b.c = *range<unsigned>(4, 40); break;
  case 8: b.c = genBelow(C.n); break;
  case 9:  // a point that need not lie in <G>: lift a random x (only differs from <G> when h > 1)
    if (C.h > 1 || R.kind == 2) {
      mpz_class x = genBelow(C.p);
      bool odd = *range<int>(0, 1);
      int small = *range<int>(0, 2);
      for (int t = 0; t < 200; t++, x = ecref::mod(x + 1, C.p)) {
        Pt L;
        if (!ecref::lift_x(C, x, odd, L)) continue;
        b.known = false;
        b.P = L;
        if (small == 0 && R.kind == 0) b.P = ecref::mul(C, C.n, L);  // order divides h
        return b;
      }
    }
    b.c = genBelow(C.n);
    break;
  }
  b.P = mulG(R, b.c);
  return b;
}
// Q related to P
static BigPt genRelated(const RCurve &R, const BigPt &P) {
  const Curve &C = R.c;
  int kind = *rc::gen::weightedElement<int>({{8, 0}, {3, 1}, {3, 2}, {2, 3}, {2, 4}, {1, 5}, {1, 6}, {2, 7}});
  BigPt q;
  q.known = P.known;
  auto scaled = [&](const mpz_class &f) {
    q.c = ecref::mod(P.c * f, C.n);
    q.P = P.known ? mulG(R, q.c) : ecref::mul(C, ecref::mod(f, C.n * (C.h ? C.h : 1)), P.P);
  };
  switch (kind) {
  case 0: return genBigPoint(R);
  case 1: q = P; break;
  case 2: q.c = ecref::mod(-P.c, C.n); q.P = ecref::neg(C, P.P); break;
  case 3: scaled(2); break;
  case 4: scaled(C.n - 2); break;
  case 5: scaled(3); break;
  case 6: q.c = 0; q.P = Pt(); q.known = true; break;
  case 7: scaled(*range<unsigned>(2, 12)); break;
  }
  return q;
}
static mpz_class genZ(const Curve &C) {
  int kind = *rc::gen::weightedElement<int>({{3, 0}, {2, 1}, {1, 2}, {4, 3}});
  switch (kind) {
  case 0: return 1;
  case 1: return 2;
  case 2: return C.p - 1;
  }
  mpz_class z = genBelow(C.p);
  return z == 0 ? mpz_class(1) : z;
}
static void genInfXY(const Curve &C, EcCase &c) {  // stale coordinates carried by a point at infinity
  int mode = *range<int>(0, 2);
  if (c.pinf && mode) { c.px = mode == 1 ? genBelow(C.p) : C.G.x; c.py = mode == 1 ? genBelow(C.p) : C.G.y; }
  if (c.qinf && mode) { c.qx = mode == 1 ? genBelow(C.p) : C.G.x; c.qy = mode == 1 ? genBelow(C.p) : C.G.y; }
}

// twin scalars: independent mixture, or forced so that k*A = +-l*Q (A = P or G)
static void genTwinScalars(EcCase &c, const RCurve &R, const BigPt &A, const BigPt &Q, const mpz_class &ordA, const mpz_class &ordQ) {
  const Curve &C = R.c;
  c.k = genScalar(C, ordA);
  c.l = genScalar(C, ordQ);
  int force = *rc::gen::weightedElement<int>({{5, 0}, {2, 1}, {2, 2}, {1, 3}, {1, 4}});
  if (force == 0) return;
  if (force == 3) { c.l = c.k; return; }
  if (force == 4) { c.l = ecref::mod(-c.k, C.n); return; }
  if (A.known && Q.known && Q.c != 0) {
    mpz_class g;
    mpz_gcd(g.get_mpz_t(), Q.c.get_mpz_t(), C.n.get_mpz_t());
    if (g == 1) {
      mpz_class l = ecref::mod(c.k * A.c * ecref::inv(Q.c, C.n), C.n);
      c.l = force == 1 ? l : ecref::mod(-l, C.n);
    }
  }
}

static const RCurve &pickTable() {
  unsigned idx = *range<unsigned>(0, BIG_SUBSET - 1);
  return TBL[BIG_ORDER[idx % BIG_ORDER.size()]];
}
static const RCurve &pickMid() { return MID[MID_ORDER[*range<unsigned>(0, MID_SUBSET - 1) % MID_ORDER.size()]]; }

// fam: 0 add, 1 mult, 2 twin ; on a table or mid curve
static EcCase genOnCurve(const RCurve &R0, int fam) {
  EcCase c;
  RCurve Rf;  // mid curves: toggle the A_M3 flag when a == p-3
  const RCurve *R = &R0;
  if (R0.kind == 2 && R0.c.a == R0.c.p - 3) {
    Rf = R0;
    Rf.c.flags = *range<int>(0, 1) ? EC_FLAG_A_M3 : 0;
    fill_abi(Rf);
    R = &Rf;
  }
  const Curve &C = R->c;
  c.setCurve(*R);
  genCommon(c);
  BigPt P = genBigPoint(*R), Q = genRelated(*R, P);
  mpz_class ordP = C.n, ordQ = C.n;
  if (R->kind == 2) { ordP = ecref::order_from(C, P.P, R->N, R->fac); ordQ = ecref::order_from(C, Q.P, R->N, R->fac); }
  if (fam == 0) {
    genOpAdd(c);
    c.setP(P.P); c.setQ(Q.P);
    c.pz = genZ(C); c.qz = genZ(C);
    genInfXY(C, c);
  } else if (fam == 1) {
    genOpMult(c, R->kind == 0 && (C.m > 300 || W <= 16));
    c.setP(P.P);
    c.k = genScalar(C, ordP);
    genInfXY(C, c);
  } else {
    genOpTwin(c);
    c.setP(P.P); c.setQ(Q.P);
    BigPt Gp; Gp.P = C.G; Gp.c = 1; Gp.known = true;
    bool bp = (c.op == EO_TWIN_BP || c.op == EO_TWIN_FXP_UNKPT_BP);
    genTwinScalars(c, *R, bp ? Gp : P, Q, bp ? C.n : ordP, ordQ);
    genInfXY(C, c);
  }
  return c;
}
static rc::Gen<EcCase> genBig(int fam) {
  return rc::gen::exec([fam]() { return genOnCurve(pickTable(), fam); });
}
static rc::Gen<EcCase> genMid(int fam) {
  return rc::gen::exec([fam]() { return genOnCurve(pickMid(), fam); });
}

// tiny curves: every point of the group is a candidate operand
static rc::Gen<EcCase> genTinyCase(int fam) {
  return rc::gen::exec([fam]() {
    auto t = genTiny();
    const Curve &C = t->r.c;
    const std::vector<Pt> &g = t->grp;
    EcCase c;
    c.setCurve(t->r);
    genCommon(c);
    Pt P = g[*range<size_t>(0, g.size() - 1)];
    if (*range<int>(0, 9) == 0) P = Pt();
    Pt Q;
    int rel = *rc::gen::weightedElement<int>({{8, 0}, {2, 1}, {2, 2}, {1, 3}, {1, 4}, {1, 5}});
    switch (rel) {
    case 0: Q = g[*range<size_t>(0, g.size() - 1)]; break;
    case 1: Q = P; break;
    case 2: Q = ecref::neg(C, P); break;
    case 3: Q = ecref::add(C, P, P); break;
    case 4: Q = Pt(); break;
    case 5: Q = ecref::neg(C, ecref::add(C, P, P)); break;
    }
    unsigned long lim = (unsigned long)g.size() + 1;
    mpz_class ordP = P.inf ? mpz_class(1) : mpz_class(ecref::order_small(C, P, lim));
    mpz_class ordQ = Q.inf ? mpz_class(1) : mpz_class(ecref::order_small(C, Q, lim));
    c.setP(P); c.setQ(Q);
    if (fam == 0) {
      genOpAdd(c);
      c.pz = genZ(C); c.qz = genZ(C);
    } else if (fam == 1) {
      genOpMult(c, false);
      c.k = genScalar(C, ordP);
    } else {
      genOpTwin(c);
      bool bp = (c.op == EO_TWIN_BP || c.op == EO_TWIN_FXP_UNKPT_BP);
      const Pt &A = bp ? C.G : P;
      c.k = genScalar(C, bp ? C.n : ordP);
      c.l = genScalar(C, ordQ);
      int force = *rc::gen::weightedElement<int>({{5, 0}, {2, 1}, {2, 2}});
      if (force && !Q.inf) {  // smallest l with l*Q = +-k*A, if any
        Pt T = ecref::mul(C, c.k, A), X;
        if (force == 2) T = ecref::neg(C, T);
        for (unsigned long l = 0; l <= ordQ.get_ui(); l++, X = ecref::add(C, X, Q))
          if (X == T) { c.l = l; break; }
      }
    }
    genInfXY(C, c);
    return c;
  });
}

// predicates: check_affine (on/off curve, coordinates >= p), curve_validate (table curves; A_M3 flag mismatch on
// synthetic ones is rejected by resolve() and therefore exercised only through the table), check_scalar_mult, is_inverse
static rc::Gen<EcCase> genPred() {
  return rc::gen::exec([]() {
    int what = *rc::gen::weightedElement<int>({{10, EO_CHECK_AFFINE}, {1, EO_CURVE_VALIDATE}, {3, EO_CHECK_SCALAR_MULT}, {6, EO_IS_INVERSE}});
    bool tiny = *range<int>(0, 3) != 0 && what != EO_CURVE_VALIDATE;
    if (what == EO_CHECK_SCALAR_MULT && W <= 16) tiny = *range<int>(0, 19) != 0;
    EcCase c;
    genCommon(c);
    c.op = what;
    if (tiny) {
      auto t = genTiny();
      const Curve &C = t->r.c;
      c.setCurve(t->r);
      Pt P = t->grp[*range<size_t>(1, t->grp.size() - 1)];
      c.setP(P);
      Pt Q = *range<int>(0, 1) ? ecref::neg(C, P) : t->grp[*range<size_t>(1, t->grp.size() - 1)];
      c.setQ(Q);
      if (what == EO_CHECK_AFFINE) {
        int mode = *range<int>(0, 3);
        if (mode == 1) { c.py = ecref::mod(c.py + 1 + genBelow(C.p - 1), C.p); c.offcurve = 1; }
        if (mode == 2) { c.px = ecref::mod(c.px + 1 + genBelow(C.p - 1), C.p); c.offcurve = 1; }
        if (mode == 3) { if (*range<int>(0, 1)) c.px += C.p; else c.py += C.p; c.offcurve = 1; c.capsel = 1; }
        Pt T(c.px, c.py);
        if (c.offcurve && c.px < C.p && c.py < C.p && ecref::on_curve(C, T)) c.offcurve = 0;
      }
      return c;
    }
    const RCurve &R = pickTable();
    const Curve &C = R.c;
    c.setCurve(R);
    BigPt P = genBigPoint(R);
    if (P.P.inf) { P.c = 1; P.P = C.G; P.known = true; }
    c.setP(P.P);
    BigPt Q = genRelated(R, P);
    if (Q.P.inf) Q = P;
    c.setQ(Q.P);
    if (what == EO_CHECK_AFFINE) {
      int mode = *range<int>(0, 3);
      if (mode == 1) { c.py = ecref::mod(c.py + 1 + genBelow(C.p - 1), C.p); c.offcurve = 1; }
      if (mode == 2) { c.px = ecref::mod(c.px + 1 + genBelow(C.p - 1), C.p); c.offcurve = 1; }
      if (mode == 3) { c.py += C.p; c.offcurve = 1; c.capsel = 1; }
      Pt T(c.px, c.py);
      if (c.offcurve && c.px < C.p && c.py < C.p && ecref::on_curve(C, T)) c.offcurve = 0;
    }
    return c;
  });
}

#include "C02_enum.inc"

// ---------------------------------------------------------------- reference anchors (exit 2 when they fail)
static const char *ossl_name(const std::string &n) {
  if (n == "secp192r1") return "prime192v1";
  if (n == "secp256r1") return "prime256v1";
  return n.c_str();
}
static mpz_class from_bn(const BIGNUM *b) {
  char *s = BN_bn2hex(b);
  mpz_class z(s, 16);
  OPENSSL_free(s);
  return z;
}
static bool anchors() {
  int with_ossl = 0;
  for (auto &r : TBL) {
    const Curve &C = r.c;
    if (!mpz_probab_prime_p(C.p.get_mpz_t(), 30) || !mpz_probab_prime_p(C.n.get_mpz_t(), 30)) { fprintf(stderr, "anchor: %s p or n not prime\n", C.name.c_str()); return false; }
    if (!ecref::nonsingular(C) || !ecref::on_curve(C, C.G) || !ecref::mul(C, C.n, C.G).inf || ecref::mul(C, C.n - 1, C.G) != ecref::neg(C, C.G)) {
      fprintf(stderr, "anchor: %s reference rejects table parameters\n", C.name.c_str());
      return false;
    }
    int nid = OBJ_sn2nid(ossl_name(C.name));
    if (nid == NID_undef) continue;
    EC_GROUP *g = EC_GROUP_new_by_curve_name(nid);
    if (!g) continue;
    BN_CTX *ctx = BN_CTX_new();
    BIGNUM *p = BN_new(), *a = BN_new(), *b = BN_new(), *x = BN_new(), *y = BN_new(), *k = BN_new();
    bool ok = EC_GROUP_get_curve(g, p, a, b, ctx) == 1;
    ok = ok && from_bn(p) == C.p && from_bn(a) == C.a && from_bn(b) == C.b && from_bn(EC_GROUP_get0_order(g)) == C.n;
    ok = ok && EC_POINT_get_affine_coordinates(g, EC_GROUP_get0_generator(g), x, y, ctx) == 1 && from_bn(x) == C.G.x && from_bn(y) == C.G.y;
    // k*G and k*G + l*(7G) against OpenSSL
    mpz_class kk = ecref::mod(mpz_class("c02c02c02c02c02c02c02c02c02c02c02c02c02c02c02c02c02c02c02c02c02c02c02c02c02c02c02c02c02c02c02c02c02c02c02c02c02c02c02c02c02c02c02c0", 16), C.n);
    BN_hex2bn(&k, kk.get_str(16).c_str());
    EC_POINT *r1 = EC_POINT_new(g), *q7 = EC_POINT_new(g);
    BIGNUM *seven = BN_new(), *l = BN_new();
    BN_set_word(seven, 7);
    mpz_class ll = C.n - 12345;
    BN_hex2bn(&l, ll.get_str(16).c_str());
    ok = ok && EC_POINT_mul(g, q7, seven, nullptr, nullptr, ctx) == 1;
    ok = ok && EC_POINT_mul(g, r1, k, q7, l, ctx) == 1 && EC_POINT_get_affine_coordinates(g, r1, x, y, ctx) == 1;
    if (ok) {
      Pt e = ecref::twin(C, kk, C.G, ll, ecref::mul(C, 7, C.G));
      ok = !e.inf && from_bn(x) == e.x && from_bn(y) == e.y;
    }
    EC_POINT_free(r1); EC_POINT_free(q7);
    BN_free(p); BN_free(a); BN_free(b); BN_free(x); BN_free(y); BN_free(k); BN_free(seven); BN_free(l);
    BN_CTX_free(ctx); EC_GROUP_free(g);
    if (!ok) { fprintf(stderr, "anchor: reference and OpenSSL disagree on %s\n", C.name.c_str()); return false; }
    with_ossl++;
  }
  if (with_ossl < 20) { fprintf(stderr, "anchor: only %d table curves could be cross-checked with OpenSSL\n", with_ossl); return false; }
  for (auto &r : MID) {
    const Curve &C = r.c;
    mpz_class prod = 1;
    for (auto &f : r.fac) { if (!mpz_probab_prime_p(f.get_mpz_t(), 30)) return false; }
    mpz_class t = r.N;
    for (auto &f : r.fac) while (mpz_divisible_p(t.get_mpz_t(), f.get_mpz_t())) t /= f;
    bool ok = t == 1 && mpz_probab_prime_p(C.p.get_mpz_t(), 30) && ecref::nonsingular(C) && ecref::on_curve(C, C.G);
    ok = ok && ecref::mul(C, C.n, C.G).inf && ecref::order_from(C, C.G, r.N, r.fac) == C.n;
    // Hasse interval
    mpz_class sq; mpz_sqrt(sq.get_mpz_t(), C.p.get_mpz_t());
    ok = ok && r.N >= C.p + 1 - 2 * sq - 2 && r.N <= C.p + 1 + 2 * sq + 2;
    if (ok && C.p < 200000) ok = mpz_class((unsigned long)ecref::enumerate(C).size()) == r.N;
    if (!ok) { fprintf(stderr, "anchor: mid curve %s inconsistent\n", C.name.c_str()); return false; }
  }
  return true;
}

static void load_curves() {
  long nc = ecs_info(ECS_INFO_NCURVES);
  for (long i = 0; i < nc; i++) {
    RCurve r;
    if (ecs_table_get((int)i, &r.abi) != 0) { fprintf(stderr, "table row %ld malformed\n", i); exit(2); }
    Curve &C = r.c;
    C.name = r.abi.name;
    C.p = unhx(r.abi.p); C.a = unhx(r.abi.a); C.b = unhx(r.abi.b); C.n = unhx(r.abi.n);
    C.G = Pt(unhx(r.abi.gx), unhx(r.abi.gy));
    C.m = r.abi.m; C.t = r.abi.t; C.h = r.abi.h; C.flags = r.abi.flags; C.algo = r.abi.algo;
    r.kind = 0;
    TBL.push_back(r);
  }
  for (auto &d : MID_DEFS) {
    RCurve r;
    Curve &C = r.c;
    C.name = std::string("mid:") + d.tag;
    C.p = unhx(d.p); C.a = unhx(d.a); C.b = unhx(d.b); C.n = unhx(d.n);
    C.G = Pt(unhx(d.gx), unhx(d.gy));
    C.m = (unsigned)bitlen(C.p); C.t = C.m / 2; C.flags = 0; C.algo = 0;
    r.N = unhx(d.N);
    C.h = (unsigned)mpz_class(r.N / C.n).get_ui();
    std::istringstream in(d.fac);
    std::string tok;
    while (in >> tok) r.fac.push_back(unhx(tok));
    r.kind = 2;
    fill_abi(r);
    MID.push_back(r);
  }
}

int main(int argc, char **argv) {
  W = ecs_info(ECS_INFO_W); BITLEN = ecs_info(ECS_INFO_BITLEN);
  CFG_PROJ = ecs_info(ECS_INFO_PROJ); CFG_MIX = ecs_info(ECS_INFO_MIX); CFG_REP = ecs_info(ECS_INFO_REPDBL);
  FXP_ALGO = ecs_info(ECS_INFO_FXP_ALGO); FXP_WIN = ecs_info(ECS_INFO_FXP_WIN);
  UNK_ALGO = ecs_info(ECS_INFO_UNKPT_ALGO); UNK_WIN = ecs_info(ECS_INFO_UNKPT_WIN);
  TWIN_ALGO = ecs_info(ECS_INFO_TWIN_ALGO); TWIN_OK = ecs_info(ECS_INFO_TWIN_OK); PREDBL_SIZE = ecs_info(ECS_INFO_PREDBL_SIZE);
  load_curves();
  bool listing = false, replay = false;
  uint64_t seed = 1;
  for (int i = 1; i < argc; i++) {
    if (!strcmp(argv[i], "--list")) listing = true;
    if (!strcmp(argv[i], "--replay")) replay = true;
    if (!strcmp(argv[i], "--seed") && i + 1 < argc) seed = strtoull(argv[i + 1], nullptr, 10);
  }
  if (!listing && !anchors()) return 2;

  // ---- per-variant case counts from a static cost model (constants measured on this machine, notes/C02.md).
  // Counts are a function of the build configuration and --scale only, never of the clock.
  double scale = 1.0;
  for (int i = 1; i + 1 < argc; i++) if (!strcmp(argv[i], "--scale")) scale = atof(argv[i + 1]);
  bool cc = ecs_info(ECS_INFO_CC) != 0;
  double fa, fp;  // 256-bit affine add (one inversion) / Jacobian doubling, relative to W=64 with compiler mul/div
  switch (W) {
  case 8: fa = cc ? 5 : 7; fp = cc ? 12 : 36; break;
  case 16: fa = 3.3; fp = cc ? 4.5 : 10; break;
  case 32: fa = 1.6; fp = cc ? 1.8 : 2.3; break;
  case 64: fa = cc ? 1 : 1.5; fp = cc ? 1 : 4.8; break;
  default: fa = 1.8; fp = 7; break;
  }
  double slow = (ecs_info(ECS_INFO_OPT) ? 1.0 : 3.0) * (ecs_info(ECS_INFO_SAN) ? 4.5 : 1.0);
  double aff_op = 32e-6 * fa * slow, prj_op = 4e-6 * fp * slow;
  double cfg_op = CFG_PROJ ? prj_op : aff_op, entry_extra = CFG_PROJ ? aff_op : 0.0;  // table entries are normalised
  auto table_s = [&](long algo, long wb, double m) {  // seconds to build one table on an m-bit curve
    double E = 0, D = 0;
    switch (algo) {
    case A_PREDBL: E = m; break;
    case A_SLWIN: E = (double)(1u << wb); break;
    case A_COMB1: E = (double)(1u << wb); D = m; break;
    case A_COMB2: E = 2.0 * (1u << wb); D = m + (1u << wb) * m / (2.0 * wb); break;
    }
    return (E * (cfg_op + entry_extra) + D * cfg_op) * (m / 256.0) * (m / 256.0);
  };
  double load_s = 0.002 * slow + table_s(FXP_ALGO, FXP_WIN, 256);
  double unk_s = table_s(UNK_ALGO, UNK_WIN, 256);
  double mult_s = 400 * cfg_op;
  double algo_s = 0.5 * (aff_op + prj_op + aff_op * 0.3) * (400 + (1u << std::min<long>(FXP_WIN, 6)) / 2.0);
  double case_mult_s = 0.45 * (mult_s + 0.5 * unk_s) + 0.55 * algo_s;
  double case_twin_s = 0.5 * (2 * mult_s + 0.6 * unk_s) + 0.5 * (aff_op + prj_op) * 400;
  double pred_s = (60 * aff_op * 6 + 3 * (mult_s + unk_s) + 1.0 * (mult_s + unk_s + 700 * aff_op)) / 20.0;
  BIG_SUBSET = (unsigned)std::max(2.0, std::min(32.0, 8.0 * std::min(scale, 3.0) / load_s));
  for (int i = 0; i < (int)TBL.size(); i++) BIG_ORDER.push_back(i);
  {  // seeded permutation (same seed => same subset)
    uint64_t s = seed * 6364136223846793005ULL + 1442695040888963407ULL;
    for (size_t i = BIG_ORDER.size(); i > 1; i--) {
      s = s * 6364136223846793005ULL + 1442695040888963407ULL;
      std::swap(BIG_ORDER[i - 1], BIG_ORDER[(s >> 33) % i]);
    }
  }
  MID_SUBSET = scale >= 3.0 ? 10 : 6;
  for (int i = 0; i < (int)MID.size(); i++) MID_ORDER.push_back(i);
  {
    uint64_t s = seed * 2862933555777941757ULL + 3037000493ULL;
    for (size_t i = MID_ORDER.size(); i > 1; i--) {
      s = s * 6364136223846793005ULL + 1442695040888963407ULL;
      std::swap(MID_ORDER[i - 1], MID_ORDER[(s >> 33) % i]);
    }
  }
  // tiny curves are loaded once per case: table of 2^w small-number entries
  double small = (W == 8 ? 1.0 : W == 16 ? 1.0 : W == 32 ? 1.2 : W == 64 ? (cc ? 1.0 : 2.0) : 3.0) * slow * (CFG_PROJ && !CFG_MIX ? 1.5 : 1.0);
  double tiny_entries = FXP_ALGO == A_BIN ? 0 : FXP_ALGO == A_PREDBL ? 8 : FXP_ALGO == A_COMB2 ? 2.0 * (1u << FXP_WIN) : (double)(1u << FXP_WIN);
  double tiny_case_s = (60 + tiny_entries + 0.3 * (UNK_ALGO >= A_SLWIN ? (double)(1u << UNK_WIN) : 0)) * 4e-6 * small + 60e-6;
  double mid_case_s = 300 * 3e-6 * small * (W <= 16 ? 3 : 1) + 60e-6;
  // sanitised twins do not grow with the thorough tier (driver_main multiplies every count by --scale)
  double damp = (ecs_info(ECS_INFO_SAN) && scale > 1.0) ? 1.0 / scale : 1.0;
  auto cnt = [damp](double budget_s, double per_case, double lo, double hi) { return (int)std::max(8.0, damp * std::max(lo, std::min(hi, budget_s / per_case))); };
  int n_tiny = cnt(9.0, tiny_case_s, 1500, 21000), n_mid = cnt(5.0, mid_case_s, 600, 5500);
  ENUM_STRIDE = (small * (1 + tiny_entries / 300.0) > 6 || ecs_info(ECS_INFO_SAN)) ? 53 : 13;
  if (getenv("C02_SHOW_BUDGET"))
    fprintf(stderr, "budget: load_s=%.3f subset=%u case_mult_s=%.4f case_twin_s=%.4f pred_s=%.4f tiny_case_s=%.5f n_tiny=%d n_mid=%d stride=%u\n",
            load_s, BIG_SUBSET, case_mult_s, case_twin_s, pred_s, tiny_case_s, n_tiny, n_mid, ENUM_STRIDE);
  (void)replay;
  add_check<EcCase>("big_add", cnt(2.5, 12 * (aff_op + prj_op) + 0.002, 24, 400), 100, []() { return genBig(0); }, run_case);
  add_check<EcCase>("big_mult", cnt(7.0, case_mult_s + 0.004, 12, 260), 100, []() { return genBig(1); }, run_case);
  add_check<EcCase>("big_twin", cnt(4.0, case_twin_s + 0.006, 8, 140), 100, []() { return genBig(2); }, run_case);
  n_tiny = (int)(n_tiny * damp); n_mid = (int)(n_mid * damp);
  add_check<EcCase>("mid_add", n_mid * 3 / 11, 100, []() { return genMid(0); }, run_case);
  add_check<EcCase>("mid_mult", n_mid * 5 / 11, 100, []() { return genMid(1); }, run_case);
  add_check<EcCase>("mid_twin", n_mid * 3 / 11, 100, []() { return genMid(2); }, run_case);
  add_check<EcCase>("tiny_add", n_tiny * 2 / 7, 100, []() { return genTinyCase(0); }, run_case);
  add_check<EcCase>("tiny_mult", n_tiny * 3 / 7, 100, []() { return genTinyCase(1); }, run_case);
  add_check<EcCase>("tiny_twin", n_tiny * 2 / 7, 100, []() { return genTinyCase(2); }, run_case);
  add_check<EcCase>("pred", cnt(3.0, pred_s + 0.002, 24, 600), 100, genPred, run_case);
  add_enum_check("enum_tiny", 100, enum_tiny, [](const std::string &t) { return run_case(EcCase::parse(t)); });
  return driver_main(argc, argv);
}
