// C03 -- ECDSA / GOST R 34.10 signatures are complete, sound and standard-conforming.
// rapidcheck differential test of ecdsa_sign*/ecdsa_verify*/ecdsa_verify_priv_key* (big endian,
// little endian and bn_t level entry points) against
//   * refimpl/ecdsa_ref.hpp (SEC 1 / FIPS 186-4 ECDSA, GOST R 34.10-2012; affine group law over GMP),
//   * OpenSSL 3 ECDSA_do_verify / ECDSA_do_sign_ex on the 21 curves it knows by NID,
//   * libgcrypt's GOST R 34.10 verifier on the 10 GOST parameter sets it knows.
// Links against one shims/ecdsa_shim.c build variant.
#include "C03_common.hpp"

using namespace c39;

// ------------------------------------------------------------------ predicates (known findings)
static const char *P_REDUCE = "C03_hash_ge_n_mod_reduce";       // e >= n mapped to (e mod (n-1))+1 instead of e mod n
static const char *P_TRUNC_BITS = "C03_hash_trunc_bytes_not_bits"; // MIN(hash_size, bytes) octets instead of leftmost bitlen(n) bits
static const char *P_TRUNC_LE = "C03_hash_trunc_le_low_bytes";  // *_le keep the low-order octets of an over-long hash
static const char *P_NLEN = "C03_sig_wider_than_field";         // n wider than the field: sign_size = octets(n) refused
static const char *P_INF = "C03_pubkey_infinity_accepted";      // encoding 00 (neutral element) usable as verification key
static const char *P_PREDBL = "C03_predbl_scalar_wider_than_field";  // PRECALC_DBL table has m entries, scalars of m+1 bits index past it
static const char *P_RZERO = "C03_r_s_zero_not_rejected";       // only r, s < n is checked; r = 0 verifies when x(R) mod n = 0 (base point abscissa 0)
static const char *P_K0 = "C03_sign_nonce_zero_infinity_unchecked";  // FXP_MULT_ALGO_BIN builds: rnd = 0 -> R = O not noticed, GOST "signature" (Gx, d*Gx)
static const char *P_STATUS = "C03_mult_status_ignored";        // return code of ec_point_(twin_)mult_bp dropped: r = 0 "verifies"

// fixed-base multiplication by this scalar is known-broken in this build variant (n one bit wider than the field,
// EC_PF_FXP_MULT_ALGO_BIN_PRECALC_DBL precomputes only m doublings)
static bool predbl_wide(const Curve &c, const Z &scalar) {
  return es_info(ES_INFO_FXP) == 1 && scalar > 0 && mpz_sizeinbase(scalar.get_mpz_t(), 2) > c.m;
}

// ------------------------------------------------------------------ case
enum Kind {
  K_VALID = 0, K_FLIP_HASH, K_FLIP_R, K_FLIP_S, K_R_ZERO, K_S_ZERO, K_R_N, K_S_N, K_R_N1, K_S_N1, K_R_MAX, K_S_MAX,
  K_TWIN, K_SWAP, K_WRONG_KEY, K_NEG_KEY, K_R_PLUS_N, K_INF_KEY, K_SHORT, K_DROP_BYTE, K_NLEN, K_HASH_EXT, K_R_ZERO_S_E, K_S_PLUS_N, K_NKINDS
};
static const char *kind_name(int k) {
  static const char *n[] = {"valid", "flip_hash", "flip_r", "flip_s", "r_zero", "s_zero", "r_eq_n", "s_eq_n", "r_n_plus_1",
                            "s_n_plus_1", "r_all_ones", "s_all_ones", "twin_r_n_minus_s", "swap_r_s", "wrong_key", "neg_key",
                            "r_plus_n", "key_infinity_forged", "short_sign_size_valid", "drop_top_byte", "sign_size_octets_of_n",
                            "hash_extended", "r_zero_s_eq_e", "s_plus_n"};
  return (k >= 0 && k < K_NKINDS) ? n[k] : "?";
}
enum Signer { S_LIB = 0, S_REF = 1, S_OSSL = 2 };

struct SigCase {
  int ci = 0, smode = 0, vmode = 0, signer = 0, dpad = 0, kind = 0, enc = 0;
  uint32_t mp = 0;
  Bytes d, hash, rnd, d2;
  std::string ser() const {
    Writer w;
    w.i("ci", ci).s("curve", ci < (int)curves().size() ? curves()[ci].c.name : "?");
    w.i("smode", smode).i("vmode", vmode).i("signer", signer).i("dpad", dpad).i("kind", kind).s("kind_name", kind_name(kind));
    w.i("enc", enc).u("mp", mp).b("d", d).b("hash", hash).b("rnd", rnd).b("d2", d2);
    return w.str();
  }
  static SigCase parse(const std::string &t) {
    Reader r(t);
    SigCase c;
    c.ci = (int)r.i("ci"); c.smode = (int)r.i("smode"); c.vmode = (int)r.i("vmode"); c.signer = (int)r.i("signer");
    c.dpad = (int)r.i("dpad"); c.kind = (int)r.i("kind"); c.enc = (int)r.i("enc"); c.mp = (uint32_t)r.u("mp");
    c.d = r.b("d"); c.hash = r.b("hash"); c.rnd = r.b("rnd"); c.d2 = r.b("d2");
    return c;
  }
};
void showValue(const SigCase &c, std::ostream &os) { os << c.ser(); }

// ------------------------------------------------------------------ message representative
struct Rep {
  Bytes arg;         // bytes handed to the library for this entry point
  Z t_std, t_model;  // integer handed to the reference (ECDSA: e before mod n, GOST: alpha)
  Z t_win;           // integer of the window the library reads
  bool std_defined = true;  // false: GOST with a hash longer than the field (standard fixes the hash length)
  bool dev_bits = false, dev_le = false, dev_reduce = false;
  bool deviates() const { return dev_bits || dev_le || dev_reduce; }
};
static Z eff(const Curve &c, const Z &t) { return c.algo == ecref::ALGO_GOST ? ecref::gost_e(c, t) : ecref::mod(t, c.n); }
static Rep rep(const CurveX &cx, int mode, const Bytes &H) {
  const Curve &c = cx.c;
  Rep r;
  size_t B = c.bytes, w = std::min(H.size(), B);
  Bytes head(H.begin(), H.begin() + w), tail(H.end() - w, H.end());
  Z t_head = z_of(head), t_tail = z_of(tail);
  bool gost = c.algo == ecref::ALGO_GOST;
  if (mode == ES_BE) { r.arg = H; r.t_win = t_head; }
  else if (mode == ES_LE) { r.arg = rev(H); r.t_win = t_tail; }
  else { r.arg = head; r.t_win = t_head; }  // bn_t level: the caller hands over a number; we pass the first `bytes` octets
  if (gost) {
    if (H.size() <= B) r.t_std = z_of(H);
    else { r.std_defined = false; r.t_std = r.t_win; }
  } else {
    r.t_std = mode == ES_BN ? t_head : ecref::bits2int(c, H);
  }
  Z t1 = r.t_std;
  if (r.std_defined) {
    if (mode == ES_BE) {
      if (known(P_TRUNC_BITS)) t1 = r.t_win;
      r.dev_bits = t1 != r.t_std;
    } else if (mode == ES_LE) {
      if (known(P_TRUNC_LE)) { t1 = r.t_win; r.dev_le = t1 != r.t_std; }
      else if (known(P_TRUNC_BITS)) { t1 = t_head; r.dev_bits = t1 != r.t_std; }
    }
  }
  if (known(P_REDUCE)) {
    Z t2 = lib_reduce(t1, c.n);
    r.dev_reduce = eff(c, t2) != eff(c, t1);
    t1 = t2;
  }
  r.t_model = t1;
  // (dev flags describe *why* the model differs; when nothing differs mod n the flags are cleared)
  if (eff(c, r.t_model) == eff(c, r.t_std)) r.dev_bits = r.dev_le = r.dev_reduce = false;
  return r;
}
// verification equation without the lower range check r, s >= 1 (what ecdsa_verify computes; used only while the
// corresponding known-finding predicate is active)
static bool raw_no_lower_bound(const Curve &c, const Pt &Q, const Z &t, const Z &r, const Z &s) {
  if (r < 0 || r >= c.n || s < 0 || s >= c.n) return false;
  Z u1, u2, w;
  if (c.algo == ecref::ALGO_GOST) {
    if (!ecref::inv_mod(ecref::gost_e(c, t), c.n, w)) return false;
    u1 = ecref::mod(s * w, c.n); u2 = ecref::mod(-(r * w), c.n);
  } else {
    if (!ecref::inv_mod(s, c.n, w)) return false;
    u1 = ecref::mod(ecref::mod(t, c.n) * w, c.n); u2 = ecref::mod(r * w, c.n);
  }
  Pt R = ecref::add(c, ecref::mul(c, u1, ecref::G(c)), ecref::mul(c, u2, Q));
  return !R.inf && ecref::mod(R.x, c.n) == r;
}
static void count_dev(const Rep &r) {
  if (r.dev_reduce) excluded(P_REDUCE);
  if (r.dev_bits) excluded(P_TRUNC_BITS);
  if (r.dev_le) excluded(P_TRUNC_LE);
}

// ------------------------------------------------------------------ generators
static Z pow2z(size_t k) { Z r = 1; r <<= k; return r; }

static rc::Gen<SigCase> genCase() {
  return rc::gen::exec([]() {
    SigCase c;
    int ncurves = (int)curves().size();
    c.ci = *range<int>(0, ncurves - 1);
    const Curve &cv = curves()[c.ci].c;
    size_t B = cv.bytes, nlen = cv.nlen(), nbits = cv.nbits();
    Z lim = pow2z(8 * B), n = cv.n;
    c.smode = *rc::gen::weightedElement<int>({{4, ES_BE}, {3, ES_LE}, {2, ES_BN}});
    c.vmode = *rc::gen::weightedElement<int>({{4, ES_BE}, {3, ES_LE}, {2, ES_BN}});
    c.signer = *rc::gen::weightedElement<int>({{5, S_LIB}, {2, S_REF}, {2, S_OSSL}});
    c.dpad = *range<int>(0, 1);
    c.enc = *range<int>(0, PK_NENC - 1);
    c.mp = *range<uint32_t>(0, 4095);
    Bytes r1 = *bytes_len(2 * B + 80), r2 = *bytes_len(2 * B + 8), r3 = *bytes_len(B);
    auto rndmod = [](const Bytes &b, const Z &m) { return m > 0 ? ecref::mod(z_of(b), m) : Z(0); };
    // private key in [1, n-1], representable in B octets
    Z dmax = n - 1;
    if (dmax >= lim) dmax = lim - 1;
    auto gen_d = [&](int cls, const Bytes &rb) {
      Z d;
      switch (cls) {
      case 0: d = 1; break;
      case 1: d = 2; break;
      case 2: d = dmax; break;
      case 3: d = dmax - 1; break;
      case 4: d = 1 + rndmod(rb, Z(255)); break;                    // one octet
      case 5: d = 1 + rndmod(rb, pow2z(8 * (B - 1)) - 1); break;   // leading zero octet
      default: d = 1 + rndmod(rb, dmax); break;
      }
      if (d < 1) d = 1;
      if (d > dmax) d = dmax;
      return d;
    };
    c.d = be(gen_d(*range<int>(0, 9), r1), B);
    c.d2 = be(gen_d(*range<int>(4, 9), r3), B);
    if (c.d2 == c.d) c.d2 = be(gen_d(0, r3) == z_of(c.d) ? Z(2) : Z(1), B);
    // hash: length class x numeric class, constructed for the window the library reads or for bits2int
    size_t L = *rc::gen::elementOf(std::vector<size_t>{1, B - 1, B, B, B, B + 1, 2 * B, 20, 28, 32, 48, 64, nlen, B + 7});
    int ncls = *range<int>(0, 11);
    int how = *range<int>(0, 2);  // 0,1: window construction, 2: bits2int construction (ECDSA, long enough)
    size_t w = std::min(L, B);
    Z winlim = pow2z(8 * w), v;
    switch (ncls) {
    case 0: v = 0; break;
    case 1: v = 1; break;
    case 2: v = rndmod(r2, n); break;
    case 3: v = n - 1; break;
    case 4: v = n; break;
    case 5: v = n + 1; break;
    case 6: v = winlim - 1; break;
    case 7: v = 2 * (n - 1); break;
    case 8: v = 2 * n - 1; break;
    case 9: v = n + rndmod(r2, winlim > n ? Z(winlim - n) : Z(1)); break;  // >= n, random
    default: v = rndmod(r2, winlim); break;
    }
    Bytes extra(r1.begin(), r1.begin() + (L - w));
    if (how == 2 && cv.algo == ecref::ALGO_ECDSA && 8 * L >= nbits) {
      Z vv = ecref::mod(v, pow2z(nbits));
      size_t sh = 8 * L - nbits;
      Z full = (vv << sh) + ecref::mod(z_of(r1), pow2z(sh));
      c.hash = be(full, L);
    } else {
      Bytes win = be(ecref::mod(v, winlim), w);
      if (c.smode == ES_LE) { c.hash = extra; c.hash.insert(c.hash.end(), win.begin(), win.end()); }
      else { c.hash = win; c.hash.insert(c.hash.end(), extra.begin(), extra.end()); }
    }
    // nonce: numeric class of the B octets the library reads, rnd_size in {B, B+1, 2B}
    int kcls = *range<int>(0, 11);
    Z k;
    switch (kcls) {
    case 0: k = 1; break;
    case 1: k = 2; break;
    case 2: k = n - 1; break;
    case 3: k = n; break;
    case 4: k = n + 1; break;
    case 5: k = 0; break;
    case 6: k = lim - 1; break;
    case 7: k = 2 * (n - 1); break;
    case 8: k = n + rndmod(r3, lim > n ? Z(lim - n) : Z(1)); break;
    default: k = rndmod(r3, lim); break;
    }
    k = ecref::mod(k, lim);
    size_t RL = *rc::gen::elementOf(std::vector<size_t>{B, B, B + 1, 2 * B});
    Bytes kw = be(k, B), kextra(r2.begin(), r2.begin() + (RL - B));
    if (c.smode == ES_LE) { c.rnd = kextra; c.rnd.insert(c.rnd.end(), kw.begin(), kw.end()); }
    else if (c.smode == ES_BN) { c.rnd = kw; }
    else { c.rnd = kw; c.rnd.insert(c.rnd.end(), kextra.begin(), kextra.end()); }
    c.kind = *rc::gen::weightedElement<int>({{6, K_VALID}, {3, K_FLIP_HASH}, {3, K_FLIP_R}, {3, K_FLIP_S}, {1, K_R_ZERO},
        {1, K_S_ZERO}, {1, K_R_N}, {1, K_S_N}, {1, K_R_N1}, {1, K_S_N1}, {1, K_R_MAX}, {1, K_S_MAX}, {3, K_TWIN}, {1, K_SWAP},
        {3, K_WRONG_KEY}, {2, K_NEG_KEY}, {2, K_R_PLUS_N}, {2, K_INF_KEY}, {2, K_SHORT}, {1, K_DROP_BYTE}, {2, K_NLEN}, {2, K_HASH_EXT}, {2, K_R_ZERO_S_E}, {2, K_S_PLUS_N}});
    return c;
  });
}

// ------------------------------------------------------------------ helpers for the run
// per curve: smallest k >= 2 whose r = x(kG) mod n has a zero top octet (for K_SHORT)
static bool small_r_nonce(const CurveX &cx, Z &k0, Z &r0) {
  static std::map<int, std::pair<Z, Z>> cache;
  auto it = cache.find(cx.idx);
  if (it != cache.end()) { k0 = it->second.first; r0 = it->second.second; return k0 > 0; }
  const Curve &c = cx.c;
  Z lim = pow2z(8 * (c.bytes - 1));
  Pt g = ecref::G(c), P = ecref::add(c, g, g);
  Z k = 2;
  for (int i = 0; i < 20000; i++, k += 1, P = ecref::add(c, P, g)) {
    Z r = ecref::mod(P.x, c.n);
    if (!P.inf && r != 0 && r < lim) { cache[cx.idx] = {k, r}; k0 = k; r0 = r; return true; }
  }
  cache[cx.idx] = {Z(0), Z(0)};
  return false;
}
static bool accepted(int rc) { return rc == 0; }
static std::string rcstr(int rc) { return std::to_string(rc); }

struct Tuple {
  Bytes H;
  Z r, s, d;
  Pt Q;
  size_t sign_size;
  bool size_std_valid = true;  // false: the (r, s) octets handed over are not the full integers (K_DROP_BYTE)
};

static Verdict verify_tuple(const CurveX &cx, const SigCase &cs, int vm, const Tuple &t, int kind, const char *what) {
  const Curve &c = cx.c;
  size_t B = c.bytes;
  Rep rp = rep(cx, vm, t.H);
  // verdicts of the standard (t_std) and of the model (= standard unless a known-finding predicate is active)
  bool q_valid = ecref::valid_pubkey(c, t.Q);
  bool std_acc = q_valid && (c.algo == ecref::ALGO_GOST ? ecref::gost_verify_raw(c, t.Q, rp.t_std, t.r, t.s)
                                                        : ecref::ecdsa_verify_raw(c, t.Q, ecref::mod(rp.t_std, c.n), t.r, t.s));
  bool mod_acc = q_valid && (c.algo == ecref::ALGO_GOST ? ecref::gost_verify_raw(c, t.Q, rp.t_model, t.r, t.s)
                                                        : ecref::ecdsa_verify_raw(c, t.Q, ecref::mod(rp.t_model, c.n), t.r, t.s));
  // second opinions on the standard verdict (independent implementations)
  if (rp.std_defined && !t.Q.inf && kind != K_NLEN) {
    if (cx.ossl_named) {
      // OpenSSL applies bits2int to the octets it gets.  For the bn_t level entry the number itself is e, so the
      // comparison is meaningful only when bits2int is the identity on the octets handed over.
      Bytes Ho = vm == ES_BN ? Bytes(t.H.begin(), t.H.begin() + std::min(t.H.size(), B)) : t.H;
      if (vm != ES_BN || 8 * Ho.size() <= c.nbits()) {
        int o = ossl_verify(cx, Ho, t.r, t.s, t.Q);
        PBT_REQUIRE((o == 1) == std_acc, "ORACLE DISAGREEMENT (" << what << "): OpenSSL verdict " << o << " vs reference " << std_acc);
        label("second_opinion:openssl");
      }
    } else if (!cx.gcry.empty()) {
      int g = gcry_gost_verify(cx, rp.t_std, t.r, t.s, t.Q);
      PBT_REQUIRE((g == 1) == std_acc, "ORACLE DISAGREEMENT (" << what << "): libgcrypt verdict " << g << " vs reference " << std_acc);
      label("second_opinion:libgcrypt");
    }
  }
  // ---- library: public-key verifier
  int rc;
  Bytes rb, sb;
  if (vm == ES_BN) { rb = minimal_be(t.r); sb = minimal_be(t.s); }
  else {
    // octets of r, s at the requested width (low-order octets when the width is smaller than the integer)
    size_t W = t.sign_size;
    Bytes rf = be(t.r, std::max(W, c.nlen() + 1)), sf = be(t.s, std::max(W, c.nlen() + 1));
    rb = ord(vm, Bytes(rf.end() - W, rf.end()));
    sb = ord(vm, Bytes(sf.end() - W, sf.end()));
  }
  In ih(rp.arg), ir(rb), is(sb);
  bool lib_pub;
  if (vm == ES_BN) {
    In px(t.Q.inf ? Bytes(1, 0) : be(t.Q.x, B)), py;
    if (!t.Q.inf) py = In(be(t.Q.y, B));
    rc = es_verify(cx.idx, vm, &ih, &ir, &is, 0, &px, &py, 0);
  } else {
    PkBytes pk = pk_encode(c, t.Q, cs.enc, vm == ES_LE);
    In px(pk.x), py;
    if (pk.has_y) py = In(pk.y);
    rc = es_verify(cx.idx, vm, &ih, &ir, &is, t.sign_size, &px, &py, pk.size);
  }
  PBT_REQUIRE(rc < ES_RC_SHIM, what << ": shim could not call ecdsa_verify (rc " << rc << ")");
  lib_pub = accepted(rc);
  label(std::string("verify:") + (lib_pub ? "accept" : "reject"));
  count_dev(rp);

  bool expect = mod_acc;
  bool skip = false, skip_priv = false;
  {
    // scalars the verifiers multiply the base point by (needed only to classify the PRECALC_DBL finding)
    Z e = eff(c, rp.t_model), w, u1, u2;
    bool ok = c.algo == ecref::ALGO_GOST ? ecref::inv_mod(e, c.n, w) : ecref::inv_mod(ecref::mod(t.s, c.n), c.n, w);
    if (ok) {
      if (c.algo == ecref::ALGO_GOST) { u1 = ecref::mod(t.s * w, c.n); u2 = ecref::mod(-(t.r * w), c.n); }
      else { u1 = ecref::mod(e * w, c.n); u2 = ecref::mod(t.r * w, c.n); }
      if (known(P_PREDBL)) {
        if (es_info(ES_INFO_TWIN) == 1 && predbl_wide(c, u1)) { skip = true; excluded(P_PREDBL); }
        if (predbl_wide(c, ecref::mod(u1 + u2 * t.d, c.n))) { skip_priv = true; excluded(P_PREDBL); }
      }
    }
  }
  if (!t.size_std_valid) {
    // the octets handed over denote other integers r', s' (top octet dropped): evaluate those
    Z lim = pow2z(8 * t.sign_size);
    Z r2 = ecref::mod(t.r, lim), s2 = ecref::mod(t.s, lim);
    expect = q_valid && (c.algo == ecref::ALGO_GOST ? ecref::gost_verify_raw(c, t.Q, rp.t_model, r2, s2)
                                                    : ecref::ecdsa_verify_raw(c, t.Q, ecref::mod(rp.t_model, c.n), r2, s2));
  }
  if ((t.r == 0 || t.s == 0) && known(P_RZERO) && t.size_std_valid && q_valid) {
    bool relaxed = raw_no_lower_bound(c, t.Q, rp.t_model, t.r, t.s);
    if (relaxed != expect) { excluded(P_RZERO); expect = relaxed; }
  }
  if (kind == K_NLEN && vm != ES_BN) {
    if (known(P_NLEN)) { excluded(P_NLEN); skip = true; PBT_REQUIRE(!lib_pub || mod_acc, what << ": accepted although the model rejects"); }
  }
  if (kind == K_INF_KEY) {
    if (known(P_INF)) { if (lib_pub) excluded(P_INF); skip = true; }
  }
  if (!skip) {
    if (expect && !lib_pub)
      return Verdict::fail(std::string(what) + ": ecdsa_verify (" + mode_name(vm) + ", key " + (vm == ES_BN ? "point" : enc_name(cs.enc)) +
                           ") REJECTS (rc " + rcstr(rc) + ") a tuple the standard accepts; kind=" + kind_name(kind) + " e_std=" +
                           zs(eff(c, rp.t_std)) + " r=" + zs(t.r) + " s=" + zs(t.s));
    if (!expect && lib_pub)
      return Verdict::fail(std::string(what) + ": ecdsa_verify (" + mode_name(vm) + ") ACCEPTS a tuple the standard rejects; kind=" +
                           kind_name(kind) + " e_std=" + zs(eff(c, rp.t_std)) + " r=" + zs(t.r) + " s=" + zs(t.s) +
                           (t.Q.inf ? " Q=infinity" : ""));
  }
  // ---- library: private-key verifier (same verdict as with Q = d*G); not applicable to the forged infinity tuple
  if (kind != K_INF_KEY) {
    Bytes db = vm == ES_BN ? minimal_be(t.d) : ord(vm, cs.dpad ? minimal_be(t.d) : be(t.d, B));
    In id(db);
    int rc2 = es_verify_priv(cx.idx, vm, &ih, &ir, &is, t.sign_size, &id);
    PBT_REQUIRE(rc2 < ES_RC_SHIM, what << ": shim could not call ecdsa_verify_priv_key (rc " << rc2 << ")");
    bool lib_priv = accepted(rc2);
    label(std::string("verify_priv:") + (lib_priv ? "accept" : "reject"));
    if (!skip && !skip_priv) {
      if (expect && !lib_priv)
        return Verdict::fail(std::string(what) + ": ecdsa_verify_priv_key (" + mode_name(vm) + ") REJECTS (rc " + rcstr(rc2) +
                             ") a tuple the standard accepts; kind=" + kind_name(kind) + " r=" + zs(t.r) + " s=" + zs(t.s));
      if (!expect && lib_priv)
        return Verdict::fail(std::string(what) + ": ecdsa_verify_priv_key (" + mode_name(vm) + ") ACCEPTS a tuple the standard rejects; kind=" +
                             kind_name(kind) + " r=" + zs(t.r) + " s=" + zs(t.s));
    }
  }
  if (expect) label("expected:accept"); else label("expected:reject");
  return Verdict::pass();
}

static Verdict run(const SigCase &cs) {
  if (cs.ci < 0 || cs.ci >= (int)curves().size()) return Verdict::pass();
  const CurveX &cx = curves()[cs.ci];
  const Curve &c = cx.c;
  if (!lib_curve(cx)) { label("curve_not_available_in_variant"); return Verdict::pass(); }
  size_t B = c.bytes, nlen = c.nlen();
  Z n = c.n, lim = pow2z(8 * B);
  Z d = z_of(cs.d);
  if (d < 1 || d >= n || d >= lim || cs.hash.empty() || cs.rnd.size() < B) { label("case_outside_domain"); return Verdict::pass(); }
  bool gost = c.algo == ecref::ALGO_GOST;
  label(gost ? "algo:gost" : "algo:ecdsa");
  label(std::string("sign_entry:") + mode_name(cs.smode));
  label(std::string("verify_entry:") + mode_name(cs.vmode));
  bool nontriv = false;

  // ---------------- nonce the library derives from rnd (documented mapping, mirrored for the nonce only)
  Z k_raw;
  Bytes rnd_arg;
  if (cs.smode == ES_BE) { k_raw = z_of(cs.rnd.data(), B); rnd_arg = cs.rnd; }
  else if (cs.smode == ES_LE) { k_raw = z_of(cs.rnd.data() + (cs.rnd.size() - B), B); rnd_arg = rev(cs.rnd); }
  else { k_raw = z_of(cs.rnd); rnd_arg = cs.rnd; }
  Z k = lib_reduce(k_raw, n);
  if (k_raw >= n) label("nonce:>=n"); else if (k_raw == 0) label("nonce:0"); else label("nonce:<n");

  Rep rs = rep(cx, cs.smode, cs.hash);
  if (rs.t_win >= n || rs.t_std >= n) { label("hash:>=n"); nontriv = true; }
  if (cs.hash.size() > B) { label("hash:longer_than_field"); nontriv = true; }
  else if (cs.hash.size() < B) label("hash:shorter_than_field");
  if (!rs.std_defined) label("hash:gost_longer_than_field(standard_silent)");

  Pt Q = ecref::mul(c, d, ecref::G(c));
  Z r, s;
  bool have_sig = false;

  if (cs.signer == S_LIB) {
    label("signer:lib");
    Z er, es_;
    bool ref_ok = k != 0 && ecref::sign(c, d, rs.t_model, k, er, es_);
    size_t ocap = cs.smode == ES_BN ? nlen : B;
    Bytes db = cs.smode == ES_BN ? minimal_be(d) : ord(cs.smode, cs.dpad ? minimal_be(d) : be(d, B));
    In ih(rs.arg), id(db), ik(rnd_arg);
    Out orr(ocap), os(ocap);
    size_t ss = ES_SIZE_UNSET;
    int rc = es_sign(cx.idx, cs.smode, &ih, &id, &ik, &orr, &os, &ss);
    PBT_REQUIRE(rc < ES_RC_SHIM, "shim could not call ecdsa_sign (rc " << rc << ")");
    count_dev(rs);
    if (predbl_wide(c, k) && known(P_PREDBL)) {
      excluded(P_PREDBL);
      if (nontriv) nontrivial_cur();
      return Verdict::pass();
    }
    if (k == 0 && rc == 0 && es_info(ES_INFO_FXP) == 0 && known(P_K0)) {
      excluded(P_K0);
      if (nontriv) nontrivial_cur();
      return Verdict::pass();
    }
    if (!ref_ok) {
      label("sign:must_fail(k=0_or_r=0_or_s=0)");
      PBT_REQUIRE(rc != 0, "ecdsa_sign (" << mode_name(cs.smode) << ") reports success although no signature exists for nonce k=" << zs(k));
    } else if (cs.smode != ES_BN && (er >= lim || es_ >= lim)) {
      label("sign:result_wider_than_field(error_allowed)");
      if (rc == 0) {
        PBT_REQUIRE(false, "ecdsa_sign returned 0 although r or s does not fit into the output");
      }
    } else {
      PBT_REQUIRE(rc == 0, "ecdsa_sign (" << mode_name(cs.smode) << ") failed with rc " << rc << " for a valid key, hash and nonce k=" << zs(k));
      PBT_REQUIRE(ss == ocap, "ecdsa_sign: *sign_size = " << ss << ", expected " << ocap);
      Bytes rb = orr.bytes(ocap), sb = os.bytes(ocap);
      if (cs.smode == ES_LE) { rb = rev(rb); sb = rev(sb); }
      r = z_of(rb); s = z_of(sb);
      have_sig = true;
      // (r, s) is the signature of the standard signer for the same nonce
      if (r != er || s != es_) {
        // independent of the nonce mirror: is it at least a valid signature?
        bool valid_std = ecref::verify(c, Q, rs.t_std, r, s);
        return Verdict::fail(std::string("ecdsa_sign (") + mode_name(cs.smode) + ") output differs from the standard signer for the same nonce: r=" +
                             zs(r) + " s=" + zs(s) + " expected r=" + zs(er) + " s=" + zs(es_) + " e_std=" + zs(eff(c, rs.t_std)) +
                             " (signature verifies per standard: " + (valid_std ? "yes" : "NO") + ")");
      }
      if (!rs.deviates() && rs.std_defined) {
        // independent standard-conforming verifiers accept the library's signature
        if (cx.ossl_named && (cs.smode != ES_BN || 8 * std::min(cs.hash.size(), B) <= c.nbits())) {
          Bytes Hs = cs.smode == ES_BN ? Bytes(cs.hash.begin(), cs.hash.begin() + std::min(cs.hash.size(), B)) : cs.hash;
          PBT_REQUIRE(ossl_verify(cx, Hs, r, s, Q) == 1, "OpenSSL rejects the signature produced by ecdsa_sign: r=" << zs(r) << " s=" << zs(s));
          label("lib_signature_verified_by:openssl");
        } else if (!cx.gcry.empty()) {
          PBT_REQUIRE(gcry_gost_verify(cx, rs.t_std, r, s, Q) == 1, "libgcrypt rejects the signature produced by ecdsa_sign");
          label("lib_signature_verified_by:libgcrypt");
        } else {
          label("lib_signature_verified_by:reference_only");
        }
      }
    }
  } else {
    // a standard-conforming signer produces the signature over the logical hash octets
    nontriv = true;
    Z kk = k == 0 ? Z(1) : k;
    Rep rstd = rep(cx, ES_BE, cs.hash);
    Z tstd = gost ? (cs.hash.size() <= B ? z_of(cs.hash) : rstd.t_win) : ecref::bits2int(c, cs.hash);
    if (!ecref::sign(c, d, tstd, kk, r, s)) { label("foreign_signer:no_signature_for_nonce"); return Verdict::pass(); }
    if (cs.signer == S_OSSL && cx.ossl_named) {
      Z o_r, o_s;
      PBT_REQUIRE(ossl_sign(cx, cs.hash, d, kk, o_r, o_s), "ORACLE: OpenSSL ECDSA_do_sign_ex failed");
      PBT_REQUIRE(o_r == r && o_s == s, "ORACLE DISAGREEMENT: OpenSSL and reference signer differ");
      label("signer:openssl");
    } else {
      label("signer:reference");
    }
    if (r >= lim || s >= lim) { label("foreign_signature_wider_than_field"); return Verdict::pass(); }
    have_sig = true;
  }
  if (!have_sig) { if (nontriv) nontrivial_cur(); return Verdict::pass(); }

  // the hash octets the verifier is given: for a foreign signer the logical octets; for the library signer the same
  // logical octets (the verifier entry point may differ from the signing entry point)
  Bytes Hv = cs.hash;
  // when signing went through the bn_t level entry, the number signed was the first B octets
  if (cs.signer == S_LIB && cs.smode == ES_BN && Hv.size() > B) Hv.resize(B);
  // a library signature made through one entry point is a signature over e_model(entry); it is presented to another
  // entry point only when both agree on the representative (otherwise the tuple is simply a different message)
  Tuple base;
  base.H = Hv; base.r = r; base.s = s; base.d = d; base.Q = Q; base.sign_size = B;

  // ---------------- completeness: the unmodified tuple
  {
    // a library signature is first presented to the verifier of the same entry point family (completeness)
    Verdict v = verify_tuple(cx, cs, cs.signer == S_LIB ? cs.smode : cs.vmode, base, K_VALID, "valid tuple");
    if (!v.ok) return v;
  }
  // ---------------- soundness / conformance: one mutated tuple
  int kind = cs.kind;
  Tuple t = base;
  Z allones = lim - 1;
  auto fits = [&](const Z &v) { return v < lim; };
  switch (kind) {
  case K_VALID: break;
  case K_FLIP_HASH: { size_t bit = cs.mp % (8 * t.H.size()); t.H[bit / 8] ^= (uint8_t)(0x80 >> (bit % 8)); break; }
  case K_FLIP_R: { Z f = pow2z(cs.mp % (8 * B)); t.r = (t.r ^ f); break; }
  case K_FLIP_S: { Z f = pow2z(cs.mp % (8 * B)); t.s = (t.s ^ f); break; }
  case K_R_ZERO: t.r = 0; break;
  case K_S_ZERO: t.s = 0; break;
  case K_R_N: if (fits(n)) t.r = n; else kind = K_VALID; break;
  case K_S_N: if (fits(n)) t.s = n; else kind = K_VALID; break;
  case K_R_N1: if (fits(n + 1)) t.r = n + 1; else kind = K_VALID; break;
  case K_S_N1: if (fits(n + 1)) t.s = n + 1; else kind = K_VALID; break;
  case K_R_MAX: t.r = allones; break;
  case K_S_MAX: t.s = allones; break;
  case K_TWIN: if (fits(n - t.s)) t.s = n - t.s; else kind = K_VALID; break;  // valid for ECDSA (malleability), not for GOST
  case K_SWAP: std::swap(t.r, t.s); break;
  case K_WRONG_KEY: { Z d2 = z_of(cs.d2); if (d2 < 1 || d2 >= n || d2 == d) d2 = d == 1 ? Z(2) : Z(1); t.d = d2; t.Q = ecref::mul(c, d2, ecref::G(c)); break; }
  case K_NEG_KEY: if (fits(n - d)) { t.d = n - d; t.Q = ecref::neg(c, Q); } else kind = K_VALID; break;
  case K_R_PLUS_N: if (fits(t.r + n)) t.r = t.r + n; else kind = K_FLIP_R, t.r = (t.r ^ Z(1)); break;
  case K_S_PLUS_N: if (fits(t.s + n)) t.s = t.s + n; else kind = K_FLIP_S, t.s = (t.s ^ Z(1)); break;
  case K_INF_KEY: {
    // forge (r, s) that satisfies the verification equation for Q = O: R = u1*G only
    Z s2 = 1 + ecref::mod(z_of(cs.d2), n - 1), e = eff(c, rep(cx, cs.vmode, t.H).t_model), u1, w;
    if (gost) { ecref::inv_mod(e, n, w); u1 = ecref::mod(s2 * w, n); }
    else { ecref::inv_mod(s2, n, w); u1 = ecref::mod(e * w, n); }
    Pt R = ecref::mul(c, u1, ecref::G(c));
    if (R.inf || ecref::mod(R.x, n) == 0 || !fits(s2)) { kind = K_VALID; break; }
    t.r = ecref::mod(R.x, n); t.s = s2; t.Q = Pt();
    break;
  }
  case K_SHORT: {
    // a valid signature whose r and s both fit into B-1 octets, handed over with sign_size = B-1
    Z k0, r0;
    if ((!gost && c.nbits() < 8 * B) || !small_r_nonce(cx, k0, r0)) { kind = K_VALID; break; }
    Z s0 = 1 + ecref::mod(z_of(cs.d2), pow2z(8 * (B - 1) - 1)), e, w;
    if (gost) { ecref::inv_mod(k0, n, w); e = ecref::mod((s0 - r0 * d) * w, n); if (e == 0) { s0 += 1; e = ecref::mod((s0 - r0 * d) * w, n); } }
    else e = ecref::mod(s0 * k0 - d * r0, n);
    if (!fits(e)) { kind = K_VALID; break; }
    t.H = be(e, B); t.r = r0; t.s = s0; t.sign_size = B - 1;
    break;
  }
  case K_DROP_BYTE: if (cs.vmode == ES_BN) kind = K_VALID; else { t.sign_size = B - 1; t.size_std_valid = false; } break;
  case K_NLEN: if (nlen > B && cs.vmode != ES_BN) t.sign_size = nlen; else kind = K_VALID; break;
  case K_R_ZERO_S_E: {
    // r = 0 with s chosen so that the verifier multiplies G by 1 (GOST: z1 = s/e; ECDSA: u1 = e/s): on parameter sets
    // whose base point has abscissa 0 the unchecked r = 0 then equals x(R) mod n
    Z e = eff(c, rep(cx, cs.vmode, t.H).t_model);
    t.r = 0; t.s = e == 0 ? Z(1) : e;
    break;
  }
  case K_HASH_EXT: t.H.push_back((uint8_t)cs.mp); if (cs.mp & 0x100) t.H.insert(t.H.begin(), (uint8_t)(cs.mp >> 4)); break;
  default: kind = K_VALID; break;
  }
  label(std::string("tuple:") + kind_name(kind));
  if (kind != K_VALID) {
    nontriv = true;
    Verdict v = verify_tuple(cx, cs, cs.vmode, t, kind, kind_name(kind));
    if (!v.ok) return v;
  }
  if (nontriv) nontrivial_cur();
  return Verdict::pass();
}

// ------------------------------------------------------------------ "never success when an internal computation failed"
// Harness-side fault injection (shim wrappers around ec_point_mult_bp / ec_point_twin_mult_bp as called from
// ecdsa.h): with the fault armed the multiplication returns an error and leaves its result object untouched.
struct FaultCase {
  int ci = 0, mode = 0;
  Bytes d, hash, s;
  std::string ser() const {
    Writer w;
    w.i("ci", ci).s("curve", ci < (int)curves().size() ? curves()[ci].c.name : "?").i("mode", mode).b("d", d).b("hash", hash).b("s", s);
    return w.str();
  }
  static FaultCase parse(const std::string &t) {
    Reader r(t);
    FaultCase c;
    c.ci = (int)r.i("ci"); c.mode = (int)r.i("mode"); c.d = r.b("d"); c.hash = r.b("hash"); c.s = r.b("s");
    return c;
  }
};
void showValue(const FaultCase &c, std::ostream &os) { os << c.ser(); }
static rc::Gen<FaultCase> genFault() {
  return rc::gen::exec([]() {
    FaultCase c;
    c.ci = *range<int>(0, (int)curves().size() - 1);
    c.mode = *range<int>(0, 2);
    size_t B = curves()[c.ci].c.bytes;
    c.d = *bytes_len(B); c.hash = *bytes_len(B); c.s = *bytes_len(B);
    return c;
  });
}
struct FaultGuard { FaultGuard() { es_fault_mult(1); } ~FaultGuard() { es_fault_mult(0); } };
static Verdict run_fault(const FaultCase &fc) {
  if (fc.ci < 0 || fc.ci >= (int)curves().size()) return Verdict::pass();
  const CurveX &cx = curves()[fc.ci];
  const Curve &c = cx.c;
  if (!lib_curve(cx)) return Verdict::pass();
  size_t B = c.bytes;
  Z lim = pow2z(8 * B), top = c.n < lim ? c.n : lim;
  Z d = 1 + ecref::mod(z_of(fc.d), top - 1), s = 1 + ecref::mod(z_of(fc.s), top - 1);
  int m = fc.mode;
  Bytes H = fc.hash;
  H.resize(B, 0x5a);
  Rep rp = rep(cx, m, H);
  Bytes db = m == ES_BN ? minimal_be(d) : ord(m, be(d, B));
  Bytes kb = m == ES_BN ? minimal_be(s) : ord(m, be(s, B));
  Bytes zero = m == ES_BN ? Bytes(1, 0) : Bytes(B, 0);
  Bytes sb = m == ES_BN ? minimal_be(s) : ord(m, be(s, B));
  Pt Q = ecref::mul(c, d, ecref::G(c));
  PkBytes pk = pk_encode(c, Q, PK_PACKED, m == ES_LE);
  In ih(rp.arg), id(db), ik(kb), ir0(zero), is(sb);
  In px(m == ES_BN ? be(Q.x, B) : pk.x), py;
  if (m == ES_BN) py = In(be(Q.y, B));
  nontrivial_cur();
  bool kn = known(P_STATUS);
  int rc1, rc2, rc3;
  {
    FaultGuard g;
    Out orr(m == ES_BN ? c.nlen() : B), os(m == ES_BN ? c.nlen() : B);
    size_t ss = ES_SIZE_UNSET;
    rc1 = es_sign(cx.idx, m, &ih, &id, &ik, &orr, &os, &ss);
    rc2 = es_verify(cx.idx, m, &ih, &ir0, &is, B, &px, &py, pk.size);
    rc3 = es_verify_priv(cx.idx, m, &ih, &ir0, &is, B, &id);
  }
  label(std::string("fault:sign:") + (rc1 == 0 ? "success" : "error"));
  label(std::string("fault:verify(r=0):") + (rc2 == 0 ? "success" : "error"));
  label(std::string("fault:verify_priv(r=0):") + (rc3 == 0 ? "success" : "error"));
  if (kn) {
    if (rc1 == 0 || rc2 == 0 || rc3 == 0) excluded(P_STATUS);
    return Verdict::pass();
  }
  PBT_REQUIRE(rc1 != 0, "ecdsa_sign (" << mode_name(m) << ") reports success although the base-point multiplication failed");
  PBT_REQUIRE(rc2 != 0, "ecdsa_verify (" << mode_name(m) << ") reports success for r = 0 although the twin multiplication failed");
  PBT_REQUIRE(rc3 != 0, "ecdsa_verify_priv_key (" << mode_name(m) << ") reports success for r = 0 although the base-point multiplication failed");
  return Verdict::pass();
}

int main(int argc, char **argv) {
  setup_curves();
  anchors();
  long pct = es_info(ES_INFO_SCALE_PCT);
  int base = (int)std::max<long>(20, 640 * pct / 100);
  add_check<SigCase>("sig", base, 100, []() { return genCase(); }, run);
  add_check<FaultCase>("fault", 96, 100, []() { return genFault(); }, run_fault);
  return driver_main(argc, argv);
}
