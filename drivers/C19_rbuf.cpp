// C19 -- ring-buffer readers see the written stream in order or are told what they lost.
// Stateful check: a generated history of writer steps (wbuf_get / fill / wbuf_set | wbuf_set2, with and
// without leading offset, sizes chosen to hit every wrap residue) interleaved with 1..4 readers
// (rpos_init, data_avail_size, data_get + rpos_inc by <= bytes returned) is run against
// shims/rbuf_shim.c (one build variant) and against a byte-stream model:
//   * the stream is the concatenation of committed blocks, every byte has an absolute offset and the
//     value pat(offset); phys[p] = absolute offset of the byte currently stored at ring position p
//     (-1: never written / header gap), so every byte a reader is handed identifies its stream offset;
//   * per reader an absolute cursor and the drop reports received since its last data.
// The oracle runs after every read; table/positions invariants after every command.
#include "pbt.hpp"
#include "../shims/rbuf_abi.h"
#include <algorithm>
#include <climits>

using namespace pbt;

// ------------------------------------------------------------------ predicates (known-finding classes)
static const char *P_SIZERET = "c19_data_size_ret_on_early_return";   // iovec_aggregate_ex early return reports remainder 0 (H-RB-1)
static const char *P_EXACT = "c19_request_equal_first_block_returns_nothing";  // '>=' instead of '>' in the same test (H-RB-1)
static const char *P_LAPPED = "c19_lapped_by_bytes_not_by_index";     // previous-round reader valid by index, its bytes already overwritten
static const char *P_SLOW = "c19_slow_reader_not_resynchronised";     // "slow reader" branch reports drop but leaves rpos -> stalls, repeats report
static const char *P_CTRWRAP = "c19_round_counter_wrap_drop_zero";     // very slow reader across the round counter wrap: '>=' test reports drop 0
static const char *P_SKIPREST = "c19_data_get_skips_rest_of_previous_round";  // 2nd iovec_aggregate_ex runs although the 1st stopped inside the previous round
static const char *P_VIRGIN = "c19_avail_before_first_wbuf_get";      // data_avail_size on a ring whose iov[0].iov_base is still NULL

// ------------------------------------------------------------------ case
enum { OP_W = 0, OP_WGET, OP_INIT, OP_GET, OP_AVAIL, OP_N };
static const char *OPN[] = {"write", "wbuf_get", "rpos_init", "read", "avail"};
struct Cmd {
  int op = 0, rd = 0, mode = 0, rep = 1;
  uint64_t a = 0, b = 0, c = 0, d = 0, g = 0;
};
struct Case {
  uint64_t size = 256, minb = 1, round0 = 0;
  std::vector<Cmd> cmds;
  std::string ser() const {
    Writer w;
    w.u("size", size).u("minb", minb).u("round0", round0).u("n", cmds.size());
    for (size_t i = 0; i < cmds.size(); i++) {
      const Cmd &c = cmds[i];
      // op,reader,mode,rep,a,b,c,d,g
      w.o << "c" << i << "=" << c.op << "," << c.rd << "," << c.mode << "," << c.rep << "," << c.a << "," << c.b << "," << c.c << "," << c.d << "," << c.g
          << "  #" << OPN[c.op % OP_N] << "\n";
    }
    return w.str();
  }
  static Case parse(const std::string &t) {
    Reader r(t);
    Case c;
    c.size = r.u("size", 256); c.minb = r.u("minb", 1); c.round0 = r.u("round0");
    size_t n = (size_t)r.u("n");
    for (size_t i = 0; i < n; i++) {
      std::string k = "c" + std::to_string(i);
      auto it = r.kv.find(k);
      Cmd m;
      if (it != r.kv.end()) {
        unsigned long long v[9] = {0};
        int op = 0, rd = 0, mode = 0, rep = 1;
        sscanf(it->second.c_str(), "%d,%d,%d,%d,%llu,%llu,%llu,%llu,%llu", &op, &rd, &mode, &rep, &v[0], &v[1], &v[2], &v[3], &v[4]);
        m.op = ((op % OP_N) + OP_N) % OP_N; m.rd = rd; m.mode = mode; m.rep = std::max(1, std::min(rep, 64));
        m.a = v[0]; m.b = v[1]; m.c = v[2]; m.d = v[3]; m.g = v[4];
      }
      c.cmds.push_back(m);
    }
    return c;
  }
};
void showValue(const Case &c, std::ostream &os) { os << c.ser(); }

// ------------------------------------------------------------------ model
static inline uint8_t pat(uint64_t off) { return (uint8_t)((off * 167u) ^ (off >> 8) * 29u ^ (off >> 16) ^ 0x5a); }
struct Block { uint64_t abs; uint64_t len; uint64_t pos; };
struct Reader_ {
  bool active = false, known = false, poisoned = false, fresh = false, ctrwrap_pending = false;
  uint64_t cursor = 0;
  uint64_t pending_drop = 0;
  unsigned pending_reports = 0;
  uint64_t init_total = 0, init_req = 0;
};
struct RModel {
  uint64_t size = 0, minb = 0, total = 0, wpos = 0;
  uint64_t round_start = 0;  // stream offset of the first byte committed after the last wrap
  std::vector<int64_t> phys;
  std::vector<Block> blocks;
  unsigned wraps = 0;
  bool frag = false, virgin = true;
  Reader_ rd[SR_READERS];
  // smallest s with every byte of [s,total) still stored in the ring
  uint64_t intact_from() const {
    uint64_t s = total;
    for (size_t i = blocks.size(); i-- > 0;) {
      const Block &b = blocks[i];
      uint64_t k = b.len;
      while (k > 0 && phys[(size_t)(b.pos + k - 1)] == (int64_t)(b.abs + k - 1)) k--;
      s = b.abs + k;
      if (k > 0) break;
    }
    return s;
  }
  const Block *block_of(uint64_t abs) const {
    for (size_t i = blocks.size(); i-- > 0;) {
      if (abs >= blocks[i].abs && abs < blocks[i].abs + blocks[i].len) return &blocks[i];
      if (blocks[i].abs + blocks[i].len <= abs) break;
    }
    return nullptr;
  }
  void trim() {  // forget blocks that are completely overwritten (keeps block_of cheap)
    if (blocks.size() < 4096) return;
    std::vector<Block> keep;
    for (auto &b : blocks) {
      bool any = false;
      for (uint64_t k = 0; k < b.len && !any; k++) any = phys[(size_t)(b.pos + k)] == (int64_t)(b.abs + k);
      if (any) keep.push_back(b);
    }
    blocks.swap(keep);
  }
};

struct Ring {
  void *h = nullptr;
  uint8_t *base = nullptr;
  Ring(size_t size, size_t minb, uint64_t r0) { h = sr_alloc(size, minb, r0); if (h) base = sr_base(h); }
  ~Ring() { if (h) sr_free(h); }
  Ring(const Ring &) = delete;
  Ring &operator=(const Ring &) = delete;
};

static std::string st_str(const sr_state &s, int r) {
  std::ostringstream o;
  o << " {ring: wpos=" << s.wpos << " iov_index=" << s.iov_index << " iov_index_max=" << s.iov_index_max << " round=" << s.round_num << " flags=" << s.flags;
  if (r >= 0) o << "; rpos" << r << ": iov_index=" << s.rp[r].iov_index << " iov_off=" << s.rp[r].iov_off << " round=" << s.rp[r].round_num;
  o << "}";
  return o.str();
}

// library-state classes used only to *name* the input class of a finding (never to decide pass/fail)
static bool state_prev_round(const sr_state &s, int r) { return (uint64_t)(s.rp[r].round_num + 1) == s.round_num && s.rp[r].round_num != s.round_num; }
static bool state_slow_branch(const sr_state &s, int r) {
  return state_prev_round(s, r) && s.rp[r].iov_index <= s.iov_index_max && s.rp[r].iov_index <= s.iov_index;
}

// reader two or more rounds behind (mod 2^N) but numerically "ahead": r_buf_rpos_check() takes its 'rpos > wpos' arm and reports drop 0
static bool state_ctrwrap(const sr_state &s, int r) {
  uint64_t diff = s.round_num - s.rp[r].round_num;
  return diff >= 2 && (uint64_t)(s.rp[r].round_num + 1) >= s.round_num;
}
// previous-round reader that r_buf_rpos_check() accepts ("in range": writer index < reader index <= iov_index_max) although the
// block it stands on starts below the write position, i.e. its bytes have already been overwritten by the current round
static bool state_lapped_by_bytes(const sr_state &s, int r) {
  return state_prev_round(s, r) && s.rp[r].iov_index > s.iov_index && s.rp[r].iov_index <= s.iov_index_max && s.rp[r].blk_off >= 0 &&
         (uint64_t)s.rp[r].blk_off < s.wpos;
}
// to be called before any library call that runs r_buf_rpos_check() for reader r
static void pre_check_class(Ring &ring, RModel &m, int r) {
  sr_state s;
  sr_state_get(ring.h, &s);
  if (m.rd[r].active && !m.rd[r].poisoned && state_lapped_by_bytes(s, r)) {
    label("read:lapped_by_bytes_but_valid_by_index");
    if (known(P_LAPPED)) { excluded(P_LAPPED); m.rd[r].poisoned = true; }
  }
  if (m.rd[r].active && state_ctrwrap(s, r)) { m.rd[r].ctrwrap_pending = true; label("read:very_slow_reader_across_round_counter_wrap"); }
}

// "a reader that fell behind far enough to be overwritten is resynchronised": a call that reports a loss must leave the
// reader on a position r_buf_rpos_check_fast() accepts; otherwise every further call repeats the report and returns nothing.
static Verdict after_drop_report(Ring &ring, int r, size_t drop, const std::string &ctx) {
  if (drop == 0 || sr_rpos_check_fast(ring.h, r) != 0) return Verdict::pass();
  label("read:drop_reported_but_not_resynchronised");
  if (!known(P_SLOW)) {
    sr_state s1;
    sr_state_get(ring.h, &s1);
    PBT_REQUIRE(false, ctx << ": the call reports drop_size=" << drop << " but leaves the reader on an invalid position (rpos iov_index=" << s1.rp[r].iov_index
                           << " round=" << s1.rp[r].round_num << "): it is not resynchronised, the next call repeats the report");
  }
  excluded(P_SLOW);
  return Verdict::pass();
}

struct ReadOut {
  size_t n = 0, sum = 0, drop = 0, dsr = 0;
  std::vector<sr_iov> iov;
  bool has_start = false;
  uint64_t start = 0;
};

// one r_buf_data_get() + the per-read oracle. advance_kind < 0: do not advance (pure query).
static Verdict do_read(Ring &ring, RModel &m, int r, size_t req, size_t iov_cnt, int adv_kind, uint64_t adv_val, const std::string &cx, ReadOut &ro,
                       bool &lapped_seen) {
  Reader_ &R = m.rd[r];
  pre_check_class(ring, m, r);
  sr_state s0;
  sr_state_get(ring.h, &s0);
  const bool k_size = known(P_SIZERET), k_exact = known(P_EXACT), k_lapped = known(P_LAPPED), k_slow = known(P_SLOW);
  uint64_t ifrom = m.intact_from();
  bool lapped = R.known && R.cursor < ifrom;
  if (lapped) { lapped_seen = true; label("read:reader_lapped(model)"); }
  int cf = sr_rpos_check_fast(ring.h, r);
  const bool st_lapped = state_lapped_by_bytes(s0, r);
  bool slow_state = state_slow_branch(s0, r);
  // remainder of the block the cursor stands in (H-RB-1 class)
  uint64_t first_rem = 0;
  if (R.known && !lapped) { const Block *b = m.block_of(R.cursor); if (b) first_rem = b->abs + b->len - R.cursor; }

  // request that covers the block at the cursor but not all the rest of the previous round
  const bool cls_skiprest = state_prev_round(s0, r) && s0.rp[r].iov_index > s0.iov_index && s0.rp[r].iov_index <= s0.iov_index_max &&
                            s0.rp[r].blk_len > s0.rp[r].iov_off && req >= s0.rp[r].blk_len - s0.rp[r].iov_off && req < s0.rp[r].rest_of_round;
  if (cls_skiprest && !R.poisoned) {
    label("read:request_ends_inside_previous_round");
    if (known(P_SKIPREST)) { excluded(P_SKIPREST); R.poisoned = true; }
  }
  ro = ReadOut();
  ro.iov.resize(std::min<size_t>(iov_cnt, 4096));
  ro.n = sr_data_get(ring.h, r, req, iov_cnt, ro.iov.data(), ro.iov.size(), &ro.drop, &ro.dsr);
  sr_state s1;
  sr_state_get(ring.h, &s1);
  std::string ctx = cx + st_str(s0, r);
  PBT_REQUIRE(ro.n <= iov_cnt, ctx << ": data_get returned " << ro.n << " iovecs, array has " << iov_cnt);
  ro.iov.resize(std::min(ro.n, ro.iov.size()));
  // ---- every region handed to the reader lies inside the ring storage
  for (size_t i = 0; i < ro.iov.size(); i++) {
    const sr_iov &v = ro.iov[i];
    PBT_REQUIRE(v.off >= 0 && (uint64_t)v.off <= m.size && v.len <= m.size - (uint64_t)v.off,
                ctx << ": iovec #" << i << " [off " << v.off << ", len " << v.len << ") is outside the ring of " << m.size << " bytes");
    ro.sum += v.len;
  }
  PBT_REQUIRE(ro.sum <= req, ctx << ": data_get(max " << req << ") returned " << ro.sum << " bytes");
  if (ro.drop) { R.pending_drop += ro.drop; R.pending_reports++; label("read:drop_reported"); }

  // ---- poisoned reader (position no longer trusted because of a known finding): bounds only
  if (R.poisoned) {
    label("read:poisoned_reader(bounds only)");
    if (ro.sum) {
      size_t k = adv_kind == 0 ? ro.sum : adv_kind == 1 ? 0 : adv_kind == 2 ? 1 : adv_kind == 3 ? ro.sum - 1 : adv_kind == 4 ? ro.sum / 2 : (size_t)(adv_val % (ro.sum + 1));
      if (adv_kind >= 0 && k) sr_rpos_inc(ring.h, r, k);
    }
    return Verdict::pass();
  }

  // ---- reported size == bytes in the iovecs
  if (ro.dsr != ro.sum) {
    // iovec_aggregate_ex() reports remainder 0 on each of its early returns (request <= unread part of the first block,
    // no unread block at all, iovec array used up / first block of the new round too large in the second stage);
    // on its normal path data_size_ret == bytes returned. The class is therefore exactly "ret == request, fewer bytes".
    bool cls_early = ro.dsr == req && ro.sum < req;
    label("read:data_size_ret!=bytes_returned");
    if (!(k_size && cls_early))
      PBT_REQUIRE(false, ctx << ": data_get(max " << req << ", iov_cnt " << iov_cnt << ") returned " << ro.n << " iovecs with " << ro.sum
                             << " bytes but data_size_ret=" << ro.dsr << (cls_early ? " [iovec_aggregate_ex early return reports remainder 0]" : ""));
    excluded(P_SIZERET);
  }

  // ---- decode the bytes: one contiguous ascending run of stream offsets, byte-identical
  bool first = true;
  uint64_t prev = 0;
  for (size_t i = 0; i < ro.iov.size(); i++) {
    for (uint64_t k = 0; k < ro.iov[i].len; k++) {
      size_t p = (size_t)(ro.iov[i].off + (int64_t)k);
      int64_t a = m.phys[p];
      bool bad = a < 0 || (!first && (uint64_t)a != prev + 1);
      if (bad) {
        bool cls_l = st_lapped;
        bool cls_i = R.fresh && R.init_req > 0;  // (label only: first read after an rpos_init that asked for a backlog)
        const char *what = a < 0 ? "a byte that was never part of the stream (gap / unwritten)" : "a byte of a different stream position";
        if (cls_l) label("read:garbage_for_lapped_reader_valid_by_index");
        if (cls_i) label("read:garbage_after_rpos_init_backlog");
        if (cls_l && k_lapped) {
          excluded(P_LAPPED);
          R.poisoned = true;
          if (adv_kind >= 0 && ro.sum) sr_rpos_inc(ring.h, r, adv_kind == 1 ? 0 : ro.sum);
          return Verdict::pass();
        }
        PBT_REQUIRE(false, ctx << ": iovec #" << i << " byte " << k << " (ring pos " << p << ") is " << what << ": stream offset "
                               << a << " follows " << (first ? std::string("<start>") : std::to_string(prev)) << "; reader cursor "
                               << (R.known ? std::to_string(R.cursor) : std::string("unknown")) << ", stream total " << m.total << ", intact from " << ifrom
                               << ", drop=" << ro.drop << (cls_l ? " [reader lapped by bytes, still valid by block index]" : cls_i ? " [first read after rpos_init(data_size>0)]"
                                   : cls_skiprest ? " [request ends inside the previous round: the rest of that round is skipped]" : ""));
      }
      PBT_REQUIRE(ring.base[p] == pat((uint64_t)a), ctx << ": ring byte at " << p << " does not hold the written value");
      if (first) { ro.start = (uint64_t)a; ro.has_start = true; first = false; }
      prev = (uint64_t)a;
    }
  }

  // ---- position of the run relative to the reader's cursor, drop accounting
  if (ro.has_start) {
    if (R.known) {
      PBT_REQUIRE(ro.start >= R.cursor, ctx << ": data starts at stream offset " << ro.start << " but the reader already consumed up to " << R.cursor
                                            << " (repetition), drop=" << ro.drop);
      if (ro.start > R.cursor) {
        uint64_t skipped = ro.start - R.cursor;
        label("read:resynchronised(skipped>0)");
        if (R.pending_drop == 0) {
          bool cls_l = st_lapped, cls_w = R.ctrwrap_pending;
          if (cls_l) label("read:silent_skip_for_lapped_reader_valid_by_index");
          if (cls_w) label("read:silent_skip_after_round_counter_wrap");
          if ((cls_l && k_lapped) || (cls_w && known(P_CTRWRAP))) {
            excluded(cls_l && k_lapped ? P_LAPPED : P_CTRWRAP);
            if (cls_l && k_lapped) {
              R.poisoned = true;
              if (adv_kind >= 0 && ro.sum) sr_rpos_inc(ring.h, r, adv_kind == 1 ? 0 : ro.sum);
              return Verdict::pass();
            }
          } else
            PBT_REQUIRE(false, ctx << ": " << skipped << " stream bytes (" << R.cursor << ".." << ro.start << ") were skipped without any drop report"
                                   << (cls_l ? " [reader lapped by bytes, still valid by block index]" : cls_w ? " [reader >= 2 rounds behind across the round counter wrap]"
                                       : lapped ? " [reader was lapped]" : " [data still in the ring]"));
        }
        label(R.pending_drop == skipped ? "drop:exact" : R.pending_drop > skipped ? (R.pending_reports > 1 ? "drop:over(repeated reports)" : "drop:over") : "drop:under");
        if (!lapped) label("drop:intact_data_skipped");
      } else if (R.pending_drop) label("drop:reported_but_nothing_skipped");
    } else if (R.fresh) {
      uint64_t backlog = R.init_total > ro.start ? R.init_total - ro.start : 0;
      label(backlog == 0 ? "init:first_read_no_backlog" : backlog <= R.init_req ? "init:backlog<=requested" : "init:backlog>requested");
    }
    R.pending_drop = 0;
    R.pending_reports = 0;
    R.ctrwrap_pending = false;
    R.fresh = false;
    R.known = true;
    R.cursor = ro.start;
  } else {
    // nothing returned
    if (slow_state) label("read:stalled_in_slow_reader_state");
    Verdict vd = after_drop_report(ring, r, ro.drop, ctx);
    if (!vd.ok) return vd;
    // liveness: intact data in sequence is waiting and the reader was not told about any loss
    if (R.known && !lapped && first_rem != 0 && m.total > R.cursor && R.pending_drop == 0) {
      if (req == first_rem) {
        label("read:request==first_block_returns_nothing");
        if (!k_exact) PBT_REQUIRE(false, ctx << ": data_get(max " << req << ") returned nothing although the block at the cursor is exactly " << first_rem << " bytes");
        excluded(P_EXACT);
      } else if (req < first_rem) label("read:request<first_block(no fragment by design)");
      else if (R.ctrwrap_pending && known(P_CTRWRAP)) {
        excluded(P_CTRWRAP);
      } else if (iov_cnt > 0) {
        PBT_REQUIRE(false, ctx << ": data_get(max " << req << " > first block " << first_rem << ") returned nothing and no drop report although stream bytes "
                               << R.cursor << ".." << m.total << " are intact in the ring"
                               << (R.ctrwrap_pending ? " [reader >= 2 rounds behind across the round counter wrap: moved to the write head with drop 0]" : ""));
      }
    }
  }

  // ---- advance by <= bytes actually returned
  if (adv_kind >= 0 && ro.sum) {
    size_t k = adv_kind == 0 ? ro.sum : adv_kind == 1 ? 0 : adv_kind == 2 ? 1 : adv_kind == 3 ? ro.sum - 1 : adv_kind == 4 ? ro.sum / 2 : (size_t)(adv_val % (ro.sum + 1));
    unsigned t0 = sr_traps();
    if (k) sr_rpos_inc(ring.h, r, k);
    PBT_REQUIRE(sr_traps() == t0, ctx << ": r_buf_rpos_inc(" << k << ") after a read of " << ro.sum << " bytes hit its 'BUG, must never happen' branch");
    R.cursor = ro.start + k;
    label(k == ro.sum ? "adv:all" : k == 0 ? "adv:none" : "adv:partial");
  }
  return Verdict::pass();
}

static Verdict run_case(const Case &c) {
  PBT_REQUIRE(c.size >= 1 && c.size <= (1u << 20) && c.minb >= 1 && c.minb <= c.size, "case out of range");
  Ring ring((size_t)c.size, (size_t)c.minb, c.round0);
  PBT_REQUIRE(ring.h != nullptr, "r_buf_alloc(" << c.size << "," << c.minb << ") failed");
  RModel m;
  m.size = c.size; m.minb = c.minb;
  m.phys.assign((size_t)c.size, -1);
  memset(ring.base, 0xEE, (size_t)c.size);
  bool lapped_seen = false, round_wrapped = false, nontriv_frag = false;
  sr_state st;
  sr_state_get(ring.h, &st);
  const size_t iov_max = (size_t)st.iov_count;
  label(c.size <= 64 ? "size:<=64" : c.size <= 1024 ? "size:65-1024" : "size:>1024");
  label(c.round0 == 0 ? "round0:0" : "round0:near_SIZE_MAX");
  uint64_t last_round = st.round_num;

  for (size_t ci = 0; ci < c.cmds.size(); ci++) {
    const Cmd &cmd = c.cmds[ci];
    int r = ((cmd.rd % SR_READERS) + SR_READERS) % SR_READERS;
    for (int rep = 0; rep < std::max(1, cmd.rep); rep++) {
      std::ostringstream cxs;
      cxs << "cmd#" << ci << (cmd.rep > 1 ? "." + std::to_string(rep) : std::string()) << " " << OPN[cmd.op];
      std::string cx = cxs.str();
      switch (cmd.op) {
      case OP_W:
      case OP_WGET: {
        sr_state s0;
        sr_state_get(ring.h, &s0);
        uint64_t left = m.size - m.wpos;
        uint64_t mn;
        switch (cmd.a % 6) {
        case 0: mn = 0; break;
        case 1: mn = m.minb; break;
        case 2: mn = m.size; break;
        case 3: mn = std::min<uint64_t>(left + 1, m.size); break;   // one more than what is left: wrap
        case 4: mn = left; break;                                   // exactly what is left
        default: mn = cmd.b % (m.size + 1); break;
        }
        int64_t off = 0;
        size_t avail = sr_wbuf_get(ring.h, (size_t)mn, &off);
        m.virgin = false;
        label("w:get");
        if (avail == 0) { label("w:get_returned_0"); PBT_REQUIRE(mn > m.size || mn == 0, cx << ": wbuf_get(" << mn << ") returned 0" << st_str(s0, -1)); break; }
        // ---- the region handed to the writer lies inside the ring, has the promised size, does not cover the newest data
        PBT_REQUIRE(off >= 0 && (uint64_t)off <= m.size && avail <= m.size - (uint64_t)off,
                    cx << ": wbuf_get(" << mn << ") handed out [off " << off << ", size " << avail << ") outside the ring of " << m.size << st_str(s0, -1));
        PBT_REQUIRE(avail >= mn && avail >= m.minb, cx << ": wbuf_get(" << mn << ") returned only " << avail << " bytes (min_block " << m.minb << ")" << st_str(s0, -1));
        PBT_REQUIRE((uint64_t)off == m.wpos || off == 0, cx << ": wbuf_get handed out offset " << off << ", write position is " << m.wpos << st_str(s0, -1));
        if (off == 0 && m.wpos != 0) { m.wraps++; m.wpos = 0; m.round_start = m.total; label("w:wrap"); label("w:wrap_residue_" + std::string(left == 0 ? "0" : left < m.minb ? "<min_block" : left == m.minb ? "=min_block" : ">min_block")); }
        if (cmd.op == OP_WGET) break;  // writer waits for data; readers may run before the commit
        // ---- choose the committed block
        int mode = cmd.mode % 5;
        uint64_t gap = 0;
        if (mode == 1 || mode == 3) {
          if (avail > m.minb) gap = 1 + cmd.g % (avail - m.minb); else mode = mode == 1 ? 0 : 2;
        }
        uint64_t room = avail - gap, len;
        switch (cmd.c % 6) {
        case 0: len = m.minb; break;
        case 1: len = room; break;
        case 2: len = room > cmd.d % (m.minb + 3) ? room - cmd.d % (m.minb + 3) : room; break;  // leave a small residue
        case 3: len = cmd.d % (room + 1); break;
        case 4: len = m.minb + 1; break;
        default: len = room / 2; break;
        }
        len = std::max<uint64_t>(m.minb, std::min<uint64_t>(len, room));
        int pieces = mode == 4 ? 2 + (int)(cmd.g % 3) : 1;
        if (mode == 4) len = std::max<uint64_t>(m.minb, std::min<uint64_t>(len, room / (uint64_t)pieces));
        for (int pc = 0; pc < pieces; pc++) {
          uint64_t pos = (uint64_t)off + gap;
          if (pc > 0) {
            pos = m.wpos;
            if (m.size - pos < len) break;
          }
          // the caller writes header junk (gap) and the payload, then commits
          for (uint64_t k = (pc == 0 ? (uint64_t)off : pos); k < pos; k++) { ring.base[k] = 0xEE; m.phys[(size_t)k] = -1; }
          for (uint64_t k = 0; k < len; k++) { ring.base[pos + k] = pat(m.total + k); m.phys[(size_t)(pos + k)] = (int64_t)(m.total + k); }
          int rc;
          int rp = (mode >= 2 && cmd.d % 5 == 0) ? r : -1;
          if (mode == 0 || mode == 1) rc = sr_wbuf_set(ring.h, (size_t)gap, (size_t)(gap + len));
          else rc = sr_wbuf_set2(ring.h, (size_t)pos, (size_t)len, rp);
          PBT_REQUIRE(rc == 0, cx << ": commit of " << len << " bytes at " << pos << " (gap " << gap << ", mode " << mode << ", avail " << avail << ") rc=" << rc << st_str(s0, -1));
          m.blocks.push_back(Block{m.total, len, pos});
          if (rp >= 0) {
            Reader_ &R = m.rd[rp];
            R = Reader_();
            R.active = true; R.known = true; R.cursor = m.total;
            label("w:set2_assigns_rpos");
          }
          m.total += len;
          m.wpos = pos + len;
          if (gap) { m.frag = true; nontriv_frag = true; }
          label(mode == 0 ? "w:set" : mode == 1 ? "w:set_offset(FRAG)" : mode == 2 ? "w:set2" : mode == 3 ? "w:set2_offset(FRAG)" : "w:set2_multi");
        }
        m.trim();
        break;
      }
      case OP_INIT: {
        uint64_t ds;
        switch (cmd.a % 5) {
        case 0: ds = 0; break;
        case 1: ds = m.minb; break;
        case 2: ds = m.size / 2; break;
        case 3: ds = m.size; break;
        default: ds = cmd.b % (2 * m.size + 1); break;
        }
        int rc = sr_rpos_init(ring.h, r, (size_t)ds);
        PBT_REQUIRE(rc == 0, cx << ": rpos_init rc=" << rc);
        Reader_ &R = m.rd[r];
        R = Reader_();
        R.active = true; R.fresh = true; R.init_total = m.total; R.init_req = ds;
        label(ds == 0 ? "init:data_size=0" : "init:data_size>0");
        break;
      }
      case OP_GET: {
        Reader_ &R = m.rd[r];
        if (!R.active) { label("read:skipped(reader not initialised)"); break; }
        size_t iov_cnt;
        switch (cmd.c % 5) { case 0: iov_cnt = 1; break; case 1: iov_cnt = 2; break; case 2: iov_cnt = 8; break; case 3: iov_cnt = 64; break; default: iov_cnt = iov_max; break; }
        size_t req;
        uint64_t first_rem = 0;
        if (R.known) { const Block *b = m.block_of(R.cursor); if (b) first_rem = b->abs + b->len - R.cursor; }
        switch (cmd.a % 7) {
        case 0: req = 1; break;
        case 1: req = (size_t)(1 + cmd.b % m.size); break;
        case 2:
        case 3: {
          size_t dr = 0;
          pre_check_class(ring, m, r);
          size_t av = sr_avail(ring.h, r, &dr);
          if (dr) { R.pending_drop += dr; R.pending_reports++; }
          if (!R.poisoned) { Verdict vd = after_drop_report(ring, r, dr, cx); if (!vd.ok) return vd; }
          if (av > m.size) av = m.size;  // (asserted by the avail command)
          req = av + (cmd.a % 7 == 3 ? 1 : 0);
          if (req == 0) req = 1;
          break;
        }
        case 4: req = SIZE_MAX; break;
        case 5: req = first_rem ? (size_t)first_rem : (size_t)m.minb; break;       // exactly the block at the cursor (H-RB-1)
        default: req = first_rem ? (size_t)first_rem + 1 : (size_t)m.minb + 1; break;
        }
        label("read:max_" + std::string(cmd.a % 7 == 0 ? "1" : cmd.a % 7 == 1 ? "small" : cmd.a % 7 == 2 ? "avail" : cmd.a % 7 == 3 ? "avail+1" : cmd.a % 7 == 4 ? "huge"
                                        : cmd.a % 7 == 5 ? "first_block" : "first_block+1"));
        ReadOut ro;
        Verdict v = do_read(ring, m, r, req, iov_cnt, (int)(cmd.d % 6), cmd.g, cx, ro, lapped_seen);
        if (!v.ok) return v;
        label(ro.sum ? (ro.n > 1 ? "read:data_multi_iovec" : "read:data") : "read:nothing");
        break;
      }
      case OP_AVAIL: {
        Reader_ &R = m.rd[r];
        if (!R.active) { label("read:skipped(reader not initialised)"); break; }
        sr_state s0;
        sr_state_get(ring.h, &s0);
        size_t dr = 0;
        pre_check_class(ring, m, r);
        size_t av = sr_avail(ring.h, r, &dr);
        if (dr) { R.pending_drop += dr; R.pending_reports++; }
        if (!R.poisoned) { Verdict vd = after_drop_report(ring, r, dr, cx); if (!vd.ok) return vd; }
        if (m.virgin) { label("avail:before_first_wbuf_get"); if (known(P_VIRGIN)) { excluded(P_VIRGIN); break; } }
        if (!R.poisoned) PBT_REQUIRE(av <= m.size, cx << ": data_avail_size=" << av << " exceeds the ring size" << st_str(s0, r)
                                                      << (state_lapped_by_bytes(s0, r) ? " [reader lapped by bytes, still valid by block index]" : ""));
        // "the available-size query equals the bytes a full read would return"
        ReadOut ro;
        Verdict v = do_read(ring, m, r, SIZE_MAX, iov_max, -1, 0, cx, ro, lapped_seen);
        if (!v.ok) return v;
        label(av ? "avail:>0" : "avail:0");
        if (dr || ro.drop) label("avail:with_drop_report(size not compared)");
        else if (!R.poisoned)
          PBT_REQUIRE(ro.sum == av, cx << ": data_avail_size=" << av << " (drop " << dr << ") but a full read (max SIZE_MAX, " << iov_max << " iovecs) returns " << ro.sum
                                       << " bytes" << st_str(s0, r));
        break;
      }
      }
      // ---- invariants after every command
      sr_state_get(ring.h, &st);
      PBT_REQUIRE(st.iov_index < st.iov_count && st.iov_index_max < st.iov_count, cx << ": block table index outside its storage" << st_str(st, -1));
      PBT_REQUIRE(st.wpos <= st.size, cx << ": wpos outside the ring" << st_str(st, -1));
      PBT_REQUIRE(st.wpos == m.wpos, cx << ": wpos=" << st.wpos << ", model write position " << m.wpos << st_str(st, -1));
      if (st.round_num < last_round) { round_wrapped = true; label("round_counter_wrapped"); }
      last_round = st.round_num;
    }
  }
  label(m.wraps == 0 ? "wraps:0" : m.wraps <= 2 ? "wraps:1-2" : m.wraps <= 10 ? "wraps:3-10" : "wraps:>10");
  if ((m.wraps >= 1 && lapped_seen) || nontriv_frag || round_wrapped) nontrivial_cur();
  return Verdict::pass();
}

// ------------------------------------------------------------------ generator + shrinking
static rc::Gen<Case> genCase() {
  return rc::gen::exec([]() {
    Case c;
    c.size = *rc::gen::weightedElement<uint64_t>({{3, 16}, {3, 64}, {2, 100}, {4, 256}, {2, 1000}, {2, 4096}, {1, 65536}, {3, (uint64_t)*range<int>(4, 2048)}});
    uint64_t q = std::max<uint64_t>(1, c.size / 4);
    c.minb = *rc::gen::weightedElement<uint64_t>({{4, 1}, {2, 2}, {2, std::min<uint64_t>(7, q)}, {2, std::max<uint64_t>(1, c.size / 8)}, {2, q}, {2, 1 + (uint64_t)*range<int>(0, (int)q - 1)}});
    c.round0 = *rc::gen::weightedElement<uint64_t>({{6, 0}, {2, UINT64_MAX}, {1, UINT64_MAX - 1}, {1, UINT64_MAX - 3}});
    int n = *rc::gen::weightedElement<int>({{2, *range<int>(1, 8)}, {5, *range<int>(9, 30)}, {3, *range<int>(31, 60)}});
    int nrd = *range<int>(1, 4);
    int style = *range<int>(0, 3);  // 0 mixed, 1 wbuf_set only, 2 wbuf_set2 only, 3 fixed-size blocks
    for (int i = 0; i < n; i++) {
      Cmd m;
      m.op = *rc::gen::weightedElement<int>({{36, OP_W}, {4, OP_WGET}, {10, OP_INIT}, {40, OP_GET}, {10, OP_AVAIL}});
      m.rd = *range<int>(0, nrd - 1);
      if (i < nrd && *range<int>(0, 9) < 8) { m.op = OP_INIT; m.rd = i; }  // readers usually attach early
      if (m.op == OP_W || m.op == OP_WGET) {
        m.a = (uint64_t)*rc::gen::weightedElement<int>({{3, 0}, {4, 1}, {1, 2}, {2, 3}, {1, 4}, {2, 5}});
        m.b = (uint64_t)*range<int>(0, 70000);
        m.mode = style == 1 ? *rc::gen::element<int>(0, 0, 1) : style == 2 ? *rc::gen::element<int>(2, 2, 3, 4) : style == 3 ? 0 : *range<int>(0, 4);
        m.c = style == 3 ? 0 : (uint64_t)*range<int>(0, 5);
        m.d = (uint64_t)*range<int>(0, 70000);
        m.g = (uint64_t)*range<int>(0, 70000);
        m.rep = *rc::gen::weightedElement<int>({{12, 1}, {3, *range<int>(2, 4)}, {1, *range<int>(5, 30)}});
      } else if (m.op == OP_INIT) {
        m.a = (uint64_t)*rc::gen::weightedElement<int>({{5, 0}, {1, 1}, {1, 2}, {1, 3}, {1, 4}});
        m.b = (uint64_t)*range<int>(0, 140000);
      } else if (m.op == OP_GET) {
        m.a = (uint64_t)*range<int>(0, 6);
        m.b = (uint64_t)*range<int>(0, 70000);
        m.c = (uint64_t)*rc::gen::weightedElement<int>({{2, 0}, {2, 1}, {2, 2}, {2, 3}, {4, 4}});
        m.d = (uint64_t)*rc::gen::weightedElement<int>({{6, 0}, {1, 1}, {1, 2}, {1, 3}, {1, 4}, {1, 5}});
        m.g = (uint64_t)*range<int>(0, 70000);
        m.rep = *rc::gen::weightedElement<int>({{8, 1}, {1, *range<int>(2, 4)}});
      }
      c.cmds.push_back(m);
    }
    return c;
  });
}
static rc::Seq<Case> shrinkCase(const Case &c) {
  std::vector<Case> out;
  size_t n = c.cmds.size();
  for (size_t k = n / 2; k >= 1; k /= 2)
    for (size_t st = 0; st + k <= n; st += k) {
      Case d = c;
      d.cmds.erase(d.cmds.begin() + (long)st, d.cmds.begin() + (long)(st + k));
      out.push_back(d);
    }
  if (c.round0) { Case d = c; d.round0 = 0; out.push_back(d); }
  for (uint64_t s : {(uint64_t)16, (uint64_t)64, c.size / 2}) if (s >= 4 && s < c.size && c.minb <= s / 4) { Case d = c; d.size = s; out.push_back(d); }
  if (c.minb > 1) { Case d = c; d.minb = 1; out.push_back(d); d.minb = c.minb / 2; out.push_back(d); }
  for (size_t i = 0; i < n; i++) {
    const Cmd &m = c.cmds[i];
    auto with = [&](const Cmd &x) { Case d = c; d.cmds[i] = x; out.push_back(d); };
    if (m.rep > 1) { Cmd x = m; x.rep = 1; with(x); x.rep = m.rep / 2; with(x); x.rep = m.rep - 1; with(x); }
    if (m.rd) { Cmd x = m; x.rd = 0; with(x); }
    if (m.mode) { Cmd x = m; x.mode = 0; with(x); }
    if (m.a) { Cmd x = m; x.a = 0; with(x); if (m.a > 1) { x.a = 1; with(x); } }
    if (m.c) { Cmd x = m; x.c = 0; with(x); }
    if (m.d) { Cmd x = m; x.d = 0; with(x); if (m.d > 1) { x.d = m.d / 2; with(x); } }
    if (m.b) { Cmd x = m; x.b = 0; with(x); if (m.b > 1) { x.b = m.b / 2; with(x); } }
    if (m.g) { Cmd x = m; x.g = 0; with(x); if (m.g > 1) { x.g = m.g / 2; with(x); } }
  }
  return rc::seq::fromContainer(std::move(out));
}
static rc::Gen<Case> genCaseShrinking() { return rc::gen::shrink(rc::gen::noShrink(genCase()), &shrinkCase); }

int main(int argc, char **argv) {
  add_check<Case>("history", 30000, 100, genCaseShrinking, run_case);
  return driver_main(argc, argv);
}
