// C12 -- capacity sweeps: for one formatter / codec call and one input, EVERY output capacity from 0
// to need+1 is tried (DESIGN section 4 C12, "rapidcheck sweep"). The libFuzzer targets pick one
// capacity per input; this driver covers the structured values the fuzzer is poor at hitting: every
// power of ten +-1 and the minimum / maximum of each integer type for all 20 X2str variants, Base64
// lengths 0..64 (all three tail shapes), hex lengths 0..32.
// Links against shims/caps.c (one build variant each).
//
// Per capacity: mode 0 (capacity between canary zones) must leave both canaries intact; rc / size
// contract is checked; then mode 1 (exact-size heap blocks, sanitised variants see reads too) must
// give the same rc / size / bytes.
#include "pbt.hpp"
#include "../shims/caps_abi.h"
#include <cinttypes>

using namespace pbt;

static const uint64_t P10[20] = {
    1ull, 10ull, 100ull, 1000ull, 10000ull, 100000ull, 1000000ull, 10000000ull, 100000000ull,
    1000000000ull, 10000000000ull, 100000000000ull, 1000000000000ull, 10000000000000ull,
    100000000000000ull, 1000000000000000ull, 10000000000000000ull, 100000000000000000ull,
    1000000000000000000ull, 10000000000000000000ull};
static bool is_pow10_ge10(uint64_t v) {
  for (int i = 1; i < 20; i++)
    if (v == P10[i]) return true;
  return false;
}

struct CapCase {
  int family = 0, fn = 0;
  uint64_t bits = 0;  // CAPS_NUM: the value (two's complement, truncated to the type by the shim)
  Bytes in;
  std::string ser() const {
    Writer w;
    w.i("family", family).i("fn", fn).u("bits", bits).b("in", in);
    return w.str();
  }
  static CapCase parse(const std::string &t) {
    Reader r(t);
    CapCase c;
    c.family = (int)r.i("family");
    c.fn = (int)r.i("fn");
    c.bits = r.u("bits");
    c.in = r.b("in");
    return c;
  }
};
void showValue(const CapCase &c, std::ostream &os) { os << c.ser(); }

static int fn_bits(int fn) {
  static const int w[5] = {64, 8, 16, 32, 64};
  return w[(fn % 10) / 2];
}

struct Call {
  caps_res_t r0, r1;
};
// mode 0 then mode 1; canaries and mode agreement
static Verdict both(const CapCase &c, uint64_t bits, uint64_t cap, Call &k) {
  caps_call(c.family, c.fn, bits, c.in.data(), c.in.size(), cap, 0, &k.r0);
  PBT_REQUIRE(k.r0.under == 0, "cap=" << cap << ": " << k.r0.under << " byte(s) written IN FRONT of the buffer");
  PBT_REQUIRE(k.r0.over == 0, "cap=" << cap << ": " << k.r0.over << " byte(s) written BEHIND the capacity");
  caps_call(c.family, c.fn, bits, c.in.data(), c.in.size(), cap, 1, &k.r1);
  PBT_REQUIRE(k.r0.rc == k.r1.rc && k.r0.size_ret == k.r1.size_ret && k.r0.out_len == k.r1.out_len &&
                  0 == memcmp(k.r0.out, k.r1.out, k.r0.out_len),
              "cap=" << cap << ": canary-mode and exact-block-mode results differ");
  return Verdict::pass();
}
static bool untouched(const caps_res_t &r, size_t from) {
  for (size_t i = from; i < r.out_len; i++)
    if (r.out[i] != CAPS_FILL) return false;
  return true;
}

// ---------------------------------------------------------------- X2str / X2ustr
static Verdict run_num(const CapCase &c) {
  int bits = fn_bits(c.fn);
  bool sgn = c.fn >= 10;
  uint64_t mask = bits == 64 ? ~0ull : ((1ull << bits) - 1), v = c.bits & mask, mag;
  int64_t sv = 0;
  bool is_min = false;
  char ref[48];
  size_t need;
  if (sgn) {
    sv = bits == 64 ? (int64_t)v : (int64_t)((v ^ (1ull << (bits - 1))) - (1ull << (bits - 1)));
    is_min = (v == (mask >> 1) + 1);
    mag = sv < 0 ? (uint64_t)0 - (uint64_t)sv : (uint64_t)sv;
    need = (size_t)snprintf(ref, sizeof ref, "%" PRId64, sv) + 1;
  } else {
    mag = v;
    need = (size_t)snprintf(ref, sizeof ref, "%" PRIu64, v) + 1;
  }
  uint64_t arg = sgn ? (uint64_t)sv : v;
  bool pow10 = is_pow10_ge10(mag), pos_pow10 = pow10 && !(sgn && sv < 0);
  label(sgn ? "signed" : "unsigned");
  if (pow10) label("|v| = 10^k");
  else if (is_pow10_ge10(mag + 1)) label("|v| = 10^k - 1");
  else if (mag && is_pow10_ge10(mag - 1)) label("|v| = 10^k + 1");
  if (is_min) label("type minimum");
  if (sgn ? (v == (mask >> 1)) : (v == mask)) label("type maximum");
  if (sgn && sv < 0) label("negative");
  if (pos_pow10 && known("num2str_pow10")) {
    // H-UT-1: exact powers of ten are counted one digit short; the digits are stored from buf[-1]
    excluded("num2str_pow10");
    return Verdict::pass();
  }
  if (need > 2) nontrivial_cur();
  size_t maxcap = need + 1;
  if (is_min) maxcap = 23;  // the library asks for 20 digits + sign + NUL for the minima
  bool seen_ok = false, seen_nospc = false;
  for (size_t cap = 0; cap <= maxcap; cap++) {
    Call k;
    Verdict v0 = both(c, arg, cap, k);
    if (!v0.ok) return v0;
    const caps_res_t &r = k.r0;
    if (cap == 0) {
      PBT_REQUIRE(r.rc == EINVAL, "cap=0: rc " << r.rc << " instead of EINVAL");
      continue;
    }
    if (r.rc == 0) {
      seen_ok = true;
      PBT_REQUIRE(r.size_ret != CAPS_SENT && r.size_ret < cap,
                  "cap=" << cap << ": returned length " << r.size_ret << " + NUL does not fit");
      PBT_REQUIRE(r.out[r.size_ret] == 0, "cap=" << cap << ": no terminator at the returned length");
      PBT_REQUIRE(untouched(r, r.size_ret + 1), "cap=" << cap << ": bytes behind the terminator were written");
    } else {
      seen_nospc = true;
      PBT_REQUIRE(r.rc == ENOSPC, "cap=" << cap << ": rc " << r.rc);
      PBT_REQUIRE(r.size_ret != CAPS_SENT && r.size_ret > cap && r.size_ret <= 24,
                  "cap=" << cap << ": ENOSPC without a usable required size (" << r.size_ret << ")");
      PBT_REQUIRE(untouched(r, 0), "cap=" << cap << ": refused buffer was written");
      PBT_REQUIRE(is_min || cap < need,
                  "cap=" << cap << ": refused although text + NUL need only " << need << " bytes");
      // the self-reported size must be sufficient (it is visited later in this sweep when <= maxcap)
      Call k2;
      Verdict v2 = both(c, arg, r.size_ret, k2);
      if (!v2.ok) return Verdict::fail("with the self-reported size: " + v2.why);
      PBT_REQUIRE(k2.r0.rc == 0, "cap=" << cap << ": the self-reported size " << r.size_ret << " is refused as well");
    }
  }
  PBT_REQUIRE(seen_ok && seen_nospc, "sweep did not see both outcomes");
  return Verdict::pass();
}

// ---------------------------------------------------------------- Base64
static const char *B64 = "ABCDEFGHIJKLMNOPQRSTUVWXYZabcdefghijklmnopqrstuvwxyz0123456789+/";
static Bytes ref_b64(const Bytes &s) {
  Bytes o;
  size_t i = 0, n = s.size();
  for (; i + 2 < n; i += 3) {
    uint32_t v = (s[i] << 16) | (s[i + 1] << 8) | s[i + 2];
    o.push_back(B64[(v >> 18) & 63]); o.push_back(B64[(v >> 12) & 63]);
    o.push_back(B64[(v >> 6) & 63]); o.push_back(B64[v & 63]);
  }
  if (n - i == 1) {
    uint32_t v = s[i] << 16;
    o.push_back(B64[(v >> 18) & 63]); o.push_back(B64[(v >> 12) & 63]); o.push_back('='); o.push_back('=');
  } else if (n - i == 2) {
    uint32_t v = (s[i] << 16) | (s[i + 1] << 8);
    o.push_back(B64[(v >> 18) & 63]); o.push_back(B64[(v >> 12) & 63]); o.push_back(B64[(v >> 6) & 63]); o.push_back('=');
  }
  return o;
}
static Verdict run_b64_enc(const CapCase &c) {
  size_t n = c.in.size(), need = 4 * ((n + 2) / 3);
  Bytes ref = ref_b64(c.in);
  label("enc len%3=" + std::to_string(n % 3));
  if (n) nontrivial_cur();
  for (size_t cap = 0; cap <= need + 1; cap++) {
    if (cap == need && n != 0 && known("base64_encode_nul_at_cap")) {
      // H-UT-3: the terminator is stored at dst[enc_size] although dst_size >= enc_size is accepted
      excluded("base64_encode_nul_at_cap");
      continue;
    }
    Call k;
    Verdict v0 = both(c, 0, cap, k);
    if (!v0.ok) return v0;
    const caps_res_t &r = k.r0;
    if (n == 0) {
      PBT_REQUIRE(r.rc == 0 && r.size_ret == 0 && untouched(r, 0), "cap=" << cap << ": empty input");
    } else if (cap < need) {
      PBT_REQUIRE(r.rc == ENOBUFS && r.size_ret == need, "cap=" << cap << ": rc " << r.rc << " size " << r.size_ret);
      PBT_REQUIRE(untouched(r, 0), "cap=" << cap << ": refused buffer was written");
    } else {
      PBT_REQUIRE(r.rc == 0, "cap=" << cap << ": the self-reported size " << need << " is refused (rc " << r.rc << ")");
      PBT_REQUIRE(r.size_ret == need, "cap=" << cap << ": size " << r.size_ret);
      PBT_REQUIRE(0 == memcmp(r.out, ref.data(), need), "cap=" << cap << ": text differs from RFC 4648");
      PBT_REQUIRE(untouched(r, need + 1), "cap=" << cap << ": bytes behind the terminator were written");
    }
  }
  return Verdict::pass();
}
static Verdict run_b64_dec(const CapCase &c, bool fmt) {
  size_t n = c.in.size(), real = n;
  Bytes flt;  // what decode_fmt keeps
  for (uint8_t b : c.in)
    if (b && strchr(B64, b)) flt.push_back(b);
  const Bytes &eff = fmt ? flt : c.in;
  for (real = eff.size(); real > 0 && eff[real - 1] == '='; real--) {}
  size_t need = real < 2 ? 0 : 3 * ((real + 3) / 4);
  label(std::string(fmt ? "fmt" : "dec") + " real%4=" + std::to_string(real % 4));
  if (real >= 2) nontrivial_cur();
  size_t top = std::max(need, fmt ? n : 0) + 1;
  for (size_t cap = 0; cap <= top; cap++) {
    if (!fmt && cap == need && real >= 2 && real % 4 == 0 && known("base64_decode_nul_at_cap")) {
      // H-UT-3: a whole number of quads fills dcd_size bytes and the terminator goes to dst[dcd_size]
      excluded("base64_decode_nul_at_cap");
      continue;
    }
    Call k;
    Verdict v0 = both(c, 0, cap, k);
    if (!v0.ok) return v0;
    const caps_res_t &r = k.r0;
    if (fmt && cap < n) {
      PBT_REQUIRE(r.rc == ENOBUFS, "cap=" << cap << " < src_size: rc " << r.rc);
      PBT_REQUIRE(untouched(r, 0), "cap=" << cap << ": refused buffer was written");
      continue;
    }
    if (real == 0) {
      PBT_REQUIRE(r.rc == 0 && r.size_ret == 0, "cap=" << cap << ": empty / padding only: rc " << r.rc);
    } else if (real < 2) {
      PBT_REQUIRE(r.rc == EINVAL, "cap=" << cap << ": one symbol: rc " << r.rc);
    } else if (cap < need) {
      PBT_REQUIRE(r.rc == ENOBUFS && r.size_ret == need, "cap=" << cap << ": rc " << r.rc << " size " << r.size_ret);
      if (!fmt) PBT_REQUIRE(untouched(r, 0), "cap=" << cap << ": refused buffer was written");
    } else {
      PBT_REQUIRE(r.rc == 0, "cap=" << cap << ": the self-reported size " << need << " is refused (rc " << r.rc << ")");
      PBT_REQUIRE(r.size_ret <= need && r.size_ret <= cap, "cap=" << cap << ": size " << r.size_ret);
      size_t exp_len = (real / 4) * 3 + (real % 4 == 2 ? 1 : real % 4 == 3 ? 2 : 0);
      PBT_REQUIRE(r.size_ret == exp_len, "cap=" << cap << ": decoded length " << r.size_ret << " != " << exp_len);
    }
  }
  return Verdict::pass();
}

// ---------------------------------------------------------------- hex
static int hexval(uint8_t c) {
  if (c >= '0' && c <= '9') return c - '0';
  if (c >= 'a' && c <= 'f') return c - 'a' + 10;
  if (c >= 'A' && c <= 'F') return c - 'A' + 10;
  return -1;
}
static Verdict run_hex2bin(const CapCase &c) {
  size_t n = c.in.size(), need = n / 2, digits = 0;
  for (uint8_t b : c.in) digits += hexval(b) >= 0;
  size_t pairs = digits / 2;
  label(c.fn ? "hex2bin auto" : "hex2bin");
  if (pairs) nontrivial_cur();
  for (size_t cap = 0; cap <= need + 1; cap++) {
    Call k;
    Verdict v0 = both(c, 0, cap, k);
    if (!v0.ok) return v0;
    const caps_res_t &r = k.r0;
    if (n == 0 || cap == 0) {
      PBT_REQUIRE(r.rc == EINVAL && untouched(r, 0), "cap=" << cap << ": rc " << r.rc);
    } else if (cap < need) {
      PBT_REQUIRE(r.rc == EOVERFLOW && untouched(r, 0), "cap=" << cap << ": rc " << r.rc);
    } else {
      PBT_REQUIRE(r.rc == 0, "cap=" << cap << ": hex_size/2 bytes refused (rc " << r.rc << ")");
      PBT_REQUIRE(r.size_ret == (c.fn ? cap : pairs), "cap=" << cap << ": size " << r.size_ret);
      PBT_REQUIRE(c.fn || untouched(r, pairs), "cap=" << cap << ": bytes behind the result were written");
    }
  }
  return Verdict::pass();
}
static Verdict run_bin2hex(const CapCase &c) {
  size_t n = c.in.size(), need = n ? 2 * n : 2;
  label(c.fn ? "bin2hex auto" : "bin2hex");
  if (n) nontrivial_cur();
  for (size_t cap = 0; cap <= need + 2; cap++) {
    Call k;
    Verdict v0 = both(c, 0, cap, k);
    if (!v0.ok) return v0;
    const caps_res_t &r = k.r0;
    if (cap < 2) {
      PBT_REQUIRE(r.rc == EINVAL && untouched(r, 0), "cap=" << cap << ": rc " << r.rc);
    } else if (cap < need) {
      PBT_REQUIRE(r.rc == EOVERFLOW && r.size_ret == need && untouched(r, 0), "cap=" << cap << ": rc " << r.rc << " size " << r.size_ret);
    } else {
      size_t exp_len = c.fn ? need : (cap & ~(size_t)1);
      PBT_REQUIRE(r.rc == 0 && r.size_ret == exp_len, "cap=" << cap << ": rc " << r.rc << " size " << r.size_ret);
      static const char *t = "0123456789abcdef";
      for (size_t i = 0; i < n; i++)
        PBT_REQUIRE(r.out[2 * i] == t[c.in[i] >> 4] && r.out[2 * i + 1] == t[c.in[i] & 15], "cap=" << cap << ": text");
      if (exp_len < cap) {
        PBT_REQUIRE(r.out[exp_len] == 0, "cap=" << cap << ": terminator missing although there is room");
        PBT_REQUIRE(untouched(r, exp_len + 1), "cap=" << cap << ": bytes behind the terminator were written");
      }
    }
  }
  return Verdict::pass();
}

static Verdict run_case(const CapCase &c) {
  switch (c.family) {
  case CAPS_NUM: return run_num(c);
  case CAPS_B64_ENC: return run_b64_enc(c);
  case CAPS_B64_DEC: return run_b64_dec(c, false);
  case CAPS_B64_FMT: return run_b64_dec(c, true);
  case CAPS_HEX2BIN: return run_hex2bin(c);
  case CAPS_BIN2HEX: return run_bin2hex(c);
  }
  return Verdict::fail("unknown family");
}

// ---------------------------------------------------------------- enumerations (the structured values)
static bool en(const CapCase &c) {
  return enum_case(c.ser(), [&]() { return run_case(c); });
}
static void enum_num(double) {
  set_exhaustive(true);
  for (int fn = 0; fn < 20; fn++) {
    int bits = fn_bits(fn);
    uint64_t mask = bits == 64 ? ~0ull : ((1ull << bits) - 1);
    std::vector<uint64_t> vals = {0, 1, 2, 9, mask, mask >> 1, (mask >> 1) + 1, mask - 1, (mask >> 1) - 1, (mask >> 1) + 2};
    for (int k = 1; k < 20; k++) {
      for (int d = -1; d <= 1; d++) {
        uint64_t p = P10[k] + (uint64_t)(int64_t)d;
        vals.push_back(p);                 // +10^k (+-1), truncated to the type by the mask below
        vals.push_back((uint64_t)0 - p);   // -10^k (+-1) for the signed types / wrap for unsigned
      }
    }
    std::set<uint64_t> seen;
    for (uint64_t v : vals) {
      v &= mask;
      if (!seen.insert(v).second) continue;
      CapCase c;
      c.family = CAPS_NUM; c.fn = fn; c.bits = v;
      if (!en(c)) return;
    }
  }
}
static void enum_b64(double) {
  set_exhaustive(true);
  for (size_t n = 0; n <= 64; n++) {
    CapCase c;
    c.family = CAPS_B64_ENC;
    for (size_t i = 0; i < n; i++) c.in.push_back((uint8_t)(i * 37 + n * 11 + 0xc3));
    if (!en(c)) return;
    Bytes enc = ref_b64(c.in);
    for (int strip = 0; strip <= 2; strip++) {  // canonical, and with 1 / 2 trailing bytes removed
      CapCase d;
      d.family = CAPS_B64_DEC;
      d.in = enc;
      for (int s = 0; s < strip && !d.in.empty(); s++) d.in.pop_back();
      if (!en(d)) return;
      CapCase f = d;
      f.family = CAPS_B64_FMT;
      if (!en(f)) return;
      Bytes junk;  // line breaks / blanks between the symbols
      for (size_t i = 0; i < d.in.size(); i++) {
        junk.push_back(d.in[i]);
        if (i % 5 == 4) { junk.push_back('\r'); junk.push_back('\n'); }
      }
      f.in = junk;
      if (!en(f)) return;
    }
  }
}
static void enum_hex(double) {
  set_exhaustive(true);
  for (size_t n = 0; n <= 32; n++) {
    for (int au = 0; au <= 1; au++) {
      CapCase c;
      c.family = CAPS_BIN2HEX; c.fn = au;
      for (size_t i = 0; i < n; i++) c.in.push_back((uint8_t)(i * 29 + n * 7 + 0x5a));
      if (!en(c)) return;
      CapCase h;
      h.family = CAPS_HEX2BIN; h.fn = au;
      static const char *t = "0123456789abcdefABCDEF";
      for (size_t i = 0; i < 2 * n; i++) h.in.push_back((uint8_t)t[(i * 7 + n) % 22]);
      if (!en(h)) return;
      h.in.insert(h.in.begin() + (h.in.size() / 2), ':');  // odd length with a separator
      if (!en(h)) return;
      if (!h.in.empty()) h.in.pop_back();  // odd number of digits
      if (!en(h)) return;
    }
  }
}

// ---------------------------------------------------------------- random cases
static rc::Gen<CapCase> genNum() {
  return rc::gen::exec([]() {
    CapCase c;
    c.family = CAPS_NUM;
    c.fn = *range<int>(0, 19);
    int kind = *range<int>(0, 5);
    uint64_t raw = *rc::gen::resize(100, rc::gen::arbitrary<uint64_t>());
    switch (kind) {
    case 0: c.bits = raw; break;
    case 1: c.bits = raw >> (*range<int>(0, 63)); break;
    case 2: c.bits = (uint64_t)0 - (raw >> (*range<int>(0, 63))); break;
    case 3: c.bits = P10[*range<int>(0, 19)] + (uint64_t)(int64_t)(*range<int>(-2, 2)); break;
    case 4: c.bits = (uint64_t)0 - (P10[*range<int>(0, 19)] + (uint64_t)(int64_t)(*range<int>(-2, 2))); break;
    default: c.bits = (1ull << (*range<int>(0, 63))) - (uint64_t)(*range<int>(0, 1)); break;
    }
    return c;
  });
}
static rc::Gen<CapCase> genCodec() {
  return rc::gen::exec([]() {
    CapCase c;
    c.family = *range<int>(1, 5);
    c.fn = *range<int>(0, 1);
    size_t n = *range<size_t>(0, 70);
    int alpha = *range<int>(0, 3);
    static const char *b64a = "ABCDEFGHIJKLMNOPQRSTUVWXYZabcdefghijklmnopqrstuvwxyz0123456789+/=\r\n -";
    static const char *hexa = "0123456789abcdefABCDEFxg: ";
    for (size_t i = 0; i < n; i++) {
      uint8_t b = *rc::gen::resize(100, rc::gen::arbitrary<uint8_t>());
      if (alpha == 1) b = (uint8_t)b64a[b % 70];
      else if (alpha == 2) b = (uint8_t)hexa[b % 26];
      c.in.push_back(b);
    }
    if (c.family == CAPS_B64_DEC || c.family == CAPS_B64_FMT) {
      int pad = *range<int>(0, 3);
      for (int i = 0; i < pad; i++) c.in.push_back('=');
    }
    return c;
  });
}

int main(int argc, char **argv) {
  add_enum_check("num_sweep", 100, enum_num, [](const std::string &t) { return run_case(CapCase::parse(t)); });
  add_enum_check("b64_sweep", 100, enum_b64, [](const std::string &t) { return run_case(CapCase::parse(t)); });
  add_enum_check("hex_sweep", 100, enum_hex, [](const std::string &t) { return run_case(CapCase::parse(t)); });
  add_check<CapCase>("num_rand", 40000, 100, genNum, run_case);
  add_check<CapCase>("codec_rand", 15000, 100, genCodec, run_case);
  return driver_main(argc, argv);
}
