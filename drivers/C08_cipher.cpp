// C08 -- ChaCha / HChaCha / XChaCha and GOST 28147-89 against spec-derived
// references (refimpl/chacha_ref.hpp, refimpl/gost28147_ref.hpp).
// Links against one shims/cipher.c variant (compiler / -O / aliasing / GOST tables).
//
// Layout: this file = buffers, hex helpers, reference anchors, main;
//         C08_chacha.inc = ChaCha cases, generators, oracles;
//         C08_gost.inc   = GOST cases, generators, oracles.
#include "pbt.hpp"
#include "../shims/cipher_abi.h"
#include "chacha_ref.hpp"
#include "gost28147_ref.hpp"
#include <gcrypt.h>
#include <openssl/evp.h>
#include <memory>

using namespace pbt;

static bool g_asan = false;
static bool g_tbaa_gcc = false;  // shim built by gcc with type-based alias analysis in effect (-O2/-O3, no -fno-strict-aliasing)
static int g_nsbox = 0;

// ---------------------------------------------------------------- buffers
// A data buffer at a chosen alignment (address mod 8 == align) inside an
// allocation of exactly align + len bytes (ASan variants: the allocator's
// red zone starts right after the last byte) or, without ASan, align + len + 16
// bytes whose tail is a canary. The `align` bytes in front are a canary too.
struct Buf {
  uint8_t *base = nullptr, *p = nullptr;
  size_t len = 0, align = 0, tail = 0;
  Buf(size_t align_, size_t len_) : len(len_), align(align_ & 7) {
    tail = g_asan ? 0 : 16;
    size_t total = align + len + tail;
    base = (uint8_t *)malloc(total ? total : 1);  // malloc returns 16-aligned memory
    if (!base) abort();
    memset(base, 0xC7, total);
    p = base + align;
  }
  Buf(const Buf &) = delete;
  Buf &operator=(const Buf &) = delete;
  ~Buf() { free(base); }
  void fill(const uint8_t *src) { if (len) memcpy(p, src, len); }
  void fill(uint8_t v) { if (len) memset(p, v, len); }
  bool guards_ok() const {
    for (size_t i = 0; i < align; i++) if (base[i] != 0xC7) return false;
    for (size_t i = 0; i < tail; i++) if (p[len + i] != 0xC7) return false;
    return true;
  }
  bool equals(const uint8_t *q) const { return len == 0 || 0 == memcmp(p, q, len); }
  Bytes bytes() const { return Bytes(p, p + len); }
};

static Bytes hexs(const char *s, size_t n) { return unhex(std::string(s, std::min(n, strlen(s)))); }
static Bytes hexs(const char *s) { return unhex(std::string(s)); }
static size_t first_diff(const uint8_t *a, const uint8_t *b, size_t n) {
  for (size_t i = 0; i < n; i++) if (a[i] != b[i]) return i;
  return n;
}

// ---------------------------------------------------------------- harness failure (exit 2)
[[noreturn]] static void anchor_fail(const std::string &what) {
  fprintf(stderr, "C08 ANCHOR-FAIL (harness unusable, not a violation): %s\n", what.c_str());
  fflush(stderr);
  _exit(2);
}
#define ANCHOR(cond, msg)                                  \
  do {                                                     \
    if (!(cond)) {                                         \
      std::ostringstream _o;                               \
      _o << msg;                                           \
      anchor_fail(_o.str());                               \
    }                                                      \
  } while (0)

// ---------------------------------------------------------------- third-party oracles
// libgcrypt ChaCha20 with a 16-byte IV = state words 12..15 (64-bit counter || nonce)
static Bytes gcrypt_chacha20(const Bytes &key, uint64_t ctr, const uint8_t iv[8], size_t len) {
  gcry_cipher_hd_t h;
  ANCHOR(!gcry_cipher_open(&h, GCRY_CIPHER_CHACHA20, GCRY_CIPHER_MODE_STREAM, 0), "gcry_cipher_open(CHACHA20)");
  ANCHOR(!gcry_cipher_setkey(h, key.data(), key.size()), "gcry chacha20 setkey");
  uint8_t iv16[16];
  for (int i = 0; i < 8; i++) iv16[i] = (uint8_t)(ctr >> (8 * i));
  memcpy(iv16 + 8, iv, 8);
  ANCHOR(!gcry_cipher_setiv(h, iv16, 16), "gcry chacha20 setiv");
  Bytes z(len ? len : 1, 0), o(len ? len : 1, 0);
  if (len) ANCHOR(!gcry_cipher_encrypt(h, o.data(), len, z.data(), len), "gcry chacha20 encrypt");
  gcry_cipher_close(h);
  o.resize(len);
  return o;
}
// OpenSSL EVP_chacha20: 16-byte IV = 32-bit counter || 96-bit nonce = the same four words
static Bytes openssl_chacha20(const Bytes &key, uint64_t ctr, const uint8_t iv[8], size_t len) {
  EVP_CIPHER_CTX *c = EVP_CIPHER_CTX_new();
  ANCHOR(c != nullptr, "EVP_CIPHER_CTX_new");
  uint8_t iv16[16];
  for (int i = 0; i < 8; i++) iv16[i] = (uint8_t)(ctr >> (8 * i));
  memcpy(iv16 + 8, iv, 8);
  ANCHOR(1 == EVP_EncryptInit_ex(c, EVP_chacha20(), nullptr, key.data(), iv16), "EVP_EncryptInit_ex(chacha20)");
  Bytes z(len + 1, 0), o(len + 64, 0);
  int ol = 0;
  if (len) ANCHOR(1 == EVP_EncryptUpdate(c, o.data(), &ol, z.data(), (int)len), "EVP_EncryptUpdate");
  EVP_CIPHER_CTX_free(c);
  o.resize((size_t)ol);
  return o;
}
static Bytes gcrypt_gost_ecb(const char *oid, const uint8_t key[32], const Bytes &data, bool decrypt) {
  gcry_cipher_hd_t h;
  ANCHOR(!gcry_cipher_open(&h, GCRY_CIPHER_GOST28147, GCRY_CIPHER_MODE_ECB, 0), "gcry_cipher_open(GOST28147)");
  ANCHOR(!gcry_cipher_setkey(h, key, 32), "gcry gost setkey");
  ANCHOR(!gcry_cipher_ctl(h, GCRYCTL_SET_SBOX, (void *)oid, 0), "gcry gost set_sbox " << oid);
  Bytes o(data.size() ? data.size() : 1);
  if (!data.empty()) {
    gcry_error_t e = decrypt ? gcry_cipher_decrypt(h, o.data(), data.size(), data.data(), data.size())
                             : gcry_cipher_encrypt(h, o.data(), data.size(), data.data(), data.size());
    ANCHOR(!e, "gcry gost ecb");
  }
  gcry_cipher_close(h);
  o.resize(data.size());
  return o;
}
// GCRY_MAC_GOST28147_IMIT over >= 2 whole blocks (libgcrypt appends a zero block to
// one-block messages and pads partial blocks; < 1024 bytes so no key meshing).
static Bytes gcrypt_gost_imit(const char *oid, const uint8_t key[32], const Bytes &data) {
  gcry_mac_hd_t m;
  ANCHOR(!gcry_mac_open(&m, GCRY_MAC_GOST28147_IMIT, 0, nullptr), "gcry_mac_open(IMIT)");
  ANCHOR(!gcry_mac_ctl(m, GCRYCTL_SET_SBOX, (void *)oid, 0), "gcry imit set_sbox " << oid);
  ANCHOR(!gcry_mac_setkey(m, key, 32), "gcry imit setkey");
  ANCHOR(!gcry_mac_write(m, data.data(), data.size()), "gcry imit write");
  uint8_t out[8];
  size_t ol = 8;
  ANCHOR(!gcry_mac_read(m, out, &ol) && ol == 8, "gcry imit read");
  gcry_mac_close(m);
  return Bytes(out, out + 8);
}

// deterministic filler for anchors and enumerated sweeps (not an RNG inside a property:
// a pure function of its arguments, and every enumerated case is serialised in full)
static Bytes fill_bytes(uint64_t tag, size_t n) {
  Bytes b(n);
  uint64_t x = tag * 0x9E3779B97F4A7C15ULL + 0x1234567;
  for (size_t i = 0; i < n; i++) {
    x ^= x >> 12; x ^= x << 25; x ^= x >> 27;
    b[i] = (uint8_t)((x * 0x2545F4914F6CDD1DULL) >> 56);
  }
  return b;
}

#include "C08_chacha.inc"
#include "C08_gost.inc"

// labels that must be non-zero after a full generated run, else the check is broken (exit 2)
static int require_labels() {
  struct Req { const char *check, *label; };
  static const Req req[] = {
    {"cc_stream", "split_inside_block"}, {"cc_stream", "zero_byte_call"}, {"cc_stream", "wrap32"},
    {"cc_stream", "wrap64"}, {"cc_stream", "null_src"}, {"cc_stream", "inplace"}, {"cc_stream", "unaligned_src"},
    {"cc_stream", "unaligned_dst"}, {"cc_stream", "align4_path"}, {"cc_stream", "xchacha"}, {"cc_stream", "key128"},
    {"cc_stream", "rounds8"}, {"cc_stream", "rounds12"}, {"cc_stream", "rounds20"}, {"cc_stream", "carry_over"},
    {"cc_stream", "null_iv"}, {"cc_stream", "null_counter"}, {"cc_stream", "gcrypt_crosscheck"},
    {"cc_api", "oneshot"}, {"cc_api", "blocks"}, {"cc_api", "hchacha"}, {"cc_api", "wrap32"}, {"cc_api", "wrap64"},
    {"gost", "custom_sbox"}, {"gost", "builtin_sbox"}, {"gost", "be"}, {"gost", "le"}, {"gost", "dec_unaligned"},
    {"gost", "dec_aligned"}, {"gost", "enc_unaligned"}, {"gost", "inplace"}, {"gost", "mac_multi_call"},
    {"gost", "mac_unaligned"}, {"gost", "blocks0"}, {"gost", "blocks16"}, {"gost", "gcrypt_crosscheck"},
  };
  int bad = 0;
  for (const Req &r : req) {
    auto it = st().stats.find(r.check);
    if (it == st().stats.end()) continue;  // --only
    if (it->second.failed) continue;
    if (it->second.evals < 2000) continue;  // tiny --scale dev runs
    if (it->second.labels[r.label] == 0) {
      fprintf(stderr, "C08 BROKEN-CHECK: class '%s' of check '%s' was never generated\n", r.label, r.check);
      bad++;
    }
  }
  return bad;
}

int main(int argc, char **argv) {
  bool list = false, replay = false;
  for (int i = 1; i < argc; i++) {
    if (!strcmp(argv[i], "--list")) list = true;
    if (!strcmp(argv[i], "--replay")) replay = true;
  }
  g_asan = c08_info(C08_INFO_ASAN) != 0;
  g_nsbox = (int)c08_info(C08_INFO_GOST_NSBOX);
  g_tbaa_gcc = c08_info(C08_INFO_GCC) == 1 && c08_info(C08_INFO_TBAA) == 1;
  if (!list) {
    gcry_check_version(nullptr);
    gcry_control(GCRYCTL_DISABLE_SECMEM, 0);
    gcry_control(GCRYCTL_INITIALIZATION_FINISHED, 0);
    chacha_anchors();
    gost_anchors();
  }
  register_chacha_checks();
  register_gost_checks();
  int rc = driver_main(argc, argv);
  if (!list && !replay && rc == 0 && require_labels()) return 2;
  return rc;
}
