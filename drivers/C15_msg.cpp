// C15 -- DNS and RADIUS messages built by the library parse back and authenticate per RFC.
// rapidcheck histories / values against refimpl/dns_ref.hpp and refimpl/radius_ref.hpp.
// Links against one shims/proto_shim.c variant (compiler / -O / sanitizer).
#include "pbt.hpp"
#include "../shims/proto_abi.h"
#include "dns_ref.hpp"
#include "radius_ref.hpp"
#include <memory>

using namespace pbt;

static int E_INVAL, E_OVERFLOW, E_BADMSG, E_EXIST, E_NOATTR, E_OPNOTSUPP, E_SPIPE;
static const size_t SENT = (size_t)0xDEADBEEFCAFEF00DULL;  // "never written" marker for *_ret arguments

#define REQ(cond, msg) PBT_REQUIRE(cond, msg)
#define CHK(v)                                                                 \
  do {                                                                         \
    Verdict _v = (v);                                                          \
    if (!_v.ok) return _v;                                                     \
  } while (0)

// buffer allocated by the shim with exactly n bytes (ASan variants: any access past it aborts)
struct XBuf {
  uint8_t *p;
  size_t n;
  explicit XBuf(size_t n_, uint8_t fill = 0xA5) : p((uint8_t *)px_alloc(n_)), n(n_) {
    if (p && n) memset(p, fill, n);
  }
  explicit XBuf(const Bytes &b) : p((uint8_t *)px_alloc(b.size())), n(b.size()) {
    if (p && n) memcpy(p, b.data(), n);
  }
  XBuf(const XBuf &) = delete;
  XBuf &operator=(const XBuf &) = delete;
  ~XBuf() { px_free(p); }
  // replace by a fresh exact allocation of n_ bytes keeping the first keep bytes
  void regrow(size_t n_, size_t keep, uint8_t fill) {
    uint8_t *q = (uint8_t *)px_alloc(n_);
    if (q && n_) memset(q, fill, n_);
    if (q && keep) memcpy(q, p, std::min(keep, n_));
    px_free(p);
    p = q;
    n = n_;
  }
  Bytes bytes(size_t k) const { return Bytes(p, p + std::min(k, n)); }
};

static std::string first_diff(const uint8_t *got, const Bytes &exp, size_t n) {
  std::ostringstream o;
  for (size_t i = 0; i < n && i < exp.size(); i++)
    if (got[i] != exp[i]) {
      o << "first difference at offset " << i << ": got " << hex(got + i, std::min<size_t>(8, n - i)) << " expected "
        << hex(exp.data() + i, std::min<size_t>(8, exp.size() - i));
      return o.str();
    }
  o << "length " << n << " vs " << exp.size();
  return o.str();
}
static uint16_t mem16(const Bytes &b) {
  uint16_t v = 0;
  if (b.size() >= 2) memcpy(&v, b.data(), 2);
  return v;
}
static Bytes fix_len(Bytes b, size_t n) { b.resize(n, 0); return b; }

// ---- small generator helpers (called from inside rc::gen::exec lambdas) ----
static const char LDH[] = "abcdefghijklmnopqrstuvwxyzABCDEFGHIJKLMNOPQRSTUVWXYZ0123456789-";
static Bytes pickLdh(size_t n) {
  Bytes raw = *bytes_len(n);
  for (auto &c : raw) c = (uint8_t)LDH[c % 63];
  return raw;
}
static Bytes pickLabelBytes(size_t n, bool arbitrary) {
  if (!arbitrary) return pickLdh(n);
  Bytes raw = *bytes_len(n);
  for (auto &c : raw) if (c == '.') c = ',';
  return raw;
}
static void appendLabel(Bytes &name, const Bytes &l) {
  if (!name.empty()) name.push_back('.');
  name.insert(name.end(), l.begin(), l.end());
}

// Sanitised variants: rapidcheck allocates heavily; recording 30 frames per malloc/free makes the ASan variant ~2x
// slower without adding to the verdict (the faulting access is still reported with its own stack). Ignored elsewhere.
extern "C" const char *__asan_default_options() { return "malloc_context_size=3"; }

#include "C15_dns.inc"
#include "C15_rad.inc"

int main(int argc, char **argv) {
  E_INVAL = (int)px_const(PX_EINVAL);
  E_OVERFLOW = (int)px_const(PX_EOVERFLOW);
  E_BADMSG = (int)px_const(PX_EBADMSG);
  E_EXIST = (int)px_const(PX_EEXIST);
  E_NOATTR = (int)px_const(PX_ENOATTR);
  E_OPNOTSUPP = (int)px_const(PX_EOPNOTSUPP);
  E_SPIPE = (int)px_const(PX_ESPIPE);
  // references must reproduce their published anchors, and the shim must see the layout the RFCs give
  std::string a1 = dnsref::anchors(), a2 = radref::anchors();
  if (!a1.empty() || !a2.empty()) {
    fprintf(stderr, "C15: reference anchor failed: %s %s\n", a1.c_str(), a2.c_str());
    return 2;
  }
  if (px_const(PX_DNS_HDR_SIZE) != 12 || px_const(PX_DNS_Q_FIXED) != 4 || px_const(PX_DNS_RR_FIXED) != 10 ||
      px_const(PX_DNS_OPT_FIXED) != 11 || px_const(PX_RAD_HDR_SIZE) != 20) {
    fprintf(stderr, "C15: shim structure sizes differ from the RFC layouts\n");
    return 2;
  }
  rad_load_table();
  add_check<NameCase>("dns_name", 50000, 100, genNameCase, run_name);
  add_check<DnsCase>("dns_msg", 10000, 100, genDnsCase, run_dns);
  add_enum_check("dns_name_shapes", 100, enum_name_shapes, [](const std::string &t) { return run_name(NameCase::parse(t)); });
  add_check<PwCase>("rad_pw", 30000, 100, genPwCase, run_pw);
  add_check<RadCase>("rad_pkt", 10000, 100, genRadCase, run_rad);
  add_enum_check("rad_corrupt_exh", 100, enum_rad_corrupt, [](const std::string &t) { return run_rad_exh(t); });
  return driver_main(argc, argv);
}
