// C15 -- DNS and RADIUS messages built by the library parse back and authenticate per RFC.
// rapidcheck histories / values against refimpl/dns_ref.hpp and refimpl/radius_ref.hpp.
// Links against one shims/proto_shim.c variant (compiler / -O / sanitizer).
#include "pbt.hpp"
#include "../shims/proto_abi.h"
#include "dns_ref.hpp"
#include "radius_ref.hpp"
#include <memory>

using namespace pbt;

static int E_INVAL, E_OVERFLOW, E_BADMSG, E_EXIST, E_NOATTR, E_OPNOTSUPP, E_SPIPE;
static const size_t SENT = (size_t)0xDEADBEEFCAFEF00DULL;  // "never written" marker for *_ret arguments

#define REQ(cond, msg) PBT_REQUIRE(cond, msg)
#define CHK(v)                                                                 \
  do {                                                                         \
    Verdict _v = (v);                                                          \
    if (!_v.ok) return _v;                                                     \
  } while (0)

// buffer allocated by the shim with exactly n bytes (ASan variants: any access past it aborts)
struct XBuf {
  uint8_t *p;
  size_t n;
  explicit XBuf(size_t n_, uint8_t fill = 0xA5) : p((uint8_t *)px_alloc(n_)), n(n_) {
    if (p && n) memset(p, fill, n);
  }
  explicit XBuf(const Bytes &b) : p((uint8_t *)px_alloc(b.size())), n(b.size()) {
    if (p && n) memcpy(p, b.data(), n);
  }
  XBuf(const XBuf &) = delete;
  XBuf &operator=(const XBuf &) = delete;
  ~XBuf() { px_free(p); }
  // replace by a fresh exact allocation of n_ bytes keeping the first keep bytes
  void regrow(size_t n_, size_t keep, uint8_t fill) {
    uint8_t *q = (uint8_t *)px_alloc(n_);
    if (q && n_) memset(q, fill, n_);
    if (q && keep) memcpy(q, p, std::min(keep, n_));
    px_free(p);
    p = q;
    n = n_;
  }
  Bytes bytes(size_t k) const { return Bytes(p, p + std::min(k, n)); }
};

static std::string first_diff(const uint8_t *got, const Bytes &exp, size_t n) {
  std::ostringstream o;
  for (size_t i = 0; i < n && i < exp.size(); i++)
    if (got[i] != exp[i]) {
      o << "first difference at offset " << i << ": got " << hex(got + i, std::min<size_t>(8, n - i)) << " expected "
        << hex(exp.data() + i, std::min<size_t>(8, exp.size() - i));
      return o.str();
    }
  o << "length " << n << " vs " << exp.size();
  return o.str();
}
static uint16_t mem16(const Bytes &b) {
  uint16_t v = 0;
  if (b.size() >= 2) memcpy(&v, b.data(), 2);
  return v;
}
static Bytes fix_len(Bytes b, size_t n) { b.resize(n, 0); return b; }

// ---- small generator helpers (called from inside rc::gen::exec lambdas) ----
static const char LDH[] = "abcdefghijklmnopqrstuvwxyzABCDEFGHIJKLMNOPQRSTUVWXYZ0123456789-";
static Bytes pickLdh(size_t n) {
  Bytes raw = *bytes_len(n);
  for (auto &c : raw) c = (uint8_t)LDH[c % 63];
  return raw;
}
static Bytes pickLabelBytes(size_t n, bool arbitrary) {
  if (!arbitrary) return pickLdh(n);
  Bytes raw = *bytes_len(n);
  for (auto &c : raw) if (c == '.') c = ',';
  return raw;
}
static void appendLabel(Bytes &name, const Bytes &l) {
  if (!name.empty()) name.push_back('.');
  name.insert(name.end(), l.begin(), l.end());
}

// Sanitised variants: rapidcheck allocates heavily; recording 30 frames per malloc/free makes the ASan variant ~2x
// slower without adding to the verdict (the faulting access is still reported with its own stack). Ignored elsewhere.
extern "C" const char *__asan_default_options() { return "malloc_context_size=3"; }

#include "C15_dns.inc"
#include "C15_rad.inc"

// ---------------------------------------------------------------- DNS header section counts
// dns_hdr_{qd,an,ns,ar}_{set,inc,dec,get}: the four 16-bit counts live in network byte order at offsets 4..11
// (RFC 1035 4.1.1); arithmetic on them is arithmetic on the numbers, whatever the host byte order.
struct HdrOp { int op = 0, section = 0, val = 0; };  // op 0 inc, 1 dec, 2 set
struct HdrCase {
  int init[4] = {0, 0, 0, 0};
  std::vector<HdrOp> ops;
  std::string ser() const {
    Writer w;
    w.iv("init", {init[0], init[1], init[2], init[3]}).i("nops", (long long)ops.size());
    for (size_t i = 0; i < ops.size(); i++) w.iv(("o" + std::to_string(i)).c_str(), {ops[i].op, ops[i].section, ops[i].val});
    return w.str();
  }
  static HdrCase parse(const std::string &t) {
    Reader r(t);
    HdrCase c;
    auto v = r.iv("init");
    v.resize(4, 0);
    for (int i = 0; i < 4; i++) c.init[i] = (int)v[i];
    int n = (int)r.i("nops");
    for (int i = 0; i < n; i++) {
      auto o = r.iv(("o" + std::to_string(i)).c_str());
      o.resize(3, 0);
      c.ops.push_back(HdrOp{(int)o[0], (int)o[1], (int)o[2]});
    }
    return c;
  }
};
void showValue(const HdrCase &c, std::ostream &os) { os << c.ser(); }

static Verdict run_hdr(const HdrCase &c) {
  XBuf b(12);
  size_t sz = SENT;
  REQ(px_dns_hdr_create(b.p, 12, 0x1234, 0x8180, &sz) == 0 && sz == 12, "dns_hdr_create failed on a 12 byte buffer");
  uint16_t model[4];
  const Bytes head = b.bytes(4);  // id and flags as the library wrote them: count operations must leave them alone
  for (int s = 0; s < 4; s++) { model[s] = (uint16_t)c.init[s]; px_dns_hdr_set(b.p, s, model[s]); }
  bool crossed = false;
  for (size_t i = 0; i <= c.ops.size(); i++) {
    for (int s = 0; s < 4; s++) {
      unsigned wire = ((unsigned)b.p[4 + 2 * s] << 8) | b.p[5 + 2 * s];
      REQ(wire == model[s], "after " << i << " operation(s): section " << s << " count on the wire is " << wire << " (bytes " << hex(b.p + 4 + 2 * s, 2) << "), the operations give " << model[s]);
      REQ(px_dns_hdr_cnt(b.p, s) == model[s], "after " << i << " operation(s): section " << s << " getter returns " << px_dns_hdr_cnt(b.p, s) << ", expected " << model[s]);
    }
    REQ(b.bytes(4) == head, "count operation modified the id / flags bytes: " << hex(b.p, 4) << " (were " << hex(head.data(), 4) << ")");
    if (i == c.ops.size()) break;
    const HdrOp &o = c.ops[i];
    int s = o.section & 3;
    uint16_t v = (uint16_t)o.val, before = model[s];
    switch (o.op) {
    case 0: px_dns_hdr_inc(b.p, s, v); model[s] = (uint16_t)(model[s] + v); break;
    case 1: px_dns_hdr_dec(b.p, s, v); model[s] = (uint16_t)(model[s] - v); break;
    default: px_dns_hdr_set(b.p, s, v); model[s] = v; break;
    }
    if ((before >> 8) != (model[s] >> 8) && o.op != 2) crossed = true;
  }
  if (crossed) { label("count_crossed_a_byte_boundary"); nontrivial_cur(); }
  return Verdict::pass();
}

static rc::Gen<HdrCase> genHdrCase() {
  return rc::gen::exec([]() {
    HdrCase c;
    auto val = []() { return *rc::gen::weightedElement<int>({{4, 1}, {2, *range<int>(0, 300)}, {2, *rc::gen::element(255, 256, 257, 511, 512, 32767, 32768, 65535)}, {2, *range<int>(0, 65535)}}); };
    for (int i = 0; i < 4; i++) c.init[i] = *rc::gen::weightedElement<int>({{2, 0}, {2, *rc::gen::element(254, 255, 256, 511, 65535)}, {2, *range<int>(0, 65535)}});
    int n = *range<int>(1, 12);
    for (int i = 0; i < n; i++) c.ops.push_back(HdrOp{*rc::gen::weightedElement<int>({{4, 0}, {3, 1}, {1, 2}}), *range<int>(0, 3), val()});
    return c;
  });
}

int main(int argc, char **argv) {
  E_INVAL = (int)px_const(PX_EINVAL);
  E_OVERFLOW = (int)px_const(PX_EOVERFLOW);
  E_BADMSG = (int)px_const(PX_EBADMSG);
  E_EXIST = (int)px_const(PX_EEXIST);
  E_NOATTR = (int)px_const(PX_ENOATTR);
  E_OPNOTSUPP = (int)px_const(PX_EOPNOTSUPP);
  E_SPIPE = (int)px_const(PX_ESPIPE);
  // references must reproduce their published anchors, and the shim must see the layout the RFCs give
  std::string a1 = dnsref::anchors(), a2 = radref::anchors();
  if (!a1.empty() || !a2.empty()) {
    fprintf(stderr, "C15: reference anchor failed: %s %s\n", a1.c_str(), a2.c_str());
    return 2;
  }
  if (px_const(PX_DNS_HDR_SIZE) != 12 || px_const(PX_DNS_Q_FIXED) != 4 || px_const(PX_DNS_RR_FIXED) != 10 ||
      px_const(PX_DNS_OPT_FIXED) != 11 || px_const(PX_RAD_HDR_SIZE) != 20) {
    fprintf(stderr, "C15: shim structure sizes differ from the RFC layouts\n");
    return 2;
  }
  rad_load_table();
  add_check<NameCase>("dns_name", 50000, 100, genNameCase, run_name);
  add_check<DnsCase>("dns_msg", 10000, 100, genDnsCase, run_dns);
  add_check<HdrCase>("dns_hdr_counts", 40000, 100, genHdrCase, run_hdr);
  add_enum_check("dns_name_shapes", 100, enum_name_shapes, [](const std::string &t) { return run_name(NameCase::parse(t)); });
  add_check<PwCase>("rad_pw", 30000, 100, genPwCase, run_pw);
  add_check<RadCase>("rad_pkt", 10000, 100, genRadCase, run_rad);
  add_enum_check("rad_corrupt_exh", 100, enum_rad_corrupt, [](const std::string &t) { return run_rad_exh(t); });
  return driver_main(argc, argv);
}
