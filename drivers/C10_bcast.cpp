// C10 -- broadcasts: once per targeted running thread; completion once, last, on the
// originating thread, with true counts; SYNC returns after all callbacks and never
// touches the caller's record afterwards; ONE_BY_ONE strictly sequential.
#include "pbt.hpp"
#include "../shims/tp_abi.h"
#include <cerrno>
#include <memory>

using namespace pbt;

enum { FL_SELF_DIRECT = 1, FL_FORCE = 2, FL_FAIL_DIRECT = 4, FL_SELF_SKIP = 256, FL_SYNC = 512, FL_SYNC_USLEEP = 1024, FL_OBO = 65536 };

struct Bcast { int in_pool = 0, pool_idx = 0, api = 0, flags = 0, src_own = 0, cb_usec = 0; };
struct Fault { int fn = 0, k = 0, err = 0; };
struct BcCase {
  int nthreads = 1, skip_first = 0, detach_mask = 0, pool_flags = 0, signals = 0;
  std::vector<Bcast> b;
  Bytes plan;
  std::vector<Fault> faults;
  std::string ser() const {
    Writer w;
    w.i("nthreads", nthreads).i("skip_first", skip_first).i("detach_mask", detach_mask).i("pool_flags", pool_flags).i("signals", signals).i("nbcasts", (long long)b.size());
    for (size_t i = 0; i < b.size(); i++)
      w.iv(("b" + std::to_string(i)).c_str(), {b[i].in_pool, b[i].pool_idx, b[i].api, b[i].flags, b[i].src_own, b[i].cb_usec});
    w.b("plan", plan);
    std::vector<long long> f;
    for (auto &x : faults) { f.push_back(x.fn); f.push_back(x.k); f.push_back(x.err); }
    w.iv("faults", f);
    return w.str();
  }
  static BcCase parse(const std::string &t) {
    Reader r(t);
    BcCase c;
    c.nthreads = (int)r.i("nthreads", 1); c.skip_first = (int)r.i("skip_first"); c.detach_mask = (int)r.i("detach_mask"); c.pool_flags = (int)r.i("pool_flags"); c.signals = (int)r.i("signals");
    int n = (int)r.i("nbcasts");
    for (int i = 0; i < n; i++) {
      auto v = r.iv(("b" + std::to_string(i)).c_str());
      v.resize(6, 0);
      c.b.push_back(Bcast{(int)v[0], (int)v[1], (int)v[2], (int)v[3], (int)v[4], (int)v[5]});
    }
    c.plan = r.b("plan");
    auto f = r.iv("faults");
    for (size_t j = 0; j + 3 <= f.size(); j += 3) c.faults.push_back(Fault{(int)f[j], (int)f[j + 1], (int)f[j + 2]});
    return c;
  }
};
void showValue(const BcCase &c, std::ostream &os) { os << c.ser(); }

static bool in_domain(const BcCase &c, std::string &why) {
  // The header warns that SYNC can deadlock; two cases are deterministic self-deadlocks the property does not
  // promise to avoid (liveness is not decidable by this technique): a pool thread waiting synchronously for a
  // message queued to itself, and two pool threads waiting synchronously for each other.
  int sync_in_pool = 0;
  for (auto &b : c.b) {
    bool sync = b.api == 0 && (b.flags & FL_SYNC);
    if (sync && b.in_pool == 1) {
      sync_in_pool++;
      if (c.nthreads > 1 && !(b.flags & (FL_SELF_SKIP | FL_SELF_DIRECT))) { why = "sync_from_pool_to_self"; return false; }
    }
  }
  if (sync_in_pool >= 2) { why = "two_sync_callers_in_pool"; return false; }
  // a SYNC caller inside the pool blocks its thread: a concurrent external SYNC still terminates, fine.
  return true;
}

struct BInfo {
  long call = -1, ret = -1;
  long long rc = 0;
  uint64_t sent = 0, failed = 0, caller_cur = 0;
  uint32_t caller_thr = 0;
  std::vector<long> cb, cb_end, done;
};

static Verdict evaluate(const BcCase &c, const c10_out &o, bool &hang) {
  hang = false;
  PBT_REQUIRE(o.setup_rc == 0, "harness: pool creation failed rc=" << o.setup_rc);
  PBT_REQUIRE(tp_log_dropped() == 0, "harness: history log overflow");
  if (o.hang) { hang = true; return Verdict::fail("hang: a broadcast, its completion callback or a fence did not finish within the ceiling"); }
  uint32_t n = tp_log_count();
  std::vector<BInfo> bi(c.b.size());
  for (uint32_t i = 0; i < n; i++) {
    const tp_rec &r = tp_log_buf[i];
    if (r.kind < R_BCAST_CALL || r.kind > R_BCAST_DONE) continue;
    PBT_REQUIRE(r.a < bi.size(), "record for unknown broadcast " << r.a);
    BInfo &x = bi[r.a];
    switch (r.kind) {
    case R_BCAST_CALL: x.call = i; x.caller_cur = r.cur; x.caller_thr = r.thr; break;
    case R_BCAST_RET: x.ret = i; x.rc = (long long)(int64_t)r.b; x.sent = r.c; x.failed = r.d; break;
    case R_BCAST_CB: x.cb.push_back(i); break;
    case R_BCAST_CB_END: x.cb_end.push_back(i); break;
    case R_BCAST_DONE: x.done.push_back(i); break;
    }
  }
  bool any_nt = false;
  for (size_t k = 0; k < c.b.size(); k++) {
    const Bcast &b = c.b[k];
    BInfo &x = bi[k];
    PBT_REQUIRE(x.call >= 0 && x.ret >= 0, "broadcast " << k << " did not return");
    bool caller_in_pool = false;
    int caller_idx = -1;
    for (int t = 0; t < c.nthreads; t++)
      if (x.caller_cur && x.caller_cur == o.tpt_ptr[t]) { caller_in_pool = true; caller_idx = t; }
    int fl = b.flags;
    bool cbapi = b.api == 1;
    std::string tag = "broadcast " + std::to_string(k) + " (api " + std::to_string(b.api) + " flags " + std::to_string(fl) + " caller " +
                      (caller_in_pool ? "thread " + std::to_string(caller_idx) : std::string("external")) + " n=" + std::to_string(c.nthreads) +
                      " running_mask=" + std::to_string(o.running_mask) + ")";
    // documented argument rules
    // (cbsend needs a thread object to deliver the completion to: a pool thread of this pool or of ANOTHER pool, not a plain thread)
    if (cbapi && ((fl & (FL_SYNC | FL_SYNC_USLEEP)) || x.caller_cur == 0)) {
      PBT_REQUIRE(x.rc == EINVAL, tag << ": invalid cbsend arguments returned " << x.rc);
      PBT_REQUIRE(x.cb.empty() && x.done.empty(), tag << ": callbacks ran although the call was refused");
      label("refused_by_argument_rule");
      continue;
    }
    // target set
    std::vector<int> T;
    for (int t = 0; t < c.nthreads; t++) {
      if ((fl & FL_SELF_SKIP) && caller_in_pool && t == caller_idx) continue;
      T.push_back(t);
    }
    // per-thread callback records
    std::map<uint64_t, int> per_thread;
    for (long i : x.cb) per_thread[tp_log_buf[i].b]++;
    for (auto &kv : per_thread) {
      int t = -1;
      for (int j = 0; j < c.nthreads; j++) if (o.tpt_ptr[j] == kv.first) t = j;
      PBT_REQUIRE(t >= 0, tag << ": callback invoked with a tpt that is no pool thread");
      PBT_REQUIRE(std::find(T.begin(), T.end(), t) != T.end(), tag << ": callback ran for thread " << t << " which was not targeted");
      PBT_REQUIRE(kv.second == 1, tag << ": callback ran " << kv.second << " times for thread " << t);
    }
    PBT_REQUIRE(x.cb.size() == x.cb_end.size(), tag << ": a callback did not finish");
    uint32_t inj = o.res.injected[F_QWRITE];
    size_t expect_cb = 0, expect_fail = 0;
    bool exact = (inj == 0);  // with injected write faults the split between sent and failed depends on which send hit the fault
    for (int t : T) {
      bool running = (o.running_mask >> t) & 1;
      bool self_direct = (fl & FL_SELF_DIRECT) && caller_in_pool && t == caller_idx;
      if (running || self_direct || (fl & FL_FORCE)) expect_cb++; else expect_fail++;
    }
    // where each callback ran
    for (long i : x.cb) {
      const tp_rec &r = tp_log_buf[i];
      int t = -1;
      for (int j = 0; j < c.nthreads; j++) if (o.tpt_ptr[j] == r.b) t = j;
      bool running = (o.running_mask >> t) & 1;
      bool in_caller = (r.thr == x.caller_thr);
      bool on_target = (r.cur == r.b);
      if (on_target) continue;
      // not on its own thread: must be one of the direct-call rules, executed by the thread that issued the send
      bool allowed = (!running && (fl & FL_FORCE)) || (fl & FL_FAIL_DIRECT);
      PBT_REQUIRE(allowed, tag << ": callback for thread " << t << " ran on another thread without a direct-call rule");
      if (!(fl & FL_OBO)) PBT_REQUIRE(in_caller, tag << ": direct call for thread " << t << " was not made by the caller");
    }
    uint64_t sent = x.sent, failed = x.failed;
    bool have_counts = false;
    if (!cbapi) {
      have_counts = true;
      // 1-thread self-call path reports through the same counters
    } else if (!x.done.empty()) {
      have_counts = true;
      sent = tp_log_buf[x.done[0]].c;
      failed = tp_log_buf[x.done[0]].d;
    }
    if (cbapi) {
      PBT_REQUIRE(x.done.size() <= 1, tag << ": completion callback ran " << x.done.size() << " times");
      if (x.rc == 0) PBT_REQUIRE(x.done.size() == 1, tag << ": accepted but the completion callback never ran");
      if (!x.done.empty()) {
        const tp_rec &d = tp_log_buf[x.done[0]];
        if (d.b == x.caller_cur && d.cur != x.caller_cur && inj > 0 && known("cbsend_done_direct_on_write_failure")) {
          // committed known finding: when the queue write that should carry the completion to the originating thread
          // fails, the library falls back to calling it directly on the worker (TP_MSG_F_FAIL_DIRECT)
          excluded("cbsend_done_direct_on_write_failure");
        } else
        PBT_REQUIRE(d.b == x.caller_cur && d.cur == x.caller_cur, tag << ": completion ran on tpt " << std::hex << d.cur << " for " << d.b
                                                                       << " instead of the originating thread " << x.caller_cur);
        for (long e : x.cb_end) PBT_REQUIRE(e < x.done[0], tag << ": completion callback ran before the last callback finished");
      }
    }
    if (have_counts) {
      bool single_self_sync = (!cbapi && c.nthreads == 1 && caller_in_pool && (fl & FL_SYNC) && !(fl & FL_SELF_SKIP));
      if (single_self_sync && known("bsend_sync_single_thread_count")) excluded("bsend_sync_single_thread_count");
      else {
        PBT_REQUIRE(sent == x.cb.size(), tag << ": reported sent=" << sent << " but " << x.cb.size() << " callbacks ran");
        PBT_REQUIRE(sent + failed == T.size(), tag << ": sent " << sent << " + failed " << failed << " != targeted " << T.size());
      }
      if (exact) {
        PBT_REQUIRE(x.cb.size() == expect_cb, tag << ": " << x.cb.size() << " callbacks ran, expected " << expect_cb << " (running or forced targets)");
      }
    } else {
      // refused cbsend: nothing may have run unless it reports completion
      if (exact) PBT_REQUIRE(x.cb.size() <= expect_cb, tag << ": more callbacks than targets");
    }
    if (!cbapi && !T.empty()) {
      if (sent >= 1) PBT_REQUIRE(x.rc == 0, tag << ": rc " << x.rc << " although " << sent << " messages were sent");
      else if (!(c.nthreads == 1 && caller_in_pool)) PBT_REQUIRE(x.rc == ESPIPE, tag << ": rc " << x.rc << " with nothing sent (ESPIPE documented)");
    }
    if (cbapi && exact && expect_cb >= 1 && !(fl & FL_OBO)) PBT_REQUIRE(x.rc == 0, tag << ": refused (" << x.rc << ") although " << expect_cb << " targets accept messages");
    if (cbapi && exact && expect_cb >= 1 && (fl & FL_OBO)) {
      if (x.rc != 0 && known("cbsend_obo_only_caller_running")) excluded("cbsend_obo_only_caller_running");
      else PBT_REQUIRE(x.rc == 0, tag << ": one-by-one refused (" << x.rc << ") although " << expect_cb << " targets accept messages");
    }
    // SYNC: everything finished before the call returned
    if (!cbapi && (fl & FL_SYNC))
      for (long e : x.cb_end) PBT_REQUIRE(e < x.ret, tag << ": synchronous broadcast returned before a callback finished");
    // ONE_BY_ONE: intervals pairwise disjoint and in thread order (caller first with SELF_DIRECT, last with no self flag)
    if (cbapi && (fl & FL_OBO)) {
      std::vector<std::pair<long, long>> iv;  // (start, end) in log order, with thread index
      std::vector<int> order;
      for (size_t q = 0; q < x.cb.size(); q++) {
        uint64_t tptv = tp_log_buf[x.cb[q]].b;
        long e = -1;
        for (long ee : x.cb_end) if (tp_log_buf[ee].b == tptv) e = ee;
        iv.push_back({x.cb[q], e});
        for (int j = 0; j < c.nthreads; j++) if (o.tpt_ptr[j] == tptv) order.push_back(j);
      }
      for (size_t q = 1; q < iv.size(); q++)
        PBT_REQUIRE(iv[q - 1].second < iv[q].first, tag << ": one-by-one callbacks overlap (threads " << order[q - 1] << " and " << order[q] << ")");
      std::vector<int> expect;
      bool self_first = caller_in_pool && (fl & FL_SELF_DIRECT) && !(fl & FL_SELF_SKIP);  // a caller from another pool is no receiver at all
      bool self_last = caller_in_pool && !(fl & (FL_SELF_DIRECT | FL_SELF_SKIP));
      std::vector<int> seen = order;
      if (self_first && !seen.empty()) { PBT_REQUIRE(seen.front() == caller_idx, tag << ": caller not first with SELF_DIRECT"); seen.erase(seen.begin()); }
      if (self_last && !seen.empty() && std::find(seen.begin(), seen.end(), caller_idx) != seen.end()) {
        PBT_REQUIRE(seen.back() == caller_idx, tag << ": caller thread not last in one-by-one order");
        seen.pop_back();
      }
      for (size_t q = 1; q < seen.size(); q++) PBT_REQUIRE(seen[q - 1] < seen[q], tag << ": one-by-one order not by thread index");
      label("one_by_one");
    }
    bool nt = false;
    if (expect_fail || (o.running_mask != (1u << c.nthreads) - 1)) { label("some_target_not_running"); nt = true; }
    if (caller_in_pool) { label("caller_in_pool"); nt = true; }
    if (b.in_pool == 2) { label("caller_is_a_thread_of_another_pool"); nt = true; }
    if (c.signals && !caller_in_pool && (fl & FL_SYNC)) { label("signals_during_a_synchronous_wait"); nt = true; }
    if (c.b.size() >= 2) { label("concurrent_broadcasts"); nt = true; }
    if (inj) { label("fault_injected"); nt = true; }
    if (o.res.vp_hits[4]) label("vp4_hit");
    if (!cbapi && (fl & FL_SYNC)) label("sync");
    if (cbapi) label("cbsend");
    any_nt = any_nt || nt;
  }
  // memory accounting of the broadcast records (tpt_msg_data_t): everything the library allocated is freed after destroy
  if (o.res.live_allocs && known("cbsend_obo_msg_data_leak")) excluded("cbsend_obo_msg_data_leak");
  else PBT_REQUIRE(o.res.live_allocs == 0, "after tp_destroy " << o.res.live_allocs << " library allocation(s) were never freed (broadcast record leak)");
  PBT_REQUIRE(o.res.double_free == 0, "library freed a pointer twice / an unknown pointer");
  PBT_REQUIRE(o.res.mutex_gone == 0, o.res.mutex_gone << " pool thread(s) were still inside the critical section of a broadcast record when the record was destroyed / its "
                                                         "memory reused: the synchronous call returned (or the record was freed) before the callback bookkeeping had finished");
  if (any_nt) nontrivial_cur();
  return Verdict::pass();
}

static void fill_plans(tp_plans &p, const Bytes &plan, const std::vector<Fault> &faults) {
  memset(&p, 0, sizeof p);
  p.plan_len = (uint32_t)std::min<size_t>(plan.size(), TP_PLAN_MAX);
  memcpy(p.plan, plan.data(), p.plan_len);
  p.nfaults = (uint32_t)std::min<size_t>(faults.size(), TP_FAULT_MAX);
  for (uint32_t i = 0; i < p.nfaults; i++) {
    p.faults[i].fn = (uint8_t)faults[i].fn;
    p.faults[i].k = (uint32_t)faults[i].k;
    p.faults[i].err = faults[i].err;
  }
}

static Verdict run_case(const BcCase &c) {
  std::string why;
  if (!in_domain(c, why)) { label("excluded_precondition:" + why); return Verdict::pass(); }
  c10_scn scn;
  memset(&scn, 0, sizeof scn);
  scn.nthreads = (uint8_t)std::max(1, std::min(16, c.nthreads));
  scn.skip_first = (uint8_t)c.skip_first;
  scn.detach_mask = (uint16_t)c.detach_mask;
  scn.pool_flags = (uint8_t)c.pool_flags;
  scn.signals = (uint8_t)c.signals;
  scn.nbcasts = (uint8_t)std::min<size_t>(c.b.size(), C10_MAX_BCASTS);
  for (int i = 0; i < scn.nbcasts; i++) {
    scn.b[i].in_pool = (uint8_t)c.b[i].in_pool;
    scn.b[i].pool_idx = (uint8_t)c.b[i].pool_idx;
    scn.b[i].api = (uint8_t)c.b[i].api;
    scn.b[i].flags = (uint32_t)c.b[i].flags;
    scn.b[i].src_own = (uint8_t)c.b[i].src_own;
    scn.b[i].cb_usec = (uint16_t)c.b[i].cb_usec;
  }
  fill_plans(scn.plans, c.plan, c.faults);
  Verdict v = Verdict::pass();
  for (int attempt = 0; attempt < 3; attempt++) {
    c10_out o;
    alarm(240);
    c10_run(&scn, &o);
    alarm(0);
    bool hang = false;
    v = evaluate(c, o, hang);
    if (!hang) return v;
    label("hang_rerun");
  }
  return v;
}

static rc::Gen<BcCase> genCase() {
  return rc::gen::exec([]() {
    BcCase c;
    c.nthreads = *rc::gen::element(1, 2, 2, 3, 4, 4, 8, 16);
    c.skip_first = (c.nthreads > 1) ? *rc::gen::weightedElement<int>({{3, 0}, {1, 1}}) : 0;
    // stop a subset of threads, but always keep at least one thread running to host in-pool callers
    int dm = *rc::gen::weightedElement<int>({{3, 0}, {2, 1}}) ? *range<int>(0, (1 << c.nthreads) - 1) : 0;
    int keep = c.skip_first ? 1 : 0;
    if (c.nthreads > keep) dm &= ~(1 << (keep + *range<int>(0, c.nthreads - 1 - keep)));
    else dm = 0;
    if (*range<int>(0, 5) == 0) dm = ((1 << c.nthreads) - 1) & ~(1 << (c.nthreads - 1));  // everything but the last thread stopped
    c.detach_mask = dm;
    c.pool_flags = *rc::gen::weightedElement<int>({{3, 0}, {1, 1}, {2, 2}, {1, 3}});
    c.signals = *rc::gen::weightedElement<int>({{3, 0}, {1, 1}});  // handled signals hit the external callers while they wait
    int nb = *rc::gen::weightedElement<int>({{5, 1}, {2, 2}, {1, 3}});
    int sync_in_pool = 0;
    for (int i = 0; i < nb; i++) {
      Bcast b;
      b.api = *range<int>(0, 1);
      b.in_pool = *rc::gen::weightedElement<int>({{1, 0}, {2, 1}});
      if (b.api == 1 && *range<int>(0, 9) != 0) b.in_pool = 1;  // cbsend from outside is only the EINVAL class
      // pick a running pool thread as the caller
      std::vector<int> run;
      for (int t = 0; t < c.nthreads; t++) if (!((dm >> t) & 1) && !(c.skip_first && t == 0)) run.push_back(t);
      if (run.empty()) b.in_pool = 0; else b.pool_idx = *rc::gen::elementOf(run);
      if (*range<int>(0, 5) == 0) b.in_pool = 2;  // issued by a thread that belongs to another pool (for cbsend: the only way to broadcast into a pool from outside)
      int fl = 0;
      if (*range<int>(0, 2) == 0) fl |= FL_SELF_DIRECT;
      if (*range<int>(0, 3) == 0) fl |= FL_FORCE;
      if (*range<int>(0, 2) == 0) fl |= FL_FAIL_DIRECT;
      if (*range<int>(0, 2) == 0) fl |= FL_SELF_SKIP;
      if (b.api == 0) {
        if (*range<int>(0, 1)) fl |= FL_SYNC;
        if (*range<int>(0, 3) == 0) fl |= FL_SYNC_USLEEP;
        if ((fl & FL_SYNC) && b.in_pool == 1) {
          // stay inside the documented envelope (see in_domain): add a self flag, one in-pool sync caller at most
          if (c.nthreads > 1 && !(fl & (FL_SELF_SKIP | FL_SELF_DIRECT))) fl |= (*range<int>(0, 1) ? FL_SELF_SKIP : FL_SELF_DIRECT);
          if (sync_in_pool) fl &= ~FL_SYNC; else sync_in_pool++;
        }
      } else {
        if (*range<int>(0, 1)) fl |= FL_OBO;
        if (*range<int>(0, 19) == 0) fl |= FL_SYNC;  // must be refused
      }
      b.flags = fl;
      b.src_own = *range<int>(0, 1);
      b.cb_usec = *rc::gen::element(0, 0, 50, 300, 2000);
      c.b.push_back(b);
    }
    c.plan = *bytes_upto(24);
    if (*range<int>(0, 3) == 0 && !c.plan.empty()) c.plan[*range<size_t>(0, c.plan.size() - 1)] = 0xff;  // a long delay somewhere
    int nf = *rc::gen::weightedElement<int>({{4, 0}, {2, 1}, {1, 2}});
    for (int i = 0; i < nf; i++) c.faults.push_back(Fault{F_QWRITE, *range<int>(1, 3 * c.nthreads + 2), *rc::gen::element<int>(EAGAIN, EPIPE, EBADF)});
    return c;
  });
}

// every single queue-write failure position for small fixed broadcasts (fault enumeration)
static void fault_sweep(double scale) {
  set_exhaustive(true);
  int flagsets[] = {0, FL_SYNC, FL_FAIL_DIRECT, FL_SYNC | FL_FAIL_DIRECT, FL_OBO, FL_OBO | FL_SELF_DIRECT, FL_SELF_SKIP, FL_SYNC | FL_SELF_SKIP};
  for (int n : {2, 3, 4}) {
    for (int api = 0; api < 2; api++)
      for (int fl : flagsets) {
        if (api == 0 && (fl & FL_OBO)) continue;
        if (api == 1 && (fl & FL_SYNC)) continue;
        for (int k = 1; k <= n + 1; k++) {
          BcCase c;
          c.nthreads = n;
          Bcast b;
          b.api = api; b.in_pool = 1; b.pool_idx = 0; b.flags = fl; b.cb_usec = 50;
          if (api == 0 && (fl & FL_SYNC) && !(fl & (FL_SELF_SKIP | FL_SELF_DIRECT))) b.in_pool = 0;
          if (api == 1) b.in_pool = 1;
          c.b.push_back(b);
          c.faults.push_back(Fault{F_QWRITE, k, (k & 1) ? EAGAIN : EPIPE});
          if (!enum_case(c.ser(), [&]() { return run_case(c); })) return;
        }
      }
    if (scale < 1 && n >= 3) break;
  }
}

int main(int argc, char **argv) {
  add_check<BcCase>("bcast_scenarios", 1500, 100, genCase, run_case);
  add_enum_check("bcast_fault_sweep", 100, fault_sweep, [](const std::string &t) { return run_case(BcCase::parse(t)); });
  return driver_main(argc, argv);
}
