// C09 -- key encoding, validation, derivation and Diffie-Hellman are consistent; byte-string entry points
// stay inside the sizes passed.
// rapidcheck checks over shims/ecdsa_shim.c (every byte-string argument is an exact-size heap block; ASan
// variants see the first byte outside, the other variants verify 32 guard bytes on each side):
//   codec  : ecdsa_pub_key_export_be/le and ecdsa_pub_key_import_be/le vs SEC 1 2.3.3 / 2.3.4 (reference + OpenSSL
//            EC_POINT_oct2point), valid and constructed-invalid encodings, h = 4 curves incl. points outside the subgroup
//   keys   : ecdsa_key_gen(_be/_le), ecdsa_recover_pub_key_from_priv_key_be/le vs d*G (reference + OpenSSL)
//   dh     : ecdsa_dh(_be/_le) vs SEC 1 3.3.1 / 3.3.2, symmetry
//   sizes  : size sweeps of sign / verify / verify_priv_key (rnd_size vs bytes: H-EC-3)
#include "C03_common.hpp"

using namespace c39;

static const char *P_RND = "C09_sign_rnd_overread";          // ecdsa_sign_be/le read `bytes` octets of rnd after checking rnd_size >= priv_key_size only
static const char *P_DHCOF = "C09_dh_cofactor_scalar_mod_n";  // cofactor DH computes ((h*d) mod n)*Q instead of h*(d*Q): differs for Q outside the subgroup

static const char *P_D0 = "C09_zero_scalar_infinity_key";    // FXP_MULT_ALGO_BIN builds: d = 0 -> Q flagged infinity passes ec_point_check_as_pub_key, "key pair" (0, 00) returned

static Z pow2z(size_t k) { Z r = 1; r <<= k; return r; }
static bool nochk() { return es_info(ES_INFO_NOCHK) != 0; }
#define GUARD_OK(what)                                                                         \
  do {                                                                                         \
    const char *_g = es_guard();                                                               \
    PBT_REQUIRE(_g == nullptr, what << ": " << _g);                                            \
  } while (0)

// ------------------------------------------------------------------ points of interest
enum PtClass { PC_RANDOM = 0, PC_G, PC_NEG_G, PC_INF, PC_OUTSIDE, PC_SMALL, PC_TWO_G, PC_N };
static const char *pc_name(int c) {
  static const char *n[] = {"kG", "G", "-G", "infinity", "outside_subgroup", "small_order", "2G"};
  return (c >= 0 && c < PC_N) ? n[c] : "?";
}
// deterministic construction from seed octets; falls back to kG when the class does not exist on the curve
// does E(Fp) hold points outside <G>?  Decided from the group order itself (Hasse: #E = round((p+1)/n) * n for these sizes), not from the
// cofactor constant of the library's curve table: id-GostR3410-2001-ParamSet-cc is listed with h = 1 although #E = 2n there.
static bool has_outside(const Curve &c) {
  Z q = (c.p + 1 + c.n / 2) / c.n;
  return q > 1 || c.h > 1;
}

static Pt make_point(const CurveX &cx, int cls, const Bytes &seed, int &cls_out) {
  const Curve &c = cx.c;
  Pt g = ecref::G(c);
  cls_out = cls;
  switch (cls) {
  case PC_G: return g;
  case PC_NEG_G: return ecref::neg(c, g);
  case PC_TWO_G: return ecref::add(c, g, g);
  case PC_INF: return Pt();
  case PC_OUTSIDE: case PC_SMALL:
    if (has_outside(c)) {
      Z x = ecref::mod(z_of(seed), c.p);
      for (int i = 0; i < 64; i++, x = ecref::mod(x + 1, c.p)) {
        Pt P;
        if (!ecref::lift_x(c, x, (int)(seed.empty() ? 0 : seed[0] & 1), P)) continue;
        Pt T = ecref::mul(c, c.n, P);
        if (T.inf) continue;  // P happens to lie in the subgroup
        return cls == PC_OUTSIDE ? P : T;
      }
    }
    break;
  default: break;
  }
  cls_out = PC_RANDOM;
  Z k = 1 + ecref::mod(z_of(seed), c.n - 1);
  return ecref::mul(c, k, g);
}

// ------------------------------------------------------------------ codec check
enum Mut { M_NONE = 0, M_OFFCURVE, M_X_PLUS_P, M_Y_PLUS_P, M_X_EQ_P, M_PREFIX, M_PARITY, M_TRUNC, M_EXTEND, M_NONRESIDUE,
           M_NULL_Y, M_ONE_BYTE, M_ZERO_SIZE, M_N };
static const char *mut_name(int m) {
  static const char *n[] = {"none", "off_curve", "x_plus_p", "y_plus_p", "x_eq_p", "wrong_prefix", "parity_flipped", "truncated",
                            "extended", "x_without_root", "split_without_y", "single_nonzero_octet", "zero_size"};
  return (m >= 0 && m < M_N) ? n[m] : "?";
}
struct CodecCase {
  int ci = 0, le = 0, pcls = 0, enc = 0, mut = 0, reuse = 0;
  uint32_t mp = 0;
  Bytes seed;
  std::string ser() const {
    Writer w;
    w.i("ci", ci).s("curve", ci < (int)curves().size() ? curves()[ci].c.name : "?").i("le", le).i("pcls", pcls).s("pcls_name", pc_name(pcls));
    w.i("enc", enc).s("enc_name", enc_name(enc)).i("mut", mut).s("mut_name", mut_name(mut)).u("mp", mp).b("seed", seed).i("reuse", reuse);
    return w.str();
  }
  static CodecCase parse(const std::string &t) {
    Reader r(t);
    CodecCase c;
    c.ci = (int)r.i("ci"); c.le = (int)r.i("le"); c.pcls = (int)r.i("pcls"); c.enc = (int)r.i("enc"); c.mut = (int)r.i("mut");
    c.mp = (uint32_t)r.u("mp"); c.seed = r.b("seed"); c.reuse = (int)r.i("reuse");
    return c;
  }
};
void showValue(const CodecCase &c, std::ostream &os) { os << c.ser(); }

static int pick_curve() {
  // the two cofactor-4 curves get extra weight: they are the only ones where "on the curve" and "annihilated by n" differ
  int n = (int)curves().size();
  int r = *range<int>(0, n + 7);
  if (r < n) return r;
  std::vector<int> h4;
  for (auto &c : curves()) if (has_outside(c.c)) h4.push_back(c.idx);
  return h4.empty() ? 0 : h4[(size_t)(r - n) % h4.size()];
}
static rc::Gen<CodecCase> genCodec() {
  return rc::gen::exec([]() {
    CodecCase c;
    c.ci = pick_curve();
    const Curve &cv = curves()[c.ci].c;
    c.le = *range<int>(0, 1);
    {
      std::vector<std::pair<size_t, int>> w = {{8, PC_RANDOM}, {1, PC_G}, {1, PC_NEG_G}, {2, PC_INF}, {1, PC_TWO_G}};
      if (has_outside(cv)) { w.push_back({5, PC_OUTSIDE}); w.push_back({3, PC_SMALL}); }
      size_t tot = 0;
      for (auto &e : w) tot += e.first;
      size_t r = *range<size_t>(0, tot - 1);
      for (auto &e : w) { if (r < e.first) { c.pcls = e.second; break; } r -= e.first; }
    }
    c.enc = *range<int>(0, PK_NENC - 1);
    c.reuse = *rc::gen::weightedElement<int>({{3, 0}, {1, 1}});
    c.mut = *rc::gen::weightedElement<int>({{8, M_NONE}, {3, M_OFFCURVE}, {2, M_X_PLUS_P}, {2, M_Y_PLUS_P}, {1, M_X_EQ_P}, {3, M_PREFIX},
                                             {2, M_PARITY}, {2, M_TRUNC}, {2, M_EXTEND}, {2, M_NONRESIDUE}, {1, M_NULL_Y}, {1, M_ONE_BYTE},
                                             {1, M_ZERO_SIZE}});
    c.mp = *range<uint32_t>(0, 65535);
    c.seed = *bytes_len(cv.bytes);
    return c;
  });
}

// what an octet string handed to import denotes, decided by the reference (formats of ecdsa_pub_key_import_*)
struct Denotes {
  bool format_ok = false;   // size / prefix / presence of y make it one of the supported forms
  bool has_point = false;   // coordinates obtained (possibly off-curve / out of range)
  bool noroot = false;      // compressed: x^3 + ax + b is not a square (or x out of range)
  bool parity_impossible = false;  // compressed: the only root is y = 0 but the prefix asks for an odd y
  bool hybrid_bad_parity = false;
  Pt P;                     // the point denoted (when has_point)
};
static Denotes denote(const Curve &c, const PkBytes &pk, bool le) {
  Denotes d;
  size_t B = c.bytes;
  auto num = [&](const uint8_t *p) { Bytes b(p, p + B); if (le) b = rev(b); return z_of(b); };
  const Bytes &o = pk.x;
  if (pk.size == 0) return d;
  if (pk.size == 1) { if (o[0] == 0) { d.format_ok = d.has_point = true; d.P = Pt(); } return d; }
  if (pk.size == B) {
    if (!pk.has_y) return d;
    d.format_ok = d.has_point = true;
    d.P = Pt(num(o.data()), num(pk.y.data()));
    return d;
  }
  if (pk.size == B + 1) {
    if (o[0] != 2 && o[0] != 3) return d;
    d.format_ok = true;
    Z x = num(o.data() + 1);
    Pt P;
    Z root;
    if (x < c.p && ecref::lift_x(c, x, o[0] & 1, P)) { d.has_point = true; d.P = P; }
    else if (x < c.p && ecref::sqrt_mod(ecref::rhs(c, x), c.p, root)) { d.parity_impossible = true; d.P = Pt(x, Z(0)); }
    else { d.noroot = true; d.has_point = false; d.P = Pt(x, Z(0)); d.P.inf = false; }
    return d;
  }
  if (pk.size == 2 * B + 1) {
    if (o[0] != 4 && o[0] != 6 && o[0] != 7) return d;
    d.format_ok = d.has_point = true;
    d.P = Pt(num(o.data() + 1), num(o.data() + 1 + B));
    if (o[0] != 4 && (int)mpz_tstbit(d.P.y.get_mpz_t(), 0) != (o[0] & 1)) d.hybrid_bad_parity = true;
    return d;
  }
  if (pk.size == 2 * B) {
    d.format_ok = d.has_point = true;
    d.P = Pt(num(o.data()), num(o.data() + B));
    return d;
  }
  return d;
}

static Verdict run_codec(const CodecCase &cc) {
  if (cc.ci < 0 || cc.ci >= (int)curves().size() || cc.seed.empty()) return Verdict::pass();
  const CurveX &cx = curves()[cc.ci];
  const Curve &c = cx.c;
  if (!lib_curve(cx)) { label("curve_not_available_in_variant"); return Verdict::pass(); }
  size_t B = c.bytes;
  int le = cc.le ? 1 : 0, pcls;
  Pt P = make_point(cx, cc.pcls, cc.seed, pcls);
  bool nontriv = le || c.h > 1 || cc.mut != M_NONE;
  label(std::string("point:") + pc_name(pcls));
  label(le ? "order:le" : "order:be");
  if (c.h > 1) label("curve:cofactor4");
  if (c.h == 1 && has_outside(c)) label("curve:table_cofactor_1_but_group_is_larger");

  // ---------------- export of P in the three forms the exporter offers (any point object is exportable)
  if (cc.mut == M_NONE) {
    for (int form = 0; form < 3; form++) {  // 0 compressed, 1 packed, 2 split
      int enc = form == 0 ? PK_COMPRESSED : form == 1 ? PK_PACKED : PK_SPLIT;
      PkBytes ex = pk_encode(c, P, enc, le);
      size_t capx = form == 0 ? B + 1 : form == 1 ? 2 * B + 1 : B;
      Out ox(capx);
      std::unique_ptr<Out> oy(form == 2 ? new Out(B) : new Out());
      In ix(P.inf ? Bytes(1, 0) : be(P.x, B)), iy(P.inf ? Bytes(1, 0) : be(P.y, B));
      size_t sz = ES_SIZE_UNSET;
      int rc = es_pub_export(cx.idx, le, form == 0, P.inf, &ix, &iy, &ox, &*oy, &sz);
      GUARD_OK("ecdsa_pub_key_export (" << enc_name(enc) << ")");
      PBT_REQUIRE(rc == 0, "ecdsa_pub_key_export_" << (le ? "le" : "be") << " (" << enc_name(enc) << ") failed rc=" << rc);
      PBT_REQUIRE(sz == ex.size, "export " << enc_name(enc) << ": *pub_key_size=" << sz << " expected " << ex.size);
      PBT_REQUIRE(ox.bytes(ex.x.size()) == ex.x, "export " << enc_name(enc) << (le ? " le" : " be") << ": bytes " << hex(ox.bytes(ex.x.size()))
                                                           << " expected " << hex(ex.x));
      if (ex.has_y) PBT_REQUIRE(oy->bytes(B) == ex.y, "export split: y bytes " << hex(oy->bytes(B)) << " expected " << hex(ex.y));
      // nothing beyond the reported size was written (only observable for infinity: 1 octet of the buffer)
      Bytes all = ox.bytes(capx);
      for (size_t i = ex.x.size(); i < capx; i++)
        PBT_REQUIRE(all[i] == 0xA5, "export " << enc_name(enc) << ": octet " << i << " beyond *pub_key_size was written");
      // big endian forms are exactly SEC 1 2.3.3
      if (!le && form < 2)
        PBT_REQUIRE(ex.x == ecref::encode(c, P, form == 0 ? ecref::F_COMPRESSED : ecref::F_UNCOMPRESSED), "harness: encoder mismatch");
    }
    label("export:3_forms_ok");
  }

  // ---------------- the encoding handed to import
  int enc = cc.enc;
  PkBytes pk = pk_encode(c, P, enc, le);
  int mut = cc.mut;
  auto setnum = [&](Bytes &buf, size_t off, const Z &v) {
    Bytes b = be(v, B);
    if (le) b = rev(b);
    std::copy(b.begin(), b.end(), buf.begin() + off);
  };
  size_t xoff = (enc == PK_SPLIT || enc == PK_CONCAT) ? 0 : 1;
  bool has_ycoord = enc != PK_COMPRESSED;
  Z lim = pow2z(8 * B);
  if (P.inf && mut != M_NONE && mut != M_PREFIX && mut != M_EXTEND && mut != M_ONE_BYTE && mut != M_ZERO_SIZE) mut = M_NONE;
  switch (mut) {
  case M_NONE: break;
  case M_OFFCURVE:
    if (has_ycoord) { Z y = ecref::mod(P.y + 1 + (cc.mp % 3), c.p); if (enc == PK_SPLIT) setnum(pk.y, 0, y); else setnum(pk.x, xoff + B, y);
                      if (enc == PK_HYBRID) pk.x[0] = (uint8_t)(6 + (int)mpz_tstbit(y.get_mpz_t(), 0)); }
    else { Z x = ecref::mod(P.x + 1 + (cc.mp % 3), c.p); setnum(pk.x, xoff, x); }  // another abscissa: other point or no point at all
    break;
  case M_X_PLUS_P: { Z x = P.x + c.p; if (x >= lim) x = c.p; setnum(pk.x, xoff, x); break; }
  case M_Y_PLUS_P:
    if (has_ycoord) { Z y = P.y + c.p; if (y >= lim) y = c.p; if (enc == PK_SPLIT) setnum(pk.y, 0, y); else setnum(pk.x, xoff + B, y); }
    else mut = M_NONE;
    break;
  case M_X_EQ_P: setnum(pk.x, xoff, c.p); break;
  case M_PREFIX: {
    static const uint8_t bad[] = {0x00, 0x01, 0x05, 0x08, 0x09, 0x80, 0xff, 0x02, 0x03, 0x04, 0x06, 0x07};
    if (xoff == 1 || P.inf) {
      uint8_t b = bad[cc.mp % sizeof(bad)];
      // prefixes that are valid for the other family (02/03 on a 2B+1 string, 04/06/07 on a B+1 string) are wrong here
      bool family_ok = P.inf ? b == 0 : (enc == PK_COMPRESSED ? (b == 2 || b == 3) : (b == 4 || b == 6 || b == 7));
      if (family_ok) b = 0x05;
      pk.x[0] = b;
    } else mut = M_NONE;
    break;
  }
  case M_PARITY:
    if (enc == PK_COMPRESSED || enc == PK_HYBRID) pk.x[0] ^= 1; else mut = M_NONE;
    break;
  case M_TRUNC:
    if (enc == PK_SPLIT) { pk.x.pop_back(); pk.y.pop_back(); } else pk.x.pop_back();
    pk.size = pk.x.size();
    break;
  case M_EXTEND:
    pk.x.push_back((uint8_t)cc.mp);
    if (enc == PK_SPLIT) pk.y.push_back((uint8_t)(cc.mp >> 8));
    pk.size = pk.x.size();
    break;
  case M_NONRESIDUE:
    if (enc == PK_COMPRESSED) {
      Z x = ecref::mod(P.x + 1, c.p), r;
      for (int i = 0; i < 200 && ecref::sqrt_mod(ecref::rhs(c, x), c.p, r); i++) x = ecref::mod(x + 1, c.p);
      setnum(pk.x, 1, x);
    } else mut = M_NONE;
    break;
  case M_NULL_Y:
    if (enc == PK_SPLIT) { pk.has_y = false; pk.y.clear(); } else mut = M_NONE;
    break;
  case M_ONE_BYTE: pk.x = Bytes(1, (uint8_t)(1 + cc.mp % 255)); pk.y.clear(); pk.has_y = false; pk.size = 1; break;
  case M_ZERO_SIZE: pk.x.clear(); pk.y.clear(); pk.has_y = false; pk.size = 0; break;
  default: mut = M_NONE; break;
  }
  label(std::string("enc:") + enc_name(enc));
  label(std::string("mutation:") + mut_name(mut));

  Denotes dn = denote(c, pk, le != 0);
  bool ref_valid = dn.format_ok && dn.has_point && ecref::neutral_or_valid(c, dn.P);
  // second opinion on the decoding of standard big-endian octet strings (SEC 1 forms only)
  if (!le && !pk.has_y && (pk.size == 1 || pk.size == B + 1 || pk.size == 2 * B + 1)) {
    Pt op;
    bool o_ok = ossl_decode(cx, pk.x, op);
    bool r_ok = dn.format_ok && dn.has_point && !dn.hybrid_bad_parity && ecref::on_curve(c, dn.P);
    PBT_REQUIRE(o_ok == r_ok, "ORACLE DISAGREEMENT: OpenSSL oct2point " << o_ok << " vs reference " << r_ok << " on " << hex(pk.x));
    if (o_ok) PBT_REQUIRE(op == dn.P, "ORACLE DISAGREEMENT: OpenSSL decodes another point");
    label("second_opinion:openssl_oct2point");
  }

  In ix(pk.x), iy;
  if (pk.has_y) iy = In(pk.y);
  int inf = 0, xy_ok = 0;
  Bytes xb(ES_MAXB), yb(ES_MAXB);
  if (cc.reuse) { es_pub_import_reuse_next(1); label("import_into_a_reused_point_object"); }
  int rc = es_pub_import(cx.idx, le, &ix, &iy, pk.size, &inf, xb.data(), yb.data(), &xy_ok);
  es_pub_import_reuse_next(0);
  GUARD_OK("ecdsa_pub_key_import (" << enc_name(enc) << ", " << mut_name(mut) << ")");
  PBT_REQUIRE(rc < ES_RC_SHIM, "shim failure rc=" << rc);
  bool acc = rc == 0;
  label(acc ? "import:accept" : "import:reject");
  std::string ctx = std::string("ecdsa_pub_key_import_") + (le ? "le" : "be") + " (" + enc_name(enc) + ", " + mut_name(mut) + ", point " +
                    pc_name(pcls) + ", octets " + hex(pk.x) + (pk.has_y ? "|" + hex(pk.y) : "") + ")";
  auto same_point = [&]() -> bool {
    if (dn.P.inf) return inf != 0;
    if (inf != 0 || !xy_ok) return false;
    return z_of(xb.data(), B) == dn.P.x && z_of(yb.data(), B) == dn.P.y;
  };
  if (dn.hybrid_bad_parity) {
    // X9.62 hybrid form with a contradictory parity bit: SEC 1 does not define the form, the point it carries may be
    // valid.  Recorded, not asserted (see notes/C09.md).
    label(acc ? "observation:hybrid_wrong_parity_accepted" : "observation:hybrid_wrong_parity_rejected");
    if (nontriv) nontrivial_cur();
    return Verdict::pass();
  }
  if (!nochk()) {
    label(ref_valid ? "expected:accept" : "expected:reject");
    if (ref_valid && !acc) return Verdict::fail(ctx + " REJECTS (rc " + std::to_string(rc) + ") an encoding of a valid point");
    if (!ref_valid && acc)
      return Verdict::fail(ctx + " ACCEPTS an encoding that denotes neither the neutral element nor a point on the curve annihilated by n");
    if (acc) PBT_REQUIRE(same_point(), ctx << " returns another point: inf=" << inf << " x=" << hex(xb.data(), B) << " y=" << hex(yb.data(), B));
  } else {
    // EC_DISABLE_PUB_KEY_CHK: only format-level behaviour is promised
    if (!dn.format_ok) {
      label("expected:reject(format)");
      PBT_REQUIRE(!acc, ctx << " ACCEPTS an octet string of no supported form");
    } else if (dn.parity_impossible) {
      label("unasserted(y=0_with_odd_prefix,validation_compiled_out)");
    } else if (dn.noroot) {
      label("expected:reject(no_root)");
      Z xx = dn.P.x;
      if (xx < c.p) PBT_REQUIRE(!acc, ctx << " ACCEPTS a compressed point whose abscissa has no ordinate");
    } else if (dn.has_point && ecref::on_curve(c, dn.P)) {
      label("expected:accept(unvalidated)");
      PBT_REQUIRE(acc, ctx << " REJECTS (rc " << rc << ") an on-curve point although validation is compiled out");
      PBT_REQUIRE(same_point(), ctx << " returns another point: inf=" << inf << " x=" << hex(xb.data(), B) << " y=" << hex(yb.data(), B));
    } else {
      label("unasserted(validation_compiled_out)");
    }
  }
  if (mut == M_PARITY && enc == PK_COMPRESSED && acc) label("compressed:other_root_recovered");
  if (nontriv) nontrivial_cur();
  return Verdict::pass();
}

// ------------------------------------------------------------------ key generation / public key recovery
struct KeyCase {
  int ci = 0, mode = 0, op = 0, compress = 0, form = 0, dpad = 0;
  Bytes rnd;  // logical big-endian octets handed over (length = rnd_size / priv_key_size)
  std::string ser() const {
    Writer w;
    w.i("ci", ci).s("curve", ci < (int)curves().size() ? curves()[ci].c.name : "?").i("mode", mode).i("op", op).i("compress", compress);
    w.i("form", form).i("dpad", dpad).b("rnd", rnd);
    return w.str();
  }
  static KeyCase parse(const std::string &t) {
    Reader r(t);
    KeyCase c;
    c.ci = (int)r.i("ci"); c.mode = (int)r.i("mode"); c.op = (int)r.i("op"); c.compress = (int)r.i("compress");
    c.form = (int)r.i("form"); c.dpad = (int)r.i("dpad"); c.rnd = r.b("rnd");
    return c;
  }
};
void showValue(const KeyCase &c, std::ostream &os) { os << c.ser(); }

static Z scalar_class(int cls, const Z &n, const Z &lim, const Bytes &rb) {
  Z v;
  switch (cls) {
  case 0: v = 1; break;
  case 1: v = 2; break;
  case 2: v = n - 1; break;
  case 3: v = n; break;
  case 4: v = n + 1; break;
  case 5: v = 0; break;
  case 6: v = lim - 1; break;
  case 7: v = 2 * (n - 1); break;
  case 8: v = n + ecref::mod(z_of(rb), lim > n ? Z(lim - n) : Z(1)); break;
  case 9: v = 1 + ecref::mod(z_of(rb), Z(255)); break;
  default: v = ecref::mod(z_of(rb), lim); break;
  }
  return ecref::mod(v, lim);
}
static rc::Gen<KeyCase> genKey() {
  return rc::gen::exec([]() {
    KeyCase c;
    c.ci = pick_curve();
    const Curve &cv = curves()[c.ci].c;
    size_t B = cv.bytes;
    c.op = *range<int>(0, 1);
    c.mode = c.op == 0 ? *rc::gen::weightedElement<int>({{3, ES_BE}, {3, ES_LE}, {1, ES_BN}}) : *range<int>(0, 1);
    c.compress = *range<int>(0, 1);
    c.form = *range<int>(0, 1);  // recover, compress = 0: 0 packed (no y buffer), 1 split
    c.dpad = *range<int>(0, 1);
    Bytes rb = *bytes_len(B), extra = *bytes_len(B);
    Z v = scalar_class(*range<int>(0, 13), cv.n, pow2z(8 * B), rb);
    Bytes win = be(v, B);
    if (c.op == 0) {
      // rnd_size in {B-1 (refused), B, B+1, 2B}; the window the library reads holds v
      size_t RL = *rc::gen::elementOf(std::vector<size_t>{B - 1, B, B, B, B + 1, 2 * B});
      if (c.mode == ES_BN || RL <= B) { c.rnd = win; if (RL < B && c.mode != ES_BN) c.rnd.resize(RL); }
      else {
        Bytes ex(extra.begin(), extra.begin() + (RL - B));
        if (c.mode == ES_LE) { c.rnd = ex; c.rnd.insert(c.rnd.end(), win.begin(), win.end()); }
        else { c.rnd = win; c.rnd.insert(c.rnd.end(), ex.begin(), ex.end()); }
      }
    } else {
      c.rnd = c.dpad ? minimal_be(v) : win;
    }
    return c;
  });
}
static Verdict check_pub(const CurveX &cx, const Pt &Q, int enc, int le, const Out &ox, const Out *oy, size_t sz, const char *what) {
  const Curve &c = cx.c;
  PkBytes ex = pk_encode(c, Q, enc, le);
  PBT_REQUIRE(sz == ex.size, what << ": *pub_key_size=" << sz << " expected " << ex.size);
  PBT_REQUIRE(ox.bytes(ex.x.size()) == ex.x, what << ": public key octets " << hex(ox.bytes(ex.x.size())) << " expected " << hex(ex.x) << " (= d*G by the reference)");
  if (ex.has_y && oy) PBT_REQUIRE(oy->bytes(c.bytes) == ex.y, what << ": y octets " << hex(oy->bytes(c.bytes)) << " expected " << hex(ex.y));
  return Verdict::pass();
}
static Verdict run_key(const KeyCase &kc) {
  if (kc.ci < 0 || kc.ci >= (int)curves().size() || kc.rnd.empty()) return Verdict::pass();
  const CurveX &cx = curves()[kc.ci];
  const Curve &c = cx.c;
  if (!lib_curve(cx)) { label("curve_not_available_in_variant"); return Verdict::pass(); }
  size_t B = c.bytes;
  Z n = c.n, lim = pow2z(8 * B);
  int m = kc.mode;
  bool le = m == ES_LE;
  if (kc.op == 0) {
    // ---------------- ecdsa_key_gen*
    label(std::string("keygen:") + mode_name(m));
    size_t RL = kc.rnd.size();
    Z raw;
    if (m == ES_BN) raw = z_of(kc.rnd);
    else if (RL < B) raw = 0;
    else raw = le ? z_of(kc.rnd.data() + (RL - B), B) : z_of(kc.rnd.data(), B);
    Z d = lib_reduce(raw, n);  // documented mapping (ecdsa.h: "d = (c mod (n - 1)) + 1"; unchanged when c < n)
    In ir(m == ES_BN ? kc.rnd : ord(m, kc.rnd));
    int enc = kc.compress ? PK_COMPRESSED : PK_SPLIT;  // key_gen always wants a y buffer: packed form cannot be requested
    Out op(m == ES_BN ? c.nlen() : B), ox(m == ES_BN ? B : (kc.compress ? B + 1 : B)), oy(m == ES_BN ? B : (kc.compress ? 0 : B));
    size_t ps = ES_SIZE_UNSET, sz = ES_SIZE_UNSET;
    int rc = es_key_gen(cx.idx, m, &ir, kc.compress, &op, &ps, &ox, &oy, &sz);
    GUARD_OK("ecdsa_key_gen");
    PBT_REQUIRE(rc < ES_RC_SHIM, "shim failure rc=" << rc);
    if (m != ES_BN && RL < B) {
      label("keygen:rnd_too_short");
      nontrivial_cur();
      PBT_REQUIRE(rc != 0, "ecdsa_key_gen accepts rnd_size " << RL << " < " << B);
      return Verdict::pass();
    }
    if (raw >= n) { label("keygen:rnd>=n"); nontrivial_cur(); }
    if (RL != B || le || c.h > 1) nontrivial_cur();
    if (d == 0) {
      label("keygen:d=0_must_fail");
      if (rc == 0 && es_info(ES_INFO_FXP) == 0 && known(P_D0)) { excluded(P_D0); return Verdict::pass(); }
      PBT_REQUIRE(rc != 0, "ecdsa_key_gen reports success for rnd = 0 (d = 0, Q = infinity is not a key pair)");
      return Verdict::pass();
    }
    PBT_REQUIRE(rc == 0, "ecdsa_key_gen (" << mode_name(m) << ") failed rc=" << rc << " although rnd maps to d=" << zs(d) << " in [1, n-1]");
    Bytes pb = op.bytes(m == ES_BN ? c.nlen() : B);
    if (le) pb = rev(pb);
    Z dl = z_of(pb);
    PBT_REQUIRE(dl >= 1 && dl < n, "ecdsa_key_gen: private key " << zs(dl) << " outside [1, n-1]");
    PBT_REQUIRE(dl == d, "ecdsa_key_gen: private key " << zs(dl) << " is not the documented mapping of rnd (" << zs(d) << ")");
    Pt Q = ecref::mul(c, dl, ecref::G(c));
    PBT_REQUIRE(ossl_mul_g(cx, dl) == Q, "ORACLE DISAGREEMENT: OpenSSL and reference differ on d*G");
    if (m == ES_BN) {
      PBT_REQUIRE(sz == B, "ecdsa_key_gen: Q = infinity");
      PBT_REQUIRE(z_of(ox.bytes(B)) == Q.x && z_of(oy.bytes(B)) == Q.y, "ecdsa_key_gen: Q != d*G: x=" << hex(ox.bytes(B)) << " y=" << hex(oy.bytes(B)));
    } else {
      PBT_REQUIRE(ps == B, "ecdsa_key_gen: *priv_key_size=" << ps << " expected " << B);
      Verdict v = check_pub(cx, Q, enc, le, ox, std::addressof(oy), sz, "ecdsa_key_gen");
      if (!v.ok) return v;
    }
    label("keygen:ok");
    return Verdict::pass();
  }
  // ---------------- ecdsa_recover_pub_key_from_priv_key_be/le
  label(std::string("recover:") + mode_name(m));
  Z d = z_of(kc.rnd);
  int enc = kc.compress ? PK_COMPRESSED : (kc.form ? PK_SPLIT : PK_PACKED);
  In id(ord(m, kc.rnd));
  Out ox(enc == PK_COMPRESSED ? B + 1 : enc == PK_PACKED ? 2 * B + 1 : B);
  std::unique_ptr<Out> oy(enc == PK_SPLIT ? new Out(B) : new Out());
  size_t sz = ES_SIZE_UNSET;
  int rc = es_recover(cx.idx, le, &id, kc.compress, &ox, &*oy, &sz);
  GUARD_OK("ecdsa_recover_pub_key_from_priv_key");
  nontrivial_cur();
  if (kc.rnd.size() > B) { PBT_REQUIRE(rc != 0, "recover accepts priv_key_size > bytes"); return Verdict::pass(); }
  if (d >= n) { label("recover:d>=n_refused"); PBT_REQUIRE(rc != 0, "ecdsa_recover_pub_key_from_priv_key accepts d >= n"); return Verdict::pass(); }
  if (d == 0 && rc == 0 && es_info(ES_INFO_FXP) == 0 && known(P_D0)) { excluded(P_D0); return Verdict::pass(); }
  if (d == 0) { label("recover:d=0_refused"); PBT_REQUIRE(rc != 0, "ecdsa_recover_pub_key_from_priv_key returns a public key for d = 0"); return Verdict::pass(); }
  PBT_REQUIRE(rc == 0, "ecdsa_recover_pub_key_from_priv_key_" << (le ? "le" : "be") << " failed rc=" << rc << " for d=" << zs(d));
  Pt Q = ecref::mul(c, d, ecref::G(c));
  Verdict v = check_pub(cx, Q, enc, le, ox, oy.get(), sz, "ecdsa_recover_pub_key_from_priv_key");
  if (!v.ok) return v;
  label(std::string("recover:ok:") + enc_name(enc));
  return Verdict::pass();
}

// ------------------------------------------------------------------ Diffie-Hellman
enum Peer { PE_NORMAL = 0, PE_INF, PE_OUTSIDE, PE_SMALL, PE_D_GE_N, PE_D_ZERO, PE_N };
static const char *peer_name(int p) {
  static const char *n[] = {"normal", "peer_infinity", "peer_outside_subgroup", "peer_small_order", "d_ge_n", "d_zero"};
  return (p >= 0 && p < PE_N) ? n[p] : "?";
}
struct DhCase {
  int ci = 0, mode = 0, cof = 0, enc = 0, peer = 0, dpad = 0;
  Bytes da, db;
  std::string ser() const {
    Writer w;
    w.i("ci", ci).s("curve", ci < (int)curves().size() ? curves()[ci].c.name : "?").i("mode", mode).i("cof", cof).i("enc", enc);
    w.i("peer", peer).s("peer_name", peer_name(peer)).i("dpad", dpad).b("da", da).b("db", db);
    return w.str();
  }
  static DhCase parse(const std::string &t) {
    Reader r(t);
    DhCase c;
    c.ci = (int)r.i("ci"); c.mode = (int)r.i("mode"); c.cof = (int)r.i("cof"); c.enc = (int)r.i("enc"); c.peer = (int)r.i("peer");
    c.dpad = (int)r.i("dpad"); c.da = r.b("da"); c.db = r.b("db");
    return c;
  }
};
void showValue(const DhCase &c, std::ostream &os) { os << c.ser(); }
static rc::Gen<DhCase> genDh() {
  return rc::gen::exec([]() {
    DhCase c;
    c.ci = pick_curve();
    const Curve &cv = curves()[c.ci].c;
    size_t B = cv.bytes;
    c.mode = *rc::gen::weightedElement<int>({{3, ES_BE}, {3, ES_LE}, {1, ES_BN}});
    c.cof = *range<int>(0, 1);
    c.enc = *range<int>(0, PK_NENC - 1);
    c.dpad = *range<int>(0, 1);
    {
      std::vector<std::pair<size_t, int>> w = {{10, PE_NORMAL}, {1, PE_INF}, {1, PE_D_GE_N}, {1, PE_D_ZERO}};
      if (has_outside(cv)) { w.push_back({5, PE_OUTSIDE}); w.push_back({3, PE_SMALL}); }
      size_t tot = 0;
      for (auto &e : w) tot += e.first;
      size_t r = *range<size_t>(0, tot - 1);
      for (auto &e : w) { if (r < e.first) { c.peer = e.second; break; } r -= e.first; }
    }
    Z lim = pow2z(8 * B), top = cv.n < lim ? cv.n : lim;
    Bytes r1 = *bytes_len(B), r2 = *bytes_len(B);
    int ca = *range<int>(0, 6), cb = *range<int>(0, 6);
    auto mk = [&](int cls, const Bytes &rb) {
      Z d = cls == 0 ? Z(1) : cls == 1 ? Z(2) : cls == 2 ? Z(top - 1) : Z(1 + ecref::mod(z_of(rb), top - 1));
      return be(d, B);
    };
    c.da = mk(ca, r1); c.db = mk(cb, r2);
    return c;
  });
}
// one ecdsa_dh* call: own private key d, peer point Q in the case's encoding
static int call_dh(const CurveX &cx, const DhCase &dc, const Z &d, const Pt &Q, Bytes &shared, size_t &ss, std::string &guard) {
  const Curve &c = cx.c;
  size_t B = c.bytes;
  int m = dc.mode;
  Bytes dbts = m == ES_BN ? minimal_be(d) : ord(m, dc.dpad ? minimal_be(d) : be(d, B));
  In id(dbts);
  Out os(m == ES_BN ? B : B);
  ss = ES_SIZE_UNSET;
  int rc;
  if (m == ES_BN) {
    In px(Q.inf ? Bytes(1, 0) : be(Q.x, B)), py;
    if (!Q.inf) py = In(be(Q.y, B));
    rc = es_dh(cx.idx, m, dc.cof, &px, &py, 0, &id, &os, &ss);
  } else {
    PkBytes pk = pk_encode(c, Q, dc.enc, m == ES_LE);
    In px(pk.x), py;
    if (pk.has_y) py = In(pk.y);
    rc = es_dh(cx.idx, m, dc.cof, &px, &py, pk.size, &id, &os, &ss);
  }
  const char *g = es_guard();
  guard = g ? g : "";
  shared = os.bytes(B);
  if (m == ES_LE) shared = rev(shared);
  return rc;
}
static Verdict run_dh(const DhCase &dc) {
  if (dc.ci < 0 || dc.ci >= (int)curves().size() || dc.da.empty() || dc.db.empty()) return Verdict::pass();
  const CurveX &cx = curves()[dc.ci];
  const Curve &c = cx.c;
  if (!lib_curve(cx)) { label("curve_not_available_in_variant"); return Verdict::pass(); }
  size_t B = c.bytes;
  Z n = c.n, lim = pow2z(8 * B);
  Z dA = z_of(dc.da), dB = z_of(dc.db);
  if (dA < 1 || dA >= n || dB < 1 || dB >= n) return Verdict::pass();
  int peer = dc.peer;
  if ((peer == PE_OUTSIDE || peer == PE_SMALL) && !has_outside(c)) peer = PE_NORMAL;
  if (peer == PE_D_GE_N && n >= lim && dc.mode != ES_BN) peer = PE_NORMAL;
  label(std::string("dh:") + mode_name(dc.mode) + (dc.cof ? ":cofactor" : ":plain"));
  label(std::string("peer:") + peer_name(peer));
  label(std::string("peer_enc:") + (dc.mode == ES_BN ? "point" : enc_name(dc.enc)));
  Pt g = ecref::G(c), QA = ecref::mul(c, dA, g), QB = ecref::mul(c, dB, g);
  Bytes sh;
  size_t ss;
  std::string guard;
  nontrivial_cur();
  switch (peer) {
  case PE_INF: {
    int rc = call_dh(cx, dc, dA, Pt(), sh, ss, guard);
    PBT_REQUIRE(guard.empty(), "ecdsa_dh: " << guard);
    PBT_REQUIRE(rc != 0, "ecdsa_dh returns a shared secret for the neutral element as peer key");
    return Verdict::pass();
  }
  case PE_D_GE_N: {
    Z d = n + ecref::mod(dA, (dc.mode == ES_BN ? n : Z(lim - n)));
    int rc = call_dh(cx, dc, d, QB, sh, ss, guard);
    PBT_REQUIRE(guard.empty(), "ecdsa_dh: " << guard);
    PBT_REQUIRE(rc != 0, "ecdsa_dh accepts a private key >= n");
    return Verdict::pass();
  }
  case PE_D_ZERO: {
    int rc = call_dh(cx, dc, Z(0), QB, sh, ss, guard);
    PBT_REQUIRE(guard.empty(), "ecdsa_dh: " << guard);
    PBT_REQUIRE(rc != 0, "ecdsa_dh returns a shared secret for d = 0 (product is the neutral element)");
    return Verdict::pass();
  }
  case PE_OUTSIDE: case PE_SMALL: {
    int pc;
    Pt Qx = make_point(cx, peer == PE_OUTSIDE ? PC_OUTSIDE : PC_SMALL, dc.db, pc);
    if (pc == PC_RANDOM) { label("peer:class_not_constructible"); return Verdict::pass(); }
    int rc = call_dh(cx, dc, dA, Qx, sh, ss, guard);
    PBT_REQUIRE(guard.empty(), "ecdsa_dh: " << guard);
    if (!nochk() && dc.mode != ES_BN) {
      // validated import must refuse the peer key
      PBT_REQUIRE(rc != 0, "ecdsa_dh accepts a peer key outside the order-n subgroup although validation is enabled");
      label("dh:invalid_peer_refused");
      return Verdict::pass();
    }
    // no validation (compiled out, or the bn_t level function which takes a point object): SEC 1 3.3.1 / 3.3.2 on the point given
    Z z;
    bool ok = ecref::ecdh(c, dc.cof != 0, dA, Qx, z);
    bool lib_differs_by_design = false;
    if (dc.cof && known(P_DHCOF)) {
      // model of the code: scalar (d*h mod n) applied to Q
      Pt M = ecref::mul(c, ecref::mod(dA * c.h, n), Qx);
      bool mok = !M.inf;
      if (mok != ok || (ok && M.x != z)) { lib_differs_by_design = true; excluded(P_DHCOF); ok = mok; if (mok) z = M.x; }
    }
    (void)lib_differs_by_design;
    if (!ok) { PBT_REQUIRE(rc != 0, "ecdsa_dh returns a secret although the product is the neutral element"); label("dh:product_infinity"); return Verdict::pass(); }
    PBT_REQUIRE(rc == 0, "ecdsa_dh failed rc=" << rc << " for an unvalidated peer point");
    PBT_REQUIRE(z_of(sh) == z, "ecdsa_dh (" << (dc.cof ? "cofactor" : "plain") << ", peer " << peer_name(peer) << "): shared " << hex(sh)
                               << " expected x(" << (dc.cof ? "h*" : "") << "d*Q) = " << zs(z));
    label("dh:unvalidated_peer_agrees_with_reference");
    return Verdict::pass();
  }
  default: break;
  }
  // ---------------- normal: both directions
  Z zA, zB;
  bool okA = ecref::ecdh(c, dc.cof != 0, dA, QB, zA), okB = ecref::ecdh(c, dc.cof != 0, dB, QA, zB);
  PBT_REQUIRE(okA && okB && zA == zB, "harness: reference DH not symmetric");
  Bytes shA, shB;
  size_t ssA, ssB;
  int rcA = call_dh(cx, dc, dA, QB, shA, ssA, guard);
  PBT_REQUIRE(guard.empty(), "ecdsa_dh: " << guard);
  int rcB = call_dh(cx, dc, dB, QA, shB, ssB, guard);
  PBT_REQUIRE(guard.empty(), "ecdsa_dh: " << guard);
  PBT_REQUIRE(rcA == 0 && rcB == 0, "ecdsa_dh (" << mode_name(dc.mode) << ", peer key " << enc_name(dc.enc) << ") failed: rc " << rcA << " / " << rcB
                                                    << " dA=" << zs(dA) << " dB=" << zs(dB));
  PBT_REQUIRE(ssA == B && ssB == B, "ecdsa_dh: *shared_size " << ssA << " / " << ssB << " expected " << B);
  PBT_REQUIRE(shA == shB, "ecdsa_dh is not symmetric: dh(dA, QB)=" << hex(shA) << " dh(dB, QA)=" << hex(shB));
  PBT_REQUIRE(z_of(shA) == zA, "ecdsa_dh: shared " << hex(shA) << " expected " << zs(zA));
  label("dh:ok");
  return Verdict::pass();
}

// ------------------------------------------------------------------ size sweeps of the signature entry points
struct SizeCase {
  int ci = 0, le = 0;
  uint32_t hash_size = 0, priv_size = 0, rnd_size = 0, sign_size = 0;
  Bytes seed;
  std::string ser() const {
    Writer w;
    w.i("ci", ci).s("curve", ci < (int)curves().size() ? curves()[ci].c.name : "?").i("le", le).u("hash_size", hash_size).u("priv_size", priv_size);
    w.u("rnd_size", rnd_size).u("sign_size", sign_size).b("seed", seed);
    return w.str();
  }
  static SizeCase parse(const std::string &t) {
    Reader r(t);
    SizeCase c;
    c.ci = (int)r.i("ci"); c.le = (int)r.i("le"); c.hash_size = (uint32_t)r.u("hash_size"); c.priv_size = (uint32_t)r.u("priv_size");
    c.rnd_size = (uint32_t)r.u("rnd_size"); c.sign_size = (uint32_t)r.u("sign_size"); c.seed = r.b("seed");
    return c;
  }
};
void showValue(const SizeCase &c, std::ostream &os) { os << c.ser(); }
static rc::Gen<SizeCase> genSize() {
  return rc::gen::exec([]() {
    SizeCase c;
    c.ci = *range<int>(0, (int)curves().size() - 1);
    uint32_t B = curves()[c.ci].c.bytes;
    c.le = *range<int>(0, 1);
    c.hash_size = *rc::gen::elementOf(std::vector<uint32_t>{1, 2, B - 1, B, B, B + 1, 2 * B, 20, 64});
    c.priv_size = *rc::gen::elementOf(std::vector<uint32_t>{1, 2, B / 2, B - 1, B, B, B});
    c.rnd_size = *rc::gen::elementOf(std::vector<uint32_t>{c.priv_size, c.priv_size, (c.priv_size + B) / 2, B - 1, B, B, B + 1, 2 * B,
                                                          c.priv_size > 1 ? c.priv_size - 1 : 1});
    c.sign_size = *rc::gen::elementOf(std::vector<uint32_t>{1, B / 2, B - 1, B, B, B, B + 1});
    c.seed = *bytes_len(3 * B);
    return c;
  });
}
static Verdict run_size(const SizeCase &sc) {
  if (sc.ci < 0 || sc.ci >= (int)curves().size()) return Verdict::pass();
  const CurveX &cx = curves()[sc.ci];
  const Curve &c = cx.c;
  if (!lib_curve(cx)) { label("curve_not_available_in_variant"); return Verdict::pass(); }
  size_t B = c.bytes;
  if (sc.seed.size() < 3 * B || sc.hash_size == 0 || sc.priv_size == 0 || sc.priv_size > B || sc.rnd_size == 0 || sc.sign_size == 0 ||
      sc.hash_size > 4 * B || sc.rnd_size > 4 * B || sc.sign_size > 2 * B) return Verdict::pass();
  int m = sc.le ? ES_LE : ES_BE;
  Z n = c.n, lim = pow2z(8 * B);
  // private key of exactly priv_size significant octets at most, in [1, n-1]
  Z dtop = pow2z(8 * sc.priv_size);
  if (dtop > n) dtop = n;
  Z d = 1 + ecref::mod(z_of(sc.seed.data(), B), dtop - 1);
  // hash: when no truncation rule applies (ECDSA: 8*hash_size <= bitlen(n); GOST: hash_size <= bytes) the value is
  // chosen < n, so the message representative is unambiguous and (r, s) is compared with the reference.  Longer
  // hashes are still swept for the memory half, but their value semantics belong to C03 (known findings there).
  size_t hs = sc.hash_size;
  bool value_ok = c.algo == ecref::ALGO_GOST ? hs <= B : 8 * hs <= c.nbits();
  Z e;
  Bytes H;
  if (value_ok) {
    Z htop = pow2z(8 * hs);
    if (htop > n) htop = n;
    e = ecref::mod(z_of(sc.seed.data() + B, B), htop);
    H = be(e, hs);
  } else {
    H.resize(hs);
    for (size_t i = 0; i < hs; i++) H[i] = sc.seed[(B + i) % sc.seed.size()];
  }
  label(value_ok ? "sizes:hash_within_n" : "sizes:hash_longer_than_n(memory_only)");
  // nonce octets; the window the library reads (first / last `bytes` octets) is made non-zero
  size_t RL = sc.rnd_size;
  Bytes N(RL);
  for (size_t i = 0; i < RL; i++) N[i] = sc.seed[(2 * B + i) % sc.seed.size()];
  if (sc.le || RL < B) N[RL - 1] |= 1; else N[B - 1] |= 1;
  In ih(ord(m, H)), id(ord(m, be(d, sc.priv_size))), ik(ord(m, N));
  Out orr(B), os(B);
  size_t ss = ES_SIZE_UNSET;
  label(std::string("sizes:") + (RL < sc.priv_size ? "rnd<priv" : RL < B ? "priv<=rnd<bytes" : RL == B ? "rnd=bytes" : "rnd>bytes"));
  nontrivial_cur();
  bool short_rnd = RL >= sc.priv_size && RL < B;
  if (short_rnd && known(P_RND)) { excluded(P_RND); return Verdict::pass(); }
  int rc = es_sign(cx.idx, m, &ih, &id, &ik, &orr, &os, &ss);
  GUARD_OK("ecdsa_sign_" << (sc.le ? "le" : "be") << " (hash_size " << hs << ", priv_key_size " << sc.priv_size << ", rnd_size " << RL << ")");
  if (RL < sc.priv_size) { PBT_REQUIRE(rc != 0, "ecdsa_sign accepts rnd_size < priv_key_size"); return Verdict::pass(); }
  Z kraw = RL >= B ? (sc.le ? z_of(N.data() + (RL - B), B) : z_of(N.data(), B)) : z_of(N);
  Z k = lib_reduce(kraw, n);
  if (rc != 0) {
    // refusing a short rnd is fine; refusing a full-size one is not (k != 0 by construction)
    PBT_REQUIRE(short_rnd, "ecdsa_sign failed rc=" << rc << " with rnd_size " << RL << " >= bytes");
    label("sizes:short_rnd_refused");
    return Verdict::pass();
  }
  Bytes rb = orr.bytes(B), sb = os.bytes(B);
  if (sc.le) { rb = rev(rb); sb = rev(sb); }
  Z r = z_of(rb), s = z_of(sb), er, es_;
  // the nonce must be a function of the rnd octets handed over: recompute the signature from them
  bool ok = ecref::sign(c, d, e, k, er, es_);
  if (short_rnd && value_ok) {
    if (!ok || er != r || es_ != s)
      return Verdict::fail(std::string("ecdsa_sign_") + (sc.le ? "le" : "be") + " with rnd_size " + std::to_string(RL) + " < bytes " + std::to_string(B) +
                           " (priv_key_size " + std::to_string(sc.priv_size) + ") succeeds with a nonce that is not determined by the rnd octets passed: r=" + zs(r) +
                           " (reads beyond rnd)");
    label("sizes:short_rnd_used_as_is");
  } else if (value_ok) {
    PBT_REQUIRE(ok && er == r && es_ == s, "ecdsa_sign: (r, s) differs from the reference for e < n: r=" << zs(r) << " s=" << zs(s));
  }
  // verify / verify_priv with the requested sign_size (low-order octets), exact-size buffers; verdict by the reference
  size_t W = sc.sign_size;
  Z wl = pow2z(8 * std::min(W, B + 1));
  Z r2 = ecref::mod(r, wl), s2 = ecref::mod(s, wl);
  Bytes rf = be(r2, std::max(W, B + 1)), sf = be(s2, std::max(W, B + 1));
  In ir(ord(m, Bytes(rf.end() - W, rf.end()))), is(ord(m, Bytes(sf.end() - W, sf.end())));
  Pt Q = ecref::mul(c, d, ecref::G(c));
  PkBytes pk = pk_encode(c, Q, (int)(sc.seed[0] % PK_NENC), sc.le);
  In px(pk.x), py;
  if (pk.has_y) py = In(pk.y);
  int v1 = es_verify(cx.idx, m, &ih, &ir, &is, W, &px, &py, pk.size);
  GUARD_OK("ecdsa_verify (sign_size " << W << ")");
  int v2 = es_verify_priv(cx.idx, m, &ih, &ir, &is, W, &id);
  GUARD_OK("ecdsa_verify_priv_key (sign_size " << W << ")");
  label(std::string("sizes:sign_size") + (W < B ? "<bytes" : W == B ? "=bytes" : ">bytes"));
  PBT_REQUIRE((v1 == 0) == (v2 == 0), "ecdsa_verify (rc " << v1 << ") and ecdsa_verify_priv_key (rc " << v2 << ") disagree with sign_size " << W);
  if (W > std::max(B, c.nlen())) {
    PBT_REQUIRE(v1 != 0, "ecdsa_verify accepts sign_size " << W << " > octets of n");
  } else if (W > B) {
    label("sizes:sign_size=octets_of_n(unasserted,C03)");
  } else if (value_ok) {
    bool expect = ecref::verify(c, Q, e, r2, s2);
    PBT_REQUIRE((v1 == 0) == expect, "ecdsa_verify with sign_size " << W << ": rc " << v1 << ", reference says " << expect);
  } else if (W == B) {
    // own signature, same entry point, same octets (extra relation only)
    PBT_REQUIRE(v1 == 0, "ecdsa_verify rejects (rc " << v1 << ") the signature ecdsa_sign just produced for the same octets");
  }
  return Verdict::pass();
}

int main(int argc, char **argv) {
  setup_curves();
  anchors();
  long pct = es_info(ES_INFO_SCALE_PCT);
  auto n = [&](int base) { return (int)std::max<long>(12, base * pct / 100); };
  add_check<CodecCase>("codec", n(1100), 100, []() { return genCodec(); }, run_codec);
  add_check<KeyCase>("keys", n(400), 100, []() { return genKey(); }, run_key);
  add_check<DhCase>("dh", n(300), 100, []() { return genDh(); }, run_dh);
  add_check<SizeCase>("sizes", n(300), 100, []() { return genSize(); }, run_size);
  return driver_main(argc, argv);
}
