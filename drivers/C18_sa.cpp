// C18 -- socket-address text and prefix arithmetic agree with the standard forms.
// rapidcheck driver over shims/sa_shim.c (+ repo:src/net/socket_address.c, utils.c).
//
// Oracles (all independent of the code under test):
//   * refimpl/ip_text.hpp : dotted quad / RFC 5952 text and strict RFC 4291 parsers
//     (anchored at start-up on RFC 5952 examples and on vectors produced by Python's
//     ipaddress module; glibc inet_ntop/inet_pton only as a start-up cross-check)
//   * unsigned __int128 arithmetic for masks, truncation and membership
//   * the struct sockaddr_* layouts of the system headers (the driver builds and
//     decodes the address structures itself)
#include "pbt.hpp"
#include "../shims/sa_abi.h"
#include "ip_text.hpp"
#include <arpa/inet.h>
#include <netinet/in.h>
#include <sys/socket.h>
#include <sys/un.h>
#include <cerrno>

using namespace pbt;
typedef unsigned __int128 u128;

static size_t STRLEN_ADDR = 112;  // STR_ADDR_LEN, read from the shim at start-up

// ------------------------------------------------------------------ address model
struct Addr {
  int fam = 4;  // 4, 6, 1 (AF_UNIX)
  uint8_t a[16] = {0};
  std::string path;
  unsigned port = 0;
};
static bool same_ip(const Addr &x, const Addr &y) {
  if (x.fam != y.fam) return false;
  if (x.fam == 1) return x.path == y.path;
  return memcmp(x.a, y.a, x.fam == 4 ? 4 : 16) == 0;
}
static std::string addr_dbg(const Addr &x) {
  std::ostringstream o;
  if (x.fam == 1) o << "unix(" << x.path << ")";
  else if (x.fam == 4) o << "v4(" << iptext::v4_text(x.a) << ")";
  else o << "v6(" << iptext::v6_hex_canonical(x.a) << ")";
  o << " port " << x.port;
  return o.str();
}
static Bytes build_ss(const Addr &x) {
  Bytes b(SAS_SS_SIZE, 0);
  if (x.fam == 4) {
    struct sockaddr_in s;
    memset(&s, 0, sizeof s);
    s.sin_family = AF_INET;
    s.sin_port = htons((uint16_t)x.port);
    memcpy(&s.sin_addr, x.a, 4);
    memcpy(b.data(), &s, sizeof s);
  } else if (x.fam == 6) {
    struct sockaddr_in6 s;
    memset(&s, 0, sizeof s);
    s.sin6_family = AF_INET6;
    s.sin6_port = htons((uint16_t)x.port);
    memcpy(&s.sin6_addr, x.a, 16);
    memcpy(b.data(), &s, sizeof s);
  } else {
    struct sockaddr_un s;
    memset(&s, 0, sizeof s);
    s.sun_family = AF_UNIX;
    memcpy(s.sun_path, x.path.data(), std::min(x.path.size(), sizeof(s.sun_path) - 1));
    memcpy(b.data(), &s, sizeof s);
  }
  return b;
}
// decode what the library stored; extra_zero = the fields sa_init() documents as zeroed are zero
static bool decode_ss(const Bytes &b, Addr &x, bool &extra_zero) {
  struct sockaddr_storage ss;
  memcpy(&ss, b.data(), sizeof ss);
  extra_zero = true;
  if (ss.ss_family == AF_INET) {
    struct sockaddr_in s;
    memcpy(&s, b.data(), sizeof s);
    x.fam = 4;
    memcpy(x.a, &s.sin_addr, 4);
    x.port = ntohs(s.sin_port);
    return true;
  }
  if (ss.ss_family == AF_INET6) {
    struct sockaddr_in6 s;
    memcpy(&s, b.data(), sizeof s);
    x.fam = 6;
    memcpy(x.a, &s.sin6_addr, 16);
    x.port = ntohs(s.sin6_port);
    extra_zero = (s.sin6_flowinfo == 0 && s.sin6_scope_id == 0);
    return true;
  }
  if (ss.ss_family == AF_UNIX) {
    struct sockaddr_un s;
    memcpy(&s, b.data(), sizeof s);
    x.fam = 1;
    x.path.assign(s.sun_path, strnlen(s.sun_path, sizeof s.sun_path));
    x.port = 0;
    return true;
  }
  return false;
}

static bool is_pow10(unsigned p) { return p == 10 || p == 100 || p == 1000 || p == 10000; }
static std::string port_class(unsigned p) {
  if (p == 0) return "port0";
  if (is_pow10(p)) return "port_pow10";
  if (p == 9 || p == 11 || p == 99 || p == 101 || p == 999 || p == 1001 || p == 9999 || p == 10001) return "port_pow10_nb";
  if (p == 65535) return "port_max";
  return "port_other";
}
// where the compressed zero run sits (RFC 5952 text shape)
static std::string zr_shape(const uint8_t a[16]) {
  unsigned g[8];
  iptext::v6_groups(a, g);
  int s, l;
  iptext::longest_zero_run(g, 8, &s, &l);
  if (l == 0) return "zr_none";
  if (l == 8) return "zr_all";
  if (s == 0) return "zr_start";
  if (s + l == 8) return "zr_end";
  return "zr_mid";
}
// texts the property accepts for to_str
static std::vector<std::string> conventional(const Addr &x, bool with_port) {
  std::vector<std::string> r;
  if (x.fam == 1) {
    r.push_back(x.path);
    return r;
  }
  std::string ps = (with_port && x.port != 0) ? (":" + std::to_string(x.port)) : "";
  if (x.fam == 4) {
    r.push_back(iptext::v4_text(x.a) + ps);
    return r;
  }
  for (auto &t : iptext::v6_conventional(x.a)) r.push_back(with_port ? ("[" + t + "]" + ps) : t);
  return r;
}

// ------------------------------------------------------------------ drawing helpers (inside gen::exec only)
static int pick(int lo, int hi) { return *range<int>(lo, hi); }
template <class T> static T oneof(std::initializer_list<T> l) {
  std::vector<T> v(l);
  return v[(size_t)pick(0, (int)v.size() - 1)];
}
static unsigned drawGroupNZ() {
  int k = pick(0, 11);
  static const unsigned fixed[] = {1, 0xf, 0x10, 0xff, 0x100, 0xfff, 0x1000, 0xffff, 0xdb8, 0x2001};
  if (k < 10) return fixed[k];
  unsigned v = (unsigned)pick(1, 0xffff);
  return v;
}
static void setg(uint8_t a[16], int i, unsigned v) { a[2 * i] = (uint8_t)(v >> 8); a[2 * i + 1] = (uint8_t)v; }
static void drawV6(uint8_t a[16]) {
  int kind = pick(0, 13);
  memset(a, 0, 16);
  switch (kind) {
  case 0: case 1: case 2: case 3: {  // one zero run: start s, length l (0..8-s), everything else non-zero
    int s = pick(0, 7), l = pick(0, 8 - s);
    for (int i = 0; i < 8; i++) setg(a, i, (i >= s && i < s + l) ? 0 : drawGroupNZ());
    break;
  }
  case 4: case 5: {  // two runs (often of equal length)
    int l1 = pick(1, 3), l2 = pick(0, 2) == 0 ? pick(1, 3) : l1;
    int s1 = pick(0, 2), gap = pick(1, 2), s2 = s1 + l1 + gap;
    for (int i = 0; i < 8; i++) setg(a, i, drawGroupNZ());
    for (int i = s1; i < s1 + l1 && i < 8; i++) setg(a, i, 0);
    for (int i = s2; i < s2 + l2 && i < 8; i++) setg(a, i, 0);
    break;
  }
  case 6: {  // IPv4-mapped
    a[10] = a[11] = 0xff;
    for (int i = 12; i < 16; i++) a[i] = (uint8_t)oneof<int>({0, 1, 9, 10, 99, 100, 199, 200, 255, pick(0, 255)});
    break;
  }
  case 7: {  // deprecated IPv4-compatible / tiny values
    int sub = pick(0, 3);
    if (sub == 0) { /* :: */ }
    else if (sub == 1) a[15] = (uint8_t)pick(1, 3);
    else for (int i = 12; i < 16; i++) a[i] = (uint8_t)pick(0, 255);
    break;
  }
  case 8: memset(a, 0xff, 16); break;
  case 9: {  // each group zero with probability 1/2
    for (int i = 0; i < 8; i++) setg(a, i, pick(0, 1) ? 0 : drawGroupNZ());
    break;
  }
  case 10: {  // NAT64 well-known prefix
    setg(a, 0, 0x64); setg(a, 1, 0xff9b);
    for (int i = 12; i < 16; i++) a[i] = (uint8_t)pick(0, 255);
    break;
  }
  case 11: {  // link-local / multicast style
    setg(a, 0, oneof<unsigned>({0xfe80, 0xff02, 0xff05, 0x2001}));
    setg(a, 7, drawGroupNZ());
    if (pick(0, 1)) setg(a, 6, drawGroupNZ());
    break;
  }
  default:
    for (int i = 0; i < 16; i++) a[i] = (uint8_t)pick(0, 255);
  }
}
static void drawV4(uint8_t a[4]) {
  bool boundary = pick(0, 2) != 0;
  for (int i = 0; i < 4; i++)
    a[i] = boundary ? (uint8_t)oneof<int>({0, 1, 9, 10, 99, 100, 199, 200, 255}) : (uint8_t)pick(0, 255);
}
static unsigned drawPort() {
  int k = pick(0, 9);
  if (k <= 1) return 0;
  if (k <= 6) return oneof<unsigned>({1, 9, 10, 11, 99, 100, 101, 999, 1000, 1001, 9999, 10000, 10001, 65535, 80, 443, 8080, 65534});
  return (unsigned)pick(1, 65535);
}
// AF_UNIX path: starts with '/' or '.', 1..107 bytes, file-name characters; colon = 1 => one ':' inside
static std::string drawPath(bool allow_colon) {
  static const char cs[] = "abcdefghijklmnopqrstuvwxyzABCDEFGHIJKLMNOPQRSTUVWXYZ0123456789._-//";
  int lk = pick(0, 9);
  int len = lk == 0 ? 1 : lk == 1 ? 107 : lk == 2 ? 106 : lk < 6 ? pick(2, 20) : pick(2, 107);
  std::string p;
  p.push_back(pick(0, 3) == 0 ? '.' : '/');
  while ((int)p.size() < len) p.push_back(cs[pick(0, (int)sizeof(cs) - 2)]);
  if (allow_colon && len >= 3 && pick(0, 7) == 0) p[(size_t)pick(1, len - 1)] = ':';
  // the parsers document that trailing blanks and ']' are trimmed: a path never ends with one here
  return p;
}
static Addr drawAddr(int famsel /*0 any, 46 ip only*/, bool allow_colon_path) {
  Addr x;
  int k = pick(0, 9);
  if (famsel == 46 && k >= 8) k = pick(0, 7);
  if (k < 3) { x.fam = 4; drawV4(x.a); }
  else if (k < 8) { x.fam = 6; drawV6(x.a); }
  else { x.fam = 1; x.path = drawPath(allow_colon_path); }
  x.port = x.fam == 1 ? 0 : drawPort();
  return x;
}

// ------------------------------------------------------------------ check "fmt": to_str + round trip
struct FmtCase {
  Addr x;
  int with_port = 0, pass_sr = 1;
  unsigned cap = 0;
  std::string ser() const {
    Writer w;
    w.i("fam", x.fam).b("addr", Bytes(x.a, x.a + 16)).s("path", x.path).u("port", x.port);
    w.i("with_port", with_port).i("pass_sr", pass_sr).u("cap", cap);
    return w.str();
  }
  static FmtCase parse(const std::string &t) {
    Reader r(t);
    FmtCase c;
    c.x.fam = (int)r.i("fam", 4);
    Bytes a = r.b("addr");
    a.resize(16, 0);
    memcpy(c.x.a, a.data(), 16);
    c.x.path = r.s("path");
    c.x.port = (unsigned)r.u("port") & 0xffff;
    c.with_port = (int)r.i("with_port");
    c.pass_sr = (int)r.i("pass_sr", 1);
    c.cap = (unsigned)std::min<unsigned long long>(r.u("cap"), SAS_CAP_MAX);
    return c;
  }
};
void showValue(const FmtCase &c, std::ostream &os) { os << c.ser(); }

static rc::Gen<FmtCase> genFmt() {
  return rc::gen::exec([]() {
    FmtCase c;
    c.x = drawAddr(0, true);
    c.with_port = pick(0, 2) != 0;
    c.pass_sr = pick(0, 3) != 0;
    size_t need = conventional(c.x, c.with_port)[0].size() + 1;
    int k = pick(0, 15);
    switch (k) {
    case 0: c.cap = 0; break;
    case 1: c.cap = 1; break;
    case 2: c.cap = 2; break;
    case 3: c.cap = 3; break;
    case 4: c.cap = (unsigned)(need >= 2 ? need - 2 : 0); break;
    case 5: case 6: c.cap = (unsigned)(need - 1); break;
    case 7: case 8: c.cap = (unsigned)need; break;
    case 9: c.cap = (unsigned)(need + 1); break;
    case 10: c.cap = (unsigned)pick(0, (int)need + 1); break;
    case 11: c.cap = (unsigned)(need + (unsigned)pick(2, 10)); break;
    default: c.cap = (unsigned)STRLEN_ADDR;
    }
    if (c.cap > SAS_CAP_MAX) c.cap = SAS_CAP_MAX;
    return c;
  });
}

static Verdict run_fmt(const FmtCase &c) {
  const Addr &x = c.x;
  PBT_REQUIRE(x.fam == 4 || x.fam == 6 || x.fam == 1, "bad case: family");
  PBT_REQUIRE(x.fam != 1 || (!x.path.empty() && x.path.size() <= 107), "bad case: path length");
  std::vector<std::string> ok = conventional(x, c.with_port != 0);
  size_t need_min = ok[0].size() + 1, need_max = need_min;
  for (auto &t : ok) { need_min = std::min(need_min, t.size() + 1); need_max = std::max(need_max, t.size() + 1); }
  const char *fn = c.with_port ? "sa_addr_port_to_str" : "sa_addr_to_str";
  std::string fl = x.fam == 4 ? "v4" : x.fam == 6 ? "v6" : "unix";
  label(fl + (c.with_port ? "+port_fn" : "+addr_fn"));
  if (x.fam != 1 && c.with_port) label(port_class(x.port));
  if (x.fam == 6) label(zr_shape(x.a));
  if (x.fam == 6 && iptext::v6_embedded_v4_kind(x.a)) label("v6_embedded_v4");
  std::string capl = c.cap == 0 ? "cap0" : c.cap + 1 < need_min ? "cap<need-1" : c.cap + 1 == need_min ? "cap=need-1"
                     : c.cap == need_min ? "cap=need" : c.cap == need_min + 1 ? "cap=need+1" : c.cap >= STRLEN_ADDR ? "cap=STR_ADDR_LEN" : "cap>need+1";
  label(capl);
  bool v6port = (x.fam == 6 && c.with_port);
  if (v6port || (c.with_port && x.fam != 1 && is_pow10(x.port)) || (x.fam == 6 && (zr_shape(x.a) == "zr_start" || zr_shape(x.a) == "zr_end")) ||
      c.cap == need_min || c.cap + 1 == need_min)
    nontrivial_cur();

  // known class: AF_INET6 + port function + 1-byte buffer (buf_size - 2 wraps around)
  if (v6port && c.cap == 1 && known("sa_v6_port_bufsize1_underflow")) {
    excluded("sa_v6_port_bufsize1_underflow");
    return Verdict::pass();
  }
  Bytes ss = build_ss(x);
  sas_out o;
  sas_to_str(c.with_port, ss.data(), c.cap, c.pass_sr, &o);
  PBT_REQUIRE(o.rc > -1000, "harness: shim refused cap " << c.cap);
  PBT_REQUIRE(o.guard_ok, fn << "(" << addr_dbg(x) << ", buf_size=" << c.cap << ") wrote outside the buffer, first damaged byte at offset "
                             << o.bad_off << " (rc=" << o.rc << ")");
  // known defects that make the produced text shorter than the conventional one
  bool ex_bracket = v6port && known("sa_v6_port_bracket_overwrite");
  bool ex_pow10 = c.with_port && x.fam != 1 && is_pow10(x.port) && known("sa_port_pow10_digit_count");
  size_t need_lo = need_min - (ex_bracket ? 1 : 0) - (ex_pow10 ? 1 : 0);
  if (c.cap < need_lo) PBT_REQUIRE(o.rc != 0, fn << "(" << addr_dbg(x) << ") returned 0 with buf_size=" << c.cap << " < " << need_lo << " needed");
  if (c.cap >= STRLEN_ADDR)
    PBT_REQUIRE(o.rc == 0, fn << "(" << addr_dbg(x) << ") failed with rc=" << o.rc << " although buf_size=STR_ADDR_LEN=" << c.cap);
  if (o.rc != 0) {
    label(std::string("refused:") + (o.rc == ENOSPC ? "ENOSPC" : o.rc == EINVAL ? "EINVAL" : "other"));
    if (c.cap >= need_max) label("conservative_refusal(cap>=need)");
    return Verdict::pass();
  }
  label("formatted");
  size_t n = strnlen(o.text, c.cap);
  PBT_REQUIRE(n < c.cap, fn << "(" << addr_dbg(x) << ", buf_size=" << c.cap << ") returned 0 but the text is not NUL-terminated inside the buffer");
  std::string s(o.text, n);
  if (c.pass_sr)
    PBT_REQUIRE(o.size_ret == n, fn << "(" << addr_dbg(x) << ") reported size " << o.size_ret << " but wrote \"" << s << "\" (" << n << " chars)");
  if (ex_bracket) excluded("sa_v6_port_bracket_overwrite");
  if (ex_pow10) excluded("sa_port_pow10_digit_count");
  if (ex_bracket || ex_pow10) return Verdict::pass();
  bool found = false;
  for (auto &t : ok) found = found || (t == s);
  PBT_REQUIRE(found, fn << "(" << addr_dbg(x) << ") produced \"" << s << "\", conventional form is \"" << ok[0] << "\"" << (ok.size() > 1 ? " (or \"" + ok[1] + "\")" : ""));
  if (x.fam == 6 && s != ok[0]) label("v6_mixed_notation_output");
  // round trip through the matching parser
  if (x.fam == 1 && c.with_port && x.path.rfind(':') != std::string::npos && x.path[x.path.rfind(':') - 1] != ':' &&
      known("sa_unix_path_colon_split")) {
    excluded("sa_unix_path_colon_split");
    return Verdict::pass();
  }
  Bytes back(SAS_SS_SIZE);
  int rc = sas_from_str(c.with_port, s.data(), s.size(), back.data());
  const char *pf = c.with_port ? "sa_addr_port_from_str" : "sa_addr_from_str";
  PBT_REQUIRE(rc == 0, pf << "(\"" << s << "\") = " << rc << ": the text produced for " << addr_dbg(x) << " does not parse back");
  Addr y;
  bool ez;
  PBT_REQUIRE(decode_ss(back, y, ez), pf << "(\"" << s << "\") stored an unknown family");
  unsigned want_port = (c.with_port && x.fam != 1) ? x.port : 0;
  PBT_REQUIRE(same_ip(x, y) && y.port == want_port, "round trip of " << addr_dbg(x) << " through \"" << s << "\" gives " << addr_dbg(y));
  PBT_REQUIRE(ez, pf << "(\"" << s << "\") left non-zero flowinfo/scope");
  return Verdict::pass();
}

// ------------------------------------------------------------------ reference "documented readings" of parser input
struct Reading { Addr x; bool unspec = false; int preflen = -1; };
static std::string trim_ws(const std::string &s) {
  size_t b = 0, e = s.size();
  while (b < e && (s[b] == ' ' || s[b] == '\t')) b++;
  while (e > b && (s[e - 1] == ' ' || s[e - 1] == '\t')) e--;
  return s.substr(b, e - b);
}
static bool tok_ip(const std::string &t, Reading &r) {
  uint8_t a[16] = {0};
  iptext::Cls c = iptext::parse_v4(t, a);
  if (c != iptext::INVALID) { r.x.fam = 4; memcpy(r.x.a, a, 16); r.unspec = (c == iptext::UNSPEC); return true; }
  c = iptext::parse_v6(t, a);
  if (c != iptext::INVALID) { r.x.fam = 6; memcpy(r.x.a, a, 16); r.unspec = (c == iptext::UNSPEC); return true; }
  return false;
}
// forms of one address without port: token | [ v6 ] (blanks tolerated around the token), unix path
static void readings_addr(const std::string &text, bool allow_unix, std::vector<Reading> &out) {
  std::string t = trim_ws(text);
  Reading r;
  if (t.size() >= 2 && t.front() == '[' && t.back() == ']') {
    std::string in = trim_ws(t.substr(1, t.size() - 2));
    if (tok_ip(in, r) && r.x.fam == 6) out.push_back(r);
    return;
  }
  if (tok_ip(t, r)) { out.push_back(r); return; }
  if (allow_unix && !t.empty() && (t[0] == '/' || t[0] == '.') && t.size() <= 107) {
    r.x.fam = 1;
    r.x.path = t;
    out.push_back(r);
  }
}
static std::vector<Reading> readings(int fn, const std::string &text) {
  std::vector<Reading> out;
  if (fn == 0) {
    readings_addr(text, true, out);
  } else if (fn == 1) {
    readings_addr(text, true, out);  // no port
    std::string t = trim_ws(text);
    size_t p = t.rfind(':');
    if (p != std::string::npos && p > 0) {
      std::string ps = t.substr(p + 1), head = t.substr(0, p);
      std::vector<Reading> h;
      readings_addr(head, false, h);
      for (auto &r : h) {
        bool digits = !ps.empty() && ps.size() <= 5;
        unsigned long v = 0;
        for (char ch : ps) { if (!iptext::isdig(ch)) digits = false; else v = v * 10 + (unsigned long)(ch - '0'); }
        if (digits && v <= 65535 && !(ps.size() > 1 && ps[0] == '0')) r.x.port = (unsigned)v;
        else r.unspec = true;  // port spellings the comments do not define
        out.push_back(r);
      }
    }
  } else {
    size_t p = text.rfind('/');
    std::string head = p == std::string::npos ? text : text.substr(0, p);
    std::vector<Reading> h;
    readings_addr(head, false, h);
    for (auto &r : h) {
      if (p == std::string::npos) r.preflen = r.x.fam == 4 ? 32 : 128;
      else {
        std::string ls = text.substr(p + 1);
        bool digits = !ls.empty() && ls.size() <= 3;
        unsigned v = 0;
        for (char ch : ls) { if (!iptext::isdig(ch)) digits = false; else v = v * 10 + (unsigned)(ch - '0'); }
        if (digits && v <= (r.x.fam == 4 ? 32u : 128u) && !(ls.size() > 1 && ls[0] == '0')) r.preflen = (int)v;
        else r.unspec = true;
      }
      out.push_back(r);
    }
  }
  return out;
}

// ------------------------------------------------------------------ check "parse"
struct ParseCase {
  int fn = 0;      // 0 sa_addr_from_str, 1 sa_addr_port_from_str, 2 str_net_to_ss
  int expect = 2;  // 1 accept (value given), 0 reject, 2 probe (label only)
  std::string text, klass;
  Addr x;
  int preflen = -1;
  std::string ser() const {
    Writer w;
    w.i("fn", fn).i("expect", expect).s("text", text).s("klass", klass);
    w.i("fam", x.fam).b("addr", Bytes(x.a, x.a + 16)).s("path", x.path).u("port", x.port).i("preflen", preflen);
    return w.str();
  }
  static ParseCase parse(const std::string &t) {
    Reader r(t);
    ParseCase c;
    c.fn = (int)r.i("fn");
    c.expect = (int)r.i("expect", 2);
    c.text = r.s("text");
    c.klass = r.s("klass");
    c.x.fam = (int)r.i("fam", 4);
    Bytes a = r.b("addr");
    a.resize(16, 0);
    memcpy(c.x.a, a.data(), 16);
    c.x.path = r.s("path");
    c.x.port = (unsigned)r.u("port") & 0xffff;
    c.preflen = (int)r.i("preflen", -1);
    return c;
  }
};
void showValue(const ParseCase &c, std::ostream &os) { os << c.ser(); }

// spellings of an IPv6 address that RFC 4291 section 2.2 defines
static std::string v6_spell(const uint8_t a[16], int variant, int sel) {
  unsigned g[8];
  iptext::v6_groups(a, g);
  char b[16];
  std::string s;
  switch (variant) {
  case 0: return iptext::v6_hex_canonical(a);
  case 1: return iptext::v6_mixed(a);
  case 2: {
    s = iptext::v6_hex_canonical(a);
    for (auto &ch : s) if (ch >= 'a' && ch <= 'f') ch = (char)(ch - 32);
    return s;
  }
  case 3: case 4: case 6:
    for (int i = 0; i < (variant == 6 ? 6 : 8); i++) {
      snprintf(b, sizeof b, variant == 4 ? "%04x" : "%x", g[i]);
      if (i) s += ":";
      s += b;
    }
    if (variant == 6) s += ":" + iptext::v4_text(a + 12);
    return s;
  default: {  // compress another zero run (any length >= 1) than the canonical one
    std::vector<std::pair<int, int>> runs;
    for (int i = 0; i < 8;) {
      if (g[i]) { i++; continue; }
      int j = i;
      while (j < 8 && !g[j]) j++;
      runs.push_back({i, j - i});
      i = j;
    }
    if (runs.empty()) return iptext::v6_hex_canonical(a);
    auto rn = runs[(size_t)sel % runs.size()];
    // optionally compress only a part of the run
    bool sep = false;
    for (int i = 0; i < 8;) {
      if (i == rn.first) { s += "::"; sep = false; i += rn.second; continue; }
      if (sep) s += ":";
      s += iptext::hexgroup(g[i]);
      sep = true;
      i++;
    }
    return s;
  }
  }
}
static std::string drawWs() { return oneof<std::string>({"", "", "", "", " ", "\t", "  ", " \t", "\t \t"}); }

static std::string drawInvalidToken(std::string &klass) {
  int k = pick(0, 13);
  uint8_t a[16];
  switch (k) {
  case 0: klass = "r_word"; return oneof<std::string>({"hello", "localhost", "example.com", "zz", "g", "x1.2.3.4", "www.example.org", "nohost:"});
  case 1: {
    klass = "r_v4_octet";
    drawV4(a);
    unsigned o[4] = {a[0], a[1], a[2], a[3]};
    o[pick(0, 3)] = (unsigned)oneof<int>({256, 260, 300, 999, pick(256, 999)});
    return std::to_string(o[0]) + "." + std::to_string(o[1]) + "." + std::to_string(o[2]) + "." + std::to_string(o[3]);
  }
  case 2: klass = "r_v4_3octets"; drawV4(a); return std::to_string(a[0]) + "." + std::to_string(a[1]) + "." + std::to_string(a[2]);
  case 3: klass = "r_v4_5octets"; drawV4(a); return iptext::v4_text(a) + "." + std::to_string(pick(0, 255));
  case 4: klass = "r_v4_trailing"; drawV4(a); return iptext::v4_text(a) + oneof<std::string>({"x", "zz", ".", "..", "a", "-1", "/"});
  case 5: klass = "r_v4_empty_octet"; drawV4(a); return std::to_string(a[0]) + ".." + std::to_string(a[2]) + "." + std::to_string(a[3]);
  case 6: {
    klass = "r_v6_9groups";
    std::string s;
    for (int i = 0; i < 9; i++) s += (i ? ":" : "") + iptext::hexgroup(drawGroupNZ());
    return s + "x";  // trailing letter: not readable as v6:port either
  }
  case 7: klass = "r_v6_two_dcolon"; return iptext::hexgroup(drawGroupNZ()) + "::" + iptext::hexgroup(drawGroupNZ()) + "::" + iptext::hexgroup(drawGroupNZ());
  case 8: klass = "r_v6_5hex"; return oneof<std::string>({"12345::1", "::fffff", "1:2:3:4:5:6:7:10000", "2001:db8::12345:1"}) + (pick(0, 1) ? "" : "g");
  case 9: klass = "r_v6_3colon"; return oneof<std::string>({":::", "1:::2", "2001:db8:::1", ":::1"});
  case 10: klass = "r_v6_badhex"; return oneof<std::string>({"::g", "2001:db8::zz", "fe80::1%eth0", "1:2:3:4:5:6:7:g", "::ffff:1.2.3", "::1.2.3.4.5", "1.2.3.4::"});
  case 11: klass = "r_v6_7groups"; return "1:2:3:4:5:6:" + oneof<std::string>({"g7", "7x", "+7"});
  case 12: {
    klass = "r_too_long";
    std::string s;
    int n = pick(112, 200);
    for (int i = 0; i < n; i++) s.push_back("0123456789abcdef:"[pick(0, 16)]);
    if (s[0] == '.' || s[0] == '/') s[0] = '1';
    return s;
  }
  default: klass = "r_punct"; return oneof<std::string>({"-", "+", "=", "@", "*", "1", "12", "::ffff:", ":", ":1", "1:"});
  }
}

static rc::Gen<ParseCase> genParse() {
  return rc::gen::exec([]() {
    ParseCase c;
    c.fn = oneof<int>({0, 0, 1, 1, 1, 2});
    int mode = pick(0, 19);  // 0..10 accept, 11..16 reject, 17..19 probe
    if (mode <= 10) {
      c.expect = 1;
      c.x = drawAddr(c.fn == 2 ? 46 : 0, true);
      std::string tok;
      if (c.x.fam == 4) tok = iptext::v4_text(c.x.a);
      else if (c.x.fam == 1) tok = c.x.path;
      else {
        int var = oneof<int>({0, 0, 0, 1, 2, 3, 4, 5, 5, 6});
        tok = v6_spell(c.x.a, var, pick(0, 7));
        c.klass = "v6_spelling_" + std::to_string(var);
      }
      std::string w1 = drawWs(), w2 = drawWs(), w3 = drawWs(), w4 = drawWs();
      bool br = c.x.fam == 6 && pick(0, 1);
      if (c.fn == 0) {
        c.x.port = 0;
        c.text = br ? (w1 + "[" + w2 + tok + w3 + "]" + w4) : (w1 + tok + w4);
        c.klass += c.x.fam == 6 ? (br ? " a:[v6]" : " a:v6") : c.x.fam == 4 ? " a:v4" : " a:unix";
      } else if (c.fn == 1) {
        bool with_port = c.x.fam != 1 && pick(0, 3) != 0;
        if (!with_port) c.x.port = 0;
        std::string ps = ":" + std::to_string(c.x.port);
        if (c.x.fam == 4) {
          c.text = with_port ? (w1 + tok + w3 + ps) : (w1 + tok + w4);
          c.klass += with_port ? " p:v4:port" : " p:v4";
        } else if (c.x.fam == 1) {
          c.text = w1 + tok + w4;
          c.klass += " p:unix";
        } else if (br) {
          c.text = with_port ? (w1 + "[" + w2 + tok + w3 + "]" + ps) : (w1 + "[" + w2 + tok + w3 + "]" + w4);
          c.klass += with_port ? " p:[v6]:port" : " p:[v6]";
        } else if (with_port) {
          // "2001:4f8:fff6::28:1234 - wrong, but work": defined when the address text does not end in ':'
          c.text = w1 + tok + ps;
          c.klass += " p:v6:port(bare)";
          if (tok.back() == ':') { c.expect = 2; c.klass = "probe bare v6 ending '::' + :port"; }
        } else {
          // bare IPv6 without port (in-tree: "FF02::C"): unambiguous only when the last ':' belongs to a "::"
          c.text = w1 + tok + w4;
          size_t p = tok.rfind(':');
          c.klass += " p:v6(bare,no port)";
          if (!(p != std::string::npos && p > 0 && tok[p - 1] == ':')) { c.expect = 2; c.klass = "probe bare v6, single last colon, no port"; }
        }
      } else {
        c.x.port = 0;
        int maxl = c.x.fam == 4 ? 32 : 128;
        bool with_len = pick(0, 4) != 0;
        c.preflen = with_len ? oneof<int>({0, 1, 7, 8, 9, maxl - 1, maxl, pick(0, maxl), pick(0, maxl)}) : maxl;
        std::string ls = with_len ? ("/" + std::to_string(c.preflen)) : "";
        c.text = (br ? ("[" + tok + "]") : tok) + ls;
        c.klass += c.x.fam == 4 ? " n:v4" : (br ? " n:[v6]" : " n:v6");
        c.klass += with_len ? "/len" : "";
      }
    } else if (mode <= 16) {
      c.expect = 0;
      int k = pick(0, 9);
      if (k == 0) { c.text = ""; c.klass = "r_empty"; }
      else if (k == 1) { c.text = oneof<std::string>({" ", "\t", "   ", "[]", "[ ]", " [] ", "[", "]", "[]:80", " \t "}); c.klass = "r_blank_or_brackets"; }
      else {
        std::string tok = drawInvalidToken(c.klass);
        int wrap = pick(0, 5);
        if (c.fn == 2) c.text = tok + (pick(0, 1) ? "/8" : "");
        else if (wrap == 0) c.text = drawWs() + tok + drawWs();
        else if (wrap == 1) c.text = "[" + tok + "]";
        else if (wrap == 2 && c.fn == 1) c.text = tok + ":" + std::to_string(drawPort());
        else if (wrap == 3 && c.fn == 1) c.text = "[" + tok + "]:" + std::to_string(drawPort());
        else c.text = tok;
      }
      // a string is in the reject set only if no documented reading accepts it
      std::string t = trim_ws(c.text);
      size_t b = 0;
      while (b < t.size() && (t[b] == '[' || t[b] == ' ' || t[b] == '\t')) b++;
      bool pathlike = b < t.size() && (t[b] == '/' || t[b] == '.');
      if (!readings(c.fn, c.text).empty() || pathlike) { c.expect = 2; c.klass = "probe(" + c.klass + ") has a documented reading"; }
    } else {
      c.expect = 2;
      Addr x = drawAddr(46, false);
      std::string tok = x.fam == 4 ? iptext::v4_text(x.a) : iptext::v6_hex_canonical(x.a);
      std::string btok = x.fam == 6 ? "[" + tok + "]" : tok;
      int k = pick(0, 7);
      c.fn = k == 7 ? 2 : 1;
      switch (k) {
      case 0: c.text = btok + ":" + std::to_string(pick(65536, 99999)); c.klass = "probe port > 65535"; break;
      case 1: c.text = btok + ":" + oneof<std::string>({"8o", "http", "+80", "-1", " 80", "80 ", "0x50"}); c.klass = "probe non-digits in port"; break;
      case 2: c.text = btok + oneof<std::string>({"x", " junk", "]"}) + ":80"; c.klass = "probe garbage between address and ':'"; break;
      case 3: c.text = btok + ":"; c.klass = "probe empty port"; break;
      case 4: c.text = btok + ":0" + std::to_string(pick(1, 999)); c.klass = "probe port with leading zero"; break;
      case 5: c.text = "[" + tok; c.klass = "probe unbalanced '['"; break;
      case 6: c.text = (x.fam == 4 ? "0" + tok : "0" + tok); c.klass = "probe leading zero"; break;
      default: c.text = btok + "/" + std::to_string(pick(129, 999)); c.klass = "probe prefix length out of range"; break;
      }
    }
    return c;
  });
}

static Verdict run_parse(const ParseCase &c) {
  static const char *fns[] = {"sa_addr_from_str", "sa_addr_port_from_str", "str_net_to_ss"};
  PBT_REQUIRE(c.fn >= 0 && c.fn <= 2, "bad case: fn");
  const char *fn = fns[c.fn];
  std::string shown = json_escape(c.text);
  // harness self-check: the expectation must agree with the independent reading of the documented spellings
  if (c.expect != 2) {
    std::vector<Reading> rd = readings(c.fn, c.text);
    if (c.expect == 0) PBT_REQUIRE(rd.empty(), "harness: reject case \"" << shown << "\" has a documented reading");
    else {
      bool hit = false;
      for (auto &r : rd) hit = hit || (!r.unspec && same_ip(r.x, c.x) && r.x.port == c.x.port && (c.fn != 2 || r.preflen == c.preflen));
      PBT_REQUIRE(hit, "harness: accept case \"" << shown << "\" is not a documented spelling of " << addr_dbg(c.x));
    }
  }
  Bytes ss(SAS_SS_SIZE);
  uint16_t pl = 0xEEEE;
  int rc = c.fn == 2 ? sas_str_net(c.text.data(), c.text.size(), ss.data(), &pl) : sas_from_str(c.fn, c.text.data(), c.text.size(), ss.data());
  PBT_REQUIRE(rc > -1000, "harness: allocation failed");
  std::string kl = c.klass.empty() ? "unlabelled" : c.klass;
  if (c.expect == 2) {
    label(std::string(fn) + " " + kl + (rc == 0 ? " -> accepted" : " -> rejected"));
    return Verdict::pass();
  }
  if (c.expect == 0) {
    label(std::string("reject ") + kl);
    if (c.text.empty() || kl == "r_too_long" || kl == "r_v6_two_dcolon" || kl == "r_v6_9groups") nontrivial_cur();
    PBT_REQUIRE(rc != 0, fn << "(\"" << shown << "\") returned 0: no documented spelling matches this text");
    return Verdict::pass();
  }
  {
    size_t sp = kl.find(' ');
    if (kl.compare(0, 12, "v6_spelling_") == 0 && sp != std::string::npos) {
      static const char *names[] = {"rfc5952", "mixed", "upper", "full", "full_padded", "other_run_compressed", "full_mixed"};
      int v = kl[12] - '0';
      label(std::string("accept v6 spelling: ") + ((v >= 0 && v <= 6) ? names[v] : "?"));
    }
    label("accept form" + (sp == std::string::npos ? " " + kl : kl.substr(sp)));
  }
  if (c.x.fam == 6 || c.text != trim_ws(c.text)) nontrivial_cur();
  if (c.fn == 1 && c.x.fam == 1) {
    size_t p = c.x.path.rfind(':');
    if (p != std::string::npos && c.x.path[p - 1] != ':' && known("sa_unix_path_colon_split")) {
      excluded("sa_unix_path_colon_split");
      return Verdict::pass();
    }
  }
  PBT_REQUIRE(rc == 0, fn << "(\"" << shown << "\") = " << rc << ", expected " << addr_dbg(c.x));
  Addr y;
  bool ez;
  PBT_REQUIRE(decode_ss(ss, y, ez), fn << "(\"" << shown << "\") stored an unknown family");
  PBT_REQUIRE(same_ip(c.x, y) && y.port == c.x.port, fn << "(\"" << shown << "\") gives " << addr_dbg(y) << ", expected " << addr_dbg(c.x));
  PBT_REQUIRE(ez, fn << "(\"" << shown << "\") left non-zero flowinfo/scope");
  if (c.fn == 2) PBT_REQUIRE((int)pl == c.preflen, fn << "(\"" << shown << "\") prefix length " << pl << ", expected " << c.preflen);
  return Verdict::pass();
}

// ------------------------------------------------------------------ check "prefix": masks, truncation, membership
static u128 to128(const uint8_t *a, int n) {
  u128 v = 0;
  for (int i = 0; i < n; i++) v = (v << 8) | a[i];
  return v;
}
static void from128(u128 v, uint8_t *a, int n) {
  for (int i = n - 1; i >= 0; i--) { a[i] = (uint8_t)v; v >>= 8; }
}
static u128 int_mask(int bits, int len) {  // len high bits set in a bits-wide word
  if (len <= 0) return 0;
  u128 all = bits == 128 ? ~(u128)0 : (((u128)1 << bits) - 1);
  if (len >= bits) return all;
  return all & ~((((u128)1) << (bits - len)) - 1);
}
struct PfxCase {
  int op = 0, fam = 4;
  unsigned len = 0;
  Bytes addr, net, mask;  // 16 bytes each (first 4 used for IPv4)
  unsigned port = 0;
  std::string ser() const {
    Writer w;
    w.i("op", op).i("fam", fam).u("len", len).b("addr", addr).b("net", net).b("mask", mask).u("port", port);
    return w.str();
  }
  static PfxCase parse(const std::string &t) {
    Reader r(t);
    PfxCase c;
    c.op = (int)r.i("op");
    c.fam = (int)r.i("fam", 4);
    c.len = (unsigned)r.u("len");
    c.addr = r.b("addr"); c.net = r.b("net"); c.mask = r.b("mask");
    c.addr.resize(16, 0); c.net.resize(16, 0); c.mask.resize(16, 0);
    c.port = (unsigned)r.u("port") & 0xffff;
    return c;
  }
};
void showValue(const PfxCase &c, std::ostream &os) { os << c.ser(); }

static rc::Gen<PfxCase> genPfx() {
  return rc::gen::exec([]() {
    PfxCase c;
    c.op = pick(0, 4);
    c.fam = pick(0, 2) == 0 ? 4 : 6;
    int bits = c.fam == 4 ? 32 : 128, n = bits / 8;
    c.addr.assign(16, 0); c.net.assign(16, 0); c.mask.assign(16, 0);
    if (c.fam == 4) drawV4(c.addr.data()); else drawV6(c.addr.data());
    if (pick(0, 3) == 0) for (int i = 0; i < n; i++) c.addr[i] = (uint8_t)pick(0, 255);
    int lk = pick(0, 9);
    c.len = lk == 0 ? 0 : lk == 1 ? (unsigned)bits : lk == 2 ? (unsigned)(bits - 1) : lk == 3 ? (unsigned)(8 * pick(0, n)) : lk == 4 ? (unsigned)(32 * pick(0, bits / 32))
            : lk == 5 ? (unsigned)(bits + pick(1, 12)) : (unsigned)pick(0, bits);
    if (c.op != 0 && c.op != 2 && c.len > (unsigned)bits) c.len = (unsigned)bits;
    c.port = drawPort();
    // mask: contiguous (from len) or arbitrary bytes
    bool arb = (c.op == 3 || c.op == 4) && pick(0, 2) == 0;
    if (arb) for (int i = 0; i < n; i++) c.mask[i] = (uint8_t)oneof<int>({0, 0xff, 0xf0, 0x0f, 0x80, pick(0, 255)});
    else from128(int_mask(bits, (int)std::min<unsigned>(c.len, (unsigned)bits)), c.mask.data(), n);
    // net: member / near miss / unrelated
    u128 a = to128(c.addr.data(), n), m = to128(c.mask.data(), n);
    int nk = pick(0, 5);
    u128 nt = a & m;
    if (nk == 3) nt ^= ((u128)1 << pick(0, bits - 1));       // one bit off (inside or outside the mask)
    else if (nk == 4) nt = a;                                 // untruncated network
    else if (nk == 5) { uint8_t t[16]; for (int i = 0; i < n; i++) t[i] = (uint8_t)pick(0, 255); nt = to128(t, n); }
    from128(nt, c.net.data(), n);
    return c;
  });
}

static Verdict run_pfx(const PfxCase &c) {
  PBT_REQUIRE(c.fam == 4 || c.fam == 6, "bad case: family");
  int bits = c.fam == 4 ? 32 : 128, n = bits / 8, af = c.fam == 4 ? AF_INET : AF_INET6;
  std::string fl = c.fam == 4 ? "v4" : "v6";
  u128 a = to128(c.addr.data(), n), m = to128(c.mask.data(), n), nt = to128(c.net.data(), n);
  std::string lenl = c.len == 0 ? "len0" : c.len == (unsigned)bits ? "len_max" : c.len > (unsigned)bits ? "len>max" : c.len % 32 == 0 ? "len%32==0" : c.len % 8 == 0 ? "len%8==0" : "len_other";
  switch (c.op) {
  case 0: {  // len2mask, then mask2len
    label(fl + " len2mask " + lenl);
    uint8_t mk[16];
    memset(mk, 0xEE, 16);
    int rc = c.fam == 4 ? sas_len2mask4(c.len, mk) : sas_len2mask6(c.len, mk);
    if (c.len > (unsigned)bits) {
      PBT_REQUIRE(rc != 0, "inet" << (c.fam == 6 ? "6" : "") << "_len2mask(" << c.len << ") returned 0 for a length beyond " << bits);
      return Verdict::pass();
    }
    if (c.len % 8 != 0) nontrivial_cur();
    PBT_REQUIRE(rc == 0, "inet" << (c.fam == 6 ? "6" : "") << "_len2mask(" << c.len << ") = " << rc);
    uint8_t want[16];
    from128(int_mask(bits, (int)c.len), want, n);
    PBT_REQUIRE(memcmp(mk, want, (size_t)n) == 0, "inet" << (c.fam == 6 ? "6" : "") << "_len2mask(" << c.len << ") = " << hex(mk, (size_t)n) << ", integer mask is " << hex(want, (size_t)n));
    int back = c.fam == 4 ? sas_mask2len4(mk) : sas_mask2len6(mk);
    PBT_REQUIRE(back == (int)c.len, "mask2len(len2mask(" << c.len << ")) = " << back);
    return Verdict::pass();
  }
  case 1: {  // mask2len of the integer mask, then len2mask
    label(fl + " mask2len " + lenl);
    if (c.len % 8 != 0) nontrivial_cur();
    uint8_t mk[16];
    from128(int_mask(bits, (int)c.len), mk, n);
    int l = c.fam == 4 ? sas_mask2len4(mk) : sas_mask2len6(mk);
    PBT_REQUIRE(l == (int)c.len, "inet" << (c.fam == 6 ? "6" : "") << "_mask2len(" << hex(mk, (size_t)n) << ") = " << l << ", expected " << c.len);
    uint8_t mk2[16];
    memset(mk2, 0xEE, 16);
    int rc = c.fam == 4 ? sas_len2mask4((size_t)l, mk2) : sas_len2mask6((size_t)l, mk2);
    PBT_REQUIRE(rc == 0 && memcmp(mk, mk2, (size_t)n) == 0, "len2mask(mask2len(" << hex(mk, (size_t)n) << ")) = " << hex(mk2, (size_t)n));
    return Verdict::pass();
  }
  case 2: {  // net_addr_truncate_preflen
    label(fl + " truncate_preflen " + lenl);
    Addr x;
    x.fam = c.fam;
    memcpy(x.a, c.addr.data(), 16);
    x.port = c.port;
    Bytes ss = build_ss(x);
    sas_trunc_preflen(ss.data(), (uint16_t)c.len);
    Addr y;
    bool ez;
    PBT_REQUIRE(decode_ss(ss, y, ez) && y.fam == c.fam, "net_addr_truncate_preflen changed the family");
    if (c.len > (unsigned)bits) return Verdict::pass();  // outside 0..bits: not specified
    if (c.len % 8 != 0) nontrivial_cur();
    uint8_t want[16] = {0};
    from128(a & int_mask(bits, (int)c.len), want, n);
    PBT_REQUIRE(memcmp(y.a, want, (size_t)n) == 0, "net_addr_truncate_preflen(" << hex(c.addr.data(), (size_t)n) << ", " << c.len << ") = " << hex(y.a, (size_t)n)
                                                      << ", addr & mask is " << hex(want, (size_t)n));
    PBT_REQUIRE(y.port == c.port, "net_addr_truncate_preflen changed the port");
    return Verdict::pass();
  }
  case 3: {  // net_addr_truncate_mask with any mask
    label(fl + " truncate_mask");
    nontrivial_cur();
    Bytes net(c.addr);
    sas_trunc_mask(af, net.data(), c.mask.data());
    uint8_t want[16] = {0};
    from128(a & m, want, n);
    PBT_REQUIRE(memcmp(net.data(), want, (size_t)n) == 0, "net_addr_truncate_mask(" << hex(c.addr.data(), (size_t)n) << ", " << hex(c.mask.data(), (size_t)n) << ") = "
                                                              << hex(net.data(), (size_t)n) << ", expected " << hex(want, (size_t)n));
    return Verdict::pass();
  }
  default: {  // is_addr_in_net
    bool want = ((a & m) == nt);
    label(fl + (want ? " in_net member" : " in_net non-member"));
    nontrivial_cur();
    int r = sas_in_net(af, c.net.data(), c.mask.data(), c.addr.data());
    PBT_REQUIRE((r != 0) == want, "is_addr_in_net(net=" << hex(c.net.data(), (size_t)n) << ", mask=" << hex(c.mask.data(), (size_t)n) << ", addr=" << hex(c.addr.data(), (size_t)n)
                                                        << ") = " << r << ", (addr & mask) == net is " << want);
    return Verdict::pass();
  }
  }
}

// ------------------------------------------------------------------ enumerations
static const uint8_t ENUM_V6[][16] = {
    {0x20, 0x01, 0x0d, 0xb8, 0, 0, 0, 0, 0, 0, 0, 0, 0, 0, 0, 1},                    // 2001:db8::1
    {0, 0, 0, 0, 0, 0, 0, 0, 0, 0, 0, 0, 0, 0, 0, 1},                                // ::1
    {0xfe, 0x80, 0, 0, 0, 0, 0, 0, 0, 0, 0, 0, 0, 0, 0, 0},                          // fe80::
    {0xff, 0xff, 0xff, 0xff, 0xff, 0xff, 0xff, 0xff, 0xff, 0xff, 0xff, 0xff, 0xff, 0xff, 0xff, 0xff},
    {0, 0, 0, 0, 0, 0, 0, 0, 0, 0, 0xff, 0xff, 192, 0, 2, 1},                        // ::ffff:192.0.2.1
    {0, 1, 0, 0, 0, 0, 0, 2, 0, 0, 0, 0, 0, 0, 0, 3},                                // 1:0:0:2::3
};
static const uint8_t ENUM_V4[][4] = {{127, 0, 0, 1}, {0, 0, 0, 0}, {255, 255, 255, 255}, {10, 100, 9, 99}, {192, 0, 2, 200}, {1, 10, 100, 199}};

static void enum_ports(double scale) {
  // every port with the port-formatting function; number of addresses grows with the tier
  int naddr = scale >= 5 ? 32 : scale >= 1 ? 4 : 1;
  set_exhaustive(true);
  for (int ai = 0; ai < naddr; ai++) {
    for (int fam = 4; fam <= 6; fam += 2) {
      FmtCase c;
      c.x.fam = fam;
      if (fam == 4) {
        memcpy(c.x.a, ENUM_V4[ai % 6], 4);
        c.x.a[3] = (uint8_t)(c.x.a[3] + 7 * (ai / 6));
      } else {
        memcpy(c.x.a, ENUM_V6[ai % 6], 16);
        c.x.a[9] = (uint8_t)(c.x.a[9] + (ai / 6));
      }
      c.with_port = 1;
      c.pass_sr = 1;
      c.cap = (unsigned)STRLEN_ADDR;
      for (unsigned p = 0; p <= 65535; p++) {
        c.x.port = p;
        if (!enum_case(c.ser(), [&]() { return run_fmt(c); })) return;
      }
    }
  }
}
// all 9^4 boundary IPv4 addresses and every IPv6 zero-run shape (start 0..7 x length 0..8-start, three fill patterns),
// through both formatting functions with the buffer size every in-tree caller uses
static void enum_addrs(double) {
  set_exhaustive(true);
  static const int oct[] = {0, 1, 9, 10, 99, 100, 199, 200, 255};
  FmtCase c;
  c.pass_sr = 1;
  c.cap = (unsigned)STRLEN_ADDR;
  c.x.fam = 4;
  for (int a = 0; a < 9; a++) for (int b = 0; b < 9; b++) for (int d = 0; d < 9; d++) for (int e = 0; e < 9; e++) {
    c.x.a[0] = (uint8_t)oct[a]; c.x.a[1] = (uint8_t)oct[b]; c.x.a[2] = (uint8_t)oct[d]; c.x.a[3] = (uint8_t)oct[e];
    c.with_port = (a + b + d + e) & 1;
    c.x.port = c.with_port ? 8080 : 0;
    if (!enum_case(c.ser(), [&]() { return run_fmt(c); })) return;
  }
  c.x.fam = 6;
  static const unsigned fill[3][8] = {{1, 2, 3, 4, 5, 6, 7, 8}, {0xffff, 0xfff, 0xff, 0xf, 0xf000, 0xf00, 0xf0, 0xabcd}, {0x2001, 0xdb8, 0x10, 0x100, 0x1000, 0xa, 0xb0, 0xc00}};
  for (int s = 0; s < 8; s++) for (int l = 0; l <= 8 - s; l++) for (int f = 0; f < 3; f++) for (int wp = 0; wp < 2; wp++) {
    for (int i = 0; i < 8; i++) setg(c.x.a, i, (i >= s && i < s + l) ? 0 : fill[f][i]);
    c.with_port = wp;
    c.x.port = wp ? 443 : 0;
    if (!enum_case(c.ser(), [&]() { return run_fmt(c); })) return;
  }
  // two zero runs of every pair of lengths
  for (int l1 = 1; l1 <= 3; l1++) for (int l2 = 1; l2 <= 3; l2++) for (int s1 = 0; s1 + l1 + 1 + l2 <= 8; s1++) for (int wp = 0; wp < 2; wp++) {
    for (int i = 0; i < 8; i++) setg(c.x.a, i, fill[0][i]);
    for (int i = s1; i < s1 + l1; i++) setg(c.x.a, i, 0);
    for (int i = s1 + l1 + 1; i < s1 + l1 + 1 + l2; i++) setg(c.x.a, i, 0);
    c.with_port = wp;
    c.x.port = wp ? 443 : 0;
    if (!enum_case(c.ser(), [&]() { return run_fmt(c); })) return;
  }
}
static void enum_prefix(double) {
  set_exhaustive(true);
  for (int fam = 4; fam <= 6; fam += 2) {
    int bits = fam == 4 ? 32 : 128;
    for (int ai = 0; ai < 3; ai++) {
      for (int op = 0; op <= 2; op++) {
        for (int l = 0; l <= bits + 2; l++) {
          PfxCase c;
          c.op = op;
          c.fam = fam;
          c.len = (unsigned)l;
          if (op == 1 && l > bits) continue;
          c.addr.assign(16, ai == 0 ? 0xff : ai == 1 ? 0xa5 : 0x01);
          c.net.assign(16, 0);
          c.mask.assign(16, 0);
          c.port = 80;
          if (!enum_case(c.ser(), [&]() { return run_pfx(c); })) return;
        }
      }
    }
  }
}
static Verdict run_enum_text(const std::string &t) {
  Reader r(t);
  if (r.has("op")) return run_pfx(PfxCase::parse(t));
  return run_fmt(FmtCase::parse(t));
}

// ------------------------------------------------------------------ start-up anchors for the reference
static int anchors() {
  int bad = 0;
  struct V { const char *hex, *text; };
  static const V vec[] = {
#include "ip_text_vectors.inc"
  };
  for (const V &v : vec) {
    Bytes b = unhex(v.hex);
    if (b.size() != 16 || iptext::v6_hex_canonical(b.data()) != v.text) {
      fprintf(stderr, "anchor: ip_text.hpp gives %s for %s, Python ipaddress gives %s\n", b.size() == 16 ? iptext::v6_hex_canonical(b.data()).c_str() : "?", v.hex, v.text);
      bad++;
    }
    uint8_t back[16];
    if (iptext::parse_v6(v.text, back) != iptext::VALID || memcmp(back, b.data(), 16) != 0) {
      fprintf(stderr, "anchor: parse_v6(%s) disagrees with Python ipaddress\n", v.text);
      bad++;
    }
  }
  // RFC 5952 section 4 examples (input spelling -> recommended text), and RFC 4291 section 2.2 forms
  static const char *rfc[][2] = {
      {"2001:0db8:0000:0000:0001:0000:0000:0001", "2001:db8::1:0:0:1"}, {"2001:db8:0:0:0:0:2:1", "2001:db8::2:1"},
      {"2001:db8:0:1:1:1:1:1", "2001:db8:0:1:1:1:1:1"},                   {"2001:0:0:0:0:0:0:1", "2001::1"},
      {"2001:DB8:0:0:8:800:200C:417A", "2001:db8::8:800:200c:417a"},      {"FF01:0:0:0:0:0:0:101", "ff01::101"},
      {"0:0:0:0:0:0:0:1", "::1"},                                          {"0:0:0:0:0:0:0:0", "::"},
      {"2001:db8:aaaa:bbbb:cccc:dddd:eeee:0001", "2001:db8:aaaa:bbbb:cccc:dddd:eeee:1"},
      {"0:0:0:0:0:FFFF:129.144.52.38", "::ffff:8190:3426"},               {"::13.1.68.3", "::d01:4403"},
      {"1:0:0:2:0:0:0:3", "1:0:0:2::3"},                                   {"1:0:0:0:2:0:0:0", "1::2:0:0:0"},
  };
  for (auto &e : rfc) {
    uint8_t a[16];
    if (iptext::parse_v6(e[0], a) != iptext::VALID || iptext::v6_hex_canonical(a) != e[1]) {
      fprintf(stderr, "anchor: RFC example %s -> %s failed (got %s)\n", e[0], e[1], iptext::v6_hex_canonical(a).c_str());
      bad++;
    }
  }
  static const char *invalid[] = {"", ":", ":::", "1::2::3", "1:2:3:4:5:6:7", "1:2:3:4:5:6:7:8:9", "12345::", "::g", "1.2.3.4", "::1.2.3", "1:2:3:4:5:6:7::8:9", "::1.2.3.4:5", ":1::", "1::2:"};
  for (auto s : invalid) {
    uint8_t a[16];
    if (iptext::parse_v6(s, a) != iptext::INVALID) { fprintf(stderr, "anchor: parse_v6 accepts %s\n", s); bad++; }
  }
  static const char *inv4[] = {"", "1.2.3", "1.2.3.4.5", "256.1.1.1", "1..2.3", "1.2.3.4 ", "a.b.c.d", "1.2.3.-4", "1.2.3.4.", ".1.2.3.4", "1234.1.1.1"};
  for (auto s : inv4) {
    uint8_t a[4];
    if (iptext::parse_v4(s, a) != iptext::INVALID) { fprintf(stderr, "anchor: parse_v4 accepts %s\n", s); bad++; }
  }
  {
    uint8_t a[4];
    if (iptext::parse_v4("0.10.199.255", a) != iptext::VALID || a[0] != 0 || a[1] != 10 || a[2] != 199 || a[3] != 255) { fprintf(stderr, "anchor: parse_v4\n"); bad++; }
    if (iptext::parse_v4("01.2.3.4", a) != iptext::UNSPEC) { fprintf(stderr, "anchor: parse_v4 leading zero\n"); bad++; }
  }
  // cross-check only (never used as the oracle): the platform's inet_ntop output must be one of the conventional forms
  uint64_t s = 88172645463325252ULL;
  for (int i = 0; i < 3000; i++) {
    uint8_t a[16];
    for (int j = 0; j < 16; j++) {
      s ^= s << 13; s ^= s >> 7; s ^= s << 17;
      a[j] = (i % 3 == 0 || ((s >> 40) & 1)) ? (uint8_t)(s >> 24) : 0;
    }
    if (i % 7 == 0) memset(a, 0, 10), a[10] = a[11] = (i % 14 == 0) ? 0xff : 0;
    char t[64];
    if (!inet_ntop(AF_INET6, a, t, sizeof t)) continue;
    bool hit = false;
    for (auto &c : iptext::v6_conventional(a)) hit = hit || c == t;
    if (!hit) { fprintf(stderr, "anchor(cross-check): inet_ntop gives %s, reference gives %s\n", t, iptext::v6_hex_canonical(a).c_str()); bad++; }
  }
  return bad;
}

int main(int argc, char **argv) {
  STRLEN_ADDR = (size_t)sas_info(0);
  if (sas_info(1) != SAS_SS_SIZE || STRLEN_ADDR > SAS_CAP_MAX || sas_info(2) != 108) {
    fprintf(stderr, "C18: unexpected platform constants\n");
    return 2;
  }
  if (anchors() != 0) {
    fprintf(stderr, "C18: reference implementation failed its anchors; check unusable\n");
    return 2;
  }
  add_check<FmtCase>("fmt", 150000, 100, genFmt, run_fmt);
  add_check<ParseCase>("parse", 150000, 100, genParse, run_parse);
  add_check<PfxCase>("prefix", 60000, 100, genPfx, run_pfx);
  add_enum_check("ports_enum", 100, enum_ports, run_enum_text);
  add_enum_check("prefix_enum", 100, enum_prefix, run_enum_text);
  add_enum_check("addr_enum", 100, enum_addrs, run_enum_text);
  return driver_main(argc, argv);
}
