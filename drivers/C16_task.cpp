// C16 -- I/O tasks: exactly the bytes, in order, inside the window; cursor bookkeeping; EOF / timeout
// reported; re-arming on CONTINUE; silence after stop/destroy on the owner thread; descriptor balance.
#include "pbt.hpp"
#include "../shims/tp_abi.h"
#include <cerrno>
#include <memory>

using namespace pbt;
extern "C" uint8_t c16_pattern(uint64_t i);

struct Piece { int len = 1, pause = 0; };
struct Fault { int fn = 0, k = 0, err = 0; };
struct TaskCase {
  int dir = 0, handler = 0, buf_size = 64, win_off = 0, win_len = 64, used0 = 0, ev_flags = 0, after_every_read = 0, timeout_ms = 0,
      start_ex_direct = 0, prequeue = 0, end = 1, cb_policy = 0, rearm = 0, sndbuf = 0, close_on_destroy = 0, bad_window = 0, inject_on_recv = 0;
  std::vector<Piece> pieces;
  Bytes plan;
  std::vector<Fault> faults;
  std::string ser() const {
    Writer w;
    w.i("dir", dir).i("handler", handler).i("buf_size", buf_size).i("win_off", win_off).i("win_len", win_len).i("used0", used0)
        .i("ev_flags", ev_flags).i("after_every_read", after_every_read).i("timeout_ms", timeout_ms).i("start_ex_direct", start_ex_direct)
        .i("prequeue", prequeue).i("end", end).i("cb_policy", cb_policy).i("rearm", rearm).i("sndbuf", sndbuf).i("close_on_destroy", close_on_destroy).i("bad_window", bad_window).i("inject_on_recv", inject_on_recv);
    std::vector<long long> v;
    for (auto &p : pieces) { v.push_back(p.len); v.push_back(p.pause); }
    w.iv("pieces", v);
    w.b("plan", plan);
    std::vector<long long> f;
    for (auto &x : faults) { f.push_back(x.fn); f.push_back(x.k); f.push_back(x.err); }
    w.iv("faults", f);
    return w.str();
  }
  static TaskCase parse(const std::string &t) {
    Reader r(t);
    TaskCase c;
    c.dir = (int)r.i("dir"); c.handler = (int)r.i("handler"); c.buf_size = (int)r.i("buf_size", 64); c.win_off = (int)r.i("win_off");
    c.win_len = (int)r.i("win_len", 64); c.used0 = (int)r.i("used0"); c.ev_flags = (int)r.i("ev_flags"); c.after_every_read = (int)r.i("after_every_read");
    c.timeout_ms = (int)r.i("timeout_ms"); c.start_ex_direct = (int)r.i("start_ex_direct"); c.prequeue = (int)r.i("prequeue"); c.end = (int)r.i("end", 1);
    c.cb_policy = (int)r.i("cb_policy"); c.rearm = (int)r.i("rearm"); c.sndbuf = (int)r.i("sndbuf"); c.close_on_destroy = (int)r.i("close_on_destroy"); c.bad_window = (int)r.i("bad_window"); c.inject_on_recv = (int)r.i("inject_on_recv");
    auto v = r.iv("pieces");
    for (size_t j = 0; j + 2 <= v.size(); j += 2) c.pieces.push_back(Piece{(int)v[j], (int)v[j + 1]});
    c.plan = r.b("plan");
    auto f = r.iv("faults");
    for (size_t j = 0; j + 3 <= f.size(); j += 3) c.faults.push_back(Fault{(int)f[j], (int)f[j + 1], (int)f[j + 2]});
    return c;
  }
};
void showValue(const TaskCase &c, std::ostream &os) { os << c.ser(); }

static Verdict evaluate(const TaskCase &c, const c16_out &o) {
  PBT_REQUIRE(o.setup_rc == 0, "harness: setup failed " << o.setup_rc);
  uint32_t inj = 0;
  for (int f = 0; f < F_LAST; f++) inj += o.res.injected[f];
  // descriptor balance: everything the task layer created through the pool (its timeout timer) is gone
  PBT_REQUIRE(o.res.live_fds == o.base_live_fds, "after stop/destroy of the task and of the pool " << (long)o.res.live_fds - (long)o.base_live_fds
                                                     << " descriptor(s) created by the library are still open (timer leak)");
  PBT_REQUIRE(o.res.live_allocs == 0, "task memory not released: " << o.res.live_allocs << " allocation(s)");
  PBT_REQUIRE(o.res.double_free == 0, "task freed twice");
  PBT_REQUIRE(o.cb_after_stop == 0, o.cb_after_stop << " callback(s) after stop/destroy/disable had returned on the task's own thread");
  PBT_REQUIRE(o.cb_while_paused == 0, o.cb_while_paused << " callback(s) while the dispatch task was paused: its callback had returned a code other than CONTINUE and "
                                                         "tp_task_enable(1) had not been called yet (header: such return codes stop callbacks until then)");
  PBT_REQUIRE(!o.ident_open_after_destroy, "TP_TASK_F_CLOSE_ON_DESTROY: the task's descriptor was still open after tp_task_destroy() had returned");
  if (o.paused) PBT_REQUIRE(o.resume_rc == 0 || inj > 0, "tp_task_enable(1) on the paused task failed with " << o.resume_rc);
  if (c.bad_window) {
    // outer guards first (a transfer into the bad window lands in them)
    for (int i = 0; i < 32; i++) PBT_REQUIRE(o.buf_image[i] == 0xfd && o.buf_image[32 + c.buf_size + i] == 0xfd, "bytes outside the buffer were modified (window offset " << c.win_off << " + " << c.win_len << " exceeds the buffer size " << c.buf_size << ")");
    PBT_REQUIRE(o.start_rc == EINVAL, "tp_task_start_ex() accepted (rc " << o.start_rc << ") a buffer window [" << c.win_off << ", " << c.win_off + c.win_len << ") that reaches past the buffer size " << c.buf_size);
    PBT_REQUIRE(o.ncb == 0, "callback made for a refused start");
    PBT_REQUIRE(o.peer_received == 0, "a refused send task emitted " << o.peer_received << " byte(s)");
    label("window_past_buffer_refused");
    nontrivial_cur();
    return Verdict::pass();
  }
  if (o.start_rc != 0) {
    PBT_REQUIRE(inj > 0 || c.start_ex_direct, "task start failed with " << o.start_rc << " without an injected fault");
    PBT_REQUIRE(o.ncb == 0 || c.start_ex_direct, "callbacks after a failed start");
    label("start_failed_cleanly");
    nontrivial_cur();
    return Verdict::pass();
  }
  PBT_REQUIRE(!o.hang, "hang: the owner thread stopped serving its queue");
  PBT_REQUIRE(o.ncb <= C16_MAX_CB, "callback storm: " << o.ncb << " callbacks");
  // outer guards and bytes outside the window
  const uint8_t *img = o.buf_image;
  for (int i = 0; i < 32; i++) PBT_REQUIRE(img[i] == 0xfd && img[32 + c.buf_size + i] == 0xfd, "bytes outside the buffer were modified");
  const uint8_t *buf = img + 32;
  if (c.dir == 0) {
    for (int i = 0; i < c.buf_size; i++)
      if (i < c.win_off || i >= c.win_off + c.win_len) PBT_REQUIRE(buf[i] == 0xfe, "byte " << i << " outside the window [" << c.win_off << "," << c.win_off + c.win_len << ") was written");
  }
  for (uint32_t i = 0; i < o.ncb; i++) PBT_REQUIRE(o.cb[i].on_owner, "callback " << i << " ran on a thread other than the task's pool thread");
  uint64_t sum = 0;
  int n_eof = 0, n_timeout = 0, n_full = 0, n_err = 0;
  bool nt = false;
  if (c.handler == 1) {
    // notify: one readiness report (the harness stops the task in it)
    bool expect = (c.dir == 1) || o.sent_total > 0 || c.end != 0;
    if (expect && !inj) PBT_REQUIRE(o.ncb >= 1, "notify task never reported readiness");
    PBT_REQUIRE(o.ncb <= 1 + (c.timeout_ms ? 1u : 0u), "notify task reported " << o.ncb << " times although it was stopped in the first callback");
    label("notify");
    if (c.ev_flags) nontrivial_cur();
    return Verdict::pass();
  }
  uint64_t off = c.win_off, used = c.used0, tr = c.win_len;
  int rounds = 0;
  for (uint32_t i = 0; i < o.ncb; i++) {
    const c16_cb &cb = o.cb[i];
    std::ostringstream tg;
    tg << "callback " << i << " (error " << cb.error << " eof " << cb.eof << " transferred " << cb.transfered << " used " << cb.used << " offset " << cb.offset << " tr "
       << cb.tr_size << " ret " << cb.ret << ")";
    std::string tag = tg.str();
    sum += cb.transfered;
    if (cb.error == ETIMEDOUT) n_timeout++;
    else if (cb.error != 0) n_err++;
    if ((cb.eof & 2) && cb.error == 0) n_eof++;  // TP_TASK_IOF_F_BUF: recv() returned 0 with room left in the window
    PBT_REQUIRE(cb.transfered <= tr, tag << ": more bytes reported than the window had left (" << tr << ")");
    // cursor bookkeeping as seen by the callback (before a re-arm done inside it)
    uint64_t e_off = std::min<uint64_t>(c.buf_size, off + cb.transfered), e_tr = tr - cb.transfered;
    uint64_t e_used = (c.dir == 0) ? std::min<uint64_t>(c.buf_size, used + cb.transfered) : used;
    bool rearmed_here = (c.rearm && c.dir == 0 && e_tr == 0 && cb.error == 0 && rounds < 3 && cb.ret == 2);
    if (!rearmed_here) {
      PBT_REQUIRE(cb.offset == e_off && cb.tr_size == e_tr, tag << ": buffer cursors offset/transfer_size expected " << e_off << "/" << e_tr);
      if (!(c.cb_policy == 2 && i == 0)) PBT_REQUIRE(cb.used == e_used, tag << ": buffer 'used' expected " << e_used);
    }
    off = e_off; tr = e_tr; used = e_used;
    if (tr == 0 && cb.error == 0) n_full++;
    if (rearmed_here) { rounds++; off = c.win_off; tr = c.win_len; used = c.used0; }
  }
  std::ostringstream hist;
  hist << " | callbacks:";
  for (uint32_t i = 0; i < o.ncb && i < 12; i++) hist << " [err " << o.cb[i].error << " eof " << o.cb[i].eof << " n " << o.cb[i].transfered << " ret " << o.cb[i].ret << "]";
  hist << " sent " << o.sent_total << " final used/off/tr " << o.final_used << "/" << o.final_offset << "/" << o.final_tr;
  PBT_REQUIRE(n_err == 0 || inj > 0 || c.end == 1, "task reported a socket error " << "(count " << n_err << ") on a healthy connection");
  bool self_stopped_early = (c.cb_policy != 0 && c.cb_policy != 4);  // policy 4 pauses and later resumes: the transfer completes
  if (c.dir == 0) {
    // content: the window holds, in order, exactly the bytes that arrived
    uint64_t moved = 0;
    if (!c.rearm) {
      while (moved < (uint64_t)c.win_len && buf[c.win_off + moved] != 0xfe) moved++;
      for (uint64_t i = 0; i < moved; i++)
        PBT_REQUIRE(buf[c.win_off + i] == c16_pattern(i), "window byte " << i << " is " << (int)buf[c.win_off + i] << ", the stream has " << (int)c16_pattern(i) << " there (out of order / corrupted)");
      for (uint64_t i = moved; i < (uint64_t)c.win_len; i++) PBT_REQUIRE(buf[c.win_off + i] == 0xfe, "window byte " << i << " written beyond the received data");
      PBT_REQUIRE(moved <= o.sent_total, "more bytes in the window (" << moved << ") than the peer sent (" << o.sent_total << ")");
      PBT_REQUIRE(sum <= moved, "callbacks reported " << sum << " bytes but only " << moved << " arrived in the window");
    }
    bool complete_expected = !self_stopped_early && !inj && (c.end != 0 || o.sent_total >= (uint64_t)c.win_len * (c.rearm ? 4 : 1));
    if (complete_expected) {
      uint64_t cap = (uint64_t)c.win_len * (c.rearm ? 4 : 1);
      uint64_t expect_total = std::min<uint64_t>(o.sent_total, cap);
      PBT_REQUIRE(sum == expect_total, "transferred counts add up to " << sum << ", the peer sent " << o.sent_total << " (window capacity " << cap << ")" << hist.str());
      if (!c.rearm) PBT_REQUIRE(moved == expect_total, "window holds " << moved << " bytes, expected " << expect_total);
      if (o.sent_total < cap) {
        PBT_REQUIRE(n_eof == 1, "end of stream reported " << n_eof << " times (peer " << (c.end == 1 ? "closed" : "shut down its sending side") << ")");
        label("eof_reported");
      } else PBT_REQUIRE(n_full >= 1, "window filled but no completion callback");
    }
    if (c.after_every_read && !self_stopped_early && o.ncb >= 2) { label("callback_after_every_read"); nt = true; }
  } else {
    PBT_REQUIRE(o.peer_mismatch == UINT32_MAX, "peer received a byte that differs from the window at stream offset " << o.peer_mismatch);
    PBT_REQUIRE(o.peer_received <= (uint64_t)c.win_len, "peer received more (" << o.peer_received << ") than the window (" << c.win_len << ")");
    if (!self_stopped_early && !inj) {
      PBT_REQUIRE(o.peer_received == (uint64_t)c.win_len, "send task emitted " << o.peer_received << " of " << c.win_len << " window bytes");
      PBT_REQUIRE(sum == (uint64_t)c.win_len && n_full >= 1, "send task reported " << sum << " bytes / " << n_full << " completion callbacks");
    }
    if (o.ncb >= 1 && c.sndbuf) { label("send_fragmented_by_small_sndbuf"); nt = true; }
  }
  // timeouts
  bool long_pause = false;
  for (size_t i = (size_t)c.prequeue; i < c.pieces.size(); i++) if (c.pieces[i].pause == 2) long_pause = true;
  if (c.timeout_ms == 0) PBT_REQUIRE(n_timeout == 0, "timeout reported by a task without timeout");
  else {
    uint64_t T_us = (uint64_t)c.timeout_ms * 1000;
    // the harness clock only gates the assertion: it is made when the measured run was far below the timeout
    if (!long_pause && c.dir == 0 && c.end != 0 && !self_stopped_early && o.max_gap_us < T_us / 3 && o.run_us < T_us / 3) {
      PBT_REQUIRE(n_timeout == 0, "timeout reported although data kept arriving (longest measured silence " << o.max_gap_us << " us, timeout " << T_us << " us)");
      label("no_timeout_while_active");
    }
    if (c.dir == 0 && !self_stopped_early && !inj && !c.rearm) {
      bool idle_at_end = (c.end == 0 && o.sent_total < (uint64_t)c.win_len && c.timeout_ms <= 500 && c.handler == 0);
      if (idle_at_end) { PBT_REQUIRE(n_timeout >= 1, "an armed idle task never reported its timeout"); label("timeout_reported"); nt = true; }
    }
  }
  if (self_stopped_early && o.ncb >= 1) { label("stopped_from_inside_callback"); nt = true; }
  if (o.paused) { label(c.timeout_ms && c.timeout_ms <= 500 ? "paused_longer_than_timeout_then_resumed" : "paused_then_resumed"); nt = true; }
  if (c.win_off != 0) { label("window_not_at_buffer_start"); nt = true; }
  if (o.ncb >= 2) nt = true;
  if (n_eof) nt = true;
  if (inj) { label("fault_injected"); nt = true; }
  if (c.start_ex_direct && o.ncb && o.cb[0].in_start) label("first_io_inside_start");
  if (c.close_on_destroy) label("close_on_destroy_with_second_descriptor");
  if (c.inject_on_recv && c.dir == 0 && c.handler == 0) label("fragment_arrives_between_two_reads");
  if (c.ev_flags == 2) label("dispatch");
  if (rounds) label("window_rearmed");
  if (nt) nontrivial_cur();
  return Verdict::pass();
}

static Verdict run_case(const TaskCase &c) {
  std::unique_ptr<c16_scn> s(new c16_scn());
  memset(s.get(), 0, sizeof(c16_scn));
  s->dir = (uint8_t)c.dir; s->handler = (uint8_t)c.handler;
  s->buf_size = (uint16_t)std::max(1, std::min(4096, c.buf_size));
  s->win_off = (uint16_t)c.win_off; s->win_len = (uint16_t)c.win_len; s->used0 = (uint16_t)c.used0;
  if (c.bad_window)  // window reaching past the buffer: only the direct first transfer validates it, and must refuse it (EINVAL) before any I/O
    PBT_REQUIRE(c.start_ex_direct && c.handler == 0 && c.win_len >= 1 && c.win_off + c.win_len > c.buf_size && c.win_off + c.win_len <= c.buf_size + 32, "harness: bad-window scenario outside its own envelope");
  else
    PBT_REQUIRE(c.win_off + c.win_len <= c.buf_size && c.win_len >= 1 && c.used0 <= c.buf_size, "harness: window outside the documented precondition");
  s->ev_flags = (uint8_t)c.ev_flags; s->after_every_read = (uint8_t)c.after_every_read; s->timeout_ms = (uint16_t)c.timeout_ms;
  s->start_ex_direct = (uint8_t)c.start_ex_direct; s->prequeue = (uint8_t)c.prequeue; s->end = (uint8_t)c.end;
  s->cb_policy = (uint8_t)c.cb_policy; s->rearm = (uint8_t)c.rearm; s->sndbuf = (uint32_t)c.sndbuf; s->close_on_destroy = (uint8_t)c.close_on_destroy; s->inject_on_recv = (uint8_t)(c.inject_on_recv && c.dir == 0 && c.handler == 0);
  s->npieces = (uint8_t)std::min<size_t>(c.pieces.size(), C16_MAX_PIECES);
  for (int i = 0; i < s->npieces; i++) { s->pieces[i].len = (uint16_t)std::max(1, std::min(2048, c.pieces[i].len)); s->pieces[i].pause = (uint8_t)c.pieces[i].pause; }
  s->plans.plan_len = (uint32_t)std::min<size_t>(c.plan.size(), TP_PLAN_MAX);
  memcpy(s->plans.plan, c.plan.data(), s->plans.plan_len);
  s->plans.nfaults = (uint32_t)std::min<size_t>(c.faults.size(), TP_FAULT_MAX);
  for (uint32_t i = 0; i < s->plans.nfaults; i++) { s->plans.faults[i].fn = (uint8_t)c.faults[i].fn; s->plans.faults[i].k = (uint32_t)c.faults[i].k; s->plans.faults[i].err = c.faults[i].err; }
  std::unique_ptr<c16_out> o(new c16_out());
  alarm(300);
  c16_run(s.get(), o.get());
  alarm(0);
  return evaluate(c, *o);
}

static rc::Gen<TaskCase> genCase() {
  return rc::gen::exec([]() {
    TaskCase c;
    c.dir = *rc::gen::weightedElement<int>({{3, 0}, {1, 1}});
    c.handler = *rc::gen::weightedElement<int>({{7, 0}, {1, 1}});
    c.buf_size = *rc::gen::element(8, 64, 100, 512, 1000, 2048);
    c.win_off = *rc::gen::weightedElement<int>({{2, 0}, {3, *range<int>(0, c.buf_size - 1)}});
    c.win_len = *rc::gen::weightedElement<int>({{2, c.buf_size - c.win_off}, {3, *range<int>(1, c.buf_size - c.win_off)}});
    c.used0 = *rc::gen::weightedElement<int>({{3, c.win_off}, {1, 0}});
    c.ev_flags = c.handler == 1 ? *range<int>(0, 2) : *rc::gen::element(0, 0, 2);  // data tasks: persistent or dispatch (in-tree callers); notify: all three
    c.after_every_read = *range<int>(0, 1);
    bool slow = *range<int>(0, 11) == 0;  // scenarios with real timeouts are slow: about 1 in 12
    c.timeout_ms = slow ? *rc::gen::element(120, 200) : *rc::gen::weightedElement<int>({{3, 0}, {1, 2000}});
    c.start_ex_direct = (c.handler == 0 && c.dir == 0) ? *rc::gen::weightedElement<int>({{3, 0}, {1, 1}}) : 0;
    int np = *range<int>(1, 9);
    for (int i = 0; i < np; i++) {
      Piece p;
      p.len = *rc::gen::weightedElement<int>({{3, *range<int>(1, 40)}, {2, *range<int>(1, 600)}, {1, c.win_len}});
      p.pause = *rc::gen::weightedElement<int>({{5, 0}, {2, 1}});
      c.pieces.push_back(p);
    }
    if (slow && c.dir == 0 && np >= 2 && *range<int>(0, 1)) c.pieces[np - 1].pause = 2;
    c.prequeue = c.dir == 0 ? *range<int>(0, std::min(np, 2)) : 0;
    if (c.start_ex_direct && c.prequeue == 0) c.prequeue = 1;
    c.end = slow ? *rc::gen::element(0, 0, 1) : *rc::gen::weightedElement<int>({{1, 0}, {4, 1}, {2, 2}});
    c.cb_policy = *rc::gen::weightedElement<int>({{6, 0}, {1, 1}, {1, 2}, {1, 3}});
    // dispatch receive tasks: decline to continue without stopping, stay paused, re-enable later (peer ends the stream so the run completes)
    if (c.ev_flags == 2 && c.dir == 0 && c.handler == 0 && c.end != 0 && *range<int>(0, 2) == 0) c.cb_policy = 4;
    // ... and make sure the slow (short-timeout) scenarios contain this shape often enough: paused for longer than the timeout
    if (slow && c.dir == 0 && c.handler == 0 && *range<int>(0, 2) == 0) { c.ev_flags = 2; c.cb_policy = 4; c.end = *rc::gen::element(1, 2); c.after_every_read = *rc::gen::element(1, 1, 0); }
    c.rearm = (c.dir == 0 && c.handler == 0) ? *rc::gen::weightedElement<int>({{4, 0}, {1, 1}}) : 0;
    c.sndbuf = c.dir == 1 ? *rc::gen::element(0, 0, 2304) : 0;
    // the task owns a dup() of the socket and closes it on destroy; the harness' descriptor keeps the open file description alive
    c.close_on_destroy = (c.handler == 0) ? *rc::gen::weightedElement<int>({{3, 0}, {1, 1}}) : 0;
    c.plan = *bytes_upto(12);
    if (c.dir == 0 && c.handler == 0 && !slow && *range<int>(0, 4) == 0) {
      // fragments that arrive between two reads of one handler run (written from inside the library's recv()): sizes around the window
      c.inject_on_recv = 1; c.after_every_read = *rc::gen::element(0, 0, 1);
      for (auto &p : c.pieces) { p.len = std::max(1, std::min(2048, *rc::gen::element(c.win_len / 3 + 1, c.win_len / 2 + 1, c.win_len * 2 / 3 + 1, c.win_len))); p.pause = 0; }
    }
    if (c.handler == 0 && *range<int>(0, 19) == 0) {
      // a window that reaches past the end of the buffer (also one that starts past it): the direct first transfer must refuse it
      c.bad_window = 1; c.start_ex_direct = 1; c.cb_policy = 0; c.rearm = 0; c.close_on_destroy = 0;
      if (c.dir == 0 && c.prequeue == 0) c.prequeue = 1;
      c.win_len = *range<int>(1, 8);
      c.win_off = *range<int>(c.buf_size - c.win_len + 1, c.buf_size + 24);
      c.used0 = 0;
      return c;
    }
    if (*range<int>(0, 5) == 0)
      c.faults.push_back(Fault{*rc::gen::element<int>(F_EPOLL_CTL, F_EPOLL_CTL, F_TIMERFD_CREATE, F_TIMERFD_SETTIME), *range<int>(1, 4), *rc::gen::element<int>(ENOMEM, EMFILE, EINVAL)});
    return c;
  });
}

// ---------------------------------------------------------------- file variant: tp_task_rw_handler (pread / pwrite at a file offset)
struct FileCase {
  int dir = 0, buf_size = 64, win_off = 0, win_len = 64, used0 = 0, file_size = 0, file_off = 0, sealed = 0;
  std::string ser() const {
    Writer w;
    w.i("dir", dir).i("buf_size", buf_size).i("win_off", win_off).i("win_len", win_len).i("used0", used0).i("file_size", file_size).i("file_off", file_off).i("sealed", sealed);
    return w.str();
  }
  static FileCase parse(const std::string &t) {
    Reader r(t);
    FileCase c;
    c.dir = (int)r.i("dir"); c.buf_size = (int)r.i("buf_size", 64); c.win_off = (int)r.i("win_off"); c.win_len = (int)r.i("win_len", 64); c.used0 = (int)r.i("used0");
    c.file_size = (int)r.i("file_size"); c.file_off = (int)r.i("file_off"); c.sealed = (int)r.i("sealed");
    return c;
  }
};
void showValue(const FileCase &c, std::ostream &os) { os << c.ser(); }

static Verdict run_file(const FileCase &c) {
  PBT_REQUIRE(c.win_len >= 1 && c.win_off + c.win_len <= c.buf_size && c.buf_size <= 4096 && c.file_size <= 8000 && c.file_off + c.win_len <= 8192, "harness: file scenario outside its envelope");
  c16f_scn s;
  memset(&s, 0, sizeof s);
  s.dir = (uint8_t)c.dir; s.buf_size = (uint16_t)c.buf_size; s.win_off = (uint16_t)c.win_off; s.win_len = (uint16_t)c.win_len; s.used0 = (uint16_t)c.used0;
  s.file_size = (uint32_t)c.file_size; s.file_off = (uint32_t)c.file_off; s.sealed = (uint8_t)(c.sealed && c.dir == 1);
  std::unique_ptr<c16f_out> op(new c16f_out());
  c16f_out &o = *op;
  alarm(120);
  c16f_run(&s, &o);
  alarm(0);
  PBT_REQUIRE(o.setup_rc == 0, "harness: setup failed " << o.setup_rc);
  PBT_REQUIRE(o.res.live_fds == 0 && o.res.live_allocs == 0 && o.res.double_free == 0, "file task left resources behind (descriptors " << o.res.live_fds << ", allocations " << o.res.live_allocs << ")");
  std::ostringstream tg;
  tg << (c.dir ? "write" : "read") << " task, window [" << c.win_off << "," << c.win_off + c.win_len << ") of " << c.buf_size << ", file of " << c.file_size << " bytes" << (s.sealed ? " (cannot grow)" : "") << ", offset " << c.file_off;
  std::string tag = tg.str();
  PBT_REQUIRE(o.start_rc == 0, tag << ": tp_task_start_ex() returned " << o.start_rc << " (callbacks made: " << o.ncb << ")");
  PBT_REQUIRE(o.ncb == 1, tag << ": " << o.ncb << " callbacks, exactly one report is expected for the direct transfer");
  const c16_cb &cb = o.cb[0];
  PBT_REQUIRE(cb.on_owner, tag << ": callback on a foreign thread");
  const uint8_t *img = o.buf_image;
  for (int i = 0; i < 32; i++) PBT_REQUIRE(img[i] == 0xfd && img[32 + c.buf_size + i] == 0xfd, tag << ": bytes outside the buffer were modified");
  const uint8_t *buf = img + 32;
  uint64_t n = cb.transfered;
  PBT_REQUIRE(n <= (uint64_t)c.win_len, tag << ": " << n << " bytes reported, the window has " << c.win_len);
  PBT_REQUIRE(cb.offset == (uint64_t)c.win_off + n && cb.tr_size == (uint64_t)c.win_len - n, tag << ": cursors offset/transfer_size " << cb.offset << "/" << cb.tr_size << " after " << n << " bytes");
  if (c.dir == 0) {
    uint64_t avail = c.file_size > c.file_off ? (uint64_t)(c.file_size - c.file_off) : 0, want = std::min<uint64_t>(avail, c.win_len);
    PBT_REQUIRE(cb.error == 0, tag << ": error " << cb.error);
    PBT_REQUIRE(n == want, tag << ": " << n << " bytes reported, the file has " << want << " for this window");
    for (int i = 0; i < c.buf_size; i++) {
      if (i >= c.win_off && i < c.win_off + (int)n) PBT_REQUIRE(buf[i] == c16f_file_pattern((uint64_t)c.file_off + (i - c.win_off)), tag << ": window byte " << i - c.win_off << " is not the file's byte at position " << c.file_off + (i - c.win_off));
      else PBT_REQUIRE(buf[i] == 0xfe, tag << ": buffer byte " << i << " outside the transferred range was written");
    }
    PBT_REQUIRE(cb.used == std::min<uint64_t>(c.buf_size, (uint64_t)c.used0 + n), tag << ": 'used' is " << cb.used);
    if (n < (uint64_t)c.win_len) { PBT_REQUIRE(cb.eof & 2, tag << ": end of file inside the window not flagged (eof " << cb.eof << ")"); label("file_read_hits_eof"); }
    else PBT_REQUIRE(!(cb.eof & 2), tag << ": end-of-file flag although the window was filled");
    label("file_read");
  } else {
    // what the file must look like: original content (pattern, zeros in a hole), the first n window bytes at file_off
    uint64_t room = s.sealed ? (c.file_size > c.file_off ? (uint64_t)(c.file_size - c.file_off) : 0) : (uint64_t)c.win_len;
    PBT_REQUIRE(n <= room, tag << ": " << n << " bytes reported written, only " << room << " fit");
    if (n == (uint64_t)c.win_len) PBT_REQUIRE(cb.error == 0, tag << ": error " << cb.error << " although the whole window was written");
    else { PBT_REQUIRE(cb.error != 0 && cb.error != ETIMEDOUT, tag << ": only " << n << " of " << c.win_len << " bytes written but no error reported"); label("file_write_short_then_error"); }
    if (!s.sealed) PBT_REQUIRE(n == (uint64_t)c.win_len, tag << ": short write on a file that can grow");
    uint64_t size_want = std::max<uint64_t>(c.file_size, n ? (uint64_t)c.file_off + n : 0);
    PBT_REQUIRE(o.file_size_after == size_want, tag << ": file size afterwards " << o.file_size_after << ", expected " << size_want);
    for (uint64_t p = 0; p < o.file_size_after && p < sizeof(o.file_image); p++) {
      uint8_t want = (p >= (uint64_t)c.file_off && p < (uint64_t)c.file_off + n) ? c16_pattern(p - c.file_off) : (p < (uint64_t)c.file_size ? c16f_file_pattern(p) : 0);
      PBT_REQUIRE(o.file_image[p] == want, tag << ": file byte " << p << " is " << (int)o.file_image[p] << ", expected " << (int)want << " (" << n << " bytes reported written)");
    }
    label("file_write");
  }
  nontrivial_cur();
  return Verdict::pass();
}

static rc::Gen<FileCase> genFile() {
  return rc::gen::exec([]() {
    FileCase c;
    c.dir = *range<int>(0, 1);
    c.buf_size = *rc::gen::element(8, 64, 100, 512, 1000, 4096);
    c.win_off = *rc::gen::weightedElement<int>({{2, 0}, {3, *range<int>(0, c.buf_size - 1)}});
    c.win_len = *rc::gen::weightedElement<int>({{2, c.buf_size - c.win_off}, {3, *range<int>(1, c.buf_size - c.win_off)}});
    c.used0 = *rc::gen::weightedElement<int>({{3, c.win_off}, {1, 0}});
    c.file_size = *rc::gen::weightedElement<int>({{1, 0}, {3, *range<int>(1, 600)}, {2, *range<int>(3000, 5000)}, {1, 4096}, {1, 8000}});
    // offsets around the end of the file and around a page boundary
    c.file_off = *rc::gen::weightedElement<int>({{2, 0}, {3, *range<int>(0, std::max(0, c.file_size))}, {2, std::max(0, c.file_size - *range<int>(0, c.win_len))}, {1, std::max(0, 4096 - *range<int>(0, c.win_len))}});
    c.file_off = std::max(0, std::min(c.file_off, 8192 - c.win_len));
    c.sealed = (c.dir == 1) ? *range<int>(0, 1) : 0;
    return c;
  });
}

// ---------------------------------------------------------------- phase scripts: silent progress, restart with a new window, pause / re-enable
struct SStep { int op = 0, a = 0, b = 0; };
struct ScriptCase {
  int ev_flags = 0, after_every_read = 0, on_timeout = 0, pause_data_k = 0, timeout_ms = 0, buf_size = 64, win_off = 0, win_len = 64, setup_mode = 0, final_reset = 0;
  std::vector<SStep> steps;
  Bytes plan;
  std::string ser() const {
    Writer w;
    w.i("ev_flags", ev_flags).i("after_every_read", after_every_read).i("on_timeout", on_timeout).i("pause_data_k", pause_data_k).i("timeout_ms", timeout_ms)
        .i("buf_size", buf_size).i("win_off", win_off).i("win_len", win_len).i("setup_mode", setup_mode).i("final_reset", final_reset).i("nsteps", (long long)steps.size());
    for (size_t i = 0; i < steps.size(); i++) w.iv(("s" + std::to_string(i)).c_str(), {steps[i].op, steps[i].a, steps[i].b});
    w.b("plan", plan);
    return w.str();
  }
  static ScriptCase parse(const std::string &t) {
    Reader r(t);
    ScriptCase c;
    c.ev_flags = (int)r.i("ev_flags"); c.after_every_read = (int)r.i("after_every_read"); c.on_timeout = (int)r.i("on_timeout"); c.pause_data_k = (int)r.i("pause_data_k");
    c.timeout_ms = (int)r.i("timeout_ms"); c.buf_size = (int)r.i("buf_size", 64); c.win_off = (int)r.i("win_off"); c.win_len = (int)r.i("win_len", 64); c.setup_mode = (int)r.i("setup_mode"); c.final_reset = (int)r.i("final_reset");
    int n = (int)r.i("nsteps");
    for (int i = 0; i < n; i++) { auto v = r.iv(("s" + std::to_string(i)).c_str()); v.resize(3, 0); c.steps.push_back(SStep{(int)v[0], (int)v[1], (int)v[2]}); }
    c.plan = r.b("plan");
    return c;
  }
};
void showValue(const ScriptCase &c, std::ostream &os) { os << c.ser(); }

static Verdict run_script(const ScriptCase &c) {
  PBT_REQUIRE(c.buf_size >= 8 && c.buf_size <= 2048 && c.win_len >= 1 && c.win_off >= 0 && c.win_off + c.win_len <= c.buf_size, "harness: script scenario outside its envelope");
  c16s_scn s;
  memset(&s, 0, sizeof s);
  s.ev_flags = (uint8_t)(c.ev_flags == 2 ? 2 : 0); s.after_every_read = (uint8_t)(c.after_every_read != 0); s.on_timeout = (uint8_t)(c.on_timeout != 0);
  s.pause_data_k = (uint8_t)std::max(0, std::min(c.pause_data_k, 20)); s.timeout_ms = (uint16_t)c.timeout_ms; s.setup_mode = (uint8_t)(c.setup_mode != 0); s.final_reset = (uint8_t)std::max(0, std::min(c.final_reset, 3));
  s.buf_size = (uint16_t)c.buf_size; s.win_off = (uint16_t)c.win_off; s.win_len = (uint16_t)c.win_len;
  s.nsteps = (uint8_t)std::min<size_t>(c.steps.size(), C16S_MAX_STEPS);
  for (int i = 0; i < s.nsteps; i++) {
    SStep st = c.steps[i];
    if (st.op == S_RESTART) { st.a = std::max(0, std::min(st.a, c.buf_size - 1)); st.b = std::max(1, std::min(st.b, c.buf_size - st.a)); }
    if (st.op == S_WRITE) st.a = std::max(1, std::min(st.a, 4096));
    if (st.op == S_SLEEP) st.a = std::max(0, std::min(st.a, 20));
    s.steps[i].op = (uint8_t)st.op; s.steps[i].a = (uint16_t)st.a; s.steps[i].b = (uint16_t)st.b;
  }
  s.plans.plan_len = (uint32_t)std::min<size_t>(c.plan.size(), TP_PLAN_MAX);
  memcpy(s.plans.plan, c.plan.data(), s.plans.plan_len);
  Verdict v = Verdict::pass();
  for (int attempt = 0; attempt < 3; attempt++) {
    std::unique_ptr<c16s_out> op(new c16s_out());
    c16s_out &o = *op;
    alarm(300);
    c16s_run(&s, &o);
    alarm(0);
    PBT_REQUIRE(o.setup_rc == 0, "harness: setup failed " << o.setup_rc);
    PBT_REQUIRE(o.start_rc == 0, "tp_task_start() returned " << o.start_rc);
    if (o.hang) { v = Verdict::fail("hang: the owning thread stopped serving its queue"); label("hang_rerun"); continue; }
    // invariants over the history
    if (getenv("VERIF_C16S_DUMP")) for (uint32_t i = 0; i < o.nlog; i++) { const c16s_rec &r = o.log[i]; fprintf(stderr, "rec %u type %d err %d eof %u tr %llu adv %llu n %llu off %llu trsz %llu pauses %d skipped %d rc %d\n", i, r.type, r.error, r.eof, (unsigned long long)r.transfered, (unsigned long long)r.adv, (unsigned long long)r.n, (unsigned long long)r.offset, (unsigned long long)r.tr_size, r.pauses, r.skipped, r.rc); }
    bool paused = false, destroyed = false, nt = false, after_reset_report = false;
    int resets_reported = 0;
    uint64_t written_while_paused = 0;
    int pause_idx = -1;
    for (uint32_t i = 0; i < o.nlog; i++) {
      const c16s_rec &r = o.log[i];
      std::ostringstream tg;
      tg << "history record " << i;
      std::string tag = tg.str();
      switch (r.type) {
      case 1:
        PBT_REQUIRE(!destroyed, tag << ": callback (error " << r.error << ", " << r.transfered << " bytes) after tp_task_destroy() had returned on the owning thread");
        PBT_REQUIRE(!paused, tag << ": callback (error " << r.error << ", eof " << r.eof << ", " << r.transfered << " bytes) although the callback of record " << pause_idx
                                 << " answered with TP_TASK_CB_NONE and neither tp_task_enable(1) nor a restart followed");
        PBT_REQUIRE(!r.mismatch, tag << ": the bytes placed in the window are not the next bytes of the stream");
        PBT_REQUIRE(r.transfered == r.adv, tag << ": callback reports " << r.transfered << " transferred bytes, " << r.adv << " bytes were moved into the window since the previous report / (re)start");
        PBT_REQUIRE(!after_reset_report, tag << ": callback after the connection error had been reported and the task was stopped");
        if (c.final_reset && r.error != 0 && r.error != ETIMEDOUT) {
          PBT_REQUIRE(r.error == ECONNRESET, tag << ": error " << r.error << " reported, the connection was reset (ECONNRESET)");
          resets_reported++;
          after_reset_report = true;
          label(r.adv ? "script_reset_reported_with_data" : "script_reset_reported");
        } else {
          PBT_REQUIRE(r.error == 0 || r.error == ETIMEDOUT, tag << ": error " << r.error << " reported on a healthy connection");
          if (!c.final_reset) PBT_REQUIRE(!(r.eof & 2), tag << ": end of stream reported while the peer is open");
        }
        if (r.error == ETIMEDOUT) { PBT_REQUIRE(c.timeout_ms != 0, tag << ": timeout reported by a task without a timeout"); label("script_timeout_reported"); if (r.adv) label("script_timeout_reports_silent_bytes"); }
        if (r.pauses) { paused = true; pause_idx = (int)i; written_while_paused = 0; label(r.error == ETIMEDOUT ? "script_paused_on_timeout" : "script_paused_on_data"); }
        break;
      case 2:
        if (paused) { written_while_paused += r.n; label("script_data_while_paused"); nt = true; }
        break;
      case 3:
        PBT_REQUIRE(r.rc == 0, tag << ": restart returned " << r.rc);
        PBT_REQUIRE(!r.mismatch, tag << ": the bytes received before the restart are not the next bytes of the stream");
        if (r.adv) { label("script_restart_after_silent_progress"); nt = true; }
        if (paused) label("script_restart_while_paused");
        paused = false;
        break;
      case 4:
        if (r.skipped) break;
        PBT_REQUIRE(r.rc == 0, tag << ": tp_task_enable(1) returned " << r.rc);
        PBT_REQUIRE(r.n >= written_while_paused, tag << ": " << written_while_paused << " bytes arrived after the task was paused (record " << pause_idx << "), only " << r.n
                                                     << " are still queued when it is re-enabled: the paused task kept reading");
        paused = false;
        label("script_reenabled");
        break;
      case 5: destroyed = true; break;
      case 6:
        PBT_REQUIRE(r.rc == 0, tag << ": tp_task_restart() after tp_task_stop() returned " << r.rc);
        if (paused) label("script_restart_while_paused");
        paused = false;
        label("script_stop_then_restart");
        break;
      default: break;
      }
    }
    if (o.never_reported) {
      v = Verdict::fail(o.never_reported & 1 ? "the stream went on (and the task was re-enabled if paused) but the next full window was never reported"
                        : o.never_reported & 4 ? "the connection was reset with payload queued: neither the error nor the end of the stream was ever reported" : "an armed idle task never reported its timeout");
      label("never_reported_rerun");
      continue;  // reported only if it happens in 3 of 3 runs
    }
    if (c.final_reset && !o.log_overflow) { PBT_REQUIRE(resets_reported == 1, "the peer reset the connection while its last " << c.final_reset << " byte(s) were still queued: ECONNRESET was reported " << resets_reported << " times (the data arrived, the error was dropped)"); nt = true; }
    PBT_REQUIRE(!o.foreign_thread, "callback on a thread other than the task's");
    PBT_REQUIRE(!o.bad_udata, "a callback received a user pointer other than the one the task was given" << (c.setup_mode ? " through tp_task_udata_set()" : ""));
    PBT_REQUIRE(!o.accessor_mismatch, "a tp_task_*_get() accessor did not return what the matching setter stored");
    if (c.setup_mode) label("script_task_configured_through_accessors");
    PBT_REQUIRE(!o.guards_bad, "bytes outside the buffer were modified");
    PBT_REQUIRE(o.res.live_fds == 0 && o.res.live_allocs == 0 && o.res.double_free == 0, "script left resources behind (descriptors " << o.res.live_fds << ", allocations " << o.res.live_allocs << ")");
    if (o.log_overflow) label("script_log_full");
    if (nt) nontrivial_cur();
    return Verdict::pass();
  }
  return v;
}

static rc::Gen<ScriptCase> genScript() {
  return rc::gen::exec([]() {
    ScriptCase c;
    c.ev_flags = *rc::gen::element(0, 2, 2);
    c.after_every_read = *rc::gen::weightedElement<int>({{3, 0}, {1, 1}});
    c.timeout_ms = *rc::gen::weightedElement<int>({{2, 0}, {2, 60}, {1, 100}});
    c.on_timeout = *rc::gen::weightedElement<int>({{1, 0}, {2, 1}});
    c.pause_data_k = (c.ev_flags == 2) ? *rc::gen::weightedElement<int>({{3, 0}, {1, 1}, {1, 2}}) : 0;
    c.setup_mode = *rc::gen::weightedElement<int>({{2, 0}, {1, 1}});
    c.final_reset = *rc::gen::weightedElement<int>({{3, 0}, {1, 1}, {1, 2}, {1, 3}});
    c.buf_size = *rc::gen::element(32, 64, 200, 512, 2048);
    c.win_off = *rc::gen::weightedElement<int>({{2, 0}, {3, *range<int>(0, c.buf_size - 8)}});
    c.win_len = *rc::gen::weightedElement<int>({{2, c.buf_size - c.win_off}, {3, *range<int>(4, c.buf_size - c.win_off)}});
    int n = *range<int>(2, 8);
    int cur_len = c.win_len;
    for (int i = 0; i < n; i++) {
      SStep st;
      st.op = *rc::gen::weightedElement<int>({{5, (int)S_WRITE}, {c.timeout_ms ? 3 : 0, (int)S_WAIT_TIMEOUT}, {3, (int)S_RESTART}, {2, (int)S_ENABLE}, {1, (int)S_SLEEP}, {1, (int)S_STOP_RESTART}});
      if (st.op == S_WRITE) st.a = *rc::gen::weightedElement<int>({{4, *range<int>(1, std::max(1, cur_len - 1))}, {1, cur_len}, {1, *range<int>(1, 2 * c.buf_size)}});  // mostly less than the window: silent progress
      if (st.op == S_RESTART) { st.a = *range<int>(0, c.buf_size - 4); st.b = *range<int>(2, c.buf_size - st.a); cur_len = st.b; }
      if (st.op == S_SLEEP) st.a = *range<int>(1, 10);
      c.steps.push_back(st);
    }
    c.plan = *bytes_upto(8);
    return c;
  });
}

int main(int argc, char **argv) {
  add_check<TaskCase>("task_histories", 800, 100, genCase, run_case);
  add_check<FileCase>("file_tasks", 1500, 100, genFile, run_file);
  add_check<ScriptCase>("task_scripts", 500, 100, genScript, run_script);
  return driver_main(argc, argv);
}
