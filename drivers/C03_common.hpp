// C03_common.hpp -- shared by drivers/C03_sig.cpp and drivers/C09_keys.cpp (owner: C03/C09).
// Curve table (read from the shim's string table and cross-checked against OpenSSL /
// libgcrypt), OpenSSL 3 and libgcrypt wrappers used as second, fully independent
// implementations, reference anchors on published vectors, byte-buffer call helpers.
#pragma once
#include "pbt.hpp"
#include "../shims/ecdsa_abi.h"
#include "ecdsa_ref.hpp"
#pragma GCC diagnostic ignored "-Wdeprecated-declarations"
#include <openssl/bn.h>
#include <openssl/ec.h>
#include <openssl/ecdsa.h>
#include <openssl/objects.h>
#include <openssl/err.h>
#include <gcrypt.h>
#include <memory>

namespace c39 {
using namespace pbt;
using ecref::Curve;
using ecref::Pt;
using ecref::Z;

struct CurveX {
  Curve c;
  int idx = 0;
  EC_GROUP *og = nullptr;  // OpenSSL group (by NID for the 21 named curves, explicit parameters otherwise)
  bool ossl_named = false;
  std::string gcry;      // libgcrypt curve name ("" if unknown to libgcrypt)
};
inline std::vector<CurveX> &curves() { static std::vector<CurveX> v; return v; }
inline BN_CTX *bnctx() { static BN_CTX *c = BN_CTX_new(); return c; }

// ---------- conversions ----------
inline Z z_of(const uint8_t *p, size_t n) { return ecref::os2ip(p, n); }
inline Z z_of(const Bytes &b) { return ecref::os2ip(b); }
inline Bytes be(const Z &v, size_t len) { return ecref::i2osp(v, len); }
inline Bytes minimal_be(const Z &v) {
  size_t n = v == 0 ? 1 : (mpz_sizeinbase(v.get_mpz_t(), 2) + 7) / 8;
  return ecref::i2osp(v, n);
}
inline Bytes rev(const Bytes &b) { return Bytes(b.rbegin(), b.rend()); }
inline std::string zs(const Z &z) { return "0x" + z.get_str(16); }
inline BIGNUM *bn_of(const Z &v) {
  Bytes b = minimal_be(v);
  return BN_bin2bn(b.data(), (int)b.size(), nullptr);
}
inline Z z_of_bn(const BIGNUM *b) {
  Bytes t((size_t)BN_num_bytes(b) + 1);
  int n = BN_bn2bin(b, t.data());
  return z_of(t.data(), (size_t)n);
}

// ---------- OpenSSL ----------
inline const char *ossl_name(const std::string &n) {
  if (n == "secp192r1") return "prime192v1";
  if (n == "secp256r1") return "prime256v1";
  return n.c_str();
}
inline bool ossl_point(const CurveX &cx, const Pt &P, EC_POINT *out) {
  if (P.inf) return EC_POINT_set_to_infinity(cx.og, out) == 1;
  BIGNUM *x = bn_of(P.x), *y = bn_of(P.y);
  int ok = EC_POINT_set_affine_coordinates(cx.og, out, x, y, bnctx());
  BN_free(x); BN_free(y);
  return ok == 1;
}
inline Pt pt_of_ossl(const CurveX &cx, const EC_POINT *p) {
  if (EC_POINT_is_at_infinity(cx.og, p)) return Pt();
  BIGNUM *x = BN_new(), *y = BN_new();
  EC_POINT_get_affine_coordinates(cx.og, p, x, y, bnctx());
  Pt r(z_of_bn(x), z_of_bn(y));
  BN_free(x); BN_free(y);
  return r;
}
// k*G with OpenSSL's arithmetic (second implementation of the group law, all 32 curves)
inline Pt ossl_mul_g(const CurveX &cx, const Z &k) {
  EC_POINT *R = EC_POINT_new(cx.og);
  BIGNUM *bk = bn_of(k);
  EC_POINT_mul(cx.og, R, bk, nullptr, nullptr, bnctx());
  Pt r = pt_of_ossl(cx, R);
  BN_free(bk); EC_POINT_free(R);
  return r;
}
inline Pt ossl_mul(const CurveX &cx, const Z &k, const Pt &P) {
  EC_POINT *R = EC_POINT_new(cx.og), *Q = EC_POINT_new(cx.og);
  Pt r;
  if (ossl_point(cx, P, Q)) {
    BIGNUM *bk = bn_of(k);
    EC_POINT_mul(cx.og, R, nullptr, Q, bk, bnctx());
    r = pt_of_ossl(cx, R);
    BN_free(bk);
  }
  EC_POINT_free(R); EC_POINT_free(Q);
  return r;
}
// SEC 1 2.3.4 via EC_POINT_oct2point: 1 decoded, 0 rejected
inline int ossl_decode(const CurveX &cx, const Bytes &o, Pt &out) {
  EC_POINT *P = EC_POINT_new(cx.og);
  ERR_clear_error();
  int ok = EC_POINT_oct2point(cx.og, P, o.data(), o.size(), bnctx());
  if (ok == 1) out = pt_of_ossl(cx, P);
  EC_POINT_free(P);
  ERR_clear_error();
  return ok == 1;
}
// ECDSA_do_verify: 1 valid, 0 invalid, -1 error (e.g. point not on curve)
inline int ossl_verify(const CurveX &cx, const Bytes &H, const Z &r, const Z &s, const Pt &Q) {
  EC_KEY *key = EC_KEY_new();
  EC_POINT *P = EC_POINT_new(cx.og);
  int res = -1;
  ERR_clear_error();
  if (EC_KEY_set_group(key, cx.og) == 1 && ossl_point(cx, Q, P) && EC_KEY_set_public_key(key, P) == 1) {
    ECDSA_SIG *sig = ECDSA_SIG_new();
    ECDSA_SIG_set0(sig, bn_of(r), bn_of(s));
    res = ECDSA_do_verify(H.data(), (int)H.size(), sig, key);
    ECDSA_SIG_free(sig);
  }
  EC_POINT_free(P); EC_KEY_free(key);
  ERR_clear_error();
  return res;
}
// ECDSA_do_sign_ex with caller supplied k (k^-1 and r computed with OpenSSL): deterministic
inline bool ossl_sign(const CurveX &cx, const Bytes &H, const Z &d, const Z &k, Z &r, Z &s) {
  bool ok = false;
  EC_KEY *key = EC_KEY_new();
  BIGNUM *bd = bn_of(d), *bk = bn_of(k), *kinv = BN_new(), *rp = BN_new(), *x = BN_new();
  EC_POINT *R = EC_POINT_new(cx.og);
  const BIGNUM *order = EC_GROUP_get0_order(cx.og);
  ERR_clear_error();
  if (EC_KEY_set_group(key, cx.og) == 1 && EC_KEY_set_private_key(key, bd) == 1 &&
      EC_POINT_mul(cx.og, R, bk, nullptr, nullptr, bnctx()) == 1 && !EC_POINT_is_at_infinity(cx.og, R) &&
      EC_POINT_get_affine_coordinates(cx.og, R, x, nullptr, bnctx()) == 1 && BN_nnmod(rp, x, order, bnctx()) == 1 &&
      !BN_is_zero(rp) && BN_mod_inverse(kinv, bk, order, bnctx()) != nullptr) {
    ECDSA_SIG *sig = ECDSA_do_sign_ex(H.data(), (int)H.size(), kinv, rp, key);
    if (sig) {
      const BIGNUM *sr, *ss;
      ECDSA_SIG_get0(sig, &sr, &ss);
      r = z_of_bn(sr); s = z_of_bn(ss);
      ok = true;
      ECDSA_SIG_free(sig);
    }
  }
  EC_POINT_free(R); BN_free(bd); BN_free(bk); BN_free(kinv); BN_free(rp); BN_free(x); EC_KEY_free(key);
  ERR_clear_error();
  return ok;
}

// ---------- libgcrypt (GOST R 34.10 verification, 10 of the 11 GOST curves) ----------
inline const char *gcry_name(const std::string &n) {
  if (n == "id-gostR3410-2001-Test_ParamSet") return "GOST2001-test";
  if (n == "id-gostR3410-2001-CryptoPro-A-ParamSet") return "GOST2001-CryptoPro-A";
  if (n == "id-gostR3410-2001-CryptoPro-B-ParamSet") return "GOST2001-CryptoPro-B";
  if (n == "id-gostR3410-2001-CryptoPro-C-ParamSet") return "GOST2001-CryptoPro-C";
  if (n == "id-gostR3410-2001-CryptoPro-XchA-ParamSet") return "1.2.643.2.2.36.0";
  if (n == "id-gostR3410-2001-CryptoPro-XchB-ParamSet") return "1.2.643.2.2.36.1";
  if (n == "id-tc26-gost-3410-12-512-paramSetA") return "GOST2012-512-tc26-A";
  if (n == "id-tc26-gost-3410-12-512-paramSetB") return "GOST2012-512-tc26-B";
  if (n == "id-tc26-gost-3410-2012-512-paramSetTest") return "GOST2012-512-test";
  return "";
}
inline gcry_mpi_t gmpi(const Z &v) {
  Bytes b = minimal_be(v);
  gcry_mpi_t m = nullptr;
  gcry_mpi_scan(&m, GCRYMPI_FMT_USG, b.data(), b.size(), nullptr);
  return m;
}
// 1 valid, 0 bad signature, -1 other error; alpha = integer of the hash
inline int gcry_gost_verify(const CurveX &cx, const Z &alpha, const Z &r, const Z &s, const Pt &Q) {
  if (cx.gcry.empty() || Q.inf) return -1;
  gcry_sexp_t pk = nullptr, data = nullptr, sig = nullptr;
  Bytes q = ecref::encode(cx.c, Q, ecref::F_UNCOMPRESSED);
  gcry_mpi_t ma = gmpi(alpha), mr = gmpi(r), ms = gmpi(s);
  int res = -1;
  if (!gcry_sexp_build(&pk, nullptr, "(public-key (ecc (curve %s) (q %b)))", cx.gcry.c_str(), (int)q.size(), q.data()) &&
      !gcry_sexp_build(&data, nullptr, "(data (flags gost) (value %m))", ma) &&
      !gcry_sexp_build(&sig, nullptr, "(sig-val (gost (r %m)(s %m)))", mr, ms)) {
    gcry_error_t e = gcry_pk_verify(sig, data, pk);
    res = e == 0 ? 1 : (gcry_err_code(e) == GPG_ERR_BAD_SIGNATURE ? 0 : -1);
  }
  gcry_mpi_release(ma); gcry_mpi_release(mr); gcry_mpi_release(ms);
  gcry_sexp_release(pk); gcry_sexp_release(data); gcry_sexp_release(sig);
  return res;
}

// ---------- setup: table -> reference curves, cross-check against OpenSSL / libgcrypt ----------
inline void die(const std::string &m) {
  fprintf(stderr, "CHECK-BROKEN (reference anchor): %s\n", m.c_str());
  exit(2);
}
inline Z sexp_mpi(gcry_sexp_t s, const char *tok) {
  gcry_sexp_t l = gcry_sexp_find_token(s, tok, 0);
  if (!l) return Z(-1);
  gcry_mpi_t m = gcry_sexp_nth_mpi(l, 1, GCRYMPI_FMT_USG);
  unsigned char *buf = nullptr;
  size_t n = 0;
  gcry_mpi_aprint(GCRYMPI_FMT_USG, &buf, &n, m);
  Z z = z_of(buf, n);
  gcry_free(buf); gcry_mpi_release(m); gcry_sexp_release(l);
  return z;
}
inline void setup_curves() {
  if (!curves().empty()) return;
  if (!gcry_check_version(nullptr)) die("libgcrypt init");
  gcry_control(GCRYCTL_DISABLE_SECMEM, 0);
  gcry_control(GCRYCTL_INITIALIZATION_FINISHED, 0);
  int n = es_curve_count();
  for (int i = 0; i < n; i++) {
    es_curve_t t;
    if (es_curve_info(i, &t) != 0) die("curve table entry " + std::to_string(i) + " does not parse as hex");
    CurveX cx;
    cx.idx = i;
    cx.c.name = t.name;
    cx.c.p = z_of(t.p, ES_MAXB); cx.c.a = z_of(t.a, ES_MAXB); cx.c.b = z_of(t.b, ES_MAXB);
    cx.c.gx = z_of(t.gx, ES_MAXB); cx.c.gy = z_of(t.gy, ES_MAXB); cx.c.n = z_of(t.n, ES_MAXB);
    cx.c.h = t.h; cx.c.m = t.m; cx.c.bytes = t.bytes;
    cx.c.algo = t.algo == 1 ? ecref::ALGO_GOST : ecref::ALGO_ECDSA;
    // OpenSSL group
    int nid = cx.c.algo == ecref::ALGO_ECDSA ? OBJ_txt2nid(ossl_name(cx.c.name)) : 0;
    if (nid != 0) cx.og = EC_GROUP_new_by_curve_name(nid);
    ERR_clear_error();
    if (cx.og) {
      cx.ossl_named = true;
      BIGNUM *p = BN_new(), *a = BN_new(), *b = BN_new();
      EC_GROUP_get_curve(cx.og, p, a, b, bnctx());
      Pt g = pt_of_ossl(cx, EC_GROUP_get0_generator(cx.og));
      Z on = z_of_bn(EC_GROUP_get0_order(cx.og)), oh = z_of_bn(EC_GROUP_get0_cofactor(cx.og));
      if (z_of_bn(p) != cx.c.p || z_of_bn(a) != cx.c.a || z_of_bn(b) != cx.c.b || g.x != cx.c.gx || g.y != cx.c.gy ||
          on != cx.c.n || oh != cx.c.h)
        die("curve table entry " + cx.c.name + " differs from OpenSSL's parameters");
      BN_free(p); BN_free(a); BN_free(b);
    } else {
      if (cx.c.algo == ecref::ALGO_ECDSA) die("OpenSSL does not know " + cx.c.name);
      BIGNUM *p = bn_of(cx.c.p), *a = bn_of(cx.c.a), *b = bn_of(cx.c.b), *o = bn_of(cx.c.n), *h = bn_of(Z(cx.c.h));
      cx.og = EC_GROUP_new_curve_GFp(p, a, b, bnctx());
      if (!cx.og) die("OpenSSL rejects explicit parameters of " + cx.c.name);
      EC_POINT *g = EC_POINT_new(cx.og);
      if (!ossl_point(cx, Pt(cx.c.gx, cx.c.gy), g) || EC_GROUP_set_generator(cx.og, g, o, h) != 1)
        die("OpenSSL rejects the generator of " + cx.c.name);
      EC_POINT_free(g); BN_free(p); BN_free(a); BN_free(b); BN_free(o); BN_free(h);
      cx.gcry = gcry_name(cx.c.name);
      if (!cx.gcry.empty()) {
        gcry_sexp_t s = gcry_pk_get_param(GCRY_PK_ECC, cx.gcry.c_str());
        if (!s) die("libgcrypt does not know " + cx.gcry);
        Z g2 = sexp_mpi(s, "g");
        Bytes gb = minimal_be(g2);
        Pt G2;
        if (sexp_mpi(s, "p") != cx.c.p || sexp_mpi(s, "a") != cx.c.a || sexp_mpi(s, "b") != cx.c.b ||
            sexp_mpi(s, "n") != cx.c.n || ecref::decode(cx.c, gb, G2) != 0 || G2 != Pt(cx.c.gx, cx.c.gy))
          die("curve table entry " + cx.c.name + " differs from libgcrypt's " + cx.gcry);
        gcry_sexp_release(s);
      }
    }
    // reference-side sanity of every entry (own arithmetic): G on curve, nG = O
    if (!ecref::on_curve(cx.c, ecref::G(cx.c)) || !ecref::mul(cx.c, cx.c.n, ecref::G(cx.c)).inf)
      die("reference: generator of " + cx.c.name + " is not a point of order n");
    curves().push_back(cx);
  }
}
// ecdsa_curve_from_str() succeeded in this build variant (loaded on first use: the fixed-base tables of one
// curve cost up to seconds in the slow variants, and a replay needs one curve only)
inline bool lib_curve(const CurveX &cx) {
  static std::map<int, bool> st;
  auto it = st.find(cx.idx);
  if (it != st.end()) return it->second;
  bool ok = es_curve_load(cx.idx) == 0;
  st[cx.idx] = ok;
  return ok;
}
inline const CurveX *curve_by_name(const char *n) {
  for (auto &c : curves()) if (c.c.name == n) return &c;
  return nullptr;
}

// ---------- anchors of the reference on published vectors ----------
inline void anchor_sig(const char *curve, const char *d, const char *t, const char *k, const char *r, const char *s,
                       size_t hash_len) {
  const CurveX *cx = curve_by_name(curve);
  if (!cx) die(std::string("anchor curve missing: ") + curve);
  Z zd = ecref::hexz(d), zt = ecref::hexz(t), zk = ecref::hexz(k), zr = ecref::hexz(r), zs_ = ecref::hexz(s), gr, gs;
  Bytes H = be(zt, hash_len);
  Z rep = cx->c.algo == ecref::ALGO_GOST ? zt : ecref::bits2int(cx->c, H);
  if (!ecref::sign(cx->c, zd, rep, zk, gr, gs) || gr != zr || gs != zs_)
    die(std::string("reference signer does not reproduce the published vector on ") + curve);
  Pt Q = ecref::mul(cx->c, zd, ecref::G(cx->c));
  if (!ecref::verify(cx->c, Q, rep, zr, zs_) || ecref::verify(cx->c, Q, rep + 1, zr, zs_))
    die(std::string("reference verifier fails the published vector on ") + curve);
  if (cx->ossl_named && ossl_verify(*cx, H, zr, zs_, Q) != 1) die(std::string("OpenSSL rejects the published vector on ") + curve);
  if (!cx->gcry.empty() && gcry_gost_verify(*cx, zt, zr, zs_, Q) != 1) die(std::string("libgcrypt rejects the published vector on ") + curve);
  if (ossl_mul_g(*cx, zd) != Q) die(std::string("OpenSSL and reference disagree on d*G on ") + curve);
}
inline void anchors() {
  // ANS X9.62-1998 J.3.1 (P-192, SHA-1("abc"))
  anchor_sig("secp192r1", "1a8d598fc15bf0fd89030b5cb1111aeb92ae8baf5ea475fb", "a9993e364706816aba3e25717850c26c9cd0d89d",
             "fa6de29746bbeb7f8bb1e761f85f7dfb2983169d82fa2f4e", "885052380ff147b734c330c43d39b2c4a89f29b0f749fead",
             "e9ecc78106def82bf1070cf1d4d804c3cb390046951df686", 20);
  // RFC 6979 A.2.5 (P-256, SHA-256("sample"))
  anchor_sig("secp256r1", "c9afa9d845ba75166b5c215767b1d6934e50c3db36e89b127b8a622b120f6721",
             "af2bdbe1aa9b6ec1e2ade1d694f41fc71a831d0268e9891562113d8a62add1bf",
             "a6e3c57dd01abe90086538398355dd4c3b17aa873382b0f24d6129493d8aad60",
             "efd48b2aacb6a8fd1140dd9cd45e81d69d2c877b56aaf991c34d0ea84eaf3716",
             "f7cb1c942d657c41d436c7a1b6e29f65f3e900dbb9aff4064dc4ab2f843acda8", 32);
  // GOST R 34.10-2012 annex A.1 (256 bit) and A.2 (512 bit)
  anchor_sig("id-gostR3410-2001-Test_ParamSet", "7a929ade789bb9be10ed359dd39a72c11b60961f49397eee1d19ce9891ec3b28",
             "2dfbc1b372d89a1188c09c52e0eec61fce52032ab1022e8e67ece6672b043ee5",
             "77105c9b20bcd3122823c8cf6fcc7b956de33814e95b7fe64fed924594dceab3",
             "41aa28d2f1ab148280cd9ed56feda41974053554a42767b83ad043fd39dc0493",
             "01456c64ba4642a1653c235a98a60249bcd6d3f746b631df928014f6c5bf9c40", 32);
  anchor_sig("id-tc26-gost-3410-2012-512-paramSetTest",
             "0ba6048aadae241ba40936d47756d7c93091a0e8514669700ee7508e508b102072e8123b2200a0563322dad2827e2714a2636b7bfd18aadfc62967821fa18dd4",
             "3754f3cfacc9e0615c4f4a7c4d8dab531b09b6f9c170c533a71d147035b0c5917184ee536593f4414339976c647c5d5a407adedb1d560c4fc6777d2972075b8c",
             "0359e7f4b1410feacc570456c6801496946312120b39d019d455986e364f365886748ed7a44b3e794434006011842286212273a6d14cf70ea3af71bb1ae679f1",
             "2f86fa60a081091a23dd795e1e3c689ee512a3c82ee0dcc2643c78eea8fcacd35492558486b20f1c9ec197c90699850260c93bcbcd9c5c3317e19344e173ae36",
             "1081b394696ffe8e6585e7a9362d26b6325f56778aadbc081c0bfbe933d52ff5823ce288e8c4f362526080df7f70ce406a6eeb1f56919cb92a9853bde73e5b4a",
             64);
  // point codec + square roots: every generator survives compress -> decompress in reference and OpenSSL
  for (auto &cx : curves()) {
    Pt g = ecref::G(cx.c), a, b;
    for (int form = 0; form < 3; form++) {
      Bytes o = ecref::encode(cx.c, g, form);
      if (ecref::decode(cx.c, o, a) != 0 || a != g) die("reference point codec round trip on " + cx.c.name);
      if (!ossl_decode(cx, o, b) || b != g) die("OpenSSL disagrees with the reference point codec on " + cx.c.name);
    }
  }
}

// ---------- shim call helpers ----------
struct In {
  Bytes data;
  es_in e;
  In() { e.p = nullptr; e.n = 0; e.null = 1; }
  explicit In(const Bytes &b) : data(b) { e.p = data.data(); e.n = data.size(); e.null = 0; }
  In(const In &o) : data(o.data), e(o.e) { e.p = data.data(); }
  In &operator=(const In &o) { data = o.data; e = o.e; e.p = data.data(); return *this; }
  const es_in *operator&() const { return &e; }
};
struct Out {
  Bytes data;
  es_out e;
  Out() { e.p = nullptr; e.cap = 0; e.null = 1; }
  explicit Out(size_t cap) : data(cap ? cap : 1, 0) { e.p = data.data(); e.cap = cap; e.null = 0; }
  Out(const Out &) = delete;
  es_out *operator&() { return &e; }
  Bytes bytes(size_t n) const { return Bytes(data.begin(), data.begin() + std::min(n, (size_t)e.cap)); }
};
inline Bytes ord(int mode, const Bytes &b) { return mode == ES_LE ? rev(b) : b; }

// public key encodings understood by the import functions
enum PkEnc { PK_COMPRESSED = 0, PK_PACKED = 1, PK_SPLIT = 2, PK_CONCAT = 3, PK_HYBRID = 4, PK_NENC = 5 };
struct PkBytes { Bytes x, y; bool has_y = false; size_t size = 0; };
// encoding of a finite point for the be (le = 0) or le entry points; infinity -> 00
inline PkBytes pk_encode(const Curve &c, const Pt &P, int enc, int le) {
  PkBytes o;
  if (P.inf) { o.x = Bytes(1, 0); o.size = 1; return o; }
  Bytes X = be(P.x, c.bytes), Y = be(P.y, c.bytes);
  if (le) { X = rev(X); Y = rev(Y); }
  int yb = (int)mpz_tstbit(P.y.get_mpz_t(), 0);
  switch (enc) {
  case PK_COMPRESSED: o.x.push_back((uint8_t)(2 + yb)); o.x.insert(o.x.end(), X.begin(), X.end()); break;
  case PK_PACKED: case PK_HYBRID:
    o.x.push_back(enc == PK_HYBRID ? (uint8_t)(6 + yb) : (uint8_t)4);
    o.x.insert(o.x.end(), X.begin(), X.end()); o.x.insert(o.x.end(), Y.begin(), Y.end()); break;
  case PK_SPLIT: o.x = X; o.y = Y; o.has_y = true; break;
  default: o.x = X; o.x.insert(o.x.end(), Y.begin(), Y.end()); break;
  }
  o.size = o.x.size();
  return o;
}
inline const char *enc_name(int e) {
  static const char *n[] = {"compressed", "packed04", "split", "concat", "hybrid"};
  return (e >= 0 && e < PK_NENC) ? n[e] : "?";
}
inline const char *mode_name(int m) { return m == ES_BE ? "be" : m == ES_LE ? "le" : "bn"; }

// the library's documented mapping of random input to a scalar (ecdsa.h: "k = (c mod (n - 1)) + 1",
// implemented by bn_mod_reduce as: unchanged when c < n)
inline Z lib_reduce(const Z &c, const Z &n) {
  if (c < n) return c;
  return ecref::mod(c, n - 1) + 1;
}

}  // namespace c39
