// C16 (second unit) -- datagram receiver, accept, connect and connect_ex tasks:
//   pkt_histories : tp_task_pkt_rcvr_handler on AF_UNIX SOCK_DGRAM pairs / UDP loopback
//   conn_histories: tp_task_accept_handler (accept_create / bind_accept_create), tp_task_connect_handler,
//                   tp_task_connect_ex_handler/start (documented retry order, attempts seen at the interposed connect())
#include "pbt.hpp"
#include "../shims/tp_abi.h"
#include <cerrno>
#include <climits>
#include <memory>
#include <netinet/in.h>
#include <sys/socket.h>

using namespace pbt;

struct Fault { int fn = 0, k = 0, err = 0; };
static void ser_faults(Writer &w, const Bytes &plan, const std::vector<Fault> &faults) {
  w.b("plan", plan);
  std::vector<long long> f;
  for (auto &x : faults) { f.push_back(x.fn); f.push_back(x.k); f.push_back(x.err); }
  w.iv("faults", f);
}
static void parse_faults(const Reader &r, Bytes &plan, std::vector<Fault> &faults) {
  plan = r.b("plan");
  auto f = r.iv("faults");
  for (size_t j = 0; j + 3 <= f.size(); j += 3) faults.push_back(Fault{(int)f[j], (int)f[j + 1], (int)f[j + 2]});
}
static std::string scratch_dir();
static void fill_plans(tp_plans &p, const Bytes &plan, const std::vector<Fault> &faults) {
  p.plan_len = (uint32_t)std::min<size_t>(plan.size(), TP_PLAN_MAX);
  memcpy(p.plan, plan.data(), p.plan_len);
  p.nfaults = (uint32_t)std::min<size_t>(faults.size(), TP_FAULT_MAX);
  for (uint32_t i = 0; i < p.nfaults; i++) { p.faults[i].fn = (uint8_t)faults[i].fn; p.faults[i].k = (uint32_t)faults[i].k; p.faults[i].err = faults[i].err; }
}
static rc::Gen<std::vector<Fault>> genFaults(int one_in) {
  return rc::gen::exec([one_in]() {
    std::vector<Fault> v;
    if (*range<int>(0, one_in - 1) == 0)
      v.push_back(Fault{*rc::gen::element<int>(F_EPOLL_CTL, F_EPOLL_CTL, F_TIMERFD_CREATE, F_TIMERFD_SETTIME), *rc::gen::weightedElement<int>({{4, 1}, {3, 2}, {1, 3}, {1, 4}, {1, 5}}), *rc::gen::element<int>(ENOMEM, EMFILE, EINVAL)});
    return v;
  });
}
static uint32_t injected(const tp_res_stats &r) {
  uint32_t inj = 0;
  for (int f = 0; f < F_LAST; f++) inj += r.injected[f];
  return inj;
}

// =====================================================================================================================
// (1) pkt_histories
struct Dg { int len = 1, pause = 0; };
struct PktCase {
  int transport = 0, buf_size = 64, used0 = 0, off0 = 0, tr0 = 64, reset_policy = 0, timeout_ms = 0, close_on_destroy = 0, prequeue = 0,
      stop_at = 0, stop_how = 1, timeout_action = 0, wait_timeout_end = 0;
  std::vector<Dg> dg;
  Bytes plan;
  std::vector<Fault> faults;
  std::string ser() const {
    Writer w;
    w.i("transport", transport).i("buf_size", buf_size).i("used0", used0).i("off0", off0).i("tr0", tr0).i("reset_policy", reset_policy)
        .i("timeout_ms", timeout_ms).i("close_on_destroy", close_on_destroy).i("prequeue", prequeue).i("stop_at", stop_at).i("stop_how", stop_how)
        .i("timeout_action", timeout_action).i("wait_timeout_end", wait_timeout_end);
    std::vector<long long> v;
    for (auto &d : dg) { v.push_back(d.len); v.push_back(d.pause); }
    w.iv("dgrams", v);
    ser_faults(w, plan, faults);
    return w.str();
  }
  static PktCase parse(const std::string &t) {
    Reader r(t);
    PktCase c;
    c.transport = (int)r.i("transport"); c.buf_size = (int)r.i("buf_size", 64); c.used0 = (int)r.i("used0"); c.off0 = (int)r.i("off0"); c.tr0 = (int)r.i("tr0", 64);
    c.reset_policy = (int)r.i("reset_policy"); c.timeout_ms = (int)r.i("timeout_ms"); c.close_on_destroy = (int)r.i("close_on_destroy"); c.prequeue = (int)r.i("prequeue");
    c.stop_at = (int)r.i("stop_at"); c.stop_how = (int)r.i("stop_how", 1); c.timeout_action = (int)r.i("timeout_action"); c.wait_timeout_end = (int)r.i("wait_timeout_end");
    auto v = r.iv("dgrams");
    for (size_t j = 0; j + 2 <= v.size(); j += 2) c.dg.push_back(Dg{(int)v[j], (int)v[j + 1]});
    parse_faults(r, c.plan, c.faults);
    return c;
  }
};
void showValue(const PktCase &c, std::ostream &os) { os << c.ser(); }

static Verdict evaluate_pkt(const PktCase &c, const c16p_out &o) {
  if (o.skipped) { label("skipped_no_udp_loopback"); return Verdict::pass(); }
  PBT_REQUIRE(o.setup_rc == 0, "harness: setup failed " << o.setup_rc);
  const uint32_t inj = injected(o.res);
  const int size = c.buf_size;
  PBT_REQUIRE(o.res.live_fds == o.base_live_fds, "after destroy of the task and of the pool " << (long)o.res.live_fds - (long)o.base_live_fds
                                                     << " descriptor(s) owned by the library are still open (timer / CLOSE_ON_DESTROY socket)");
  PBT_REQUIRE(o.res.live_allocs == 0, "task memory not released: " << o.res.live_allocs << " allocation(s)");
  PBT_REQUIRE(o.res.double_free == 0, "task freed twice");
  PBT_REQUIRE(o.cb_after_stop == 0, o.cb_after_stop << " callback(s) after stop/destroy/disable had returned on the task's own thread");
  PBT_REQUIRE(!o.hang, "hang: the owner thread stopped serving its queue");
  if (o.start_rc != 0) {
    PBT_REQUIRE(inj > 0, "tp_task_pkt_rcvr_create failed with " << o.start_rc << " without an injected fault");
    PBT_REQUIRE(o.ncb == 0, "callbacks after a failed start");
    label("start_failed_cleanly");
    nontrivial_cur();
    return Verdict::pass();
  }
  if (o.ncb > C16P_MAX_CB && c.transport != 1) {
    PBT_REQUIRE(o.wait_failed != 1, "a datagram was never handed to the callback (ceiling hit) while " << o.ncb << " other reports were made");
    PBT_REQUIRE(o.wait_failed != 2, "an armed idle task never reported its timeout");
  }
  PBT_REQUIRE(o.ncb <= C16P_MAX_CB, "callback storm: " << o.ncb << " callbacks for " << o.nsent << " datagrams");
  // model of the buffer image and of the cursors
  std::vector<uint8_t> img(C16P_IMG, 0xfd);
  for (int i = 0; i < size; i++) img[32 + i] = 0xfe;
  uint64_t used = c.used0, off = c.off0, tr = c.tr0;
  auto reset_in_tree = [&]() { used = 0; off = 0; tr = size; for (int i = 0; i < size; i++) img[32 + i] = 0xfe; };
  uint32_t j = 0, ndata = 0, n_timeout = 0, n_err = 0, n_trunc = 0, n_zero_rep = 0, n_zero_skip = 0, nz_sent = 0;
  bool stopped = false;
  for (uint32_t i = 0; i < o.nsent; i++) if (c.dg[i].len) nz_sent++;
  auto cmp_img = [&](const uint8_t *got, std::string &why) {
    for (int p = 0; p < C16P_IMG; p++)
      if (got[p] != img[p]) {
        std::ostringstream s;
        if (p < 32 || p >= 32 + size) s << "byte outside the buffer was modified (image position " << p - 32 << ", buffer size " << size << ")";
        else s << "buffer byte " << p - 32 << " is " << (int)got[p] << ", expected " << (int)img[p] << " (cursor offset " << off << ", window " << tr << ")";
        why = s.str();
        return false;
      }
    return true;
  };
  for (uint32_t i = 0; i < o.ncb; i++) {
    const c16p_cb &cb = o.cb[i];
    std::ostringstream tg;
    tg << "callback " << i << " (error " << cb.error << " transferred " << cb.transferred << " used/offset/tr " << cb.used << "/" << cb.offset << "/" << cb.tr_size << ")";
    const std::string tag = tg.str();
    std::string why;
    PBT_REQUIRE(cb.on_owner, tag << " ran on a thread other than the task's pool thread");
    PBT_REQUIRE(!stopped, tag << " came after the callback had stopped the task");
    if (cb.error == ETIMEDOUT) {
      PBT_REQUIRE(c.timeout_ms != 0, tag << ": timeout reported by a task without timeout");
      PBT_REQUIRE(cb.transferred == 0 && cb.addr_null, tag << ": timeout report carries data");
      PBT_REQUIRE(cb.used == used && cb.offset == off && cb.tr_size == tr, tag << ": timeout report moved the cursors (expected " << used << "/" << off << "/" << tr << ")");
      PBT_REQUIRE(cmp_img(o.image[i], why), tag << ": " << why);
      uint64_t prev = i ? o.cb[i - 1].t_us : o.t_create_us;
      PBT_REQUIRE(cb.t_us - prev + 500 >= (uint64_t)c.timeout_ms * 1000, tag << ": timeout of " << c.timeout_ms << " ms reported only " << (cb.t_us - prev) << " us after the previous activity");
      n_timeout++;
      if (cb.action == 3) stopped = true;
      continue;
    }
    if (cb.error != 0) {
      n_err++;
      PBT_REQUIRE(inj > 0, tag << ": socket error reported on a healthy socket");
      reset_in_tree();
      continue;
    }
    if (cb.transferred == 0) {  // a zero-length datagram handed to the callback (the code drops them silently; both are accepted)
      PBT_REQUIRE(j < o.nsent && c.dg[j].len == 0, tag << ": empty report although datagram " << j << " has " << (j < o.nsent ? c.dg[j].len : -1) << " bytes");
      PBT_REQUIRE(cb.used == used && cb.offset == off && cb.tr_size == tr, tag << ": empty report moved the cursors");
      j++;
      n_zero_rep++;
    } else {
      while (j < o.nsent && c.dg[j].len == 0) { j++; n_zero_skip++; }
      PBT_REQUIRE(j < o.nsent, tag << ": data reported although all " << o.nsent << " datagrams were already delivered (duplicate)");
      uint64_t n = std::min<uint64_t>((uint64_t)c.dg[j].len, tr);
      PBT_REQUIRE(cb.transferred == n, tag << ": datagram " << j << " has " << c.dg[j].len << " bytes, window " << tr << ": expected transferred " << n);
      for (uint64_t k = 0; k < n; k++) img[32 + off + k] = c16p_pattern(j, (uint32_t)k);
      PBT_REQUIRE(cmp_img(o.image[i], why), tag << " for datagram " << j << ": " << why);
      used = std::min<uint64_t>(size, used + n); off = std::min<uint64_t>(size, off + n); tr -= n;
      PBT_REQUIRE(cb.used == used && cb.offset == off && cb.tr_size == tr, tag << ": buffer cursors expected " << used << "/" << off << "/" << tr);
      PBT_REQUIRE(!cb.addr_null, tag << ": no peer address with a datagram");
      if (c.transport == 2)  // two bound senders with paths of different length, datagram j comes from sender j & 1
        PBT_REQUIRE(cb.addr_family == AF_UNIX && cb.addr_unix_sender == 1 + (j & 1), tag << ": datagram " << j << " was sent from the " << ((j & 1) ? "long" : "short")
                                                                                             << "-path socket, the callback got " << (cb.addr_unix_sender == 1 ? "the short path" : cb.addr_unix_sender == 2 ? "the long path" : "another / a truncated address"));
      if (c.transport == 1)
        PBT_REQUIRE(cb.addr_family == AF_INET && cb.addr_port == o.peer_port && cb.addr_ip == 0x7f000001u,
                    tag << ": peer address family " << cb.addr_family << " port " << cb.addr_port << ", the sender is 127.0.0.1:" << o.peer_port);
      if ((uint64_t)c.dg[j].len > n) n_trunc++;
      ndata++;
      j++;
    }
    switch (cb.action) {
    case 1: reset_in_tree(); break;
    case 2: used = c.used0; off = c.off0; tr = c.tr0; for (int p = 0; p < size; p++) img[32 + p] = 0xfe; break;
    case 3: stopped = true; break;
    default: break;
    }
    if (!stopped) PBT_REQUIRE(tr > 0, "harness: callback left an empty window (caller precondition)");
  }
  {
    std::string why;
    PBT_REQUIRE(cmp_img(o.final_image, why), "after the last callback: " << why);
  }
  while (j < o.nsent && c.dg[j].len == 0) { j++; n_zero_skip++; }
  if (o.wait_failed && c.transport == 1) { label("udp_incomplete_not_judged"); return Verdict::pass(); }
  PBT_REQUIRE(o.wait_failed != 1, "datagram " << j << " of " << o.nsent << " sent was never handed to the callback (ceiling hit); " << ndata << " data callbacks");
  PBT_REQUIRE(o.wait_failed != 2, "an armed idle task (timeout " << c.timeout_ms << " ms) never reported its timeout");
  if (!inj) {
    if (!stopped) PBT_REQUIRE(ndata == nz_sent && j == o.nsent, ndata << " datagrams reported, " << nz_sent << " non-empty ones were sent");
    else if (c.stop_at && nz_sent >= (uint32_t)c.stop_at && !(c.timeout_action == 1 && n_timeout)) PBT_REQUIRE(ndata == (uint32_t)c.stop_at, "task stopped in data callback " << c.stop_at << " but " << ndata << " were made");
  }
  if (c.timeout_ms == 0) PBT_REQUIRE(n_timeout == 0, "timeout reported by a task without timeout");
  if (c.timeout_ms >= 1000 && o.run_us < 400000) PBT_REQUIRE(n_timeout == 0, "2 s timeout reported in a run of " << o.run_us << " us");
  // labels / non-trivial
  bool nt = false;
  if (ndata >= 2) nt = true;
  if (stopped) { label("stopped_from_inside_callback"); nt = true; }
  if (n_timeout) { label("timeout_reported"); nt = true; }
  if (inj) { label("fault_injected"); nt = true; }
  if (n_trunc) label("datagram_truncated_to_window");
  if (n_zero_skip) label("zero_length_dropped_silently");
  if (n_zero_rep) label("zero_length_reported");
  if (c.transport == 1) label("udp"); else if (c.transport == 2) label("unix_dgram_two_bound_senders"); else label("unix_dgram");
  if (c.reset_policy == 2 && ndata >= 2) label("accumulating_window");
  if (c.off0 != 0) label("window_not_at_buffer_start");
  if (c.prequeue && ndata) label("queued_before_start");
  if (c.close_on_destroy) label("close_on_destroy");
  if (o.late_sent) label("late_datagram_after_destroy");
  if (nt) nontrivial_cur();
  return Verdict::pass();
}

static Verdict run_pkt(const PktCase &c) {
  PBT_REQUIRE(c.buf_size >= 8 && c.buf_size <= C16P_BUF_MAX && c.tr0 >= 1 && c.off0 + c.tr0 <= c.buf_size && c.used0 <= c.buf_size && c.dg.size() <= C16P_MAX_DG && c.prequeue <= 8,
              "harness: case outside the generated domain");
  std::unique_ptr<c16p_scn> s(new c16p_scn());
  memset(s.get(), 0, sizeof(c16p_scn));
  snprintf(s->pdir, sizeof(s->pdir), "%s", scratch_dir().c_str());
  s->transport = (uint8_t)c.transport; s->buf_size = (uint16_t)c.buf_size; s->used0 = (uint16_t)c.used0; s->off0 = (uint16_t)c.off0; s->tr0 = (uint16_t)c.tr0;
  s->reset_policy = (uint8_t)c.reset_policy; s->timeout_ms = (uint16_t)c.timeout_ms; s->close_on_destroy = (uint8_t)c.close_on_destroy;
  s->prequeue = (uint8_t)c.prequeue; s->ndgrams = (uint8_t)c.dg.size();
  for (size_t i = 0; i < c.dg.size(); i++) { s->dg[i].len = (uint16_t)std::max(0, std::min(C16P_BUF_MAX + 100, c.dg[i].len)); s->dg[i].pause = (uint8_t)c.dg[i].pause; }
  s->stop_at = (uint8_t)c.stop_at; s->stop_how = (uint8_t)c.stop_how; s->timeout_action = (uint8_t)c.timeout_action; s->wait_timeout_end = (uint8_t)c.wait_timeout_end;
  fill_plans(s->plans, c.plan, c.faults);
  std::unique_ptr<c16p_out> o(new c16p_out());
  // hang policy of the framework (DESIGN 0.1): a ceiling that was hit counts only if it is hit in 3 of 3 runs of the same scenario
  for (int attempt = 0; attempt < 3; attempt++) {
    memset(o.get(), 0, sizeof(c16p_out));
    alarm(300);
    c16p_run(s.get(), o.get());
    alarm(0);
    if (!o->hang) break;
    label("hang_rerun");
  }
  return evaluate_pkt(c, *o);
}

static rc::Gen<PktCase> genPkt() {
  return rc::gen::exec([]() {
    PktCase c;
    c.transport = *rc::gen::weightedElement<int>({{3, 0}, {1, 1}, {2, 2}});
    c.buf_size = *rc::gen::element(16, 64, 100, 256, 512);
    int wk = *rc::gen::weightedElement<int>({{3, 0}, {1, 1}, {1, 2}});
    if (wk == 0) { c.used0 = 0; c.off0 = 0; c.tr0 = c.buf_size; }
    else if (wk == 1) { int u = *range<int>(1, c.buf_size - 1); c.used0 = c.off0 = u; c.tr0 = c.buf_size - u; }  // IO_BUF_BUSY_SIZE_SET + MARK_TRANSFER_ALL_FREE
    else { c.off0 = *range<int>(0, c.buf_size - 1); c.tr0 = *range<int>(1, c.buf_size - c.off0); c.used0 = c.off0; }
    c.reset_policy = wk == 0 ? *rc::gen::element(0, 0, 2) : *rc::gen::element(0, 1, 1, 2);
    bool slow = *range<int>(0, 11) == 0;
    c.timeout_ms = slow ? *rc::gen::element(40, 70) : *rc::gen::weightedElement<int>({{3, 0}, {1, 2000}});
    int nd = *range<int>(1, 10);
    bool p3 = false;
    for (int i = 0; i < nd; i++) {
      Dg d;
      d.len = *rc::gen::weightedElement<int>({{8, *range<int>(1, 40)}, {3, *range<int>(1, c.buf_size)}, {1, c.buf_size}, {1, *range<int>(c.buf_size + 1, c.buf_size + 40)}, {1, 0}});
      d.pause = slow ? *rc::gen::weightedElement<int>({{4, 0}, {2, 1}, {2, 2}, {1, 3}}) : *rc::gen::weightedElement<int>({{4, 0}, {2, 1}, {2, 2}});
      if (d.pause == 3) { if (p3) d.pause = 2; p3 = true; }
      c.dg.push_back(d);
    }
    c.prequeue = *range<int>(0, std::min(nd, 6));
    c.stop_at = *rc::gen::weightedElement<int>({{5, 0}, {3, *range<int>(1, nd)}});
    c.stop_how = *range<int>(1, 5);
    c.timeout_action = slow ? *rc::gen::element(0, 0, 1) : 0;
    c.wait_timeout_end = slow ? (p3 ? *range<int>(0, 1) : 1) : 0;
    c.close_on_destroy = *rc::gen::weightedElement<int>({{3, 0}, {1, 1}});
    c.plan = *bytes_upto(12);
    c.faults = *genFaults(7);
    return c;
  });
}

// =====================================================================================================================
// (2) conn_histories
struct Cli { int pause = 0, close_early = 0; };
struct Addr { int kind = 0, open_after = 0; };
struct ConnCase {
  int mode = 0, family = 0, close_on_destroy = 0, timeout_ms = 0, prequeue = 0, backlog = 16, reuseaddr = 0, keepalive = 0, stale_path = 0, stop_at = 0, stop_how = 1,
      timeout_action = 0, wait_timeout_end = 0, target = 0, destroy_in_cb = 0, cb_ret = 0, max_tries = 1, retry_delay_ms = 0, time_limit_ms = 0, f_rr = 0,
      f_initial_delay = 0, f_every = 0, protocol = 0, cut_after = 0, cut_close_only = 0, arg_case = 0, sock_fault_k = 0, accept_fault_k = 0, fault_errno = 0;
  std::vector<Cli> cli;
  std::vector<Addr> addrs;
  Bytes plan;
  std::vector<Fault> faults;
  std::string ser() const {
    Writer w;
    w.i("mode", mode).i("family", family).i("close_on_destroy", close_on_destroy).i("timeout_ms", timeout_ms).i("prequeue", prequeue).i("backlog", backlog)
        .i("reuseaddr", reuseaddr).i("keepalive", keepalive).i("stale_path", stale_path).i("stop_at", stop_at).i("stop_how", stop_how).i("timeout_action", timeout_action)
        .i("wait_timeout_end", wait_timeout_end).i("target", target).i("destroy_in_cb", destroy_in_cb).i("cb_ret", cb_ret).i("max_tries", max_tries)
        .i("retry_delay_ms", retry_delay_ms).i("time_limit_ms", time_limit_ms).i("f_rr", f_rr).i("f_initial_delay", f_initial_delay).i("f_every", f_every)
        .i("protocol", protocol).i("cut_after", cut_after).i("cut_close_only", cut_close_only).i("arg_case", arg_case).i("sock_fault_k", sock_fault_k).i("accept_fault_k", accept_fault_k)
        .i("fault_errno", fault_errno);
    std::vector<long long> v;
    for (auto &x : cli) { v.push_back(x.pause); v.push_back(x.close_early); }
    w.iv("clients", v);
    v.clear();
    for (auto &x : addrs) { v.push_back(x.kind); v.push_back(x.open_after); }
    w.iv("addrs", v);
    ser_faults(w, plan, faults);
    return w.str();
  }
  static ConnCase parse(const std::string &t) {
    Reader r(t);
    ConnCase c;
    c.mode = (int)r.i("mode"); c.family = (int)r.i("family"); c.close_on_destroy = (int)r.i("close_on_destroy"); c.timeout_ms = (int)r.i("timeout_ms"); c.prequeue = (int)r.i("prequeue");
    c.backlog = (int)r.i("backlog", 16); c.reuseaddr = (int)r.i("reuseaddr"); c.keepalive = (int)r.i("keepalive"); c.stale_path = (int)r.i("stale_path"); c.stop_at = (int)r.i("stop_at");
    c.stop_how = (int)r.i("stop_how", 1); c.timeout_action = (int)r.i("timeout_action"); c.wait_timeout_end = (int)r.i("wait_timeout_end"); c.target = (int)r.i("target");
    c.destroy_in_cb = (int)r.i("destroy_in_cb"); c.cb_ret = (int)r.i("cb_ret"); c.max_tries = (int)r.i("max_tries", 1); c.retry_delay_ms = (int)r.i("retry_delay_ms");
    c.time_limit_ms = (int)r.i("time_limit_ms"); c.f_rr = (int)r.i("f_rr"); c.f_initial_delay = (int)r.i("f_initial_delay"); c.f_every = (int)r.i("f_every"); c.protocol = (int)r.i("protocol");
    c.cut_after = (int)r.i("cut_after"); c.cut_close_only = (int)r.i("cut_close_only"); c.arg_case = (int)r.i("arg_case"); c.sock_fault_k = (int)r.i("sock_fault_k"); c.accept_fault_k = (int)r.i("accept_fault_k"); c.fault_errno = (int)r.i("fault_errno");
    auto v = r.iv("clients");
    for (size_t j = 0; j + 2 <= v.size(); j += 2) c.cli.push_back(Cli{(int)v[j], (int)v[j + 1]});
    v = r.iv("addrs");
    for (size_t j = 0; j + 2 <= v.size(); j += 2) c.addrs.push_back(Addr{(int)v[j], (int)v[j + 1]});
    parse_faults(r, c.plan, c.faults);
    return c;
  }
};
void showValue(const ConnCase &c, std::ostream &os) { os << c.ser(); }

// ---- common safety part
static Verdict conn_safety(const ConnCase &c, const c16c_out &o, bool unbounded) {
  PBT_REQUIRE(o.setup_rc == 0, "harness: setup failed " << o.setup_rc);
  PBT_REQUIRE(o.res.live_fds == o.base_live_fds, "after destroy of the task and of the pool " << (long)o.res.live_fds - (long)o.base_live_fds
                                                     << " descriptor(s) created by the library are still open (socket / timer leak)");
  PBT_REQUIRE(o.res.live_allocs == 0, "task memory not released: " << o.res.live_allocs << " allocation(s)");
  PBT_REQUIRE(o.res.double_free == 0, "task freed twice");
  PBT_REQUIRE(o.cb_after_stop == 0, o.cb_after_stop << " callback(s) after stop/destroy (or after the final report) had returned on the task's own thread");
  if (o.cut_done) {
    PBT_REQUIRE(o.natt == o.natt_at_cut, (o.natt - o.natt_at_cut) << " connect attempt(s) were made after " << (c.cut_close_only ? "tp_task_ident_close()" : "tp_task_destroy()") << " had returned on the task's own thread");
    if (c.cut_close_only) label("cut_by_ident_close_only");
  }
  PBT_REQUIRE(!o.hang, "hang: the owner thread stopped serving its queue");
  if (!unbounded) {
    if (o.ncb > C16C_MAX_CB) PBT_REQUIRE(o.wait_failed == 0, "an expected report never came (ceiling hit) while " << o.ncb << " other callbacks were made");
    PBT_REQUIRE(o.ncb <= C16C_MAX_CB, "callback storm: " << o.ncb << " callbacks");
  }
  for (uint32_t i = 0; i < o.ncb && i < C16C_MAX_CB; i++) PBT_REQUIRE(o.cb[i].on_owner, "callback " << i << " ran on a thread other than the task's pool thread");
  PBT_REQUIRE(o.ncb_at_start_ret == 0, "the create call made " << o.ncb_at_start_ret << " callback(s) before it returned");
  return Verdict::pass();
}
static bool short_to(int ms) { return ms != 0 && ms <= 500; }

// ---- accept
static Verdict evaluate_accept(const ConnCase &c, const c16c_out &o) {
  const uint32_t inj = injected(o.res);
  const bool any_fault = inj || o.sock_injected;
  if (o.start_rc != 0) {
    bool stale_refusal = (c.mode == 1 && c.family == 0 && c.stale_path && !c.reuseaddr);
    PBT_REQUIRE(any_fault || stale_refusal, "accept task creation failed with " << o.start_rc << " without a fault");
    if (stale_refusal && !any_fault) PBT_REQUIRE(o.start_rc == EADDRINUSE, "bind over an existing socket file without SO_F_REUSEADDR returned " << o.start_rc << ", expected EADDRINUSE");
    PBT_REQUIRE(o.ncb == 0, "callbacks after a failed start");
    label(stale_refusal ? "bind_refused_cleanly" : "start_failed_cleanly");
    nontrivial_cur();
    return Verdict::pass();
  }
  if (c.mode == 1) PBT_REQUIRE(o.listen_nonblock, "tp_task_bind_accept_create left its listening socket blocking");
  uint32_t n_timeout = 0, n_err = 0, nacc = 0;
  bool stopped = false;
  std::set<int64_t> fds;
  std::set<int> ids;
  for (uint32_t i = 0; i < o.ncb; i++) {
    const c16c_cb &cb = o.cb[i];
    std::ostringstream tg;
    tg << "accept callback " << i << " (error " << cb.error << " socket " << cb.skt << ")";
    const std::string tag = tg.str();
    PBT_REQUIRE(!stopped, tag << " came after the callback had stopped the task");
    if (cb.error == ETIMEDOUT) {
      PBT_REQUIRE(c.timeout_ms != 0, tag << ": timeout reported by a task without timeout");
      PBT_REQUIRE(cb.skt == -1 && cb.addr_null, tag << ": timeout report carries a socket");
      uint64_t prev = i ? o.cb[i - 1].t_us : o.t_create_us;
      PBT_REQUIRE(cb.t_us - prev + 500 >= (uint64_t)c.timeout_ms * 1000, tag << ": timeout of " << c.timeout_ms << " ms reported only " << (cb.t_us - prev) << " us after the previous activity");
      n_timeout++;
      if (cb.action == 3) stopped = true;
      continue;
    }
    if (cb.error != 0) {
      n_err++;
      PBT_REQUIRE(inj || o.accept_injected, tag << ": error reported on a healthy listening socket");
      if (!inj) PBT_REQUIRE(cb.error == c.fault_errno, tag << ": the failing accept returned " << c.fault_errno);
      PBT_REQUIRE(cb.skt == -1 && cb.addr_null, tag << ": error report carries a socket");
      continue;
    }
    PBT_REQUIRE(cb.skt >= 0, tag << ": no socket");
    PBT_REQUIRE(fds.insert(cb.skt).second, tag << ": the same descriptor was handed over twice");
    PBT_REQUIRE(cb.nonblock, tag << ": the accepted socket is blocking (SO_F_NONBLOCK requested)");
    PBT_REQUIRE(!cb.addr_null, tag << ": no peer address");
    PBT_REQUIRE(cb.addr_family == (c.family ? AF_INET : AF_UNIX), tag << ": peer address family " << cb.addr_family);
    PBT_REQUIRE(nacc < o.nacc, "harness: accept bookkeeping");
    int id = o.acc_id[nacc];
    PBT_REQUIRE(id != 99, tag << ": a connection made after the destroy was accepted");
    PBT_REQUIRE(id >= 0 && id < (int)c.cli.size() && o.cli_connected[id], tag << ": the accepted socket does not carry a client's id (read " << id << ")");
    PBT_REQUIRE(ids.insert(id).second, tag << ": client " << id << " was handed over twice");
    if (c.family) PBT_REQUIRE(cb.addr_ip == 0x7f000001u && cb.addr_port == o.cli_port[id], tag << ": peer address port " << cb.addr_port << ", client " << id << " connected from port " << o.cli_port[id]);
    nacc++;
    if (cb.action == 3) stopped = true;
  }
  PBT_REQUIRE(nacc == o.nacc, "harness: accept bookkeeping (" << nacc << " vs " << o.nacc << ")");
  PBT_REQUIRE(o.wait_failed != 1, "a connection was never handed to the accept callback (ceiling hit): " << nacc << " of " << o.nconnected << " connected clients accepted");
  PBT_REQUIRE(o.wait_failed != 2, "an armed idle accept task (timeout " << c.timeout_ms << " ms) never reported its timeout");
  if (!inj) {
    if (!stopped) PBT_REQUIRE(nacc == o.nconnected, nacc << " connections handed over, " << o.nconnected << " clients connected");
    else if (c.stop_at && o.nconnected >= (uint32_t)c.stop_at && !(c.timeout_action == 1 && n_timeout)) PBT_REQUIRE(nacc == (uint32_t)c.stop_at, "task stopped in accept callback " << c.stop_at << " but " << nacc << " connections were handed over");
    if (o.accept_injected && c.fault_errno != EINTR && c.fault_errno != EAGAIN) PBT_REQUIRE(n_err == 1, "a failing accept (errno " << c.fault_errno << ") was reported " << n_err << " times");
    if (o.accept_injected && (c.fault_errno == EINTR || c.fault_errno == EAGAIN)) PBT_REQUIRE(n_err == 0, "EINTR/EAGAIN from accept reported as an error");
  }
  if (c.timeout_ms == 0) PBT_REQUIRE(n_timeout == 0, "timeout reported by a task without timeout");
  bool nt = false;
  if (nacc >= 2) nt = true;
  if (stopped) { label("stopped_from_inside_callback"); nt = true; }
  if (n_timeout) { label("accept_timeout_reported"); nt = true; if (nacc) label("accept_continues_after_timeout"); }
  if (inj) { label("fault_injected"); nt = true; }
  if (o.accept_injected) { label("accept_error_injected"); nt = true; }
  label(c.mode == 0 ? "accept_create" : "bind_accept_create");
  label(c.family ? "tcp" : "unix_stream");
  if (c.mode == 1 && c.stale_path) label("bind_over_stale_socket_file");
  if (c.prequeue && nacc) label("connected_before_start");
  if (o.late_clients) label("late_client_after_destroy");
  if (c.close_on_destroy) label("close_on_destroy");
  if (nt) nontrivial_cur();
  return Verdict::pass();
}

// ---- connect
static Verdict evaluate_connect(const ConnCase &c, const c16c_out &o) {
  const uint32_t inj = injected(o.res);
  if (o.start_rc != 0) {
    PBT_REQUIRE(inj > 0, "tp_task_connect_create failed with " << o.start_rc << " without an injected fault");
    PBT_REQUIRE(o.ncb == 0, "callbacks after a failed start");
    label("start_failed_cleanly");
    nontrivial_cur();
    return Verdict::pass();
  }
  PBT_REQUIRE(o.ncb <= 1, "connect task reported " << o.ncb << " times (errors " << o.cb[0].error << ", " << o.cb[1].error << "): exactly one report is documented");
  PBT_REQUIRE(o.wait_failed == 0, "connect task never reported (target " << c.target << ", timeout " << c.timeout_ms << " ms)");
  bool nt = false;
  if (o.ncb == 1) {
    const c16c_cb &cb = o.cb[0];
    if (cb.error == ETIMEDOUT) {
      PBT_REQUIRE(c.timeout_ms != 0, "ETIMEDOUT from a connect task without timeout");
      PBT_REQUIRE(cb.t_us - o.t_create_us + 500 >= (uint64_t)c.timeout_ms * 1000, "timeout of " << c.timeout_ms << " ms reported after only " << (cb.t_us - o.t_create_us) << " us");
      label("connect_timeout_reported");
      nt = true;
    }
    if (!inj) {
      PBT_REQUIRE(cb.live_fds == o.pool_live_fds + (c.close_on_destroy ? 1u : 0u), "inside the connect callback the task still owns " << (long)cb.live_fds - (long)o.pool_live_fds - (c.close_on_destroy ? 1 : 0)
                                                                                       << " timer descriptor(s): the handler is documented to stop the task before the callback");
      if (cb.error == ETIMEDOUT && c.target != 2) {
        label("short_timeout_elapsed_before_the_result_was_seen");  // not early (asserted above): legitimate on a loaded machine
      } else if (c.target == 0) {
        PBT_REQUIRE(cb.error == 0, "connect to a listening address reported error " << cb.error);
        PBT_REQUIRE(cb.peer_ok, "success reported but the socket is not connected");
      } else if (c.target == 1) {
        PBT_REQUIRE(cb.error == ECONNREFUSED, "connect to a refusing port reported " << cb.error << ", expected ECONNREFUSED");
        label("connect_refused_reported");
        nt = true;
      } else {
        PBT_REQUIRE(cb.error == ETIMEDOUT || (cb.error == 0 && cb.peer_ok), "connect to a silent listener reported " << cb.error);
      }
    }
    if (cb.action == 3) { label("destroyed_inside_callback"); nt = true; }
  } else if (!inj) {
    PBT_REQUIRE(c.target == 2 && !short_to(c.timeout_ms), "connect task never reported");
    label("silent_peer_no_report_before_destroy");
    nt = true;
  }
  if (!inj && c.target == 0 && o.ncb == 1 && o.cb[0].error == 0) PBT_REQUIRE(o.listener_accepted == 1, "listener saw " << o.listener_accepted << " connections");
  if (inj) { label("fault_injected"); nt = true; }
  label("connect_create");
  label(c.family ? "tcp" : "unix_stream");
  if (o.connect_rc_errno == 0) label("connected_synchronously");
  if (nt) nontrivial_cur();
  return Verdict::pass();
}

// ---- connect_ex: documented order
struct Step { int idx; bool ok; };
static std::vector<Step> ex_model(const ConnCase &c, bool &exhausted) {
  std::vector<Step> e;
  std::vector<int> natt(c.addrs.size(), 0);
  const int n = (int)c.addrs.size();
  const bool rr = c.f_rr || c.max_tries == 0;
  exhausted = false;
  auto attempt = [&](int j) {
    natt[j]++;
    bool ok = c.addrs[j].kind != 2 && c.addrs[j].open_after != 255 && natt[j] > c.addrs[j].open_after;
    e.push_back(Step{j, ok});
    return ok;
  };
  if (rr) {
    for (int r = 0; c.max_tries == 0 || r < c.max_tries; r++)
      for (int j = 0; j < n; j++) {
        if (attempt(j) || e.size() >= C16C_MAX_ATT) return e;
      }
  } else {
    for (int j = 0; j < n; j++)
      for (int t = 0; t < c.max_tries; t++) {
        if (attempt(j) || e.size() >= C16C_MAX_ATT) return e;
      }
  }
  exhausted = true;
  return e;
}
static bool ex_unbounded(const ConnCase &c) {  // unlimited tries, nothing ever accepts, no time limit
  if (c.mode != 3 || c.max_tries != 0 || c.time_limit_ms != 0) return false;
  bool ex = false;
  std::vector<Step> E = ex_model(c, ex);
  return E.empty() || !E.back().ok;
}
static int ex_fail_errno(const Addr &a) { return a.kind == 0 ? ECONNREFUSED : a.kind == 1 ? ENOENT : ETIMEDOUT; }

// Known finding (see notes/C16_conn.md): tp_task_stop() removes the task timer only when tptask->timeout != 0, but connect_ex also arms
// that timer for retry_delay. With timeout 0 the retry-delay timer survives stop/destroy: descriptor leak, and a destroy during the delay
// leaves an armed timer pointing into freed memory. Class = connect_ex with timeout 0 and a non-zero retry_delay.
static const char *K_RETRY_TIMER = "connect_ex_retry_timer_survives_stop_when_timeout_is_0";
static bool in_retry_timer_class(const ConnCase &c) { return c.mode == 3 && c.timeout_ms == 0 && c.retry_delay_ms != 0; }

// Known finding: tp_task_connect_ex_start() calls tp_task_start(), and tp_task_start_ex() zeroes tptask->tot_transfered_size -- which connect_ex
// uses as the current address index. Every attempt that gets as far as tp_task_start() therefore resets the index to 0: addresses >= 2 are
// never tried, the index reported to the callback is wrong, and neither max_tries nor the end of the list is ever reached with >= 2 addresses.
// Class = the documented order contains an attempt at an address index >= 1 that does not fail synchronously inside connect().
static const char *K_ADDR_IDX = "connect_ex_address_index_reset_by_task_start";
static bool in_addr_idx_class(const ConnCase &c) {
  if (c.mode != 3 || c.addrs.size() < 2) return false;
  if (c.sock_fault_k || !c.faults.empty()) return true;  // a failed attempt moves the task off the documented order, any index >= 1 is reachable
  bool ex = false;
  for (auto &st : ex_model(c, ex))
    if (st.idx >= 1 && !(c.addrs[st.idx].kind == 1 && !st.ok)) return true;
  return false;
}

static Verdict evaluate_connect_ex(const ConnCase &c, const c16c_out &o) {
  const uint32_t inj = injected(o.res);
  bool sock_failed = o.sock_injected != 0;
  for (uint32_t i = 0; i < o.natt && i < C16C_MAX_ATT; i++) sock_failed |= o.att[i].sock_failed != 0;
  const bool any_fault = inj || sock_failed;
  const bool must_einval = c.arg_case != 0 || (c.f_initial_delay && c.retry_delay_ms == 0) || (c.time_limit_ms != 0 && (c.timeout_ms == 0 || c.timeout_ms >= c.time_limit_ms));
  const bool may_einval = c.time_limit_ms != 0 && c.retry_delay_ms >= c.time_limit_ms;  // EINVAL in the code; "FAIL at the first sleep" in the header pseudo-code
  if (must_einval || (may_einval && o.start_rc == EINVAL)) {
    PBT_REQUIRE(o.start_rc == EINVAL, "tp_task_connect_ex_create accepted invalid arguments (returned " << o.start_rc << "): initial delay " << c.f_initial_delay << " retry_delay " << c.retry_delay_ms
                                          << " time_limit " << c.time_limit_ms << " timeout " << c.timeout_ms << " arg_case " << c.arg_case);
    PBT_REQUIRE(o.ncb == 0 && o.natt == 0, "rejected arguments but " << o.natt << " connect attempts / " << o.ncb << " callbacks were made");
    label("connect_ex_einval");
    nontrivial_cur();
    return Verdict::pass();
  }
  const bool idx_known = in_addr_idx_class(c) && known(K_ADDR_IDX);
  const bool unbounded = ex_unbounded(c) || idx_known;  // retries end only when the caller destroys the task: the harness cuts, how soon is scheduling
  if (!unbounded) PBT_REQUIRE(o.natt <= C16C_MAX_ATT, "more than " << C16C_MAX_ATT << " connect attempts");
  const uint32_t ncb = std::min<uint32_t>(o.ncb, C16C_MAX_CB), natt = std::min<uint32_t>(o.natt, C16C_MAX_ATT);
  const bool capped = o.ncb > C16C_MAX_CB || o.natt > C16C_MAX_ATT;
  // final reports: at most one, and nothing after it (cb_after_stop covers the latter)
  uint32_t n_final = 0, n_rep = 0;
  for (uint32_t i = 0; i < ncb; i++) {
    const c16c_cb &cb = o.cb[i];
    PBT_REQUIRE(cb.prms_ok, "callback " << i << " got a conn_prms pointer other than the caller's");
    if (cb.error == 0 || cb.error == -1) {
      n_final++;
      PBT_REQUIRE(i + 1 == o.ncb, "callback " << i << " was final (error " << cb.error << ") but " << o.ncb - i - 1 << " more followed");
      if (cb.error == 0) {
        PBT_REQUIRE(cb.skt >= 0 && cb.peer_ok, "success reported but the task's socket (" << cb.skt << ") is not connected");
        PBT_REQUIRE(cb.addr_index < c.addrs.size(), "success reported with address index " << cb.addr_index << " of " << c.addrs.size());
        if (c.addrs[cb.addr_index].kind == 0 && !idx_known) PBT_REQUIRE(cb.peer_port == o.lst_port[cb.addr_index], "success reported for address " << cb.addr_index << " (port " << o.lst_port[cb.addr_index] << ") but the socket is connected to port " << cb.peer_port);
      } else
        PBT_REQUIRE(cb.skt == -1, "terminal failure reported while the task still holds socket " << cb.skt);
    } else {
      n_rep++;
      PBT_REQUIRE(c.f_every, "per-attempt failure (error " << cb.error << ") reported without TP_TASK_F_CB_AFTER_EVERY_READ");
      PBT_REQUIRE(cb.skt == -1, "failure report " << i << " while the failed socket " << cb.skt << " is still in the task");
    }
  }
  PBT_REQUIRE(n_final <= 1, "more than one final report");
  if (o.start_rc != 0) PBT_REQUIRE(o.ncb == 0, "tp_task_connect_ex_create returned " << o.start_rc << " and still made callbacks");
  bool nt = false;
  if (idx_known) { label("connect_ex_create"); label("judged_for_safety_only_known_finding"); return Verdict::pass(); }
  if (any_fault) {
    label("fault_injected");
    if (sock_failed) label("socket_error_injected");
    label("connect_ex_create");
    nontrivial_cur();
    return Verdict::pass();
  }
  // ---- exact part: documented order
  bool exhausted = false;
  std::vector<Step> E = ex_model(c, exhausted);
  std::ostringstream hs;
  hs << " | attempts:";
  for (uint32_t i = 0; i < natt; i++) hs << " " << (int)o.att[i].idx << (o.att[i].rc_errno == 0 ? "+" : o.att[i].rc_errno == EINPROGRESS ? "~" : "!");
  hs << " documented:";
  for (auto &s : E) hs << " " << s.idx << (s.ok ? "+" : "-");
  hs << " reports:";
  for (uint32_t i = 0; i < ncb; i++) hs << " [" << o.cb[i].error << "@" << o.cb[i].addr_index << "]";
  hs << " create=" << o.start_rc << " finished=" << (int)o.finished << " cut=" << (int)o.cut_done;
  const std::string hist = hs.str();
  if (short_to(c.timeout_ms)) {
    // The verdict below assumes that an open TCP/AF_UNIX address answers within the per-attempt timeout. With a 20-40 ms timeout a loaded
    // machine can make the timer win. The harness clock only relaxes here: an attempt that (minus the documented delay) lasted at least
    // the timeout may really have timed out, and then the run is judged for safety only.
    const bool rr = c.f_rr || c.max_tries == 0;
    for (uint32_t i = 0; i < natt && i < E.size(); i++) {
      if (c.addrs[E[i].idx].kind == 2) continue;  // silent address: the timeout is the expected outcome
      uint64_t end = 0;
      bool delay_after = false;
      if (i + 1 < natt) { end = o.att[i + 1].t_us; delay_after = rr ? (i + 1 < E.size() && E[i + 1].idx == 0) : true; }
      else if (ncb) end = o.cb[ncb - 1].t_us;
      if (end > o.att[i].t_us && end - o.att[i].t_us + 500 >= ((uint64_t)c.timeout_ms + (delay_after ? (uint64_t)c.retry_delay_ms : 0)) * 1000) {
        label("attempt_may_have_timed_out_under_load_safety_only");
        return Verdict::pass();
      }
    }
  }
  if (!capped) PBT_REQUIRE(o.natt <= E.size(), o.natt << " connect attempts, the documented order has " << E.size() << hist);
  for (uint32_t i = 0; i < natt; i++) {
    PBT_REQUIRE(o.att[i].idx == E[i].idx, "attempt " << i << " went to address " << (int)o.att[i].idx << ", the documented order says " << E[i].idx << hist);
    if (E[i].ok) PBT_REQUIRE(o.att[i].rc_errno == 0 || o.att[i].rc_errno == EINPROGRESS, "harness: attempt " << i << " to an open address failed with " << o.att[i].rc_errno);
    if (i + 1 < natt) PBT_REQUIRE(!E[i].ok, "attempt " << i << " reached an accepting address but the task went on to attempt " << i + 1 << hist);
  }
  PBT_REQUIRE(o.wait_failed == 0, "connect_ex neither succeeded nor gave up within the ceiling" << hist);
  // delays are never shorter than configured
  if (c.retry_delay_ms) {
    const uint64_t D = (uint64_t)c.retry_delay_ms * 1000;
    const bool rr = c.f_rr || c.max_tries == 0;
    if (c.f_initial_delay) {
      PBT_REQUIRE(o.natt_at_start_ret == 0, "INITIAL_DELAY set but " << o.natt_at_start_ret << " attempt(s) were made inside the create call");
      if (o.natt) PBT_REQUIRE(o.att[0].t_us - o.t_create_us + 500 >= D, "first attempt " << (o.att[0].t_us - o.t_create_us) << " us after create, initial delay is " << c.retry_delay_ms << " ms");
    }
    for (uint32_t i = 0; i + 1 < natt; i++) {
      bool delayed = rr ? (E[i + 1].idx == 0) : true;
      if (delayed) PBT_REQUIRE(o.att[i + 1].t_us - o.att[i].t_us + 500 >= D, "attempt " << i + 1 << " came " << (o.att[i + 1].t_us - o.att[i].t_us) << " us after attempt " << i << ", retry_delay is " << c.retry_delay_ms << " ms" << hist);
    }
  }
  if (capped) {  // unbounded schedule that the harness cut late: the recorded prefix was compared above
    PBT_REQUIRE(o.finished == 0 && o.cut_done, "a task with unlimited tries and nothing to connect to ended by itself" << hist);
    label("destroyed_mid_flight"); label("unlimited_tries"); label("connect_ex_create");
    nontrivial_cur();
    return Verdict::pass();
  }
  // failure reports: one per failed attempt, right after it (attempts that failed synchronously inside the create call cannot be
  // reported: "Function return control before cb_func called")
  {
    uint32_t known_failed = o.natt;  // attempts [0, known_failed) are known to have failed
    bool last_open = (o.finished == 1 || (o.finished == 0 && o.start_rc == 0));  // last attempt succeeded / was cut in flight or in the delay after it
    if (last_open) known_failed = o.natt ? o.natt - 1 : 0;
    std::vector<uint32_t> reportable;
    auto can_report = [&](uint32_t i) { return !(i < o.natt_at_start_ret && o.att[i].rc_errno != 0 && o.att[i].rc_errno != EINPROGRESS); };
    for (uint32_t i = 0; i < known_failed; i++) if (can_report(i)) reportable.push_back(i);
    uint32_t lo = (uint32_t)reportable.size(), hi = lo;
    if (o.finished == 0 && o.cut_done && o.natt && !E[o.natt - 1].ok && can_report(o.natt - 1)) { reportable.push_back(o.natt - 1); hi++; }
    if (c.f_every) {
      PBT_REQUIRE(n_rep >= lo && n_rep <= hi, n_rep << " per-attempt failure reports, " << lo << (hi != lo ? " or one more" : "") << " failed attempts were reportable" << hist);
      for (uint32_t k = 0; k < n_rep; k++) {
        const c16c_cb &cb = o.cb[k];
        uint32_t a = reportable[k];
        PBT_REQUIRE(cb.natt == a + 1, "failure report " << k << " was made after " << cb.natt << " attempts, expected right after attempt " << a << hist);
        PBT_REQUIRE(cb.addr_index == (uint64_t)E[a].idx, "failure report " << k << " names address " << cb.addr_index << ", attempt " << a << " went to " << E[a].idx << hist);
        PBT_REQUIRE(cb.error == ex_fail_errno(c.addrs[E[a].idx]), "failure report " << k << " carries error " << cb.error << ", expected " << ex_fail_errno(c.addrs[E[a].idx]) << hist);
      }
    }
  }
  // outcome
  if (o.start_rc != 0) {
    PBT_REQUIRE(o.start_rc == -1 && exhausted && o.natt == E.size(), "tp_task_connect_ex_create returned " << o.start_rc << " after " << o.natt << " attempts" << hist);
    for (uint32_t i = 0; i < natt; i++) PBT_REQUIRE(o.att[i].rc_errno != 0 && o.att[i].rc_errno != EINPROGRESS, "create gave up although attempt " << i << " was in progress" << hist);
    label("create_exhausted_synchronously");
    nt = true;
  } else if (o.finished == 1) {
    const c16c_cb &cb = o.cb[o.ncb - 1];
    PBT_REQUIRE(o.natt >= 1 && E[o.natt - 1].ok, "success reported but the last attempt went to an address that does not accept" << hist);
    PBT_REQUIRE(cb.addr_index == (uint64_t)E[o.natt - 1].idx, "success reported with address index " << cb.addr_index << ", the first accepting address in the documented order is " << E[o.natt - 1].idx << hist);
    if (!(in_retry_timer_class(c) && known(K_RETRY_TIMER)))
      PBT_REQUIRE(cb.live_fds == o.pool_live_fds + 1, "inside the success callback the task still owns " << (long)cb.live_fds - (long)o.pool_live_fds - 1 << " timer descriptor(s) besides the connected socket (handler is documented to stop the task first)" << hist);
    if (!o.cut_done) PBT_REQUIRE(o.lst_accepted[cb.addr_index] == 1 && o.listener_accepted == 1, "listeners saw " << o.listener_accepted << " connections, exactly one was expected" << hist);
    label("connect_ex_success");
    if (o.natt >= 2) { label("success_after_retries"); nt = true; }
  } else if (o.finished == 2) {
    for (uint32_t i = 0; i < natt; i++) PBT_REQUIRE(!E[i].ok, "terminal failure although attempt " << i << " reached an accepting address" << hist);
    if (c.time_limit_ms == 0) PBT_REQUIRE(exhausted && o.natt == E.size(), "terminal failure after " << o.natt << " attempts, documented: max_tries x addresses = " << E.size() << hist);
    else if (o.natt < E.size() || !exhausted) {
      uint64_t el_ms = (o.cb[o.ncb - 1].t_us - o.t_create_us) / 1000;
      PBT_REQUIRE(el_ms + 2 + (uint64_t)c.retry_delay_ms >= (uint64_t)c.time_limit_ms, "gave up for the time limit of " << c.time_limit_ms << " ms after only " << el_ms << " ms (retry_delay " << c.retry_delay_ms << ")" << hist);
      label("time_limit_ended_retries");
    }
    PBT_REQUIRE(o.listener_accepted == 0, "terminal failure but a listener saw a connection" << hist);
    label("connect_ex_terminal_failure");
    nt = true;
  } else if (o.finished == 3) {
    PBT_REQUIRE(n_rep == (uint32_t)c.stop_at, "harness: stop bookkeeping");
    label("stopped_in_failure_report");
    nt = true;
  } else {
    PBT_REQUIRE(o.cut_done, "connect_ex task ended in no documented state" << hist);
    label("destroyed_mid_flight");
    nt = true;
  }
  if (n_rep) { label("per_attempt_failure_reports"); nt = true; }
  if (c.f_initial_delay) label("initial_delay");
  if (c.f_rr || c.max_tries == 0) label("round_robin"); else label("address_by_address");
  if (c.max_tries == 0) label("unlimited_tries");
  if (c.time_limit_ms) label("time_limit_set");
  bool any_sync = false, any_unix = false, any_black = false;
  for (uint32_t i = 0; i < natt; i++) any_sync |= (o.att[i].rc_errno != 0 && o.att[i].rc_errno != EINPROGRESS);
  for (auto &a : c.addrs) { any_unix |= a.kind == 1; any_black |= a.kind == 2; }
  if (any_sync) label("synchronous_connect_failure");
  if (any_unix) label("unix_address_in_list");
  if (any_black) label("silent_address_in_list");
  if (c.destroy_in_cb && (o.finished == 1 || o.finished == 2)) label("destroyed_inside_final_callback");
  if (c.close_on_destroy) label("close_on_destroy");
  label("connect_ex_create");
  if (nt) nontrivial_cur();
  return Verdict::pass();
}

static Verdict evaluate_conn(const ConnCase &c, const c16c_out &o) {
  if (o.skipped == 1) { label("skipped_no_loopback"); return Verdict::pass(); }
  if (o.skipped == 2) { label("skipped_connect_failed_synchronously"); return Verdict::pass(); }
  Verdict v = conn_safety(c, o, c.mode == 3 && (ex_unbounded(c) || (in_addr_idx_class(c) && known(K_ADDR_IDX))));
  if (!v.ok) return v;
  if (c.mode <= 1) return evaluate_accept(c, o);
  if (c.mode == 2) return evaluate_connect(c, o);
  return evaluate_connect_ex(c, o);
}

static std::string scratch_dir() {
  std::string d = st().outdir;
  if (d.empty() || d == "." || d.size() > 70) d = "/tmp";  // replay mode has no output directory
  return d;
}

static Verdict run_conn(const ConnCase &c) {
  PBT_REQUIRE(c.cli.size() <= C16C_MAX_CLI && c.addrs.size() <= C16C_MAX_ADDR && (c.mode != 3 || !c.addrs.empty()), "harness: case outside the generated domain");
  std::unique_ptr<c16c_scn> s(new c16c_scn());
  memset(s.get(), 0, sizeof(c16c_scn));
  s->mode = (uint8_t)c.mode; s->family = (uint8_t)c.family; s->close_on_destroy = (uint8_t)c.close_on_destroy; s->timeout_ms = (uint16_t)c.timeout_ms;
  s->nclients = (uint8_t)c.cli.size(); s->prequeue = (uint8_t)c.prequeue;
  for (size_t i = 0; i < c.cli.size(); i++) { s->cli[i].pause = (uint8_t)c.cli[i].pause; s->cli[i].close_early = (uint8_t)c.cli[i].close_early; }
  s->backlog = c.backlog; s->reuseaddr = (uint8_t)c.reuseaddr; s->keepalive = (uint8_t)c.keepalive; s->stale_path = (uint8_t)c.stale_path;
  s->stop_at = (uint8_t)c.stop_at; s->stop_how = (uint8_t)c.stop_how; s->timeout_action = (uint8_t)c.timeout_action; s->wait_timeout_end = (uint8_t)c.wait_timeout_end;
  s->target = (uint8_t)c.target; s->destroy_in_cb = (uint8_t)c.destroy_in_cb; s->cb_ret = (uint8_t)c.cb_ret;
  s->naddrs = (uint8_t)c.addrs.size();
  for (size_t i = 0; i < c.addrs.size(); i++) { s->addrs[i].kind = (uint8_t)c.addrs[i].kind; s->addrs[i].open_after = (uint8_t)c.addrs[i].open_after; }
  s->max_tries = (uint32_t)c.max_tries; s->retry_delay_ms = (uint32_t)c.retry_delay_ms; s->time_limit_ms = (uint32_t)c.time_limit_ms;
  s->f_rr = (uint8_t)c.f_rr; s->f_initial_delay = (uint8_t)c.f_initial_delay; s->f_every = (uint8_t)c.f_every; s->protocol = c.protocol;
  s->cut_after = (uint8_t)c.cut_after; s->cut_close_only = (uint8_t)c.cut_close_only; s->arg_case = (uint8_t)c.arg_case;
  const bool valid_args = c.mode == 3 && c.arg_case == 0 && !(c.f_initial_delay && c.retry_delay_ms == 0) && !(c.time_limit_ms != 0 && (c.timeout_ms == 0 || c.timeout_ms >= c.time_limit_ms));
  if (valid_args && in_retry_timer_class(c) && known(K_RETRY_TIMER)) { excluded(K_RETRY_TIMER); s->known_timer_wa = 1; }
  if (valid_args && in_addr_idx_class(c) && known(K_ADDR_IDX)) { excluded(K_ADDR_IDX); if (s->cut_after == 0 || s->cut_after > 6) s->cut_after = 6; }
  s->sock_fault_k = (uint8_t)c.sock_fault_k; s->accept_fault_k = (uint8_t)c.accept_fault_k; s->fault_errno = c.fault_errno;
  snprintf(s->dir, sizeof(s->dir), "%s", scratch_dir().c_str());
  fill_plans(s->plans, c.plan, c.faults);
  std::unique_ptr<c16c_out> o(new c16c_out());
  for (int attempt = 0; attempt < 3; attempt++) {  // hang policy: 3 of 3
    memset(o.get(), 0, sizeof(c16c_out));
    alarm(300);
    c16c_run(s.get(), o.get());
    alarm(0);
    if (!o->hang) break;
    label("hang_rerun");
  }
  return evaluate_conn(c, *o);
}

static rc::Gen<ConnCase> genConn() {
  return rc::gen::exec([]() {
    ConnCase c;
    c.mode = *rc::gen::weightedElement<int>({{3, 0}, {3, 1}, {2, 2}, {6, 3}});
    c.family = *range<int>(0, 1);
    c.close_on_destroy = *rc::gen::weightedElement<int>({{3, 0}, {1, 1}});
    bool slow = *range<int>(0, 11) == 0;
    c.plan = *bytes_upto(12);
    c.faults = *genFaults(8);
    if (c.mode <= 1) {
      c.timeout_ms = slow ? *rc::gen::element(40, 70) : *rc::gen::weightedElement<int>({{3, 0}, {1, 2000}});
      int n = *range<int>(slow ? 0 : 1, 8);
      bool p3 = false;
      for (int i = 0; i < n; i++) {
        Cli x;
        x.pause = slow ? *rc::gen::weightedElement<int>({{4, 0}, {2, 1}, {2, 2}, {2, 3}}) : *rc::gen::weightedElement<int>({{4, 0}, {2, 1}, {2, 2}});
        if (x.pause == 3) { if (p3) x.pause = 2; p3 = true; }
        x.close_early = *rc::gen::weightedElement<int>({{5, 0}, {1, 1}});
        c.cli.push_back(x);
      }
      c.prequeue = c.mode == 0 ? *range<int>(0, std::min(n, 4)) : 0;
      c.backlog = *rc::gen::element<int>(0, -1, 16, 64, INT_MAX);
      c.reuseaddr = *range<int>(0, 1);
      c.keepalive = *range<int>(0, 1);
      c.stale_path = (c.mode == 1 && c.family == 0) ? *rc::gen::weightedElement<int>({{4, 0}, {1, 1}}) : 0;
      c.stop_at = n ? *rc::gen::weightedElement<int>({{5, 0}, {3, *range<int>(1, n)}}) : 0;
      c.stop_how = *range<int>(1, 4);
      c.timeout_action = slow ? *rc::gen::element(0, 0, 1) : 0;
      c.wait_timeout_end = slow ? (p3 ? *range<int>(0, 1) : 1) : 0;
      if (*range<int>(0, 7) == 0) { c.accept_fault_k = *range<int>(1, 4); c.fault_errno = *rc::gen::element<int>(EMFILE, ENFILE, ECONNABORTED, EINTR, ENOMEM); }
      else if (c.mode == 1 && *range<int>(0, 11) == 0) { c.sock_fault_k = 1; c.fault_errno = *rc::gen::element<int>(EMFILE, ENFILE, ENOBUFS); }
    } else if (c.mode == 2) {
      c.target = c.family ? *rc::gen::weightedElement<int>({{3, 0}, {3, 1}, {1, 2}}) : 0;
      if (c.target == 2) c.timeout_ms = *rc::gen::element(30, 60, 0, 2000);
      else c.timeout_ms = slow ? *rc::gen::element(40, 70) : *rc::gen::element(0, 2000);
      c.destroy_in_cb = *rc::gen::weightedElement<int>({{2, 0}, {1, 1}});
      c.cb_ret = *rc::gen::element(0, 2);
    } else {
      int n = *range<int>(1, 4);
      bool black = false;
      for (int i = 0; i < n; i++) {
        Addr a;
        a.kind = *rc::gen::weightedElement<int>({{5, 0}, {2, 1}, {(slow && !black) ? 2 : 0, 2}});
        if (a.kind == 2) { black = true; a.open_after = 255; }
        else a.open_after = *rc::gen::weightedElement<int>({{2, 0}, {3, *range<int>(1, 4)}, {3, 255}});
        c.addrs.push_back(a);
      }
      c.max_tries = *rc::gen::weightedElement<int>({{1, 0}, {3, 1}, {3, 2}, {2, 3}});
      if (black) c.max_tries = std::max(1, std::min(2, c.max_tries));
      c.retry_delay_ms = *rc::gen::weightedElement<int>({{3, 0}, {5, *range<int>(1, 5)}, {1, *range<int>(6, 30)}});
      c.f_rr = *range<int>(0, 1);
      c.f_initial_delay = *rc::gen::weightedElement<int>({{3, 0}, {1, 1}});
      if (c.f_initial_delay && c.retry_delay_ms == 0 && *range<int>(0, 3)) c.retry_delay_ms = *range<int>(1, 5);
      c.f_every = *range<int>(0, 1);
      c.timeout_ms = black ? *rc::gen::element(20, 40) : *rc::gen::weightedElement<int>({{2, 0}, {3, 2000}, {1, *rc::gen::element(20, 40)}});
      int tl = *rc::gen::weightedElement<int>({{20, 0}, {3, 1}, {2, 3}, {1, 2}});
      if (tl == 1) { c.time_limit_ms = *range<int>(50, 150); c.timeout_ms = *rc::gen::element(20, 40); c.retry_delay_ms = std::min(c.retry_delay_ms, 30); }
      else if (tl == 3) {  // nothing ever accepts: only the time limit (or max_tries) ends the retries
        for (auto &a : c.addrs) if (a.kind != 2) a.open_after = 255;
        c.time_limit_ms = *range<int>(40, 90); c.timeout_ms = *rc::gen::element(20, 30); c.retry_delay_ms = *range<int>(8, 25);
        c.max_tries = *rc::gen::element(0, 0, 3);
      }
      else if (tl == 2) {  // around the validation rules
        c.time_limit_ms = *range<int>(20, 60);
        int w = *range<int>(0, 2);
        if (w == 0) c.timeout_ms = black ? c.time_limit_ms : 0;
        else if (w == 1) c.timeout_ms = c.time_limit_ms + *range<int>(0, 5);
        else { c.timeout_ms = 10; c.retry_delay_ms = c.time_limit_ms + *range<int>(0, 3); }
      }
      if (c.max_tries == 0) c.retry_delay_ms = std::max(1, c.retry_delay_ms);
      // unlimited tries bounded only by the time limit: keep the number of rounds within what the harness records (<= 12 rounds)
      if (c.max_tries == 0 && c.time_limit_ms != 0 && tl != 2) c.retry_delay_ms = std::max(c.retry_delay_ms, (c.time_limit_ms + 11) / 12);
      c.stop_at = c.f_every ? *rc::gen::weightedElement<int>({{4, 0}, {2, *range<int>(1, 4)}}) : 0;
      c.stop_how = *range<int>(1, 2);
      c.destroy_in_cb = *rc::gen::weightedElement<int>({{2, 0}, {1, 1}});
      c.cut_after = *rc::gen::weightedElement<int>({{4, 0}, {2, *range<int>(1, 6)}});
      c.cut_close_only = *range<int>(0, 1);
      bool any_unix = false;
      for (auto &a : c.addrs) any_unix |= a.kind == 1;
      c.protocol = any_unix ? 0 : *rc::gen::element<int>(0, IPPROTO_TCP);
      c.arg_case = *rc::gen::weightedElement<int>({{14, 0}, {1, 1}, {1, 2}});
      if (*range<int>(0, 9) == 0) { c.sock_fault_k = *range<int>(1, 4); c.fault_errno = *rc::gen::element<int>(EMFILE, ENFILE, ENOBUFS); }
      // unlimited tries that can never succeed end only by the time limit or by the caller: cut them
      bool ex = false;
      std::vector<Step> E = ex_model(c, ex);
      bool endless = !ex && (E.empty() || !E.back().ok);
      if (endless && c.time_limit_ms == 0 && c.cut_after == 0) c.cut_after = *range<int>(2, 8);
    }
    return c;
  });
}

int main(int argc, char **argv) {
  add_check<PktCase>("pkt_histories", 450, 100, genPkt, run_pkt);
  add_check<ConnCase>("conn_histories", 650, 100, genConn, run_conn);
  return driver_main(argc, argv);
}
