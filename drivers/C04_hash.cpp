// C04 -- MD5 / SHA-1 / SHA-2 / GOST R 34.11-2012: standard digest for any message, chunking,
// alignment and block-transform implementation; one-shot / hex-string / streaming entry points
// agree; context wiped after final. Oracle: libgcrypt (+ OpenSSL for six) -- C04_hashref.inc.
// Links against one shims/hash.c variant (compiler, -O, SIMD flags, SH_NOSIMD, small tables).
#include "pbt.hpp"
#include "../shims/hash_abi.h"
#include "C04_hashref.inc"

using namespace pbt;
using namespace href;

struct HCase {
  int alg = 0, impl = 0, entry = 0, bits_form = 0, nosize = 0;
  int kind = K_RANDOM;
  uint32_t len = 0;
  uint64_t seed = 0;
  Bytes data;  // kind == explicit
  int align = 0, out_align = 0, isolate = 0, null_empty = 0, clone_at = -1, junk = 0xA5;
  uint32_t rep = 1;
  std::vector<long long> splits;
  // context reuse: a first computation on the same context object (streaming only)
  int pre = 0, pre_alg = 0;
  uint32_t pre_len = 0;

  std::string ser() const {
    Writer w;
    w.i("alg", alg).i("impl", impl).i("entry", entry).i("bits_form", bits_form).i("nosize", nosize);
    w.i("kind", kind).u("len", len).u("seed", seed).b("data", data);
    w.i("align", align).i("out_align", out_align).i("isolate", isolate).i("null_empty", null_empty);
    w.i("clone_at", clone_at).i("junk", junk).u("rep", rep).iv("splits", splits);
    w.i("pre", pre).i("pre_alg", pre_alg).u("pre_len", pre_len);
    return w.str();
  }
  static HCase parse(const std::string &t) {
    Reader r(t);
    HCase c;
    c.alg = (int)r.i("alg"); c.impl = (int)r.i("impl"); c.entry = (int)r.i("entry");
    c.bits_form = (int)r.i("bits_form"); c.nosize = (int)r.i("nosize");
    c.kind = (int)r.i("kind", K_RANDOM); c.len = (uint32_t)r.u("len"); c.seed = r.u("seed"); c.data = r.b("data");
    c.align = (int)r.i("align"); c.out_align = (int)r.i("out_align"); c.isolate = (int)r.i("isolate");
    c.null_empty = (int)r.i("null_empty"); c.clone_at = (int)r.i("clone_at", -1); c.junk = (int)r.i("junk", 0xA5);
    c.rep = (uint32_t)r.u("rep", 1); c.splits = r.iv("splits");
    c.pre = (int)r.i("pre"); c.pre_alg = (int)r.i("pre_alg"); c.pre_len = (uint32_t)r.u("pre_len");
    return c;
  }
};
void showValue(const HCase &c, std::ostream &os) { os << c.ser(); }

static std::vector<int> impls_of(int alg) {
  std::vector<int> v;
  unsigned m = sh_impls(alg);
  for (int i = 0; i < SH_IMPL_COUNT; i++)
    if (m & (1u << i)) v.push_back(i);
  return v;
}
static int family(int alg) { return alg <= SH_SHA1 ? alg : alg <= SH_SHA512 ? 2 : 3; }

// ---------- generator ----------
static rc::Gen<HCase> genCase() {
  return rc::gen::exec([]() {
    HCase c;
    c.alg = *range<int>(0, SH_ALG_COUNT - 1);
    uint32_t B = (uint32_t)ALG[c.alg].block;
    int e = *range<int>(0, 9);
    c.entry = e < 7 ? SH_EP_STREAM : e < 9 ? SH_EP_ONESHOT : SH_EP_HEXSTR;
    if (c.entry == SH_EP_STREAM) {
      std::vector<int> im = impls_of(c.alg);
      c.impl = im[*range<size_t>(0, im.size() - 1)];
    }
    c.bits_form = *range<int>(0, 3) == 0;
    c.nosize = *range<int>(0, 5) == 0;
    c.len = genLen(B, 65536);
    int k = *range<int>(0, 15);
    c.kind = k < 7 ? K_RANDOM : k < 8 ? K_ZERO : k < 10 ? K_FF : k < 11 ? K_80 : k < 12 ? K_FF_SPARSE : k < 13 ? K_COUNTER
             : k < 14 ? K_BLOCKMIX : k < 15 ? K_WORDMIX : K_EXPLICIT;
    if (c.kind == K_EXPLICIT) {
      c.len = std::min<uint32_t>(c.len, 4 * B + 1);
      c.data = *bytes_len(c.len);
    } else {
      c.seed = *range<uint64_t>(0, 1000000);
    }
    c.align = *range<int>(0, 3) == 0 ? 0 : *range<int>(0, 63);
    c.out_align = *range<int>(0, 2) ? 0 : *range<int>(0, 15);
    int j = *range<int>(0, 3);
    c.junk = j == 0 ? 0x00 : j == 1 ? 0xff : j == 2 ? 0xA5 : *range<int>(0, 255);
    c.null_empty = *range<int>(0, 1);
    if (c.entry == SH_EP_STREAM) {
      c.splits = genSplits(c.len, B);
      c.isolate = *range<int>(0, 4) == 0;
      if (c.alg == SH_MD5 && *range<int>(0, 2) == 0) c.clone_at = *range<int>(1, (int)c.splits.size());
      if (c.len <= 4096 && *range<int>(0, 11) == 0) c.rep = *range<uint32_t>(2, 70);
      if (*range<int>(0, 3) == 0) {
        c.pre = 1;
        // same family so that the same context object can be used again
        int f = family(c.alg);
        c.pre_alg = f == 2 ? *range<int>(SH_SHA224, SH_SHA512) : f == 3 ? *range<int>(SH_GOST256, SH_GOST512) : c.alg;
        c.pre_len = *range<uint32_t>(0, 300);
      }
    }
    return c;
  });
}

// ---------- one execution against the shim ----------
static Verdict exec_one(void *h, int alg, int impl, int entry, const HCase &c, const Bytes &msg,
                        const std::vector<uint32_t> &splits, uint32_t rep, int clone_at, sh_res &rs, const char *what) {
  sh_req rq;
  memset(&rq, 0, sizeof rq);
  rq.alg = alg; rq.hmac = 0; rq.impl = impl; rq.entry = entry; rq.bits_form = c.bits_form; rq.nosize = c.nosize;
  rq.msg = msg.data(); rq.msg_len = (uint32_t)msg.size(); rq.msg_align = (uint32_t)c.align;
  rq.rep = rep; rq.splits = splits.data(); rq.nsplits = (uint32_t)splits.size();
  rq.isolate = c.isolate; rq.null_empty = c.null_empty; rq.clone_at = clone_at; rq.out_align = (uint32_t)c.out_align;
  sh_run(entry == SH_EP_STREAM ? h : nullptr, &rq, &rs);
  PBT_REQUIRE(rs.rc == 0, what << ": shim rejected the request (rc=" << rs.rc << ")");
  size_t hs = ALG[alg].hash;
  Bytes ref = ref_hash(alg, msg, entry == SH_EP_STREAM ? rep : 1);
  PBT_REQUIRE(rs.hash_size == hs && rs.block_size == ALG[alg].block, what << ": size constants differ");
  PBT_REQUIRE(rs.guard_ok, what << ": bytes after the " << (entry == SH_EP_HEXSTR ? 2 * hs + 1 : hs) << "-byte output buffer were written");
  if (entry == SH_EP_HEXSTR) {
    PBT_REQUIRE(rs.hex_nul_ok, what << ": digest string not NUL terminated at 2*hash_size");
    PBT_REQUIRE(std::string(rs.hex) == hex(ref), what << ": " << ALG[alg].name << " hex string " << rs.hex << " != lower-case hex of reference " << hex(ref));
    if (rs.size_ret != 0xffffffffu) PBT_REQUIRE(rs.size_ret == 2 * hs, what << ": digest_str_size " << rs.size_ret << " != " << 2 * hs);
  } else {
    Bytes got(rs.digest, rs.digest + hs);
    PBT_REQUIRE(got == ref, what << ": " << ALG[alg].name << "/" << IMPL_NAME[impl] << "/" << EP_NAME[entry] << " len=" << msg.size() << " rep=" << rep
                                 << " digest " << hex(got) << " != reference " << hex(ref));
    if (rs.size_ret != 0xffffffffu) PBT_REQUIRE(rs.size_ret == hs, what << ": digest_size " << rs.size_ret << " != " << hs);
  }
  if (entry == SH_EP_STREAM)
    PBT_REQUIRE(rs.ctx_nz < 0, what << ": context byte " << rs.ctx_nz << " of " << rs.ctx_size << " is not zero after " << ALG[alg].name << " final");
  return Verdict::pass();
}

static Verdict run_case(const HCase &c) {
  PBT_REQUIRE(c.alg >= 0 && c.alg < SH_ALG_COUNT && c.impl >= 0 && c.impl < SH_IMPL_COUNT, "malformed case");
  if (!(sh_impls(c.alg) & (1u << c.impl))) {
    // replay of a case saved on another variant: transform not compiled in here
    label("skipped:impl-not-in-variant");
    return Verdict::pass();
  }
  uint32_t B = (uint32_t)ALG[c.alg].block;
  Bytes msg = expand(c.kind, c.len, c.seed, c.data);
  std::vector<uint32_t> sp;
  uint64_t tot = 0;
  for (long long v : c.splits) { sp.push_back((uint32_t)v); tot += (uint32_t)v; }
  if (c.entry == SH_EP_STREAM) PBT_REQUIRE(tot == msg.size(), "malformed case: splits do not sum to len");
  int impl = c.entry == SH_EP_STREAM ? c.impl : SH_IMPL_DEFAULT;

  void *h = c.entry == SH_EP_STREAM ? sh_ctx_alloc(c.alg, 0, c.junk) : nullptr;
  struct Guard { void *h; ~Guard() { sh_ctx_free(h); } } guard{h};
  sh_res rs;
  if (c.entry == SH_EP_STREAM && c.pre && family(c.pre_alg) == family(c.alg)) {
    // first life of the context object
    Bytes pm = expand(K_RANDOM, c.pre_len, c.seed + 77, Bytes());
    std::vector<uint32_t> one{(uint32_t)pm.size()};
    HCase pc = c;
    pc.isolate = 0;
    Verdict v = exec_one(h, c.pre_alg, SH_IMPL_DEFAULT, SH_EP_STREAM, pc, pm, one, 1, -1, rs, "first use of the context");
    if (!v.ok) return v;
    label("ctx-reuse");
  }
  Verdict v = exec_one(h, c.alg, impl, c.entry, c, msg, sp, c.entry == SH_EP_STREAM && c.rep ? c.rep : 1, c.clone_at, rs, "run");
  if (!v.ok) return v;

  // ---- labels and the non-trivial rule (DESIGN 4 C04) ----
  bool nt = false;
  label(std::string("alg:") + ALG[c.alg].name);
  label(std::string("entry:") + EP_NAME[c.entry]);
  label(std::string("kind:") + KIND_NAME[c.kind]);
  uint32_t rep = c.entry == SH_EP_STREAM && c.rep ? c.rep : 1;
  uint64_t total = (uint64_t)msg.size() * rep;
  if (c.entry == SH_EP_STREAM) {
    label(std::string("impl:") + ALG[c.alg].name + "/" + IMPL_NAME[impl]);
    bool nonblock = false, fill_exact = false, empty = false, bulk_unaligned = false;
    uint64_t off = 0;
    for (uint32_t r = 0; r < rep; r++) {
      uint32_t o = 0;  // offset inside the message buffer (the program restarts for every repetition)
      for (size_t i = 0; i < sp.size(); i++) {
        uint32_t n = sp[i];
        if (n == 0) empty = true;
        if (n && off % B && (off % B) + n == B) fill_exact = true;
        if (n >= 2 * B && ((c.align + (c.isolate ? 0 : o)) % 64)) bulk_unaligned = true;
        off += n;
        o += n;
        if (off && off < total && off % B) nonblock = true;
      }
    }
    if (total > B && nonblock) { label("split:not-on-block-boundary"); nt = true; }
    if (fill_exact) label("split:update-completes-block-exactly");
    if (empty) label(c.null_empty ? "split:empty-update(NULL)" : "split:empty-update");
    if (bulk_unaligned) { label("unaligned-bulk>=2blocks"); nt = true; }
    if (impl != SH_IMPL_DEFAULT && (uint32_t)impl != rs.default_impl) { label("forced-non-default-transform"); nt = true; }
    if (impl != SH_IMPL_DEFAULT && (uint32_t)impl == rs.default_impl) label("forced-same-as-default");
    if (c.isolate) label("isolated-updates");
    if (c.clone_at > 0 && c.clone_at <= (int)sp.size()) label("ctx-clone(memcpy)");
    if (rep > 1) label("repeated-program");
    if (sp.size() == 1) label("split:single-update");
  } else {
    if (c.align % 64 && msg.size() >= 2 * B) { label("unaligned-bulk>=2blocks"); nt = true; }
  }
  if (is_edge_len(total, B, c.alg)) { label("len:padding-edge"); nt = true; }
  if (total == 0) label("len:0");
  else if (total <= 2 * B + 1) label("len:<=2blocks+1");
  else if (total <= 4 * B + 1) label("len:<=4blocks+1");
  else if (total < 4096) label("len:<4KiB");
  else label("len:>=4KiB");
  if (c.align) label("align!=0");
  if (nt) nontrivial_cur();
  return Verdict::pass();
}

// ---------- enumerations ----------
// every length 0..L (L = 2 blocks + 1 quick, 4 blocks + 1 thorough) x every compiled-in transform x
// {one-shot, hex, single update, split at 1 / block-1 / block / block+1}
static void enum_lens(double scale) {
  bool full = scale >= 3.0;
  set_exhaustive(full);
  for (int alg = 0; alg < SH_ALG_COUNT; alg++) {
    uint32_t B = (uint32_t)ALG[alg].block;
    uint32_t L = full ? 4 * B + 1 : scale < 0.5 ? B + 9 : 2 * B + 1;
    for (int impl : impls_of(alg)) {
      for (uint32_t len = 0; len <= L; len++) {
        HCase c;
        c.alg = alg; c.kind = K_RANDOM; c.len = len; c.seed = len * 131 + alg;
        c.junk = 0xA5;
        for (int mode = 0; mode < 5; mode++) {
          HCase d = c;
          if (mode == 0) { if (impl != SH_IMPL_DEFAULT) continue; d.entry = SH_EP_ONESHOT; }
          else if (mode == 1) { if (impl != SH_IMPL_DEFAULT) continue; d.entry = SH_EP_HEXSTR; }
          else {
            d.entry = SH_EP_STREAM; d.impl = impl;
            if (mode == 2) d.splits = {len};
            else if (mode == 3) {  // 1, then up to block-1 (fills the block exactly), rest
              if (len < 2) continue;
              long long a = 1, b = std::min<long long>(B - 1, len - 1);
              d.splits = {a, b, (long long)len - a - b};
            } else {  // block+1, rest  /  block-1, 1(+), rest
              if (len <= B) continue;
              if (len & 1) d.splits = {(long long)B + 1, (long long)len - B - 1};
              else d.splits = {(long long)B - 1, 0, 2, (long long)len - B - 1};
            }
          }
          if (!enum_case(d.ser(), [&]() { return run_case(d); })) return;
        }
      }
    }
  }
}
// every source alignment 0..63 x lengths that take the zero-copy bulk path x every compiled-in transform
static void enum_aligns(double scale) {
  set_exhaustive(true);
  for (int alg = 0; alg < SH_ALG_COUNT; alg++) {
    uint32_t B = (uint32_t)ALG[alg].block;
    const uint32_t lens[] = {B - 1, 2 * B, 2 * B + 1, 4 * B + 3, 9 * B + 17};
    for (int impl : impls_of(alg))
      for (int al = 0; al < 64; al++)
        for (uint32_t len : lens) {
          if (scale < 0.5 && len == 9 * B + 17) continue;
          HCase c;
          c.alg = alg; c.kind = K_RANDOM; c.len = len; c.seed = len + 7 * al; c.align = al; c.out_align = al & 15;
          if (impl == SH_IMPL_DEFAULT) {
            c.entry = SH_EP_ONESHOT;
            if (!enum_case(c.ser(), [&]() { return run_case(c); })) return;
          }
          c.entry = SH_EP_STREAM; c.impl = impl;
          c.splits = {len};
          if (!enum_case(c.ser(), [&]() { return run_case(c); })) return;
          c.splits = {1, (long long)len - 1};  // bulk path starts at align+1 after a buffered byte
          if (!enum_case(c.ser(), [&]() { return run_case(c); })) return;
        }
  }
}
// bit length crossing 2^32 (512 MiB + 3 bytes fed as 1 MiB updates): fast algorithms only
static void enum_long(double scale) {
  if (sh_info(SH_INFO_SMALL_TABLES) || sh_info(SH_INFO_ASAN)) return;
  // quick tier: the two fastest algorithms only (about 1 s each incl. the reference); thorough: all four
  const std::vector<int> algsL = (scale < 3.0) ? std::vector<int>{SH_MD5, SH_SHA1} : std::vector<int>{SH_MD5, SH_SHA1, SH_SHA256, SH_SHA512};
  for (int alg : algsL) {
    HCase c;
    c.alg = alg; c.entry = SH_EP_STREAM; c.impl = SH_IMPL_DEFAULT; c.kind = K_COUNTER; c.seed = 3;
    c.len = (1u << 20) + 3; c.rep = 512;  // 512 * (1 MiB + 3) bytes > 2^29 bytes = 2^32 bits
    c.splits = {(long long)(1u << 20), 3};
    if (!enum_case(c.ser(), [&]() { return run_case(c); })) return;
  }
}

int main(int argc, char **argv) {
  anchors();
  // budget only (same generator everywhere): bit-serial small-table Streebog and sanitised builds are 5-10x slower
  int budget = (sh_info(SH_INFO_SMALL_TABLES) || sh_info(SH_INFO_ASAN)) ? 10000 : 40000;
  add_check<HCase>("hash", budget, 100, genCase, run_case);
  auto rt = [](const std::string &t) { return run_case(HCase::parse(t)); };
  add_enum_check("enum_lens", 100, enum_lens, rt);
  add_enum_check("enum_aligns", 100, enum_aligns, rt);
  add_enum_check("enum_long", 100, enum_long, rt);
  int rc = driver_main(argc, argv);
  // an interesting class that was never generated means the check is broken, not that the property held
  if (rc == 0 && !st().replay && st().only.empty() && st().stats.count("hash") && st().stats["hash"].evals >= 2000) {
    std::vector<std::string> need = {"split:not-on-block-boundary", "len:padding-edge", "unaligned-bulk>=2blocks",
                                     "split:update-completes-block-exactly", "ctx-reuse", "ctx-clone(memcpy)", "len:>=4KiB", "entry:hexstr"};
    bool simd = false;
    for (int a = 0; a < SH_ALG_COUNT; a++) simd = simd || impls_of(a).size() > 2;
    if (simd) need.push_back("forced-non-default-transform");
    for (auto &l : need)
      if (!st().stats["hash"].labels.count(l)) {
        fprintf(stderr, "CHECK-BROKEN: label class '%s' empty in check hash\n", l.c_str());
        rc = 2;
      }
  }
  return rc;
}
