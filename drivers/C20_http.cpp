// C20 -- HTTP request parsing and smuggling checks agree with RFC 7230.
// rapidcheck driver over shims/http_shim.c (+ repo:src/proto/http.c).
//
// The oracle is the generator itself (refimpl/http_ref.hpp): messages are built
// from the RFC 7230 / RFC 3986 grammar and every span is recorded while the
// bytes are written; the security verdict comes from a separate small reference
// of the rules listed in the comment of http_req_sec_chk. Nothing here calls
// liblcb to judge liblcb.
#include "pbt.hpp"
#include "../shims/http_abi.h"
#include "http_ref.hpp"
#include <cerrno>

using namespace pbt;
using httpref::Field;
using httpref::Msg;
using httpref::QPiece;
using httpref::Span;

// ------------------------------------------------------------------ case = recorded message
struct HCase {
  Msg m;
  std::string ser() const {
    Writer w;
    w.i("resp", m.is_resp).i("spans_valid", m.spans_valid).s("buf", m.buf).i("form", m.form).u("mcode", m.method_code);
    w.i("vmaj", m.vmaj).i("vmin", m.vmin).i("line", m.line_size).u("status", m.status).i("layout", m.layout).i("edit", m.edit).i("ebyte", m.edit_byte);
    std::vector<long long> sp = {m.method.off, m.method.len, m.uri.off, m.uri.len, m.scheme.off, m.scheme.len, m.host.off, m.host.len,
                                 m.path.off,   m.path.len,   m.query.off, m.query.len, m.reason.off, m.reason.len};
    w.iv("spans", sp);
    std::vector<long long> fv, qv;
    for (auto &f : m.fields) { fv.push_back(f.name.off); fv.push_back(f.name.len); fv.push_back(f.val.off); fv.push_back(f.val.len); fv.push_back(f.line.off); fv.push_back(f.line.len); fv.push_back(f.folds); }
    for (auto &q : m.qpieces) { qv.push_back(q.off); qv.push_back(q.len); qv.push_back(q.name_len); qv.push_back(q.has_eq); }
    w.iv("fields", fv).iv("qpieces", qv);
    return w.str();
  }
  static HCase parse(const std::string &t) {
    Reader r(t);
    HCase c;
    Msg &m = c.m;
    m.is_resp = (int)r.i("resp");
    m.spans_valid = (int)r.i("spans_valid", 1);
    m.buf = r.s("buf");
    m.form = (int)r.i("form");
    m.method_code = (unsigned)r.u("mcode");
    m.vmaj = (int)r.i("vmaj"); m.vmin = (int)r.i("vmin");
    m.line_size = (long)r.i("line");
    m.status = (unsigned)r.u("status");
    m.layout = (int)r.i("layout");
    m.edit = (int)r.i("edit");
    m.edit_byte = (int)r.i("ebyte");
    std::vector<long long> sp = r.iv("spans");
    sp.resize(14, 0);
    Span *ss[] = {&m.method, &m.uri, &m.scheme, &m.host, &m.path, &m.query, &m.reason};
    for (int i = 0; i < 7; i++) { ss[i]->off = (long)sp[2 * i]; ss[i]->len = (long)sp[2 * i + 1]; }
    std::vector<long long> fv = r.iv("fields"), qv = r.iv("qpieces");
    for (size_t i = 0; i + 6 < fv.size(); i += 7) {
      Field f;
      f.name.off = (long)fv[i]; f.name.len = (long)fv[i + 1]; f.val.off = (long)fv[i + 2]; f.val.len = (long)fv[i + 3];
      f.line.off = (long)fv[i + 4]; f.line.len = (long)fv[i + 5]; f.folds = (int)fv[i + 6];
      m.fields.push_back(f);
    }
    for (size_t i = 0; i + 3 < qv.size(); i += 4) {
      QPiece q;
      q.off = (long)qv[i]; q.len = (long)qv[i + 1]; q.name_len = (long)qv[i + 2]; q.has_eq = (int)qv[i + 3];
      m.qpieces.push_back(q);
    }
    return c;
  }
};
void showValue(const HCase &c, std::ostream &os) { os << c.ser(); }

// the case file must describe spans inside the buffer (replay files may be hand-written)
static bool span_ok(const Msg &m, const Span &s) { return !s.present() || (s.len >= 0 && (size_t)(s.off + s.len) <= m.buf.size()); }
static bool case_ok(const Msg &m) {
  for (const Span *s : {&m.method, &m.uri, &m.scheme, &m.host, &m.path, &m.query, &m.reason})
    if (!span_ok(m, *s)) return false;
  for (auto &f : m.fields)
    if (!span_ok(m, f.name) || !span_ok(m, f.val) || !span_ok(m, f.line) || !f.name.present()) return false;
  if (!m.qpieces.empty() && !m.query.present()) return false;
  for (auto &q : m.qpieces)
    if (q.off < 0 || q.len < 0 || q.off + q.len > m.query.len || q.name_len > q.len) return false;
  return true;
}

static rc::Gen<HCase> genMsg(bool resp) {
  return rc::gen::exec([resp]() {
    httpref::Gen g([](unsigned n) -> unsigned { return n <= 1 ? 0u : *range<unsigned>(0, n - 1); });
    HCase c;
    if (resp) c.m = g.response();
    else {
      unsigned k = g.pick(20);
      int edit = k < 11 ? httpref::E_NONE : 1 + (int)g.pick(7);
      c.m = g.request(edit);
    }
    return c;
  });
}

static std::string esc(const std::string &s) { return json_escape(s); }
static std::string lower(std::string s) {
  for (auto &c : s) if (c >= 'A' && c <= 'Z') c = (char)(c + 32);
  return s;
}
static std::string flipcase(std::string s) {
  for (auto &c : s) {
    if (c >= 'A' && c <= 'Z') c = (char)(c + 32);
    else if (c >= 'a' && c <= 'z') c = (char)(c - 32);
  }
  return s;
}
static std::string strip_slashes(const std::string &s) {
  size_t b = 0, e = s.size();
  while (b < e && s[b] == '/') b++;
  while (e > b && s[e - 1] == '/') e--;
  return s.substr(b, e - b);
}
static std::string span_dbg(const Msg &m, long off, long size) {
  std::ostringstream o;
  if (off == HS_NULL) { o << "NULL/" << size; return o.str(); }
  if (off == HS_OUTSIDE) { o << "pointer outside the input/" << size; return o.str(); }
  o << off << "+" << size;
  if (size >= 0 && (size_t)(off + size) <= m.buf.size()) o << " \"" << esc(m.buf.substr((size_t)off, (size_t)size)) << "\"";
  else o << " (runs past the input)";
  return o.str();
}
#define REQ_SPAN(what_, o_, s_, e_)                                                                                                           \
  PBT_REQUIRE((e_).present() ? ((o_) == (e_).off && (s_) == (e_).len) : ((o_) == HS_NULL && (s_) == 0),                                        \
              what_ << " = " << span_dbg(m, (o_), (s_)) << ", grammar says " << ((e_).present() ? span_dbg(m, (e_).off, (e_).len) : "absent") \
                    << " in \"" << esc(m.buf.substr(0, (size_t)m.line_size)) << "\"")

// ------------------------------------------------------------------ header lookup against the recorded field list
static Verdict check_lookup(const Msg &m, const std::string &name) {
  std::vector<const Field *> match;
  for (auto &f : m.fields)
    if (httpref::ieq(httpref::sub(m, f.name), name)) match.push_back(&f);
  if (match.size() > 60) return Verdict::pass();
  int what = 3;
  // class owned by C13 (H-PR-1): the last field has an empty / blank value and the buffer ends right behind it:
  // skip_spwsp2() reads one byte past the input. Values are unaffected; under the predicate only the count is asked for.
  if (!match.empty() && m.layout == 0 && match.back() == &m.fields.back() && match.back()->val.len == 0) {
    label("lookup:empty_value_at_buffer_end");
    nontrivial_cur();
    if (known("http_hdr_blank_last_value_overread")) {
      excluded("http_hdr_blank_last_value_overread");
      what = 2;
    }
  }
  hs_hdr h;
  hs_hdr_lookup((const uint8_t *)m.buf.data(), m.buf.size(), (const uint8_t *)name.data(), name.size(), what, &h);
  label(match.empty() ? "lookup:absent" : match.size() == 1 ? "lookup:single" : "lookup:repeated");
  PBT_REQUIRE(h.count == match.size(), "http_hdr_val_get_count(\"" << esc(name) << "\") = " << h.count << ", the block has " << match.size() << " such field(s): \"" << esc(m.buf) << "\"");
  if (!(what & 1)) return Verdict::pass();
  PBT_REQUIRE(h.last_rc != HS_NOPROGRESS, "http_hdr_val_get_ex(\"" << esc(name) << "\") did not advance offset_next");
  PBT_REQUIRE((size_t)h.n == match.size(), "iterating http_hdr_val_get_ex(\"" << esc(name) << "\") yields " << h.n << " value(s), the block has " << match.size() << ": \"" << esc(m.buf) << "\"");
  PBT_REQUIRE(h.last_rc != 0, "harness: iteration stopped early");
  PBT_REQUIRE((h.first_rc == 0) == !match.empty(), "http_hdr_val_get(\"" << esc(name) << "\") = " << h.first_rc << " with " << match.size() << " matching field(s)");
  for (size_t i = 0; i < match.size(); i++) {
    const Span &v = match[i]->val;
    if (match[i]->folds) label("lookup:folded_value");
    bool ok = h.size[i] == v.len && (v.len == 0 ? (h.off[i] >= 0) : (h.off[i] == v.off));
    PBT_REQUIRE(ok, "http_hdr_val_get_ex(\"" << esc(name) << "\") value #" << i << " = " << span_dbg(m, h.off[i], h.size[i]) << ", grammar says "
                                             << span_dbg(m, v.off, v.len) << " in \"" << esc(m.buf) << "\"");
  }
  if (!match.empty()) {
    const Span &v = match[0]->val;
    PBT_REQUIRE(h.first_size == v.len && (v.len == 0 || h.first_off == v.off), "http_hdr_val_get(\"" << esc(name) << "\") = " << span_dbg(m, h.first_off, h.first_size)
                                                                                << ", first field is " << span_dbg(m, v.off, v.len));
  }
  return Verdict::pass();
}

static Verdict check_all_lookups(const Msg &m) {
  std::vector<std::string> names = {"host", "content-length", "transfer-encoding", "x-not-there", "h"};
  for (auto &f : m.fields) {
    std::string n = httpref::sub(m, f.name);
    names.push_back(lower(n));          // what in-tree callers pass
    names.push_back(n);                 // as written
    names.push_back(flipcase(n));
    if (n.size() > 1) names.push_back(lower(n.substr(0, n.size() - 1)));  // proper prefix of a present name
    names.push_back(lower(n) + "-extra");                                  // present name is a prefix of the asked one
    if (n.size() > 1) names.push_back(lower(n.substr(1)));                // suffix
  }
  std::sort(names.begin(), names.end());
  names.erase(std::unique(names.begin(), names.end()), names.end());
  for (auto &n : names) {
    if (n.empty()) continue;
    Verdict v = check_lookup(m, n);
    if (!v.ok) return v;
  }
  return Verdict::pass();
}

// ------------------------------------------------------------------ query access against the recorded pieces
static std::vector<std::string> split_amp(const std::string &q) {
  std::vector<std::string> r;
  size_t st = 0;
  for (;;) {
    size_t p = q.find('&', st);
    std::string t = q.substr(st, p == std::string::npos ? std::string::npos : p - st);
    if (!t.empty()) r.push_back(t);
    if (p == std::string::npos) break;
    st = p + 1;
  }
  return r;
}
static Verdict check_query(const Msg &m) {
  std::string q = httpref::sub(m, m.query);
  auto pname = [&](const QPiece &p) { return q.substr((size_t)p.off, (size_t)p.name_len); };
  std::vector<std::string> keys = {"zz-absent"};
  for (auto &p : m.qpieces) keys.push_back(pname(p));
  std::sort(keys.begin(), keys.end());
  keys.erase(std::unique(keys.begin(), keys.end()), keys.end());
  bool valueless_before_pair = false;
  {
    bool seen = false;
    for (auto &p : m.qpieces) {
      if (!p.has_eq) seen = true;
      else if (seen) valueless_before_pair = true;
    }
  }
  for (auto &k : keys) {
    // spellings differing only in case, or a key that also occurs without '=': the comment "[&]val_name=val[&]" does not say
    bool ambiguous = false;
    int target = -1;
    for (size_t i = 0; i < m.qpieces.size(); i++) {
      std::string n = pname(m.qpieces[i]);
      if (!httpref::ieq(n, k)) continue;
      if (n != k || !m.qpieces[i].has_eq) ambiguous = true;
      else if (target < 0) target = (int)i;
    }
    if (ambiguous) { label("query:unspecified_key_spelling"); continue; }
    long no = 0, vo = 0, vs = 0;
    // ---- get
    bool hidden = target > 0 && !m.qpieces[(size_t)target - 1].has_eq;
    if (hidden && known("http_query_pair_after_valueless_key")) {
      excluded("http_query_pair_after_valueless_key");
    } else {
      int rc = hs_query_get((const uint8_t *)q.data(), q.size(), (const uint8_t *)k.data(), k.size(), &no, &vo, &vs);
      if (target < 0) {
        label("query:get_absent");
        PBT_REQUIRE(rc != 0, "http_query_val_get_ex(\"" << esc(q) << "\", \"" << k << "\") = 0 although no such key exists");
      } else {
        const QPiece &p = m.qpieces[(size_t)target];
        label(hidden ? "query:get_after_valueless_key" : "query:get_present");
        PBT_REQUIRE(rc == 0, "http_query_val_get_ex(\"" << esc(q) << "\", \"" << k << "\") = " << rc << " although the query holds " << esc(q.substr((size_t)p.off, (size_t)p.len)));
        PBT_REQUIRE(no == p.off && vo == p.off + p.name_len + 1 && vs == p.len - p.name_len - 1,
                    "http_query_val_get_ex(\"" << esc(q) << "\", \"" << k << "\") returns name@" << no << " value@" << vo << "+" << vs << ", the first such pair is at " << p.off
                                               << " with value@" << (p.off + p.name_len + 1) << "+" << (p.len - p.name_len - 1));
      }
    }
    // ---- del
    if (valueless_before_pair && known("http_query_pair_after_valueless_key")) {
      excluded("http_query_pair_after_valueless_key");
      continue;
    }
    std::vector<std::string> want;
    size_t removed = 0;
    for (auto &p : m.qpieces) {
      if (p.has_eq && pname(p) == k) removed++;
      else want.push_back(q.substr((size_t)p.off, (size_t)p.len));
    }
    Bytes qb(q.begin(), q.end());
    qb.resize(q.size() + 1);
    size_t nl = 0;
    size_t cnt = hs_query_del(qb.data(), q.size(), (const uint8_t *)k.data(), k.size(), &nl);
    label(removed == 0 ? "query:del_none" : removed == 1 ? "query:del_one" : "query:del_many");
    PBT_REQUIRE(nl <= q.size(), "http_query_val_del(\"" << esc(q) << "\", \"" << k << "\") reports size " << nl << " > " << q.size());
    std::string after((const char *)qb.data(), nl);
    PBT_REQUIRE(cnt == removed, "http_query_val_del(\"" << esc(q) << "\", \"" << k << "\") removed " << cnt << ", the query holds " << removed << " such pair(s); result \"" << esc(after) << "\"");
    PBT_REQUIRE(split_amp(after) == want, "http_query_val_del(\"" << esc(q) << "\", \"" << k << "\") leaves \"" << esc(after) << "\"");
  }
  return Verdict::pass();
}

// ------------------------------------------------------------------ check "req"
static Verdict run_req(const HCase &c) {
  const Msg &m = c.m;
  PBT_REQUIRE(case_ok(m) && !m.is_resp, "bad case: spans outside the buffer");
  static const char *forms[] = {"origin", "absolute", "authority", "asterisk"};
  static const char *edits[] = {"none", "ctrl_byte", "sp_before_colon", "dup_host", "dup_content_length", "dup_transfer_encoding", "both_framing", "content_length_on_get"};
  PBT_REQUIRE(m.form >= 0 && m.form <= 3 && m.edit >= 0 && m.edit <= 7, "bad case: form/edit");
  label(std::string("form:") + forms[m.form]);
  label(std::string("edit:") + edits[m.edit]);
  label(m.layout == 0 ? "layout:no_final_crlf" : m.layout == 1 ? "layout:crlf" : "layout:crlfcrlf");
  std::string path = httpref::sub(m, m.path), uri = httpref::sub(m, m.uri);
  bool folded = false, dup = false;
  for (size_t i = 0; i < m.fields.size(); i++) {
    folded = folded || m.fields[i].folds;
    for (size_t j = 0; j < i; j++) dup = dup || httpref::ieq(httpref::sub(m, m.fields[i].name), httpref::sub(m, m.fields[j].name));
  }
  bool rep_slash = path.find("//") != std::string::npos;
  if (folded) label("hdr:folded");
  if (dup) label("hdr:repeated_name");
  if (rep_slash) label("path:repeated_slashes");
  if (m.fields.empty()) label("hdr:none");
  if (m.form == httpref::ABSOLUTE || rep_slash || folded || dup || m.edit != httpref::E_NONE) nontrivial_cur();

  // ---- security verdict (both directions), reference = rules 1-7 of the comment
  unsigned viol = httpref::sec_violations(m);
  PBT_REQUIRE((m.edit == httpref::E_NONE) == (viol == 0), "harness: generator and reference disagree (edit " << edits[m.edit] << ", rules " << viol << ") on \"" << esc(m.buf) << "\"");
  int sec = hs_sec_chk((const uint8_t *)m.buf.data(), m.buf.size(), m.method_code);
  if (viol == 0) {
    PBT_REQUIRE(sec == 0, "http_req_sec_chk = " << sec << " for a grammar block without any listed pattern: \"" << esc(m.buf) << "\"");
  } else {
    PBT_REQUIRE(sec != 0, "http_req_sec_chk = 0 for a block with " << edits[m.edit] << " (rule mask " << viol << "): \"" << esc(m.buf) << "\"");
    if (__builtin_popcount(viol) == 1) {
      int rule = __builtin_ctz(viol);
      PBT_REQUIRE(sec == rule, "http_req_sec_chk = " << sec << ", only rule " << rule << " (" << edits[m.edit] << ") is violated: \"" << esc(m.buf) << "\"");
    } else label("sec:several_rules");
  }
  if (!m.spans_valid) return Verdict::pass();

  // ---- method recogniser
  std::string meth = httpref::sub(m, m.method);
  label(m.method_code ? "method:known" : "method:unknown_token");
  unsigned mc = hs_method((const uint8_t *)meth.data(), meth.size());
  PBT_REQUIRE(mc == m.method_code, "http_get_method_fast(\"" << esc(meth) << "\") = " << mc << ", table says " << m.method_code);

  // ---- request line
  bool cls_marker = m.form == httpref::ORIGIN && uri.find("://") != std::string::npos;
  bool cls_nopath = m.form == httpref::ABSOLUTE && m.path.len == 0 && m.query.present();
  bool skip_line = false;
  if (cls_marker) {
    label("target:origin_form_with_scheme_marker");
    nontrivial_cur();
    if (known("http_req_origin_form_scheme_marker")) { excluded("http_req_origin_form_scheme_marker"); skip_line = true; }
  }
  if (cls_nopath) {
    label("target:absolute_form_query_without_path");
    if (known("http_req_absolute_form_query_without_path")) { excluded("http_req_absolute_form_query_without_path"); skip_line = true; }
  }
  if (!skip_line) {
    hs_req r;
    hs_parse_req((const uint8_t *)m.buf.data(), m.buf.size(), &r);
    std::string line = esc(m.buf.substr(0, (size_t)m.line_size));
    PBT_REQUIRE(r.rc == 0, "http_parse_req_line = " << r.rc << " for the well-formed line \"" << line << "\"");
    PBT_REQUIRE(r.line_size == m.line_size, "line_size = " << r.line_size << ", expected " << m.line_size << " for \"" << line << "\"");
    REQ_SPAN("method", r.method_off, r.method_size, m.method);
    PBT_REQUIRE(r.method_code == m.method_code, "method_code = " << r.method_code << ", expected " << m.method_code << " for \"" << line << "\"");
    REQ_SPAN("uri", r.uri_off, r.uri_size, m.uri);
    REQ_SPAN("scheme", r.scheme_off, r.scheme_size, m.scheme);
    REQ_SPAN("host", r.host_off, r.host_size, m.host);
    if (m.query.present() && m.query.len == 0) {
      PBT_REQUIRE(r.query_size == 0 && r.query_off != HS_OUTSIDE, "query = " << span_dbg(m, r.query_off, r.query_size) << ", grammar says empty query in \"" << line << "\"");
    } else {
      REQ_SPAN("query", r.query_off, r.query_size, m.query);
    }
    if (!m.path.present()) {
      PBT_REQUIRE(r.path_off == HS_NULL && r.path_size == 0, "abs_path = " << span_dbg(m, r.path_off, r.path_size) << " for an authority-form target in \"" << line << "\"");
    } else {
      // the library documents "Skip slash~s from head" / "Remove slash~s from tail": compare modulo leading/trailing '/' runs
      PBT_REQUIRE(r.path_off >= 0 && r.path_size >= 0 && r.path_off + r.path_size <= (long)m.buf.size(), "abs_path = " << span_dbg(m, r.path_off, r.path_size) << " is not a sub-span of the input \"" << line << "\"");
      std::string got = m.buf.substr((size_t)r.path_off, (size_t)r.path_size);
      bool inside = m.path.len == 0 ? r.path_size == 0 : (r.path_off >= m.path.off && r.path_off + r.path_size <= m.path.off + m.path.len);
      PBT_REQUIRE(inside && strip_slashes(got) == strip_slashes(path) && (path.empty() || !got.empty()),
                  "abs_path = " << span_dbg(m, r.path_off, r.path_size) << ", grammar says " << span_dbg(m, m.path.off, m.path.len) << " (compared modulo leading/trailing slashes) in \"" << line << "\"");
      if (got != path) label("path:trimmed_by_library");
    }
    unsigned ver = ((unsigned)m.vmaj << 16) | (unsigned)m.vmin;
    PBT_REQUIRE(r.proto_ver == ver, "proto_ver = " << r.proto_ver << ", expected " << ver << " for \"" << line << "\"");
  }
  // ---- header fields
  Verdict v = check_all_lookups(m);
  if (!v.ok) return v;
  // ---- query
  if (m.query.present()) {
    label(m.qpieces.empty() ? "query:empty" : "query:present");
    v = check_query(m);
    if (!v.ok) return v;
  }
  return Verdict::pass();
}

// ------------------------------------------------------------------ check "resp"
static Verdict run_resp(const HCase &c) {
  const Msg &m = c.m;
  PBT_REQUIRE(case_ok(m) && m.is_resp && m.reason.present(), "bad case: spans outside the buffer");
  bool folded = false, dup = false;
  for (size_t i = 0; i < m.fields.size(); i++) {
    folded = folded || m.fields[i].folds;
    for (size_t j = 0; j < i; j++) dup = dup || httpref::ieq(httpref::sub(m, m.fields[i].name), httpref::sub(m, m.fields[j].name));
  }
  if (folded || dup) nontrivial_cur();
  label(m.reason.len == 0 ? "reason:empty" : "reason:text");
  hs_resp r;
  hs_parse_resp((const uint8_t *)m.buf.data(), m.buf.size(), &r);
  std::string line = esc(m.buf.substr(0, (size_t)m.line_size));
  if (m.buf.size() < 14) {
    // "HTTP/1.1 200 " alone is 13 bytes; the function documents 14 as its minimum input size
    label(r.rc == 0 ? "resp:13_bytes_accepted" : "resp:13_bytes_refused");
    return Verdict::pass();
  }
  PBT_REQUIRE(r.rc == 0, "http_parse_resp_line = " << r.rc << " for the well-formed line \"" << line << "\"");
  PBT_REQUIRE(r.line_size == m.line_size, "line_size = " << r.line_size << ", expected " << m.line_size << " for \"" << line << "\"");
  unsigned ver = ((unsigned)m.vmaj << 16) | (unsigned)m.vmin;
  PBT_REQUIRE(r.proto_ver == ver, "proto_ver = " << r.proto_ver << ", expected " << ver << " for \"" << line << "\"");
  PBT_REQUIRE(r.status_code == m.status, "status_code = " << r.status_code << ", expected " << m.status << " for \"" << line << "\"");
  PBT_REQUIRE(r.reason_size == m.reason.len && (r.reason_off == m.reason.off || (m.reason.len == 0 && r.reason_off >= 0)),
              "reason = " << span_dbg(m, r.reason_off, r.reason_size) << ", expected " << span_dbg(m, m.reason.off, m.reason.len) << " for \"" << line << "\"");
  return check_all_lookups(m);
}

// ------------------------------------------------------------------ enumerations: method recogniser, reason table
static void enum_tables(double) {
  set_exhaustive(true);
  static const char *known[] = {"OPTIONS", "GET", "HEAD", "POST", "PUT", "DELETE", "TRACE", "CONNECT", "NOTIFY", "M-SEARCH", "M-POST", "SUBSCRIBE", "UNSUBSCRIBE"};
  // every known method, every single-character substitution / truncation / extension of it
  for (const char *k : known) {
    std::string base = k;
    std::vector<std::string> cand = {base, base + "X", base.substr(0, base.size() - 1), lower(base)};
    for (size_t i = 0; i < base.size(); i++)
      for (char ch : {'A', 'Z', 'a', '-', 'E', 'T', 'S'}) {
        std::string t = base;
        t[i] = ch;
        cand.push_back(t);
      }
    for (auto &t : cand) {
      Writer w;
      w.i("kind", 0).s("tok", t);
      if (!enum_case(w.str(), [&]() -> Verdict {
            unsigned got = hs_method((const uint8_t *)t.data(), t.size()), want = httpref::method_code_of(t);
            label(want ? "method_enum:known" : "method_enum:unknown");
            PBT_REQUIRE(got == want, "http_get_method_fast(\"" << t << "\") = " << got << ", table says " << want);
            return Verdict::pass();
          }))
        return;
    }
  }
  // http_get_err_descr: the reported size is the length of the phrase, for every status code
  for (unsigned s = 0; s < 1000; s++) {
    Writer w;
    w.i("kind", 1).u("status", s);
    if (!enum_case(w.str(), [&]() -> Verdict {
          char t[128];
          size_t sz = 0;
          size_t n = hs_err_descr(s, t, sizeof t, &sz);
          label(n ? "descr_enum:phrase" : "descr_enum:none");
          PBT_REQUIRE(sz == n, "http_get_err_descr(" << s << ") reports size " << sz << " for \"" << t << "\" (" << n << " chars)");
          return Verdict::pass();
        }))
      return;
  }
}
static Verdict run_tables_text(const std::string &t) {
  Reader r(t);
  if (r.i("kind") == 0) {
    std::string tok = r.s("tok");
    unsigned got = hs_method((const uint8_t *)tok.data(), tok.size()), want = httpref::method_code_of(tok);
    PBT_REQUIRE(got == want, "http_get_method_fast(\"" << tok << "\") = " << got << ", table says " << want);
    return Verdict::pass();
  }
  char b[128];
  size_t sz = 0, n = hs_err_descr((unsigned)r.u("status"), b, sizeof b, &sz);
  PBT_REQUIRE(sz == n, "http_get_err_descr(" << r.u("status") << ") reports size " << sz << " for \"" << b << "\"");
  return Verdict::pass();
}

int main(int argc, char **argv) {
  add_check<HCase>("req", 60000, 100, []() { return genMsg(false); }, run_req);
  add_check<HCase>("resp", 15000, 100, []() { return genMsg(true); }, run_resp);
  add_enum_check("tables_enum", 100, enum_tables, run_tables_text);
  return driver_main(argc, argv);
}
